/- Helper lemmas for the re-parsed-unsigned-message theorems of Props/C18.lean (C18): the bytes of a
   parsed stream are the concatenation of its records; where `splitOffset` cuts an ascending stream. -/
import LdkModel.Model.OfferMirror
namespace Ldk.OfferMirror
open Ldk.Merkle (Rec parseStream splitRecords readBigSize isSig nonSig)

theorem recsBytes_append (a b : List Rec) : recsBytes (a ++ b) = recsBytes a ++ recsBytes b := by
  simp [recsBytes]

theorem recsBytes_cons (r : Rec) (b : List Rec) : recsBytes (r :: b) = r.recordBytes ++ recsBytes b := by
  simp [recsBytes]

/-- the records of a parsed stream, concatenated, ARE the stream -/
theorem splitRecords_bytes : ∀ (fuel : Nat) (b : Bytes) (rs : List Rec),
    splitRecords fuel b = some rs → recsBytes rs = b := by
  intro fuel
  induction fuel with
  | zero =>
    intro b rs h
    unfold splitRecords at h
    split at h
    · rename_i he
      cases h
      simpa [recsBytes] using (List.isEmpty_iff.mp he).symm
    · cases h
  | succ n ih =>
    intro b rs h
    unfold splitRecords at h
    split at h
    · rename_i he
      cases h
      simpa [recsBytes] using (List.isEmpty_iff.mp he).symm
    · split at h
      · cases h
      · split at h
        · cases h
        · dsimp only at h
          split at h
          · cases h
          · split at h
            · cases h
            · rename_i rest hrest
              cases h
              rw [recsBytes_cons, ih _ _ hrest]
              exact List.take_append_drop _ _

theorem parseStream_bytes (b : Bytes) (rs : List Rec) (h : parseStream b = some rs) : recsBytes rs = b :=
  splitRecords_bytes _ _ _ h

theorem dropWhile_nil_of_all {α} (q : α → Bool) : ∀ (l : List α), (∀ r ∈ l, q r = true) → l.dropWhile q = []
  | [], _ => rfl
  | a :: t, h => by
    rw [List.dropWhile_cons_of_pos (h a (List.mem_cons_self ..))]
    exact dropWhile_nil_of_all q t (fun r hr => h r (List.mem_cons_of_mem _ hr))

/-- on an ascending record list whose types satisfy `p` exactly below a bound, `splitOffset` is the
    length of the records below the bound -/
theorem splitOffset_eq (p : Nat → Bool) (n : Nat) (rs : List Rec)
    (hasc : rs.Pairwise (fun a b => a.ty < b.ty))
    (hp : ∀ r ∈ rs, (p r.ty = true ↔ r.ty < n)) :
    splitOffset p rs = (recsBytes (rs.takeWhile (fun r => p r.ty))).length := by
  cases rs with
  | nil => simp [splitOffset, rangeBy, recsBytes]
  | cons a t =>
    by_cases ha : p a.ty = true
    · have h1 : (a :: t).takeWhile (fun r => !p r.ty) = [] := by simp [List.takeWhile, ha]
      have h2 : (a :: t).dropWhile (fun r => !p r.ty) = a :: t := by simp [List.dropWhile, ha]
      have h3 : rangeBy p (a :: t) = (a :: t).takeWhile (fun r => p r.ty) := by simp [rangeBy, h2]
      have h4 : (rangeBy p (a :: t)).isEmpty = false := by rw [h3]; simp [List.takeWhile, ha]
      unfold splitOffset
      rw [h4, h1, h3]
      simp
    · -- the head is not below the bound, hence (ascending) nothing is: the range is empty
      have hall : ∀ r ∈ a :: t, p r.ty = false := by
        intro r hr
        have han : ¬ a.ty < n := fun hlt => ha ((hp a (List.mem_cons_self ..)).mpr hlt)
        rcases List.mem_cons.mp hr with rfl | hrt
        · simpa using ha
        · have hlt : a.ty < r.ty := (List.pairwise_cons.mp hasc).1 r hrt
          have : ¬ r.ty < n := by omega
          cases hpr : p r.ty with
          | false => rfl
          | true => exact absurd ((hp r hr).mp hpr) this
      have h2 : (a :: t).dropWhile (fun r => !p r.ty) = [] :=
        dropWhile_nil_of_all _ _ (fun r hr => by simp [hall r hr])
      have h5 : (a :: t).takeWhile (fun r => p r.ty) = [] := by simp [List.takeWhile, hall a (List.mem_cons_self ..)]
      simp [splitOffset, rangeBy, h2, h5, recsBytes]

/-- the records after the cut are all at or above the bound -/
theorem dropWhile_above (p : Nat → Bool) (n : Nat) : ∀ (rs : List Rec),
    rs.Pairwise (fun a b => a.ty < b.ty) → (∀ r ∈ rs, (p r.ty = true ↔ r.ty < n)) →
    ∀ r ∈ rs.dropWhile (fun r => p r.ty), n ≤ r.ty := by
  intro rs
  induction rs with
  | nil => intro _ _ r hr; simp at hr
  | cons a t ih =>
    intro hasc hp r hr
    by_cases ha : p a.ty = true
    · rw [List.dropWhile_cons_of_pos (by simpa using ha)] at hr
      exact ih (List.pairwise_cons.mp hasc).2 (fun x hx => hp x (List.mem_cons_of_mem _ hx)) r hr
    · rw [List.dropWhile_cons_of_neg (by simpa using ha)] at hr
      have han : ¬ a.ty < n := fun hlt => ha ((hp a (List.mem_cons_self ..)).mpr hlt)
      rcases List.mem_cons.mp hr with rfl | hrt
      · omega
      · have := (List.pairwise_cons.mp hasc).1 r hrt
        omega

theorem takeWhile_below (p : Nat → Bool) (n : Nat) (rs : List Rec)
    (hp : ∀ r ∈ rs, (p r.ty = true ↔ r.ty < n)) :
    ∀ r ∈ rs.takeWhile (fun r => p r.ty), r.ty < n := by
  intro r hr
  have hmem : r ∈ rs := (List.takeWhile_sublist _).subset hr
  exact (hp r hmem).mp (by simpa using List.all_eq_true.mp (List.all_takeWhile (p := fun r => p r.ty) (l := rs)) r hr)

/-- GENERAL FORM: split an ascending non-signature stream with a range that holds exactly below
    `sigTypesLo`, put a signature record between the halves: the result is the concatenation of an
    ascending record list whose non-signature records are the original ones. -/
theorem signReparsed_general (p : Nat → Bool) (b : Bytes) (rs : List Rec) (sr : Rec)
    (hparse : parseStream b = some rs) (hasc : rs.Pairwise (fun a b => a.ty < b.ty))
    (hp : ∀ r ∈ rs, (p r.ty = true ↔ r.ty < Ldk.Merkle.sigTypesLo))
    (hns : ∀ r ∈ rs, isSig r = false) (hsig : isSig sr = true) :
    ∃ A B, rs = A ++ B ∧
      signReparsed p b sr.recordBytes = some (recsBytes (A ++ sr :: B)) ∧
      (A ++ sr :: B).Pairwise (fun a b => a.ty < b.ty) ∧
      nonSig (A ++ sr :: B) = rs := by
  refine ⟨rs.takeWhile (fun r => p r.ty), rs.dropWhile (fun r => p r.ty), (List.takeWhile_append_dropWhile ..).symm, ?_, ?_, ?_⟩
  · have hb := parseStream_bytes b rs hparse
    have hoff := splitOffset_eq p _ rs hasc hp
    have hsplit : b = recsBytes (rs.takeWhile (fun r => p r.ty)) ++ recsBytes (rs.dropWhile (fun r => p r.ty)) := by
      rw [← recsBytes_append, List.takeWhile_append_dropWhile, hb]
    simp only [signReparsed, reparseSplit, hparse, Option.map_some, hoff]
    congr 1
    rw [recsBytes_append, recsBytes_cons]
    conv => lhs; rw [hsplit]
    simp [List.append_assoc]
  · have hA := takeWhile_below p _ rs hp
    have hB := dropWhile_above p _ rs hasc hp
    have hsr : Ldk.Merkle.sigTypesLo ≤ sr.ty ∧ sr.ty ≤ Ldk.Merkle.sigTypesHi := by
      simpa [isSig] using hsig
    have hBhi : ∀ r ∈ rs.dropWhile (fun r => p r.ty), Ldk.Merkle.sigTypesHi < r.ty := by
      intro r hr
      have h1 := hB r hr
      have h2 := hns r ((List.dropWhile_sublist _).subset hr)
      simp only [isSig, Bool.and_eq_false_iff, decide_eq_false_iff_not] at h2
      omega
    have hrs : (rs.takeWhile (fun r => p r.ty) ++ rs.dropWhile (fun r => p r.ty)).Pairwise (fun a b => a.ty < b.ty) := by
      rw [List.takeWhile_append_dropWhile]; exact hasc
    rw [List.pairwise_append] at hrs ⊢
    refine ⟨hrs.1, ?_, ?_⟩
    · rw [List.pairwise_cons]
      exact ⟨fun r hr => by have := hBhi r hr; omega, hrs.2.1⟩
    · intro a ha x hx
      rcases List.mem_cons.mp hx with rfl | hxB
      · have := hA a ha; omega
      · exact hrs.2.2 a ha x hxB
  · have hA : ∀ r ∈ rs.takeWhile (fun r => p r.ty), (!isSig r) = true := by
      intro r hr; simp [hns r ((List.takeWhile_sublist _).subset hr)]
    have hB : ∀ r ∈ rs.dropWhile (fun r => p r.ty), (!isSig r) = true := by
      intro r hr; simp [hns r ((List.dropWhile_sublist _).subset hr)]
    simp only [nonSig, List.filter_append, List.filter_cons, hsig, Bool.not_true]
    rw [List.filter_eq_self.mpr hA, List.filter_eq_self.mpr hB]
    simp

/-! ### the parser round trip: `parseStream (recsBytes rs) = rs` for well-formed records -/

/-- a record is well formed when its bytes are `type ‖ length ‖ value` with minimal BigSizes, the value
    has the announced length, and `typeBytes` are the bytes of the type -/
def WF (r : Rec) : Prop :=
  ∃ t k1 len k2, readBigSize r.recordBytes = some (t, k1) ∧
    readBigSize (r.recordBytes.drop k1) = some (len, k2) ∧
    r.recordBytes.length = k1 + k2 + len ∧ r.typeBytes = r.recordBytes.take k1

/-- `BigSize::read` only looks at the bytes it consumes -/
theorem readBigSize_append (b c : Bytes) (v k : Nat) (h : readBigSize b = some (v, k)) :
    readBigSize (b ++ c) = some (v, k) := by
  cases b with
  | nil => simp [readBigSize] at h
  | cons x r =>
    rw [List.cons_append]
    unfold readBigSize at h ⊢
    split at h
    · cases h
    · rename_i r' heq
      cases heq
      split at h
      · cases h
      · rename_i hlen
        have hl : ¬ (r ++ c).length < 8 := by simp only [List.length_append]; omega
        have ht : (r ++ c).take 8 = r.take 8 := List.take_append_of_le_length (by omega)
        simp only [hl, ht, if_false]
        exact h
    · rename_i r' heq
      cases heq
      split at h
      · cases h
      · rename_i hlen
        have hl : ¬ (r ++ c).length < 4 := by simp only [List.length_append]; omega
        have ht : (r ++ c).take 4 = r.take 4 := List.take_append_of_le_length (by omega)
        simp only [hl, ht, if_false]
        exact h
    · rename_i r' heq
      cases heq
      split at h
      · cases h
      · rename_i hlen
        have hl : ¬ (r ++ c).length < 2 := by simp only [List.length_append]; omega
        have ht : (r ++ c).take 2 = r.take 2 := List.take_append_of_le_length (by omega)
        simp only [hl, ht, if_false]
        exact h
    · rename_i n t hFF hFE hFD heq
      cases heq
      split
      · rename_i heq2; cases heq2
      · rename_i r2 heq2; cases heq2; exact (hFF rfl).elim
      · rename_i r2 heq2; cases heq2; exact (hFE rfl).elim
      · rename_i r2 heq2; cases heq2; exact (hFD rfl).elim
      · rename_i n2 t2 _ _ _ heq2
        cases heq2
        exact h

theorem WF.ne_nil {r : Rec} (h : WF r) : r.recordBytes ≠ [] := by
  obtain ⟨t, k1, len, k2, h1, _, _, _⟩ := h
  intro hn
  rw [hn] at h1
  simp [readBigSize] at h1

/-- one step of `TlvStream::next` on `record ‖ rest` reads exactly the record -/
theorem splitRecords_cons (fuel : Nat) (r : Rec) (rest : Bytes) (h : WF r) :
    splitRecords (fuel + 1) (r.recordBytes ++ rest) =
      match splitRecords fuel rest with
      | none => none
      | some rs => some (r :: rs) := by
  obtain ⟨t, k1, len, k2, h1, h2, hlen, hty⟩ := h
  have hne : (r.recordBytes ++ rest).isEmpty = false := by
    cases hb : r.recordBytes with
    | nil => rw [hb] at h1; simp [readBigSize] at h1
    | cons a l => simp
  have hk1 : k1 ≤ r.recordBytes.length := by omega
  have hd : (r.recordBytes ++ rest).drop k1 = r.recordBytes.drop k1 ++ rest := List.drop_append_of_le_length hk1
  have e1 := readBigSize_append r.recordBytes rest t k1 h1
  have e2 : readBigSize ((r.recordBytes ++ rest).drop k1) = some (len, k2) := by
    rw [hd]; exact readBigSize_append _ rest len k2 h2
  have hnl : ¬ (r.recordBytes ++ rest).length < k1 + k2 + len := by
    simp only [List.length_append]; omega
  have hdt : (r.recordBytes ++ rest).drop (k1 + k2 + len) = rest := by
    rw [← hlen]; simp
  have htk : (r.recordBytes ++ rest).take k1 = r.typeBytes := by
    rw [List.take_append_of_le_length hk1, hty]
  have htt : (r.recordBytes ++ rest).take (k1 + k2 + len) = r.recordBytes := by
    rw [← hlen]; simp
  conv => lhs; unfold splitRecords
  simp only [hne, Bool.false_eq_true, if_false, e1, e2, hnl, hdt, htk, htt]
  cases splitRecords fuel rest <;> rfl

/-- THE PARSER ROUND TRIP: the concatenation of well-formed records parses back to those records -/
theorem splitRecords_recsBytes : ∀ (rs : List Rec) (fuel : Nat), (∀ r ∈ rs, WF r) →
    (recsBytes rs).length ≤ fuel → splitRecords fuel (recsBytes rs) = some rs := by
  intro rs
  induction rs with
  | nil =>
    intro fuel _ _
    cases fuel <;> simp [recsBytes, splitRecords]
  | cons r t ih =>
    intro fuel hwf hlen
    have hr := hwf r (List.mem_cons_self ..)
    have hpos : 0 < r.recordBytes.length := List.length_pos_iff.mpr hr.ne_nil
    rw [recsBytes_cons] at hlen ⊢
    simp only [List.length_append] at hlen
    cases fuel with
    | zero => omega
    | succ f =>
      rw [splitRecords_cons f r _ hr, ih f (fun x hx => hwf x (List.mem_cons_of_mem _ hx)) (by omega)]

theorem parseStream_recsBytes (rs : List Rec) (h : ∀ r ∈ rs, WF r) : parseStream (recsBytes rs) = some rs :=
  splitRecords_recsBytes rs _ h (Nat.le_refl _)

/-- `BigSize::read` on a prefix that still contains the bytes it consumes -/
theorem readBigSize_take (b : Bytes) (v k n : Nat) (h : readBigSize b = some (v, k)) (hn : k ≤ n) :
    readBigSize (b.take n) = some (v, k) := by
  cases b with
  | nil => simp [readBigSize] at h
  | cons x r =>
    cases n with
    | zero =>
      -- k = 0 is impossible: every branch consumes at least one byte
      exfalso
      unfold readBigSize at h
      split at h
      · cases h
      · split at h
        · cases h
        · dsimp only at h; split at h <;> cases h; omega
      · split at h
        · cases h
        · dsimp only at h; split at h <;> cases h; omega
      · split at h
        · cases h
        · dsimp only at h; split at h <;> cases h; omega
      · cases h; omega
    | succ m =>
      rw [List.take_succ_cons]
      unfold readBigSize at h ⊢
      split at h
      · cases h
      · rename_i r' heq
        cases heq
        split at h
        · cases h
        · rename_i hlen
          dsimp only at h
          split at h
          · cases h
          · cases h
            have hl : ¬ (r.take m).length < 8 := by simp only [List.length_take]; omega
            have ht : (r.take m).take 8 = r.take 8 := by rw [List.take_take]; congr 1; omega
            simp only [hl, ht, if_false]
            simp [*]
      · rename_i r' heq
        cases heq
        split at h
        · cases h
        · rename_i hlen
          dsimp only at h
          split at h
          · cases h
          · cases h
            have hl : ¬ (r.take m).length < 4 := by simp only [List.length_take]; omega
            have ht : (r.take m).take 4 = r.take 4 := by rw [List.take_take]; congr 1; omega
            simp only [hl, ht, if_false]
            simp [*]
      · rename_i r' heq
        cases heq
        split at h
        · cases h
        · rename_i hlen
          dsimp only at h
          split at h
          · cases h
          · cases h
            have hl : ¬ (r.take m).length < 2 := by simp only [List.length_take]; omega
            have ht : (r.take m).take 2 = r.take 2 := by rw [List.take_take]; congr 1; omega
            simp only [hl, ht, if_false]
            simp [*]
      · rename_i n t hFF hFE hFD heq
        cases heq
        split
        · rename_i heq2; cases heq2
        · rename_i r2 heq2; cases heq2; exact (hFF rfl).elim
        · rename_i r2 heq2; cases heq2; exact (hFE rfl).elim
        · rename_i r2 heq2; cases heq2; exact (hFD rfl).elim
        · rename_i n2 t2 _ _ _ heq2
          cases heq2
          exact h

/-- every record the parser returns is well formed -/
theorem splitRecords_wf : ∀ (fuel : Nat) (b : Bytes) (rs : List Rec),
    splitRecords fuel b = some rs → ∀ r ∈ rs, WF r := by
  intro fuel
  induction fuel with
  | zero =>
    intro b rs h
    unfold splitRecords at h
    split at h
    · cases h; intro r hr; cases hr
    · cases h
  | succ n ih =>
    intro b rs h
    unfold splitRecords at h
    split at h
    · cases h; intro r hr; cases hr
    · split at h
      · cases h
      · rename_i t k1 h1
        split at h
        · cases h
        · rename_i len k2 h2
          dsimp only at h
          split at h
          · cases h
          · rename_i hlen
            split at h
            · cases h
            · rename_i rest hrest
              cases h
              intro r hr
              rcases List.mem_cons.mp hr with rfl | hr'
              · refine ⟨t, k1, len, k2, ?_, ?_, ?_, ?_⟩
                · exact readBigSize_take b t k1 _ h1 (by omega)
                · show readBigSize ((b.take (k1 + k2 + len)).drop k1) = some (len, k2)
                  rw [List.drop_take]
                  exact readBigSize_take _ len k2 _ h2 (by omega)
                · show (b.take (k1 + k2 + len)).length = k1 + k2 + len
                  rw [List.length_take]; omega
                · show b.take k1 = (b.take (k1 + k2 + len)).take k1
                  rw [List.take_take]; congr 1; omega
              · exact ih _ _ hrest r hr'

theorem parseStream_wf (b : Bytes) (rs : List Rec) (h : parseStream b = some rs) : ∀ r ∈ rs, WF r :=
  splitRecords_wf _ _ _ h

/-! ### `remaining_bytes` (round 6): the bytes after the copied prefix parse to the TAIL of the source
    record list, and the experimental range of that tail is the experimental range of the source -/

/-- parsing the bytes that follow a prefix of the records gives the remaining records -/
theorem parseStream_drop_prefix (b : Bytes) (A B : List Rec) (h : parseStream b = some (A ++ B)) :
    parseStream (b.drop (recsBytes A).length) = some B := by
  have hb := parseStream_bytes b _ h
  have hwf := parseStream_wf b _ h
  have hd : b.drop (recsBytes A).length = recsBytes B := by
    rw [← hb, recsBytes_append]; simp
  rw [hd]
  exact parseStream_recsBytes B (fun r hr => hwf r (List.mem_append_right _ hr))

/-- on an ascending record list whose types satisfy `p` exactly below a bound, `TlvStream::range` is a PREFIX -/
theorem rangeBy_prefix (p : Nat → Bool) (n : Nat) (rs : List Rec)
    (hasc : rs.Pairwise (fun a b => a.ty < b.ty))
    (hp : ∀ r ∈ rs, (p r.ty = true ↔ r.ty < n)) :
    rangeBy p rs = rs.takeWhile (fun r => p r.ty) := by
  cases rs with
  | nil => simp [rangeBy]
  | cons a t =>
    by_cases ha : p a.ty = true
    · have h2 : (a :: t).dropWhile (fun r => !p r.ty) = a :: t := by simp [List.dropWhile, ha]
      simp [rangeBy, h2]
    · have hall : ∀ r ∈ a :: t, p r.ty = false := by
        intro r hr
        have han : ¬ a.ty < n := fun hlt => ha ((hp a (List.mem_cons_self ..)).mpr hlt)
        rcases List.mem_cons.mp hr with rfl | hrt
        · simpa using ha
        · have hlt : a.ty < r.ty := (List.pairwise_cons.mp hasc).1 r hrt
          have : ¬ r.ty < n := by omega
          cases hpr : p r.ty with
          | false => rfl
          | true => exact absurd ((hp r hr).mp hpr) this
      have h2 : (a :: t).dropWhile (fun r => !p r.ty) = [] :=
        dropWhile_nil_of_all _ _ (fun r hr => by simp [hall r hr])
      have h5 : (a :: t).takeWhile (fun r => p r.ty) = [] := by simp [List.takeWhile, hall a (List.mem_cons_self ..)]
      simp [rangeBy, h2, h5]

theorem rangeRecs_eq_rangeBy (lo hi : Nat) (rs : List Rec) :
    Ldk.OfferMeta.rangeRecs lo hi rs = rangeBy (fun t => decide (lo ≤ t) && decide (t < hi)) rs := rfl

/-- `remaining_bytes = &src[copied.len()..]` parses to the records that follow the copied range, provided
    the source is ascending and has no record BELOW the range (for an offer: no type 0; the reader chain
    of `Offer` refuses it) -/
theorem copyRest_is_tail (lo hi : Nat) (src : Bytes) (rs : List Rec)
    (hparse : parseStream src = some rs) (hasc : rs.Pairwise (fun a b => a.ty < b.ty))
    (hlo : ∀ r ∈ rs, lo ≤ r.ty) :
    parseStream (src.drop (recsBytes (Ldk.OfferMeta.rangeRecs lo hi rs)).length)
      = some (rs.dropWhile (fun r => decide (lo ≤ r.ty) && decide (r.ty < hi))) := by
  have hpre : Ldk.OfferMeta.rangeRecs lo hi rs = rs.takeWhile (fun r => decide (lo ≤ r.ty) && decide (r.ty < hi)) := by
    rw [rangeRecs_eq_rangeBy]
    exact rangeBy_prefix (fun t => decide (lo ≤ t) && decide (t < hi)) hi rs hasc (fun r hr => by
      have := hlo r hr
      simp only [Bool.and_eq_true, decide_eq_true_eq]
      omega)
  rw [hpre]
  apply parseStream_drop_prefix
  rw [List.takeWhile_append_dropWhile]
  exact hparse

theorem dropWhile_dropWhile_of_imp {α} (p q : α → Bool) (h : ∀ a, p a = true → q a = true) :
    ∀ l : List α, (l.dropWhile p).dropWhile q = l.dropWhile q
  | [] => rfl
  | a :: t => by
    by_cases hpa : p a = true
    · rw [List.dropWhile_cons_of_pos hpa, List.dropWhile_cons_of_pos (h a hpa)]
      exact dropWhile_dropWhile_of_imp p q h t
    · rw [List.dropWhile_cons_of_neg hpa]

/-- a later range of the tail is that range of the whole stream -/
theorem rangeRecs_tail (lo hi elo ehi : Nat) (rs : List Rec) (hle : hi ≤ elo) :
    Ldk.OfferMeta.rangeRecs elo ehi (rs.dropWhile (fun r => decide (lo ≤ r.ty) && decide (r.ty < hi)))
      = Ldk.OfferMeta.rangeRecs elo ehi rs := by
  unfold Ldk.OfferMeta.rangeRecs
  rw [dropWhile_dropWhile_of_imp]
  intro a ha
  simp only [Bool.and_eq_true, decide_eq_true_eq] at ha
  simp only [Bool.not_eq_true', Bool.and_eq_false_iff, decide_eq_false_iff_not]
  omega

theorem ascendingB_of_pairwise : ∀ (l : List Rec), l.Pairwise (fun a b => a.ty < b.ty) → ascendingB l = true
  | [], _ => rfl
  | [_], _ => rfl
  | a :: b :: t, h => by
    have h' := List.pairwise_cons.mp h
    simp only [ascendingB, Bool.and_eq_true, decide_eq_true_eq]
    exact ⟨h'.1 b (List.mem_cons_self ..), ascendingB_of_pairwise (b :: t) h'.2⟩

end Ldk.OfferMirror
