/- whole-history SAFETY invariant of Model/NodeStep.lean (C08, round 5b): in every history in which blocks are delivered one
   height at a time, after every event the node is not sitting on an HTLC past the height at which it must have acted -/
import LdkModel.Proofs.NodeRun
namespace Ldk.NodeStep
open Ldk Ldk.Timing

/-- at announced height `h`: a live, un-broadcast outbound HTLC is not yet in the monitor's on-chain window -/
def C1 (h : Nat) (s : St) : Prop := s.outLive = true → s.downBroadcast = none → shouldBroadcastFor h s.outCltv true s.preimage = false
/-- a forward still in the holding cell is not yet in the holding-cell timeout window -/
def C2 (h : Nat) (s : St) : Prop := s.inCell = true → holdingCellTimedOut h s.outCltv = false
/-- an inbound HTLC whose preimage is known, unresolved and not yet taken on chain is not yet in the inbound on-chain window -/
def C3 (h : Nat) (s : St) : Prop := s.preimage = true → s.up = .pending → s.upBroadcast = none → shouldBroadcastFor h s.inCltv false true = false
/-- a held intercepted forward is not yet in the intercept timeout window -/
def C4 (h : Nat) (s : St) : Prop := s.intercepted = true → interceptTimedOut h s.outCltv = false
def SafeAt (h : Nat) (s : St) : Prop := C1 h s ∧ C2 h s ∧ C3 h s ∧ C4 h s
/-- the delta the forward was admitted with -/
def Wf (s : St) : Prop := s.outCltv + MIN_CLTV_EXPIRY_DELTA ≤ s.inCltv

structure Mono (s s' : St) : Prop where
  inC : s'.inCltv = s.inCltv
  outC : s'.outCltv = s.outCltv
  pre : s'.preimage = s.preimage
  cell : s'.inCell = true → s.inCell = true
  icp : s'.intercepted = true → s.intercepted = true
  live : s'.outLive = true → s.outLive = true
  db : s'.downBroadcast = none → s.downBroadcast = none
  up : s'.up = .pending → s.up = .pending
  ub : s'.upBroadcast = none → s.upBroadcast = none

theorem Mono.refl (s : St) : Mono s s := ⟨rfl, rfl, rfl, id, id, id, id, id, id⟩
theorem Mono.trans {a b c : St} (h1 : Mono a b) (h2 : Mono b c) : Mono a c :=
  ⟨h2.inC.trans h1.inC, h2.outC.trans h1.outC, h2.pre.trans h1.pre, fun h => h1.cell (h2.cell h), fun h => h1.icp (h2.icp h),
   fun h => h1.live (h2.live h), fun h => h1.db (h2.db h), fun h => h1.up (h2.up h), fun h => h1.ub (h2.ub h)⟩

theorem Mono.c1 {s s' : St} (m : Mono s s') {h : Nat} (c : C1 h s) : C1 h s' := by
  intro a b; rw [m.outC, m.pre]; exact c (m.live a) (m.db b)
theorem Mono.c2 {s s' : St} (m : Mono s s') {h : Nat} (c : C2 h s) : C2 h s' := by
  intro a; rw [m.outC]; exact c (m.cell a)
theorem Mono.c3 {s s' : St} (m : Mono s s') {h : Nat} (c : C3 h s) : C3 h s' := by
  intro a b d; rw [m.inC]; exact c (m.pre ▸ a) (m.up b) (m.ub d)
theorem Mono.c4 {s s' : St} (m : Mono s s') {h : Nat} (c : C4 h s) : C4 h s' := by
  intro a; rw [m.outC]; exact c (m.icp a)
theorem Mono.wf {s s' : St} (m : Mono s s') (w : Wf s) : Wf s' := by unfold Wf at *; rw [m.inC, m.outC]; exact w

theorem failUp_mono (s : St) : Mono s (failUp s).1 := by
  unfold failUp; split
  · exact ⟨rfl, rfl, rfl, id, id, id, id, (fun h => nomatch h), id⟩
  · exact Mono.refl s

theorem mgrBlock_mono (s : St) (h : Nat) (x : BbuExit) : Mono s (mgrBlock s h x).1 := by
  unfold mgrBlock
  split
  · have m0 : Mono s { s with inCell := false } := ⟨rfl, rfl, rfl, (fun h => nomatch h), id, id, id, id, id⟩
    have m1 := m0.trans (failUp_mono { s with inCell := false })
    cases x.returnsTimedOut <;> cases x.isOk <;> simp only [if_true, if_false, Bool.false_eq_true]
    · exact ⟨m0.inC, m0.outC, m0.pre, m0.cell, m0.icp, m0.live, m0.db, m0.up, m0.ub⟩
    · exact m0
    · exact ⟨m1.inC, m1.outC, m1.pre, m1.cell, m1.icp, m1.live, m1.db, m1.up, m1.ub⟩
    · exact m1
  · exact Mono.refl s

theorem mgrBlock_post (s : St) (h : Nat) (x : BbuExit) : C2 h (mgrBlock s h x).1 := by
  unfold mgrBlock C2
  split
  · intro hc
    have : (mgrBlock s h x).1.inCell = true → s.inCell = true := (mgrBlock_mono s h x).cell
    exfalso
    revert hc
    cases x.returnsTimedOut <;> cases x.isOk <;> simp only [if_true, if_false, Bool.false_eq_true] <;>
      first
        | (intro hc; cases hc)
        | (intro hc; have := (failUp_mono { s with inCell := false }).cell hc; cases this)
  · rename_i hn
    intro hc
    dsimp only at hc ⊢
    simp only [hc, Bool.true_and, Bool.not_eq_true] at hn
    exact hn

theorem mgrIntercept_mono (s : St) (h : Nat) : Mono s (mgrIntercept s h).1 := by
  unfold mgrIntercept; split
  · have m0 : Mono s { s with intercepted := false } := ⟨rfl, rfl, rfl, id, (fun h => nomatch h), id, id, id, id⟩
    exact m0.trans (failUp_mono _)
  · exact Mono.refl s

theorem mgrIntercept_post (s : St) (h : Nat) : C4 h (mgrIntercept s h).1 := by
  unfold mgrIntercept C4
  split
  · intro hc
    have := (failUp_mono { s with intercepted := false }).icp hc
    cases this
  · rename_i hn
    intro hc
    dsimp only at hc ⊢
    simp only [hc, Bool.true_and, Bool.not_eq_true] at hn
    exact hn

theorem monTxs_mono (s : St) (h : Nat) (c t : Bool) : Mono s (monTxs s h c t) := by
  unfold monTxs; simp only []; split <;> split <;> exact ⟨rfl, rfl, rfl, id, id, id, id, id, id⟩

theorem monScan_mono (s : St) (h : Nat) : Mono s (monScan s h).1 := by
  unfold monScan; split
  · exact ⟨rfl, rfl, rfl, id, id, id, (fun h => nomatch h), id, id⟩
  · exact Mono.refl s

theorem monScan_post (s : St) (h : Nat) : C1 h (monScan s h).1 := by
  unfold monScan C1
  split
  · intro _ hb; cases hb
  · rename_i hn
    intro hl hb
    dsimp only at hl hb ⊢
    have : s.downBroadcast.isNone = true := by rw [hb]; rfl
    simp only [hl, this, Bool.true_and, Bool.not_eq_true] at hn
    exact hn

theorem monMatured_mono (s : St) (h : Nat) : Mono s (monMatured s h).1 := by
  unfold monMatured
  split
  · split
    · have m0 : Mono s { s with outLive := false } := ⟨rfl, rfl, rfl, id, id, (fun h => nomatch h), id, id, id⟩
      exact m0.trans (failUp_mono _)
    · exact Mono.refl s
  · exact Mono.refl s

theorem monPreemptive_mono (s : St) (h : Nat) : Mono s (monPreemptive s h).1 := by
  unfold monPreemptive; split
  · exact failUp_mono s
  · exact Mono.refl s

theorem monClaims_mono (s : St) (h : Nat) : Mono s (monClaims s h).1 := by
  unfold monClaims; split
  · exact ⟨rfl, rfl, rfl, id, id, id, id, id, id⟩
  · exact Mono.refl s

theorem monUp_mono (s : St) (h : Nat) : Mono s (monUp s h).1 := by
  unfold monUp; split
  · exact ⟨rfl, rfl, rfl, id, id, id, id, id, (fun h => nomatch h)⟩
  · exact Mono.refl s

theorem monUp_post (s : St) (h : Nat) : C3 h (monUp s h).1 := by
  unfold monUp C3
  split
  · intro _ _ hb; cases hb
  · rename_i hn
    intro hp hu hb
    dsimp only at hp hu hb ⊢
    have : s.upBroadcast.isNone = true := by rw [hb]; rfl
    simp only [hp, hu, this, decide_true, Bool.true_and, Bool.not_eq_true] at hn
    exact hn

/-- arithmetic bridges between the translated predicates (re-proved over the regenerated constants) -/
theorem cell_ok_scan_ok (h out : Nat) (p : Bool) (hc : holdingCellTimedOut h out = false) : shouldBroadcastFor h out true p = false := by
  simp only [holdingCellTimedOut, shouldBroadcastFor] at *
  consts_facts
  simp only [decide_eq_false_iff_not, Bool.true_and, Bool.not_true, Bool.false_and, Bool.or_false, Nat.not_le] at *
  omega
theorem icpt_ok_cell_ok (h out : Nat) (hc : interceptTimedOut h out = false) : holdingCellTimedOut h out = false := by
  simp only [holdingCellTimedOut, interceptTimedOut] at *
  consts_facts
  simp only [decide_eq_false_iff_not, Nat.not_le, ge_iff_le] at *
  omega
theorem arrival_ok_up_ok (h out inc : Nat) (hw : out + MIN_CLTV_EXPIRY_DELTA ≤ inc) (ha : h < outboundTrigger out) :
    shouldBroadcastFor h inc false true = false := by
  simp only [shouldBroadcastFor, outboundTrigger] at *
  consts_facts
  simp only [Bool.false_and, Bool.not_false, Bool.true_and, Bool.and_true, Bool.false_or, decide_eq_false_iff_not, Nat.not_le]
  omega

/-- histories in which blocks are delivered ONE HEIGHT AT A TIME (each block is the monitor's best height + 1) and the
    downstream peer's preimage, if it comes, comes off chain, i.e. before the node's own downstream on-chain trigger -/
def OneAtATime : St → List Ev → Prop
  | _, [] => True
  | s, e :: es =>
    (match e with
     | .block h _ _ _ => h = s.monBest + 1
     | .preimage => s.monBest < outboundTrigger s.outCltv
     | _ => True) ∧ OneAtATime (nodeStep s e).1 es

def Safe (s : St) : Prop := SafeAt s.monBest s ∧ Wf s

theorem nodeStep_safe (s : St) (e : Ev) (hs : Safe s)
    (he : match e with
          | .block h _ _ _ => h = s.monBest + 1
          | .preimage => s.monBest < outboundTrigger s.outCltv
          | _ => True) : Safe (nodeStep s e).1 := by
  obtain ⟨⟨c1, c2, c3, c4⟩, wf⟩ := hs
  unfold Safe SafeAt
  cases e with
  | block h x c t =>
    simp only at he
    have hproc : monitorProcessesHeight h s.monBest = true := by simp [monitorProcessesHeight, he]
    simp only [nodeStep, hproc, if_true]
    have m0 := mgrBlock_mono s h x
    have mi := mgrIntercept_mono (mgrBlock s h x).1 h
    have mt := monTxs_mono (mgrIntercept (mgrBlock s h x).1 h).1 h c t
    have ms := monScan_mono (monTxs (mgrIntercept (mgrBlock s h x).1 h).1 h c t) h
    have mm := monMatured_mono (monScan (monTxs (mgrIntercept (mgrBlock s h x).1 h).1 h c t) h).1 h
    have mp := monPreemptive_mono (monMatured (monScan (monTxs (mgrIntercept (mgrBlock s h x).1 h).1 h c t) h).1 h).1 h
    have mc := monClaims_mono (monPreemptive (monMatured (monScan (monTxs (mgrIntercept (mgrBlock s h x).1 h).1 h c t) h).1 h).1 h).1 h
    have mu := monUp_mono (monDown (mgrIntercept (mgrBlock s h x).1 h).1 h c t).1 h
    have p2 := mgrBlock_post s h x
    have p4 := mgrIntercept_post (mgrBlock s h x).1 h
    have p1 := monScan_post (monTxs (mgrIntercept (mgrBlock s h x).1 h).1 h c t) h
    have p3 := monUp_post (monDown (mgrIntercept (mgrBlock s h x).1 h).1 h c t).1 h
    have mdown : Mono (monScan (monTxs (mgrIntercept (mgrBlock s h x).1 h).1 h c t) h).1 (monDown (mgrIntercept (mgrBlock s h x).1 h).1 h c t).1 :=
      (mm.trans mp).trans mc
    have mall : Mono s (monUp (monDown (mgrIntercept (mgrBlock s h x).1 h).1 h c t).1 h).1 :=
      ((((m0.trans mi).trans mt).trans ms).trans mdown).trans mu
    refine ⟨⟨?_, ?_, ?_, ?_⟩, mall.wf wf⟩
    · exact (mdown.trans mu).c1 p1
    · exact ((((mi.trans mt).trans ms).trans mdown).trans mu).c2 p2
    · exact p3
    · exact (((mt.trans ms).trans mdown).trans mu).c4 p4
  | preimage =>
    simp only at he
    simp only [nodeStep]
    unfold onPreimage
    split
    · exact ⟨⟨c1, c2, c3, c4⟩, wf⟩
    · rename_i hn
      simp only [Bool.or_eq_true, not_or, Bool.not_eq_true] at hn
      have hup := arrival_ok_up_ok s.monBest s.outCltv s.inCltv wf he
      simp only []
      split
      · refine ⟨⟨(fun a => nomatch a), (fun a => absurd (show s.inCell = true from a) (by simp [hn.2])), (fun _ b => nomatch b), c4⟩, wf⟩
      · refine ⟨⟨(fun a => nomatch a), (fun a => absurd (show s.inCell = true from a) (by simp [hn.2])), fun _ _ _ => hup, c4⟩, wf⟩
  | downCommitted =>
    simp only [nodeStep]
    split
    · rename_i hc
      unfold C2 at c2
      refine ⟨⟨fun _ _ => cell_ok_scan_ok _ _ _ (c2 hc), (fun a => nomatch a), c3, c4⟩, wf⟩
    · exact ⟨⟨c1, c2, c3, c4⟩, wf⟩
  | released =>
    simp only [nodeStep]
    split
    · rename_i hc
      unfold C4 at c4
      refine ⟨⟨c1, fun _ => icpt_ok_cell_ok _ _ (c4 hc), c3, (fun a => nomatch a)⟩, wf⟩
    · exact ⟨⟨c1, c2, c3, c4⟩, wf⟩

theorem run_safe (es : List Ev) : ∀ s : St, Safe s → OneAtATime s es → Safe (run s es).1 := by
  induction es with
  | nil => intro s hs _; exact hs
  | cons e t ih =>
    intro s hs ho
    obtain ⟨he, hr⟩ := ho
    exact ih _ (nodeStep_safe s e hs he) hr

end Ldk.NodeStep
