/- Lemmas about the package layer (Model/Packages.lean), shared by Props/C06.lean and Props/C07.lean. -/
import LdkModel.Model.Packages
import LdkModel.Proofs.Package
namespace Ldk.Packages
open Ldk Ldk.Pkg Ldk.PkgLayer Ldk.JusticeGen

variable {α : Type} [DecidableEq α]

/-! ### split / merge never drop an outpoint -/

theorem split_rest_mem (p : Package α) (o x : α) : x ∈ (p.split o).2.outpoints → x ∈ p.outpoints := by
  unfold Package.split Package.outpoints
  cases p.mall with
  | untractable => simp
  | malleable c =>
    simp only [List.mem_map]
    rintro ⟨e, he, rfl⟩
    exact ⟨e, (List.mem_filter.mp he).1, rfl⟩

theorem split_rest_malleable (p : Package α) (o x : α) (c : Cluster) (hm : p.mall = .malleable c) :
    x ∈ (p.split o).2.outpoints ↔ x ∈ p.outpoints ∧ x ≠ o := by
  unfold Package.split Package.outpoints
  rw [hm]
  simp only [List.mem_map, List.mem_filter]
  constructor
  · rintro ⟨e, ⟨he, hne⟩, rfl⟩
    exact ⟨⟨e, he, rfl⟩, by simpa using hne⟩
  · rintro ⟨⟨e, he, rfl⟩, hne⟩
    exact ⟨e, ⟨he, by simpa using hne⟩, rfl⟩

/-- what `split_package` hands back is a single input of the package, and it is the outpoint asked for -/
theorem split_dropped (p : Package α) (o : α) (d : Package α) (h : (p.split o).1 = some d) :
    ∃ m, d.inputs = [(o, m)] ∧ (o, m) ∈ p.inputs ∧ d.spendable = p.spendable ∧ d.feerate = p.feerate ∧ d.timer = p.timer := by
  unfold Package.split at h
  cases hm : p.mall with
  | untractable => rw [hm] at h; simp at h
  | malleable c =>
    rw [hm] at h
    simp only [Option.map_eq_some_iff] at h
    obtain ⟨e, he, rfl⟩ := h
    have hmem := List.mem_of_getLast? he
    have := List.mem_filter.mp hmem
    have heq : e.1 = o := by simpa using this.2
    refine ⟨e.2, ?_, ?_, rfl, rfl, rfl⟩
    · simp [← heq]
    · rw [← heq]; exact this.1

/-- nothing is lost by a split: an outpoint of the package is in what stays or is the one handed back -/
theorem split_never_drops (p : Package α) (o x : α) (hx : x ∈ p.outpoints) :
    x ∈ (p.split o).2.outpoints ∨ (x = o ∧ ∃ d, (p.split o).1 = some d ∧ d.outpoints = [o]) := by
  cases hm : p.mall with
  | untractable => left; unfold Package.split; rw [hm]; exact hx
  | malleable c =>
    by_cases hxo : x = o
    · right
      refine ⟨hxo, ?_⟩
      subst hxo
      unfold Package.outpoints at hx
      obtain ⟨e, he, rfl⟩ := List.mem_map.mp hx
      have hne : (p.inputs.filter (fun e' => decide (e'.1 = e.1))) ≠ [] := by
        intro h0
        have : e ∈ p.inputs.filter (fun e' => decide (e'.1 = e.1)) := List.mem_filter.mpr ⟨he, by simp⟩
        rw [h0] at this; cases this
      obtain ⟨l, hl⟩ : ∃ l, (p.inputs.filter (fun e' => decide (e'.1 = e.1))).getLast? = some l := by
        cases hq : (p.inputs.filter (fun e' => decide (e'.1 = e.1))).getLast? with
        | none => exact absurd (List.getLast?_eq_none_iff.mp hq) hne
        | some l => exact ⟨l, rfl⟩
      have hl1 : l.1 = e.1 := by
        have := List.mem_filter.mp (List.mem_of_getLast? hl)
        simpa using this.2
      refine ⟨{ inputs := [l], mall := l.2.flags, spendable := p.spendable, feerate := p.feerate, timer := p.timer }, ?_, ?_⟩
      · unfold Package.split; rw [hm]; simp only [hl, Option.map_some]
      · simp [Package.outpoints, hl1]
    · left; exact (split_rest_malleable p o x c hm).mpr ⟨hx, hxo⟩

omit [DecidableEq α] in
theorem merge_outpoints (p q r : Package α) (cur : Nat) (h : p.merge q cur = some r) :
    r.outpoints = p.outpoints ++ q.outpoints := by
  unfold Package.merge at h
  split at h
  · cases h; simp [Package.outpoints]
  · cases h

omit [DecidableEq α] in
/-- merge_package takes the MINIMUM of the two timers, previous feerates and counterparty_spendable_heights -/
theorem merge_minimum (p q r : Package α) (cur : Nat) (h : p.merge q cur = some r) :
    r.timer = min p.timer q.timer ∧ r.feerate = min p.feerate q.feerate ∧ r.spendable = min p.spendable q.spendable := by
  unfold Package.merge at h
  split at h
  · cases h
    refine ⟨?_, ?_, ?_⟩ <;> simp only [mergeTimer, mergeFeerate, mergeSpendable, decide_eq_true_eq, Nat.min_def] <;>
      (repeat' split) <;> omega
  · cases h

/-! ### the package timer is never later than any member's own timer -/

theorem timerForTargetConf_mono (cur a b : Nat) (h : a ≤ b) : timerForTargetConf cur a ≤ timerForTargetConf cur b := by
  unfold timerForTargetConf
  have h1 : HIGH_FREQUENCY_BUMP_INTERVAL = 1 := rfl
  have h2 : MIDDLE_FREQUENCY_BUMP_INTERVAL = 3 := rfl
  have h3 : LOW_FREQUENCY_BUMP_INTERVAL = 15 := rfl
  simp only [decide_eq_true_eq]
  split <;> split <;> (try split) <;> (try split) <;> omega

theorem heightTimerStep_le (cur csh t : Nat) (k : PkgInput) : heightTimerStep cur csh t k ≤ t := by
  cases k <;> simp only [heightTimerStep] <;> (try split) <;> first | exact Nat.min_le_left _ _ | exact Nat.le_refl _

theorem heightTimerStep_mono (cur c1 c2 t1 t2 : Nat) (k : PkgInput) (hc : c1 ≤ c2) (ht : t1 ≤ t2) :
    heightTimerStep cur c1 t1 k ≤ heightTimerStep cur c2 t2 k := by
  have hm := timerForTargetConf_mono cur c1 c2 hc
  cases k <;> simp only [heightTimerStep] <;> (try split) <;> (try simp only [Nat.min_def]) <;> (repeat' split) <;> omega

theorem foldl_timer_le (cur csh : Nat) (ks : List PkgInput) (t : Nat) :
    ks.foldl (heightTimerStep cur csh) t ≤ t := by
  induction ks generalizing t with
  | nil => exact Nat.le_refl _
  | cons k ks ih => exact Nat.le_trans (ih _) (heightTimerStep_le cur csh t k)

theorem foldl_timer_mono (cur c1 c2 : Nat) (ks : List PkgInput) (t1 t2 : Nat) (hc : c1 ≤ c2) (ht : t1 ≤ t2) :
    ks.foldl (heightTimerStep cur c1) t1 ≤ ks.foldl (heightTimerStep cur c2) t2 := by
  induction ks generalizing t1 t2 with
  | nil => exact ht
  | cons k ks ih => exact ih _ _ (heightTimerStep_mono cur c1 c2 t1 t2 k hc ht)

/-- `get_height_timer` of a package is at most the `get_height_timer` of the single-input package of any of its members, also when the
    member's own `counterparty_spendable_height` is later (a merged package keeps the minimum) -/
theorem heightTimer_le_member (cur csh csh' : Nat) (ks : List PkgInput) (k : PkgInput) (hk : k ∈ ks) (hc : csh ≤ csh') :
    getHeightTimer cur csh ks ≤ getHeightTimer cur csh' [k] := by
  unfold getHeightTimer
  have gen : ∀ (l : List PkgInput) (t : Nat), k ∈ l → l.foldl (heightTimerStep cur csh) t ≤ heightTimerStep cur csh' t k := by
    intro l
    induction l with
    | nil => intro t h; cases h
    | cons y ys ihy =>
      intro t h
      simp only [List.foldl_cons]
      rcases List.mem_cons.mp h with rfl | h'
      · exact Nat.le_trans (foldl_timer_le cur csh ys _) (heightTimerStep_mono cur csh csh' t t k hc (Nat.le_refl _))
      · exact Nat.le_trans (ihy _ h') (heightTimerStep_mono cur csh' csh' _ t k (Nat.le_refl _) (heightTimerStep_le cur csh t y))
  simpa using gen ks (cur + LOW_FREQUENCY_BUMP_INTERVAL) hk

/-! ### well-formed packages; `splitAll` -/

/-- a malleable package has only inputs of malleable kinds; an untractable one is never aggregated -/
def Package.ok (p : Package α) : Prop :=
  (∀ c, p.mall = .malleable c → ∀ e ∈ p.inputs, ∃ c', e.2.flags = .malleable c') ∧ (p.mall = .untractable → p.inputs.length ≤ 1)

theorem split_untractable (p : Package α) (o : α) (h : p.mall = .untractable) : p.split o = (none, p) := by
  unfold Package.split; rw [h]

theorem split_mall (p : Package α) (o : α) (c : Cluster) (hok : p.ok) (hm : p.mall = .malleable c) :
    ∃ c', (p.split o).2.mall = .malleable c' := by
  unfold Package.split; rw [hm]
  simp only
  cases hh : (p.inputs.filter fun e => !decide (e.1 = o)).head? with
  | none => exact ⟨c, rfl⟩
  | some l =>
    have hl : l ∈ p.inputs := (List.mem_filter.mp (List.mem_of_head? hh)).1
    exact hok.1 c hm l hl

theorem split_ok (p : Package α) (o : α) (hok : p.ok) : (p.split o).2.ok := by
  cases hm : p.mall with
  | untractable => rw [split_untractable p o hm]; exact hok
  | malleable c =>
    obtain ⟨c', hc'⟩ := split_mall p o c hok hm
    refine ⟨fun c2 _ e he => ?_, fun hu => by rw [hc'] at hu; cases hu⟩
    have : e ∈ p.inputs := by
      unfold Package.split at he; rw [hm] at he
      exact (List.mem_filter.mp he).1
    exact hok.1 c hm e this

theorem splitAll_untractable (p : Package α) (ins : List α) (h : p.mall = .untractable) : splitAll p ins = (p, []) := by
  induction ins with
  | nil => rfl
  | cons i rest ih => simp [splitAll, split_untractable p i h, ih]

theorem splitAll_sub (p : Package α) (ins : List α) : ∀ x ∈ (splitAll p ins).1.outpoints, x ∈ p.outpoints := by
  induction ins generalizing p with
  | nil => intro x hx; exact hx
  | cons i rest ih => intro x hx; exact split_rest_mem p i x (ih (p.split i).2 x hx)

theorem splitAll_ok (p : Package α) (ins : List α) (hok : p.ok) : (splitAll p ins).1.ok := by
  induction ins generalizing p with
  | nil => exact hok
  | cons i rest ih => exact ih (p.split i).2 (split_ok p i hok)

theorem splitAll_clean_mall (p : Package α) (ins : List α) (c : Cluster) (hok : p.ok) (hm : p.mall = .malleable c) :
    ∀ x ∈ (splitAll p ins).1.outpoints, x ∉ ins := by
  induction ins generalizing p c with
  | nil => intro x _ h; cases h
  | cons i rest ih =>
    intro x hx hmem
    obtain ⟨c', hc'⟩ := split_mall p i c hok hm
    have hx' : x ∈ (splitAll (p.split i).2 rest).1.outpoints := hx
    rcases List.mem_cons.mp hmem with rfl | hr
    · have := splitAll_sub (p.split x).2 rest x hx'
      exact ((split_rest_malleable p x x c hm).mp this).2 rfl
    · exact ih (p.split i).2 c' (split_ok p i hok) hc' x hx' hr

/-- after the split loop no outpoint of the transaction is left in the request (unless the whole request is spent by it) -/
theorem splitAll_clean (p : Package α) (ins : List α) (hok : p.ok) (hns : ¬ ∀ o ∈ p.outpoints, o ∈ ins) :
    ∀ x ∈ (splitAll p ins).1.outpoints, x ∉ ins := by
  cases hm : p.mall with
  | malleable c => exact splitAll_clean_mall p ins c hok hm
  | untractable =>
    rw [splitAll_untractable p ins hm]
    intro x hx hmem
    apply hns
    intro o ho
    have hlen := hok.2 hm
    unfold Package.outpoints at hx ho
    match hi : p.inputs, hlen with
    | [], _ => rw [hi] at hx; cases hx
    | [e], _ =>
      rw [hi] at hx ho
      simp at hx ho
      rw [ho, ← hx]; exact hmem

theorem splitAll_nodrop (p : Package α) (ins : List α) (h : (splitAll p ins).2 = []) : (splitAll p ins).1.outpoints = p.outpoints := by
  induction ins generalizing p with
  | nil => rfl
  | cons i rest ih =>
    simp only [splitAll, List.append_eq_nil_iff] at h
    have h1 : (p.split i).1 = none := by
      cases hs : (p.split i).1 with
      | none => rfl
      | some d => rw [hs] at h; simp at h
    have hrest : (p.split i).2.outpoints = p.outpoints := by
      cases hm : p.mall with
      | untractable => rw [split_untractable p i hm]
      | malleable c =>
        unfold Package.split at h1 ⊢; rw [hm] at h1 ⊢
        simp only [Option.map_eq_none_iff, List.getLast?_eq_none_iff] at h1
        unfold Package.outpoints
        simp only
        congr 1
        apply List.filter_eq_self.mpr
        intro e he
        cases hd : decide (e.1 = i) with
        | false => rfl
        | true =>
          have : e ∈ p.inputs.filter (fun e => decide (e.1 = i)) := List.mem_filter.mpr ⟨he, hd⟩
          rw [h1] at this; cases this
    show (splitAll (p.split i).2 rest).1.outpoints = p.outpoints
    rw [ih (p.split i).2 h.2, hrest]

/-- nothing is lost by the split loop -/
theorem splitAll_never_drops (p : Package α) (ins : List α) (x : α) (hx : x ∈ p.outpoints) :
    x ∈ (splitAll p ins).1.outpoints ∨ (x ∈ ins ∧ ∃ d ∈ (splitAll p ins).2, d.outpoints = [x]) := by
  induction ins generalizing p with
  | nil => left; exact hx
  | cons i rest ih =>
    rcases split_never_drops p i x hx with h | ⟨rfl, d, hd, hdo⟩
    · rcases ih (p.split i).2 h with h' | ⟨hm, d, hd, hdo⟩
      · left; exact h'
      · right; exact ⟨List.mem_cons_of_mem _ hm, d, by simp only [splitAll]; exact List.mem_append_right _ hd, hdo⟩
    · right
      exact ⟨List.mem_cons_self, d, by simp only [splitAll, hd]; simp, hdo⟩

/-! ### the matching loop of update_claims_view_from_matched_txn -/

/-- an awaiting `Claim` entry for claim id `id` at height `conf` -/
def hasClaimAt (evs : List (Ev α)) (id conf : Nat) : Prop := ∃ t, Ev.claim id t conf ∈ evs

theorem mem_pushEv (evs : List (Ev α)) (e ev : Ev α) : ev ∈ pushEv evs e ↔ ev ∈ evs ∨ ev = e := by
  unfold pushEv
  split
  · rename_i h
    constructor
    · intro h'; exact Or.inl h'
    · rintro (h' | rfl)
      · exact h'
      · exact List.contains_iff_mem.mp h
  · simp

omit [DecidableEq α] in
theorem lookupReq_some (pd : List (Nat × Package α)) (id : Nat) (req : Package α) (h : lookupReq pd id = some req) :
    (id, req) ∈ pd := by
  unfold lookupReq at h
  simp only [Option.map_eq_some_iff] at h
  obtain ⟨e, he, rfl⟩ := h
  have h1 := List.mem_of_find?_eq_some he
  have h2 := List.find?_some he
  have : e.1 = id := by simpa using h2
  rw [← this]; exact h1

omit [DecidableEq α] in
theorem lookupReq_none (pd : List (Nat × Package α)) (id : Nat) (h : lookupReq pd id = none) : ∀ e ∈ pd, e.1 ≠ id := by
  unfold lookupReq at h
  simp only [Option.map_eq_none_iff, List.find?_eq_none] at h
  intro e he heq
  exact h e he (by simpa using heq)

omit [DecidableEq α] in
theorem mem_setReq (pd : List (Nat × Package α)) (id : Nat) (p : Package α) (e' : Nat × Package α) :
    e' ∈ setReq pd id p ↔ ∃ e ∈ pd, e' = if e.1 = id then (id, p) else e := by
  unfold setReq
  simp only [List.mem_map]
  constructor
  · rintro ⟨e, he, rfl⟩; exact ⟨e, he, rfl⟩
  · rintro ⟨e, he, rfl⟩; exact ⟨e, he, rfl⟩

omit [DecidableEq α] in
theorem mem_bumpPut_true (bc : Bump α) (id : Nat) (p : Package α) (c : Nat × Package α) (h : c ∈ bumpPut true bc id p) :
    c = (id, p) ∨ (c ∈ bc ∧ c.1 ≠ id) := by
  unfold bumpPut at h
  split at h
  · simp only [if_true, List.mem_map] at h
    obtain ⟨e, he, rfl⟩ := h
    by_cases hid : e.1 = id
    · left; simp [hid]
    · right; simp [hid, he]
  · rename_i hb
    rcases List.mem_append.mp h with h' | h'
    · right
      refine ⟨h', fun hid => hb ?_⟩
      unfold bumpHas
      exact List.any_eq_true.mpr ⟨c, h', by simpa using hid⟩
    · left; simpa using h'

/-- the invariant of the matching loop, relative to the handler `h0` the call started from: `P` = the outpoints spent by the inputs
    visited so far, `Full` = the outpoints spent by the whole block -/
structure LoopInv (h0 : Handler α) (conf : Nat) (P Full : α → Prop) (a : Acc α) : Prop where
  cl : a.h.claimable = h0.claimable
  reg : ∀ e ∈ a.h.pending, ∀ o ∈ e.2.outpoints, ∃ hg, lookupClaim a.h.claimable o = some (e.1, hg)
  ok : ∀ e ∈ a.h.pending, e.2.ok
  uniq : ∀ e1 ∈ a.h.pending, ∀ e2 ∈ a.h.pending, e1.1 = e2.1 → e1 = e2
  shrink : ∀ e ∈ a.h.pending, ∃ e0 ∈ h0.pending, e0.1 = e.1 ∧ ∀ o ∈ e.2.outpoints, o ∈ e0.2.outpoints
  evold : ∀ ev ∈ a.h.events, ev ∈ h0.events ∨ ev.height = conf
  evmono : ∀ ev ∈ h0.events, ev ∈ a.h.events
  k : ∀ e ∈ a.h.pending, ∀ o ∈ e.2.outpoints, P o → hasClaimAt a.h.events e.1 conf ∧ ∀ o' ∈ e.2.outpoints, Full o'
  snap : ∀ c ∈ a.bc, ∃ e ∈ a.h.pending, e.1 = c.1 ∧ e.2.outpoints = c.2.outpoints
  keep : ∀ e0 ∈ h0.pending, ∀ o ∈ e0.2.outpoints, ¬ Full o → ∃ e ∈ a.h.pending, e.1 = e0.1 ∧ o ∈ e.2.outpoints

theorem LoopInv.weaken {h0 : Handler α} {conf : Nat} {P Q Full : α → Prop} {a : Acc α} (hq : ∀ o, Q o → P o)
    (inv : LoopInv h0 conf P Full a) : LoopInv h0 conf Q Full a :=
  { inv with k := fun e he o ho hQ => inv.k e he o ho (hq o hQ) }

theorem LoopInv.unchanged {h0 : Handler α} {conf : Nat} {P Full : α → Prop} {a : Acc α} (inp : α)
    (inv : LoopInv h0 conf P Full a) (hno : ∀ e ∈ a.h.pending, inp ∉ e.2.outpoints) :
    LoopInv h0 conf (fun o => o = inp ∨ P o) Full a := by
  refine { cl := inv.cl, reg := inv.reg, ok := inv.ok, uniq := inv.uniq, shrink := inv.shrink, evold := inv.evold,
           evmono := inv.evmono, snap := inv.snap, keep := inv.keep, k := ?_ }
  intro e he o ho hP
  rcases hP with rfl | hP
  · exact absurd ho (hno e he)
  · exact inv.k e he o ho hP

/-- one visited input keeps the invariant, and afterwards it is among the visited ones.  This is where the TRANSLATED `splitBranch`
    (the request IS split whenever it is not a subset of the transaction) and `bumpInsertOverwrites` (the queued snapshot is the
    request after the LAST split) are used. -/
theorem visitPending_inv (h0 : Handler α) (conf : Nat) (P Full : α → Prop) (tx : Tx α) (a : Acc α) (inp : α)
    (hin : inp ∈ tx.inputs) (hfull : ∀ o ∈ tx.inputs, Full o) (inv : LoopInv h0 conf P Full a) :
    LoopInv h0 conf (fun o => o = inp ∨ P o) Full (visitPending conf tx a inp) := by
  unfold visitPending
  split
  · rename_i hl
    refine inv.unchanged inp fun e he hmem => ?_
    obtain ⟨hg, h⟩ := inv.reg e he inp hmem
    rw [hl] at h; cases h
  · rename_i id hg hl
    split
    · rename_i hr
      refine inv.unchanged inp fun e he hmem => ?_
      obtain ⟨hg', h⟩ := inv.reg e he inp hmem
      rw [hl] at h
      have : e.1 = id := by cases h; rfl
      exact lookupReq_none _ _ hr e he this
    · rename_i req hr
      have hreq : (id, req) ∈ a.h.pending := lookupReq_some _ _ _ hr
      have hid : ∀ e ∈ a.h.pending, inp ∈ e.2.outpoints → e = (id, req) := by
        intro e he hmem
        obtain ⟨hg', h⟩ := inv.reg e he inp hmem
        rw [hl] at h
        have : e.1 = id := by cases h; rfl
        exact inv.uniq e he _ hreq this
      simp only
      split
      · -- the request is a subset of the transaction's inputs: a `Claim` entry, the request stays
        rename_i hsub
        have hall : ∀ o ∈ req.outpoints, o ∈ tx.inputs := by
          intro o ho
          have := List.all_eq_true.mp hsub o ho
          exact List.contains_iff_mem.mp this
        refine { cl := inv.cl, reg := inv.reg, ok := inv.ok, uniq := inv.uniq, shrink := inv.shrink, snap := inv.snap, keep := inv.keep, evold := ?_, evmono := ?_, k := ?_ }
        · intro ev hev
          rcases (mem_pushEv _ _ _).mp hev with h | rfl
          · exact inv.evold ev h
          · right; rfl
        · intro ev hev; exact (mem_pushEv _ _ _).mpr (Or.inl (inv.evmono ev hev))
        · intro e he o ho hP
          rcases hP with rfl | hP
          · have := hid e he ho
            subst this
            exact ⟨⟨tx.txid, (mem_pushEv _ _ _).mpr (Or.inr rfl)⟩, fun o' ho' => hfull o' (hall o' ho')⟩
          · obtain ⟨⟨t, ht⟩, hf⟩ := inv.k e he o ho hP
            exact ⟨⟨t, (mem_pushEv _ _ _).mpr (Or.inl ht)⟩, hf⟩
      · rename_i hsub
        have hfalse : (req.outpoints.all fun o => tx.inputs.contains o) = false := by
          cases h : (req.outpoints.all fun o => tx.inputs.contains o) with
          | true => exact absurd h hsub
          | false => rfl
        have hns : ¬ ∀ o ∈ req.outpoints, o ∈ tx.inputs := by
          intro hall
          apply hsub
          exact List.all_eq_true.mpr fun o ho => List.contains_iff_mem.mpr (hall o ho)
        split
        · -- the split branch
          have hsubr := splitAll_sub req tx.inputs
          have hclean := splitAll_clean req tx.inputs (inv.ok _ hreq) hns
          have hnew : (id, (splitAll req tx.inputs).1) ∈ setReq a.h.pending id (splitAll req tx.inputs).1 :=
            (mem_setReq _ _ _ _).mpr ⟨(id, req), hreq, by simp⟩
          have hev1 : ∀ ev ∈ a.h.events, ev ∈ (if (splitAll req tx.inputs).1.inputs.isEmpty then pushEv a.h.events (.claim id tx.txid conf) else a.h.events) := by
            intro ev hev; split
            · exact (mem_pushEv _ _ _).mpr (Or.inl hev)
            · exact hev
          have hev2 : ∀ ev ∈ (if (splitAll req tx.inputs).1.inputs.isEmpty then pushEv a.h.events (.claim id tx.txid conf) else a.h.events),
              ev ∈ a.h.events ∨ ev = .claim id tx.txid conf := by
            intro ev hev; split at hev
            · exact (mem_pushEv _ _ _).mp hev
            · exact Or.inl hev
          refine { cl := inv.cl, reg := ?_, ok := ?_, uniq := ?_, shrink := ?_, snap := ?_, evold := ?_, evmono := ?_, k := ?_, keep := ?_ }
          · intro e' he' o ho
            obtain ⟨e, he, rfl⟩ := (mem_setReq _ _ _ _).mp he'
            by_cases hi : e.1 = id
            · simp only [hi, if_true] at ho ⊢
              exact inv.reg _ hreq o (hsubr o ho)
            · simp only [hi, if_false] at ho ⊢
              exact inv.reg e he o ho
          · intro e' he'
            obtain ⟨e, he, rfl⟩ := (mem_setReq _ _ _ _).mp he'
            by_cases hi : e.1 = id
            · simp only [hi, if_true]; exact splitAll_ok req tx.inputs (inv.ok _ hreq)
            · simp only [hi, if_false]; exact inv.ok e he
          · intro e1' he1' e2' he2' heq
            obtain ⟨e1, he1, rfl⟩ := (mem_setReq _ _ _ _).mp he1'
            obtain ⟨e2, he2, rfl⟩ := (mem_setReq _ _ _ _).mp he2'
            by_cases h1 : e1.1 = id
            · by_cases h2 : e2.1 = id
              · simp only [h1, h2, if_true]
              · simp only [h1, h2, if_true, if_false] at heq
                try exact absurd heq.symm h2
            · by_cases h2 : e2.1 = id
              · simp only [h1, h2, if_true, if_false] at heq
                try exact absurd heq h1
              · simp only [h1, h2, if_false] at heq ⊢
                exact inv.uniq e1 he1 e2 he2 heq
          · intro e' he'
            obtain ⟨e, he, rfl⟩ := (mem_setReq _ _ _ _).mp he'
            by_cases hi : e.1 = id
            · simp only [hi, if_true]
              obtain ⟨e0, he0, h1, h2⟩ := inv.shrink _ hreq
              exact ⟨e0, he0, h1, fun o ho => h2 o (hsubr o ho)⟩
            · simp only [hi, if_false]; exact inv.shrink e he
          · intro ev hev
            rcases hev2 ev hev with h | rfl
            · exact inv.evold ev h
            · right; rfl
          · intro ev hev; exact hev1 ev (inv.evmono ev hev)
          · intro e' he' o ho hP
            obtain ⟨e, he, rfl⟩ := (mem_setReq _ _ _ _).mp he'
            by_cases hi : e.1 = id
            · simp only [hi, if_true] at ho ⊢
              rcases hP with rfl | hP
              · exact absurd hin (hclean _ ho)
              · obtain ⟨⟨t, ht⟩, hf⟩ := inv.k _ hreq o (hsubr o ho) hP
                exact ⟨⟨t, hev1 _ ht⟩, fun o' ho' => hf o' (hsubr o' ho')⟩
            · simp only [hi, if_false] at ho ⊢
              rcases hP with rfl | hP
              · have := hid e he ho
                rw [this] at hi; exact absurd rfl hi
              · obtain ⟨⟨t, ht⟩, hf⟩ := inv.k e he o ho hP
                exact ⟨⟨t, hev1 _ ht⟩, hf⟩
          · -- the queued snapshots agree with the stored requests: `insert` overwrites
            intro c hc
            have keep : ∀ e ∈ a.h.pending, e.1 = c.1 → e.2.outpoints = c.2.outpoints → c.1 ≠ id →
                ∃ e' ∈ setReq a.h.pending id (splitAll req tx.inputs).1, e'.1 = c.1 ∧ e'.2.outpoints = c.2.outpoints := by
              intro e he h1 h2 hne
              refine ⟨e, (mem_setReq _ _ _ _).mpr ⟨e, he, ?_⟩, h1, h2⟩
              have : ¬ e.1 = id := fun h => hne (h1 ▸ h)
              simp [this]
            by_cases hemp : (splitAll req tx.inputs).2.isEmpty = true
            · simp only [hemp, if_true] at hc
              obtain ⟨e, he, h1, h2⟩ := inv.snap c hc
              by_cases hci : c.1 = id
              · have : e = (id, req) := inv.uniq e he _ hreq (h1.trans hci)
                subst this
                refine ⟨_, hnew, hci.symm, ?_⟩
                rw [splitAll_nodrop req tx.inputs (List.isEmpty_iff.mp hemp)]; exact h2
              · exact keep e he h1 h2 hci
            · simp only [hemp] at hc
              have how : bumpInsertOverwrites = true := rfl
              rw [how] at hc
              rcases mem_bumpPut_true _ _ _ _ hc with rfl | ⟨hc', hne⟩
              · exact ⟨_, hnew, rfl, rfl⟩
              · obtain ⟨e, he, h1, h2⟩ := inv.snap c hc'
                exact keep e he h1 h2 hne
          · -- what the transaction does not spend stays in its request
            intro e0 he0 o ho hnf
            obtain ⟨e, he, h1, h2⟩ := inv.keep e0 he0 o ho hnf
            by_cases hi : e.1 = id
            · have : e = (id, req) := inv.uniq e he _ hreq hi
              subst this
              refine ⟨_, hnew, h1, ?_⟩
              rcases splitAll_never_drops req tx.inputs o h2 with h | ⟨hm, _⟩
              · exact h
              · exact absurd (hfull o hm) hnf
            · exact ⟨e, (mem_setReq _ _ _ _).mpr ⟨e, he, by simp [hi]⟩, h1, h2⟩
        · -- not a subset and not split: impossible with the translated `splitBranch`
          rename_i hnb
          rw [hfalse] at hnb
          simp [splitBranch] at hnb

theorem LoopInv.of_eq {h0 : Handler α} {conf : Nat} {P Full : α → Prop} {a b : Acc α} (hh : b.h = a.h) (hb : b.bc = a.bc)
    (inv : LoopInv h0 conf P Full a) : LoopInv h0 conf P Full b := by
  obtain ⟨h, bc, m⟩ := a
  obtain ⟨h', bc', m'⟩ := b
  cases hh; cases hb
  exact { cl := inv.cl, reg := inv.reg, ok := inv.ok, uniq := inv.uniq, shrink := inv.shrink, evold := inv.evold,
          evmono := inv.evmono, k := inv.k, snap := inv.snap, keep := inv.keep }

theorem visitInput_inv (h0 : Handler α) (conf : Nat) (P Full : α → Prop) (tx : Tx α) (a : Acc α) (inp : α)
    (hin : inp ∈ tx.inputs) (hfull : ∀ o ∈ tx.inputs, Full o) (inv : LoopInv h0 conf P Full a) :
    LoopInv h0 conf (fun o => o = inp ∨ P o) Full (visitInput conf tx a inp) := by
  have := visitPending_inv h0 conf P Full tx a inp hin hfull inv
  unfold visitInput visitLocked
  exact { cl := this.cl, reg := this.reg, ok := this.ok, uniq := this.uniq, shrink := this.shrink, evold := this.evold,
          evmono := this.evmono, k := this.k, snap := this.snap, keep := this.keep }

theorem visitFold_inv (h0 : Handler α) (conf : Nat) (Full : α → Prop) (tx : Tx α) (hfull : ∀ o ∈ tx.inputs, Full o)
    (ins : List α) (hsub : ∀ i ∈ ins, i ∈ tx.inputs) (P : α → Prop) (a : Acc α) (inv : LoopInv h0 conf P Full a) :
    LoopInv h0 conf (fun o => o ∈ ins ∨ P o) Full (ins.foldl (visitInput conf tx) a) := by
  induction ins generalizing P a with
  | nil => exact inv.weaken (fun o h => by rcases h with h | h; cases h; exact h)
  | cons i rest ih =>
    have h1 := visitInput_inv h0 conf P Full tx a i (hsub i List.mem_cons_self) hfull inv
    have h2 := ih (fun j hj => hsub j (List.mem_cons_of_mem _ hj)) _ _ h1
    refine h2.weaken fun o h => ?_
    rcases h with h | h
    · rcases List.mem_cons.mp h with rfl | h'
      · exact Or.inr (Or.inl rfl)
      · exact Or.inl h'
    · exact Or.inr (Or.inr h)

theorem foldl_pushEv (mat : List (Package α)) (t conf : Nat) (evs : List (Ev α)) :
    (∀ ev ∈ evs, ev ∈ mat.foldl (fun evs p => pushEv evs (.contentious p t conf)) evs) ∧
    (∀ ev ∈ mat.foldl (fun evs p => pushEv evs (.contentious p t conf)) evs, ev ∈ evs ∨ ∃ p, ev = .contentious p t conf) := by
  induction mat generalizing evs with
  | nil => exact ⟨fun ev h => h, fun ev h => Or.inl h⟩
  | cons p rest ih =>
    obtain ⟨h1, h2⟩ := ih (pushEv evs (.contentious p t conf))
    refine ⟨fun ev h => h1 ev ((mem_pushEv _ _ _).mpr (Or.inl h)), fun ev h => ?_⟩
    rcases h2 ev h with h' | h'
    · rcases (mem_pushEv _ _ _).mp h' with h'' | rfl
      · exact Or.inl h''
      · exact Or.inr ⟨p, rfl⟩
    · exact Or.inr h'

theorem processTx_inv (h0 : Handler α) (conf : Nat) (P Full : α → Prop) (tx : Tx α) (hfull : ∀ o ∈ tx.inputs, Full o)
    (st : Handler α × Bump α) (inv : LoopInv h0 conf P Full ⟨st.1, st.2, []⟩) :
    LoopInv h0 conf (fun o => o ∈ tx.inputs ∨ P o) Full ⟨(processTx conf st tx).1, (processTx conf st tx).2, []⟩ := by
  have hv := visitFold_inv h0 conf Full tx hfull tx.inputs (fun i h => h) P _ inv
  unfold processTx
  simp only
  obtain ⟨m1, m2⟩ := foldl_pushEv (tx.inputs.foldl (visitInput conf tx) ⟨st.1, st.2, []⟩).mat tx.txid conf
    (tx.inputs.foldl (visitInput conf tx) ⟨st.1, st.2, []⟩).h.events
  refine { cl := hv.cl, reg := hv.reg, ok := hv.ok, uniq := hv.uniq, shrink := hv.shrink, evold := ?_, evmono := ?_, k := ?_, snap := hv.snap, keep := hv.keep }
  · intro ev hev
    rcases m2 ev hev with h | ⟨p, rfl⟩
    · exact hv.evold ev h
    · right; rfl
  · intro ev hev; exact m1 ev (hv.evmono ev hev)
  · intro e he o ho hP
    obtain ⟨⟨t, ht⟩, hf⟩ := hv.k e he o ho hP
    exact ⟨⟨t, m1 _ ht⟩, hf⟩

/-- what the handler has to satisfy when a block arrives (an invariant of the handler: see `WF_*`) -/
structure Handler.WF (h : Handler α) : Prop where
  /-- every outpoint of a pending request is registered in `claimable_outpoints` under the request's claim id -/
  reg : ∀ e ∈ h.pending, ∀ o ∈ e.2.outpoints, ∃ hg, lookupClaim h.claimable o = some (e.1, hg)
  ok : ∀ e ∈ h.pending, e.2.ok
  /-- `pending_claim_requests` is a map -/
  uniq : ∀ e1 ∈ h.pending, ∀ e2 ∈ h.pending, e1.1 = e2.1 → e1 = e2
  /-- an outpoint that was split off (awaiting `ContentiousOutpoint`) is in no pending request -/
  cont : ∀ pkg t hg, Ev.contentious pkg t hg ∈ h.events → ∀ e ∈ h.pending, ∀ o ∈ pkg.outpoints, o ∉ e.2.outpoints

theorem matchLoop_inv_gen (h0 : Handler α) (conf : Nat) (Full : α → Prop) (l : List (Tx α)) (hfull : ∀ tx ∈ l, ∀ o ∈ tx.inputs, Full o)
    (P : α → Prop) (st : Handler α × Bump α) (inv : LoopInv h0 conf P Full ⟨st.1, st.2, []⟩) :
    LoopInv h0 conf (fun o => (∃ tx ∈ l, o ∈ tx.inputs) ∨ P o) Full
      ⟨(l.foldl (processTx conf) st).1, (l.foldl (processTx conf) st).2, []⟩ := by
  induction l generalizing P st with
  | nil => exact inv.weaken (fun o h => by rcases h with ⟨tx, h, _⟩ | h; cases h; exact h)
  | cons tx rest ih =>
    have h1 := processTx_inv h0 conf P Full tx (hfull tx List.mem_cons_self) st inv
    have h2 := ih (fun t ht => hfull t (List.mem_cons_of_mem _ ht)) _ _ h1
    refine h2.weaken fun o h => ?_
    rcases h with ⟨t, ht, ho⟩ | h
    · rcases List.mem_cons.mp ht with rfl | h'
      · exact Or.inr (Or.inl ho)
      · exact Or.inl ⟨t, h', ho⟩
    · exact Or.inr (Or.inr h)

omit [DecidableEq α] in
theorem mem_blockSpent (txs : List (Tx α)) (o : α) : o ∈ blockSpent txs ↔ ∃ tx ∈ txs, o ∈ tx.inputs := by
  unfold blockSpent; simp [List.mem_flatMap]

/-- the state after the matching loop over a whole block -/
theorem matchLoop_inv (h0 : Handler α) (conf : Nat) (txs : List (Tx α)) (wf : h0.WF) :
    LoopInv h0 conf (fun o => o ∈ blockSpent txs) (fun o => o ∈ blockSpent txs)
      ⟨(matchLoop conf h0 txs).1, (matchLoop conf h0 txs).2, []⟩ := by
  have init : LoopInv h0 conf (fun _ => False) (fun o => o ∈ blockSpent txs) ⟨h0, [], []⟩ :=
    { cl := rfl, reg := wf.reg, ok := wf.ok, uniq := wf.uniq, shrink := fun e he => ⟨e, he, rfl, fun o ho => ho⟩,
      evold := fun ev h => Or.inl h, evmono := fun ev h => h, k := fun _ _ _ _ h => h.elim,
      keep := fun e0 he0 o ho _ => ⟨e0, he0, rfl, ho⟩, snap := fun c hc => nomatch hc }
  have := matchLoop_inv_gen h0 conf (fun o => o ∈ blockSpent txs) txs
    (fun tx ht o ho => (mem_blockSpent txs o).mpr ⟨tx, ht, ho⟩) _ (h0, []) init
  unfold matchLoop
  exact this.weaken fun o h => Or.inl ((mem_blockSpent txs o).mp h)

/-! ### maturity, timer loop, bump loop -/

omit [DecidableEq α] in
theorem threshold_lt (hg cur : Nat) (h : handlerThresholdReached hg cur = true) : hg < cur := by
  unfold handlerThresholdReached at h
  have : ANTI_REORG_DELAY = 6 := rfl
  simp only [decide_eq_true_eq] at h
  omega

theorem lookupClaim_filter (cl : List (α × Nat × Nat)) (f : α × Nat × Nat → Bool) (o : α)
    (hf : ∀ c ∈ cl, c.1 = o → f c = true) : lookupClaim (cl.filter f) o = lookupClaim cl o := by
  unfold lookupClaim
  congr 1
  induction cl with
  | nil => rfl
  | cons c rest ih =>
    have ih' := ih fun c' hc' => hf c' (List.mem_cons_of_mem _ hc')
    by_cases hco : c.1 = o
    · have := hf c List.mem_cons_self hco
      simp [List.filter_cons, this, List.find?_cons, hco]
    · cases hfc : f c with
      | true => simp [List.filter_cons, hfc, List.find?_cons, hco, ih']
      | false => simp [List.filter_cons, hfc, List.find?_cons, hco, ih']

/-- what the maturity loop leaves alone: requests are only removed, entries that have not reached the threshold stay, and the
    `claimable_outpoints` entry of a protected outpoint stays when no matured entry concerns it -/
theorem mature_fold (cur : Nat) (h1 : Handler α) (Prot : α → Prop) (evs : List (Ev α))
    (hsafe : ∀ ev ∈ evs, handlerThresholdReached ev.height cur = true →
      (∀ id t hg, ev = .claim id t hg → ∀ req, (id, req) ∈ h1.pending → ∀ o ∈ req.outpoints, ¬ Prot o) ∧
      (∀ pkg t hg o, ev = .contentious pkg t hg → pkg.outpoints.head? = some o → ¬ Prot o))
    (g : Handler α) (hp : ∀ x ∈ g.pending, x ∈ h1.pending)
    (hc : ∀ o, Prot o → lookupClaim g.claimable o = lookupClaim h1.claimable o) :
    (∀ x ∈ (evs.foldl (matureStep cur) g).pending, x ∈ h1.pending) ∧
    (∀ o, Prot o → lookupClaim (evs.foldl (matureStep cur) g).claimable o = lookupClaim h1.claimable o) ∧
    (∀ ev ∈ g.events, ev ∈ (evs.foldl (matureStep cur) g).events) ∧
    (∀ ev ∈ evs, handlerThresholdReached ev.height cur = false → ev ∈ (evs.foldl (matureStep cur) g).events) := by
  induction evs generalizing g with
  | nil => exact ⟨hp, hc, fun ev h => h, fun ev h => by cases h⟩
  | cons ev rest ih =>
    have hs' : ∀ ev' ∈ rest, handlerThresholdReached ev'.height cur = true → _ := fun ev' h => hsafe ev' (List.mem_cons_of_mem _ h)
    simp only [List.foldl_cons]
    cases hthr : handlerThresholdReached ev.height cur with
    | false =>
      have hstep : matureStep cur g ev = { g with events := g.events ++ [ev] } := by unfold matureStep; simp [hthr]
      obtain ⟨a, b, c, d⟩ := ih hs' (matureStep cur g ev) (by rw [hstep]; exact hp) (by rw [hstep]; exact hc)
      refine ⟨a, b, fun e he => c e (by rw [hstep]; exact List.mem_append_left _ he), fun e he hne => ?_⟩
      rcases List.mem_cons.mp he with rfl | he'
      · exact c e (by rw [hstep]; simp)
      · exact d e he' hne
    | true =>
      obtain ⟨hcl, hco⟩ := hsafe ev List.mem_cons_self hthr
      have key : (∀ x ∈ (matureStep cur g ev).pending, x ∈ h1.pending) ∧
          (∀ o, Prot o → lookupClaim (matureStep cur g ev).claimable o = lookupClaim h1.claimable o) ∧
          (matureStep cur g ev).events = g.events := by
        unfold matureStep
        simp only [hthr, if_true]
        cases ev with
        | claim id t hg =>
          simp only
          cases hr : lookupReq g.pending id with
          | none => exact ⟨hp, hc, rfl⟩
          | some req =>
            have hmem : (id, req) ∈ h1.pending := hp _ (lookupReq_some _ _ _ hr)
            refine ⟨fun x hx => hp x (List.mem_filter.mp hx).1, fun o ho => ?_, rfl⟩
            simp only
            rw [lookupClaim_filter _ _ o ?_]
            · exact hc o ho
            · intro c _ hc1
              have hno : o ∉ req.outpoints := fun hm => hcl id t hg rfl req hmem o hm ho
              rw [hc1]
              simpa using hno
        | contentious pkg t hg =>
          simp only
          cases hh : pkg.outpoints.head? with
          | none => exact ⟨hp, hc, rfl⟩
          | some o' =>
            refine ⟨hp, fun o ho => ?_, rfl⟩
            simp only
            rw [lookupClaim_filter _ _ o ?_]
            · exact hc o ho
            · intro c _ hc1
              have hne : o ≠ o' := fun h => hco pkg t hg o' rfl hh (h ▸ ho)
              rw [hc1]; simpa using hne
      obtain ⟨k1, k2, k3⟩ := key
      obtain ⟨a, b, c, d⟩ := ih hs' (matureStep cur g ev) k1 k2
      refine ⟨a, b, fun e he => c e (by rw [k3]; exact he), fun e he hne => ?_⟩
      rcases List.mem_cons.mp he with rfl | he'
      · rw [hthr] at hne; cases hne
      · exact d e he' hne

theorem timerLoop_mem (cur : Nat) (h : Handler α) (bc : Bump α) : ∀ c ∈ timerLoop cur h bc, c ∈ bc ∨ c ∈ h.pending := by
  unfold timerLoop
  have gen : ∀ (l : List (Nat × Package α)) (bc : Bump α),
      ∀ c ∈ l.foldl (fun bc e => if timerExpired cur e.2.timer then bumpPut true bc e.1 e.2 else bc) bc, c ∈ bc ∨ c ∈ l := by
    intro l
    induction l with
    | nil => intro bc c hc; exact Or.inl hc
    | cons e rest ih =>
      intro bc c hc
      simp only [List.foldl_cons] at hc
      rcases ih _ c hc with h' | h'
      · split at h'
        · rcases mem_bumpPut_true _ _ _ _ h' with rfl | ⟨h'', _⟩
          · exact Or.inr List.mem_cons_self
          · exact Or.inl h''
        · exact Or.inl h'
      · exact Or.inr (List.mem_cons_of_mem _ h')
  exact gen h.pending bc

theorem bumpLoop_spec (cur : Nat) (feeOk : Nat → Bool) (h : Handler α) (bc : Bump α) :
    (∀ i ∈ (bumpLoop cur feeOk h bc).2, ∃ c ∈ bc, claimGuard h c.2 = true ∧ i.spends = c.2.outpoints ∧ i.id = c.1) ∧
    (bumpLoop cur feeOk h bc).1.events = h.events ∧
    (∀ e ∈ (bumpLoop cur feeOk h bc).1.pending, ∃ e' ∈ h.pending, e'.1 = e.1 ∧ e'.2.outpoints = e.2.outpoints) := by
  unfold bumpLoop
  have gen : ∀ (l : List (Nat × Package α)) (acc : Handler α × List (Issue α)),
      let r := l.foldl (fun acc c =>
        if claimGuard h c.2 && feeOk c.1 then
          ({ acc.1 with pending := acc.1.pending.map fun e => if e.1 = c.1 then (e.1, { e.2 with timer := c.2.heightTimer cur }) else e },
           acc.2 ++ [{ id := c.1, spends := c.2.outpoints, timer := c.2.heightTimer cur }])
        else acc) acc
      (∀ i ∈ r.2, i ∈ acc.2 ∨ ∃ c ∈ l, claimGuard h c.2 = true ∧ i.spends = c.2.outpoints ∧ i.id = c.1) ∧
      r.1.events = acc.1.events ∧
      (∀ e ∈ r.1.pending, ∃ e' ∈ acc.1.pending, e'.1 = e.1 ∧ e'.2.outpoints = e.2.outpoints) := by
    intro l
    induction l with
    | nil => intro acc; exact ⟨fun i hi => Or.inl hi, rfl, fun e he => ⟨e, he, rfl, rfl⟩⟩
    | cons c rest ih =>
      intro acc
      simp only [List.foldl_cons]
      by_cases hg : (claimGuard h c.2 && feeOk c.1) = true
      · simp only [hg, if_true]
        obtain ⟨a1, a2, a3⟩ := ih ({ acc.1 with pending := acc.1.pending.map fun e => if e.1 = c.1 then (e.1, { e.2 with timer := c.2.heightTimer cur }) else e },
           acc.2 ++ [{ id := c.1, spends := c.2.outpoints, timer := c.2.heightTimer cur }])
        refine ⟨fun i hi => ?_, a2, fun e he => ?_⟩
        · rcases a1 i hi with h' | ⟨c', hc', h'⟩
          · rcases List.mem_append.mp h' with h'' | h''
            · exact Or.inl h''
            · right
              refine ⟨c, List.mem_cons_self, ?_, ?_, ?_⟩
              · simp only [Bool.and_eq_true] at hg; exact hg.1
              · simp only [List.mem_singleton] at h''; rw [h'']
              · simp only [List.mem_singleton] at h''; rw [h'']
          · exact Or.inr ⟨c', List.mem_cons_of_mem _ hc', h'⟩
        · obtain ⟨e', he', h1, h2⟩ := a3 e he
          simp only [List.mem_map] at he'
          obtain ⟨e'', he'', rfl⟩ := he'
          refine ⟨e'', he'', ?_, ?_⟩
          · rw [← h1]; split <;> rfl
          · rw [← h2]; split <;> rfl
      · simp only [hg]
        obtain ⟨a1, a2, a3⟩ := ih acc
        refine ⟨fun i hi => ?_, a2, a3⟩
        rcases a1 i hi with h' | ⟨c', hc', h'⟩
        · exact Or.inl h'
        · exact Or.inr ⟨c', List.mem_cons_of_mem _ hc', h'⟩
  obtain ⟨g1, g2, g3⟩ := gen bc (h, [])
  refine ⟨fun i hi => ?_, g2, g3⟩
  rcases g1 i hi with h' | h'
  · cases h'
  · exact h'

/-! ### the two block-level theorems -/

omit [DecidableEq α] in
theorem not_threshold_same (h : Nat) : handlerThresholdReached h h = false := by
  unfold handlerThresholdReached
  have : ANTI_REORG_DELAY = 6 := rfl
  simp only [decide_eq_false_iff_not]
  omega

/-- PARTITION, block level: after a block has been processed, a pending request that still contains an outpoint spent by a transaction of
    that block is COMPLETELY spent by the block and has its `Claim` entry (it only waits for ANTI_REORG_DELAY); every other pending
    request contains no outpoint with a spend confirmed in the block. -/
theorem connectBlock_no_spent_outpoint_left (height : Nat) (feeOk : Nat → Bool) (h0 : Handler α) (txs : List (Tx α)) (wf : h0.WF)
    (r : BlockResult α) (hr : connectBlock height feeOk h0 txs = some r) :
    ∀ e ∈ r.handler.pending, ∀ o ∈ e.2.outpoints, o ∈ blockSpent txs →
      hasClaimAt r.handler.events e.1 height ∧ ∀ o' ∈ e.2.outpoints, o' ∈ blockSpent txs := by
  unfold connectBlock at hr
  split at hr
  · cases hr
    have L := matchLoop_inv h0 height txs wf
    obtain ⟨A, _, _, C⟩ := mature_fold height (matchLoop height h0 txs).1 (fun _ => False) (matchLoop height h0 txs).1.events
      (fun ev _ _ => ⟨fun _ _ _ _ _ _ _ _ h => h, fun _ _ _ _ _ _ h => h⟩)
      { (matchLoop height h0 txs).1 with events := [] } (fun x hx => hx) (fun _ h => h.elim)
    obtain ⟨_, B2, B3⟩ := bumpLoop_spec height feeOk (mature height (matchLoop height h0 txs).1)
      (timerLoop height (mature height (matchLoop height h0 txs).1) (matchLoop height h0 txs).2)
    intro e he o ho hsp
    obtain ⟨e', he', h1, h2⟩ := B3 e he
    have he1 : e' ∈ (matchLoop height h0 txs).1.pending := A e' he'
    obtain ⟨⟨t, ht⟩, hf⟩ := L.k e' he1 o (h2 ▸ ho) hsp
    refine ⟨⟨t, ?_⟩, fun o' ho' => hf o' (h2 ▸ ho')⟩
    show Ev.claim e.1 t height ∈ (bumpLoop _ _ _ _).1.events
    rw [B2, ← h1]
    exact C _ ht (not_threshold_same height)
  · cases hr

/-- NO DOUBLE SPEND IN A RE-ISSUE: every claim transaction (re)broadcast while a block is processed — replacement claims of requests that
    were split by transactions of the block, and timer bumps — spends only outpoints that no transaction of that block spends.  Rests on the
    TRANSLATED queueing rule (`bumpInsertOverwrites`: the bump candidate is the request after ALL splits of the block). -/
theorem connectBlock_reissue_spends_unspent (height : Nat) (feeOk : Nat → Bool) (h0 : Handler α) (txs : List (Tx α)) (wf : h0.WF)
    (r : BlockResult α) (hr : connectBlock height feeOk h0 txs = some r) :
    ∀ i ∈ r.issued, ∀ o ∈ i.spends, o ∉ blockSpent txs := by
  unfold connectBlock at hr
  split at hr
  · rename_i hok
    cases hr
    have L := matchLoop_inv h0 height txs wf
    -- the outpoints of requests hit by the block
    let Prot : α → Prop := fun o' => ∃ e ∈ (matchLoop height h0 txs).1.pending, o' ∈ e.2.outpoints ∧ ∃ o ∈ e.2.outpoints, o ∈ blockSpent txs
    have hsafe : ∀ ev ∈ (matchLoop height h0 txs).1.events, handlerThresholdReached ev.height height = true →
        (∀ id t hg, ev = .claim id t hg → ∀ req, (id, req) ∈ (matchLoop height h0 txs).1.pending → ∀ o ∈ req.outpoints, ¬ Prot o) ∧
        (∀ pkg t hg o, ev = .contentious pkg t hg → pkg.outpoints.head? = some o → ¬ Prot o) := by
      intro ev hev hthr
      have hlt := threshold_lt _ _ hthr
      have hold : ev ∈ h0.events := by
        rcases L.evold ev hev with h | h
        · exact h
        · omega
      refine ⟨?_, ?_⟩
      · rintro id t hg rfl req hreq o' ho' ⟨e, he, hoe, o, ho, hsp⟩
        obtain ⟨g1, hg1⟩ := L.reg e he o' hoe
        obtain ⟨g2, hg2⟩ := L.reg _ hreq o' ho'
        rw [hg1] at hg2
        have hid : e.1 = id := by cases hg2; rfl
        have := L.uniq e he _ hreq hid
        subst this
        obtain ⟨e0, he0, h1, h2⟩ := L.shrink _ hreq
        have hb := List.all_eq_true.mp hok e0 he0
        simp only [Bool.or_eq_true] at hb
        rcases hb with hb | hb
        · have := List.all_eq_true.mp hb _ hold
          simp only [h1, decide_true, Bool.not_true, Bool.false_or, decide_eq_true_eq] at this
          simp only [Ev.height] at hlt
          omega
        · have := List.all_eq_true.mp hb o (h2 o ho)
          simp only [Bool.not_eq_true'] at this
          rw [List.contains_iff_mem.mpr hsp] at this
          cases this
      · rintro pkg t hg o' rfl hh ⟨e, he, hoe, _⟩
        obtain ⟨e0, he0, _, h2⟩ := L.shrink e he
        exact wf.cont pkg t hg hold e0 he0 o' (List.mem_of_head? hh) (h2 o' hoe)
    obtain ⟨A, B, _, C⟩ := mature_fold height (matchLoop height h0 txs).1 Prot (matchLoop height h0 txs).1.events hsafe
      { (matchLoop height h0 txs).1 with events := [] } (fun x hx => hx) (fun _ _ => rfl)
    obtain ⟨B1, _, _⟩ := bumpLoop_spec height feeOk (mature height (matchLoop height h0 txs).1)
      (timerLoop height (mature height (matchLoop height h0 txs).1) (matchLoop height h0 txs).2)
    intro i hi o ho hsp
    obtain ⟨c, hc, hguard, hspends, _⟩ := B1 i hi
    rw [hspends] at ho
    -- the candidate is a snapshot of a stored request
    obtain ⟨e, he, _, hout⟩ : ∃ e ∈ (matchLoop height h0 txs).1.pending, e.1 = c.1 ∧ e.2.outpoints = c.2.outpoints := by
      rcases timerLoop_mem _ _ _ c hc with h | h
      · exact L.snap c h
      · exact ⟨c, A c h, rfl, rfl⟩
    obtain ⟨⟨t, ht⟩, _⟩ := L.k e he o (hout ▸ ho) hsp
    have hev : Ev.claim e.1 t height ∈ (mature height (matchLoop height h0 txs).1).events := C _ ht (not_threshold_same height)
    -- … so generate_claim's confirmed-spend guard stops it
    unfold claimGuard at hguard
    simp only [Bool.and_eq_true, Bool.not_eq_true'] at hguard
    obtain ⟨o', ho', hno⟩ := List.all_eq_false.mp hguard.2
    have hp : Prot o' := ⟨e, he, hout ▸ ho', o, hout ▸ ho, hsp⟩
    obtain ⟨g, hg⟩ := L.reg e he o' (hout ▸ ho')
    have hlk : lookupClaim (mature height (matchLoop height h0 txs).1).claimable o' = some (e.1, g) := by
      unfold mature; rw [B o' hp]; exact hg
    rw [hlk] at hno
    apply hno
    unfold hasClaim
    exact List.any_eq_true.mpr ⟨_, hev, by simp⟩
  · cases hr

/-! ### the executable well-formedness check is sound -/

theorem okB_sound (p : Package α) (h : p.okB = true) : p.ok := by
  unfold Package.okB at h
  refine ⟨fun c hc e he => ?_, fun hu => ?_⟩
  · rw [hc] at h
    have := List.all_eq_true.mp h e he
    cases hf : e.2.flags with
    | malleable c' => exact ⟨c', rfl⟩
    | untractable => rw [hf] at this; cases this
  · rw [hu] at h
    simpa using h

theorem wfB_sound (h : Handler α) (hw : h.wfB = true) : h.WF := by
  unfold Handler.wfB at hw
  simp only [Bool.and_eq_true] at hw
  obtain ⟨hp, he⟩ := hw
  have hp' := List.all_eq_true.mp hp
  refine ⟨fun e hmem o ho => ?_, fun e hmem => ?_, fun e1 h1 e2 h2 heq => ?_, fun pkg t hg hmem e hmem' o ho hin => ?_⟩
  · have := hp' e hmem
    simp only [Bool.and_eq_true] at this
    have := List.all_eq_true.mp this.1.2 o ho
    cases hl : lookupClaim h.claimable o with
    | none => rw [hl] at this; cases this
    | some v =>
      obtain ⟨id, g⟩ := v
      rw [hl] at this
      simp only [decide_eq_true_eq] at this
      exact ⟨g, by rw [this]⟩
  · have := hp' e hmem
    simp only [Bool.and_eq_true] at this
    exact okB_sound _ this.1.1
  · have := hp' e2 h2
    simp only [Bool.and_eq_true] at this
    have := List.all_eq_true.mp this.2 e1 h1
    simp only [Bool.or_eq_true, Bool.not_eq_true', decide_eq_false_iff_not, decide_eq_true_eq] at this
    rcases this with h' | h'
    · exact absurd heq h'
    · exact h'
  · have := List.all_eq_true.mp he _ hmem
    simp only at this
    have := List.all_eq_true.mp (List.all_eq_true.mp this o ho) e hmem'
    simp only [Bool.not_eq_true'] at this
    rw [List.contains_iff_mem.mpr hin] at this
    cases this

/-! ### what a block does not spend stays claimed -/

theorem mature_keeps_fold (cur : Nat) (evs : List (Ev α)) (g : Handler α) (x : Nat × Package α) (hx : x ∈ g.pending) :
    x ∈ (evs.foldl (matureStep cur) g).pending ∨ ∃ t hg, Ev.claim x.1 t hg ∈ evs ∧ handlerThresholdReached hg cur = true := by
  induction evs generalizing g with
  | nil => exact Or.inl hx
  | cons ev rest ih =>
    simp only [List.foldl_cons]
    by_cases hstay : x ∈ (matureStep cur g ev).pending
    · rcases ih _ hstay with h | ⟨t, hg, h1, h2⟩
      · exact Or.inl h
      · exact Or.inr ⟨t, hg, List.mem_cons_of_mem _ h1, h2⟩
    · right
      unfold matureStep at hstay
      split at hstay
      · rename_i hthr
        cases ev with
        | claim id t hg =>
          simp only at hstay
          cases hr : lookupReq g.pending id with
          | none => rw [hr] at hstay; exact absurd hx hstay
          | some req =>
            rw [hr] at hstay
            simp only [List.mem_filter, not_and, Bool.not_eq_true', decide_eq_false_iff_not, Decidable.not_not] at hstay
            have := hstay hx
            exact ⟨t, hg, by rw [this]; exact List.mem_cons_self, hthr⟩
        | contentious pkg t hg =>
          simp only at hstay
          cases hh : pkg.outpoints.head? with
          | none => rw [hh] at hstay; exact absurd hx hstay
          | some o => rw [hh] at hstay; exact absurd hx hstay
      · exact absurd hx hstay

theorem bumpLoop_keeps (cur : Nat) (feeOk : Nat → Bool) (h : Handler α) (bc : Bump α) :
    ∀ e' ∈ h.pending, ∃ e ∈ (bumpLoop cur feeOk h bc).1.pending, e.1 = e'.1 ∧ e.2.outpoints = e'.2.outpoints := by
  unfold bumpLoop
  have gen : ∀ (l : List (Nat × Package α)) (acc : Handler α × List (Issue α)),
      ∀ e' ∈ acc.1.pending, ∃ e ∈ (l.foldl (fun acc c =>
        if claimGuard h c.2 && feeOk c.1 then
          ({ acc.1 with pending := acc.1.pending.map fun e => if e.1 = c.1 then (e.1, { e.2 with timer := c.2.heightTimer cur }) else e },
           acc.2 ++ [{ id := c.1, spends := c.2.outpoints, timer := c.2.heightTimer cur }])
        else acc) acc).1.pending, e.1 = e'.1 ∧ e.2.outpoints = e'.2.outpoints := by
    intro l
    induction l with
    | nil => intro acc e' he'; exact ⟨e', he', rfl, rfl⟩
    | cons c rest ih =>
      intro acc e' he'
      simp only [List.foldl_cons]
      by_cases hg : (claimGuard h c.2 && feeOk c.1) = true
      · simp only [hg, if_true]
        obtain ⟨e, he, h1, h2⟩ := ih ({ acc.1 with pending := acc.1.pending.map fun e => if e.1 = c.1 then (e.1, { e.2 with timer := c.2.heightTimer cur }) else e },
           acc.2 ++ [{ id := c.1, spends := c.2.outpoints, timer := c.2.heightTimer cur }])
           (if e'.1 = c.1 then (e'.1, { e'.2 with timer := c.2.heightTimer cur }) else e') (List.mem_map.mpr ⟨e', he', rfl⟩)
        refine ⟨e, he, ?_, ?_⟩
        · rw [h1]; split <;> rfl
        · rw [h2]; split <;> rfl
      · simp only [hg]
        exact ih acc e' he'
  exact gen bc (h, [])

/-- what the block does NOT spend stays claimed: an outpoint of a pending request that no transaction of the block spends is, after the
    block, still an outpoint of the pending request with the same claim id — unless that request's complete spend (an earlier `Claim`
    entry) has just reached ANTI_REORG_DELAY confirmations and the request is done. -/
theorem connectBlock_rest_still_covered (height : Nat) (feeOk : Nat → Bool) (h0 : Handler α) (txs : List (Tx α)) (wf : h0.WF)
    (r : BlockResult α) (hr : connectBlock height feeOk h0 txs = some r) :
    ∀ e0 ∈ h0.pending, ∀ o ∈ e0.2.outpoints, o ∉ blockSpent txs →
      (∃ e ∈ r.handler.pending, e.1 = e0.1 ∧ o ∈ e.2.outpoints) ∨
      (∃ t hg, Ev.claim e0.1 t hg ∈ h0.events ∧ handlerThresholdReached hg height = true) := by
  unfold connectBlock at hr
  split at hr
  · cases hr
    have L := matchLoop_inv h0 height txs wf
    intro e0 he0 o ho hns
    obtain ⟨e, he, h1, h2⟩ := L.keep e0 he0 o ho hns
    rcases mature_keeps_fold height (matchLoop height h0 txs).1.events { (matchLoop height h0 txs).1 with events := [] } e he with h | ⟨t, hg, hmem, hthr⟩
    · left
      obtain ⟨e', he', g1, g2⟩ := bumpLoop_keeps height feeOk (mature height (matchLoop height h0 txs).1)
        (timerLoop height (mature height (matchLoop height h0 txs).1) (matchLoop height h0 txs).2) e h
      exact ⟨e', he', g1.trans h1, g2 ▸ h2⟩
    · right
      refine ⟨t, hg, ?_, hthr⟩
      rcases L.evold _ hmem with h | h
      · rw [← h1]; exact h
      · have := threshold_lt _ _ hthr
        simp only [Ev.height] at h
        omega
  · cases hr

/-! ### the aggregation loop never drops an outpoint -/

theorem mergeInto_mem (cur : Nat) (r : Package α) (l l' : List (Package α)) (h : mergeInto cur r l = some l') (x : α) :
    x ∈ l'.flatMap Package.outpoints ↔ x ∈ l.flatMap Package.outpoints ∨ x ∈ r.outpoints := by
  induction l generalizing l' with
  | nil => cases h
  | cons q rest ih =>
    unfold mergeInto at h
    split at h
    · rename_i q' hq
      cases h
      have hm : q.merge r cur = some q' := by
        split at hq
        · exact hq
        · cases hq
      have := merge_outpoints q r q' cur hm
      simp only [List.flatMap_cons, List.mem_append, this]
      constructor
      · rintro ((h | h) | h)
        · exact Or.inl (Or.inl h)
        · exact Or.inr h
        · exact Or.inl (Or.inr h)
      · rintro ((h | h) | h)
        · exact Or.inl (Or.inl h)
        · exact Or.inr h
        · exact Or.inl (Or.inr h)
    · simp only [Option.map_eq_some_iff] at h
      obtain ⟨l2, hl2, rfl⟩ := h
      have := ih l2 hl2
      simp only [List.flatMap_cons, List.mem_append, this]
      constructor
      · rintro (h | h | h)
        · exact Or.inl (Or.inl h)
        · exact Or.inl (Or.inr h)
        · exact Or.inr h
      · rintro ((h | h) | h)
        · exact Or.inl h
        · exact Or.inr (Or.inl h)
        · exact Or.inr (Or.inr h)

theorem aggregateRev_mem (cur fuel : Nat) (l : List (Package α)) (x : α) :
    x ∈ (aggregateRev cur fuel l).flatMap Package.outpoints ↔ x ∈ l.flatMap Package.outpoints := by
  induction fuel generalizing l with
  | zero => simp [aggregateRev]
  | succ n ih =>
    cases l with
    | nil => simp [aggregateRev]
    | cons r frontRev =>
      simp only [aggregateRev]
      split
      · rename_i front' hm
        rw [ih]
        have := mergeInto_mem cur r frontRev.reverse front' hm x
        simp only [List.mem_flatMap, List.mem_reverse] at this ⊢
        simp only [List.mem_cons]
        rw [this]
        constructor
        · rintro (⟨a, ha, hx⟩ | h)
          · exact ⟨a, Or.inr ha, hx⟩
          · exact ⟨r, Or.inl rfl, h⟩
        · rintro ⟨a, rfl | ha, hx⟩
          · exact Or.inr hx
          · exact Or.inl ⟨a, ha, hx⟩
      · simp only [List.flatMap_cons, List.mem_append, ih]

/-- the aggregation loop of update_claims_view_from_requests claims exactly the outpoints of the requests it was given -/
theorem aggregate_never_drops (cur : Nat) (reqs : List (Package α)) (x : α) :
    x ∈ (aggregate cur reqs).flatMap Package.outpoints ↔ x ∈ reqs.flatMap Package.outpoints := by
  unfold aggregate
  have := aggregateRev_mem cur reqs.length reqs.reverse x
  simp only [List.mem_flatMap, List.mem_reverse] at this ⊢
  exact this

/-! ### the arithmetic half of "consensus-valid": output value and fee of a self-funded (justice) claim -/

omit [DecidableEq α] in
/-- what `compute_package_output` (translated) answers: the output is never below the dust limit; it is the inputs minus a fee that
    covers the recorded feerate over the PREDICTED weight — hence over every actual weight that is not larger (the code asserts
    `predicted_weight >= transaction.weight()`; the harness compares `package_weight` (translated) with every broadcast) —; on the first
    issue the fee is at most half of the inputs. -/
theorem package_output_sound (amt w dust prev : Nat) (s : FeerateStrategy) (est out rate : Nat)
    (h : computePackageOutput amt w dust prev s est = some (out, rate)) :
    dust ≤ out ∧ ∃ fee, out = Nat.max (amt - fee) dust ∧ (∀ actual, actual ≤ w → rate * actual / 1000 ≤ fee) ∧
      (prev = 0 → fee ≤ amt / 2) := by
  obtain ⟨fee, hout, hcase⟩ := computePackageOutput_some h
  refine ⟨by rw [hout]; exact Nat.le_max_right _ _, fee, hout, ?_, ?_⟩
  · intro actual hact
    have hle : rate * actual / 1000 ≤ rate * w / 1000 := Nat.div_le_div_right (Nat.mul_le_mul_left _ hact)
    refine Nat.le_trans hle ?_
    rcases hcase with ⟨_, hb⟩ | ⟨_, hc⟩
    · rcases feerateBump_shape hb with ⟨h1, h2⟩ | h1
      · rw [h1, h2]; exact Nat.le_refl _
      · rw [h1]
        calc fee * 1000 / w * w / 1000 ≤ fee * 1000 / 1000 := Nat.div_le_div_right (Nat.div_mul_le_self _ _)
          _ = fee := Nat.mul_div_cancel _ (by decide)
    · obtain ⟨_, h2, _⟩ := computeFee_some hc
      rw [h2]; exact Nat.le_refl _
  · intro hp
    rcases hcase with ⟨hne, _⟩ | ⟨_, hc⟩
    · exact absurd hp hne
    · obtain ⟨h1, h2, _⟩ := computeFee_some hc
      have hr : rate ≤ (amt / 2) * 1000 / w := by
        rw [h1]
        refine Nat.le_trans (Nat.min_le_right _ _) ?_
        unfold computeFeerateSatPer1000Weight
        exact Nat.min_le_left _ _
      rw [h2]
      calc rate * w / 1000 ≤ (amt / 2 * 1000 / w) * w / 1000 := Nat.div_le_div_right (Nat.mul_le_mul_right _ hr)
        _ ≤ amt / 2 * 1000 / 1000 := Nat.div_le_div_right (Nat.div_mul_le_self _ _)
        _ = amt / 2 := Nat.mul_div_cancel _ (by decide)

end Ldk.Packages
