/- C14 — attribution data (hold times) of failure packets: helper lemmas.
   The shift loops of AttributionData are sequences of `copy_within` operations whose (src, dst, len)
   indices do not depend on the data: `shiftLeftHm h = leftOps.foldl copyOp h`.  Each `copy_within` is a
   re-indexing (`getD_copyOp`), so a whole shift is `(shift h)[i] = h[src i]` for an index function
   `src` that is evaluated on NUMBERS only.  All facts about the triangular HMAC layout then become closed
   arithmetic statements over the (few hundred) positions the verification reads, checked by kernel
   evaluation (`decide +kernel`).  Core only (no Mathlib). -/
import LdkModel.Generated.OnionFail
import LdkModel.Proofs.Onion
namespace Ldk.Onion
open Ldk

/-! ### agreement of two byte strings on a set of positions -/

/-- `x` and `y` have the same length and the same bytes at the positions in `S` -/
def AgreeOn (S : List Nat) (x y : Bytes) : Prop := x.length = y.length ∧ ∀ i ∈ S, x.getD i 0 = y.getD i 0

theorem AgreeOn.refl (S : List Nat) (x : Bytes) : AgreeOn S x x := ⟨rfl, fun _ _ => rfl⟩
theorem AgreeOn.trans {S : List Nat} {x y z : Bytes} (h1 : AgreeOn S x y) (h2 : AgreeOn S y z) : AgreeOn S x z :=
  ⟨h1.1.trans h2.1, fun i hi => (h1.2 i hi).trans (h2.2 i hi)⟩

theorem getD_eq_of_lt {x y : Bytes} {i : Nat} (hx : i < x.length) (hy : i < y.length)
    (h : x.getD i 0 = y.getD i 0) : x[i] = y[i] := by
  simpa [List.getD_eq_getElem?_getD, List.getElem?_eq_getElem hx, List.getElem?_eq_getElem hy] using h

theorem take_eq_of_agree {n : Nat} {x y : Bytes} (h : AgreeOn (List.range n) x y) : x.take n = y.take n := by
  apply List.ext_getElem?
  intro i
  simp only [List.getElem?_take]
  split
  · rename_i hi
    have h2 := h.2 i (List.mem_range.mpr hi)
    by_cases hx : i < x.length
    · have hy : i < y.length := h.1 ▸ hx
      simp [List.getElem?_eq_getElem hx, List.getElem?_eq_getElem hy, getD_eq_of_lt hx hy h2]
    · have hy : ¬ i < y.length := h.1 ▸ hx
      simp [List.getElem?_eq_none (Nat.le_of_not_lt hx), List.getElem?_eq_none (Nat.le_of_not_lt hy)]
  · rfl

/-- slices inside the agreed positions are equal -/
theorem slice_eq_of_agree {S : List Nat} {x y : Bytes} (h : AgreeOn S x y) (off len : Nat)
    (hS : ∀ j, j < len → off + j ∈ S) : slice x off len = slice y off len := by
  unfold slice
  apply List.ext_getElem?
  intro j
  simp only [List.getElem?_take, List.getElem?_drop]
  split
  · rename_i hj
    have h2 := h.2 _ (hS j hj)
    by_cases hx : off + j < x.length
    · have hy : off + j < y.length := h.1 ▸ hx
      simp [List.getElem?_eq_getElem hx, List.getElem?_eq_getElem hy, getD_eq_of_lt hx hy h2]
    · have hy : ¬ off + j < y.length := h.1 ▸ hx
      simp [List.getElem?_eq_none (Nat.le_of_not_lt hx), List.getElem?_eq_none (Nat.le_of_not_lt hy)]
  · rfl

theorem getD_xorB (a b : Bytes) (i : Nat) :
    (xorB a b).getD i 0 = if i < a.length ∧ i < b.length then a.getD i 0 ^^^ b.getD i 0 else 0 := by
  unfold xorB
  by_cases h : i < a.length ∧ i < b.length
  · simp [List.getD_eq_getElem?_getD, List.getElem?_zipWith, h]
  · rw [if_neg h]
    have : (List.zipWith (· ^^^ ·) a b)[i]? = none := by
      apply List.getElem?_eq_none; simp; omega
    simp [List.getD_eq_getElem?_getD, this]

theorem AgreeOn.xorB {S : List Nat} {x y : Bytes} (h : AgreeOn S x y) (s : Bytes) :
    AgreeOn S (xorB x s) (xorB y s) := by
  refine ⟨by simp [h.1], fun i hi => ?_⟩
  rw [getD_xorB, getD_xorB, h.1, h.2 i hi]

/-! ### `copy_within` as a re-indexing -/

theorem getD_slice (b : Bytes) (s n j : Nat) : (slice b s n).getD j 0 = if j < n then b.getD (s + j) 0 else 0 := by
  unfold slice
  by_cases h : j < n
  · simp [List.getD_eq_getElem?_getD, h]
  · simp [List.getD_eq_getElem?_getD, List.getElem?_take, h]

theorem getD_setSlice (b v : Bytes) (off i : Nat) (ho : off + v.length ≤ b.length) :
    (setSlice b off v).getD i 0 = if off ≤ i ∧ i < off + v.length then v.getD (i - off) 0 else b.getD i 0 := by
  unfold setSlice
  have hl : (b.take off).length = off := by simp; omega
  by_cases h1 : i < off
  · rw [if_neg (by omega)]
    simp only [List.getD_eq_getElem?_getD, List.append_assoc]
    rw [List.getElem?_append_left (by omega), List.getElem?_take, if_pos h1]
  · by_cases h2 : i < off + v.length
    · rw [if_pos ⟨by omega, h2⟩]
      simp only [List.getD_eq_getElem?_getD, List.append_assoc]
      rw [List.getElem?_append_right (by omega), hl, List.getElem?_append_left (by omega)]
    · rw [if_neg (by omega)]
      simp only [List.getD_eq_getElem?_getD, List.append_assoc]
      rw [List.getElem?_append_right (by omega), hl, List.getElem?_append_right (by omega), List.getElem?_drop]
      congr 2; omega

@[simp] theorem setSlice_length (b v : Bytes) (off : Nat) (ho : off + v.length ≤ b.length) :
    (setSlice b off v).length = b.length := by
  simp [setSlice]; omega

theorem slice_length (b : Bytes) (s n : Nat) (h : s + n ≤ b.length) : (slice b s n).length = n := by
  simp [slice]; omega

/-- a `copy_within` of the shift loops: (src, dst, len) in HMAC units -/
abbrev CopyOp := Nat × Nat × Nat

def copyOp {α : Type} (h : List α) (o : CopyOp) : List α := copyWithinHm h o.1 o.2.1 o.2.2

/-- the operation stays inside a buffer of `N` bytes -/
def CopyOp.inBounds (N : Nat) (o : CopyOp) : Bool :=
  decide (o.1 * HMAC_LEN + o.2.2 * HMAC_LEN ≤ N) && decide (o.2.1 * HMAC_LEN + o.2.2 * HMAC_LEN ≤ N)

/-- where byte `j` of the result of one `copy_within` comes from -/
def CopyOp.src (o : CopyOp) (j : Nat) : Nat :=
  if o.2.1 * HMAC_LEN ≤ j ∧ j < o.2.1 * HMAC_LEN + o.2.2 * HMAC_LEN then o.1 * HMAC_LEN + (j - o.2.1 * HMAC_LEN) else j

theorem copyOp_length (h : Bytes) (o : CopyOp) (hb : o.inBounds h.length = true) : (copyOp h o).length = h.length := by
  simp only [CopyOp.inBounds, Bool.and_eq_true, decide_eq_true_eq] at hb
  unfold copyOp copyWithinHm
  rw [setSlice_length _ _ _ (by rw [slice_length _ _ _ hb.1]; exact hb.2)]

theorem getD_copyOp (h : Bytes) (o : CopyOp) (hb : o.inBounds h.length = true) (i : Nat) :
    (copyOp h o).getD i 0 = h.getD (o.src i) 0 := by
  simp only [CopyOp.inBounds, Bool.and_eq_true, decide_eq_true_eq] at hb
  unfold copyOp copyWithinHm CopyOp.src
  have hl := slice_length h (o.1 * HMAC_LEN) (o.2.2 * HMAC_LEN) hb.1
  rw [getD_setSlice _ _ _ _ (by rw [hl]; exact hb.2), hl]
  split
  · rename_i hc
    rw [getD_slice, if_pos (by omega)]
  · rfl

/-- where byte `i` of the result of a sequence of `copy_within`s (applied left to right) comes from -/
def srcOf : List CopyOp → Nat → Nat
  | [], i => i
  | o :: ops, i => o.src (srcOf ops i)

theorem foldl_copyOp (N : Nat) : ∀ (ops : List CopyOp) (h : Bytes), h.length = N →
    (ops.all (CopyOp.inBounds N) = true) →
    (ops.foldl copyOp h).length = N ∧ ∀ i, (ops.foldl copyOp h).getD i 0 = h.getD (srcOf ops i) 0
  | [], h, hl, _ => ⟨hl, fun _ => rfl⟩
  | o :: ops, h, hl, hb => by
    simp only [List.all_cons, Bool.and_eq_true] at hb
    have h1 := copyOp_length h o (hl ▸ hb.1)
    have ih := foldl_copyOp N ops (copyOp h o) (h1.trans hl) hb.2
    refine ⟨ih.1, fun i => ?_⟩
    simp only [List.foldl_cons, srcOf]
    rw [ih.2 i, getD_copyOp h o (hl ▸ hb.1)]

/-- the (src, dst, len) sequence of the shift_right loop (it does not depend on the data) -/
def rightOps : List Nat → Nat → Nat → Nat → List CopyOp
  | [], _, _, _ => []
  | _ :: l, s, d, n => (s, d, n) :: rightOps l (s - (n + 2)) (d - (n + 1)) (n + 1)

def leftOps : List Nat → Nat → Nat → Nat → List CopyOp
  | [], _, _, _ => []
  | _ :: l, s, d, n => (s, d, n) :: leftOps l (s + n) (d + n + 1) (n - 1)

theorem foldl_shiftRightStep {α : Type} : ∀ (l : List Nat) (h : List α) (s d n : Nat),
    (l.foldl shiftRightStep (h, s, d, n)).1 = (rightOps l s d n).foldl copyOp h
  | [], _, _, _, _ => rfl
  | x :: l, h, s, d, n => by
    simp only [List.foldl_cons, rightOps]
    exact foldl_shiftRightStep l _ _ _ _

theorem foldl_shiftLeftStep {α : Type} : ∀ (l : List Nat) (h : List α) (s d n : Nat),
    (l.foldl shiftLeftStep (h, s, d, n)).1 = (leftOps l s d n).foldl copyOp h
  | [], _, _, _, _ => rfl
  | x :: l, h, s, d, n => by
    simp only [List.foldl_cons, leftOps]
    exact foldl_shiftLeftStep l _ _ _ _

/-! ### the index functions of the attribution-data layout -/
def hmN : Nat := HMAC_LEN * HMAC_COUNT
def htN : Nat := MAX_HOPS * HOLD_TIME_LEN
def rowN : Nat := MAX_HOPS * HMAC_LEN
def srOps : List CopyOp := rightOps (List.range (MAX_HOPS - 1)) (HMAC_COUNT - 2) (HMAC_COUNT - 1) 1
def slOps : List CopyOp := leftOps (List.range (MAX_HOPS - 1)) MAX_HOPS 1 (MAX_HOPS - 1)
/-- byte `i` of `shift_right(hmacs)` is byte `srSrc i` of `hmacs`; likewise `slSrc` for shift_left -/
def srSrc (i : Nat) : Nat := srcOf srOps i
def slSrc (i : Nat) : Nat := srcOf slOps i
def htSrSrc (i : Nat) : Nat := if HOLD_TIME_LEN ≤ i ∧ i < htN then i - HOLD_TIME_LEN else i
def htSlSrc (i : Nat) : Nat := if i < htN - HOLD_TIME_LEN then i + HOLD_TIME_LEN else i

/-- the HMAC slots `write_downstream_hmacs` feeds (the index sequence of its loop) -/
def dsSlots : List Nat → Nat → List Nat
  | [], _ => []
  | j :: l, idx => idx :: dsSlots l (idx + (MAX_HOPS - j - 1))
def slotBytes (s : Nat) : List Nat := List.range' (s * HMAC_LEN) HMAC_LEN
/-- byte positions `write_downstream_hmacs(position)` reads -/
def dsI (p : Nat) : List Nat := (dsSlots (List.range p) (MAX_HOPS + MAX_HOPS - p - 1)).flatMap slotBytes
/-- byte positions of the HMAC this node wrote for `position` (`get_hmac(MAX_HOPS - position - 1)`) -/
def ownI (p : Nat) : List Nat := slotBytes (MAX_HOPS - p - 1)
/-- everything `verify(.., position)` reads of `hmacs` / of `hold_times` -/
def regionHm (p : Nat) : List Nat := ownI p ++ dsI p
def regionHt (p : Nat) : List Nat := List.range ((p + 1) * HOLD_TIME_LEN)

def chkBounds : Bool := srOps.all (CopyOp.inBounds hmN) && slOps.all (CopyOp.inBounds hmN)

/-- shift_left moves the region of position `p` onto the region of position `p-1` -/
def chkSL : Bool := (List.range MAX_HOPS).all fun p => p == 0 ||
  (((regionHm (p - 1)).all fun i => (regionHm p).contains (slSrc i)) &&
   ((regionHt (p - 1)).all fun i => (regionHt p).contains (htSlSrc i)))

/-- shift_left ∘ (overwrite own hold time and own HMAC row) ∘ shift_right is the identity on the region of every
    position ≤ MAX_HOPS-2 -/
def chkSLR : Bool := (List.range (MAX_HOPS - 1)).all fun p =>
  ((regionHm p).all fun i => decide (rowN ≤ slSrc i) && srSrc (slSrc i) == i) &&
  ((regionHt p).all fun i => decide (HOLD_TIME_LEN ≤ htSlSrc i) && htSrSrc (htSlSrc i) == i)

/-- write_downstream_hmacs never reads the node's own row -/
def chkDs : Bool := (List.range MAX_HOPS).all fun p => (dsI p).all fun i => decide (rowN ≤ i)

set_option maxRecDepth 1000000 in
theorem chkBounds_ok : chkBounds = true := by decide +kernel
set_option maxRecDepth 1000000 in
theorem chkSL_ok : chkSL = true := by decide +kernel
set_option maxRecDepth 1000000 in
theorem chkSLR_ok : chkSLR = true := by decide +kernel
set_option maxRecDepth 1000000 in
theorem chkDs_ok : chkDs = true := by decide +kernel

/-! ### the shifts as re-indexings -/

theorem shiftRightHm_spec (h : Bytes) (hl : h.length = hmN) :
    (shiftRightHm h).length = hmN ∧ ∀ i, (shiftRightHm h).getD i 0 = h.getD (srSrc i) 0 := by
  unfold shiftRightHm
  rw [foldl_shiftRightStep]
  have hb : srOps.all (CopyOp.inBounds hmN) = true := by
    have := chkBounds_ok; simp only [chkBounds, Bool.and_eq_true] at this; exact this.1
  exact foldl_copyOp hmN srOps h hl hb

theorem shiftLeftHm_spec (h : Bytes) (hl : h.length = hmN) :
    (shiftLeftHm h).length = hmN ∧ ∀ i, (shiftLeftHm h).getD i 0 = h.getD (slSrc i) 0 := by
  unfold shiftLeftHm
  rw [foldl_shiftLeftStep]
  have hb : slOps.all (CopyOp.inBounds hmN) = true := by
    have := chkBounds_ok; simp only [chkBounds, Bool.and_eq_true] at this; exact this.2
  exact foldl_copyOp hmN slOps h hl hb

theorem getD_take (b : Bytes) (n j : Nat) : (b.take n).getD j 0 = if j < n then b.getD j 0 else 0 := by
  by_cases h : j < n <;> simp [List.getD_eq_getElem?_getD, List.getElem?_take, h]

theorem getD_drop (b : Bytes) (n j : Nat) : (b.drop n).getD j 0 = b.getD (n + j) 0 := by
  simp [List.getD_eq_getElem?_getD, List.getElem?_drop]

theorem shiftRightHt_spec (h : Bytes) (hl : h.length = htN) :
    (shiftRightHt h).length = htN ∧ ∀ i, (shiftRightHt h).getD i 0 = h.getD (htSrSrc i) 0 := by
  have hN : htN = 80 := rfl
  have h4 : HOLD_TIME_LEN = 4 := rfl
  have h76 : (MAX_HOPS - 1) * HOLD_TIME_LEN = 76 := rfl
  have hv : (h.take ((MAX_HOPS - 1) * HOLD_TIME_LEN)).length = 76 := by simp [h76, hl, hN]
  unfold shiftRightHt
  refine ⟨by rw [setSlice_length _ _ _ (by rw [hv, hl, hN]; decide), hl], fun i => ?_⟩
  rw [getD_setSlice _ _ _ _ (by rw [hv, hl, hN]; decide), hv, getD_take]
  unfold htSrSrc
  by_cases hc : HOLD_TIME_LEN ≤ i ∧ i < HOLD_TIME_LEN + 76
  · rw [if_pos hc, if_pos (by omega), if_pos (by omega)]
  · rw [if_neg hc, if_neg (by omega)]

theorem shiftLeftHt_spec (h : Bytes) (hl : h.length = htN) :
    (shiftLeftHt h).length = htN ∧ ∀ i, (shiftLeftHt h).getD i 0 = h.getD (htSlSrc i) 0 := by
  have hN : htN = 80 := rfl
  have h4 : HOLD_TIME_LEN = 4 := rfl
  have hv : (h.drop HOLD_TIME_LEN).length = 76 := by simp [h4, hl, hN]
  unfold shiftLeftHt
  refine ⟨by rw [setSlice_length _ _ _ (by rw [hv, hl, hN]; decide), hl], fun i => ?_⟩
  rw [getD_setSlice _ _ _ _ (by rw [hv, hl, hN]; decide), hv, getD_drop]
  unfold htSlSrc
  by_cases hc : 0 ≤ i ∧ i < 0 + 76
  · rw [if_pos hc, if_pos (by omega)]; congr 1; omega
  · rw [if_neg hc, if_neg (by omega)]

/-! ### well-formed attribution data; what the verification of a position reads -/

structure Attr.WF (a : Attr) : Prop where
  ht : a.holdTimes.length = htN
  hm : a.hmacs.length = hmN

/-- `A` and `a` coincide on everything `verify(.., position = p)` reads -/
def AgreeR (p : Nat) (A a : Attr) : Prop :=
  AgreeOn (regionHt p) A.holdTimes a.holdTimes ∧ AgreeOn (regionHm p) A.hmacs a.hmacs

theorem AgreeR.refl (p : Nat) (a : Attr) : AgreeR p a a := ⟨AgreeOn.refl _ _, AgreeOn.refl _ _⟩
theorem AgreeR.trans {p : Nat} {a b c : Attr} (h1 : AgreeR p a b) (h2 : AgreeR p b c) : AgreeR p a c :=
  ⟨h1.1.trans h2.1, h1.2.trans h2.2⟩
theorem AgreeR.wf {p : Nat} {A a : Attr} (h : AgreeR p A a) (w : a.WF) : A.WF := ⟨h.1.1.trans w.ht, h.2.1.trans w.hm⟩

theorem Attr.new_wf : Attr.new.WF := ⟨by simp [Attr.new, htN], by simp [Attr.new, hmN]⟩
theorem Attr.shiftRight_wf {a : Attr} (w : a.WF) : a.shiftRight.WF :=
  ⟨(shiftRightHt_spec _ w.ht).1, (shiftRightHm_spec _ w.hm).1⟩
theorem Attr.shiftLeft_wf {a : Attr} (w : a.WF) : a.shiftLeft.WF :=
  ⟨(shiftLeftHt_spec _ w.ht).1, (shiftLeftHm_spec _ w.hm).1⟩
theorem Attr.crypt_wf (C : OnionCrypto) {a : Attr} (k : Bytes) (w : a.WF) : (a.crypt C k).WF :=
  ⟨by simp [Attr.crypt, w.ht], by simp [Attr.crypt, w.hm]⟩

theorem Attr.crypt_crypt (C : OnionCrypto) (a : Attr) (k : Bytes) : (a.crypt C k).crypt C k = a := by
  cases a with
  | mk ht hm =>
    simp only [Attr.crypt, xorB_length, ks_length, Nat.min_self]
    rw [xorB_cancel _ _ (by simp), xorB_cancel _ _ (by simp)]

theorem AgreeR.crypt (C : OnionCrypto) {p : Nat} {A a : Attr} (h : AgreeR p A a) (k : Bytes) :
    AgreeR p (A.crypt C k) (a.crypt C k) := by
  unfold Attr.crypt
  rw [h.1.1, h.2.1]
  exact ⟨h.1.xorB _, h.2.xorB _⟩

/-! ### what the closed checks say -/

theorem chkSL_spec {p : Nat} (hp : p < MAX_HOPS) (hp1 : 1 ≤ p) :
    (∀ i ∈ regionHm (p - 1), slSrc i ∈ regionHm p) ∧ (∀ i ∈ regionHt (p - 1), htSlSrc i ∈ regionHt p) := by
  have h := chkSL_ok
  unfold chkSL at h
  rw [List.all_eq_true] at h
  have h2 := h p (List.mem_range.mpr hp)
  have hp0 : (p == 0) = false := by simp; omega
  simp only [hp0, Bool.false_or, Bool.and_eq_true, List.all_eq_true, List.contains_iff_mem] at h2
  exact h2

theorem chkSLR_spec {p : Nat} (hp : p + 1 < MAX_HOPS) :
    (∀ i ∈ regionHm p, rowN ≤ slSrc i ∧ srSrc (slSrc i) = i) ∧
    (∀ i ∈ regionHt p, HOLD_TIME_LEN ≤ htSlSrc i ∧ htSrSrc (htSlSrc i) = i) := by
  have h := chkSLR_ok
  unfold chkSLR at h
  rw [List.all_eq_true] at h
  have h2 := h p (List.mem_range.mpr (by omega))
  simp only [Bool.and_eq_true, List.all_eq_true, decide_eq_true_eq, beq_iff_eq] at h2
  exact h2

theorem chkDs_spec {p : Nat} (hp : p < MAX_HOPS) : ∀ i ∈ dsI p, rowN ≤ i := by
  have h := chkDs_ok
  unfold chkDs at h
  rw [List.all_eq_true] at h
  have h2 := h p (List.mem_range.mpr hp)
  simpa only [List.all_eq_true, decide_eq_true_eq] using h2

/-! ### shift_left transports agreement; shift_left undoes shift_right + update on what is verified -/

theorem AgreeR.shiftLeft {p : Nat} {A a : Attr} (h : AgreeR p A a) (w : a.WF) (hp1 : 1 ≤ p) (hp : p < MAX_HOPS) :
    AgreeR (p - 1) A.shiftLeft a.shiftLeft := by
  have wA := h.wf w
  obtain ⟨c1, c2⟩ := chkSL_spec hp hp1
  have a1 := shiftLeftHt_spec _ wA.ht; have a2 := shiftLeftHt_spec _ w.ht
  have b1 := shiftLeftHm_spec _ wA.hm; have b2 := shiftLeftHm_spec _ w.hm
  refine ⟨⟨a1.1.trans a2.1.symm, fun i hi => ?_⟩, ⟨b1.1.trans b2.1.symm, fun i hi => ?_⟩⟩
  · show (shiftLeftHt A.holdTimes).getD i 0 = (shiftLeftHt a.holdTimes).getD i 0
    rw [a1.2, a2.2]; exact h.1.2 _ (c2 i hi)
  · show (shiftLeftHm A.hmacs).getD i 0 = (shiftLeftHm a.hmacs).getD i 0
    rw [b1.2, b2.2]; exact h.2.2 _ (c1 i hi)

/-- `X` is `shift_right(x)` with (at most) the node's own hold time and own HMAC row overwritten -/
structure UpdatedShift (X x : Attr) : Prop where
  wf : X.WF
  ht : ∀ j, HOLD_TIME_LEN ≤ j → X.holdTimes.getD j 0 = (shiftRightHt x.holdTimes).getD j 0
  hm : ∀ j, rowN ≤ j → X.hmacs.getD j 0 = (shiftRightHm x.hmacs).getD j 0

theorem UpdatedShift.shiftLeft_agree {X x : Attr} (u : UpdatedShift X x) (w : x.WF) {p : Nat} (hp : p + 1 < MAX_HOPS) :
    AgreeR p X.shiftLeft x := by
  obtain ⟨c1, c2⟩ := chkSLR_spec hp
  have a1 := shiftLeftHt_spec _ u.wf.ht; have a2 := shiftRightHt_spec _ w.ht
  have b1 := shiftLeftHm_spec _ u.wf.hm; have b2 := shiftRightHm_spec _ w.hm
  refine ⟨⟨a1.1.trans w.ht.symm, fun i hi => ?_⟩, ⟨b1.1.trans w.hm.symm, fun i hi => ?_⟩⟩
  · show (shiftLeftHt X.holdTimes).getD i 0 = _
    rw [a1.2, u.ht _ (c2 i hi).1, a2.2, (c2 i hi).2]
  · show (shiftLeftHm X.hmacs).getD i 0 = _
    rw [b1.2, u.hm _ (c1 i hi).1, b2.2, (c1 i hi).2]

/-! ### `verify` reads only its region -/

theorem mem_slotBytes (s j : Nat) (hj : j < HMAC_LEN) : s * HMAC_LEN + j ∈ slotBytes s := by
  unfold slotBytes
  rw [List.mem_range'_1]; omega

theorem foldl_downstream_congr {S : List Nat} {x y : Bytes} (h : AgreeOn S x y) :
    ∀ (l : List Nat) (acc : Bytes) (idx : Nat), (∀ s ∈ dsSlots l idx, ∀ i ∈ slotBytes s, i ∈ S) →
      l.foldl (downstreamStep x) (acc, idx) = l.foldl (downstreamStep y) (acc, idx)
  | [], _, _, _ => rfl
  | j :: l, acc, idx, hS => by
    simp only [List.foldl_cons, downstreamStep]
    rw [slice_eq_of_agree h (idx * HMAC_LEN) HMAC_LEN
      (fun k hk => hS idx (by simp [dsSlots]) _ (mem_slotBytes idx k hk))]
    exact foldl_downstream_congr h l _ _ (fun s hs => hS s (by simp [dsSlots, hs]))

theorem downstreamG_congr {S : List Nat} {x y : Bytes} (h : AgreeOn S x y) (p : Nat) (hS : ∀ i ∈ dsI p, i ∈ S) :
    downstreamG x p = downstreamG y p := by
  unfold downstreamG
  rw [foldl_downstream_congr h (List.range p) [] _ (fun s hs i hi => hS i (by
    unfold dsI; exact List.mem_flatMap.mpr ⟨s, hs, hi⟩))]

theorem hmacFor_congr (C : OnionCrypto) {A a : Attr} (um msg : Bytes) (p : Nat)
    (h1 : A.holdTimes.take ((p + 1) * HOLD_TIME_LEN) = a.holdTimes.take ((p + 1) * HOLD_TIME_LEN))
    (h2 : AgreeOn (dsI p) A.hmacs a.hmacs) : A.hmacFor C um msg p = a.hmacFor C um msg p := by
  unfold Attr.hmacFor Attr.downstreamHmacs
  rw [h1, downstreamG_congr h2 p (fun _ hi => hi)]

theorem Attr.verify_congr (C : OnionCrypto) {p : Nat} {A a : Attr} (h : AgreeR p A a) (um msg : Bytes) :
    A.verify C um msg p = a.verify C um msg p := by
  have h1 : A.holdTimes.take ((p + 1) * HOLD_TIME_LEN) = a.holdTimes.take ((p + 1) * HOLD_TIME_LEN) :=
    take_eq_of_agree h.1
  have h0 : A.holdTimes.take HOLD_TIME_LEN = a.holdTimes.take HOLD_TIME_LEN := by
    have := congrArg (List.take HOLD_TIME_LEN) h1
    rwa [List.take_take, List.take_take, Nat.min_eq_left (Nat.le_mul_of_pos_left HOLD_TIME_LEN (Nat.succ_pos p))] at this
  have h2 : AgreeOn (dsI p) A.hmacs a.hmacs := ⟨h.2.1, fun i hi => h.2.2 i (by simp [regionHm, hi])⟩
  have h3 : A.getHmac (MAX_HOPS - p - 1) = a.getHmac (MAX_HOPS - p - 1) := by
    unfold Attr.getHmac
    exact slice_eq_of_agree h.2 _ _ (fun j hj => by
      have := mem_slotBytes (MAX_HOPS - p - 1) j hj
      simp [regionHm, ownI, this])
  unfold Attr.verify
  rw [hmacFor_congr C um msg p h1 h2, h3, h0]

/-! ### add_hmacs / update: afterwards every position verifies -/

theorem hmacFor_length (C : OnionCrypto) (a : Attr) (um msg : Bytes) (p : Nat) :
    (a.hmacFor C um msg p).length = HMAC_LEN := by
  simp [Attr.hmacFor, HMAC_LEN]

/-- one iteration of the loop of add_hmacs -/
def addHmacsStep (C : OnionCrypto) (um msg : Bytes) (a : Attr) (hmacIdx : Nat) : Attr :=
  { a with hmacs := setSlice a.hmacs (hmacIdx * HMAC_LEN) (a.hmacFor C um msg (MAX_HOPS - hmacIdx - 1)) }

theorem addHmacs_eq (C : OnionCrypto) (a : Attr) (um msg : Bytes) :
    a.addHmacs C um msg = (List.range MAX_HOPS).foldl (addHmacsStep C um msg) a := rfl

theorem slice_setSlice_self (b v : Bytes) (off : Nat) (ho : off + v.length ≤ b.length) :
    slice (setSlice b off v) off v.length = v := by
  unfold slice setSlice
  have hl : (b.take off).length = off := by simp; omega
  rw [List.append_assoc, List.drop_left' hl, List.take_left' rfl]

theorem addHmacs_inv (C : OnionCrypto) (a : Attr) (um msg : Bytes) (hm : a.hmacs.length = hmN) :
    ∀ n, n ≤ MAX_HOPS →
      let r := (List.range n).foldl (addHmacsStep C um msg) a
      r.holdTimes = a.holdTimes ∧ r.hmacs.length = hmN ∧
      (∀ j, n * HMAC_LEN ≤ j → r.hmacs.getD j 0 = a.hmacs.getD j 0) ∧
      (∀ idx, idx < n → slice r.hmacs (idx * HMAC_LEN) HMAC_LEN = a.hmacFor C um msg (MAX_HOPS - idx - 1))
  | 0, _ => ⟨rfl, hm, fun _ _ => rfl, fun _ h => absurd h (Nat.not_lt_zero _)⟩
  | n + 1, hn => by
    obtain ⟨i1, i2, i3, i4⟩ := addHmacs_inv C a um msg hm n (by omega)
    simp only [List.range_succ, List.foldl_append, List.foldl_cons, List.foldl_nil]
    generalize (List.range n).foldl (addHmacsStep C um msg) a = r at i1 i2 i3 i4
    have hM : MAX_HOPS = 20 := rfl
    have hL : HMAC_LEN = 4 := rfl
    have hN : hmN = 840 := rfl
    have hR : rowN = 80 := rfl
    have e1 : n * HMAC_LEN = n * 4 := rfl
    have e2 : (n + 1) * HMAC_LEN = (n + 1) * 4 := rfl
    have hf : r.hmacFor C um msg (MAX_HOPS - n - 1) = a.hmacFor C um msg (MAX_HOPS - n - 1) :=
      hmacFor_congr C um msg _ (by rw [i1])
        ⟨i2.trans hm.symm, fun i hi => i3 i (by have := chkDs_spec (p := MAX_HOPS - n - 1) (by omega) i hi; omega)⟩
    have hv := hmacFor_length C r um msg (MAX_HOPS - n - 1)
    have hb : n * HMAC_LEN + (r.hmacFor C um msg (MAX_HOPS - n - 1)).length ≤ r.hmacs.length := by
      rw [hv, i2]; omega
    unfold addHmacsStep
    refine ⟨i1, by simp only []; rw [setSlice_length _ _ _ hb, i2], fun j hj => ?_, fun idx hidx => ?_⟩
    · simp only []
      rw [getD_setSlice _ _ _ _ hb, if_neg (by rw [hv]; omega)]
      exact i3 j (by omega)
    · simp only []
      by_cases hlt : idx < n
      · rw [← i4 idx hlt]
        apply slice_eq_of_agree (S := List.range (n * HMAC_LEN))
          ⟨setSlice_length _ _ _ hb, fun i hi => by
            rw [getD_setSlice _ _ _ _ hb, if_neg (by have := List.mem_range.mp hi; omega)]⟩
        intro j hj
        rw [List.mem_range]
        have e3 : idx * HMAC_LEN = idx * 4 := rfl
        omega
      · have : idx = n := by omega
        subst this
        rw [← hf]
        have := slice_setSlice_self r.hmacs (r.hmacFor C um msg (MAX_HOPS - idx - 1)) (idx * HMAC_LEN) hb
        rwa [hv] at this

theorem be32_length (n : Nat) : (be32 n).length = 4 := rfl

theorem be32_decode (h : Nat) (hh : h < 4294967296) :
    (be32 h).foldl (fun acc x => acc * 256 + x.toNat) 0 = h := by
  simp [be32, UInt8.toNat_ofNat']
  omega

theorem Attr.update_spec (C : OnionCrypto) (a : Attr) (w : a.WF) (um msg : Bytes) (h : Nat) :
    (a.update C um msg h).WF ∧
    (a.update C um msg h).holdTimes = setSlice a.holdTimes 0 (be32 h) ∧
    (∀ j, rowN ≤ j → (a.update C um msg h).hmacs.getD j 0 = a.hmacs.getD j 0) ∧
    (∀ p, p < MAX_HOPS → (a.update C um msg h).getHmac (MAX_HOPS - p - 1) = (a.update C um msg h).hmacFor C um msg p) := by
  have hM : MAX_HOPS = 20 := rfl
  have hL : HMAC_LEN = 4 := rfl
  have hR : rowN = 80 := rfl
  have hN : htN = 80 := rfl
  have e0 : MAX_HOPS * HMAC_LEN = 80 := rfl
  unfold Attr.update
  rw [addHmacs_eq]
  generalize ha1 : ({ a with holdTimes := setSlice a.holdTimes 0 (be32 h) } : Attr) = a1
  have a1h : a1.hmacs = a.hmacs := by rw [← ha1]
  have a1t : a1.holdTimes = setSlice a.holdTimes 0 (be32 h) := by rw [← ha1]
  obtain ⟨i1, i2, i3, i4⟩ := addHmacs_inv C a1 um msg (a1h ▸ w.hm) MAX_HOPS (Nat.le_refl _)
  generalize (List.range MAX_HOPS).foldl (addHmacsStep C um msg) a1 = r at i1 i2 i3 i4
  refine ⟨⟨by rw [i1, a1t, setSlice_length _ _ _ (by rw [be32_length, w.ht, hN]; decide), w.ht], i2⟩, i1.trans a1t,
    fun j hj => by rw [i3 j (by omega), a1h], fun p hp => ?_⟩
  unfold Attr.getHmac
  rw [i4 _ (by omega), show MAX_HOPS - (MAX_HOPS - p - 1) - 1 = p by omega]
  exact (hmacFor_congr C (A := r) (a := a1) um msg p (by rw [i1])
    ⟨i2.trans (a1h ▸ w.hm).symm, fun i hi => i3 i (by have := chkDs_spec hp i hi; omega)⟩).symm

theorem Attr.verify_update (C : OnionCrypto) (a : Attr) (w : a.WF) (um msg : Bytes) (h p : Nat)
    (hp : p < MAX_HOPS) (hh : h < 4294967296) : (a.update C um msg h).verify C um msg p = some h := by
  obtain ⟨_, u2, _, u4⟩ := Attr.update_spec C a w um msg h
  unfold Attr.verify
  rw [if_pos (u4 p hp).symm, u2]
  have : (setSlice a.holdTimes 0 (be32 h)).take HOLD_TIME_LEN = be32 h := by
    unfold setSlice
    simp only [List.take_zero, List.nil_append]
    exact List.take_left' rfl
  rw [this, be32_decode h hh]

theorem Attr.update_updatedShift (C : OnionCrypto) (x : Attr) (w : x.WF) (um msg : Bytes) (h : Nat) :
    UpdatedShift (x.shiftRight.update C um msg h) x := by
  have ws := Attr.shiftRight_wf w
  obtain ⟨u1, u2, u3, _⟩ := Attr.update_spec C x.shiftRight ws um msg h
  have hN : htN = 80 := rfl
  have h4 : HOLD_TIME_LEN = 4 := rfl
  refine ⟨u1, fun j hj => ?_, fun j hj => u3 j hj⟩
  rw [u2, getD_setSlice _ _ _ _ (by rw [be32_length, ws.ht, hN]; decide), if_neg (by rw [be32_length]; omega)]
  rfl

/-! ### the generated packet procedures (Generated/OnionFail.lean) in closed form -/

/-- wire length of an `update_fail_htlc` carrying `n` reason bytes, with / without attribution data -/
theorem updateFailHtlcWireLen_eq (p : FailPkt) :
    updateFailHtlcWireLen p = 2 + 42 + p.data.length + (if p.attr.isSome then 3 + 1 + 920 else 0) := by
  unfold updateFailHtlcWireLen
  cases h : p.attr <;>
    simp [Option.elim, updateFailHtlcEmptyLen, updateFailHtlcTypeLen, attributionDataLen, bigSizeLen,
      MAX_HOPS, HOLD_TIME_LEN, HMAC_LEN, HMAC_COUNT] <;> omega

/-- the attribution data a relaying hop holds after `process_failure_packet`, before the size guard -/
def relayAttr (C : OnionCrypto) (k : FailKeysX) (p : FailPkt) (hold : Nat) : Attr :=
  ((p.attr.map Attr.shiftRight).getD Attr.new).update C k.um p.data hold

/-- the size guard of process_failure_packet, as a predicate on the number of reason bytes -/
def attrFits (dataLen : Nat) : Prop := updateFailHtlcWireLen ⟨zeros dataLen, some Attr.new⟩ ≤ LN_MAX_MSG_LEN

instance (n : Nat) : Decidable (attrFits n) := by unfold attrFits; infer_instance

theorem attrFits_iff (n : Nat) : attrFits n ↔ n + 968 ≤ 65535 := by
  unfold attrFits
  rw [updateFailHtlcWireLen_eq]
  simp [LN_MAX_MSG_LEN]; omega

theorem processFailurePacket_eq (C : OnionCrypto) (k : FailKeysX) (p : FailPkt) (hold : Nat) :
    processFailurePacket C k p hold =
      ⟨p.data, if attrFits p.data.length then some (relayAttr C k p hold) else none⟩ := by
  unfold processFailurePacket updateAttributionData
  simp only [updateFailHtlcWireLen_eq, attrFits_iff, relayAttr, Option.isSome_some, if_true]
  by_cases h : p.data.length + 968 ≤ 65535
  · rw [if_neg (by simp [LN_MAX_MSG_LEN]; omega), if_pos h]
  · rw [if_pos (by simp [LN_MAX_MSG_LEN]; omega), if_neg h]

theorem cryptFailurePacket_eq (C : OnionCrypto) (k : FailKeysX) (p : FailPkt) :
    cryptFailurePacket C k p = ⟨wrapFailure C k.base p.data, p.attr.map (fun a => a.crypt C k.ammagext)⟩ := rfl

theorem relayFailurePacket_eq (C : OnionCrypto) (k : FailKeysX) (p : FailPkt) (hold : Nat) :
    relayFailurePacket C k none p (some hold) =
      ⟨wrapFailure C k.base p.data,
       if attrFits p.data.length then some ((relayAttr C k p hold).crypt C k.ammagext) else none⟩ := by
  unfold relayFailurePacket
  simp only [Option.getD_some, processFailurePacket_eq, cryptFailurePacket_eq]
  split <;> rfl

theorem resize_of_le (b : Bytes) (n : Nat) (h : b.length ≤ n) : resize b n = b ++ zeros (n - b.length) := by
  unfold resize
  exact List.take_of_length_le (by simp; omega)

/-- the generated build_unencrypted_failure_packet produces exactly the legacy layout
    `hmac ‖ u16 len ‖ u16 code ‖ data ‖ u16 padlen ‖ pad` -/
theorem buildUnencryptedFailurePacket_eq (C : OnionCrypto) (k : FailKeysX) (code : Nat) (data : Bytes) (hold minLen : Nat) :
    buildUnencryptedFailurePacket C k code data hold minLen =
      ⟨buildUnencryptedFailure C k.base minLen code data,
       some (Attr.new.update C k.um (buildUnencryptedFailure C k.base minLen code data) hold)⟩ := by
  have hw : setSlice (resize ([] ++ zeros 32 ++ be16 (2 + data.length) ++ be16 code ++ data ++ be16 (minLen - (2 + data.length)))
      (32 + 2 + (2 + data.length) + 2 + (minLen - (2 + data.length)))) 0
      ((norm32 (C.mac k.um ((resize ([] ++ zeros 32 ++ be16 (2 + data.length) ++ be16 code ++ data ++ be16 (minLen - (2 + data.length)))
      (32 + 2 + (2 + data.length) + 2 + (minLen - (2 + data.length)))).drop 32))).take 32) =
      buildUnencryptedFailure C k.base minLen code data := by
    rw [resize_of_le _ _ (by simp [be16_length]; omega)]
    have hlen : ([] ++ zeros 32 ++ be16 (2 + data.length) ++ be16 code ++ data ++ be16 (minLen - (2 + data.length))).length
        = 32 + 2 + 2 + data.length + 2 := by simp [be16_length]; omega
    rw [hlen]
    have hpad : 32 + 2 + (2 + data.length) + 2 + (minLen - (2 + data.length)) - (32 + 2 + 2 + data.length + 2)
        = minLen - (2 + data.length) := by omega
    rw [hpad]
    simp only [List.nil_append, List.append_assoc]
    rw [List.drop_left' (zeros_length 32)]
    unfold buildUnencryptedFailure setSlice
    simp only [List.take_zero, List.nil_append, FailKeysX.base, List.append_assoc]
    rw [List.take_of_length_le (by simp), norm32_length, Nat.zero_add, List.drop_left' (zeros_length 32)]
  unfold buildUnencryptedFailurePacket updateAttributionData
  simp only [hw, Option.getD_none]

theorem buildFailurePacket_eq (C : OnionCrypto) (k : FailKeysX) (code : Nat) (data : Bytes) (hold : Nat) :
    buildFailurePacket C k code data hold =
      ⟨buildFailure C k.base code data,
       some ((Attr.new.update C k.um (buildUnencryptedFailure C k.base DEFAULT_MIN_FAILURE_PACKET_LEN code data) hold).crypt C k.ammagext)⟩ := by
  unfold buildFailurePacket
  simp only [buildUnencryptedFailurePacket_eq, cryptFailurePacket_eq]
  rfl

/-! ### the failure travelling back through the relaying hops -/

/-- a relaying hop: its keys and the hold time it reports -/
abbrev RelayHop := FailKeysX × Nat

/-- the failure travelling back: each hop (nearest the sender first) runs the relaying arm of
    get_encrypted_failure_packet (`process_failure_packet` then `crypt_failure_packet`) on what it received -/
def relayChainX (C : OnionCrypto) (pre : List RelayHop) (P : FailPkt) : FailPkt :=
  pre.foldr (fun kh p => relayFailurePacket C kh.1 none p (some kh.2)) P

theorem relayChainX_cons (C : OnionCrypto) (kh : RelayHop) (pre : List RelayHop) (P : FailPkt) :
    relayChainX C (kh :: pre) P = relayFailurePacket C kh.1 none (relayChainX C pre P) (some kh.2) := rfl

theorem relayChainX_data (C : OnionCrypto) (pre : List RelayHop) (P : FailPkt) :
    (relayChainX C pre P).data = relayFailure C (pre.map (fun kh => kh.1.base)) P.data := by
  induction pre with
  | nil => rfl
  | cons kh t ih =>
    rw [relayChainX_cons, relayFailurePacket_eq]
    simp only [relayFailure, List.map_cons, List.foldr_cons] at ih ⊢
    rw [ih]

theorem relayChainX_length (C : OnionCrypto) (pre : List RelayHop) (P : FailPkt) :
    (relayChainX C pre P).data.length = P.data.length := by
  rw [relayChainX_data, relayFailure_length]

theorem Attr.update_wf (C : OnionCrypto) {a : Attr} (w : a.WF) (um msg : Bytes) (h : Nat) : (a.update C um msg h).WF :=
  (Attr.update_spec C a w um msg h).1

/-- as long as the message fits, every hop of the chain hands on (well-formed) attribution data -/
theorem relayChainX_attr (C : OnionCrypto) (P : FailPkt) (a0 : Attr) (h0 : P.attr = some a0) (w0 : a0.WF)
    (hfit : attrFits P.data.length) : ∀ pre : List RelayHop, ∃ a, (relayChainX C pre P).attr = some a ∧ a.WF
  | [] => ⟨a0, h0, w0⟩
  | kh :: pre => by
    obtain ⟨a, ha, wa⟩ := relayChainX_attr C P a0 h0 w0 hfit pre
    rw [relayChainX_cons, relayFailurePacket_eq, relayChainX_length, if_pos hfit]
    refine ⟨_, rfl, Attr.crypt_wf C _ ?_⟩
    unfold relayAttr
    rw [ha]
    exact Attr.update_wf C (Attr.shiftRight_wf wa) _ _ _

/-- **the sender's hop loop on an honestly relayed failure** (generalised over the hop index, the hold times
    collected so far and the sender's current view `A` of the attribution data, which only has to AGREE with the
    honest data on what the next verification reads) -/
theorem decodeGoX_chain (C : OnionCrypto) (fk : FailKeysX) (post : List FailKeysX) (code : Nat) (data : Bytes)
    (hf count : Nat) (hcount : count ≤ MAX_HOPS) (hhf : hf < 4294967296)
    (hfit : attrFits (buildFailurePacket C fk code data hf).data.length) :
    ∀ (pre : List RelayHop) (i : Nat) (holds0 : List Nat) (A aP : Attr),
      (∀ kh ∈ pre, kh.2 < 4294967296) →
      NoEarlyMatch C (pre.map (fun kh => kh.1.base)) (buildFailurePacket C fk code data hf).data →
      (relayChainX C pre (buildFailurePacket C fk code data hf)).attr = some aP →
      (i < count → AgreeR (count - i - 1) A aP) →
      decodeGoX C count i (pre.map (fun kh => kh.1) ++ fk :: post)
        (relayChainX C pre (buildFailurePacket C fk code data hf)).data (some A) false holds0 =
        (parseFailure (i + pre.length) (buildUnencryptedFailure C fk.base DEFAULT_MIN_FAILURE_PACKET_LEN code data),
         holds0 ++ (pre.map (fun kh => kh.2) ++ [hf]).take (count - i)) := by
  intro pre
  induction pre with
  | nil =>
    intro i holds0 A aP _ _ hattr hA
    have hM : MAX_HOPS = 20 := rfl
    simp only [relayChainX, List.foldr_nil, buildFailurePacket_eq, Option.some.injEq] at hattr ⊢
    simp only [List.map_nil, List.nil_append, List.length_nil, Nat.add_zero, decodeGoX, Option.map_some]
    have hU : wrapFailure C fk.base (buildFailure C fk.base code data) =
        buildUnencryptedFailure C fk.base DEFAULT_MIN_FAILURE_PACKET_LEN code data := by
      unfold buildFailure; exact wrapFailure_involutive _ _ _
    rw [hU, failMacOk_unencrypted]
    by_cases hi : i < count
    · have hag := (hA hi).crypt C fk.ammagext
      rw [← hattr, Attr.crypt_crypt] at hag
      have hv := Attr.verify_congr C hag fk.um (buildUnencryptedFailure C fk.base DEFAULT_MIN_FAILURE_PACKET_LEN code data)
      rw [Attr.verify_update C _ Attr.new_wf _ _ _ _ (by omega) hhf] at hv
      simp only [Bool.false_eq_true, if_false, hi, if_true, hv]
      rw [show count - i = (count - i - 1) + 1 by omega]
      simp
    · simp only [Bool.false_eq_true, if_false, hi, if_true]
      rw [show count - i = 0 by omega]
      simp
  | cons kh pre ihp =>
    intro i holds0 A aP hh hno hattr hA
    have hM : MAX_HOPS = 20 := rfl
    obtain ⟨hno1, hno2⟩ := hno
    obtain ⟨a', ha', wa'⟩ := relayChainX_attr C (buildFailurePacket C fk code data hf) _
      (by rw [buildFailurePacket_eq]) (Attr.crypt_wf C _ (Attr.update_wf C Attr.new_wf _ _ _)) hfit pre
    have ih := ihp (i + 1)
    rw [relayChainX_cons, relayFailurePacket_eq, relayChainX_length, if_pos hfit] at hattr ⊢
    simp only [Option.some.injEq] at hattr
    generalize hP' : relayChainX C pre (buildFailurePacket C fk code data hf) = P' at *
    have hdata : P'.data = relayFailure C (pre.map (fun kh => kh.1.base)) (buildFailurePacket C fk code data hf).data := by
      rw [← hP', relayChainX_data]
    have hmac : failMacOk C kh.1.base P'.data = false := by rw [hdata]; exact hno1
    have hX : relayAttr C kh.1 P' kh.2 = a'.shiftRight.update C kh.1.um P'.data kh.2 := by
      unfold relayAttr; rw [ha']; rfl
    have wX : (relayAttr C kh.1 P' kh.2).WF := by rw [hX]; exact Attr.update_wf C (Attr.shiftRight_wf wa') _ _ _
    simp only [List.map_cons, List.cons_append, decodeGoX, Option.map_some, wrapFailure_involutive, hmac,
      Bool.false_eq_true, if_false, List.length_cons]
    by_cases hi : i < count
    · have hag := (hA hi).crypt C kh.1.ammagext
      rw [← hattr, Attr.crypt_crypt] at hag
      have hv := Attr.verify_congr C hag kh.1.um P'.data
      rw [hX, Attr.verify_update C _ (Attr.shiftRight_wf wa') _ _ _ _ (by omega) (hh kh (by simp))] at hv
      simp only [hi, if_true, hv]
      rw [ih (holds0 ++ [kh.2]) _ a' (fun x hx => hh x (by simp [hx])) hno2 ha' (fun hi1 => by
        have h1 := hag.shiftLeft wX (by omega) (by omega)
        have h2 := (hX ▸ Attr.update_updatedShift C a' wa' kh.1.um P'.data kh.2).shiftLeft_agree wa'
          (p := count - i - 1 - 1) (by omega)
        rw [show count - (i + 1) - 1 = count - i - 1 - 1 by omega]
        exact h1.trans h2)]
      rw [show count - i = (count - (i + 1)) + 1 by omega]
      simp only [List.take_succ_cons, List.append_assoc, List.cons_append, List.nil_append]
      rw [show i + 1 + pre.length = i + (pre.length + 1) by omega]
    · simp only [hi, if_false]
      rw [ih holds0 _ a' (fun x hx => hh x (by simp [hx])) hno2 ha' (fun hi1 => by omega)]
      rw [show count - i = 0 by omega, show count - (i + 1) = 0 by omega]
      simp only [List.take_zero]
      rw [show i + 1 + pre.length = i + (pre.length + 1) by omega]

/-- without attribution data the sender's hop loop is the legacy one and reports no hold times -/
theorem decodeGoX_none (C : OnionCrypto) (count : Nat) :
    ∀ (keys : List FailKeysX) (i : Nat) (pkt : Bytes) (failed : Bool) (holds : List Nat),
      decodeGoX C count i keys pkt none failed holds = (decodeGo C i (keys.map FailKeysX.base) pkt, holds)
  | [], _, _, _, _ => rfl
  | k :: rest, i, pkt, failed, holds => by
    simp only [decodeGoX, decodeGo, List.map_cons, Option.map_none]
    cases failed <;> simp only [Bool.false_eq_true, if_false, if_true] <;>
      (split
       · rfl
       · exact decodeGoX_none C count rest (i + 1) _ _ holds)

theorem decodeFailureX_none (C : OnionCrypto) (keys : List FailKeysX) (pkt : Bytes) :
    decodeFailureX C keys pkt none = (decodeFailure C (keys.map FailKeysX.base) pkt, []) := by
  unfold decodeFailureX decodeFailure
  split
  · rfl
  · exact decodeGoX_none C _ keys 0 pkt false []

theorem take_min_of_length_le {α : Type} (l : List α) (n m : Nat) (h : l.length ≤ n) : l.take (min n m) = l.take m := by
  by_cases hnm : n ≤ m
  · rw [Nat.min_eq_left hnm, List.take_of_length_le h, List.take_of_length_le (by omega)]
  · rw [Nat.min_eq_right (by omega)]

theorem buildFailure_length (C : OnionCrypto) (k : FailKeys) (code : Nat) (data : Bytes) :
    (buildFailure C k code data).length = 32 + 2 + 2 + data.length + 2 + (DEFAULT_MIN_FAILURE_PACKET_LEN - (2 + data.length)) := by
  simp [buildFailure, buildUnencryptedFailure, be16_length]; omega

end Ldk.Onion
