/- Helper lemmas for C20 (Props/C20.lean): block-tree ancestry, the walk of
   find_difference_from_header, connect/disconnect folding, cache consistency. -/
import LdkModel.Model.ChainSync
namespace Ldk.ChainSync
open Ldk

/-- unfold the decision expressions translated from the Rust text (Generated/ChainSync.lean) into plain
    propositions -/
macro "gen_norm" "at" h:ident : tactic =>
  `(tactic| simp only [tipIsCommon, tipIsBetter, fdFound, fdWalkPrevious, fdWalkCurrent, syncDisconnects, partialAdvance,
      isGenesisHeader, initDelivers, locatorHeightDiff, locatorHeight, chkSub,
      decide_eq_true_eq, ge_iff_le, gt_iff_lt, ne_eq, decide_not, Bool.not_eq_true'] at $h:ident)
macro "gen_norm" : tactic =>
  `(tactic| simp only [tipIsCommon, tipIsBetter, fdFound, fdWalkPrevious, fdWalkCurrent, syncDisconnects, partialAdvance,
      isGenesisHeader, initDelivers, locatorHeightDiff, locatorHeight, chkSub,
      decide_eq_true_eq, ge_iff_le, gt_iff_lt, ne_eq, decide_not, Bool.not_eq_true'])

/-! ### tree look-up and well-formedness -/

theorem hdrOf_some {t : Tree} {h : Nat} {b : Hdr} (e : hdrOf t h = some b) : b ∈ t ∧ b.hash = h := by
  unfold hdrOf at e
  have h1 := List.mem_of_find?_eq_some e
  have h2 := List.find?_some e
  exact ⟨h1, by simpa using h2⟩

theorem wfBlock_of_mem {t : Tree} (hw : wfTree t = true) {b : Hdr} (hb : b ∈ t) : wfBlock t b = true := by
  unfold wfTree at hw
  exact (List.all_eq_true.mp hw) b hb

theorem inTree_of_mem {t : Tree} (hw : wfTree t = true) {b : Hdr} (hb : b ∈ t) : InTree t b := by
  have := wfBlock_of_mem hw hb
  unfold wfBlock at this
  simp only [Bool.and_eq_true, beq_iff_eq] at this
  exact this.1

theorem inTree_of_hdrOf {t : Tree} (hw : wfTree t = true) {h : Nat} {b : Hdr} (e : hdrOf t h = some b) :
    InTree t b := inTree_of_mem hw (hdrOf_some e).1

theorem mem_of_inTree {t : Tree} {b : Hdr} (hb : InTree t b) : b ∈ t := (hdrOf_some hb).1

theorem inTree_hash_inj {t : Tree} {a b : Hdr} (ha : InTree t a) (hb : InTree t b) (e : a.hash = b.hash) : a = b := by
  unfold InTree at ha hb
  rw [e] at ha
  rw [ha] at hb
  exact Option.some.inj hb

theorem parent_of {t : Tree} (hw : wfTree t = true) {b : Hdr} (hb : InTree t b) (hh : b.height ≠ 0) :
    ∃ p, hdrOf t b.parent = some p ∧ p.height + 1 = b.height ∧ p.work < b.work ∧ InTree t p := by
  have := wfBlock_of_mem hw (mem_of_inTree hb)
  unfold wfBlock at this
  simp only [Bool.and_eq_true, hh, if_false] at this
  obtain ⟨_, h2⟩ := this
  cases e : hdrOf t b.parent with
  | none => simp [e] at h2
  | some p =>
    simp only [e, Bool.and_eq_true, beq_iff_eq, decide_eq_true_eq] at h2
    exact ⟨p, rfl, h2.1.1, by omega, inTree_of_hdrOf hw e⟩

/-- the chainwork of a non-genesis block is its parent's plus its own (positive) work -/
theorem parent_work {t : Tree} (hw : wfTree t = true) {b p : Hdr} (hb : InTree t b) (hh : b.height ≠ 0)
    (e : hdrOf t b.parent = some p) : b.work = p.work + b.bwork ∧ 0 < b.bwork := by
  have := wfBlock_of_mem hw (mem_of_inTree hb)
  unfold wfBlock at this
  simp only [Bool.and_eq_true, hh, if_false] at this
  obtain ⟨_, h2⟩ := this
  simp only [e, Bool.and_eq_true, beq_iff_eq, decide_eq_true_eq] at h2
  exact ⟨h2.1.2, h2.2⟩

theorem genesis_no_parent {t : Tree} (hw : wfTree t = true) {b : Hdr} (hb : InTree t b) (h0 : b.height = 0) :
    hdrOf t b.parent = none := by
  have := wfBlock_of_mem hw (mem_of_inTree hb)
  unfold wfBlock at this
  simp only [Bool.and_eq_true, h0, if_true] at this
  simpa using this.2

/-! ### ancestry -/

theorem ancF_head (t : Tree) (n : Nat) (b : Hdr) : ∃ r, ancF t n b = b :: r := by
  cases n with
  | zero => exact ⟨[], rfl⟩
  | succ n =>
    unfold ancF
    cases hdrOf t b.parent with
    | none => exact ⟨[], rfl⟩
    | some p => exact ⟨_, rfl⟩

theorem anc_head (t : Tree) (b : Hdr) : ∃ r, anc t b = b :: r := ancF_head t _ b

theorem mem_anc_self (t : Tree) (b : Hdr) : b ∈ anc t b := by
  obtain ⟨r, h⟩ := anc_head t b; rw [h]; exact List.mem_cons_self

theorem anc_zero {t : Tree} {b : Hdr} (h0 : b.height = 0) : anc t b = [b] := by
  unfold anc; rw [h0]; rfl

theorem anc_succ {t : Tree} (hw : wfTree t = true) {b : Hdr} (hb : InTree t b) (hh : b.height ≠ 0) :
    ∃ p, hdrOf t b.parent = some p ∧ p.height + 1 = b.height ∧ p.work < b.work ∧ InTree t p ∧
      anc t b = b :: anc t p := by
  obtain ⟨p, e, hh1, hwk, hp⟩ := parent_of hw hb hh
  refine ⟨p, e, hh1, hwk, hp, ?_⟩
  unfold anc
  rw [← hh1]
  show ancF t (p.height + 1) b = b :: ancF t p.height p
  simp only [ancF, e]

/-- heads of equal ancestor lists are equal -/
theorem anc_inj {t : Tree} {a b : Hdr} (e : anc t a = anc t b) : a = b := by
  obtain ⟨r1, h1⟩ := anc_head t a
  obtain ⟨r2, h2⟩ := anc_head t b
  rw [h1, h2] at e
  exact (List.cons.inj e).1

theorem anc_props {t : Tree} (hw : wfTree t = true) : ∀ (n : Nat) (b : Hdr), b.height = n → InTree t b →
    ∀ x ∈ anc t b, InTree t x ∧ x.height ≤ b.height ∧ (x.height = b.height → x = b) := by
  intro n
  induction n with
  | zero =>
    intro b h0 hb x hx
    rw [anc_zero h0] at hx
    have : x = b := by simpa using hx
    subst this
    exact ⟨hb, Nat.le_refl _, fun _ => rfl⟩
  | succ n ih =>
    intro b hn hb x hx
    obtain ⟨p, _, hh1, _, hp, ha⟩ := anc_succ hw hb (by omega)
    rw [ha] at hx
    rcases List.mem_cons.mp hx with rfl | hx
    · exact ⟨hb, Nat.le_refl _, fun _ => rfl⟩
    · have := ih p (by omega) hp x hx
      exact ⟨this.1, by omega, fun e => by omega⟩

theorem anc_inTree {t : Tree} (hw : wfTree t = true) {b x : Hdr} (hb : InTree t b) (hx : x ∈ anc t b) : InTree t x :=
  (anc_props hw _ b rfl hb x hx).1

theorem anc_height_le {t : Tree} (hw : wfTree t = true) {b x : Hdr} (hb : InTree t b) (hx : x ∈ anc t b) :
    x.height ≤ b.height := (anc_props hw _ b rfl hb x hx).2.1

theorem anc_height_eq {t : Tree} (hw : wfTree t = true) {b x : Hdr} (hb : InTree t b) (hx : x ∈ anc t b)
    (e : x.height = b.height) : x = b := (anc_props hw _ b rfl hb x hx).2.2 e

/-- a suffix of an ancestor list is the ancestor list of its head -/
theorem anc_suffix {t : Tree} (hw : wfTree t = true) : ∀ (l : List Hdr) (b : Hdr), InTree t b →
    ∀ (x : Hdr) (r : List Hdr), anc t b = l ++ x :: r → anc t x = x :: r := by
  intro l
  induction l with
  | nil =>
    intro b _ x r e
    obtain ⟨r', h⟩ := anc_head t b
    rw [h] at e
    simp only [List.nil_append] at e
    have : b = x := (List.cons.inj e).1
    subst this
    rw [h, (List.cons.inj e).2]
  | cons y l ih =>
    intro b hb x r e
    by_cases h0 : b.height = 0
    · rw [anc_zero h0] at e
      simp at e
    · obtain ⟨p, _, _, _, hp, ha⟩ := anc_succ hw hb h0
      rw [ha] at e
      simp only [List.cons_append] at e
      exact ih p hp x r (List.cons.inj e).2

theorem anc_of_mem {t : Tree} (hw : wfTree t = true) {b x : Hdr} (hb : InTree t b) (hx : x ∈ anc t b) :
    ∃ l, anc t b = l ++ anc t x := by
  obtain ⟨l, r, e⟩ := List.append_of_mem hx
  exact ⟨l, by rw [anc_suffix hw l b hb x r e]; exact e⟩

theorem anc_trans {t : Tree} (hw : wfTree t = true) {b x y : Hdr} (hb : InTree t b) (hx : x ∈ anc t b)
    (hy : y ∈ anc t x) : y ∈ anc t b := by
  obtain ⟨l, e⟩ := anc_of_mem hw hb hx
  rw [e]; exact List.mem_append_right _ hy

/-- heights strictly decrease along an ancestor list -/
theorem anc_sorted {t : Tree} (hw : wfTree t = true) : ∀ (n : Nat) (b : Hdr), b.height = n → InTree t b →
    (anc t b).Pairwise (fun x y => y.height < x.height) := by
  intro n
  induction n with
  | zero => intro b h0 _; rw [anc_zero h0]; simp
  | succ n ih =>
    intro b hn hb
    obtain ⟨p, _, hh1, _, hp, ha⟩ := anc_succ hw hb (by omega)
    rw [ha]
    refine List.pairwise_cons.mpr ⟨fun y hy => ?_, ih p (by omega) hp⟩
    have := anc_height_le hw hp hy
    omega

/-- in `anc t b = l ++ anc t x`, everything in `l` is strictly higher than `x` -/
theorem above_of_split {t : Tree} (hw : wfTree t = true) {b x : Hdr} (hb : InTree t b) {l : List Hdr}
    (e : anc t b = l ++ anc t x) : ∀ y ∈ l, x.height < y.height := by
  intro y hy
  have hs := anc_sorted hw _ b rfl hb
  rw [e] at hs
  exact (List.pairwise_append.mp hs).2.2 y hy x (mem_anc_self t x)

/-- a block whose ancestor list extends another's by exactly itself is that block's child -/
theorem link_of_anc_cons {t : Tree} (hw : wfTree t = true) {b p : Hdr} (hb : InTree t b)
    (e : anc t b = b :: anc t p) : b.parent = p.hash ∧ b.height = p.height + 1 ∧ p.work < b.work := by
  by_cases h0 : b.height = 0
  · rw [anc_zero h0] at e
    obtain ⟨r, h⟩ := anc_head t p
    rw [h] at e; simp at e
  · obtain ⟨q, hq, hh1, hwk, _, ha⟩ := anc_succ hw hb h0
    rw [ha] at e
    have : q = p := anc_inj (List.cons.inj e).2
    subst this
    exact ⟨(hdrOf_some hq).2.symm, hh1.symm, hwk⟩

/-! ### source, cache, previous-header look-up -/

theorem getHeader_ok {s : Source} {req h : Nat} {b : Hdr} (e : s.getHeader req h = .ok b) :
    hdrOf s.tree h = some b := by
  unfold Source.getHeader at e
  split at e
  · cases e
  · split at e
    · cases e
    · split at e
      · rename_i b' hb'; cases e; exact hb'
      · cases e

theorem cacheLookUp_some {c : Cache} {h : Nat} {b : Hdr} (e : cacheLookUp c h = some b) : b ∈ c ∧ b.hash = h := by
  unfold cacheLookUp at e
  exact ⟨List.mem_of_find?_eq_some e, by simpa using List.find?_some e⟩

theorem cacheOk_nil (t : Tree) : CacheOk t [] := by intro x hx; cases hx

theorem cacheOk_filter {t : Tree} {c : Cache} (h : CacheOk t c) (p : Hdr → Bool) : CacheOk t (c.filter p) :=
  fun x hx => h x ((List.mem_filter.mp hx).1)

theorem cacheOk_insert {t : Tree} {c : Cache} (h : CacheOk t c) {b : Hdr} (hb : InTree t b) :
    CacheOk t (cacheInsert c b) := by
  intro x hx
  unfold cacheInsert at hx
  rcases List.mem_cons.mp hx with rfl | hx
  · exact hb
  · exact h x ((List.mem_filter.mp hx).1)

theorem cacheOk_blockConnected {t : Tree} {c : Cache} (h : CacheOk t c) {b : Hdr} (hb : InTree t b) :
    CacheOk t (cacheBlockConnected c b) := by
  unfold cacheBlockConnected; exact cacheOk_filter (cacheOk_insert h hb) _

theorem cacheOk_insertDuringDiff {t : Tree} {c : Cache} (h : CacheOk t c) {b : Hdr} (hb : InTree t b) :
    CacheOk t (cacheInsertDuringDiff c b) := by
  unfold cacheInsertDuringDiff; exact cacheOk_filter (cacheOk_insert h hb) _

theorem cacheOk_blocksDisconnected {t : Tree} {c : Cache} (h : CacheOk t c) (r : Bool) (f : Hdr) :
    CacheOk t (cacheBlocksDisconnected c r f) := by
  unfold cacheBlocksDisconnected
  split
  · exact h
  · exact cacheOk_filter h _

/-- whatever `look_up_previous_header` returns (from the cache or the source) is the tree parent -/
theorem lookUpPrev_spec {s : Source} (hw : wfTree s.tree = true) {c : Cache} (hc : CacheOk s.tree c)
    {req : Nat} {h p : Hdr} {r : Nat} (hh : InTree s.tree h) (e : lookUpPrev s c req h = .ok (p, r)) :
    InTree s.tree p ∧ anc s.tree h = h :: anc s.tree p ∧ p.height + 1 = h.height := by
  have key : hdrOf s.tree h.parent = some p := by
    unfold lookUpPrev at e
    split at e
    · rename_i p' hp'
      cases e
      obtain ⟨hm, hhash⟩ := cacheLookUp_some hp'
      have := hc p hm
      unfold InTree at this
      rw [hhash] at this
      exact this
    · unfold pollerPrev at e
      split at e
      · cases e
      · split at e
        · cases e
        · rename_i p' hp'
          split at e
          · cases e; exact getHeader_ok hp'
          · cases e
  have h0 : h.height ≠ 0 := by
    intro h0
    rw [genesis_no_parent hw hh h0] at key
    cases key
  obtain ⟨q, hq, hh1, _, hqt, ha⟩ := anc_succ hw hh h0
  rw [key] at hq
  cases hq
  exact ⟨hqt, ha, hh1⟩

/-! ### find_difference: lowest common ancestor -/

/-- `d` is the difference from the chain of `prev` to the chain of `cur`: `d.common` is their lowest
    common ancestor and `d.connected` the blocks of `cur`'s chain above it (new tip first) -/
structure IsLca (t : Tree) (cur prev : Hdr) (d : Diff) : Prop where
  path : anc t cur = d.connected ++ anc t d.common
  onPrev : d.common ∈ anc t prev
  lowest : ∀ x, x ∈ anc t cur → x ∈ anc t prev → x ∈ anc t d.common

theorem IsLca.onCur {t : Tree} {cur prev : Hdr} {d : Diff} (h : IsLca t cur prev d) : d.common ∈ anc t cur := by
  rw [h.path]; exact List.mem_append_right _ (mem_anc_self t _)

theorem findDiffF_spec {s : Source} (hw : wfTree s.tree = true) {c : Cache} (hc : CacheOk s.tree c) :
    ∀ (n : Nat) (cur prev : Hdr) (req : Nat) (d : Diff) (r : Nat), InTree s.tree cur → InTree s.tree prev →
      findDiffF s c n cur prev req = .ok (d, r) → IsLca s.tree cur prev d := by
  intro n
  induction n with
  | zero => intro cur prev req d r _ _ e; simp [findDiffF] at e
  | succ n ih =>
    intro cur prev req d r hcur hprev e
    unfold findDiffF at e
    gen_norm at e
    split at e
    · -- same hash: same block
      rename_i heq
      have : cur = prev := inTree_hash_inj hcur hprev (by simpa using heq)
      subst this
      cases e
      exact ⟨by simp, mem_anc_self _ _, fun x hx _ => hx⟩
    · rename_i hne
      have hne' : cur ≠ prev := by intro h; subst h; simp at hne
      split at e
      · cases e
      · rename_i prev' req1 hstep
        -- what the (conditional) step on `prev` gives
        have hp : (cur.height ≤ prev.height → InTree s.tree prev' ∧ anc s.tree prev = prev :: anc s.tree prev' ∧ prev'.height + 1 = prev.height)
            ∧ (¬ cur.height ≤ prev.height → prev' = prev) := by
          constructor
          · intro hle; rw [if_pos hle] at hstep; exact lookUpPrev_spec hw hc hprev hstep
          · intro hle; rw [if_neg hle] at hstep; cases hstep; rfl
        split at e
        · rename_i hge
          split at e
          · cases e
          · rename_i cur' req2 hstep2
            obtain ⟨hcur', hacur, hhc⟩ := lookUpPrev_spec hw hc hcur hstep2
            split at e
            · cases e
            · rename_i d' r' hrec
              cases e
              by_cases hle : cur.height ≤ prev.height
              · -- equal heights: both walked
                obtain ⟨hprev', haprev, hhp⟩ := hp.1 hle
                have hI := ih cur' prev' req2 d' _ hcur' hprev' hrec
                refine ⟨by simp [hacur, hI.path], ?_, ?_⟩
                · rw [haprev]; exact List.mem_cons_of_mem _ hI.onPrev
                · intro x hx1 hx2
                  rw [hacur] at hx1; rw [haprev] at hx2
                  rcases List.mem_cons.mp hx1 with rfl | hx1
                  · rcases List.mem_cons.mp hx2 with h | hx2
                    · exact absurd h hne'
                    · have := anc_height_le hw hprev' hx2; omega
                  · rcases List.mem_cons.mp hx2 with rfl | hx2
                    · have := anc_height_le hw hcur' hx1; omega
                    · exact hI.lowest x hx1 hx2
              · -- cur strictly higher: only cur walked
                have : prev' = prev := hp.2 hle
                subst this
                have hI := ih cur' prev' req2 d' _ hcur' hprev hrec
                refine ⟨by simp [hacur, hI.path], hI.onPrev, ?_⟩
                intro x hx1 hx2
                rw [hacur] at hx1
                rcases List.mem_cons.mp hx1 with rfl | hx1
                · have := anc_height_le hw hprev hx2; omega
                · exact hI.lowest x hx1 hx2
        · rename_i hge
          -- prev strictly higher: only prev walked
          obtain ⟨hprev', haprev, hhp⟩ := hp.1 (by omega)
          have hI := ih cur prev' req1 d r hcur hprev' e
          refine ⟨hI.path, ?_, ?_⟩
          · rw [haprev]; exact List.mem_cons_of_mem _ hI.onPrev
          · intro x hx1 hx2
            rw [haprev] at hx2
            rcases List.mem_cons.mp hx2 with rfl | hx2
            · have := anc_height_le hw hcur hx1; omega
            · exact hI.lowest x hx1 hx2

theorem findDiff_spec {s : Source} (hw : wfTree s.tree = true) {c : Cache} (hc : CacheOk s.tree c)
    {cur prev : Hdr} {req : Nat} {d : Diff} {r : Nat} (hcur : InTree s.tree cur) (hprev : InTree s.tree prev)
    (e : findDiff s c cur prev req = .ok (d, r)) : IsLca s.tree cur prev d :=
  findDiffF_spec hw hc _ cur prev req d r hcur hprev e

/-- the difference is unique: it does not depend on how it was computed -/
theorem IsLca.unique {t : Tree} (hw : wfTree t = true) {cur prev : Hdr} (hcur : InTree t cur)
    {d1 d2 : Diff} (h1 : IsLca t cur prev d1) (h2 : IsLca t cur prev d2) : d1 = d2 := by
  have m1 : d1.common ∈ anc t d2.common := h2.lowest _ h1.onCur h1.onPrev
  have m2 : d2.common ∈ anc t d1.common := h1.lowest _ h2.onCur h2.onPrev
  have t1 : InTree t d1.common := anc_inTree hw hcur h1.onCur
  have t2 : InTree t d2.common := anc_inTree hw hcur h2.onCur
  have l1 := anc_height_le hw t2 m1
  have l2 := anc_height_le hw t1 m2
  have ec : d1.common = d2.common := anc_height_eq hw t2 m1 (by omega)
  have ep := h1.path
  rw [h2.path, ec] at ep
  have el : d2.connected = d1.connected := List.append_cancel_right ep
  cases d1; cases d2; simp_all

/-! ### folding notifications over the listener's chain -/

theorem applyNotifs_append (t : Tree) : ∀ (a : List Notif) (c : List Hdr) (b : List Notif),
    applyNotifs t c (a ++ b) = (applyNotifs t c a).bind (fun c' => applyNotifs t c' b) := by
  intro a
  induction a with
  | nil => intro c b; rfl
  | cons n a ih =>
    intro c b
    simp only [List.cons_append, applyNotifs]
    cases applyNotif t c n with
    | none => rfl
    | some c' => exact ih c' b

theorem apply_connected {t : Tree} (hw : wfTree t = true) {b p : Hdr} (hb : InTree t b)
    (e : anc t b = b :: anc t p) : applyNotif t (anc t p) (connNotif b) = some (anc t b) := by
  obtain ⟨hpar, hh, _⟩ := link_of_anc_cons hw hb e
  obtain ⟨r, hr⟩ := anc_head t p
  rw [e, hr]
  unfold InTree at hb
  simp [applyNotif, connNotif, hb, hpar, hh]

theorem dropWhile_skip {α : Type} (p : α → Bool) (x : α) (r : List α) (hx : p x = false) :
    ∀ l : List α, (∀ y ∈ l, p y = true) → (l ++ x :: r).dropWhile p = x :: r := by
  intro l
  induction l with
  | nil => intro _; simp [hx]
  | cons y l ih =>
    intro h
    have hy := h y List.mem_cons_self
    simp only [List.cons_append, List.dropWhile, hy]
    exact ih (fun z hz => h z (List.mem_cons_of_mem _ hz))

theorem dropWhile_head_false {α : Type} (p : α → Bool) : ∀ (l : List α) (b : α) (r : List α),
    l.dropWhile p = b :: r → p b = false := by
  intro l
  induction l with
  | nil => intro b r e; simp at e
  | cons y l ih =>
    intro b r e
    cases hy : p y with
    | true => simp only [List.dropWhile, hy] at e; exact ih b r e
    | false => simp only [List.dropWhile, hy] at e; cases e; exact hy

theorem apply_disconnected {t : Tree} (hw : wfTree t = true) {old common : Hdr} (hold : InTree t old)
    (hm : common ∈ anc t old) (hne : common ≠ old) :
    applyNotif t (anc t old) (.disconnected common.hash common.height) = some (anc t common) := by
  obtain ⟨l, e⟩ := anc_of_mem hw hold hm
  obtain ⟨r, hr⟩ := anc_head t common
  have hct : InTree t common := anc_inTree hw hold hm
  cases l with
  | nil => simp at e; exact absurd (anc_inj e).symm hne
  | cons y l' =>
    obtain ⟨r0, hr0⟩ := anc_head t old
    have hy : y = old := by rw [hr0] at e; simp at e; exact e.1.symm
    subst hy
    have habove := above_of_split hw hold e
    rw [e, hr]
    have h1 : (y.hash == common.hash) = false := by
      cases hq : y.hash == common.hash with
      | false => rfl
      | true => exact absurd (inTree_hash_inj hold hct (by simpa using hq)).symm hne
    have h2 : (l' ++ common :: r).dropWhile (fun b => b.hash != common.hash) = common :: r := by
      apply dropWhile_skip
      · simp
      · intro z hz
        have hzm : z ∈ anc t y := by rw [e]; exact List.mem_append_left _ (List.mem_cons_of_mem _ hz)
        have hzt := anc_inTree hw hold hzm
        have := habove z (List.mem_cons_of_mem _ hz)
        cases hq : z.hash == common.hash with
        | false => simp [bne, hq]
        | true =>
          have : z = common := inTree_hash_inj hzt hct (by simpa using hq)
          subst this; omega
    simp only [applyNotif, List.cons_append, h1, h2]
    simp

/-- exact shape of what `connect_blocks` emits: the blocks up to the first failing fetch -/
theorem connectBlocks_prefix (s : Source) : ∀ (asc : List Hdr) (tip : Hdr) (c : Cache) (req : Nat),
    (connectBlocks s asc tip c req).notifs = (asc.take (fetchPrefix s req asc)).map connNotif ∧
    (connectBlocks s asc tip c req).tip = lastOr tip (asc.take (fetchPrefix s req asc)) ∧
    (connectBlocks s asc tip c req).ok = (fetchPrefix s req asc == asc.length) := by
  intro asc
  induction asc with
  | nil => intro tip c req; simp [connectBlocks, fetchPrefix, lastOr]
  | cons b rest ih =>
    intro tip c req
    unfold connectBlocks fetchPrefix
    cases hg : s.getBlock req b with
    | error e => simp [lastOr]
    | ok u =>
      obtain ⟨h1, h2, h3⟩ := ih b (cacheBlockConnected c b) (req + 1)
      simp only [h1, h2, h3, List.take_succ_cons, List.map_cons, connNotif, List.length_cons]
      refine ⟨trivial, ?_, ?_⟩
      · simp [lastOr]
      · simp

theorem getBlock_ok_inTree {s : Source} {req : Nat} {b : Hdr} {u : Unit} (e : s.getBlock req b = .ok u) :
    ∃ b', hdrOf s.tree b.hash = some b' := by
  unfold Source.getBlock at e
  split at e
  · cases e
  · split at e
    · cases e
    · split at e
      · rename_i b' hb'; exact ⟨b', hb'⟩
      · cases e

/-- connecting (a prefix of) the path above `tip` towards `top` keeps the listener on a chain of the tree -/
theorem connectBlocks_fold {s : Source} (hw : wfTree s.tree = true) {top : Hdr} (htop : InTree s.tree top) :
    ∀ (asc : List Hdr) (tip : Hdr) (c : Cache) (req : Nat), CacheOk s.tree c →
      anc s.tree top = asc.reverse ++ anc s.tree tip →
      applyNotifs s.tree (anc s.tree tip) (connectBlocks s asc tip c req).notifs
          = some (anc s.tree (connectBlocks s asc tip c req).tip) ∧
      (connectBlocks s asc tip c req).tip ∈ anc s.tree top ∧
      tip ∈ anc s.tree (connectBlocks s asc tip c req).tip ∧
      ((connectBlocks s asc tip c req).ok = true → (connectBlocks s asc tip c req).tip = top) ∧
      CacheOk s.tree (connectBlocks s asc tip c req).cache ∧
      (((connectBlocks s asc tip c req).notifs = [] ∧ (connectBlocks s asc tip c req).tip = tip) ∨
        tip.height < (connectBlocks s asc tip c req).tip.height) := by
  intro asc
  induction asc with
  | nil =>
    intro tip c req hc e
    simp only [List.reverse_nil, List.nil_append] at e
    have : top = tip := anc_inj e
    subst this
    simp [connectBlocks, applyNotifs, mem_anc_self, hc]
  | cons b rest ih =>
    intro tip c req hc e
    simp only [List.reverse_cons, List.append_assoc, List.singleton_append] at e
    have hbm : b ∈ anc s.tree top := by rw [e]; exact List.mem_append_right _ List.mem_cons_self
    have hbt : InTree s.tree b := anc_inTree hw htop hbm
    have hab : anc s.tree b = b :: anc s.tree tip := anc_suffix hw _ top htop b _ e
    have htm : tip ∈ anc s.tree top := by
      rw [e]; exact List.mem_append_right _ (List.mem_cons_of_mem _ (mem_anc_self _ _))
    unfold connectBlocks
    simp only [connectNewTip, connectHeight]
    cases hg : s.getBlock req b with
    | error err => simp [applyNotifs, htm, mem_anc_self, hc]
    | ok u =>
      have e' : anc s.tree top = rest.reverse ++ anc s.tree b := by rw [hab]; exact e
      obtain ⟨h1, h2, h3, h4, h5, h6⟩ := ih b (cacheBlockConnected c b) (req + 1) (cacheOk_blockConnected hc hbt) e'
      have hlink := link_of_anc_cons hw hbt hab
      have hconn := apply_connected hw hbt hab
      unfold connNotif at hconn
      refine ⟨?_, h2, ?_, h4, h5, Or.inr ?_⟩
      · simp only [applyNotifs, hconn]; exact h1
      · have : tip ∈ anc s.tree b := by rw [hab]; exact List.mem_cons_of_mem _ (mem_anc_self _ _)
        exact anc_trans hw (anc_inTree hw htop h2) h3 this
      · rcases h6 with ⟨_, h6⟩ | h6
        · simp only [h6]; omega
        · simp only; omega

/-! ### synchronize_listener / update_chain_tip / poll_best_tip -/

theorem sync_chain {s : Source} (hw : wfTree s.tree = true) {c : Cache} (hc : CacheOk s.tree c) {req : Nat}
    {new old : Hdr} (hn : InTree s.tree new) (ho : InTree s.tree old) (o : SyncOut)
    (eo : synchronizeListener s c req new old = o) :
    applyNotifs s.tree (anc s.tree old) o.notifs = some (anc s.tree (syncTip o.res new old)) ∧
    InTree s.tree (syncTip o.res new old) ∧ CacheOk s.tree o.cache ∧
    (syncTip o.res new old = old ∨ syncTip o.res new old ∈ anc s.tree new) ∧
    (syncTip o.res new old = old → o.notifs = []) := by
  unfold synchronizeListener at eo
  simp only [syncDisconnects] at eo
  split at eo
  · subst eo
    simp [syncTip, applyNotifs, ho, hc]
  · rename_i d req1 hfd
    have hL := findDiff_spec hw hc hn ho hfd
    have hct : InTree s.tree d.common := anc_inTree hw ho hL.onPrev
    by_cases hd : d.common = old
    · -- pure extension: nothing to disconnect
      have hpath : anc s.tree new = d.connected.reverse.reverse ++ anc s.tree d.common := by
        simp [hL.path]
      obtain ⟨f1, f2, f3, f4, f5, f6⟩ := connectBlocks_fold hw hn d.connected.reverse d.common c req1 hc hpath
      subst eo
      simp only [hd, ne_eq, not_true_eq_false, decide_false, if_false, Bool.false_eq_true, List.nil_append] at *
      have htip : syncTip (if (connectBlocks s d.connected.reverse old c req1).ok = true then SyncRes.ok
          else SyncRes.errAt (connectBlocks s d.connected.reverse old c req1).tip) new old
          = (connectBlocks s d.connected.reverse old c req1).tip := by
        by_cases hok : (connectBlocks s d.connected.reverse old c req1).ok = true
        · simp [hok, syncTip, f4 hok]
        · simp [hok, syncTip]
      rw [htip]
      refine ⟨f1, anc_inTree hw hn f2, f5, Or.inr f2, ?_⟩
      intro h
      rcases f6 with ⟨h6, _⟩ | h6
      · exact h6
      · rw [h] at h6; omega
    · -- reorg: disconnect to the common ancestor first
      have hc1 : CacheOk s.tree (cacheBlocksDisconnected c false d.common) := cacheOk_blocksDisconnected hc _ _
      have hpath : anc s.tree new = d.connected.reverse.reverse ++ anc s.tree d.common := by
        simp [hL.path]
      obtain ⟨f1, f2, f3, f4, f5, f6⟩ :=
        connectBlocks_fold hw hn d.connected.reverse d.common (cacheBlocksDisconnected c false d.common) req1 hc1 hpath
      subst eo
      simp only [ne_eq, hd, not_false_eq_true, decide_true, if_true, List.singleton_append, discNotif, disconnectLocator]
      have htip : syncTip (if (connectBlocks s d.connected.reverse d.common (cacheBlocksDisconnected c false d.common) req1).ok = true
          then SyncRes.ok
          else SyncRes.errAt (connectBlocks s d.connected.reverse d.common (cacheBlocksDisconnected c false d.common) req1).tip) new old
          = (connectBlocks s d.connected.reverse d.common (cacheBlocksDisconnected c false d.common) req1).tip := by
        by_cases hok : (connectBlocks s d.connected.reverse d.common (cacheBlocksDisconnected c false d.common) req1).ok = true
        · simp [hok, syncTip, f4 hok]
        · simp [hok, syncTip]
      rw [htip]
      have hdisc := apply_disconnected hw ho hL.onPrev hd
      refine ⟨?_, anc_inTree hw hn f2, f5, Or.inr f2, ?_⟩
      · simp only [applyNotifs, hdisc]; exact f1
      · intro h
        exfalso
        -- the tip is back at `old`: then `old` is a common ancestor, hence below `d.common`, hence equal
        rw [h] at f2
        have hm := hL.lowest old f2 (mem_anc_self _ _)
        have l1 := anc_height_le hw hct hm
        have l2 := anc_height_le hw ho hL.onPrev
        exact hd (anc_height_eq hw ho hL.onPrev (by omega))

theorem pollChainTip_better {s : Source} (hw : wfTree s.tree = true) {req : Nat} {known t : Hdr} {r : Nat}
    (e : pollChainTip s req known = .ok (.better t, r)) : InTree s.tree t ∧ known.work < t.work := by
  unfold pollChainTip at e
  gen_norm at e
  split at e
  · cases e
  · split at e
    · cases e
    · split at e
      · cases e
      · rename_i tip htip
        split at e
        · rename_i hlt; cases e; exact ⟨inTree_of_hdrOf hw (getHeader_ok htip), hlt⟩
        · cases e

theorem pollChainTip_worse {s : Source} {req : Nat} {known t : Hdr} {r : Nat}
    (e : pollChainTip s req known = .ok (.worse t, r)) : t.work ≤ known.work := by
  unfold pollChainTip at e
  gen_norm at e
  split at e
  · cases e
  · split at e
    · cases e
    · split at e
      · cases e
      · split at e
        · cases e
        · rename_i hlt; cases e; omega

theorem partialAdvance_eq (a b : Hdr) : partialAdvance a b = (a.hash != b.hash) := by
  by_cases h : a.hash = b.hash <;> simp [partialAdvance, h]

/-- what update_chain_tip does to the client, in terms of `syncTip` -/
theorem update_spec {s : Source} (hw : wfTree s.tree = true) {cl : Client} (hc : CacheOk s.tree cl.cache)
    (ht : InTree s.tree cl.tip) {req : Nat} {best : Hdr} (hb : InTree s.tree best)
    (cl' : Client) (conn : Bool) (ns : List Notif) (r : Nat)
    (e : updateChainTip s cl req best = (cl', conn, ns, r)) :
    applyNotifs s.tree (anc s.tree cl.tip) ns = some (anc s.tree cl'.tip) ∧
    InTree s.tree cl'.tip ∧ CacheOk s.tree cl'.cache ∧
    (cl'.tip = cl.tip ∨ cl'.tip ∈ anc s.tree best) ∧
    (conn = false → ns = [] ∧ cl'.tip = cl.tip) ∧
    cl'.tip = syncTip (synchronizeListener s cl.cache req best cl.tip).res best cl.tip := by
  obtain ⟨g1, g2, g3, g4, g5⟩ := sync_chain hw hc hb ht _ (rfl : synchronizeListener s cl.cache req best cl.tip = _)
  unfold updateChainTip at e
  simp only [partialAdvance_eq] at e
  generalize synchronizeListener s cl.cache req best cl.tip = o at *
  cases hres : o.res with
  | ok =>
    simp only [hres, syncTip] at *
    cases e
    exact ⟨g1, g2, g3, g4, by simp, rfl⟩
  | errNone =>
    simp only [hres, syncTip] at *
    cases e
    exact ⟨g1, g2, g3, Or.inl rfl, fun _ => ⟨g5 trivial, rfl⟩, rfl⟩
  | errAt t =>
    simp only [hres, syncTip] at *
    by_cases hh : t.hash = cl.tip.hash
    · have : t = cl.tip := inTree_hash_inj g2 ht hh
      subst this
      simp only [bne_self_eq_false, Bool.false_eq_true, if_false] at e
      cases e
      exact ⟨g1, g2, g3, Or.inl rfl, fun _ => ⟨g5 rfl, rfl⟩, rfl⟩
    · have hb' : (t.hash != cl.tip.hash) = true := by simp [bne, hh]
      simp only [hb', if_true] at e
      cases e
      exact ⟨g1, g2, g3, g4, by simp, rfl⟩

theorem poll_spec {s : Source} (hw : wfTree s.tree = true) {cl : Client} (hc : CacheOk s.tree cl.cache)
    (ht : InTree s.tree cl.tip) (o : PollOut) (eo : pollBestTip s cl = o) :
    applyNotifs s.tree (anc s.tree cl.tip) o.notifs = some (anc s.tree o.client.tip) ∧
    InTree s.tree o.client.tip ∧ CacheOk s.tree o.client.cache ∧
    (match o.result with
      | .ok (.better b, conn) => InTree s.tree b ∧ cl.tip.work < b.work ∧
          (o.client.tip = cl.tip ∨ o.client.tip ∈ anc s.tree b) ∧
          (conn = false → o.notifs = [] ∧ o.client.tip = cl.tip)
      | .ok (.worse w, conn) => conn = false ∧ w.work ≤ cl.tip.work ∧ o.notifs = [] ∧ o.client = cl
      | .ok (.common, conn) => conn = false ∧ o.notifs = [] ∧ o.client = cl
      | .error _ => o.notifs = [] ∧ o.client = cl) := by
  unfold pollBestTip at eo
  split at eo
  · subst eo; simp [applyNotifs, ht, hc]
  · subst eo; simp [applyNotifs, ht, hc]
  · rename_i t r hp; subst eo; simp [applyNotifs, ht, hc, pollChainTip_worse hp]
  · rename_i t req hp
    obtain ⟨hbt, hwk⟩ := pollChainTip_better hw hp
    rcases hu : updateChainTip s cl req t with ⟨cl', conn, ns, r⟩
    obtain ⟨u1, u2, u3, u4, u5, _⟩ := update_spec hw hc ht hbt cl' conn ns r hu
    rw [hu] at eo
    subst eo
    exact ⟨u1, u2, u3, hbt, hwk, u4, u5⟩

/-- one poll after the other: the listener's chain and the client's tip stay in step -/
theorem runPolls_spec {t : Tree} (hw : wfTree t = true) : ∀ (ss : List Source) (cl : Client),
    (∀ s ∈ ss, s.tree = t) → CacheOk t cl.cache → InTree t cl.tip →
    applyNotifs t (anc t cl.tip) (runPolls cl ss).2 = some (anc t (runPolls cl ss).1.tip) ∧
    InTree t (runPolls cl ss).1.tip ∧ CacheOk t (runPolls cl ss).1.cache := by
  intro ss
  induction ss with
  | nil => intro cl _ hc ht; simp [runPolls, applyNotifs, hc, ht]
  | cons s ss ih =>
    intro cl hs hc ht
    have hst : s.tree = t := hs s List.mem_cons_self
    subst hst
    obtain ⟨p1, p2, p3, _⟩ := poll_spec hw hc ht _ (rfl : pollBestTip s cl = _)
    obtain ⟨i1, i2, i3⟩ := ih (pollBestTip s cl).client (fun s' h' => hs s' (List.mem_cons_of_mem _ h')) p3 p2
    simp only [runPolls]
    refine ⟨?_, i2, i3⟩
    rw [applyNotifs_append, p1]
    exact i1

/-! ### completeness with a healthy source -/

theorem oneGenesis_eq {t : Tree} (hg : oneGenesis t = true) {a b : Hdr} (ha : a ∈ t) (hb : b ∈ t)
    (ha0 : a.height = 0) (hb0 : b.height = 0) : a = b := by
  unfold oneGenesis at hg
  have := (List.all_eq_true.mp ((List.all_eq_true.mp hg) a ha)) b hb
  simpa [ha0, hb0] using this

/-- an honest answer passes check_builds_on: the tree's parent of a tree block (on a tree that obeys the
    mainnet difficulty rules when the poller enforces them) -/
theorem checkBuildsOn_tree {t : Tree} (hw : wfTree t = true) {bitcoin : Bool} (hd : bitcoin = true → diffRulesOk t = true)
    {h p : Hdr} (hh : InTree t h) (h0 : h.height ≠ 0) (hp : hdrOf t h.parent = some p) :
    checkBuildsOn bitcoin h p = true := by
  obtain ⟨p', hp', hh1, _, _⟩ := parent_of hw hh h0
  rw [hp] at hp'; cases hp'
  have hph : p.hash = h.parent := (hdrOf_some hp).2
  obtain ⟨hwk, _⟩ := parent_work hw hh h0 hp
  have hf : checkBuildsOnErr false h p = none := by
    simp [checkBuildsOnErr, buildsOnBadPrevHash, buildsOnBadHeight, buildsOnBadChainwork, hph, hh1.symm, hwk]
  unfold checkBuildsOn
  cases bitcoin with
  | false => rw [hf]; rfl
  | true =>
    have := (List.all_eq_true.mp (hd rfl)) h (mem_of_inTree hh)
    simp only [hp, hf, Option.isSome_none, Bool.or_false] at this
    exact this

theorem lookUpPrev_complete {s : Source} (hw : wfTree s.tree = true) (hs : s.Healthy) (c : Cache) (req : Nat)
    {h : Hdr} (hh : InTree s.tree h) (h0 : h.height ≠ 0) : ∃ p r, lookUpPrev s c req h = .ok (p, r) := by
  unfold lookUpPrev
  split
  · exact ⟨_, _, rfl⟩
  · obtain ⟨p, hp, hh1, hwk, _⟩ := parent_of hw hh h0
    have hph : p.hash = h.parent := (hdrOf_some hp).2
    refine ⟨p, req + 1, ?_⟩
    simp [pollerPrev, isGenesisHeader, h0, Source.getHeader, hs.1, hs.2.1 h.parent, hp, checkBuildsOn_tree hw hs.2.2 hh h0 hp]

theorem findDiffF_complete {s : Source} (hw : wfTree s.tree = true) (hg : oneGenesis s.tree = true)
    (hs : s.Healthy) {c : Cache} (hc : CacheOk s.tree c) :
    ∀ (n : Nat) (cur prev : Hdr) (req : Nat), InTree s.tree cur → InTree s.tree prev →
      cur.height + prev.height < n → ∃ d r, findDiffF s c n cur prev req = .ok (d, r) := by
  intro n
  induction n with
  | zero => intro cur prev req _ _ h; omega
  | succ n ih =>
    intro cur prev req hcur hprev hlt
    unfold findDiffF
    gen_norm
    by_cases heq : cur.hash = prev.hash
    · simp only [heq, if_true]; exact ⟨_, _, rfl⟩
    · have hne : cur ≠ prev := by intro h; subst h; exact heq rfl
      have hnz : ¬ (cur.height = 0 ∧ prev.height = 0) := fun ⟨a, b⟩ =>
        hne (oneGenesis_eq hg (mem_of_inTree hcur) (mem_of_inTree hprev) a b)
      simp only [heq, if_false]
      by_cases hle : cur.height ≤ prev.height
      · obtain ⟨prev', req1, hstep⟩ := lookUpPrev_complete hw hs c req hprev (by omega)
        obtain ⟨hprev', _, hhp⟩ := lookUpPrev_spec hw hc hprev hstep
        simp only [hle, if_true, hstep]
        by_cases hge : prev.height ≤ cur.height
        · obtain ⟨cur', req2, hstep2⟩ := lookUpPrev_complete hw hs c req1 hcur (by omega)
          obtain ⟨hcur', _, hhc⟩ := lookUpPrev_spec hw hc hcur hstep2
          obtain ⟨d, r, hrec⟩ := ih cur' prev' req2 hcur' hprev' (by omega)
          simp only [hge, if_true, hstep2, hrec]
          exact ⟨_, _, rfl⟩
        · obtain ⟨d, r, hrec⟩ := ih cur prev' req1 hcur hprev' (by omega)
          simp only [hge, if_false, hrec]
          exact ⟨_, _, rfl⟩
      · obtain ⟨cur', req2, hstep2⟩ := lookUpPrev_complete hw hs c req hcur (by omega)
        obtain ⟨hcur', _, hhc⟩ := lookUpPrev_spec hw hc hcur hstep2
        obtain ⟨d, r, hrec⟩ := ih cur' prev req2 hcur' hprev (by omega)
        have hge : prev.height ≤ cur.height := by omega
        simp only [hle, if_false, hge, if_true, hstep2, hrec]
        exact ⟨_, _, rfl⟩

theorem findDiff_complete {s : Source} (hw : wfTree s.tree = true) (hg : oneGenesis s.tree = true)
    (hs : s.Healthy) {c : Cache} (hc : CacheOk s.tree c) {cur prev : Hdr} (req : Nat)
    (hcur : InTree s.tree cur) (hprev : InTree s.tree prev) : ∃ d r, findDiff s c cur prev req = .ok (d, r) :=
  findDiffF_complete hw hg hs hc _ cur prev req hcur hprev (by omega)

theorem getBlock_healthy {s : Source} (hs : s.Healthy) (req : Nat) {b : Hdr} (hb : InTree s.tree b) :
    s.getBlock req b = .ok () := by
  unfold InTree at hb
  simp [Source.getBlock, hs.1, hs.2.1 b.hash, hb]

theorem fetchPrefix_healthy {s : Source} (hs : s.Healthy) : ∀ (bs : List Hdr) (req : Nat),
    (∀ b ∈ bs, InTree s.tree b) → fetchPrefix s req bs = bs.length := by
  intro bs
  induction bs with
  | nil => intro _ _; rfl
  | cons b rest ih =>
    intro req h
    simp only [fetchPrefix, getBlock_healthy hs req (h b List.mem_cons_self), List.length_cons]
    rw [ih (req + 1) (fun x hx => h x (List.mem_cons_of_mem _ hx))]

theorem sync_healthy {s : Source} (hw : wfTree s.tree = true) (hg : oneGenesis s.tree = true)
    (hs : s.Healthy) {c : Cache} (hc : CacheOk s.tree c) (req : Nat) {new old : Hdr}
    (hn : InTree s.tree new) (ho : InTree s.tree old) :
    (synchronizeListener s c req new old).res = .ok := by
  obtain ⟨d, r, hfd⟩ := findDiff_complete hw hg hs hc req hn ho
  have hL := findDiff_spec hw hc hn ho hfd
  have hall : ∀ b ∈ d.connected.reverse, InTree s.tree b := by
    intro b hb
    apply anc_inTree hw hn
    rw [hL.path]
    exact List.mem_append_left _ (List.mem_reverse.mp hb)
  unfold synchronizeListener
  simp only [hfd]
  have h3 := fun tip c' req' => (connectBlocks_prefix s d.connected.reverse tip c' req').2.2
  simp only [h3, fetchPrefix_healthy hs _ _ hall, beq_self_eq_true, if_true]

/-! ### start-up synchronisation (init.rs) -/

/-- delivering the whole path above `tip` brings the listener to `top` -/
theorem apply_connect_path {t : Tree} (hw : wfTree t = true) {top : Hdr} (htop : InTree t top) :
    ∀ (asc : List Hdr) (tip : Hdr), anc t top = asc.reverse ++ anc t tip →
      applyNotifs t (anc t tip) (asc.map connNotif) = some (anc t top) := by
  intro asc
  induction asc with
  | nil => intro tip e; simp at e; simp [applyNotifs, anc_inj e]
  | cons b rest ih =>
    intro tip e
    simp only [List.reverse_cons, List.append_assoc, List.singleton_append] at e
    have hbm : b ∈ anc t top := by rw [e]; exact List.mem_append_right _ List.mem_cons_self
    have hbt : InTree t b := anc_inTree hw htop hbm
    have hab : anc t b = b :: anc t tip := anc_suffix hw _ top htop b _ e
    have e' : anc t top = rest.reverse ++ anc t b := by rw [hab]; exact e
    simp only [List.map_cons, applyNotifs, apply_connected hw hbt hab]
    exact ih b e'

theorem resolveLocator_spec {s : Source} (hw : wfTree s.tree = true) {b : Hdr} (height : Nat) :
    ∀ (cands : List (Nat × Nat)) (c : Cache) (req : Nat) (found : Hdr) (c1 : Cache) (r : Nat),
      CacheOk s.tree c → (∀ d h x, (d, h) ∈ cands → hdrOf s.tree h = some x → x ∈ anc s.tree b) →
      resolveLocator s height cands c req = .ok ((found, c1), r) →
      found ∈ anc s.tree b ∧ InTree s.tree found ∧ CacheOk s.tree c1 := by
  intro cands
  induction cands with
  | nil => intro c req found c1 r _ _ e; simp [resolveLocator] at e
  | cons dh rest ih =>
    intro c req found c1 r hc hanc e
    rcases dh with ⟨d, h⟩
    unfold resolveLocator at e
    split at e
    · rename_i x hx
      cases e
      obtain ⟨hm, hhash⟩ := cacheLookUp_some hx
      have hxt : InTree s.tree found := hc found hm
      have : hdrOf s.tree h = some found := by unfold InTree at hxt; rw [hhash] at hxt; exact hxt
      exact ⟨hanc d h found List.mem_cons_self this, hxt, hc⟩
    · split at e
      · cases e
      · split at e
        · rename_i x hx
          cases e
          have := getHeader_ok hx
          have hxt := inTree_of_hdrOf hw this
          exact ⟨hanc d h found List.mem_cons_self this, hxt, cacheOk_insertDuringDiff hc hxt⟩
        · exact ih c (req + 1) found c1 r hc (fun d' h' x hm => hanc d' h' x (List.mem_cons_of_mem _ hm)) e

/-- what the first loop of synchronize_listeners establishes for one listener -/
def ListenerOk (t : Tree) (best : Hdr) (mostLen : Nat) (bl : Hdr × Locator) (p : List Nat × List Notif) : Prop :=
  ∃ common dconn, p.1 = [common.height] ∧ InTree t common ∧ anc t best = dconn ++ anc t common ∧
    dconn.length ≤ mostLen ∧ applyNotifs t (anc t bl.1) p.2 = some (anc t common) ∧
    common ∈ anc t bl.1 ∧ p.2 = (if common = bl.1 then [] else [Notif.disconnected common.hash common.height])

theorem ListenerOk.mono {t : Tree} {best : Hdr} {m m' : Nat} (h : m ≤ m') {bl : Hdr × Locator}
    {p : List Nat × List Notif} (hl : ListenerOk t best m bl p) : ListenerOk t best m' bl p := by
  obtain ⟨common, dconn, h1, h2, h3, h4, h5⟩ := hl
  exact ⟨common, dconn, h1, h2, h3, by omega, h5⟩

/-- The translated per-listener body of the first loop of init.rs synchronize_listeners (Generated/ChainSync.lean,
    regenerated from the Rust statements on every run) does, for EVERY difference — nothing to connect or
    not, listener ahead of / behind / beside the source tip —: disconnect to the common ancestor iff that is not the
    listener's own block, record exactly the common ancestor's height, keep the longer connected list.
    Everything the start-up theorems say about `phase1` goes through this lemma: an early `continue`, a
    different recorded height, a dropped or extra disconnect in the Rust text make it false. -/
theorem initListenerStep_eq (best : Hdr) (oh oht : Nat) (common : Hdr) (conn most : List Hdr) :
    initListenerStep best oh oht common conn most =
      ⟨if common.hash != oh then [common] else [], [common.height],
        if most.length < conn.length then conn else most⟩ := by
  unfold initListenerStep
  by_cases h1 : common.hash = oh <;> by_cases h2 : most.length < conn.length <;> simp [h1, h2]

theorem foldl_blocksDisconnected_retain (c : Cache) : ∀ (l : List Hdr),
    l.foldl (fun c h => cacheBlocksDisconnected c true h) c = c := by
  intro l
  induction l with
  | nil => rfl
  | cons x l ih => simp only [List.foldl_cons, cacheBlocksDisconnected, if_true]; exact ih

theorem phase1_most_len (s : Source) (best : Hdr) : ∀ (ls : List Locator) (c : Cache) (req : Nat) (most : List Hdr),
    most.length ≤ (phase1 s best ls c req most).most.length := by
  intro ls
  induction ls with
  | nil => intro c req most; simp [phase1]
  | cons l ls ih =>
    intro c req most
    unfold phase1
    simp only [initListenerStep_eq, foldl_blocksDisconnected_retain]
    split
    · simp
    · rename_i d c1 req1 _
      simp only
      by_cases hlt : most.length < d.connected.length
      · have := ih c1 req1 d.connected
        simp only [hlt, if_true]; omega
      · have := ih c1 req1 most
        simp only [hlt, if_false]; exact this

theorem phase1_spec {s : Source} (hw : wfTree s.tree = true) {best : Hdr} (hb : InTree s.tree best) :
    ∀ (pairs : List (Hdr × Locator)) (c : Cache) (req : Nat) (most : List Hdr),
      (∀ p ∈ pairs, LocatorOk s.tree p.2 p.1) → CacheOk s.tree c →
      (∃ cm, anc s.tree best = most ++ anc s.tree cm) →
      (phase1 s best (pairs.map (·.2)) c req most).ok = true →
      Forall2 (ListenerOk s.tree best (phase1 s best (pairs.map (·.2)) c req most).most.length) pairs
        (phase1 s best (pairs.map (·.2)) c req most).per ∧
      CacheOk s.tree (phase1 s best (pairs.map (·.2)) c req most).cache ∧
      (∃ cm, anc s.tree best = (phase1 s best (pairs.map (·.2)) c req most).most ++ anc s.tree cm) := by
  intro pairs
  induction pairs with
  | nil => intro c req most _ hc hm _; simp only [List.map_nil, phase1]; exact ⟨Forall2.nil, hc, hm⟩
  | cons bl pairs ih =>
    intro c req most hl hc hm hok
    rcases bl with ⟨b, l⟩
    obtain ⟨hbt, hlh, hcands⟩ := hl (b, l) List.mem_cons_self
    simp only [List.map_cons] at hok ⊢
    unfold phase1 at hok ⊢
    simp only [initListenerStep_eq, foldl_blocksDisconnected_retain] at hok ⊢
    split at hok
    · simp at hok
    · rename_i d c1 req1 hfd
      simp only at hok ⊢
      -- the difference for this listener
      unfold findDiffFromBestBlock at hfd
      split at hfd
      · cases hfd
      · rename_i found c1' req0 hres
        split at hfd
        · cases hfd
        · rename_i d' req2 hdiff
          cases hfd
          obtain ⟨hfa, hft, hc1⟩ := resolveLocator_spec hw l.height l.candidates c req found c1 req0 hc hcands hres
          have hL := findDiff_spec hw hc1 hb hft hdiff
          have hct : InTree s.tree d.common := anc_inTree hw hb hL.onCur
          have hcb : d.common ∈ anc s.tree b := anc_trans hw hbt hfa hL.onPrev
          have hmost' : ∃ cm, anc s.tree best = (if most.length < d.connected.length then d.connected else most) ++ anc s.tree cm := by
            split
            · exact ⟨d.common, hL.path⟩
            · exact hm
          obtain ⟨i1, i2, i3⟩ := ih c1 req1
            (if most.length < d.connected.length then d.connected else most)
            (fun p hp => hl p (List.mem_cons_of_mem _ hp)) hc1 hmost' hok
          have hlen := phase1_most_len s best (pairs.map (·.2)) c1 req1
            (if most.length < d.connected.length then d.connected else most)
          refine ⟨Forall2.cons ?_ i1, i2, i3⟩
          refine ⟨d.common, d.connected, rfl, hct, hL.path, ?_, ?_, hcb, ?_⟩
          · by_cases hlt : most.length < d.connected.length
            · simp only [hlt, if_true] at hlen ⊢; exact hlen
            · simp only [hlt, if_false] at hlen ⊢; omega
          · by_cases hh : d.common.hash = l.hash
            · have : d.common = b := inTree_hash_inj hct hbt (by rw [hh, hlh])
              subst this
              simp [hh, applyNotifs]
            · have hne : d.common ≠ b := by intro e; rw [e] at hh; exact hh hlh.symm
              have : (d.common.hash != l.hash) = true := by simp [bne, hh]
              simp only [this, if_true, List.map_cons, List.map_nil, discNotif, disconnectLocator, applyNotifs, apply_disconnected hw hbt hcb hne]
          · by_cases hh : d.common.hash = l.hash
            · have : d.common = b := inTree_hash_inj hct hbt (by rw [hh, hlh])
              have hbe : (d.common.hash != l.hash) = false := by simp [hh]
              rw [hbe]
              simp [this]
            · have hne : d.common ≠ b := by intro e; rw [e] at hh; exact hh hlh.symm
              have : (d.common.hash != l.hash) = true := by simp [bne, hh]
              simp only [this, if_true, hne, if_false, List.map_cons, List.map_nil, discNotif, disconnectLocator]

theorem fetchAll_spec (s : Source) : ∀ (bs : List Hdr) (req : Nat), (fetchAll s bs req).2 = req + bs.length := by
  intro bs
  induction bs with
  | nil => intro req; simp [fetchAll]
  | cons b rest ih => intro req; simp only [fetchAll, ih, List.length_cons]; omega

theorem foldl_blockConnected_ok {t : Tree} : ∀ (bs : List Hdr) (c : Cache), CacheOk t c → (∀ b ∈ bs, InTree t b) →
    CacheOk t (bs.foldl cacheBlockConnected c) := by
  intro bs
  induction bs with
  | nil => intro c hc _; exact hc
  | cons b rest ih =>
    intro c hc h
    simp only [List.foldl_cons]
    exact ih (cacheBlockConnected c b) (cacheOk_blockConnected hc (h b List.mem_cons_self))
      (fun x hx => h x (List.mem_cons_of_mem _ hx))

/-- the batched second loop delivers everything when it succeeds -/
theorem phase2_spec (s : Source) {t : Tree} (k : Nat) (hk : 0 < k) : ∀ (n : Nat) (asc : List Hdr) (c : Cache) (req : Nat),
    asc.length ≤ n → CacheOk t c → (∀ b ∈ asc, InTree t b) →
    ((phase2 s k n asc c req).1 = true → (phase2 s k n asc c req).2.2.2 = asc) ∧
    CacheOk t (phase2 s k n asc c req).2.1 := by
  intro n
  induction n with
  | zero =>
    intro asc c req hlen hc _
    have : asc = [] := List.eq_nil_of_length_eq_zero (by omega)
    subst this; simp [phase2, hc]
  | succ n ih =>
    intro asc c req hlen hc hall
    unfold phase2
    by_cases he : asc.isEmpty = true
    · have : asc = [] := by simpa using he
      subst this; simp [hc]
    · simp only [he, Bool.false_eq_true, if_false]
      cases hf : (fetchAll s (asc.take k) req).1 with
      | false => simp [hc]
      | true =>
        have hne : asc ≠ [] := by simpa using he
        have hpos : 0 < asc.length := List.length_pos_iff.mpr hne
        have hdl : (asc.drop k).length ≤ n := by simp only [List.length_drop]; omega
        obtain ⟨i1, i2⟩ := ih (asc.drop k) ((asc.take k).foldl cacheBlockConnected c) (fetchAll s (asc.take k) req).2 hdl
          (foldl_blockConnected_ok _ _ hc (fun b hb => hall b (List.mem_of_mem_take hb)))
          (fun b hb => hall b (List.mem_of_mem_drop hb))
        simp only [Bool.not_true, Bool.false_eq_true, if_false]
        refine ⟨fun hok => ?_, i2⟩
        rw [i1 hok, List.take_append_drop]

theorem forall2_map_right {α β γ : Type} {R : α → β → Prop} {R' : α → γ → Prop} {f : β → γ}
    (h : ∀ a b, R a b → R' a (f b)) : ∀ {l1 : List α} {l2 : List β}, Forall2 R l1 l2 →
    Forall2 R' l1 (l2.map f) := by
  intro l1 l2 hf
  induction hf with
  | nil => exact Forall2.nil
  | cons hab _ ih => exact Forall2.cons (h _ _ hab) ih

/-- the blocks of the longest connected list that lie above a listener's common ancestor are exactly
    that listener's own connected list -/
theorem connectedFor_most {t : Tree} (hw : wfTree t = true) {best common cm : Hdr} (hb : InTree t best)
    {dconn most : List Hdr} (h1 : anc t best = dconn ++ anc t common) (h2 : anc t best = most ++ anc t cm)
    (hct : InTree t common) (hlen : dconn.length ≤ most.length) :
    connectedFor common.height most.reverse = dconn.reverse.map connNotif := by
  -- most = dconn ++ extra, extra ++ anc cm = anc common
  have hsplit : ∃ extra, most = dconn ++ extra ∧ extra ++ anc t cm = anc t common := by
    have e : dconn ++ anc t common = most ++ anc t cm := by rw [← h1, h2]
    rcases List.append_eq_append_iff.mp e with ⟨a', ha, hb'⟩ | ⟨c', hc', hd⟩
    · exact ⟨a', ha, hb'.symm⟩
    · have : c' = [] := by
        have := congrArg List.length hc'
        simp at this
        exact List.eq_nil_of_length_eq_zero (by omega)
      subst this
      simp at hc' hd
      exact ⟨[], by simp [hc'], by simp [hd]⟩
  obtain ⟨extra, hm, hx⟩ := hsplit
  have habove := above_of_split hw hb h1
  have hbelow : ∀ y ∈ extra, y.height ≤ common.height := by
    intro y hy
    apply anc_height_le hw hct
    rw [← hx]; exact List.mem_append_left _ hy
  subst hm
  unfold connectedFor
  simp only [List.reverse_append, List.filter_append, initDelivers, gt_iff_lt]
  have f1 : extra.reverse.filter (fun b => decide (common.height < b.height)) = [] := by
    apply List.filter_eq_nil_iff.mpr
    intro y hy
    have := hbelow y (List.mem_reverse.mp hy)
    simp; omega
  have f2 : dconn.reverse.filter (fun b => decide (common.height < b.height)) = dconn.reverse := by
    apply List.filter_eq_self.mpr
    intro y hy
    have := habove y (List.mem_reverse.mp hy)
    simp; omega
  rw [f1, f2]; simp [connNotif]

/-! ### resuming after an interrupted poll -/

theorem lastOr_concat (x : Hdr) : ∀ (l : List Hdr) (z : Hdr), lastOr x (l ++ [z]) = z := by
  intro l
  induction l generalizing x with
  | nil => intro z; rfl
  | cons y l ih => intro z; simp only [List.cons_append, lastOr]; exact ih y z

/-- cumulative work strictly increases along a (non-empty) path -/
theorem anc_work_lt {t : Tree} (hw : wfTree t = true) {x : Hdr} : ∀ (l : List Hdr) (b : Hdr), InTree t b →
    anc t b = l ++ anc t x → l ≠ [] → x.work < b.work := by
  intro l
  induction l with
  | nil => intro b _ _ h; exact absurd rfl h
  | cons y l ih =>
    intro b hb e _
    by_cases h0 : b.height = 0
    · rw [anc_zero h0] at e
      obtain ⟨r, hr⟩ := anc_head t x
      rw [hr] at e; simp at e
    · obtain ⟨p, _, _, hwk, hp, ha⟩ := anc_succ hw hb h0
      rw [ha] at e
      simp only [List.cons_append] at e
      have e' := (List.cons.inj e).2
      cases l with
      | nil => simp at e'; rw [anc_inj e'] at hwk; exact hwk
      | cons z l' => have := ih p hp e' (by simp); omega

/-- the chain of the block an interrupted connect stopped at -/
theorem anc_lastOr {t : Tree} (hw : wfTree t = true) {top common : Hdr} (htop : InTree t top)
    (pre suf : List Hdr) (e : anc t top = (pre ++ suf).reverse ++ anc t common) :
    anc t top = suf.reverse ++ anc t (lastOr common pre) ∧
    anc t (lastOr common pre) = pre.reverse ++ anc t common := by
  rcases List.eq_nil_or_concat pre with rfl | ⟨pre', z, rfl⟩
  · simp only [List.nil_append, lastOr, List.reverse_nil] at e ⊢
    exact ⟨e, trivial⟩
  · simp only [List.concat_eq_append] at e ⊢
    rw [lastOr_concat]
    simp only [List.reverse_append, List.reverse_cons, List.reverse_nil, List.nil_append,
      List.singleton_append, List.append_assoc, List.cons_append] at e ⊢
    have hz : anc t z = z :: (pre'.reverse ++ anc t common) := anc_suffix hw _ top htop z _ e
    exact ⟨by rw [hz]; exact e, hz⟩

theorem fetchPrefix_le (s : Source) : ∀ (bs : List Hdr) (req : Nat), fetchPrefix s req bs ≤ bs.length := by
  intro bs
  induction bs with
  | nil => intro _; simp [fetchPrefix]
  | cons b rest ih =>
    intro req
    unfold fetchPrefix
    split
    · have := ih (req + 1); simp only [List.length_cons]; omega
    · omega

/-! ### the header cache holds what was connected last -/

theorem getLast?_append_ne_nil {α : Type} (a b : List α) (h : b ≠ []) : (a ++ b).getLast? = b.getLast? := by
  induction a with
  | nil => rfl
  | cons x a ih => rw [List.cons_append, List.getLast?_cons_of_ne_nil (by simp [h]), ih]

theorem cacheLookUp_blockConnected (c : Cache) (b : Hdr) : cacheLookUp (cacheBlockConnected c b) b.hash = some b := by
  have hk : cacheKeeps b (cacheCutoff b) = true := by simp [cacheKeeps, cacheCutoff]
  simp [cacheLookUp, cacheBlockConnected, cacheInsert, List.filter_cons, hk, List.find?_cons]

theorem connectBlocks_no_notifs (s : Source) : ∀ (bs : List Hdr) (tip : Hdr) (c : Cache) (req : Nat),
    (connectBlocks s bs tip c req).notifs = [] → (connectBlocks s bs tip c req).cache = c := by
  intro bs
  cases bs with
  | nil => intro tip c req _; rfl
  | cons b rest =>
    intro tip c req h
    unfold connectBlocks at h ⊢
    split
    · rfl
    · rename_i hg; simp [hg] at h

/-- the block of the LAST `block_connected` a connect run delivered is in the cache afterwards, under its own hash
    and with the height the listener was told -/
theorem connectBlocks_last_cached (s : Source) : ∀ (bs : List Hdr) (tip : Hdr) (c : Cache) (req : Nat) (h ht : Nat),
    (connectBlocks s bs tip c req).notifs.getLast? = some (.connected h ht) →
    ∃ b, cacheLookUp (connectBlocks s bs tip c req).cache h = some b ∧ b.hash = h ∧ b.height = ht := by
  intro bs
  induction bs with
  | nil => intro tip c req h ht e; simp [connectBlocks] at e
  | cons b rest ih =>
    intro tip c req h ht e
    unfold connectBlocks at e ⊢
    split at e
    · simp at e
    · rename_i hg
      simp only [hg] at ⊢
      simp only at e ⊢
      by_cases hn : (connectBlocks s rest b (cacheBlockConnected c b) (req + 1)).notifs = []
      · rw [hn] at e
        simp at e
        obtain ⟨e1, e2⟩ := e
        subst e1 e2
        rw [connectBlocks_no_notifs s rest b _ _ hn]
        exact ⟨b, cacheLookUp_blockConnected c b, rfl, rfl⟩
      · rw [List.getLast?_cons_of_ne_nil hn] at e
        exact ih b _ _ h ht e

/-! ### start-up sync under ANY outcome (Ok or Err at any request) -/

theorem forall2_map_const {α β γ : Type} {R : α → β → Prop} (c : β) : ∀ (l1 : List α) (l2 : List γ),
    l1.length = l2.length → (∀ a ∈ l1, R a c) → Forall2 R l1 (l2.map (fun _ => c)) := by
  intro l1
  induction l1 with
  | nil => intro l2 hlen _; cases l2 with
    | nil => exact Forall2.nil
    | cons _ _ => simp at hlen
  | cons a l1 ih => intro l2 hlen h; cases l2 with
    | nil => simp at hlen
    | cons b l2 =>
      simp only [List.map_cons]
      exact Forall2.cons (h a List.mem_cons_self) (ih l2 (by simpa using hlen) (fun x hx => h x (List.mem_cons_of_mem _ hx)))

/-- whatever happens in the first loop (also when a later listener's `?` returns `Err`), what each listener was told
    so far is a valid rewind of its own chain -/
theorem phase1_notifs_valid {s : Source} (hw : wfTree s.tree = true) {best : Hdr} (hb : InTree s.tree best) :
    ∀ (pairs : List (Hdr × Locator)) (c : Cache) (req : Nat) (most : List Hdr),
      (∀ p ∈ pairs, LocatorOk s.tree p.2 p.1) → CacheOk s.tree c →
      Forall2 (fun bl p => ∃ x, applyNotifs s.tree (anc s.tree bl.1) p.2 = some (anc s.tree x)) pairs
        (phase1 s best (pairs.map (·.2)) c req most).per := by
  intro pairs
  induction pairs with
  | nil => intro c req most _ _; simp only [List.map_nil, phase1]; exact Forall2.nil
  | cons bl pairs ih =>
    intro c req most hl hc
    rcases bl with ⟨b, l⟩
    obtain ⟨hbt, hlh, hcands⟩ := hl (b, l) List.mem_cons_self
    simp only [List.map_cons]
    unfold phase1
    simp only [initListenerStep_eq, foldl_blocksDisconnected_retain]
    split
    · simp only
      exact forall2_map_const _ _ _ (by simp) (fun a _ => ⟨a.1, by simp [applyNotifs]⟩)
    · rename_i d c1 req1 hfd
      simp only
      unfold findDiffFromBestBlock at hfd
      split at hfd
      · cases hfd
      · rename_i found c1' req0 hres
        split at hfd
        · cases hfd
        · rename_i d' req2 hdiff
          cases hfd
          obtain ⟨hfa, hft, hc1⟩ := resolveLocator_spec hw l.height l.candidates c req found c1 req0 hc hcands hres
          have hL := findDiff_spec hw hc1 hb hft hdiff
          have hct : InTree s.tree d.common := anc_inTree hw hb hL.onCur
          have hcb : d.common ∈ anc s.tree b := anc_trans hw hbt hfa hL.onPrev
          refine Forall2.cons ?_ (ih c1 req1 _ (fun p hp => hl p (List.mem_cons_of_mem _ hp)) hc1)
          by_cases hh : d.common.hash = l.hash
          · exact ⟨b, by simp [hh, applyNotifs]⟩
          · have hne : d.common ≠ b := by intro e; rw [e] at hh; exact hh hlh.symm
            have : (d.common.hash != l.hash) = true := by simp [bne, hh]
            exact ⟨d.common, by simp only [this, if_true, List.map_cons, List.map_nil, discNotif, disconnectLocator, applyNotifs, apply_disconnected hw hbt hcb hne]⟩

/-- the batched second loop delivers a PREFIX of the ascending list, whether it succeeds or stops at a failed batch -/
theorem phase2_prefix (s : Source) (k : Nat) : ∀ (n : Nat) (asc : List Hdr) (c : Cache) (req : Nat),
    ∃ rest, asc = (phase2 s k n asc c req).2.2.2 ++ rest := by
  intro n
  induction n with
  | zero => intro asc c req; exact ⟨asc, by simp [phase2]⟩
  | succ n ih =>
    intro asc c req
    unfold phase2
    by_cases he : asc.isEmpty = true
    · simp only [he, if_true]; exact ⟨asc, by simp⟩
    · simp only [he, Bool.false_eq_true, if_false]
      cases hf : (fetchAll s (asc.take k) req).1 with
      | false => simp only [Bool.not_false, if_true]; exact ⟨asc, by simp⟩
      | true =>
        simp only [Bool.not_true, Bool.false_eq_true, if_false]
        obtain ⟨rest, hr⟩ := ih (asc.drop k) ((asc.take k).foldl cacheBlockConnected c) (fetchAll s (asc.take k) req).2
        refine ⟨rest, ?_⟩
        rw [List.append_assoc, ← hr, List.take_append_drop]

theorem connectedFor_append (lh : Nat) (a b : List Hdr) :
    connectedFor lh (a ++ b) = connectedFor lh a ++ connectedFor lh b := by
  simp [connectedFor]

/-- a delivered PREFIX of the longest connected list, filtered for one listener, extends that listener's chain from
    its common ancestor block by block (to some block of the best chain) -/
theorem connectedFor_prefix_valid {t : Tree} (hw : wfTree t = true) {best common cm : Hdr} (hb : InTree t best)
    {dconn most pre rest : List Hdr} (h1 : anc t best = dconn ++ anc t common) (h2 : anc t best = most ++ anc t cm)
    (hct : InTree t common) (hlen : dconn.length ≤ most.length) (hpre : most.reverse = pre ++ rest) :
    ∃ x, applyNotifs t (anc t common) (connectedFor common.height pre) = some (anc t x) := by
  have hfull := connectedFor_most hw hb h1 h2 hct hlen
  rw [hpre, connectedFor_append] at hfull
  have htake : connectedFor common.height pre = (dconn.reverse.take (connectedFor common.height pre).length).map connNotif := by
    rw [List.map_take, ← hfull, List.take_left' rfl]
  generalize (connectedFor common.height pre).length = k at htake
  rw [htake]
  have e : anc t best = (dconn.reverse.take k ++ dconn.reverse.drop k).reverse ++ anc t common := by
    rw [List.take_append_drop, List.reverse_reverse]; exact h1
  obtain ⟨e1, e2⟩ := anc_lastOr hw hb (dconn.reverse.take k) (dconn.reverse.drop k) e
  have hin : InTree t (lastOr common (dconn.reverse.take k)) := by
    apply anc_inTree hw hb
    obtain ⟨r, hr⟩ := anc_head t (lastOr common (dconn.reverse.take k))
    rw [e1, hr]; simp
  exact ⟨_, apply_connect_path hw hin (dconn.reverse.take k) common e2⟩

end Ldk.ChainSync
