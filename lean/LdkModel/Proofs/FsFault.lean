/- C19 — helper lemmas for the file-level store model under I/O faults (Model/FsFault.lean). -/
import LdkModel.Proofs.FsStore
import LdkModel.Model.FsFault
namespace Ldk.Fs
open Ldk.Kv Ldk.Persist Ldk.FsConsts

variable {ν : Type}

/-- THE lemma about the translated `lockedWrite`: under the lock an operation is either skipped as stale
    (returns Ok, nothing changes), or its callback failed (returns Err, NOTHING changes — in particular
    the recorded version), or it took effect (returns Ok, version and contents are its own). -/
theorem regF_cases (lw : Nat) (c : Option (Content ν)) (x : Pending ν) (f : Bool) :
    (x.version ≤ lw ∧ regF (lw, c) x f = ((lw, c), true)) ∨
    (lw < x.version ∧ regF (lw, c) x f = ((lw, c), false)) ∨
    (lw < x.version ∧ regF (lw, c) x f = ((x.version, x.result), true)) := by
  unfold regF lockedWrite isStaleVersion
  by_cases h : x.version ≤ lw
  · left; simp [h]
  · right
    have h' : lw < x.version := Nat.lt_of_not_le h
    cases hc : cbFails c x.body f
    · right; simp [h, h']
    · left; simp [h, h']

/-- without a fault `execF` is `exec` on the file system -/
theorem execF_fs_nofault (st : St ν) (x : Pending ν) : (execF st x false).1.fs = (exec st x).fs := by
  simp [execF, exec, cbFails]

/-- without a fault `execF` IS `exec` (file system, tmp counter, lock table) and the call returns Ok: the
    hand-mirrored bookkeeping `finishLocks` of Model/FsStore.lean agrees with the translated `lockedWrite` -/
theorem execF_nofault (st : St ν) (x : Pending ν) : execF st x false = (exec st x, true) := by
  unfold execF exec finishLocks regF lockedWrite cbFails staleNow
  cases h : isStaleVersion x.version (lockOf st x.dest).lastWritten <;> simp [h] <;> cases x.body <;> rfl

theorem execAllF_nofault : ∀ (l : List (Pending ν)) (st : St ν) (acc : List (Pending ν)),
    execAllF (st, acc) (l.map (fun x => (x, false))) = (execAll st l, l.reverse ++ acc)
  | [], _, _ => rfl
  | x :: l, st, acc => by
    show execAllF ((execF st x false).1, if (execF st x false).2 then x :: acc else acc) (l.map (fun x => (x, false))) = _
    rw [execF_nofault]
    simp only [if_true]
    rw [execAllF_nofault l (exec st x) (x :: acc)]
    simp [execAll]

theorem get_failedOps (st : St ν) (x : Pending ν) (p : Key) (hp : isArtifact p.2.2 = false) :
    (applyOps st.fs (failedOps st x)).get p = st.fs.get p := by
  have htmp : p ≠ tmpPath x.dest st.tmpCounter := ne_of_artifact hp (tmp_artifact _ _)
  unfold failedOps
  cases x.body with
  | write v => simp [applyOps_cons, applyOps_nil, FOp.apply, Store.get_del_ne _ htmp, Store.get_put_ne _ _ htmp]
  | remove lz => simp [applyOps_nil]

/-- a body run under a fault changes, among the non-artifact paths, at most its destination — to what the
    register function says -/
theorem get_execF (st : St ν) (x : Pending ν) (f : Bool) (p : Key) (hp : isArtifact p.2.2 = false) :
    (execF st x f).1.fs.get p =
      if p = x.dest then (regF ((lockOf st x.dest).lastWritten, st.fs.get x.dest) x f).1.2 else st.fs.get p := by
  have hfs : (execF st x f).1.fs = applyOps st.fs (if !staleNow st x && cbFails (st.fs.get x.dest) x.body f then failedOps st x else bodyOps st x) := rfl
  have hex : (exec st x).fs = applyOps st.fs (bodyOps st x) := rfl
  have hreg : (regF ((lockOf st x.dest).lastWritten, st.fs.get x.dest) x f).1.2 =
      if !staleNow st x && !cbFails (st.fs.get x.dest) x.body f then x.result else st.fs.get x.dest := rfl
  rw [hfs, hreg]
  cases hs : staleNow st x <;> cases hc : cbFails (st.fs.get x.dest) x.body f
  · -- applied
    simp only [Bool.not_false, Bool.and_false, Bool.false_eq_true, if_false, Bool.and_self, if_true]
    rw [← hex, get_exec st x p hp, hs]; simp
  · -- failed
    simp only [Bool.not_false, Bool.and_self, if_true, Bool.not_true, Bool.and_false, Bool.false_eq_true, if_false]
    rw [get_failedOps st x p hp]
    by_cases hpd : p = x.dest
    · simp [hpd]
    · simp [hpd]
  · -- stale
    simp only [Bool.not_true, Bool.false_and, Bool.false_eq_true, if_false]
    rw [← hex, get_exec st x p hp, hs]
    by_cases hpd : p = x.dest
    · simp [hpd]
    · simp [hpd]
  · simp only [Bool.not_true, Bool.false_and, Bool.false_eq_true, if_false]
    rw [← hex, get_exec st x p hp, hs]
    by_cases hpd : p = x.dest
    · simp [hpd]
    · simp [hpd]

theorem lockOf_execF_ne (st : St ν) (x : Pending ν) (f : Bool) {d : Key} (h : d ≠ x.dest) :
    lockOf (execF st x f).1 d = lockOf st d := by
  unfold lockOf execF
  simp only
  split
  · rw [Store.get_del_ne _ h]
  · rw [Store.get_put_ne _ _ h]

theorem lockOf_execF_same (st : St ν) (x : Pending ν) (f : Bool) :
    lockOf (execF st x f).1 x.dest =
      if (lockOf st x.dest).refs ≤ 1 then ⟨0, 0⟩
      else ⟨(regF ((lockOf st x.dest).lastWritten, st.fs.get x.dest) x f).1.1, (lockOf st x.dest).refs - 1⟩ := by
  unfold execF
  simp only
  by_cases h : (lockOf st x.dest).refs ≤ 1
  · simp only [h, if_true]; unfold lockOf; simp [Store.get_del_same]
  · simp only [h, if_false]; unfold lockOf; simp [Store.get_put_same]

/-- one step of `execAllF` -/
def stepF (a : St ν × List (Pending ν)) (e : Pending ν × Bool) : St ν × List (Pending ν) :=
  let r := execF a.1 e.1 e.2; (r.1, if r.2 then e.1 :: a.2 else a.2)

theorem execAllF_cons (a : St ν × List (Pending ν)) (e : Pending ν × Bool) (l : List (Pending ν × Bool)) :
    execAllF a (e :: l) = execAllF (stepF a e) l := rfl

/-- the invariant of a run under faults, for one destination `d` whose contents were `c0` and whose lock
    entry was fresh at the start: `a.2` = the operations that returned Ok so far. Either none of them is
    on `d`, the contents are still `c0` and no version is recorded; or the one with the greatest version
    among them (`m`: the LAST ISSUED one) is what the destination holds and what the lock records. -/
def OkInv (d : Key) (c0 : Option (Content ν)) (rest : List (Pending ν)) (a : St ν × List (Pending ν)) : Prop :=
  ((∀ y ∈ a.2, y.dest ≠ d) ∧ a.1.fs.get d = c0 ∧ (onDest d rest ≠ [] → (lockOf a.1 d).lastWritten = 0)) ∨
  (∃ m ∈ a.2, m.dest = d ∧ (∀ y ∈ a.2, y.dest = d → y.version ≤ m.version) ∧ a.1.fs.get d = m.result ∧
    (onDest d rest ≠ [] → (lockOf a.1 d).lastWritten = m.version))

theorem locksOk_stepF (a : St ν × List (Pending ν)) (x : Pending ν) (f : Bool) (rest : List (Pending ν))
    (hl : LocksOk a.1 (x :: rest)) : LocksOk (stepF a (x, f)).1 rest := by
  intro d'
  show (lockOf (execF a.1 x f).1 d').refs = _
  by_cases h : d' = x.dest
  · have h0 := hl x.dest
    rw [onDest_cons_same] at h0
    simp only [List.length_cons] at h0
    rw [h, lockOf_execF_same]
    by_cases h1 : (lockOf a.1 x.dest).refs ≤ 1
    · simp only [h1, if_true]; omega
    · simp only [h1, if_false]; omega
  · rw [lockOf_execF_ne a.1 x f h, hl d', onDest_cons_ne h]

theorem okInv_step (d : Key) (hd : isArtifact d.2.2 = false) (c0 : Option (Content ν)) (x : Pending ν) (f : Bool)
    (rest : List (Pending ν)) (a : St ν × List (Pending ν)) (hl : LocksOk a.1 (x :: rest)) (hv : 0 < x.version)
    (h : OkInv d c0 (x :: rest) a) : OkInv d c0 rest (stepF a (x, f)) := by
  have hfs : (stepF a (x, f)).1 = (execF a.1 x f).1 := rfl
  have hoks : (stepF a (x, f)).2 = if (execF a.1 x f).2 then x :: a.2 else a.2 := rfl
  by_cases hxd : d = x.dest
  · subst hxd
    have hne : onDest x.dest (x :: rest) ≠ [] := by rw [onDest_cons_same]; simp
    have hrefs := hl x.dest
    rw [onDest_cons_same] at hrefs
    simp only [List.length_cons] at hrefs
    have hok : (execF a.1 x f).2 = (regF ((lockOf a.1 x.dest).lastWritten, a.1.fs.get x.dest) x f).2 := rfl
    have hget := get_execF a.1 x f x.dest hd
    simp only [if_true] at hget
    have hlock : onDest x.dest rest ≠ [] →
        (lockOf (execF a.1 x f).1 x.dest).lastWritten = (regF ((lockOf a.1 x.dest).lastWritten, a.1.fs.get x.dest) x f).1.1 := by
      intro hr
      have : 0 < (onDest x.dest rest).length := by
        cases hrr : onDest x.dest rest with
        | nil => exact absurd hrr hr
        | cons _ _ => simp
      rw [lockOf_execF_same]
      have h1 : ¬ (lockOf a.1 x.dest).refs ≤ 1 := by omega
      simp only [h1, if_false]
    unfold OkInv
    rw [hfs, hoks, hok, hget]
    rcases regF_cases (lockOf a.1 x.dest).lastWritten (a.1.fs.get x.dest) x f with ⟨hst, hr⟩ | ⟨hst, hr⟩ | ⟨hst, hr⟩
    · -- stale: returns Ok, x joins the Ok list, the maximum stays
      rcases h with ⟨_, _, h3⟩ | ⟨m, hm, hmd, hmax, hc, hlw⟩
      · have := h3 hne; omega
      · right
        refine ⟨m, ?_, hmd, ?_, ?_, ?_⟩
        · simp only [hr, if_true]; exact List.mem_cons_of_mem _ hm
        · intro y hy hyd
          simp only [hr, if_true] at hy
          rcases List.mem_cons.mp hy with rfl | hy
          · have := hlw hne; omega
          · exact hmax y hy hyd
        · simp only [hr]; exact hc
        · intro hrn; rw [hlock hrn]; simp only [hr]; exact hlw hne
    · -- failed: returns Err, nothing changes
      rcases h with ⟨h1, h2, h3⟩ | ⟨m, hm, hmd, hmax, hc, hlw⟩
      · left
        refine ⟨?_, ?_, ?_⟩
        · simp only [hr]; exact h1
        · simp only [hr]; exact h2
        · intro hrn; rw [hlock hrn]; simp only [hr]; exact h3 hne
      · right
        refine ⟨m, ?_, hmd, ?_, ?_, ?_⟩
        · simp only [hr]; exact hm
        · simp only [hr]; exact hmax
        · simp only [hr]; exact hc
        · intro hrn; rw [hlock hrn]; simp only [hr]; exact hlw hne
    · -- applied: x is the new maximum
      right
      refine ⟨x, ?_, rfl, ?_, ?_, ?_⟩
      · simp only [hr, if_true]; exact List.mem_cons_self ..
      · intro y hy hyd
        simp only [hr, if_true] at hy
        rcases List.mem_cons.mp hy with rfl | hy
        · exact Nat.le_refl _
        · rcases h with ⟨h1, _, _⟩ | ⟨m, hm, hmd, hmax, hc, hlw⟩
          · exact absurd hyd (h1 y hy)
          · have := hmax y hy hyd; have := hlw hne; omega
      · simp only [hr]
      · intro hrn; rw [hlock hrn]; simp only [hr]
  · -- an operation on another destination
    have hgetd : (execF a.1 x f).1.fs.get d = a.1.fs.get d := by rw [get_execF a.1 x f d hd]; simp [hxd]
    have hlockd : lockOf (execF a.1 x f).1 d = lockOf a.1 d := lockOf_execF_ne a.1 x f hxd
    have hon : onDest d (x :: rest) = onDest d rest := onDest_cons_ne hxd rest
    have hxd' : x.dest ≠ d := fun e => hxd e.symm
    unfold OkInv
    rw [hfs, hoks, hgetd, hlockd]
    unfold OkInv at h
    rw [hon] at h
    rcases h with ⟨h1, h2, h3⟩ | ⟨m, hm, hmd, hmax, hc, hlw⟩
    · left
      refine ⟨?_, h2, h3⟩
      intro y hy
      split at hy
      · rcases List.mem_cons.mp hy with rfl | hy
        · exact hxd'
        · exact h1 y hy
      · exact h1 y hy
    · right
      refine ⟨m, ?_, hmd, ?_, hc, hlw⟩
      · split
        · exact List.mem_cons_of_mem _ hm
        · exact hm
      · intro y hy hyd
        split at hy
        · rcases List.mem_cons.mp hy with rfl | hy
          · exact absurd hyd hxd'
          · exact hmax y hy hyd
        · exact hmax y hy hyd

theorem execAllF_inv (d : Key) (hd : isArtifact d.2.2 = false) (c0 : Option (Content ν)) :
    ∀ (l : List (Pending ν × Bool)) (a : St ν × List (Pending ν)), LocksOk a.1 (l.map (·.1)) →
      (∀ e ∈ l, 0 < e.1.version) → OkInv d c0 (l.map (·.1)) a →
      OkInv d c0 [] (execAllF a l) ∧ (lockOf (execAllF a l).1 d).refs = 0
  | [], a, hl, _, h => ⟨h, by
      have := hl d
      show (lockOf a.1 d).refs = 0
      simpa [onDest] using this⟩
  | (x, f) :: l, a, hl, hv, h => by
    rw [execAllF_cons]
    exact execAllF_inv d hd c0 l (stepF a (x, f)) (locksOk_stepF a x f _ hl)
      (fun e he => hv e (List.mem_cons_of_mem _ he))
      (okInv_step d hd c0 x f _ a hl (hv (x, f) (List.mem_cons_self ..)) h)

/-- the operations that returned Ok are among the executed ones -/
theorem execAllF_oks_sub : ∀ (l : List (Pending ν × Bool)) (a : St ν × List (Pending ν)),
    ∀ y ∈ (execAllF a l).2, y ∈ a.2 ∨ y ∈ l.map (·.1)
  | [], _, y, hy => Or.inl hy
  | (x, f) :: l, a, y, hy => by
    rw [execAllF_cons] at hy
    rcases execAllF_oks_sub l _ y hy with h | h
    · have : (stepF a (x, f)).2 = if (execF a.1 x f).2 then x :: a.2 else a.2 := rfl
      rw [this] at h
      split at h
      · rcases List.mem_cons.mp h with rfl | h
        · right; simp
        · left; exact h
      · left; exact h
    · right; simp only [List.map_cons, List.mem_cons]; right; exact h

end Ldk.Fs
