/- More lemmas about Model/PeerWrite.lean: what was encrypted is what was queued (`SInv`), the limits
   never touch `enqueue`, the read-pause flag of one loop iteration. -/
import LdkModel.Proofs.PeerWrite
namespace Ldk.PeerWrite
open Ldk.Noise Ldk.Framing Ldk.PeerWriteGen

variable (c : Crypto)

theorem sendAll_snoc (ms : List Bytes) : ∀ (s : Sender) (m : Bytes),
    sendAll c s (ms ++ [m])
      = ((sendAll c s ms).1 ++ (frame c (sendAll c s ms).2 m).1, (frame c (sendAll c s ms).2 m).2) := by
  induction ms with
  | nil => intro s m; simp [sendAll]
  | cons x xs ih =>
    intro s m
    have e : ∀ l, sendAll c s (x :: l)
        = ((frame c s x).1 ++ (sendAll c (frame c s x).2 l).1, (sendAll c (frame c s x).2 l).2) := fun _ => rfl
    rw [List.cons_append, e, ih, e]
    simp [List.append_assoc]

/-- every queued buffer is the encryption, in order and under the evolving sender state, of the
    plaintexts: `sendAll s0 plains = (queued bytes, current sender)` -/
def SInv (s0 : Sender) (p : WPeer) : Prop :=
  sendAll c s0 p.plains.reverse = (p.pushed.reverse.flatten, p.snd)

theorem sinv_fresh (s : Sender) : SInv c s (WPeer.fresh s) := by
  simp [SInv, WPeer.fresh, sendAll]

theorem sinv_frame (s0 : Sender) (p q : WPeer) (m : Bytes) (h : SInv c s0 p)
    (hp : q.plains = m :: p.plains) (hq : q.pushed = (frame c p.snd m).1 :: p.pushed)
    (hs : q.snd = (frame c p.snd m).2) : SInv c s0 q := by
  unfold SInv at h ⊢
  rw [hp, hq, hs, List.reverse_cons, sendAll_snoc, h]
  simp

theorem sinv_enqueue (s0 : Sender) (p : WPeer) (m : Bytes) (h : SInv c s0 p) : SInv c s0 (enqueue c p m).1 := by
  by_cases hl : m.length > Ldk.LN_MAX_MSG_LEN
  · have e : enqueue c p m = ({ p with msgs := p.msgs + ENQUEUE_COUNT }, false) := by
      simp [enqueue, send, hl]
    rw [e]; exact h
  · have e : enqueue c p m
        = (pushBuf { p with msgs := p.msgs + ENQUEUE_COUNT, snd := (frame c p.snd m).2, plains := m :: p.plains }
             (frame c p.snd m).1, true) := by
      simp [enqueue, send, hl]
    rw [e]; exact sinv_frame c s0 p _ m h rfl rfl rfl

theorem sinv_enqueueAll (s0 : Sender) (ms : List Bytes) : ∀ (p : WPeer), SInv c s0 p → SInv c s0 (enqueueAll c p ms) := by
  induction ms with
  | nil => intro p h; exact h
  | cons m ms ih => intro p h; exact ih _ (sinv_enqueue c s0 p m h)

theorem sinv_refill (s0 : Sender) (p : WPeer) (src : Src) (h : SInv c s0 p) : SInv c s0 (refill c p src).1 := by
  have h1 : SInv c s0 (refillOnion c p src).1 := by
    unfold refillOnion; split
    · split
      · exact sinv_enqueue c s0 p _ h
      · exact h
    · exact h
  have h2 : SInv c s0 (refillGossip c (refillOnion c p src).1) := by
    unfold refillGossip; split
    · split
      · exact sinv_frame c s0 _ _ _ h1 rfl rfl rfl
      · exact h1
    · exact h1
  have h3 : SInv c s0 (refillBackfill c (refillGossip c (refillOnion c p src).1) (refillOnion c p src).2).1 := by
    unfold refillBackfill; split
    · split
      · exact sinv_enqueueAll c s0 _ _ h2
      · exact h2
    · exact h2
  unfold refill
  simp only
  split
  · unfold maybeSendExtraPing; split
    · exact sinv_enqueue c s0 _ _ h3
    · exact h3
  · exact h3

theorem sinv_writeOnce (s0 : Sender) (sched : Nat → Option Nat) (p : WPeer) (sr force : Bool) (h : SInv c s0 p) :
    SInv c s0 (writeOnce sched p sr force).1 := by
  unfold writeOnce
  split
  · cases force <;> exact h
  · simp only; split <;> exact h

theorem sinv_writeLoop (s0 : Sender) (sched : Nat → Option Nat) (bl : Bool) :
    ∀ (fuel : Nat) (p : WPeer) (src : Src) (force : Bool), SInv c s0 p →
      SInv c s0 (writeLoop c sched bl fuel p src force).1 := by
  intro fuel
  induction fuel with
  | zero => intro p src force h; exact h
  | succ n ih =>
    intro p src force h
    have hi : SInv c s0 (iter c sched bl p src force).1 := by
      unfold iter
      apply sinv_writeOnce
      have := sinv_refill c s0 p src h
      cases bl <;> exact this
    unfold writeLoop
    split
    · simp only
      split
      · exact ih _ _ _ hi
      · exact hi
    · exact h

theorem sinv_attemptWrite (s0 : Sender) (sched : Nat → Option Nat) (bl : Bool) (p : WPeer) (src : Src) (force : Bool)
    (h : SInv c s0 p) : SInv c s0 (attemptWrite c sched bl p src force).1 := by
  unfold attemptWrite
  apply sinv_writeLoop
  cases bl <;> exact h

theorem sinv_tickCore (s0 : Sender) (sched : Nat → Option Nat) (bl : Bool) (p : WPeer) (src : Src) (n : Nat)
    (flush : Bool) (h : SInv c s0 p) (r : WPeer × Src) (hr : tickCore c sched bl p src n flush = some r) :
    SInv c s0 r.1 := by
  unfold tickCore at hr
  split at hr
  · simp only [Option.some.injEq] at hr; subst hr; exact sinv_attemptWrite c s0 sched bl _ _ _ h
  · split at hr
    · cases hr
    · split at hr
      · simp only [Option.some.injEq] at hr; subst hr; exact sinv_attemptWrite c s0 sched bl _ _ _ h
      · simp only [Option.some.injEq] at hr; subst hr
        exact sinv_attemptWrite c s0 sched bl _ _ _ (sinv_enqueue c s0 _ _ h)

theorem sinv_step (s0 : Sender) (sched : Nat → Option Nat) (k : Conn) (op : Op) (h : SInv c s0 k.p) :
    SInv c s0 (step c sched k op).p := by
  unfold step
  split
  · exact h
  · cases op with
    | events msgs flush src =>
      simp only [processEvents]
      apply sinv_attemptWrite
      have := sinv_enqueueAll c s0 msgs k.p h
      cases flush <;> exact this
    | writeAvail src => exact sinv_attemptWrite c s0 sched k.bl _ _ _ h
    | broadcast m al cap =>
      simp only [broadcast]
      split
      · exact h
      · split <;> exact h
    | pong => exact h
    | received => exact h
    | tick n flush src =>
      simp only
      cases ht : timerTick c sched k.bl k.p src n flush with
      | none => exact h
      | some r =>
        simp only
        unfold timerTick at ht
        exact sinv_tickCore c s0 sched k.bl _ src n flush (by cases flush <;> exact h) r ht
    | backlog b => exact h
    | annSeen => exact h

theorem sinv_run (s0 : Sender) (sched : Nat → Option Nat) (ops : List Op) :
    ∀ (k : Conn), SInv c s0 k.p → SInv c s0 (run c sched k ops).p := by
  induction ops with
  | nil => intro k h; exact h
  | cons op ops ih => intro k h; exact ih _ (sinv_step c s0 sched k op h)

/-- `enqueue_message` consults no buffer limit: a message that fits a frame is always queued -/
theorem enqueue_fits (p : WPeer) (m : Bytes) (h : m.length ≤ Ldk.LN_MAX_MSG_LEN) :
    (enqueue c p m).2 = true ∧ (enqueue c p m).1.out = p.out ++ [(frame c p.snd m).1]
      ∧ (enqueue c p m).1.gossip = p.gossip := by
  unfold enqueue send
  simp only [pushBuf]
  rw [if_neg (by omega)]
  simp

/-- the flag a loop iteration leaves in `sent_pause_read` when it called `send_data` -/
theorem writeOnce_pause (sched : Nat → Option Nat) (p : WPeer) (sr force : Bool)
    (h : p.out ≠ [] ∨ force = true) : (writeOnce sched p sr force).1.sentPause = !sr := by
  unfold writeOnce
  split
  · rename_i ho
    rcases h with h | h
    · exact absurd ho h
    · subst h; simp [sentPauseAfter]
  · simp only [sentPauseAfter]; split <;> rfl

end Ldk.PeerWrite
