/- C17 — proofs about the asynchronous UTXO lookup layer (Model/GossipAsync.lean).
   Main result `run_ok`: along ANY interleaving of deliveries, asynchronous lookups, resolutions and
   check_resolved_futures calls, the graph only ever changes by handing a DELIVERED message, UNCHANGED
   (same verify request, same signer / signature flags; an announcement with the lookup answer filled in),
   to the signature-verifying graph handler `Impl.applyMsg`. It needs `Gen.replayFullUpdVerifies = true`
   (generated from utxo.rs::resolve_single_future): with a replay that skips the signature check the proof
   of `replayUpd_eq` — and everything after it — fails. -/
import LdkModel.Model.GossipAsync
import LdkModel.Proofs.Gossip
import LdkModel.Proofs.GossipRefine
namespace Ldk.Gossip
namespace Async

/-! ### what the generated flags must say -/

theorem gen_replayFullUpdVerifies : Gen.replayFullUpdVerifies = true := by decide
theorem gen_replayFullUpdStores : Gen.replayFullUpdStores = true := by decide
theorem gen_updateChannelVerifies : Gen.updateChannelVerifies = true := by decide
/-- which entry points verify BEFORE parking: announcements and node announcements do, channel updates do NOT
    (the channel — hence the key — is unknown while the lookup is pending) -/
theorem gen_verify_before_parking :
    Gen.parkChanAnnAfterSigCheck = true ∧ Gen.holdNodeAnnAfterSigCheck = true ∧ Gen.holdUpdAfterSigCheck = false := by decide
theorem gen_holdUpdIsA_bits : Gen.holdUpdIsA 0 = false ∧ Gen.holdUpdIsA 1 = true ∧ Gen.holdUpdIsA 2 = false ∧
    Gen.holdUpdIsA 3 = true := by decide
theorem gen_holdUpdIsA (u : ChanUpd) : Gen.holdUpdIsA u.channelFlags = u.dir := by
  rw [channelFlags_cases]; cases u.dir <;> cases u.disabled <;> simp [gen_holdUpdIsA_bits]
theorem gen_holdUpdReplaces (o : Option Nat) (ts : Nat) :
    Gen.holdUpdReplaces o ts = (match o with | none => true | some t => decide (t < ts)) := by
  cases o <;> simp [Gen.holdUpdReplaces]
theorem gen_holdNodeIsA (a b : Nat) : Gen.holdNodeIsA a b = decide (a = b) := rfl
theorem gen_holdNodeReplaces (o : Option Nat) (ts : Nat) :
    Gen.holdNodeReplaces o ts = (match o with | none => true | some t => decide (t < ts)) := by
  cases o <;> simp [Gen.holdNodeReplaces]
theorem gen_tooManyChecks (n : Nat) : Gen.tooManyChecks n = decide (n > 32) := rfl

/-- the replay of a parked channel_update goes through the very handler a fresh delivery goes through -/
theorem replayUpd_eq (s : State) (u : ChanUpd) : replayUpd s u = deliverChanUpd s u := by
  simp [replayUpd, gen_replayFullUpdVerifies, gen_replayFullUpdStores]

/-! ### graphs reachable by applying messages of a given set through the verifying handlers -/

/-- `Reach P g g'`: `g'` is obtained from `g` by non-message operations and by applications
    `Impl.applyMsg · m` of messages `m` satisfying `P`; every application that was asked to verify and changed
    the graph had all its signatures valid against the graph at that moment. -/
inductive Reach (P : Msg → Prop) : Graph → Graph → Prop
  | refl (g : Graph) : Reach P g g
  | msg {g g' : Graph} (m : Msg) : Reach P g g' → P m →
      (verifyRequested m = true → (Impl.applyMsg g' m).1 ≠ g' → msgVerified g' m) →
      Reach P g (Impl.applyMsg g' m).1
  | op {g g' : Graph} (o : Op) : Reach P g g' → (∀ m, o ≠ .msg m) → Reach P g (Impl.step g' o).1

theorem Reach.msg' {P : Msg → Prop} {g g' : Graph} (m : Msg) (h : Reach P g g') (hp : P m) :
    Reach P g (Impl.applyMsg g' m).1 := by
  refine Reach.msg m h hp ?_
  intro hv hch
  rw [Impl.applyMsg_eq] at hch
  exact applyMsg_changed_verified g' m hv hch

theorem Reach.mono {P Q : Msg → Prop} (hpq : ∀ m, P m → Q m) {g g' : Graph} (h : Reach P g g') : Reach Q g g' := by
  induction h with
  | refl => exact Reach.refl _
  | msg m _ hp hv ih => exact Reach.msg m ih (hpq m hp) hv
  | op o _ ho ih => exact Reach.op o ih ho

/-- the announcement as `resolve_single_future` replays it: lookup answer and receipt time filled in -/
def reAnswer (a : ChanAnn) (r : Utxo) (now : Nat) : ChanAnn := { a with utxo := r, now := now }

/-- everything parked in `p` satisfies `P` -/
def PendOk (P : Msg → Prop) (p : Pending) : Prop :=
  (∀ r now, P (.chanAnn (reAnswer p.ann r now))) ∧
  (∀ n, p.naA = some n → P (.nodeAnn n)) ∧ (∀ n, p.naB = some n → P (.nodeAnn n)) ∧
  (∀ u, p.cuA = some u → P (.chanUpd u)) ∧ (∀ u, p.cuB = some u → P (.chanUpd u))

def HeldOk (P : Msg → Prop) (s : State) : Prop := ∀ p ∈ s.pend, PendOk P p

theorem holdUpd_ok {P : Msg → Prop} {p : Pending} {u : ChanUpd} (h : PendOk P p) (hu : P (.chanUpd u)) :
    PendOk P (holdUpd p u) := by
  obtain ⟨h1, h2, h3, h4, h5⟩ := h
  unfold holdUpd
  split
  · split
    · refine ⟨h1, h2, h3, ?_, h5⟩
      intro v hv; simp only [Option.some.injEq] at hv; subst hv; exact hu
    · exact ⟨h1, h2, h3, h4, h5⟩
  · split
    · refine ⟨h1, h2, h3, h4, ?_⟩
      intro v hv; simp only [Option.some.injEq] at hv; subst hv; exact hu
    · exact ⟨h1, h2, h3, h4, h5⟩

theorem holdNode_ok {P : Msg → Prop} {p : Pending} {n : NodeAnn} (h : PendOk P p) (hn : P (.nodeAnn n)) :
    PendOk P (holdNode p n) := by
  obtain ⟨h1, h2, h3, h4, h5⟩ := h
  unfold holdNode
  split
  · split
    · refine ⟨h1, ?_, h3, h4, h5⟩
      intro v hv; simp only [Option.some.injEq] at hv; subst hv; exact hn
    · exact ⟨h1, h2, h3, h4, h5⟩
  · split
    · refine ⟨h1, h2, ?_, h4, h5⟩
      intro v hv; simp only [Option.some.injEq] at hv; subst hv; exact hn
    · exact ⟨h1, h2, h3, h4, h5⟩

/-- the two facts carried along a run -/
def Ok (P : Msg → Prop) (g0 : Graph) (s : State) : Prop := HeldOk P s ∧ Reach P g0 s.g

theorem deliverChanAnn_ok {P : Msg → Prop} {g0 : Graph} {s : State} (a : ChanAnn) (hp : P (.chanAnn a))
    (h : Ok P g0 s) : Ok P g0 (deliverChanAnn s a).1 := by
  unfold deliverChanAnn
  split
  · exact h
  · split
    · exact h
    · exact ⟨h.1, Reach.msg' (.chanAnn a) h.2 hp⟩

theorem deliverChanUpd_ok {P : Msg → Prop} {g0 : Graph} {s : State} (u : ChanUpd) (hp : P (.chanUpd u))
    (h : Ok P g0 s) : Ok P g0 (deliverChanUpd s u).1 := by
  unfold deliverChanUpd
  simp only
  split
  · split
    · refine ⟨?_, h.2⟩
      intro q hq
      simp only [List.mem_map] at hq
      obtain ⟨q0, hq0, rfl⟩ := hq
      split
      · exact holdUpd_ok (h.1 q0 hq0) hp
      · exact h.1 q0 hq0
    · exact h
  · exact ⟨h.1, Reach.msg' (.chanUpd u) h.2 hp⟩

theorem deliverNodeAnn_ok {P : Msg → Prop} {g0 : Graph} {s : State} (n : NodeAnn) (hp : P (.nodeAnn n))
    (h : Ok P g0 s) : Ok P g0 (deliverNodeAnn s n).1 := by
  unfold deliverNodeAnn
  simp only
  split
  · refine ⟨?_, h.2⟩
    intro q hq
    simp only [List.mem_map] at hq
    obtain ⟨q0, hq0, rfl⟩ := hq
    split
    · exact holdNode_ok (h.1 q0 hq0) hp
    · exact h.1 q0 hq0
  · exact ⟨h.1, Reach.msg' (.nodeAnn n) h.2 hp⟩

theorem deliver_ok {P : Msg → Prop} {g0 : Graph} {s : State} (m : Msg) (hp : P m) (h : Ok P g0 s) :
    Ok P g0 (deliver s m).1 := by
  cases m with
  | chanAnn a => exact deliverChanAnn_ok a hp h
  | chanUpd u => exact deliverChanUpd_ok u hp h
  | nodeAnn n => exact deliverNodeAnn_ok n hp h

theorem annAsync_ok {P : Msg → Prop} {g0 : Graph} {s : State} (a : ChanAnn) (fid : Nat)
    (hp : ∀ r now, P (.chanAnn (reAnswer a r now))) (h : Ok P g0 s) : Ok P g0 (annAsync s a fid).1 := by
  unfold annAsync
  split
  · exact h
  · split
    · exact h
    · refine ⟨?_, h.2⟩
      intro q hq
      simp only [List.mem_append, List.mem_singleton] at hq
      rcases hq with hq | rfl
      · exact h.1 q hq
      · unfold PendOk
        refine ⟨hp, ?_, ?_, ?_, ?_⟩ <;> intro n hn <;> cases hn

theorem resolve_ok {P : Msg → Prop} {g0 : Graph} {s : State} (fid : Nat) (r : Utxo) (h : Ok P g0 s) :
    Ok P g0 (resolve s fid r) := by
  refine ⟨?_, h.2⟩
  intro q hq
  simp only [resolve, List.mem_map] at hq
  obtain ⟨q0, hq0, rfl⟩ := hq
  split
  · exact h.1 q0 hq0
  · exact h.1 q0 hq0

theorem note_fst (acc : Acc) (r : State × Outcome) (m : Msg) (b : Bool) : (note acc r m b).1 = r.1 := rfl

theorem foldNodes_ok {P : Msg → Prop} {g0 : Graph} (l : List NodeAnn) : ∀ (acc : Acc),
    (∀ n ∈ l, P (.nodeAnn n)) → Ok P g0 acc.1 →
    Ok P g0 (l.foldl (fun ac n => note ac (deliverNodeAnn ac.1 n) (.nodeAnn n) n.verify) acc).1 := by
  induction l with
  | nil => intro acc _ h; exact h
  | cons n t ih =>
    intro acc hl h
    simp only [List.foldl_cons]
    apply ih
    · intro x hx; exact hl x (List.mem_cons_of_mem _ hx)
    · rw [note_fst]; exact deliverNodeAnn_ok n (hl n (List.mem_cons_self ..)) h

theorem foldUpds_ok {P : Msg → Prop} {g0 : Graph} (l : List ChanUpd) : ∀ (acc : Acc),
    (∀ u ∈ l, P (.chanUpd u)) → Ok P g0 acc.1 →
    Ok P g0 (l.foldl (fun ac u => note ac (replayUpd ac.1 u) (.chanUpd u) u.verify) acc).1 := by
  induction l with
  | nil => intro acc _ h; exact h
  | cons u t ih =>
    intro acc hl h
    simp only [List.foldl_cons]
    apply ih
    · intro x hx; exact hl x (List.mem_cons_of_mem _ hx)
    · rw [note_fst, replayUpd_eq]; exact deliverChanUpd_ok u (hl u (List.mem_cons_self ..)) h

theorem replayOne_ok {P : Msg → Prop} {g0 : Graph} (now : Nat) (acc : Acc) (p : Pending) (hp : PendOk P p)
    (h : Ok P g0 acc.1) : Ok P g0 (replayOne now acc p).1 := by
  obtain ⟨h1, h2, h3, h4, h5⟩ := hp
  unfold replayOne
  split
  · exact h
  · rename_i res _
    simp only
    apply foldUpds_ok
    · intro u hu
      simp only [replayUpds, List.mem_append, Option.mem_toList] at hu
      rcases hu with hu | hu
      · exact h4 u hu
      · exact h5 u hu
    · apply foldNodes_ok
      · intro n hn
        simp only [replayNodes, List.mem_append, Option.mem_toList] at hn
        rcases hn with hn | hn
        · exact h2 n hn
        · exact h3 n hn
      · rw [note_fst]
        exact deliverChanAnn_ok _ (h1 res now) h

theorem foldReplay_ok {P : Msg → Prop} {g0 : Graph} (now : Nat) (l : List Pending) : ∀ (acc : Acc),
    (∀ p ∈ l, PendOk P p) → Ok P g0 acc.1 → Ok P g0 (l.foldl (replayOne now) acc).1 := by
  induction l with
  | nil => intro acc _ h; exact h
  | cons p t ih =>
    intro acc hl h
    simp only [List.foldl_cons]
    apply ih
    · intro x hx; exact hl x (List.mem_cons_of_mem _ hx)
    · exact replayOne_ok now acc p (hl p (List.mem_cons_self ..)) h

theorem process_ok {P : Msg → Prop} {g0 : Graph} {s : State} (now : Nat) (h : Ok P g0 s) :
    Ok P g0 (process s now).1 := by
  unfold process
  simp only
  apply foldReplay_ok
  · intro p hp
    exact h.1 p (List.mem_filter.mp hp).1
  · refine ⟨?_, h.2⟩
    intro p hp
    exact h.1 p (List.mem_filter.mp hp).1

/-! ### whole runs -/

/-- the messages handed to the library by a list of operations (an asynchronous announcement included) -/
def delivered : List AOp → List Msg
  | [] => []
  | .base (.msg m) :: t => m :: delivered t
  | .annAsync a _ :: t => .chanAnn a :: delivered t
  | _ :: t => delivered t

/-- `m` was delivered — as it is, or it is a delivered announcement with a lookup answer filled in -/
def Delivered (D : List Msg) (m : Msg) : Prop :=
  m ∈ D ∨ ∃ a r now, Msg.chanAnn a ∈ D ∧ m = .chanAnn (reAnswer a r now)

theorem Delivered.cons {D : List Msg} {m : Msg} (x : Msg) (h : Delivered D m) : Delivered (x :: D) m := by
  rcases h with h | ⟨a, r, now, ha, rfl⟩
  · exact Or.inl (List.mem_cons_of_mem _ h)
  · exact Or.inr ⟨a, r, now, List.mem_cons_of_mem _ ha, rfl⟩

theorem step_ok {P : Msg → Prop} {g0 : Graph} {s : State} (op : AOp)
    (hm : ∀ m, op = .base (.msg m) → P m)
    (ha : ∀ a fid, op = .annAsync a fid → ∀ r now, P (.chanAnn (reAnswer a r now)))
    (h : Ok P g0 s) : Ok P g0 (step s op).1 := by
  cases op with
  | base o =>
    cases o with
    | msg m => exact deliver_ok m (hm m rfl) h
    | chanPartial a b c d e => exact ⟨h.1, Reach.op _ h.2 (by intro m hm; cases hm)⟩
    | failPermanent a b => exact ⟨h.1, Reach.op (.failPermanent a b) h.2 (by intro m hm; cases hm)⟩
    | nodeFailPermanent a b => exact ⟨h.1, Reach.op (.nodeFailPermanent a b) h.2 (by intro m hm; cases hm)⟩
    | pruneAt a => exact ⟨h.1, Reach.op (.pruneAt a) h.2 (by intro m hm; cases hm)⟩
  | annAsync a fid => exact annAsync_ok a fid (ha a fid rfl) h
  | resolve fid r => exact resolve_ok fid r h
  | process now => exact process_ok now h

theorem run_ok (ops : List AOp) : ∀ (P : Msg → Prop) (g0 : Graph) (s : State),
    (∀ m, Delivered (delivered ops) m → P m) → Ok P g0 s → Ok P g0 (run s ops) := by
  induction ops with
  | nil => intro P g0 s _ h; exact h
  | cons op t ih =>
    intro P g0 s hP h
    have hsub : ∀ m, Delivered (delivered t) m → P m := by
      intro m hm
      apply hP
      cases op with
      | base o =>
        cases o with
        | msg x => exact Delivered.cons x hm
        | chanPartial a b c d e => exact hm
        | failPermanent a b => exact hm
        | nodeFailPermanent a b => exact hm
        | pruneAt a => exact hm
      | annAsync a fid => exact Delivered.cons _ hm
      | resolve fid r => exact hm
      | process now => exact hm
    show Ok P g0 (run (step s op).1 t)
    apply ih P g0 _ hsub
    apply step_ok op _ _ h
    · intro m hm; subst hm; exact hP m (Or.inl (List.mem_cons_self ..))
    · intro a fid hm r now; subst hm
      exact hP _ (Or.inr ⟨a, r, now, List.mem_cons_self .., rfl⟩)

/-! ### no pending lookup: the layer is transparent -/

theorem chanPending_nil (g : Graph) (cs : List (Nat × Nat)) (scid : Nat) : chanPending ⟨g, [], cs⟩ scid = none := by
  unfold chanPending; split <;> simp

theorem annGate_some {g : Graph} {a : ChanAnn} {r : Reject} (h : annGate g a = some r) :
    Impl.applyChanAnn g a = (g, .reject r) := by
  unfold annGate at h
  unfold Impl.applyChanAnn
  split at h
  · rename_i r' hr; simp only [Option.some.injEq] at h; subst h; simp only [hr]
  · rename_i hr
    simp only [hr]
    split at h
    · rename_i hs; simp only [Option.some.injEq] at h; subst h; simp only [hs, if_true]
    · rename_i hs
      split at h
      · rename_i ht; simp only [Option.some.injEq] at h; subst h; simp only [hs, ht, if_true]; rfl
      · cases h

theorem deliver_nopending (g : Graph) (cs : List (Nat × Nat)) (m : Msg) :
    deliver ⟨g, [], cs⟩ m = (⟨(Impl.applyMsg g m).1, [], cs⟩, (Impl.applyMsg g m).2) := by
  cases m with
  | chanAnn a =>
    simp only [deliver, deliverChanAnn, Impl.applyMsg, alreadyChecking, chanPending_nil]
    split
    · rename_i r hr; rw [annGate_some hr]
    · rfl
  | chanUpd u =>
    simp only [deliver, deliverChanUpd, Impl.applyMsg, chanPending_nil]
    split
    · rename_i h
      have h1 := Impl.applyChanUpd_eq g u
      have : (Impl.applyChanUpd g u).1 = g := by
        rw [h1]; rw [h1] at h; exact applyChanUpd_reject h
      rw [this]
    · rfl
  | nodeAnn n =>
    simp only [deliver, deliverNodeAnn, Impl.applyMsg, List.any_nil, Bool.and_false]
    rfl

end Async
end Ldk.Gossip
