/- C17 — rapid gossip sync: a snapshot WITHOUT channel updates (announcements and node reminders only — the early
   return of processing.rs, no pruning) applied twice is the snapshot applied once. -/
import LdkModel.Proofs.GossipRgsNodes
namespace Ldk.Gossip

/-- every channel entry of `g` is still an entry of `G` -/
def Keeps (g G : Graph) : Prop := ∀ s, (g.channels.get s).isSome = true → (G.channels.get s).isSome = true

theorem Keeps.refl (g : Graph) : Keeps g g := fun _ h => h
theorem Keeps.trans {a b c : Graph} (h1 : Keeps a b) (h2 : Keeps b c) : Keeps a c := fun s h => h2 s (h1 s h)
theorem Keeps.of_grows {g G : Graph} (h : Grows g G) : Keeps g G := by
  intro s hs
  cases hc : g.channels.get s with
  | none => rw [hc] at hs; cases hs
  | some c => obtain ⟨c', hc', _⟩ := h s c hc; rw [hc']; rfl

/-- what `add_channel_from_partial_announcement` answers, three cases -/
theorem applyChanPartial_cases (g : Graph) (scid : Nat) (cap : Option Nat) (recv n1 n2 : Nat) :
    (n1 ≥ n2 ∧ applyChanPartial g scid cap recv n1 n2 = (g, .reject .nodeIdsNotSorted)) ∨
    (n1 < n2 ∧ (g.channels.get scid).isSome = true ∧ applyChanPartial g scid cap recv n1 n2 = (g, .reject .alreadyKnown)) ∨
    (n1 < n2 ∧ g.channels.get scid = none ∧ (applyChanPartial g scid cap recv n1 n2).2 = .accept ∧
      ((applyChanPartial g scid cap recv n1 n2).1.channels.get scid).isSome = true) := by
  unfold applyChanPartial
  by_cases h : n1 ≥ n2
  · left; exact ⟨h, by simp [h]⟩
  · right
    have hlt : n1 < n2 := by omega
    simp only [h, if_false]
    unfold addChannelBetweenNodes
    cases hg : g.channels.get scid with
    | some old => left; exact ⟨hlt, rfl, by simp⟩
    | none => right; exact ⟨hlt, rfl, rfl, by simp⟩

namespace Impl

theorem rgsAnns_step_dup (g : Graph) (ts : Nat) (a : RgsAnn) (t : List RgsAnn)
    (he : Gossip.applyChanPartial g a.scid a.cap ts a.n1 a.n2 = (g, .reject .alreadyKnown)) :
    rgsAnns g ts (a :: t) = rgsAnns g ts t := by
  have hdup : (Reject.alreadyKnown.action == "IgnoreDuplicateGossip") = true := by decide
  conv => lhs; unfold rgsAnns
  simp only [applyChanPartial_eq, he, hdup, if_true]

theorem rgsAnns_again (ts : Nat) (l : List RgsAnn) : ∀ (g G : Graph), Keeps (rgsAnns g ts l).1 G →
    rgsAnns G ts l = (G, (rgsAnns g ts l).2) := by
  induction l with
  | nil => intro g G _; rfl
  | cons a t ih =>
    intro g G hk
    have hnot : (Reject.nodeIdsNotSorted.action == "IgnoreDuplicateGossip") = false := by decide
    rcases Gossip.applyChanPartial_cases g a.scid a.cap ts a.n1 a.n2 with ⟨hu, he⟩ | ⟨hs, hex, he⟩ | ⟨hs, hno, hacc, hin⟩
    · -- unsorted: both runs stop here
      rcases Gossip.applyChanPartial_cases G a.scid a.cap ts a.n1 a.n2 with ⟨_, heG⟩ | ⟨hs', _⟩ | ⟨hs', _⟩
      · unfold rgsAnns
        simp only [applyChanPartial_eq, he, heG, hnot, Bool.false_eq_true, if_false]
      · omega
      · omega
    · -- already there in the first run: skipped, and still there
      rw [rgsAnns_step_dup g ts a t he] at hk ⊢
      have hkeep : (G.channels.get a.scid).isSome = true :=
        hk a.scid (Keeps.of_grows (grows_rgsAnns ts t g) a.scid hex)
      rcases Gossip.applyChanPartial_cases G a.scid a.cap ts a.n1 a.n2 with ⟨hu, _⟩ | ⟨_, _, heG⟩ | ⟨_, hno, _⟩
      · omega
      · rw [rgsAnns_step_dup G ts a t heG]; exact ih g G hk
      · rw [hno] at hkeep; cases hkeep
    · -- added by the first run
      have h1 : rgsAnns g ts (a :: t) = rgsAnns (Gossip.applyChanPartial g a.scid a.cap ts a.n1 a.n2).1 ts t := by
        conv => lhs; unfold rgsAnns
        simp only [applyChanPartial_eq, hacc]
      rw [h1] at hk ⊢
      have hkeep : (G.channels.get a.scid).isSome = true :=
        hk a.scid (Keeps.of_grows (grows_rgsAnns ts t _) a.scid hin)
      rcases Gossip.applyChanPartial_cases G a.scid a.cap ts a.n1 a.n2 with ⟨hu, _⟩ | ⟨_, _, heG⟩ | ⟨_, hno, _⟩
      · omega
      · rw [rgsAnns_step_dup G ts a t heG]; exact ih _ G hk
      · rw [hno] at hkeep; cases hkeep

end Impl

/-- the node is unknown, or its stored announcement is at least as new as `T` -/
def Settled (T : Nat) (g : Graph) (id : Nat) : Prop :=
  g.nodes.get id = none ∨ ∃ ni a, g.nodes.get id = some ni ∧ ni.ann = some a ∧ T ≤ a.lastUpdate

theorem updN_settled (ni : NodeInfo) (n : NodeAnn) (hv : n.verify = false) :
    ∃ a, (updN ni n).ann = some a ∧ n.ts ≤ a.lastUpdate := by
  unfold updN
  have hs : nodeStaticOk n = true := by simp [nodeStaticOk, hv]
  simp only [hs, Bool.true_and]
  cases ha : ni.ann with
  | none => simp [newerN]
  | some a =>
    by_cases h : a.lastUpdate < n.ts
    · simp [newerN, h]
    · simp only [newerN, h, decide_false, Bool.false_eq_true, if_false]
      exact ⟨a, ha, by omega⟩

/-- after an unsigned node announcement its node is settled for that timestamp -/
theorem settled_after (g : Graph) (n : NodeAnn) (hv : n.verify = false) : Settled n.ts (applyNodeAnn g n).1 n.node := by
  rw [applyNodeAnn_fst]
  unfold Settled
  simp only [SMap.get_set, if_true]
  cases hg : g.nodes.get n.node with
  | none => left; rfl
  | some ni =>
    right
    obtain ⟨a, ha, hle⟩ := updN_settled ni n hv
    exact ⟨_, a, rfl, ha, hle⟩

theorem settled_preserved (T : Nat) (g : Graph) (m : NodeAnn) (id : Nat) (h : Settled T g id) :
    Settled T (applyNodeAnn g m).1 id := by
  rcases h with h | ⟨ni, a, hni, ha, hle⟩
  · left
    rw [applyNodeAnn_fst]
    simp only [SMap.get_set]
    split
    · rename_i e; rw [← e, h]; rfl
    · exact h
  · right
    obtain ⟨ni', hni', hg⟩ := nodeGrows_nodeAnn g m id ni hni
    obtain ⟨a', ha', hr⟩ := hg a ha
    refine ⟨ni', a', hni', ha', ?_⟩
    rcases hr with hr | hr
    · omega
    · rw [hr]; exact hle

/-- an unsigned node announcement for a settled node changes nothing -/
theorem applyNodeAnn_settled (g : Graph) (n : NodeAnn) (hv : n.verify = false) (h : Settled n.ts g n.node) :
    (applyNodeAnn g n).1 = g := by
  rw [applyNodeAnn_fst]
  rcases h with h | ⟨ni, a, hni, ha, hle⟩
  · rw [h]; simp only [Option.map_none]; rw [← h, SMap.set_get_self]
  · have : updN ni n = ni := by
      unfold updN
      have : newerN ni.ann n.ts = false := by rw [ha]; simp only [newerN]; simp; omega
      simp [this]
    rw [hni]; simp only [Option.map_some, this]
    rw [← hni, SMap.set_get_self]

namespace Impl

/-- all announcements of the list are unsigned with timestamp `T` -/
def AllMods (T : Nat) (l : List NodeAnn) : Prop := ∀ n ∈ l, n.ts = T ∧ n.verify = false

theorem fold_preserves_settled (T : Nat) (l : List NodeAnn) : ∀ (g : Graph) (id : Nat), Settled T g id →
    Settled T (l.foldl (fun g n => (Gossip.applyNodeAnn g n).1) g) id := by
  induction l with
  | nil => intro g id h; exact h
  | cons m t ih =>
    intro g id h
    simp only [List.foldl_cons]
    exact ih _ id (settled_preserved T g m id h)

theorem foldMods_settles (T : Nat) (l : List NodeAnn) : ∀ (g : Graph), AllMods T l →
    ∀ n ∈ l, Settled T (l.foldl (fun g n => (Gossip.applyNodeAnn g n).1) g) n.node := by
  induction l with
  | nil => intro g _ n hn; cases hn
  | cons m t ih =>
    intro g hall n hn
    simp only [List.foldl_cons]
    have hm := hall m (List.mem_cons_self ..)
    have hallt : AllMods T t := fun x hx => hall x (List.mem_cons_of_mem _ hx)
    simp only [List.mem_cons] at hn
    rcases hn with rfl | hn
    · apply fold_preserves_settled
      have := settled_after g n hm.2
      rw [hm.1] at this; exact this
    · exact ih _ hallt n hn

theorem foldMods_noop (T : Nat) (l : List NodeAnn) : ∀ (g : Graph), AllMods T l → (∀ n ∈ l, Settled T g n.node) →
    l.foldl (fun g n => (Gossip.applyNodeAnn g n).1) g = g := by
  induction l with
  | nil => intro g _ _; rfl
  | cons m t ih =>
    intro g hall hs
    simp only [List.foldl_cons]
    have hm := hall m (List.mem_cons_self ..)
    have h1 : (Gossip.applyNodeAnn g m).1 = g := by
      apply applyNodeAnn_settled g m hm.2
      rw [hm.1]; exact hs m (List.mem_cons_self ..)
    rw [h1]
    exact ih g (fun x hx => hall x (List.mem_cons_of_mem _ hx)) (fun x hx => hs x (List.mem_cons_of_mem _ hx))

theorem mods_allMods (g0 : Graph) (ts : Nat) (l : List RgsNode) : AllMods ts (l.filterMap (rgsNodeMod g0 ts)) := by
  intro n hn
  simp only [List.mem_filterMap] at hn
  obtain ⟨r, _, hr⟩ := hn
  unfold rgsNodeMod at hr
  split at hr
  · simp only [Option.some.injEq] at hr; subst hr; exact ⟨rfl, rfl⟩
  · cases hr

/-- the nodes that get a synthetic announcement do not depend on the graph the payload is copied from -/
theorem mods_nodes (g0 g0' : Graph) (ts : Nat) (l : List RgsNode) (n' : NodeAnn)
    (h : n' ∈ l.filterMap (rgsNodeMod g0' ts)) : ∃ n ∈ l.filterMap (rgsNodeMod g0 ts), n.node = n'.node := by
  simp only [List.mem_filterMap] at h ⊢
  obtain ⟨r, hr, hm⟩ := h
  unfold rgsNodeMod at hm
  split at hm
  · rename_i hf
    simp only [Option.some.injEq] at hm; subst hm
    have h0 : ∃ x, rgsNodeMod g0 ts r = some x ∧ x.node = r.node := by
      unfold rgsNodeMod; rw [if_pos hf]; exact ⟨_, rfl, rfl⟩
    obtain ⟨x, hx, hxn⟩ := h0
    exact ⟨x, ⟨r, hr, hx⟩, hxn⟩
  · cases hm

theorem foldNodes_impl_eq (l : List NodeAnn) (g : Graph) :
    l.foldl (fun g n => (Impl.applyNodeAnn g n).1) g = l.foldl (fun g n => (Gossip.applyNodeAnn g n).1) g := by
  have : (fun g n => (Impl.applyNodeAnn g n).1) = (fun g n => (Gossip.applyNodeAnn g n).1) := by
    funext g n; rw [applyNodeAnn_eq]
  rw [this]

/-- the staleness refusal of a snapshot -/
def staleB (s : Snapshot) : Bool :=
  match s.now with
  | some t => Gen.rgsSnapshotStale s.latestSeen t
  | none => false

/-- announcements, then node reminders — what a snapshot without updates does -/
def noUpdBody (g : Graph) (s : Snapshot) : Graph × Outcome :=
  match rgsAnns g (Gen.rgsBackdated s.latestSeen) s.anns with
  | (g1, some e) => (g1, .reject e)
  | (g1, none) =>
    ((s.nodes.filterMap (rgsNodeMod g (Gen.rgsBackdated s.latestSeen))).foldl (fun g n => (Impl.applyNodeAnn g n).1) g1, .done)

theorem applySnapshot_noUpd (g : Graph) (s : Snapshot) (hu : s.upds = []) :
    applySnapshot g s = if staleB s then (g, .reject .rgsStale) else noUpdBody g s := by
  unfold applySnapshot staleB noUpdBody
  cases hn : s.now with
  | none =>
    simp only [Bool.false_eq_true, if_false, hu, List.isEmpty_nil, if_true]
    rfl
  | some t =>
    cases hb : Gen.rgsSnapshotStale s.latestSeen t
    · simp only [hb, Bool.false_eq_true, if_false, hu, List.isEmpty_nil, if_true]
      rfl
    · simp only [hb, if_true]

theorem noUpdBody_idem (g : Graph) (s : Snapshot) : noUpdBody (noUpdBody g s).1 s = noUpdBody g s := by
  unfold noUpdBody
  cases hA : rgsAnns g (Gen.rgsBackdated s.latestSeen) s.anns with
  | mk g1 oe =>
    have hagain := fun G hk => rgsAnns_again (Gen.rgsBackdated s.latestSeen) s.anns g G (by rw [hA]; exact hk)
    rw [hA] at hagain
    cases oe with
    | some e =>
      simp only []
      rw [hagain g1 (Keeps.refl _)]
    | none =>
      simp only []
      have hk : Keeps g1 ((s.nodes.filterMap (rgsNodeMod g (Gen.rgsBackdated s.latestSeen))).foldl (fun g n => (Impl.applyNodeAnn g n).1) g1) :=
        Keeps.of_grows (grows_foldNodes _ g1)
      rw [hagain _ hk]
      simp only []
      generalize hg2 : (s.nodes.filterMap (rgsNodeMod g (Gen.rgsBackdated s.latestSeen))).foldl (fun g n => (Impl.applyNodeAnn g n).1) g1 = g2
      have hset : ∀ n ∈ s.nodes.filterMap (rgsNodeMod g (Gen.rgsBackdated s.latestSeen)), Settled (Gen.rgsBackdated s.latestSeen) g2 n.node := by
        intro n hn
        have := foldMods_settles (Gen.rgsBackdated s.latestSeen) _ g1 (mods_allMods g _ s.nodes) n hn
        rw [← foldNodes_impl_eq, hg2] at this
        exact this
      have : (s.nodes.filterMap (rgsNodeMod g2 (Gen.rgsBackdated s.latestSeen))).foldl (fun g n => (Impl.applyNodeAnn g n).1) g2 = g2 := by
        rw [foldNodes_impl_eq]
        apply foldMods_noop (Gen.rgsBackdated s.latestSeen) _ g2 (mods_allMods g2 _ s.nodes)
        intro n' hn'
        obtain ⟨n, hn, he⟩ := mods_nodes g g2 _ s.nodes n' hn'
        rw [← he]; exact hset n hn
      rw [this]

/-- a snapshot without channel updates applied twice = applied once (graph and answer) -/
theorem snapshot_idem_no_updates (g : Graph) (s : Snapshot) (hu : s.upds = []) :
    applySnapshot (applySnapshot g s).1 s = applySnapshot g s := by
  rw [applySnapshot_noUpd _ s hu, applySnapshot_noUpd g s hu]
  cases hs : staleB s
  · simp only [Bool.false_eq_true, if_false]; exact noUpdBody_idem g s
  · simp only [if_true]

end Impl
end Ldk.Gossip
