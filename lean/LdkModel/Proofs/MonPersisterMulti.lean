/- C19 — helper lemmas for the multi-monitor / archive / read-all theorems: recovery as a pure function
   of the store (healthy schedule), and the frame of a persister call on one monitor. -/
import LdkModel.Proofs.MonPersister
namespace Ldk.Kv.Store
variable {ν : Type}

theorem names_del_other (s : Store ν) (k : Key) (p sn : String) (h : ¬ (k.1 = p ∧ k.2.1 = sn)) :
    (s.del k).names p sn = s.names p sn := by
  unfold names del
  rw [List.filter_filter]
  congr 1
  apply List.filter_congr
  intro e _
  by_cases he : e.1.1 = p ∧ e.1.2.1 = sn
  · have : e.1 ≠ k := fun h2 => h (h2 ▸ he)
    simp [he, this]
  · simp [he]

theorem names_put_other (s : Store ν) (k : Key) (v : ν) (p sn : String) (h : ¬ (k.1 = p ∧ k.2.1 = sn)) :
    (s.put k v).names p sn = s.names p sn := by
  have : names ((k, v) :: s.del k) p sn = names (s.del k) p sn := by
    unfold names
    simp [List.filter_cons, h]
  unfold put
  rw [this, names_del_other s k p sn h]

end Ldk.Kv.Store

namespace Ldk.MonP
open Ldk.Kv Ldk.Persist
variable {St Upd : Type}

/-! ### recovery is a pure function of the store when the store is healthy -/

theorem readAllUpd_ok (sc : Sched) (hok : ∀ i, sc.ok i = true) (name : String) :
    ∀ (ids : List Nat) (w : World St Upd), (readAllUpd sc name ids w).2 = ids.map (fun id => w.store.get (updKey name id))
  | [], _ => rfl
  | id :: r, w => by
    unfold readAllUpd
    simp only [List.map_cons]
    rw [readAllUpd_ok sc hok name r]
    simp [kRead, hok]

theorem readWithUpdates_store (cfg : Cfg St Upd) (sc : Sched) (w : World St Upd) (name : String) :
    (readWithUpdates cfg sc w name).1.store = w.store := by
  unfold readWithUpdates
  split
  · rfl
  · simp only
    split
    · rfl
    · split
      · rfl
      · split
        · rfl
        · split
          · rfl
          · rw [readAllUpd_store]; rfl

theorem readWithUpdates_ok (cfg : Cfg St Upd) (sc : Sched) (hok : ∀ i, sc.ok i = true) (w : World St Upd) (name : String) :
    (readWithUpdates cfg sc w name).2 = recover cfg w.store name := by
  unfold readWithUpdates recover recoverPure
  by_cases hn : cfg.nameOk name = true
  · simp only [hn, Bool.not_true, Bool.false_eq_true, if_false]
    have h1 : (kRead sc (kList sc w UPD name).1 (monKey name)).2 = w.store.get (monKey name) := by simp [kRead, kList, hok]
    have h2 : (kList sc w UPD name).2 = some (w.store.names UPD name) := by simp [kList, hok]
    rw [h1, h2]
    cases w.store.get (monKey name) with
    | none => rfl
    | some v =>
      simp only
      cases decodeMon name v with
      | error e => rfl
      | ok m =>
        simp only
        cases idsToLoad (w.store.names UPD name) m.id with
        | none => rfl
        | some ids =>
          simp only
          rw [readAllUpd_ok sc hok]
          rfl
  · simp [hn]

theorem readMonOnly_store (cfg : Cfg St Upd) (sc : Sched) (w : World St Upd) (name : String) :
    (readMonOnly cfg sc w name).1.store = w.store := by
  unfold readMonOnly
  split
  · rfl
  · simp only; split <;> rfl

theorem readAllLoop_ok (cfg : Cfg St Upd) (sc : Sched) (hok : ∀ i, sc.ok i = true) :
    ∀ (names : List String) (w : World St Upd),
      (readAllLoop cfg sc names w).2 = collect (names.map (fun nm => (nm, recover cfg w.store nm))) ∧
      (readAllLoop cfg sc names w).1.store = w.store
  | [], _ => ⟨rfl, rfl⟩
  | nm :: rest, w => by
    obtain ⟨h1, h2⟩ := readAllLoop_ok cfg sc hok rest (readWithUpdates cfg sc w nm).1
    rw [readWithUpdates_store] at h1 h2
    unfold readAllLoop
    simp only [List.map_cons, collect]
    rw [h1, readWithUpdates_ok cfg sc hok]
    exact ⟨rfl, h2⟩

/-! ### frame: a call on monitor `name` touches only `name`'s keys -/

/-- `s'` differs from `s` only on keys owned by `name`; listings of other monitors' update namespaces
    are the very same lists -/
def Frame (name : String) (s s' : PStore St Upd) : Prop :=
  (∀ k, ¬ ownKey name k → s'.get k = s.get k) ∧ (∀ b, b ≠ name → s'.names UPD b = s.names UPD b)

theorem Frame.refl (name : String) (s : PStore St Upd) : Frame name s s := ⟨fun _ _ => rfl, fun _ _ => rfl⟩

theorem Frame.trans {name : String} {s s' s'' : PStore St Upd} (h1 : Frame name s s') (h2 : Frame name s' s'') : Frame name s s'' :=
  ⟨fun k hk => by rw [h2.1 k hk, h1.1 k hk], fun b hb => by rw [h2.2 b hb, h1.2 b hb]⟩

theorem ownKey_ns {name : String} {k : Key} (h : ownKey name k) {b : String} (hb : b ≠ name) : ¬ (k.1 = UPD ∧ k.2.1 = b) := by
  rintro ⟨h1, h2⟩
  rcases h with h | h | h
  · rw [h] at h1; revert h1; simp only [monKey]; decide
  · rw [h] at h1; revert h1; simp only [archKey]; decide
  · exact hb (h2 ▸ h.2)

theorem frame_put {name : String} (s : PStore St Upd) {k : Key} (hk : ownKey name k) (v : PVal St Upd) : Frame name s (s.put k v) :=
  ⟨fun k' hk' => Store.get_put_ne s v (fun h => hk' (h ▸ hk)), fun b hb => Store.names_put_other s k v UPD b (ownKey_ns hk hb)⟩

theorem frame_del {name : String} (s : PStore St Upd) {k : Key} (hk : ownKey name k) : Frame name s (s.del k) :=
  ⟨fun k' hk' => Store.get_del_ne s (fun h => hk' (h ▸ hk)), fun b hb => Store.names_del_other s k UPD b (ownKey_ns hk hb)⟩

theorem frame_kWrite {name : String} (sc : Sched) (w : World St Upd) {k : Key} (hk : ownKey name k) (v : PVal St Upd) :
    Frame name w.store (kWrite sc w k v).1.store := by
  rw [kWrite_store]; split
  · exact frame_put _ hk v
  · exact Frame.refl _ _

theorem frame_kRemove {name : String} (sc : Sched) (w : World St Upd) {k : Key} (hk : ownKey name k) (lz : Bool) :
    Frame name w.store (kRemove sc w k lz).1.store := by
  have : (kRemove sc w k lz).1.store = w.store.del k ∨ (kRemove sc w k lz).1.store = w.store := by
    simp only [kRemove]
    by_cases h : (if lz = true then sc.eff w.n else sc.ok w.n || sc.eff w.n) = true
    · left; simp [h]
    · right; simp [h]
  rcases this with h | h <;> rw [h]
  · exact frame_del _ hk
  · exact Frame.refl _ _

theorem ownKey_mon (name : String) : ownKey name (monKey name) := Or.inl rfl
theorem ownKey_arch (name : String) : ownKey name (archKey name) := Or.inr (Or.inl rfl)
theorem ownKey_upd (name : String) (id : Nat) : ownKey name (updKey name id) := Or.inr (Or.inr ⟨rfl, rfl⟩)

theorem frame_persistNew (cfg : Cfg St Upd) (sc : Sched) (w : World St Upd) (name : String) (m : Mon St) :
    Frame name w.store (persistNew cfg sc w name m).1.store := frame_kWrite sc w (ownKey_mon name) _

theorem frame_foldRemove (sc : Sched) (name : String) (lz : Bool) : ∀ (l : List Nat) (w : World St Upd),
    Frame name w.store (l.foldl (fun w id => (kRemove sc w (updKey name id) lz).1) w).store
  | [], w => Frame.refl _ _
  | id :: r, w => (frame_kRemove sc w (ownKey_upd name id) lz).trans (frame_foldRemove sc name lz r _)

theorem frame_cleanupInRange (sc : Sched) (w : World St Upd) (name : String) (a b : Nat) :
    Frame name w.store (cleanupInRange sc w name a b).store := frame_foldRemove sc name _ _ w

theorem frame_cleanupLoop (sc : Sched) (name : String) (latest : Nat) (lz : Bool) : ∀ (names : List String) (w : World St Upd),
    Frame name w.store (cleanupLoop sc name latest lz names w).1.store
  | [], w => Frame.refl _ _
  | nm :: rest, w => by
    unfold cleanupLoop
    split
    · exact Frame.refl _ _
    · rename_i id _
      split
      · simp only
        split
        · exact (frame_kRemove sc w (ownKey_upd name id) lz).trans (frame_cleanupLoop sc name latest lz rest _)
        · exact frame_kRemove sc w (ownKey_upd name id) lz
      · exact frame_cleanupLoop sc name latest lz rest w

theorem frame_cleanupTo (sc : Sched) (w : World St Upd) (name : String) (latest : Nat) (lz : Bool) :
    Frame name w.store (cleanupTo sc w name latest lz).1.store := by
  unfold cleanupTo
  simp only
  split
  · exact Frame.refl _ _
  · have := frame_cleanupLoop sc name latest lz (St := St) (Upd := Upd)
    rename_i names _
    exact this names (kList sc w UPD name).1

theorem frame_updatePersisted (cfg : Cfg St Upd) (sc : Sched) (w : World St Upd) (name : String)
    (upd : Option (Nat × Upd)) (m : Mon St) : Frame name w.store (updatePersisted cfg sc w name upd m).1.store := by
  unfold updatePersisted
  cases upd with
  | none => exact frame_persistNew cfg sc w name m
  | some x =>
    obtain ⟨uid, u⟩ := x
    simp only
    split
    · exact frame_kWrite sc w (ownKey_upd name uid) _
    · split
      · split
        · exact (frame_persistNew cfg sc w name m).trans (frame_cleanupTo sc _ name _ _)
        · exact (frame_persistNew cfg sc w name m).trans (frame_cleanupInRange sc _ name _ _)
      · exact frame_persistNew cfg sc w name m

theorem archiveRead_store (cfg : Cfg St Upd) (sc : Sched) (w : World St Upd) (name : String) :
    (archiveRead cfg sc w name).1.store = w.store := by
  unfold archiveRead
  split
  · exact readWithUpdates_store cfg sc w name
  · exact readMonOnly_store cfg sc w name

theorem frame_archive (cfg : Cfg St Upd) (sc : Sched) (w : World St Upd) (name : String) :
    Frame name w.store (archive cfg sc w name).store := by
  unfold archive
  simp only
  split
  · rw [archiveRead_store]; exact Frame.refl _ _
  · rename_i m _
    have h1 : Frame name w.store (kWrite sc (archiveRead cfg sc w name).1 (archKey name) (.mon false name m)).1.store := by
      have := frame_kWrite (name := name) sc (archiveRead cfg sc w name).1 (ownKey_arch name) (.mon false name m)
      rw [archiveRead_store] at this; exact this
    split
    · exact h1.trans (frame_kRemove sc _ (ownKey_mon name) _)
    · exact h1

theorem frame_applyCall (cfg : Cfg St Upd) (sc : Sched) (w : World St Upd) (c : String × Call St Upd) :
    Frame c.1 w.store (applyCall cfg sc w c).store := by
  unfold applyCall
  cases c.2 with
  | persistNew m => exact frame_persistNew cfg sc w c.1 m
  | updatePersisted u m => exact frame_updatePersisted cfg sc w c.1 u m
  | archive => exact frame_archive cfg sc w c.1
  | cleanupTo latest lz => exact frame_cleanupTo sc w c.1 latest lz

/-- what monitor `b` owns and recovers is untouched by a frame of another monitor -/
theorem frame_other {name b : String} (hb : b ≠ name) {s s' : PStore St Upd} (h : Frame name s s') (cfg : Cfg St Upd) :
    recover cfg s' b = recover cfg s b ∧ s'.get (monKey b) = s.get (monKey b) ∧ s'.get (archKey b) = s.get (archKey b) ∧
    (∀ id, s'.get (updKey b id) = s.get (updKey b id)) ∧ s'.names UPD b = s.names UPD b := by
  have hm : ¬ ownKey name (monKey b) := by
    rintro (h1 | h1 | h1)
    · simp only [monKey] at h1; injection h1 with _ h2; injection h2 with _ h3; exact hb h3
    · exact archKey_ne_monKey _ _ h1.symm
    · revert h1; simp only [monKey]; intro h1; exact absurd h1.1 (by decide)
  have ha : ¬ ownKey name (archKey b) := by
    rintro (h1 | h1 | h1)
    · exact archKey_ne_monKey _ _ h1
    · simp only [archKey] at h1; injection h1 with _ h2; injection h2 with _ h3; exact hb h3
    · revert h1; simp only [archKey]; intro h1; exact absurd h1.1 (by decide)
  have hu : ∀ id, ¬ ownKey name (updKey b id) := by
    intro id
    rintro (h1 | h1 | h1)
    · exact monKey_ne_updKey _ _ _ h1.symm
    · exact archKey_ne_updKey _ _ _ h1.symm
    · exact hb h1.2
  refine ⟨?_, h.1 _ hm, h.1 _ ha, fun id => h.1 _ (hu id), h.2 b hb⟩
  unfold recover
  rw [h.2 b hb, h.1 _ hm]
  have : (fun id => s'.get (updKey b id)) = (fun id => s.get (updKey b id)) := funext (fun id => h.1 _ (hu id))
  rw [this]

theorem runCalls_append (cfg : Cfg St Upd) (sc : Sched) (w : World St Upd) (a b : List (String × Call St Upd)) :
    runCalls cfg sc w (a ++ b) = runCalls cfg sc (runCalls cfg sc w a) b := by
  simp [runCalls, List.foldl_append]

/-! ### clean-up twice = clean-up once (healthy store) -/

theorem Store_get_none_forall {ν : Type} : ∀ (s : Store ν) (k : Key), s.get k = none → ∀ e ∈ s, e.1 ≠ k
  | [], _, _ => fun _ h => by simp at h
  | (k', v) :: r, k, h => by
    rw [Store.get_cons] at h
    by_cases hk : k' = k
    · simp [hk] at h
    · simp only [hk, if_false] at h
      intro e he
      rcases List.mem_cons.mp he with rfl | he
      · exact hk
      · exact Store_get_none_forall r k h e he

theorem Store_del_absent {ν : Type} (s : Store ν) (k : Key) (h : s.get k = none) : s.del k = s := by
  unfold Store.del
  rw [List.filter_eq_self]
  intro e he
  simpa using Store_get_none_forall s k h e he

theorem Store_get_del_none {ν : Type} (s : Store ν) (k k' : Key) (h : s.get k = none) : (s.del k').get k = none := by
  by_cases hk : k = k'
  · rw [hk]; exact Store.get_del_same _ _
  · rw [Store.get_del_ne _ hk]; exact h

theorem Store_mem_names_del {ν : Type} (s : Store ν) (k : Key) (p sn n : String) (h : n ∈ (s.del k).names p sn) : n ∈ s.names p sn := by
  rw [Store.mem_names_iff] at h ⊢
  by_cases hk : (p, sn, n) = k
  · rw [hk, Store.get_del_same] at h; exact Bool.noConfusion h
  · rwa [Store.get_del_ne _ hk] at h

/-- the store effect of the loop of cleanup_stale_updates_for_monitor_to when every removal lands -/
def delStale (name : String) (latest : Nat) (names : List String) (s : PStore St Upd) : PStore St Upd :=
  names.foldl (fun s nm => match nm.toNat? with
    | some id => if staleFilter id latest then s.del (updKey name id) else s
    | none => s) s

theorem delStale_cons (name : String) (latest : Nat) (nm : String) (r : List String) (s : PStore St Upd) :
    delStale name latest (nm :: r) s = delStale name latest r (match nm.toNat? with
      | some id => if staleFilter id latest then s.del (updKey name id) else s
      | none => s) := rfl

theorem cleanupLoop_healthy (sc : Sched) (hok : ∀ i, sc.ok i = true) (heff : ∀ i, sc.eff i = true) (name : String) (latest : Nat) (lz : Bool) :
    ∀ (names : List String) (w : World St Upd), (∀ nm ∈ names, (nm.toNat?).isSome = true) →
      (cleanupLoop sc name latest lz names w).2 = true ∧
      (cleanupLoop sc name latest lz names w).1.store = delStale name latest names w.store
  | [], _, _ => ⟨rfl, rfl⟩
  | nm :: rest, w, h => by
    have hnm := h nm (List.mem_cons_self ..)
    have hrest : ∀ x ∈ rest, (x.toNat?).isSome = true := fun x hx => h x (List.mem_cons_of_mem _ hx)
    unfold cleanupLoop
    rw [delStale_cons]
    cases hp : nm.toNat? with
    | none => rw [hp] at hnm; exact Bool.noConfusion hnm
    | some id =>
      simp only
      cases hs : staleFilter id latest with
      | false => simp only [Bool.false_eq_true, if_false]; exact cleanupLoop_healthy sc hok heff name latest lz rest w hrest
      | true =>
        have h2 : (kRemove sc w (updKey name id) lz).2 = true := by simp [kRemove, hok]
        have h3 : (kRemove sc w (updKey name id) lz).1.store = w.store.del (updKey name id) := by
          cases lz <;> simp [kRemove, hok, heff]
        simp only [if_true, h2]
        have := cleanupLoop_healthy sc hok heff name latest lz rest (kRemove sc w (updKey name id) lz).1 hrest
        rw [h3] at this
        exact this

theorem cleanupLoop_true_parses (sc : Sched) (name : String) (latest : Nat) (lz : Bool) :
    ∀ (names : List String) (w : World St Upd), (cleanupLoop sc name latest lz names w).2 = true →
      ∀ nm ∈ names, (nm.toNat?).isSome = true
  | [], _, _ => fun _ h => by simp at h
  | nm :: rest, w, h => by
    unfold cleanupLoop at h
    cases hp : nm.toNat? with
    | none => rw [hp] at h; exact Bool.noConfusion h
    | some id =>
      rw [hp] at h
      simp only at h
      intro x hx
      rcases List.mem_cons.mp hx with rfl | hx
      · rw [hp]; rfl
      · split at h
        · split at h
          · exact cleanupLoop_true_parses sc name latest lz rest _ h x hx
          · exact Bool.noConfusion h
        · exact cleanupLoop_true_parses sc name latest lz rest _ h x hx

theorem delStale_get_none (name : String) (latest : Nat) (k : Key) : ∀ (names : List String) (s : PStore St Upd),
    s.get k = none → (delStale name latest names s).get k = none
  | [], _, h => h
  | nm :: r, s, h => by
    rw [delStale_cons]
    apply delStale_get_none name latest k r
    cases nm.toNat? with
    | none => exact h
    | some id => simp only; split
                 · exact Store_get_del_none _ _ _ h
                 · exact h

theorem delStale_removed (name : String) (latest : Nat) : ∀ (names : List String) (s : PStore St Upd) (nm : String) (id : Nat),
    nm ∈ names → nm.toNat? = some id → staleFilter id latest = true → (delStale name latest names s).get (updKey name id) = none
  | [], _, _, _, h, _, _ => by simp at h
  | x :: r, s, nm, id, h, hp, hs => by
    rw [delStale_cons]
    rcases List.mem_cons.mp h with rfl | h
    · apply delStale_get_none
      rw [hp]; simp only [hs, if_true]
      exact Store.get_del_same _ _
    · exact delStale_removed name latest r _ nm id h hp hs

theorem delStale_names_sub (name : String) (latest : Nat) (n : String) : ∀ (names : List String) (s : PStore St Upd),
    n ∈ (delStale name latest names s).names UPD name → n ∈ s.names UPD name
  | [], _, h => h
  | x :: r, s, h => by
    rw [delStale_cons] at h
    have := delStale_names_sub name latest n r _ h
    cases hx : x.toNat? with
    | none => rw [hx] at this; exact this
    | some id =>
      rw [hx] at this
      simp only at this
      split at this
      · exact Store_mem_names_del _ _ _ _ _ this
      · exact this

/-- removing what is already gone changes nothing -/
theorem delStale_fixed (name : String) (latest : Nat) : ∀ (names : List String) (s : PStore St Upd),
    (∀ nm ∈ names, ∀ id, nm.toNat? = some id → staleFilter id latest = true → s.get (updKey name id) = none) →
    delStale name latest names s = s
  | [], _, _ => rfl
  | x :: r, s, h => by
    rw [delStale_cons]
    have hr : ∀ nm ∈ r, ∀ id, nm.toNat? = some id → staleFilter id latest = true → s.get (updKey name id) = none :=
      fun nm hnm => h nm (List.mem_cons_of_mem _ hnm)
    cases hx : x.toNat? with
    | none => exact delStale_fixed name latest r s hr
    | some id =>
      simp only
      cases hs : staleFilter id latest with
      | false => simp only [Bool.false_eq_true, if_false]; exact delStale_fixed name latest r s hr
      | true =>
        simp only [if_true]
        rw [Store_del_absent _ _ (h x (List.mem_cons_self ..) id hx hs)]
        exact delStale_fixed name latest r s hr

/-! ### clean-up of ALL monitors twice = once -/

abbrev MONP := CHANNEL_MONITOR_PERSISTENCE_PRIMARY_NAMESPACE
abbrev MONS := CHANNEL_MONITOR_PERSISTENCE_SECONDARY_NAMESPACE

theorem cleanupTo_eq_loop (sc : Sched) (hok : ∀ i, sc.ok i = true) (w : World St Upd) (name : String) (latest : Nat) (lz : Bool) :
    cleanupTo sc w name latest lz = cleanupLoop sc name latest lz (w.store.names UPD name) (kList sc w UPD name).1 := by
  unfold cleanupTo
  have : (kList sc w UPD name).2 = some (w.store.names UPD name) := by simp [kList, hok]
  simp only [this]

theorem cleanupTo_healthy (sc : Sched) (hok : ∀ i, sc.ok i = true) (heff : ∀ i, sc.eff i = true) (w : World St Upd)
    (name : String) (latest : Nat) (lz : Bool) :
    ((cleanupTo sc w name latest lz).2 = true ↔ ∀ nm ∈ w.store.names UPD name, (nm.toNat?).isSome = true) ∧
    ((cleanupTo sc w name latest lz).2 = true →
      (cleanupTo sc w name latest lz).1.store = delStale name latest (w.store.names UPD name) w.store) := by
  rw [cleanupTo_eq_loop sc hok]
  refine ⟨⟨cleanupLoop_true_parses sc name latest lz _ _, fun h => (cleanupLoop_healthy sc hok heff name latest lz _ _ h).1⟩, ?_⟩
  intro h
  exact (cleanupLoop_healthy sc hok heff name latest lz _ (kList sc w UPD name).1 (cleanupLoop_true_parses sc name latest lz _ _ h)).2

/-- the store only loses entries, and no monitor entry -/
def Shrink (s s' : PStore St Upd) : Prop :=
  (∀ k, s.get k = none → s'.get k = none) ∧ (∀ p sn n, n ∈ s'.names p sn → n ∈ s.names p sn) ∧
  (∀ nm, s'.get (monKey nm) = s.get (monKey nm))

theorem Shrink.refl (s : PStore St Upd) : Shrink s s := ⟨fun _ h => h, fun _ _ _ h => h, fun _ => rfl⟩
theorem Shrink.trans {s s' s'' : PStore St Upd} (h1 : Shrink s s') (h2 : Shrink s' s'') : Shrink s s'' :=
  ⟨fun k h => h2.1 k (h1.1 k h), fun p sn n h => h1.2.1 p sn n (h2.2.1 p sn n h), fun nm => (h2.2.2 nm).trans (h1.2.2 nm)⟩

theorem shrink_delStale (name : String) (latest : Nat) : ∀ (names : List String) (s : PStore St Upd), Shrink s (delStale name latest names s)
  | [], s => Shrink.refl s
  | x :: r, s => by
    rw [delStale_cons]
    refine Shrink.trans ?_ (shrink_delStale name latest r _)
    cases x.toNat? with
    | none => exact Shrink.refl s
    | some id =>
      simp only
      split
      · exact ⟨fun k h => Store_get_del_none _ _ _ h, fun p sn n h => Store_mem_names_del _ _ _ _ _ h,
          fun nm => Store.get_del_ne _ (monKey_ne_updKey nm name id)⟩
      · exact Shrink.refl s

/-- monitor `nm` has nothing left to clean in `s` -/
def Done (cfg : Cfg St Upd) (nm : String) (s : PStore St Upd) : Prop :=
  cfg.nameOk nm = true ∧ ∃ v m, s.get (monKey nm) = some v ∧ decodeMon nm v = .ok m ∧
    (∀ x ∈ s.names UPD nm, (x.toNat?).isSome = true) ∧
    (∀ x ∈ s.names UPD nm, ∀ id, x.toNat? = some id → staleFilter id m.id = true → s.get (updKey nm id) = none)

theorem Done.shrink {cfg : Cfg St Upd} {nm : String} {s s' : PStore St Upd} (h : Done cfg nm s) (hs : Shrink s s') : Done cfg nm s' := by
  obtain ⟨h1, v, m, h2, h3, h4, h5⟩ := h
  refine ⟨h1, v, m, by rw [hs.2.2 nm]; exact h2, h3, fun x hx => h4 x (hs.2.1 _ _ _ hx), ?_⟩
  intro x hx id hp hst
  exact hs.1 _ (h5 x (hs.2.1 _ _ _ hx) id hp hst)

theorem kRead_healthy (sc : Sched) (hok : ∀ i, sc.ok i = true) (w : World St Upd) (k : Key) :
    (kRead sc w k).2 = w.store.get k ∧ (kRead sc w k).1.store = w.store := ⟨by simp [kRead, hok], rfl⟩

/-- first run: every listed monitor ends up `Done` -/
theorem cleanupStaleLoop_done (cfg : Cfg St Upd) (sc : Sched) (hok : ∀ i, sc.ok i = true) (heff : ∀ i, sc.eff i = true) (lz : Bool) :
    ∀ (mons : List String) (w : World St Upd), (cleanupStaleLoop cfg sc lz mons w).2 = true →
      Shrink w.store (cleanupStaleLoop cfg sc lz mons w).1.store ∧ ∀ nm ∈ mons, Done cfg nm (cleanupStaleLoop cfg sc lz mons w).1.store
  | [], w, _ => ⟨Shrink.refl _, fun _ h => by simp at h⟩
  | nm :: rest, w, h => by
    unfold cleanupStaleLoop at h ⊢
    by_cases hn : cfg.nameOk nm = true
    · simp only [hn, Bool.not_true, Bool.false_eq_true, if_false] at h ⊢
      obtain ⟨hr2, hr1⟩ := kRead_healthy sc hok w (monKey nm)
      cases hv : (kRead sc w (monKey nm)).2 with
      | none => rw [hv] at h; exact Bool.noConfusion h
      | some v =>
        rw [hv] at h
        simp only [hv] at h ⊢
        cases hd : decodeMon nm v with
        | error e => rw [hd] at h; exact Bool.noConfusion h
        | ok m =>
          rw [hd] at h
          simp only at h ⊢
          cases hc : (cleanupTo sc (kRead sc w (monKey nm)).1 nm m.id lz).2 with
          | false => rw [hc] at h; exact Bool.noConfusion h
          | true =>
            rw [hc] at h
            simp only [if_true] at h ⊢
            obtain ⟨hA, hB⟩ := cleanupTo_healthy sc hok heff (kRead sc w (monKey nm)).1 nm m.id lz
            have hstore := hB hc
            rw [hr1] at hstore
            have hparse := hA.mp hc
            rw [hr1] at hparse
            obtain ⟨ih1, ih2⟩ := cleanupStaleLoop_done cfg sc hok heff lz rest _ h
            have hsh : Shrink w.store (cleanupTo sc (kRead sc w (monKey nm)).1 nm m.id lz).1.store := by
              rw [hstore]; exact shrink_delStale nm m.id _ _
            have hdone : Done cfg nm (cleanupTo sc (kRead sc w (monKey nm)).1 nm m.id lz).1.store := by
              rw [hstore]
              refine ⟨hn, v, m, ?_, hd, ?_, ?_⟩
              · rw [(shrink_delStale nm m.id _ w.store).2.2 nm, ← hr2, hv]
              · intro x hx; exact hparse x (delStale_names_sub nm m.id x _ _ hx)
              · intro x hx id hp hst
                exact delStale_removed nm m.id _ _ x id (delStale_names_sub nm m.id x _ _ hx) hp hst
            refine ⟨hsh.trans ih1, ?_⟩
            intro nm' hnm'
            rcases List.mem_cons.mp hnm' with rfl | hnm'
            · exact hdone.shrink ih1
            · exact ih2 nm' hnm'
    · simp [hn] at h

/-- second run: nothing to do -/
theorem cleanupStaleLoop_noop (cfg : Cfg St Upd) (sc : Sched) (hok : ∀ i, sc.ok i = true) (heff : ∀ i, sc.eff i = true) (lz : Bool) :
    ∀ (mons : List String) (w : World St Upd), (∀ nm ∈ mons, Done cfg nm w.store) →
      (cleanupStaleLoop cfg sc lz mons w).2 = true ∧ (cleanupStaleLoop cfg sc lz mons w).1.store = w.store
  | [], _, _ => ⟨rfl, rfl⟩
  | nm :: rest, w, h => by
    obtain ⟨hn, v, m, h2, h3, h4, h5⟩ := h nm (List.mem_cons_self ..)
    obtain ⟨hr2, hr1⟩ := kRead_healthy sc hok w (monKey nm)
    obtain ⟨hA, hB⟩ := cleanupTo_healthy sc hok heff (kRead sc w (monKey nm)).1 nm m.id lz
    have hc : (cleanupTo sc (kRead sc w (monKey nm)).1 nm m.id lz).2 = true := hA.mpr (by rw [hr1]; exact h4)
    have hstore : (cleanupTo sc (kRead sc w (monKey nm)).1 nm m.id lz).1.store = w.store := by
      rw [hB hc, hr1]
      exact delStale_fixed nm m.id _ _ h5
    have ih := cleanupStaleLoop_noop cfg sc hok heff lz rest (cleanupTo sc (kRead sc w (monKey nm)).1 nm m.id lz).1
      (fun nm' hnm' => by rw [hstore]; exact h nm' (List.mem_cons_of_mem _ hnm'))
    unfold cleanupStaleLoop
    simp only [hn, Bool.not_true, Bool.false_eq_true, if_false, hr2, h2, h3, hc, if_true]
    rw [hstore] at ih
    exact ih

end Ldk.MonP
