/- Helper lemmas for Props/ChanProto.lean: the joint invariant of the guarded commitment update protocol
   and its preservation by every step.  The parts live in Proofs/Channel/*.lean:
     Abs      the abstract per-HTLC system, its reachable configurations and the `decide`d table facts
     Lists    lookup in id-sorted lists, sorted-list extensionality, `sortH` block lemma
     Guarded  the guards (`evOk`/`stepG`/`runG`), a↔b symmetry, closed forms, the append-only stream
     Nodes    per-id effect of every node operation, id discipline
     Refine   every concrete step is an abstract move on every HTLC id
     Counters commitment_signed / revoke_and_ack counters (unguarded system)
     Views    a commitment_signed in flight is the signer's current signing view; amounts agree
     Agree    HTLC-set agreement at the moment a commitment_signed is processed
     Balance  conservation with "excess", fundedness, balance agreement -/
import LdkModel.Proofs.Channel.Balance
import LdkModel.Proofs.Channel.Counters
namespace Ldk.Chan

structure Inv (s : Sys) : Prop where
  base : Base s
  base' : Base s.swap
  good : GoodA s
  good' : GoodA s.swap
  view : ViewA s
  view' : ViewA s.swap
  amt : Amt s
  amt' : Amt s.swap
  bal : Bal s
  agreed : s.agreed = true

theorem Inv.init (va vb : Nat) : Inv (Sys.init va vb) where
  base := Base.init va vb
  base' := ⟨NodeOK.init vb, by intro h; exact absurd rfl h⟩
  good := GoodA.init va vb
  good' := by intro id; exact good_init
  view := ViewA.init va vb
  view' := by intro c hc; simp [Sys.fullAB, Sys.swap, Sys.init, full, Node.init] at hc
  amt := Amt.init va vb
  amt' := by
    refine ⟨?_, ?_, ?_, ?_⟩
    · intro h hh; cases hh
    · intro id amt h x hx; cases hx
    · intro h hh; cases hh
    · intro id amt h; simp [Sys.fullAB, Sys.swap, Sys.init, full, Node.init] at h
  bal := Bal.init va vb
  agreed := rfl

/-- `b` processes the head of the a→b stream: the commitment agrees -/
theorem agreed_recv_false {s s' : Sys} (inv : Inv s) (h : step s (.recv false) = some s') : s'.agreed = true := by
  obtain ⟨m, rest, n, okb, hq, hm, e⟩ := step_recv_false h
  subst e
  show (s.agreed && okb) = true
  rw [inv.agreed, Bool.true_and]
  cases m with
  | add id amt => exact (onMsg_add hm).2.1
  | fulfill id => exact (onMsg_fulfill hm).2.1
  | fail id => exact (onMsg_fail hm).2.1
  | raa => exact (onMsg_raa hm).2
  | cs c =>
    obtain ⟨_, eok⟩ := onMsg_cs hm
    have hc : c = s.a.buildView false true := by
      apply inv.view
      show Msg.cs c ∈ full s.qab s.pendA s.needRaaA s.a.raaSent s.a.owesRaa
      rw [hq, full_pop]; simp
    rw [eok, hc]
    unfold viewsAgree
    rw [htlcs_agree hq inv.good inv.good' inv.amt inv.amt' inv.base.ok inv.base'.ok,
      balance_agree hq inv.bal inv.good inv.good' inv.amt' inv.base.ok inv.base'.ok]
    simp

theorem Inv.step {s s' : Sys} {e : Ev} (inv : Inv s) (h : stepG s e = some s') : Inv s' := by
  have h' := stepG_swap h
  have hbs : Base s.swap.swap := by simpa using inv.base
  have hgs : GoodA s.swap.swap := by simpa using inv.good
  refine ⟨inv.base.step h, inv.base'.step h', inv.good.step inv.base inv.base' h, inv.good'.step inv.base' hbs h',
    inv.view.step inv.good inv.base h, inv.view'.step inv.good' inv.base' h', inv.amt.step inv.base h,
    inv.amt'.step inv.base' h', inv.bal.step inv.good inv.good' inv.base inv.base' inv.amt inv.amt' h, ?_⟩
  obtain ⟨_, h0⟩ := stepG_some h
  cases e with
  | commit x adds fu fa =>
    cases x
    · obtain ⟨_, n, ms, _, e⟩ := step_commit_false h0; subst e; exact inv.agreed
    · obtain ⟨_, n, ms, _, e⟩ := step_commit_true h0; subst e; exact inv.agreed
  | release x =>
    cases x
    · obtain ⟨_, _, e⟩ := step_release_false h0; subst e; exact inv.agreed
    · obtain ⟨_, _, e⟩ := step_release_true h0; subst e; exact inv.agreed
  | sendRaa x =>
    cases x
    · obtain ⟨_, e⟩ := step_sendRaa_false h0; subst e; exact inv.agreed
    · obtain ⟨_, e⟩ := step_sendRaa_true h0; subst e; exact inv.agreed
  | recv y =>
    cases y
    · exact agreed_recv_false inv h0
    · have inv' : Inv s.swap :=
        ⟨inv.base', hbs, inv.good', hgs, inv.view', by simpa using inv.view, inv.amt', by simpa using inv.amt,
          inv.bal.swap, inv.agreed⟩
      have h0' : Chan.step s.swap (.recv false) = some s'.swap := by
        have := step_swap s (.recv true); rw [h0] at this; exact this
      show s'.swap.agreed = true
      exact agreed_recv_false inv' h0'

theorem Inv.run {va vb : Nat} {evs : List Ev} {s : Sys} (h : runG (Sys.init va vb) evs = some s) : Inv s :=
  runG_induction Inv (fun _ _ _ hi hs => hi.step hs) evs _ _ (Inv.init va vb) h

/-! ### the excess in explicit form -/

/-- amounts of `x`'s outbound HTLCs whose fulfilment is irrevocable on `x`'s side
    (AwaitingRemoteRevokeToRemove(Success) / AwaitingRemovedRemoteRevoke(Success)) and which the peer `y`
    no longer holds, i.e. `y` has already credited them to its `value_to_self` and `x` not yet debited them -/
def excess (x y : Node) : Nat :=
  ((x.outb.filter (fun h => (h.st == .awaitingRemoteRevokeToRemove true || h.st == .awaitingRemovedRemoteRevoke true)
      && !(y.inb.any (fun h' => h'.id == h.id)))).map (·.amt)).sum

theorem stIn_isNone (l : List InHtlc) (id : Nat) : (stIn l id).isNone = !(l.any (fun h' => h'.id == id)) := by
  unfold stIn lookIn
  cases hl : lookup (fun h : InHtlc => h.id) l id with
  | none =>
    have := lookup_none.1 hl
    simp only [Option.map_none, Option.isNone_none]
    symm
    simp only [Bool.not_eq_true', List.any_eq_false, beq_iff_eq]
    exact fun h hh => this h hh
  | some h =>
    obtain ⟨hm, hid⟩ := lookup_some hl
    simp only [Option.map_some, Option.isNone_some]
    symm
    simp only [Bool.not_eq_false', List.any_eq_true, beq_iff_eq]
    exact ⟨h, hm, hid⟩

theorem EA_explicit (s : Sys) (ok : NodeOK s.a) : EA s = excess s.a s.b := by
  unfold EA excess sumBy
  congr 2
  apply List.filter_congr
  intro h hh
  have ho : (cfgA s h.id).o = some h.st := stOut_of_mem ok.sOut hh
  have hi : (cfgA s h.id).i = stIn s.b.inb h.id := rfl
  simp only [exc, ho, hi, stIn_isNone, isTRAR, Option.some_beq_some]
  rw [Bool.and_comm]

end Ldk.Chan
