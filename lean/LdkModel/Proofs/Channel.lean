/- Helper lemmas for Props/ChanProto.lean: the joint invariant of the guarded commitment update protocol
   and its preservation by every step.  The parts live in Proofs/Channel/*.lean:
     Abs      the abstract per-HTLC system, its reachable configurations and the `decide`d table facts
     Lists    lookup in id-sorted lists, sorted-list extensionality, `sortH` block lemma
     Guarded  the guards (`evOk`/`stepG`/`runG`), a↔b symmetry, closed forms, the append-only stream
     Nodes    per-id effect of every node operation, id discipline
     Streams  the full stream under every event (incl. disconnect / reestablish), the invariant `Base`
     Refine   every concrete step is an abstract move on every HTLC id
     Counters commitment_signed / revoke_and_ack counters (unguarded system)
     Views    a commitment_signed in flight is the signer's current signing view; amounts agree
     Agree    HTLC-set agreement at the moment a commitment_signed is processed
     Balance  conservation with "excess", fundedness, balance agreement
     Fee      update_fee: the feerate of a processed commitment_signed is the receiver's -/
import LdkModel.Proofs.Channel.Balance
import LdkModel.Proofs.Channel.Fee
import LdkModel.Proofs.Channel.Counters
namespace Ldk.Chan

structure Inv (s : Sys) : Prop where
  base : Base s
  base' : Base s.swap
  good : GoodA s
  good' : GoodA s.swap
  view : ViewA s
  view' : ViewA s.swap
  amt : Amt s
  amt' : Amt s.swap
  bal : Bal s
  agreed : s.agreed = true
  fee : FeeD s
  fee' : FeeD s.swap
  feeAgreed : s.feeAgreed = true

theorem Inv.init (va vb f0 : Nat) : Inv (Sys.init va vb f0) where
  base := Base.init va vb f0
  base' := ⟨NodeOK.init vb false f0, RaOK.init vb false f0, PausedOK.of_unpaused rfl, rfl, rfl, rfl, fun _ => rfl, Nat.le_refl _,
    (fun h => by cases h), (fun h => absurd rfl h), rfl⟩
  good := GoodA.init va vb f0
  good' := by intro id; exact good_init
  view := ViewA.init va vb f0
  view' := by intro c hc; simp [Sys.fullAB, Sys.swap, Sys.init, full, Node.init] at hc
  amt := Amt.init va vb f0
  amt' := by
    refine ⟨?_, ?_, ?_, ?_⟩
    · intro h hh; cases hh
    · intro id amt h x hx; cases hx
    · intro h hh; cases hh
    · intro id amt h; simp [Sys.fullAB, Sys.swap, Sys.init, full, Node.init] at h
  bal := Bal.init va vb f0
  agreed := rfl
  fee := FeeD.init va vb f0
  fee' := FeeD.init' va vb f0
  feeAgreed := rfl

/-- `b` processes the head of the a→b stream: the commitment agrees -/
theorem agreed_recv_false {s s' : Sys} (inv : Inv s) (h : step s (.recv false) = some s') : s'.agreed = true := by
  obtain ⟨m', rest', hq', _, hf⟩ := fullAB_recv_false inv.base h
  obtain ⟨_, m, rest, n, okb, hq, hm, e⟩ := step_recv_false h
  rw [hq'] at hq
  injection hq with e1 e2
  subst e1; subst e2
  subst e
  show (s.agreed && okb) = true
  rw [inv.agreed, Bool.true_and]
  cases m' with
  | add id amt => exact (onMsg_add hm).2.1
  | fulfill id => exact (onMsg_fulfill hm).2.1
  | fail id => exact (onMsg_fail hm).2.1
  | raa => exact (onMsg_raa hm).2
  | fee f => exact (onMsg_fee hm).2.1
  | cs c =>
    obtain ⟨_, eok⟩ := onMsg_cs hm
    have hc : c = s.a.buildView false true := by
      apply inv.view
      rw [hf]; simp
    rw [eok, hc]
    unfold viewsAgree
    rw [htlcs_agree inv.base hq' inv.good inv.good' inv.amt inv.amt' inv.base.ok inv.base'.ok,
      balance_agree inv.base hq' inv.bal inv.good inv.good' inv.amt' inv.base.ok inv.base'.ok]
    simp

/-- `b` processes the head of the a→b stream: the feerate of a commitment_signed agrees -/
theorem feeAgreed_recv_false {s s' : Sys} (inv : Inv s) (h : step s (.recv false) = some s') : s'.feeAgreed = true := by
  obtain ⟨m', rest', hq', _, hf⟩ := fullAB_recv_false inv.base h
  obtain ⟨_, m, rest, n, okb, hq, hm, e⟩ := step_recv_false h
  rw [hq'] at hq
  injection hq with e1 e2
  subst e1; subst e2
  subst e
  show (s.feeAgreed && s.b.feeOk m') = true
  rw [inv.feeAgreed, Bool.true_and]
  cases m' with
  | cs c =>
    show (c.feerate == s.b.viewFeerate false) = true
    rw [fee_agree_head inv.fee inv.view inv.base inv.base' hf]; simp
  | add _ _ => rfl
  | fulfill _ => rfl
  | fail _ => rfl
  | raa => rfl
  | fee _ => rfl

theorem Inv.swap {s : Sys} (inv : Inv s) : Inv s.swap :=
  ⟨inv.base', by simpa using inv.base, inv.good', by simpa using inv.good, inv.view', by simpa using inv.view,
    inv.amt', by simpa using inv.amt, inv.bal.swap, inv.agreed, inv.fee', by simpa using inv.fee, inv.feeAgreed⟩

theorem Inv.feeAgreed_step {s s' : Sys} {e : Ev} (inv : Inv s) (h : stepG s e = some s') : s'.feeAgreed = true := by
  obtain ⟨_, h0⟩ := stepG_some h
  cases e with
  | commit x adds fu fa =>
    cases x
    · obtain ⟨_, _, n, ms, _, e⟩ := step_commit_false h0; subst e; exact inv.feeAgreed
    · obtain ⟨_, _, n, ms, _, e⟩ := step_commit_true h0; subst e; exact inv.feeAgreed
  | release x =>
    cases x
    · obtain ⟨_, _, _, e⟩ := step_release_false h0; subst e; exact inv.feeAgreed
    · obtain ⟨_, _, _, e⟩ := step_release_true h0; subst e; exact inv.feeAgreed
  | sendRaa x =>
    cases x
    · obtain ⟨_, _, e⟩ := step_sendRaa_false h0; subst e; exact inv.feeAgreed
    · obtain ⟨_, _, e⟩ := step_sendRaa_true h0; subst e; exact inv.feeAgreed
  | recv y =>
    cases y
    · exact feeAgreed_recv_false inv h0
    · have h0' : Chan.step s.swap (.recv false) = some s'.swap := by
        have := step_swap s (.recv true); rw [h0] at this; exact this
      show s'.swap.feeAgreed = true
      exact feeAgreed_recv_false inv.swap h0'
  | disconnect => have e := step_disconnect h0; subst e; exact inv.feeAgreed
  | reest y =>
    cases y
    · obtain ⟨n, p, _, e⟩ := step_reest_false h0; subst e; exact inv.feeAgreed
    · obtain ⟨n, p, _, e⟩ := step_reest_true h0; subst e; exact inv.feeAgreed
  | fee x f =>
    cases x
    · obtain ⟨_, _, _, _, _, e⟩ := step_fee_false h0; subst e; exact inv.feeAgreed
    · obtain ⟨_, _, _, _, _, e⟩ := step_fee_true h0; subst e; exact inv.feeAgreed

theorem Inv.step {s s' : Sys} {e : Ev} (inv : Inv s) (h : stepG s e = some s') : Inv s' := by
  have h' := stepG_swap h
  have hbs : Base s.swap.swap := by simpa using inv.base
  have hgs : GoodA s.swap.swap := by simpa using inv.good
  have hfs : FeeD s.swap.swap := by simpa using inv.fee
  refine ⟨inv.base.step inv.base' h, inv.base'.step hbs h', inv.good.step inv.base inv.base' h, inv.good'.step inv.base' hbs h',
    inv.view.step inv.good inv.base inv.base' h, inv.view'.step inv.good' inv.base' hbs h', inv.amt.step inv.base h,
    inv.amt'.step inv.base' h', inv.bal.step inv.good inv.good' inv.base inv.base' inv.amt inv.amt' h, ?_,
    inv.fee.step inv.fee' inv.base inv.base' inv.good h, inv.fee'.step hfs inv.base' hbs inv.good' h',
    inv.feeAgreed_step h⟩
  obtain ⟨_, h0⟩ := stepG_some h
  cases e with
  | commit x adds fu fa =>
    cases x
    · obtain ⟨_, _, n, ms, _, e⟩ := step_commit_false h0; subst e; exact inv.agreed
    · obtain ⟨_, _, n, ms, _, e⟩ := step_commit_true h0; subst e; exact inv.agreed
  | release x =>
    cases x
    · obtain ⟨_, _, _, e⟩ := step_release_false h0; subst e; exact inv.agreed
    · obtain ⟨_, _, _, e⟩ := step_release_true h0; subst e; exact inv.agreed
  | sendRaa x =>
    cases x
    · obtain ⟨_, _, e⟩ := step_sendRaa_false h0; subst e; exact inv.agreed
    · obtain ⟨_, _, e⟩ := step_sendRaa_true h0; subst e; exact inv.agreed
  | recv y =>
    cases y
    · exact agreed_recv_false inv h0
    · have inv' : Inv s.swap := inv.swap
      have h0' : Chan.step s.swap (.recv false) = some s'.swap := by
        have := step_swap s (.recv true); rw [h0] at this; exact this
      show s'.swap.agreed = true
      exact agreed_recv_false inv' h0'
  | disconnect => have e := step_disconnect h0; subst e; exact inv.agreed
  | reest y =>
    cases y
    · obtain ⟨n, p, _, e⟩ := step_reest_false h0; subst e; exact inv.agreed
    · obtain ⟨n, p, _, e⟩ := step_reest_true h0; subst e; exact inv.agreed
  | fee x f =>
    cases x
    · obtain ⟨_, _, _, _, _, e⟩ := step_fee_false h0; subst e; exact inv.agreed
    · obtain ⟨_, _, _, _, _, e⟩ := step_fee_true h0; subst e; exact inv.agreed

theorem Inv.run {va vb f0 : Nat} {evs : List Ev} {s : Sys} (h : runG (Sys.init va vb f0) evs = some s) : Inv s :=
  runG_induction Inv (fun _ _ _ hi hs => hi.step hs) evs _ _ (Inv.init va vb f0) h

/-! ### the excess in explicit form -/

/-- amounts of `x`'s outbound HTLCs whose fulfilment is irrevocable on `x`'s side
    (AwaitingRemoteRevokeToRemove(Success) / AwaitingRemovedRemoteRevoke(Success)) and which the peer `y`
    no longer holds, i.e. `y` has already credited them to its `value_to_self` and `x` not yet debited them -/
def excess (x y : Node) : Nat :=
  ((x.outb.filter (fun h => (h.st == .awaitingRemoteRevokeToRemove true || h.st == .awaitingRemovedRemoteRevoke true)
      && !(y.inb.any (fun h' => h'.id == h.id)))).map (·.amt)).sum

theorem stIn_isNone (l : List InHtlc) (id : Nat) : (stIn l id).isNone = !(l.any (fun h' => h'.id == id)) := by
  unfold stIn lookIn
  cases hl : lookup (fun h : InHtlc => h.id) l id with
  | none =>
    have := lookup_none.1 hl
    simp only [Option.map_none, Option.isNone_none]
    symm
    simp only [Bool.not_eq_true', List.any_eq_false, beq_iff_eq]
    exact fun h hh => this h hh
  | some h =>
    obtain ⟨hm, hid⟩ := lookup_some hl
    simp only [Option.map_some, Option.isNone_some]
    symm
    simp only [Bool.not_eq_false', List.any_eq_true, beq_iff_eq]
    exact ⟨h, hm, hid⟩

theorem EA_explicit (s : Sys) (ok : NodeOK s.a) : EA s = excess s.a s.b := by
  unfold EA excess sumBy
  congr 2
  apply List.filter_congr
  intro h hh
  have ho : (cfgA s h.id).o = some h.st := stOut_of_mem ok.sOut hh
  have hi : (cfgA s h.id).i = stIn s.b.inb h.id := rfl
  simp only [exc, ho, hi, stIn_isNone, isTRAR, Option.some_beq_some]
  rw [Bool.and_comm]

/-! ### statistics filters, on reachable states -/

theorem raa_tokF {l : List Msg} (id : Nat) (h : (l.filterMap (tokF id)).contains .raa = true) : Msg.raa ∈ l := by
  simp only [List.contains_iff_mem, List.mem_filterMap] at h
  obtain ⟨m, hm, e⟩ := h
  cases m with
  | raa => exact hm
  | add id' amt => simp only [tokF] at e; split at e <;> cases e
  | cs c => cases e
  | fulfill _ => cases e
  | fail _ => cases e
  | fee _ => cases e

theorem rem_tokB {l : List Msg} (id : Nat) (ok : Bool) (h : (l.filterMap (tokB id)).contains (.rem ok) = true) :
    Msg.fulfill id ∈ l ∨ Msg.fail id ∈ l := by
  simp only [List.contains_iff_mem, List.mem_filterMap] at h
  obtain ⟨m, hm, e⟩ := h
  cases m with
  | raa => cases e
  | add id' amt => cases e
  | cs c => cases e
  | fulfill id' =>
    simp only [tokB] at e
    split at e
    · rename_i hid; subst hid; exact Or.inl hm
    · cases e
  | fail id' =>
    simp only [tokB] at e
    split at e
    · rename_i hid; subst hid; exact Or.inr hm
    · cases e
  | fee _ => cases e

/-- HTLCs `a` offered, `a` sizing its next HTLC on `b`'s commitment -/
theorem stats_offered {s : Sys} (hg : GoodA s) (oka : NodeOK s.a) (okb : NodeOK s.b) (ha : Amt s)
    (hraa : Msg.raa ∉ s.fullAB) :
    ∀ y ∈ s.b.inb, ∀ u, y.st.inNextStats true u = true →
      ∃ x ∈ s.a.outb, x.id = y.id ∧ x.amt = y.amt ∧ x.st.inNextStats false true = true := by
  intro y hy u hu
  have f := good_stats_offered _ (hg y.id)
  have hi : (cfgA s y.id).i = some y.st := stIn_of_mem okb.sIn hy
  have hf : (cfgA s y.id).fwd.contains .raa = false := by
    cases hc : (cfgA s y.id).fwd.contains .raa with
    | false => rfl
    | true => exact absurd (raa_tokF y.id hc) hraa
  rw [hf, hi, Bool.false_or] at f
  rw [in_stats_flag y.st true u false] at hu
  simp only [hu, Bool.not_true, Bool.false_or] at f
  cases ho : (cfgA s y.id).o with
  | none => rw [ho] at f; cases f
  | some st =>
    rw [ho] at f
    obtain ⟨x, hx, e1, e2⟩ := mem_of_stOut (show stOut s.a.outb y.id = some st from ho)
    exact ⟨x, hx, e1, ha.a1 x hx y hy e1, by rw [e2]; exact f⟩

/-- HTLCs `b` offered (inbound at `a`), `a` sizing its next HTLC on `b`'s commitment -/
theorem stats_received {s : Sys} (hg' : GoodA s.swap) (oka : NodeOK s.a) (okb : NodeOK s.b) (ha' : Amt s.swap) :
    ∀ y ∈ s.b.outb, Msg.fulfill y.id ∉ s.fullAB → Msg.fail y.id ∉ s.fullAB → y.st.inNextStats true false = true →
      ∀ u, ∃ x ∈ s.a.inb, x.id = y.id ∧ x.amt = y.amt ∧ x.st.inNextStats false u = true := by
  intro y hy h1 h2 hu u
  have f := good_stats_received _ (hg' y.id)
  have ho : (cfgA s.swap y.id).o = some y.st := stOut_of_mem okb.sOut hy
  have hb : ∀ ok, (cfgA s.swap y.id).bwd.contains (.rem ok) = false := by
    intro ok
    cases hc : (cfgA s.swap y.id).bwd.contains (.rem ok) with
    | false => rfl
    | true =>
      rcases rem_tokB (l := s.fullAB) y.id ok hc with h | h
      · exact absurd h h1
      · exact absurd h h2
  rw [hb true, hb false, ho, Bool.false_or, Bool.false_or] at f
  simp only [hu, Bool.not_true, Bool.false_or] at f
  cases hi : (cfgA s.swap y.id).i with
  | none => rw [hi] at f; cases f
  | some st =>
    rw [hi] at f
    obtain ⟨x, hx, e1, e2⟩ := mem_of_stIn (show stIn s.a.inb y.id = some st from hi)
    exact ⟨x, hx, e1, (ha'.a1 y hy x hx e1.symm).symm, by rw [e2, in_stats_flag st false u false]; exact f⟩

end Ldk.Chan
