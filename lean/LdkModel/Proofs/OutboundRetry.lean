/- Helper lemmas for the retry-budget theorems of Props/C03.lean. -/
import LdkModel.Model.OutboundRetry
namespace Ldk.OutboundRetry
open Ldk.OutboundRetryGen

theorem call_strategy (r : RetrySt) (el : Nat) (a : Answer) : (r.call el a).1.strategy = r.strategy := by
  unfold RetrySt.call
  cases r.retryable <;> cases a <;> simp <;> split <;> rfl

/-- a call that sends passed the gate and incremented the count; any other call on a Retryable entry ends `Retryable` -/
theorem call_cases (r : RetrySt) (el : Nat) (a : Answer) :
    ((r.call el a).2 = true ∧ r.retryable = true ∧ r.strategy.gate r.count el = true ∧
        (r.call el a).1.count = r.count + 1 ∧ (r.call el a).1.retryable = true) ∨
    ((r.call el a).2 = false ∧ (r.call el a).1.count = r.count ∧ (r.call el a).1.retryable = false) := by
  unfold RetrySt.call
  cases hr : r.retryable
  · right; simp [hr]
  · cases a
    · right; simp
    · right; simp
    · simp only [Bool.not_true, Bool.false_eq_true, if_false]
      cases hg : r.isRetryableNow el
      · right; simp
      · left
        have : r.strategy.gate r.count el = true := by
          unfold RetrySt.isRetryableNow OutboundSendGen.isRetryableNow RetrySt.variant at hg
          cases hs : r.strategy <;> simp_all [Strategy.gate, Strategy.isSome]
        simp [this, incrementCount]

/-- along any call list: sends = growth of the count; router calls made while Retryable ≤ sends + 1; once the entry has
    left `Retryable` nothing is sent and the count stays -/
theorem run_inv (calls : List (Nat × Answer)) (r : RetrySt) :
    (r.run calls).1.count = r.count + (r.run calls).2.1 ∧
    (r.run calls).2.2 ≤ (r.run calls).2.1 + (if r.retryable then 1 else 0) ∧
    (r.retryable = false → (r.run calls).2.1 = 0) ∧
    (r.run calls).1.strategy = r.strategy := by
  induction calls generalizing r with
  | nil => simp [RetrySt.run]
  | cons c rest ih =>
    obtain ⟨el, a⟩ := c
    have h := ih (r.call el a).1
    simp only [RetrySt.run]
    rcases call_cases r el a with ⟨h2, hr, _, hc, hr'⟩ | ⟨h2, hc, hr'⟩
    · simp only [h2, hr, hr', if_true] at h ⊢
      refine ⟨by omega, by omega, by simp, by rw [h.2.2.2, call_strategy]⟩
    · have h0 := h.2.2.1 hr'
      simp only [h2, hr', h0] at h ⊢
      refine ⟨by simp at h ⊢; omega, by cases r.retryable <;> simp at h ⊢ <;> omega, fun _ => by simp, by rw [h.2.2.2, call_strategy]⟩

/-- with `Retry::Attempts(n)` the count never passes `n` -/
theorem run_count_le (n : Nat) (calls : List (Nat × Answer)) (r : RetrySt) (hs : r.strategy = .attempts n)
    (hc : r.count ≤ n) : (r.run calls).1.count ≤ n := by
  induction calls generalizing r with
  | nil => simpa [RetrySt.run] using hc
  | cons c rest ih =>
    obtain ⟨el, a⟩ := c
    simp only [RetrySt.run]
    apply ih (r.call el a).1 (by rw [call_strategy, hs])
    rcases call_cases r el a with ⟨_, _, hg, hc', _⟩ | ⟨_, hc', _⟩
    · rw [hs] at hg
      simp only [Strategy.gate, attemptsGate, decide_eq_true_eq] at hg
      omega
    · omega

theorem attempts_bound (n : Nat) (calls : List (Nat × Answer)) (r : RetrySt) (hs : r.strategy = .attempts n)
    (hc : r.count = 0) (hr : r.retryable = true) : (r.run calls).2.1 ≤ n ∧ (r.run calls).2.2 ≤ n + 1 := by
  have h := run_inv calls r
  have hle := run_count_le n calls r hs (by omega)
  rw [hc, hr] at h
  simp only [if_true] at h
  omega

/-- with `Retry::Timeout(d)` every call that sends happens at an elapsed time within `d` -/
theorem run_timeout (d : Nat) (calls : List (Nat × Answer)) (r : RetrySt) (hs : r.strategy = .timeout d)
    (hlate : ∀ c ∈ calls, c.1 > d) : (r.run calls).2.1 = 0 := by
  induction calls generalizing r with
  | nil => simp [RetrySt.run]
  | cons c rest ih =>
    obtain ⟨el, a⟩ := c
    simp only [RetrySt.run]
    have hrest := ih (r.call el a).1 (by rw [call_strategy, hs]) (fun c hc => hlate c (List.mem_cons_of_mem _ hc))
    rcases call_cases r el a with ⟨_, _, hg, _, _⟩ | ⟨h2, _, _⟩
    · rw [hs] at hg
      simp only [Strategy.gate, timeoutGate, decide_eq_true_eq] at hg
      have := hlate (el, a) (List.mem_cons_self)
      simp at this; omega
    · simp [h2, hrest]

end Ldk.OutboundRetry
