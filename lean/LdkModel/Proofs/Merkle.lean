/- Helper lemmas for the merkle binding theorem (C18).  The level-by-level reduction of
   `Merkle.reduce` is re-read as building a binary tree over the per-record leaves; equal tree hashes
   force equal leaf multisets as long as the tagged hash has no collision among the queries the two
   computations make (`CollisionFreeOn`), and ascending TLV types turn the multiset into the list. -/
import LdkModel.Model.Merkle
namespace Ldk.Merkle

/-- a query to the tagged hash -/
abbrev Query := Tag × Bytes

/-- no two DIFFERENT queries of `S` hash to the same value, and hashes are 32 bytes.  (Over all
    queries this is false for any real hash by counting; over the finite list of queries of a
    computation it is exactly what "no collision was found" means.) -/
structure CollisionFreeOn (H : Tag → Bytes → Bytes) (S : List Query) : Prop where
  inj : ∀ q₁ ∈ S, ∀ q₂ ∈ S, H q₁.1 q₁.2 = H q₂.1 q₂.2 → q₁ = q₂
  len : ∀ t m, (H t m).length = 32

theorem CollisionFreeOn.mono {H S S'} (h : CollisionFreeOn H S) (hs : ∀ q ∈ S', q ∈ S) :
    CollisionFreeOn H S' :=
  ⟨fun q₁ h₁ q₂ h₂ e => h.inj q₁ (hs _ h₁) q₂ (hs _ h₂) e, h.len⟩

/-- global collision freedom (the textbook idealisation) implies the finite one -/
structure CollisionFree (H : Tag → Bytes → Bytes) : Prop where
  inj : ∀ t₁ m₁ t₂ m₂, H t₁ m₁ = H t₂ m₂ → t₁ = t₂ ∧ m₁ = m₂
  len : ∀ t m, (H t m).length = 32

theorem CollisionFree.on {H} (h : CollisionFree H) (S : List Query) : CollisionFreeOn H S :=
  ⟨fun q₁ _ q₂ _ e => by
      obtain ⟨a, b⟩ := h.inj _ _ _ _ e
      exact Prod.ext a b, h.len⟩

theorem sortCat_inj {a b c d : Bytes} (ha : a.length = 32) (hb : b.length = 32) (hc : c.length = 32)
    (hd : d.length = 32) (h : sortCat a b = sortCat c d) : (a = c ∧ b = d) ∨ (a = d ∧ b = c) := by
  unfold sortCat at h
  split at h <;> split at h
  · exact Or.inl (List.append_inj h (by omega))
  · have := List.append_inj h (by omega); exact Or.inr ⟨this.1, this.2⟩
  · have := List.append_inj h (by omega); exact Or.inr ⟨this.2, this.1⟩
  · have := List.append_inj h (by omega); exact Or.inl ⟨this.2, this.1⟩

variable (H : Tag → Bytes → Bytes)

/-- merkle tree over records; `first` is the nonce record of the stream it came from -/
inductive T
  | leaf (r : Rec)
  | node (l r : T)

/-- message of the top-level `LnBranch` query -/
def T.topMsg (first : Bytes) : T → Bytes
  | .leaf r => sortCat (H .leaf r.recordBytes) (H (.nonce first) r.typeBytes)
  | .node l r => sortCat (H .branch (l.topMsg first)) (H .branch (r.topMsg first))

def T.hash (first : Bytes) (t : T) : Bytes := H .branch (t.topMsg H first)

def T.leaves : T → List Rec
  | .leaf r => [r]
  | .node l r => l.leaves ++ r.leaves

/-- every query made while hashing the tree -/
def T.queries (first : Bytes) : T → List Query
  | .leaf r => [(.leaf, r.recordBytes), (.nonce first, r.typeBytes), (.branch, T.topMsg H first (.leaf r))]
  | .node l r => (.branch, T.topMsg H first (.node l r)) :: (l.queries first ++ r.queries first)

theorem T.top_mem (first : Bytes) (t : T) : (Tag.branch, t.topMsg H first) ∈ t.queries H first := by
  cases t <;> simp [T.queries]

theorem T.hash_leaf (first : Bytes) (r : Rec) : (T.leaf r).hash H first = perTlv H first r := rfl

theorem T.hash_node (first : Bytes) (l r : T) :
    (T.node l r).hash H first = branch H (l.hash H first) (r.hash H first) := rfl

/-- equal tree hashes ⇒ equal leaves up to order -/
theorem T.leaves_perm_of_hash_eq (f₁ f₂ : Bytes) :
    ∀ (t₁ t₂ : T), CollisionFreeOn H (t₁.queries H f₁ ++ t₂.queries H f₂) →
      t₁.hash H f₁ = t₂.hash H f₂ → t₁.leaves.Perm t₂.leaves := by
  intro t₁
  induction t₁ with
  | leaf r₁ =>
    intro t₂ hcf he
    have hlen := hcf.len
    have htop := hcf.inj (.branch, T.topMsg H f₁ (.leaf r₁)) (by simp [T.queries])
      (.branch, t₂.topMsg H f₂) (by simp [T.top_mem]) he
    have htop' : T.topMsg H f₁ (.leaf r₁) = t₂.topMsg H f₂ := (Prod.ext_iff.mp htop).2
    cases t₂ with
    | leaf r₂ =>
      simp only [T.topMsg] at htop'
      have hq1 : ((Tag.leaf, r₁.recordBytes) : Query) ∈ T.queries H f₁ (.leaf r₁) ++ T.queries H f₂ (.leaf r₂) := by simp [T.queries]
      have hq2 : ((Tag.nonce f₁, r₁.typeBytes) : Query) ∈ T.queries H f₁ (.leaf r₁) ++ T.queries H f₂ (.leaf r₂) := by simp [T.queries]
      have hq3 : ((Tag.leaf, r₂.recordBytes) : Query) ∈ T.queries H f₁ (.leaf r₁) ++ T.queries H f₂ (.leaf r₂) := by simp [T.queries]
      have hq4 : ((Tag.nonce f₂, r₂.typeBytes) : Query) ∈ T.queries H f₁ (.leaf r₁) ++ T.queries H f₂ (.leaf r₂) := by simp [T.queries]
      rcases sortCat_inj (hlen _ _) (hlen _ _) (hlen _ _) (hlen _ _) htop' with ⟨e1, e2⟩ | ⟨e1, _⟩
      · have a := hcf.inj _ hq1 _ hq3 e1
        have b := hcf.inj _ hq2 _ hq4 e2
        have a' : r₁.recordBytes = r₂.recordBytes := (Prod.ext_iff.mp a).2
        have b' : r₁.typeBytes = r₂.typeBytes := (Prod.ext_iff.mp b).2
        have : r₁ = r₂ := by cases r₁; cases r₂; simp_all
        simp [T.leaves, this]
      · have a := hcf.inj _ hq1 _ hq4 e1
        exact absurd (Prod.ext_iff.mp a).1 (by simp)
    | node l₂ r₂ =>
      simp only [T.topMsg] at htop'
      have hq1 : ((Tag.leaf, r₁.recordBytes) : Query) ∈ T.queries H f₁ (.leaf r₁) ++ T.queries H f₂ (.node l₂ r₂) := by simp [T.queries]
      have hl : ((Tag.branch, l₂.topMsg H f₂) : Query) ∈ T.queries H f₁ (.leaf r₁) ++ T.queries H f₂ (.node l₂ r₂) := by
        simp [T.queries, T.top_mem]
      have hr : ((Tag.branch, r₂.topMsg H f₂) : Query) ∈ T.queries H f₁ (.leaf r₁) ++ T.queries H f₂ (.node l₂ r₂) := by
        simp [T.queries, T.top_mem]
      rcases sortCat_inj (hlen _ _) (hlen _ _) (hlen _ _) (hlen _ _) htop' with ⟨e1, _⟩ | ⟨e1, _⟩
      · exact absurd (Prod.ext_iff.mp (hcf.inj _ hq1 _ hl e1)).1 (by simp)
      · exact absurd (Prod.ext_iff.mp (hcf.inj _ hq1 _ hr e1)).1 (by simp)
  | node l₁ r₁ ihl ihr =>
    intro t₂ hcf he
    have hlen := hcf.len
    have htop := hcf.inj (.branch, T.topMsg H f₁ (.node l₁ r₁)) (by simp [T.queries])
      (.branch, t₂.topMsg H f₂) (by simp [T.top_mem]) he
    have htop' : T.topMsg H f₁ (.node l₁ r₁) = t₂.topMsg H f₂ := (Prod.ext_iff.mp htop).2
    cases t₂ with
    | leaf r₂ =>
      simp only [T.topMsg] at htop'
      have hq3 : ((Tag.leaf, r₂.recordBytes) : Query) ∈ T.queries H f₁ (.node l₁ r₁) ++ T.queries H f₂ (.leaf r₂) := by simp [T.queries]
      have hl : ((Tag.branch, l₁.topMsg H f₁) : Query) ∈ T.queries H f₁ (.node l₁ r₁) ++ T.queries H f₂ (.leaf r₂) := by
        simp [T.queries, T.top_mem]
      have hr : ((Tag.branch, r₁.topMsg H f₁) : Query) ∈ T.queries H f₁ (.node l₁ r₁) ++ T.queries H f₂ (.leaf r₂) := by
        simp [T.queries, T.top_mem]
      rcases sortCat_inj (hlen _ _) (hlen _ _) (hlen _ _) (hlen _ _) htop' with ⟨e1, _⟩ | ⟨_, e2⟩
      · exact absurd (Prod.ext_iff.mp (hcf.inj _ hl _ hq3 e1)).1 (by simp)
      · exact absurd (Prod.ext_iff.mp (hcf.inj _ hr _ hq3 e2)).1 (by simp)
    | node l₂ r₂ =>
      simp only [T.topMsg] at htop'
      have sub : ∀ (a b : T), (∀ q ∈ a.queries H f₁, q ∈ T.queries H f₁ (.node l₁ r₁)) →
          (∀ q ∈ b.queries H f₂, q ∈ T.queries H f₂ (.node l₂ r₂)) →
          CollisionFreeOn H (a.queries H f₁ ++ b.queries H f₂) := by
        intro a b ha hb
        apply hcf.mono
        intro q hq
        rcases List.mem_append.mp hq with h | h
        · exact List.mem_append.mpr (Or.inl (ha q h))
        · exact List.mem_append.mpr (Or.inr (hb q h))
      have inL₁ : ∀ q ∈ l₁.queries H f₁, q ∈ T.queries H f₁ (.node l₁ r₁) := by
        intro q hq; simp [T.queries, hq]
      have inR₁ : ∀ q ∈ r₁.queries H f₁, q ∈ T.queries H f₁ (.node l₁ r₁) := by
        intro q hq; simp [T.queries, hq]
      have inL₂ : ∀ q ∈ l₂.queries H f₂, q ∈ T.queries H f₂ (.node l₂ r₂) := by
        intro q hq; simp [T.queries, hq]
      have inR₂ : ∀ q ∈ r₂.queries H f₂, q ∈ T.queries H f₂ (.node l₂ r₂) := by
        intro q hq; simp [T.queries, hq]
      rcases sortCat_inj (hlen _ _) (hlen _ _) (hlen _ _) (hlen _ _) htop' with ⟨e1, e2⟩ | ⟨e1, e2⟩
      · have p1 := ihl l₂ (sub l₁ l₂ inL₁ inL₂) e1
        have p2 := ihr r₂ (sub r₁ r₂ inR₁ inR₂) e2
        exact p1.append p2
      · have p1 := ihl r₂ (sub l₁ r₂ inL₁ inR₂) e1
        have p2 := ihr l₂ (sub r₁ l₂ inR₁ inL₂) e2
        exact (p1.append p2).trans List.perm_append_comm

/-! ### `reduce` builds such a tree -/

def pairUpT : List T → List T
  | a :: b :: rest => .node a b :: pairUpT rest
  | xs => xs

def reduceT : Nat → List T → Option T
  | 0, xs => xs.head?
  | fuel + 1, xs =>
    match xs with
    | [] => none
    | [a] => some a
    | _ => reduceT fuel (pairUpT xs)

theorem map_hash_pairUpT (first : Bytes) : ∀ ts : List T,
    (pairUpT ts).map (T.hash H first) = pairUp H (ts.map (T.hash H first))
  | [] => rfl
  | [_] => rfl
  | a :: b :: rest => by
    simp only [pairUpT, List.map_cons, pairUp, T.hash_node]
    rw [map_hash_pairUpT first rest]

theorem leaves_pairUpT : ∀ ts : List T, (pairUpT ts).flatMap T.leaves = ts.flatMap T.leaves
  | [] => rfl
  | [_] => rfl
  | a :: b :: rest => by
    simp only [pairUpT, List.flatMap_cons, T.leaves, List.append_assoc]
    rw [leaves_pairUpT rest]

theorem queries_pairUpT_sub (first : Bytes) : ∀ ts : List T, ∀ q,
    q ∈ ts.flatMap (T.queries H first) → q ∈ (pairUpT ts).flatMap (T.queries H first)
  | [], _, h => h
  | [_], _, h => h
  | a :: b :: rest, q, h => by
    simp only [pairUpT, List.flatMap_cons, List.mem_append, T.queries, List.mem_cons] at h ⊢
    rcases h with h | h | h
    · exact Or.inl (Or.inr (Or.inl h))
    · exact Or.inl (Or.inr (Or.inr h))
    · exact Or.inr (queries_pairUpT_sub first rest q h)

theorem length_pairUpT_le : ∀ ts : List T, (pairUpT ts).length ≤ ts.length
  | [] => Nat.le_refl _
  | [_] => Nat.le_refl _
  | a :: b :: rest => by
    simp only [pairUpT, List.length_cons]
    have := length_pairUpT_le rest
    omega

/-- with enough fuel the reduction of a non-empty forest is one tree with all the leaves in order,
    whose hash is what `reduce` computes -/
theorem reduceT_spec (first : Bytes) : ∀ (fuel : Nat) (ts : List T), ts ≠ [] → ts.length ≤ fuel + 1 →
    ∃ t, reduceT fuel ts = some t ∧ t.leaves = ts.flatMap T.leaves ∧
      reduce H fuel (ts.map (T.hash H first)) = t.hash H first ∧
      (∀ q ∈ ts.flatMap (T.queries H first), q ∈ t.queries H first) := by
  intro fuel
  induction fuel with
  | zero =>
    intro ts hne hlen
    match ts, hne, hlen with
    | [a], _, _ => exact ⟨a, rfl, by simp, rfl, by simp⟩
    | _ :: _ :: _, _, h => simp at h
  | succ n ih =>
    intro ts hne hlen
    match ts, hne, hlen with
    | [a], _, _ => exact ⟨a, rfl, by simp, rfl, by simp⟩
    | a :: b :: rest, _, hlen =>
      have hne' : pairUpT (a :: b :: rest) ≠ [] := by simp [pairUpT]
      have hl' : (pairUpT (a :: b :: rest)).length ≤ n + 1 := by
        have := length_pairUpT_le rest
        simp only [pairUpT, List.length_cons] at hlen ⊢
        omega
      obtain ⟨t, h1, h2, h3, h4⟩ := ih _ hne' hl'
      refine ⟨t, ?_, ?_, ?_, ?_⟩
      · simpa [reduceT] using h1
      · rw [h2, leaves_pairUpT]
      · rw [← h3, map_hash_pairUpT]
        simp [reduce]
      · intro q hq
        exact h4 q (queries_pairUpT_sub H first _ q hq)

/-- the queries made by `rootHash` on a record list -/
def queriesOf (rs : List Rec) : List Query :=
  match rs with
  | [] => []
  | first :: _ =>
    match reduceT (nonSig rs).length ((nonSig rs).map T.leaf) with
    | some t => t.queries H first.recordBytes
    | none => []

theorem rootHash_tree (rs : List Rec) (first : Rec) (rest : List Rec) (hrs : rs = first :: rest)
    (hne : nonSig rs ≠ []) :
    ∃ t, reduceT (nonSig rs).length ((nonSig rs).map T.leaf) = some t ∧ t.leaves = nonSig rs ∧
      rootHash H rs = t.hash H first.recordBytes := by
  have hne' : (nonSig rs).map T.leaf ≠ [] := by simpa using hne
  obtain ⟨t, h1, h2, h3, _⟩ := reduceT_spec H first.recordBytes (nonSig rs).length _ hne' (by simp)
  refine ⟨t, h1, ?_, ?_⟩
  · rw [h2]; simp [List.flatMap_map, T.leaves]
  · subst hrs
    simp only [rootHash, List.length_map]
    rw [← h3]
    congr 1
    simp [List.map_map, Function.comp_def, T.hash_leaf]

theorem rootHash_length (hlen : ∀ t m, (H t m).length = 32) (rs : List Rec) (hne : nonSig rs ≠ []) :
    (rootHash H rs).length = 32 := by
  match rs, hne with
  | first :: rest, hne =>
    obtain ⟨t, _, _, h⟩ := rootHash_tree H _ first rest rfl hne
    rw [h]; exact hlen _ _

theorem rootHash_nil_of_nonSig_nil (rs : List Rec) (h : nonSig rs = []) : rootHash H rs = [] := by
  cases rs with
  | nil => rfl
  | cons a r => simp [rootHash, h, reduce]

end Ldk.Merkle
