/- Helper lemmas for the merkle binding theorem (C18).  The level-by-level reduction of
   `Merkle.reduce` is re-read as building a binary tree over the per-record leaves; equal tree hashes
   force equal leaf multisets as long as the tagged hash has no collision among the queries the two
   computations make (`CollisionFreeOn`), and ascending TLV types turn the multiset into the list. -/
import LdkModel.Model.Merkle
namespace Ldk.Merkle

/-- a query to the tagged hash -/
abbrev Query := Tag × Bytes

/-- no two DIFFERENT queries of `S` hash to the same value, and hashes are 32 bytes.  (Over all
    queries this is false for any real hash by counting; over the finite list of queries of a
    computation it is exactly what "no collision was found" means.) -/
structure CollisionFreeOn (H : Tag → Bytes → Bytes) (S : List Query) : Prop where
  inj : ∀ q₁ ∈ S, ∀ q₂ ∈ S, H q₁.1 q₁.2 = H q₂.1 q₂.2 → q₁ = q₂
  len : ∀ t m, (H t m).length = 32

theorem CollisionFreeOn.mono {H S S'} (h : CollisionFreeOn H S) (hs : ∀ q ∈ S', q ∈ S) :
    CollisionFreeOn H S' :=
  ⟨fun q₁ h₁ q₂ h₂ e => h.inj q₁ (hs _ h₁) q₂ (hs _ h₂) e, h.len⟩

/-- global collision freedom (the textbook idealisation) implies the finite one -/
structure CollisionFree (H : Tag → Bytes → Bytes) : Prop where
  inj : ∀ t₁ m₁ t₂ m₂, H t₁ m₁ = H t₂ m₂ → t₁ = t₂ ∧ m₁ = m₂
  len : ∀ t m, (H t m).length = 32

theorem CollisionFree.on {H} (h : CollisionFree H) (S : List Query) : CollisionFreeOn H S :=
  ⟨fun q₁ _ q₂ _ e => by
      obtain ⟨a, b⟩ := h.inj _ _ _ _ e
      exact Prod.ext a b, h.len⟩

theorem sortCat_inj {a b c d : Bytes} (ha : a.length = 32) (hb : b.length = 32) (hc : c.length = 32)
    (hd : d.length = 32) (h : sortCat a b = sortCat c d) : (a = c ∧ b = d) ∨ (a = d ∧ b = c) := by
  unfold sortCat at h
  split at h <;> split at h
  · exact Or.inl (List.append_inj h (by omega))
  · have := List.append_inj h (by omega); exact Or.inr ⟨this.1, this.2⟩
  · have := List.append_inj h (by omega); exact Or.inr ⟨this.2, this.1⟩
  · have := List.append_inj h (by omega); exact Or.inl ⟨this.2, this.1⟩

variable (H : Tag → Bytes → Bytes)

/-- merkle tree over records; `first` is the nonce record of the stream it came from -/
inductive T
  | leaf (r : Rec)
  | node (l r : T)

/-- message of the top-level `LnBranch` query -/
def T.topMsg (first : Bytes) : T → Bytes
  | .leaf r => sortCat (H .leaf r.recordBytes) (H (.nonce first) r.typeBytes)
  | .node l r => sortCat (H .branch (l.topMsg first)) (H .branch (r.topMsg first))

def T.hash (first : Bytes) (t : T) : Bytes := H .branch (t.topMsg H first)

def T.leaves : T → List Rec
  | .leaf r => [r]
  | .node l r => l.leaves ++ r.leaves

/-- every query made while hashing the tree -/
def T.queries (first : Bytes) : T → List Query
  | .leaf r => [(.leaf, r.recordBytes), (.nonce first, r.typeBytes), (.branch, T.topMsg H first (.leaf r))]
  | .node l r => (.branch, T.topMsg H first (.node l r)) :: (l.queries first ++ r.queries first)

theorem T.top_mem (first : Bytes) (t : T) : (Tag.branch, t.topMsg H first) ∈ t.queries H first := by
  cases t <;> simp [T.queries]

theorem T.hash_leaf (first : Bytes) (r : Rec) : (T.leaf r).hash H first = perTlv H first r := rfl

theorem T.hash_node (first : Bytes) (l r : T) :
    (T.node l r).hash H first = branch H (l.hash H first) (r.hash H first) := rfl

/-- equal tree hashes ⇒ equal leaves up to order -/
theorem T.leaves_perm_of_hash_eq (f₁ f₂ : Bytes) :
    ∀ (t₁ t₂ : T), CollisionFreeOn H (t₁.queries H f₁ ++ t₂.queries H f₂) →
      t₁.hash H f₁ = t₂.hash H f₂ → t₁.leaves.Perm t₂.leaves := by
  intro t₁
  induction t₁ with
  | leaf r₁ =>
    intro t₂ hcf he
    have hlen := hcf.len
    have htop := hcf.inj (.branch, T.topMsg H f₁ (.leaf r₁)) (by simp [T.queries])
      (.branch, t₂.topMsg H f₂) (by simp [T.top_mem]) he
    have htop' : T.topMsg H f₁ (.leaf r₁) = t₂.topMsg H f₂ := (Prod.ext_iff.mp htop).2
    cases t₂ with
    | leaf r₂ =>
      simp only [T.topMsg] at htop'
      have hq1 : ((Tag.leaf, r₁.recordBytes) : Query) ∈ T.queries H f₁ (.leaf r₁) ++ T.queries H f₂ (.leaf r₂) := by simp [T.queries]
      have hq2 : ((Tag.nonce f₁, r₁.typeBytes) : Query) ∈ T.queries H f₁ (.leaf r₁) ++ T.queries H f₂ (.leaf r₂) := by simp [T.queries]
      have hq3 : ((Tag.leaf, r₂.recordBytes) : Query) ∈ T.queries H f₁ (.leaf r₁) ++ T.queries H f₂ (.leaf r₂) := by simp [T.queries]
      have hq4 : ((Tag.nonce f₂, r₂.typeBytes) : Query) ∈ T.queries H f₁ (.leaf r₁) ++ T.queries H f₂ (.leaf r₂) := by simp [T.queries]
      rcases sortCat_inj (hlen _ _) (hlen _ _) (hlen _ _) (hlen _ _) htop' with ⟨e1, e2⟩ | ⟨e1, _⟩
      · have a := hcf.inj _ hq1 _ hq3 e1
        have b := hcf.inj _ hq2 _ hq4 e2
        have a' : r₁.recordBytes = r₂.recordBytes := (Prod.ext_iff.mp a).2
        have b' : r₁.typeBytes = r₂.typeBytes := (Prod.ext_iff.mp b).2
        have : r₁ = r₂ := by cases r₁; cases r₂; simp_all
        simp [T.leaves, this]
      · have a := hcf.inj _ hq1 _ hq4 e1
        exact absurd (Prod.ext_iff.mp a).1 (by simp)
    | node l₂ r₂ =>
      simp only [T.topMsg] at htop'
      have hq1 : ((Tag.leaf, r₁.recordBytes) : Query) ∈ T.queries H f₁ (.leaf r₁) ++ T.queries H f₂ (.node l₂ r₂) := by simp [T.queries]
      have hl : ((Tag.branch, l₂.topMsg H f₂) : Query) ∈ T.queries H f₁ (.leaf r₁) ++ T.queries H f₂ (.node l₂ r₂) := by
        simp [T.queries, T.top_mem]
      have hr : ((Tag.branch, r₂.topMsg H f₂) : Query) ∈ T.queries H f₁ (.leaf r₁) ++ T.queries H f₂ (.node l₂ r₂) := by
        simp [T.queries, T.top_mem]
      rcases sortCat_inj (hlen _ _) (hlen _ _) (hlen _ _) (hlen _ _) htop' with ⟨e1, _⟩ | ⟨e1, _⟩
      · exact absurd (Prod.ext_iff.mp (hcf.inj _ hq1 _ hl e1)).1 (by simp)
      · exact absurd (Prod.ext_iff.mp (hcf.inj _ hq1 _ hr e1)).1 (by simp)
  | node l₁ r₁ ihl ihr =>
    intro t₂ hcf he
    have hlen := hcf.len
    have htop := hcf.inj (.branch, T.topMsg H f₁ (.node l₁ r₁)) (by simp [T.queries])
      (.branch, t₂.topMsg H f₂) (by simp [T.top_mem]) he
    have htop' : T.topMsg H f₁ (.node l₁ r₁) = t₂.topMsg H f₂ := (Prod.ext_iff.mp htop).2
    cases t₂ with
    | leaf r₂ =>
      simp only [T.topMsg] at htop'
      have hq3 : ((Tag.leaf, r₂.recordBytes) : Query) ∈ T.queries H f₁ (.node l₁ r₁) ++ T.queries H f₂ (.leaf r₂) := by simp [T.queries]
      have hl : ((Tag.branch, l₁.topMsg H f₁) : Query) ∈ T.queries H f₁ (.node l₁ r₁) ++ T.queries H f₂ (.leaf r₂) := by
        simp [T.queries, T.top_mem]
      have hr : ((Tag.branch, r₁.topMsg H f₁) : Query) ∈ T.queries H f₁ (.node l₁ r₁) ++ T.queries H f₂ (.leaf r₂) := by
        simp [T.queries, T.top_mem]
      rcases sortCat_inj (hlen _ _) (hlen _ _) (hlen _ _) (hlen _ _) htop' with ⟨e1, _⟩ | ⟨_, e2⟩
      · exact absurd (Prod.ext_iff.mp (hcf.inj _ hl _ hq3 e1)).1 (by simp)
      · exact absurd (Prod.ext_iff.mp (hcf.inj _ hr _ hq3 e2)).1 (by simp)
    | node l₂ r₂ =>
      simp only [T.topMsg] at htop'
      have sub : ∀ (a b : T), (∀ q ∈ a.queries H f₁, q ∈ T.queries H f₁ (.node l₁ r₁)) →
          (∀ q ∈ b.queries H f₂, q ∈ T.queries H f₂ (.node l₂ r₂)) →
          CollisionFreeOn H (a.queries H f₁ ++ b.queries H f₂) := by
        intro a b ha hb
        apply hcf.mono
        intro q hq
        rcases List.mem_append.mp hq with h | h
        · exact List.mem_append.mpr (Or.inl (ha q h))
        · exact List.mem_append.mpr (Or.inr (hb q h))
      have inL₁ : ∀ q ∈ l₁.queries H f₁, q ∈ T.queries H f₁ (.node l₁ r₁) := by
        intro q hq; simp [T.queries, hq]
      have inR₁ : ∀ q ∈ r₁.queries H f₁, q ∈ T.queries H f₁ (.node l₁ r₁) := by
        intro q hq; simp [T.queries, hq]
      have inL₂ : ∀ q ∈ l₂.queries H f₂, q ∈ T.queries H f₂ (.node l₂ r₂) := by
        intro q hq; simp [T.queries, hq]
      have inR₂ : ∀ q ∈ r₂.queries H f₂, q ∈ T.queries H f₂ (.node l₂ r₂) := by
        intro q hq; simp [T.queries, hq]
      rcases sortCat_inj (hlen _ _) (hlen _ _) (hlen _ _) (hlen _ _) htop' with ⟨e1, e2⟩ | ⟨e1, e2⟩
      · have p1 := ihl l₂ (sub l₁ l₂ inL₁ inL₂) e1
        have p2 := ihr r₂ (sub r₁ r₂ inR₁ inR₂) e2
        exact p1.append p2
      · have p1 := ihl r₂ (sub l₁ r₂ inL₁ inR₂) e1
        have p2 := ihr l₂ (sub r₁ l₂ inR₁ inL₂) e2
        exact (p1.append p2).trans List.perm_append_comm

/-! ### `reduce` builds such a tree -/

def pairUpT : List T → List T
  | a :: b :: rest => .node a b :: pairUpT rest
  | xs => xs

def reduceT : Nat → List T → Option T
  | 0, xs => xs.head?
  | fuel + 1, xs =>
    match xs with
    | [] => none
    | [a] => some a
    | _ => reduceT fuel (pairUpT xs)

theorem map_hash_pairUpT (first : Bytes) : ∀ ts : List T,
    (pairUpT ts).map (T.hash H first) = pairUp H (ts.map (T.hash H first))
  | [] => rfl
  | [_] => rfl
  | a :: b :: rest => by
    simp only [pairUpT, List.map_cons, pairUp, T.hash_node]
    rw [map_hash_pairUpT first rest]

theorem leaves_pairUpT : ∀ ts : List T, (pairUpT ts).flatMap T.leaves = ts.flatMap T.leaves
  | [] => rfl
  | [_] => rfl
  | a :: b :: rest => by
    simp only [pairUpT, List.flatMap_cons, T.leaves, List.append_assoc]
    rw [leaves_pairUpT rest]

theorem queries_pairUpT_sub (first : Bytes) : ∀ ts : List T, ∀ q,
    q ∈ ts.flatMap (T.queries H first) → q ∈ (pairUpT ts).flatMap (T.queries H first)
  | [], _, h => h
  | [_], _, h => h
  | a :: b :: rest, q, h => by
    simp only [pairUpT, List.flatMap_cons, List.mem_append, T.queries, List.mem_cons] at h ⊢
    rcases h with h | h | h
    · exact Or.inl (Or.inr (Or.inl h))
    · exact Or.inl (Or.inr (Or.inr h))
    · exact Or.inr (queries_pairUpT_sub first rest q h)

theorem length_pairUpT_le : ∀ ts : List T, (pairUpT ts).length ≤ ts.length
  | [] => Nat.le_refl _
  | [_] => Nat.le_refl _
  | a :: b :: rest => by
    simp only [pairUpT, List.length_cons]
    have := length_pairUpT_le rest
    omega

/-- with enough fuel the reduction of a non-empty forest is one tree with all the leaves in order,
    whose hash is what `reduce` computes -/
theorem reduceT_spec (first : Bytes) : ∀ (fuel : Nat) (ts : List T), ts ≠ [] → ts.length ≤ fuel + 1 →
    ∃ t, reduceT fuel ts = some t ∧ t.leaves = ts.flatMap T.leaves ∧
      reduce H fuel (ts.map (T.hash H first)) = t.hash H first ∧
      (∀ q ∈ ts.flatMap (T.queries H first), q ∈ t.queries H first) := by
  intro fuel
  induction fuel with
  | zero =>
    intro ts hne hlen
    match ts, hne, hlen with
    | [a], _, _ => exact ⟨a, rfl, by simp, rfl, by simp⟩
    | _ :: _ :: _, _, h => simp at h
  | succ n ih =>
    intro ts hne hlen
    match ts, hne, hlen with
    | [a], _, _ => exact ⟨a, rfl, by simp, rfl, by simp⟩
    | a :: b :: rest, _, hlen =>
      have hne' : pairUpT (a :: b :: rest) ≠ [] := by simp [pairUpT]
      have hl' : (pairUpT (a :: b :: rest)).length ≤ n + 1 := by
        have := length_pairUpT_le rest
        simp only [pairUpT, List.length_cons] at hlen ⊢
        omega
      obtain ⟨t, h1, h2, h3, h4⟩ := ih _ hne' hl'
      refine ⟨t, ?_, ?_, ?_, ?_⟩
      · simpa [reduceT] using h1
      · rw [h2, leaves_pairUpT]
      · rw [← h3, map_hash_pairUpT]
        simp [reduce]
      · intro q hq
        exact h4 q (queries_pairUpT_sub H first _ q hq)

/-- the queries made by `rootHash` on a record list -/
def queriesOf (rs : List Rec) : List Query :=
  match rs with
  | [] => []
  | first :: _ =>
    match reduceT (nonSig rs).length ((nonSig rs).map T.leaf) with
    | some t => t.queries H first.recordBytes
    | none => []

theorem rootHash_tree (rs : List Rec) (first : Rec) (rest : List Rec) (hrs : rs = first :: rest)
    (hne : nonSig rs ≠ []) :
    ∃ t, reduceT (nonSig rs).length ((nonSig rs).map T.leaf) = some t ∧ t.leaves = nonSig rs ∧
      rootHash H rs = t.hash H first.recordBytes := by
  have hne' : (nonSig rs).map T.leaf ≠ [] := by simpa using hne
  obtain ⟨t, h1, h2, h3, _⟩ := reduceT_spec H first.recordBytes (nonSig rs).length _ hne' (by simp)
  refine ⟨t, h1, ?_, ?_⟩
  · rw [h2]; simp [List.flatMap_map, T.leaves]
  · subst hrs
    simp only [rootHash, List.length_map]
    rw [← h3]
    congr 1
    simp [List.map_map, Function.comp_def, T.hash_leaf]

theorem rootHash_length (hlen : ∀ t m, (H t m).length = 32) (rs : List Rec) (hne : nonSig rs ≠ []) :
    (rootHash H rs).length = 32 := by
  match rs, hne with
  | first :: rest, hne =>
    obtain ⟨t, _, _, h⟩ := rootHash_tree H _ first rest rfl hne
    rw [h]; exact hlen _ _

theorem rootHash_nil_of_nonSig_nil (rs : List Rec) (h : nonSig rs = []) : rootHash H rs = [] := by
  cases rs with
  | nil => rfl
  | cons a r => simp [rootHash, h, reduce]

/-! ### the in-place loop computes the same root -/

theorem slot_set_eq (a : List Bytes) (i : Nat) (v : Bytes) (h : i < a.length) : slot (a.set i v) i = v := by
  simp [slot, h]

theorem slot_set_ne (a : List Bytes) (i j : Nat) (v : Bytes) (h : i ≠ j) : slot (a.set i v) j = slot a j := by
  simp [slot, List.getElem?_set, h]


theorem levelLoop_spec (offset step n : Nat) (hstep : 0 < step) (hoff : offset < step) :
    ∀ (fuel i : Nat) (a : List Bytes), a.length = n → i % step = 0 → n ≤ fuel + i →
      (levelLoop H offset step n fuel i a).length = n ∧
      ∀ m, m < n → slot (levelLoop H offset step n fuel i a) m =
        if i ≤ m ∧ m % step = 0 ∧ m + offset < n then branch H (slot a m) (slot a (m + offset)) else slot a m := by
  intro fuel
  induction fuel with
  | zero =>
    intro i a ha _ hf
    refine ⟨ha, ?_⟩
    intro m hm
    have : ¬ (i ≤ m ∧ m % step = 0 ∧ m + offset < n) := by omega
    simp [levelLoop, this]
  | succ f ih =>
    intro i a ha hi hf
    unfold levelLoop
    by_cases hc : i + offset < n
    · simp only [hc, ↓reduceIte]
      have hi' : (i + step) % step = 0 := by rw [Nat.add_mod_right]; exact hi
      obtain ⟨hl, hs⟩ := ih (i + step) (a.set i (branch H (slot a i) (slot a (i + offset)))) (by simp [ha]) hi' (by omega)
      refine ⟨hl, ?_⟩
      intro m hm
      rw [hs m hm]
      by_cases hmi : m = i
      · subst hmi
        have h1 : ¬ (m + step ≤ m ∧ m % step = 0 ∧ m + offset < n) := by omega
        have h2 : (m ≤ m ∧ m % step = 0 ∧ m + offset < n) := ⟨Nat.le_refl _, hi, hc⟩
        rw [if_neg h1, if_pos h2]
        exact slot_set_eq a m _ (by omega)
      · by_cases hq : i + step ≤ m ∧ m % step = 0 ∧ m + offset < n
        · have h2 : i ≤ m ∧ m % step = 0 ∧ m + offset < n := ⟨by omega, hq.2.1, hq.2.2⟩
          rw [if_pos hq, if_pos h2]
          rw [slot_set_ne _ _ _ _ (Ne.symm hmi), slot_set_ne _ _ _ _ (by omega)]
        · rw [if_neg hq]
          rw [slot_set_ne _ _ _ _ (Ne.symm hmi)]
          have h2 : ¬ (i ≤ m ∧ m % step = 0 ∧ m + offset < n) := by
            rintro ⟨h1, h2, h3⟩
            apply hq
            refine ⟨?_, h2, h3⟩
            -- m ≥ i, m ≠ i, both multiples of step
            have : i < m := by omega
            have hd1 := Nat.div_add_mod m step
            have hd2 := Nat.div_add_mod i step
            rw [h2] at hd1; rw [hi] at hd2
            have : i / step < m / step := by
              apply Nat.lt_of_mul_lt_mul_left (a := step)
              omega
            have : step * (i / step + 1) ≤ step * (m / step) := Nat.mul_le_mul_left _ this
            rw [Nat.mul_add] at this
            omega
          rw [if_neg h2]
    · simp only [hc, ↓reduceIte]
      refine ⟨ha, ?_⟩
      intro m hm
      have : ¬ (i ≤ m ∧ m % step = 0 ∧ m + offset < n) := by omega
      simp [this]

theorem pairUp_length : ∀ xs : List Bytes, (pairUp H xs).length = (xs.length + 1) / 2
  | [] => rfl
  | [_] => by simp [pairUp]
  | a :: b :: rest => by
    simp only [pairUp, List.length_cons, pairUp_length rest]
    omega

theorem slot_nil (k : Nat) : slot [] k = [] := by simp [slot]
theorem slot_cons_zero (a : Bytes) (l : List Bytes) : slot (a :: l) 0 = a := by simp [slot]
theorem slot_cons_succ (a : Bytes) (l : List Bytes) (k : Nat) : slot (a :: l) (k + 1) = slot l k := by simp [slot]

theorem slot_pairUp : ∀ (xs : List Bytes) (k : Nat), slot (pairUp H xs) k =
    if 2 * k + 1 < xs.length then branch H (slot xs (2 * k)) (slot xs (2 * k + 1)) else slot xs (2 * k)
  | [], k => by simp [pairUp, slot_nil]
  | [a], k => by
    cases k with
    | zero => simp [pairUp]
    | succ k =>
      have : ¬ (2 * (k + 1) + 1 < [a].length) := by simp
      rw [if_neg this]
      simp only [pairUp]
      rw [slot_cons_succ, slot_nil, show 2 * (k + 1) = (2 * k + 1) + 1 by omega, slot_cons_succ, slot_nil]
  | a :: b :: rest, k => by
    cases k with
    | zero =>
      have : 2 * 0 + 1 < (a :: b :: rest).length := by simp
      rw [if_pos this]
      simp [pairUp, slot_cons_zero, slot_cons_succ]
    | succ k =>
      simp only [pairUp]
      rw [slot_cons_succ, slot_pairUp rest k]
      have e1 : 2 * (k + 1) = (2 * k + 1) + 1 := by omega
      have e2 : 2 * (k + 1) + 1 = ((2 * k + 1) + 1) + 1 := by omega
      have e3 : (2 * (k + 1) + 1 < (a :: b :: rest).length) ↔ (2 * k + 1 < rest.length) := by
        simp only [List.length_cons]; omega
      by_cases hc : 2 * k + 1 < rest.length
      · rw [if_pos hc, if_pos (e3.mpr hc), e2, e1, slot_cons_succ, slot_cons_succ, slot_cons_succ, slot_cons_succ]
      · rw [if_neg hc, if_neg (fun h => hc (e3.mp h)), e1, slot_cons_succ, slot_cons_succ]

/-- slot `k·P` of the array holds element `k` of the live list -/
structure Inv (n P : Nat) (a xs : List Bytes) : Prop where
  len : a.length = n
  idx : ∀ k, k < xs.length ↔ k * P < n
  val : ∀ k, k * P < n → slot a (k * P) = slot xs k

theorem level_step (n P : Nat) (a xs : List Bytes) (hP : 0 < P) (hinv : Inv n P a xs) :
    Inv n (2 * P) (levelLoop H P (2 * P) n n 0 a) (pairUp H xs) := by
  obtain ⟨hl, hs⟩ := levelLoop_spec H P (2 * P) n (by omega) (by omega) n 0 a hinv.len (by simp) (by omega)
  refine ⟨hl, ?_, ?_⟩
  · intro k
    rw [pairUp_length]
    have h1 := hinv.idx (2 * k)
    have e : 2 * k * P = k * (2 * P) := by rw [Nat.mul_comm 2 k, Nat.mul_assoc]
    rw [e] at h1
    constructor
    · intro h; exact h1.mp (by omega)
    · intro h; have := h1.mpr h; omega
  · intro k hk
    have e : 2 * k * P = k * (2 * P) := by rw [Nat.mul_comm 2 k, Nat.mul_assoc]
    have e' : (2 * k + 1) * P = k * (2 * P) + P := by rw [Nat.add_mul, e, Nat.one_mul]
    rw [hs _ hk, slot_pairUp]
    have hmod : k * (2 * P) % (2 * P) = 0 := Nat.mul_mod_left _ _
    by_cases hc : k * (2 * P) + P < n
    · have c1 : 0 ≤ k * (2 * P) ∧ k * (2 * P) % (2 * P) = 0 ∧ k * (2 * P) + P < n := ⟨Nat.zero_le _, hmod, hc⟩
      have c2 : 2 * k + 1 < xs.length := (hinv.idx (2 * k + 1)).mpr (by rw [e']; exact hc)
      rw [if_pos c1, if_pos c2]
      have v1 := hinv.val (2 * k) (by rw [e]; exact hk)
      have v2 := hinv.val (2 * k + 1) (by rw [e']; exact hc)
      rw [e] at v1; rw [e'] at v2
      rw [v1, v2]
    · have c1 : ¬ (0 ≤ k * (2 * P) ∧ k * (2 * P) % (2 * P) = 0 ∧ k * (2 * P) + P < n) := fun h => hc h.2.2
      have c2 : ¬ (2 * k + 1 < xs.length) := fun h => hc (by have := (hinv.idx (2 * k + 1)).mp h; rw [e'] at this; exact this)
      rw [if_neg c1, if_neg c2]
      have v1 := hinv.val (2 * k) (by rw [e]; exact hk)
      rw [e] at v1
      exact v1

theorem levelsLoop_succ (n f level : Nat) (a : List Bytes) :
    levelsLoop H n (f + 1) level a =
      if 2 <<< level / 2 ≥ n then a
      else levelsLoop H n f (level + 1) (levelLoop H (2 <<< level / 2) (2 <<< level) n n 0 a) := rfl

theorem shift_eq (level : Nat) : 2 <<< level = 2 * 2 ^ level := by
  rw [Nat.shiftLeft_eq]

/-- the in-place loop and the list reduction walk the levels in lock step -/
theorem levels_spec (n : Nat) : ∀ (fuelA fuelB level : Nat) (a xs : List Bytes),
    Inv n (2 ^ level) a xs → xs ≠ [] → xs.length ≤ fuelA + 1 → xs.length ≤ fuelB + 1 →
    slot (levelsLoop H n fuelA level a) 0 = reduce H fuelB xs := by
  intro fuelA
  induction fuelA with
  | zero =>
    intro fuelB level a xs hinv hne hA _
    match xs, hne, hA with
    | [x], _, _ =>
      have := hinv.val 0 (by have := (hinv.idx 0).mp (by simp); simpa using this)
      simp only [Nat.zero_mul] at this
      rw [levelsLoop, this, slot_cons_zero]
      cases fuelB <;> simp [reduce]
    | _ :: _ :: _, _, h => simp at h
  | succ f ih =>
    intro fuelB level a xs hinv hne hA hB
    have hP : 0 < 2 ^ level := Nat.two_pow_pos level
    match xs, hne, hA, hB with
    | [x], _, _, _ =>
      have h0 : 0 * 2 ^ level < n := (hinv.idx 0).mp (by simp)
      have h1 : ¬ (1 * 2 ^ level < n) := fun h => by have := (hinv.idx 1).mpr h; simp at this
      have v := hinv.val 0 h0
      simp only [Nat.zero_mul] at v
      have : 2 <<< level / 2 ≥ n := by rw [shift_eq]; omega
      rw [levelsLoop_succ, if_pos this, v, slot_cons_zero]
      cases fuelB <;> simp [reduce]
    | x :: y :: rest, _, hA, hB =>
      have h1 : 1 * 2 ^ level < n := (hinv.idx 1).mp (by simp)
      have hlt : ¬ (2 <<< level / 2 ≥ n) := by rw [shift_eq]; omega
      have hoff : 2 <<< level / 2 = 2 ^ level := by rw [shift_eq]; omega
      rw [levelsLoop_succ, if_neg hlt, hoff, shift_eq]
      have hinv' := level_step H n (2 ^ level) a (x :: y :: rest) hP hinv
      have e : 2 * 2 ^ level = 2 ^ (level + 1) := by rw [Nat.pow_succ, Nat.mul_comm]
      have hinv'' : Inv n (2 ^ (level + 1)) (levelLoop H (2 ^ level) (2 * 2 ^ level) n n 0 a) (pairUp H (x :: y :: rest)) := by
        rw [← e]; exact hinv'
      have hlen := pairUp_length H (x :: y :: rest)
      simp only [List.length_cons] at hlen hA hB
      match fuelB, hB with
      | g + 1, hB =>
        have hne' : pairUp H (x :: y :: rest) ≠ [] := by simp [pairUp]
        rw [ih g (level + 1) _ _ hinv'' hne' (by rw [hlen]; omega) (by rw [hlen]; omega)]
        simp [reduce]

theorem rootHashInPlace_eq (rs : List Rec) : rootHashInPlace H rs = rootHash H rs := by
  cases rs with
  | nil => rfl
  | cons first rest =>
    simp only [rootHashInPlace, rootHash]
    generalize (nonSig (first :: rest)).map (perTlv H first.recordBytes) = leaves
    by_cases he : leaves = []
    · subst he; rfl
    · have hne : leaves.isEmpty = false := by simpa using he
      simp only [hne, Bool.false_eq_true, ↓reduceIte]
      have hinv : Inv leaves.length (2 ^ 0) leaves leaves :=
        ⟨rfl, fun k => by simp, fun k _ => by simp⟩
      exact levels_spec H leaves.length leaves.length leaves.length 0 leaves leaves hinv he (by omega) (by omega)

end Ldk.Merkle
