/- Helper lemmas for the per-FundingScope commitment data (C06, Model/ScopeData.lean): every list a scope stores is the HTLC list
   (with output indices) of a commitment transaction that spends THAT scope's funding. -/
import LdkModel.Model.ScopeData
import LdkModel.Proofs.Punish
namespace Ldk.ScopeData
open Ldk.Punish

/-- every stored entry of `s` is the (txid, non-dust HTLC list) of a seen commitment transaction spending `s`'s own funding -/
def Own (seen : List CTx) (s : Scope) : Prop :=
  ∀ e ∈ s.claimable, ∃ t ∈ seen, t.funding = s.funding ∧ t.txid = e.1 ∧ t.htlcs = e.2

def Inv (seen : List CTx) (m : Mon) : Prop := ∀ s ∈ m.scopes, Own seen s

theorem own_mono {seen seen' : List CTx} {s : Scope} (h : ∀ t ∈ seen, t ∈ seen') (ho : Own seen s) : Own seen' s := by
  intro e he
  obtain ⟨t, ht, h1⟩ := ho e he
  exact ⟨t, h t ht, h1⟩

theorem own_update {seen : List CTx} {s s' : Scope} {txs : List CTx} {key cur src : Nat}
    (hu : s.update txs key cur src = some s') (hks : src = key) (hsub : ∀ t ∈ txs, t ∈ seen) (ho : Own seen s) :
    Own seen s' := by
  subst hks
  unfold Scope.update at hu
  cases hk : txs[src]? with
  | none => simp [hk] at hu
  | some tk =>
    cases hc : txs[cur]? with
    | none => simp [hk, hc] at hu
    | some tc =>
      simp only [hk, hc] at hu
      split at hu
      · rename_i hf
        injection hu with hu
        subst hu
        intro e he
        simp only [Scope.provide, List.mem_cons] at he
        rcases he with rfl | he
        · exact ⟨tk, hsub tk (List.mem_of_getElem? hk), by simpa [Scope.provide] using hf, rfl, rfl⟩
        · exact ho e (List.mem_filter.mp he).1
      · simp at hu

theorem own_updPending {seen : List CTx} {txs : List CTx} (hsub : ∀ t ∈ txs, t ∈ seen) :
    ∀ (ps : List Scope) (k : Nat) (ps' : List Scope), updPending txs k ps = some ps' →
      (∀ s ∈ ps, Own seen s) → ∀ s ∈ ps', Own seen s := by
  intro ps
  induction ps with
  | nil =>
    intro k ps' h _
    simp only [updPending, Option.some.injEq] at h
    subst h
    simp
  | cons s rest ih =>
    intro k ps' h ho
    simp only [updPending] at h
    cases hs : s.update txs (Gen.pendingKey k) (Gen.pendingCur k) (Gen.pendingSrc k) with
    | none => simp [hs] at h
    | some s' =>
      cases hr : updPending txs (k + 1) rest with
      | none => simp [hs, hr] at h
      | some rest' =>
        simp only [hs, hr, Option.some.injEq] at h
        subst h
        -- the list stored for pending scope k comes from the SAME transaction whose txid keys it
        have hsame : Gen.pendingSrc k = Gen.pendingKey k := rfl
        have h1 := own_update hs hsame hsub (ho s List.mem_cons_self)
        have h2 := ih (k + 1) rest' hr (fun x hx => ho x (List.mem_cons_of_mem _ hx))
        intro x hx
        rcases List.mem_cons.mp hx with rfl | hx
        · exact h1
        · exact h2 x hx

/-- what the TRANSLATED is_data_equal compares, on the model's fields -/
theorem dataEq_iff (a b : Htlc) : dataEq a b = true ↔ a.offered = b.offered ∧ a.amtMsat = b.amtMsat ∧ a.cltv = b.cltv := by
  simp [dataEq, Gen.isDataEqual, and_assoc]

theorem renegList_eq : ∀ (alt cur : List Htlc), alt.length = cur.length →
    (List.zipWith dataEq alt cur).all id = true → renegList alt cur = alt
  | [], [], _, _ => rfl
  | [], _ :: _, h, _ => by simp at h
  | _ :: _, [], h, _ => by simp at h
  | a :: alt, h :: cur, hl, hd => by
    simp only [List.zipWith_cons_cons, List.all_cons, Bool.and_eq_true, id] at hd
    have ih := renegList_eq alt cur (by simpa using hl) hd.2
    unfold renegList at ih ⊢
    simp only [List.zipWith_cons_cons, ih]
    have hhead : (if Gen.renegIndexFromAlternative then { h with outIdx := a.outIdx } else h) = a := by
      have hd1 := hd.1
      cases a; cases h
      simp only [dataEq_iff] at hd1
      obtain ⟨h1, h2, h3⟩ := hd1
      simp [Gen.renegIndexFromAlternative, h1, h2, h3]
    rw [hhead]

theorem seenTxs_cons (op : Op) (rest : List Op) : seenTxs (op :: rest) = seenTxs [op] ++ seenTxs rest := by
  cases op <;> simp [seenTxs]

theorem step_inv {seen : List CTx} {m m' : Mon} (op : Op) (hi : Inv seen m) (hs : step m op = some m') :
    Inv (seen ++ seenTxs [op]) m' := by
  have hmono : ∀ s, Own seen s → Own (seen ++ seenTxs [op]) s := fun s => own_mono (fun t ht => List.mem_append_left _ ht)
  cases op with
  | commit txs =>
    have hsub : ∀ t ∈ txs, t ∈ seen ++ seenTxs [Op.commit txs] := by
      intro t ht; simp [seenTxs, ht]
    simp only [step, updateCommitmentData] at hs
    split at hs
    · simp at hs
    simp only [storeCommitmentData] at hs
    split at hs
    · simp at hs
    · cases hl : m.locked.update txs Gen.lockedKey Gen.lockedKey Gen.lockedSrc with
      | none => simp [hl] at hs
      | some l =>
        cases hp : updPending txs 0 m.pending with
        | none => simp [hl, hp] at hs
        | some p =>
          simp only [hl, hp, Option.some.injEq] at hs
          subst hs
          have hsame : Gen.lockedSrc = Gen.lockedKey := rfl
          have h1 := own_update hl hsame hsub (hmono _ (hi m.locked List.mem_cons_self))
          have h2 := own_updPending hsub m.pending 0 p hp (fun s hs' => hmono _ (hi s (List.mem_cons_of_mem _ hs')))
          intro s hs'
          rcases List.mem_cons.mp hs' with rfl | hs'
          · exact h1
          · exact h2 s hs'
  | reneg alt =>
    simp only [step, renegotiatedFunding] at hs
    cases hc : m.locked.cur.bind (fun t => m.locked.claimable.lookup t) with
    | none => simp [hc] at hs
    | some cur =>
      simp only [hc] at hs
      split at hs
      · simp at hs
      · rename_i hlen
        split at hs
        · simp at hs
        · rename_i hdata
          split at hs
          · simp at hs
          · simp only [Option.some.injEq] at hs
            subst hs
            have hlist : renegList alt.htlcs cur = alt.htlcs :=
              renegList_eq alt.htlcs cur (by simpa using hlen) (by simpa using hdata)
            intro s hs'
            simp only [Mon.scopes, List.mem_cons, List.mem_append, List.not_mem_nil, or_false] at hs'
            rcases hs' with rfl | hs' | rfl
            · exact hmono _ (hi _ List.mem_cons_self)
            · exact hmono _ (hi s (List.mem_cons_of_mem _ hs'))
            · intro e he
              simp only [List.mem_singleton] at he
              subst he
              exact ⟨alt, by simp [seenTxs], rfl, rfl, hlist.symm⟩
  | promote f =>
    simp only [step, promote] at hs
    cases hf : m.pending.find? (fun s => s.funding == f) with
    | none => simp [hf] at hs
    | some s0 =>
      simp only [hf, Option.some.injEq] at hs
      subst hs
      intro s hs'
      simp only [Mon.scopes, List.mem_cons, List.not_mem_nil, or_false] at hs'
      subst hs'
      exact hmono _ (hi s (List.mem_cons_of_mem _ (List.mem_of_find?_eq_some hf)))

theorem run_inv : ∀ (ops : List Op) (seen : List CTx) (m m' : Mon), Inv seen m → run m ops = some m' →
    Inv (seen ++ seenTxs ops) m'
  | [], seen, m, m', hi, hr => by
    simp only [run, Option.some.injEq] at hr
    subst hr
    simpa [seenTxs] using hi
  | op :: rest, seen, m, m', hi, hr => by
    simp only [run] at hr
    cases hs : step m op with
    | none => simp [hs] at hr
    | some m1 =>
      simp only [hs, Option.bind_some] at hr
      have h1 := step_inv op hi hs
      have h2 := run_inv rest _ m1 m' h1 hr
      rw [seenTxs_cons, ← List.append_assoc]
      exact h2

theorem mem_of_lookup {α : Type} (k : Nat) : ∀ (l : List (Nat × α)) (v : α), l.lookup k = some v → (k, v) ∈ l
  | [], _, h => by simp at h
  | (k', v') :: rest, v, h => by
    simp only [List.lookup_cons] at h
    by_cases hk : k = k'
    · subst hk
      simp at h
      simp [h]
    · have : (k == k') = false := by simpa using hk
      simp only [this] at h
      exact List.mem_cons_of_mem _ (mem_of_lookup k rest v h)

/-! ### verify_matching_commitment_transactions: all versions of one counterparty commitment agree (round 6) -/

/-- what `is_data_equal` compares -/
def hkey (h : Htlc) : Bool × Nat × Nat := (h.offered, h.amtMsat, h.cltv)

theorem zip_dataEq_iff : ∀ (l1 l2 : List Htlc), l1.length = l2.length →
    ((List.zipWith dataEq l1 l2).all id = true ↔ l1.map hkey = l2.map hkey)
  | [], [], _ => by simp
  | [], _ :: _, h => by simp at h
  | _ :: _, [], h => by simp at h
  | a :: l1, b :: l2, h => by
    have ih := zip_dataEq_iff l1 l2 (by simpa using h)
    simp only [List.zipWith_cons_cons, List.all_cons, Bool.and_eq_true, id, List.map_cons, List.cons.injEq, ih, dataEq_iff, hkey,
      Prod.mk.injEq]

/-- two versions (one per funding scope) of the same counterparty commitment: same commitment number, same per-commitment point —
    so the ONE secret of that number revokes both —, same feerate, and the same non-dust HTLCs in the same order -/
def Agree (a b : CTx) : Prop :=
  a.num = b.num ∧ a.point = b.point ∧ a.feerate = b.feerate ∧ a.htlcs.map hkey = b.htlcs.map hkey

theorem Agree.refl (a : CTx) : Agree a a := ⟨rfl, rfl, rfl, rfl⟩
theorem Agree.symm {a b : CTx} (h : Agree a b) : Agree b a := ⟨h.1.symm, h.2.1.symm, h.2.2.1.symm, h.2.2.2.symm⟩
theorem Agree.trans {a b c : CTx} (h1 : Agree a b) (h2 : Agree b c) : Agree a c :=
  ⟨h1.1.trans h2.1, h1.2.1.trans h2.2.1, h1.2.2.1.trans h2.2.2.1, h1.2.2.2.trans h2.2.2.2⟩

/-- needs EVERY comparison of the translated `Gen.versionMismatch`: a dropped / weakened one leaves a case open -/
theorem versionMismatch_none {a b : CTx} (h : versionMismatch a b = none) : Agree a b := by
  unfold versionMismatch Gen.versionMismatch at h
  by_cases h1 : a.num = b.num
  · by_cases h2 : a.point = b.point
    · by_cases h3 : a.feerate = b.feerate
      · by_cases h4 : a.htlcs.length = b.htlcs.length
        · by_cases h5 : htlcsDataEqual a b = true
          · exact ⟨h1, h2, h3, (zip_dataEq_iff _ _ h4).mp h5⟩
          · simp [h1, h2, h3, h4, h5] at h
        · simp [h1, h2, h3, h4] at h
      · simp [h1, h2, h3] at h
    · simp [h1, h2] at h
  · simp [h1] at h

theorem verifyLoop_agree (ref : CTx) : ∀ (ss : List Scope) (ts : List CTx) (o : CTx), ss.length = ts.length → Agree o ref →
    verifyLoop (some o) ss ts = none → ∀ t ∈ ts, Agree t ref
  | [], [], _, _, _, _ => by simp
  | [], _ :: _, _, h, _, _ => by simp at h
  | _ :: _, [], _, h, _, _ => by simp at h
  | s :: ss, t :: ts, o, hl, ho, hv => by
    unfold verifyLoop at hv
    by_cases hf : (t.funding != s.funding) = true
    · simp [hf] at hv
    · simp only [hf, Bool.false_eq_true, ↓reduceIte, Option.bind_some] at hv
      cases hm : versionMismatch t o with
      | some e => simp [hm] at hv
      | none =>
        simp only [hm] at hv
        have hto : Agree t ref := (versionMismatch_none hm).trans ho
        -- every transaction is compared with its predecessor (TRANSLATED: `other_commitment_tx = Some(commitment_tx)`)
        simp only [Gen.verifyOtherIsPredecessor, ↓reduceIte] at hv
        have ih := verifyLoop_agree ref ss ts t (by simpa using hl) hto hv
        intro x hx
        rcases List.mem_cons.mp hx with rfl | hx
        · exact hto
        · exact ih x hx

theorem verifyMatching_agree {m : Mon} {txs : List CTx} (h : verifyMatching m txs = none) :
    ∀ a ∈ txs, ∀ b ∈ txs, Agree a b := by
  unfold verifyMatching at h
  split at h
  · simp at h
  · rename_i hlen
    cases txs with
    | nil => intro a ha; simp at ha
    | cons t0 rest =>
      have hl : m.pending.length = rest.length := by simpa using hlen
      unfold verifyLoop at h
      by_cases hf : (t0.funding != m.locked.funding) = true
      · simp [hf] at h
      · simp only [hf, Bool.false_eq_true, ↓reduceIte, Option.bind_none, Gen.verifyOtherIsPredecessor] at h
        have hall : ∀ t ∈ t0 :: rest, Agree t t0 := by
          intro t ht
          rcases List.mem_cons.mp ht with rfl | ht
          · exact Agree.refl _
          · exact verifyLoop_agree t0 m.pending rest t0 hl (Agree.refl _) h t ht
        intro a ha b hb
        exact (hall a ha).trans (hall b hb).symm

theorem run_commits_agree : ∀ (ops : List Op) (m m' : Mon), run m ops = some m' →
    ∀ txs ∈ seenCommits ops, ∀ a ∈ txs, ∀ b ∈ txs, Agree a b
  | [], _, _, _ => by simp [seenCommits]
  | op :: rest, m, m', hr => by
    simp only [run] at hr
    cases hs : step m op with
    | none => simp [hs] at hr
    | some m1 =>
      simp only [hs, Option.bind_some] at hr
      have ih := run_commits_agree rest m1 m' hr
      cases op with
      | commit txs =>
        intro t ht
        simp only [seenCommits, List.mem_cons] at ht
        rcases ht with rfl | ht
        · simp only [step, updateCommitmentData] at hs
          cases hv : verifyMatching m t with
          | some e => simp [hv] at hs
          | none => exact verifyMatching_agree hv
        · exact ih t ht
      | reneg alt => simpa [seenCommits] using ih
      | promote f => simpa [seenCommits] using ih

end Ldk.ScopeData
