/- A commitment_signed in flight always equals the signer's CURRENT signing view (the signer is awaiting
   the revoke_and_ack and nothing it may process meanwhile changes that view); amounts of the two
   copies of an HTLC agree. Core only. -/
import LdkModel.Proofs.Channel.Refine
namespace Ldk.Chan

/-! ### when two nodes have the same view -/

theorem buildView_eq_of {n n' : Node} (l g : Bool) (hv : n'.valueToSelf = n.valueToSelf)
    (h1 : (n'.inb.filter (fun h => h.st.included g)).map (fun h => (h.id, h.amt))
        = (n.inb.filter (fun h => h.st.included g)).map (fun h => (h.id, h.amt)))
    (h2 : (n'.outb.filter (fun h => h.st.included g)).map (fun h => (h.id, h.amt))
        = (n.outb.filter (fun h => h.st.included g)).map (fun h => (h.id, h.amt)))
    (h3 : (n'.inb.filter (fun h => !(h.st.included g) && h.st.hasPreimage)).map (·.amt)
        = (n.inb.filter (fun h => !(h.st.included g) && h.st.hasPreimage)).map (·.amt))
    (h4 : (n'.outb.filter (fun h => !(h.st.included g) && h.st.hasPreimage)).map (·.amt)
        = (n.outb.filter (fun h => !(h.st.included g) && h.st.hasPreimage)).map (·.amt)) :
    n'.buildView l g = n.buildView l g := by
  have e1 : ∀ (b : Bool) (L : List InHtlc), L.map (fun h => (b, h.id, h.amt))
      = (L.map (fun h => (h.id, h.amt))).map (fun p => (b, p.1, p.2)) := by
    intro b L; simp [List.map_map]
  have e2 : ∀ (b : Bool) (L : List OutHtlc), L.map (fun h => (b, h.id, h.amt))
      = (L.map (fun h => (h.id, h.amt))).map (fun p => (b, p.1, p.2)) := by
    intro b L; simp [List.map_map]
  unfold Node.buildView
  simp only
  rw [e1, e2, e1 _ (List.filter _ n.inb), e2 _ (List.filter _ n.outb), h1, h2, h3, h4, hv]

theorem proj_map_congr {α β : Type} (l : List α) (g : α → α) (p : α → Bool) (F : α → β)
    (hp : ∀ x ∈ l, p (g x) = p x) (hF : ∀ x ∈ l, F (g x) = F x) :
    ((l.map g).filter p).map F = (l.filter p).map F := by
  induction l with
  | nil => rfl
  | cons x l ih =>
    have ih' := ih (fun y hy => hp y (List.mem_cons_of_mem _ hy)) (fun y hy => hF y (List.mem_cons_of_mem _ hy))
    have hpx := hp x (by simp)
    have hFx := hF x (by simp)
    simp only [List.map_cons, List.filter_cons, hpx]
    split
    · simp only [List.map_cons, hFx, ih']
    · exact ih'

/-- an id- and amount-preserving rewrite of the per-HTLC states that changes neither inclusion nor the
    claimed-value test (for `generated_by_local = g`) leaves the view unchanged -/
theorem buildView_map {n n' : Node} (l g : Bool) (gi : InHtlc → InHtlc) (go : OutHtlc → OutHtlc)
    (hv : n'.valueToSelf = n.valueToSelf) (hi : n'.inb = n.inb.map gi) (ho : n'.outb = n.outb.map go)
    (hgi : ∀ h ∈ n.inb, (gi h).id = h.id ∧ (gi h).amt = h.amt ∧ (gi h).st.included g = h.st.included g ∧
      (!((gi h).st.included g) && (gi h).st.hasPreimage) = (!(h.st.included g) && h.st.hasPreimage))
    (hgo : ∀ h ∈ n.outb, (go h).id = h.id ∧ (go h).amt = h.amt ∧ (go h).st.included g = h.st.included g ∧
      (!((go h).st.included g) && (go h).st.hasPreimage) = (!(h.st.included g) && h.st.hasPreimage)) :
    n'.buildView l g = n.buildView l g := by
  apply buildView_eq_of l g hv
  · rw [hi]; exact proj_map_congr _ gi _ _ (fun x hx => (hgi x hx).2.2.1) (fun x hx => by rw [(hgi x hx).1, (hgi x hx).2.1])
  · rw [ho]; exact proj_map_congr _ go _ _ (fun x hx => (hgo x hx).2.2.1) (fun x hx => by rw [(hgo x hx).1, (hgo x hx).2.1])
  · rw [hi]; exact proj_map_congr _ gi _ _ (fun x hx => (hgi x hx).2.2.2) (fun x hx => (hgi x hx).2.1)
  · rw [ho]; exact proj_map_congr _ go _ _ (fun x hx => (hgo x hx).2.2.2) (fun x hx => (hgo x hx).2.1)

/-! ### table lemmas (generated tables): what does not change the signing view -/

theorem in_onCS_signing (st : InState) : st.onCommitmentSigned.included true = st.included true ∧
    (!(st.onCommitmentSigned.included true) && st.onCommitmentSigned.hasPreimage) = (!(st.included true) && st.hasPreimage) := by
  cases st <;> exact ⟨rfl, rfl⟩

theorem out_onCS_signing (st : OutState) : st.onCommitmentSigned.included true = st.included true ∧
    (!(st.onCommitmentSigned.included true) && st.onCommitmentSigned.hasPreimage) = (!(st.included true) && st.hasPreimage) := by
  cases st <;> exact ⟨rfl, rfl⟩

theorem out_removed_signing (ok : Bool) : (OutState.remoteRemoved ok).included true = OutState.committed.included true ∧
    (!((OutState.remoteRemoved ok).included true) && (OutState.remoteRemoved ok).hasPreimage)
      = (!(OutState.committed.included true) && OutState.committed.hasPreimage) := ⟨rfl, rfl⟩

theorem in_announced_signing : InState.remoteAnnounced.included true = false ∧
    (!(InState.remoteAnnounced.included true) && InState.remoteAnnounced.hasPreimage) = false := ⟨rfl, rfl⟩

theorem sorted_unique {α : Type} {key : α → Nat} {l : List α} (hs : Sorted key l) {x y : α} (hx : x ∈ l) (hy : y ∈ l)
    (e : key x = key y) : x = y := by
  have h1 := mem_lookup hs hx
  have h2 := mem_lookup hs hy
  rw [e, h2] at h1
  injection h1 with h1; exact h1.symm

/-- processing any message other than a revoke_and_ack leaves the signing view unchanged -/
theorem onMsg_signing_view {n n' : Node} {total : Nat} {m : Msg} {ok : Bool} (hok : NodeOK n)
    (h : n.onMsg total m = some (n', ok)) (hm : m ≠ .raa) : n'.buildView false true = n.buildView false true := by
  cases m with
  | raa => exact absurd rfl hm
  | add id amt =>
    obtain ⟨_, _, e⟩ := onMsg_add h
    subst e
    refine buildView_eq_of false true ?_ ?_ ?_ ?_ ?_
    · rfl
    · simp [List.filter_append, in_announced_signing.1]
    · rfl
    · simp [List.filter_append, in_announced_signing.1, InState.hasPreimage]
    · rfl
  | cs c =>
    obtain ⟨e, _⟩ := onMsg_cs h
    subst e
    exact buildView_map false true _ _ rfl rfl rfl
      (fun h _ => ⟨rfl, rfl, (in_onCS_signing h.st).1, (in_onCS_signing h.st).2⟩)
      (fun h _ => ⟨rfl, rfl, (out_onCS_signing h.st).1, (out_onCS_signing h.st).2⟩)
  | fulfill id =>
    obtain ⟨⟨x, hx, hxid, hxst⟩, _, e⟩ := onMsg_fulfill h
    subst e
    refine buildView_map false true (fun h => h) (fun h => if h.id = id then { h with st := .remoteRemoved true } else h) rfl
      (by simp) rfl (fun h _ => ⟨rfl, rfl, rfl, rfl⟩) ?_
    intro h hh
    by_cases e : h.id = id
    · have : h = x := sorted_unique hok.sOut hh hx (by rw [e, hxid])
      subst this
      simp only [e, if_true, hxst]
      exact ⟨trivial, trivial, (out_removed_signing true).1, (out_removed_signing true).2⟩
    · simp [e]
  | fail id =>
    obtain ⟨⟨x, hx, hxid, hxst⟩, _, e⟩ := onMsg_fail h
    subst e
    refine buildView_map false true (fun h => h) (fun h => if h.id = id then { h with st := .remoteRemoved false } else h) rfl
      (by simp) rfl (fun h _ => ⟨rfl, rfl, rfl, rfl⟩) ?_
    intro h hh
    by_cases e : h.id = id
    · have : h = x := sorted_unique hok.sOut hh hx (by rw [e, hxid])
      subst this
      simp only [e, if_true, hxst]
      exact ⟨trivial, trivial, (out_removed_signing false).1, (out_removed_signing false).2⟩
    · simp [e]

/-! ### the invariant -/

/-- every commitment_signed of `a` still in the a→b stream is `a`'s current signing view -/
def ViewA (s : Sys) : Prop := ∀ c, Msg.cs c ∈ s.fullAB → c = s.a.buildView false true

theorem ViewA.init (va vb : Nat) : ViewA (Sys.init va vb) := by
  intro c hc
  simp [Sys.fullAB, Sys.init, full, Node.init] at hc

theorem cs_mem_tok {l : List Msg} {c : Commit} (h : Msg.cs c ∈ l) (id : Nat) : (l.filterMap (tokF id)).contains .cs = true := by
  simp only [List.contains_iff_mem, List.mem_filterMap]
  exact ⟨Msg.cs c, h, rfl⟩

theorem cs_mem_batch {n : Node} {adds fu fa : List Nat} {c : Commit} (h : Msg.cs c ∈ batchOf n adds fu fa) :
    c = (n.built adds fu fa).buildView false true := by
  unfold batchOf at h
  simp only [List.mem_append, List.mem_map, List.mem_singleton, Msg.cs.injEq] at h
  rcases h with ((h | h) | h) | h
  · exfalso
    have : ∀ (amts : List Nat) (k : Nat), Msg.cs c ∉ mkAdds k amts := by
      intro amts
      induction amts with
      | nil => intro k hm; cases hm
      | cons a as ih => intro k hm; simp only [mkAdds, List.mem_cons] at hm; rcases hm with hm | hm; cases hm; exact ih _ hm
    exact this _ _ h
  · obtain ⟨_, _, h⟩ := h; cases h
  · obtain ⟨_, _, h⟩ := h; cases h
  · exact h

theorem ViewA.step {s s' : Sys} {e : Ev} (hv : ViewA s) (hg : GoodA s) (hb : Base s) (h : stepG s e = some s') :
    ViewA s' := by
  obtain ⟨hk, h⟩ := stepG_some h
  cases e with
  | commit x adds fu fa =>
    cases x
    · obtain ⟨_, n, ms, _, e⟩ := step_commit_false h
      subst e; exact hv
    · obtain ⟨hp, n, ms, hc, e⟩ := step_commit_true h
      obtain ⟨haw, _, en, ems⟩ := commit_some hc
      subst e; subst en; subst ems
      intro c hc
      have hfwd : ({ s with a := ({ s.a.built adds fu fa with awaitingRaa := true, csSent := s.a.csSent + 1 } : Node),
                            pendA := batchOf s.a adds fu fa, needRaaA := s.a.raaSent + s.a.owesRaa } : Sys).fullAB
          = s.fullAB ++ batchOf s.a adds fu fa := by
        show full s.qab (batchOf s.a adds fu fa) (s.a.raaSent + s.a.owesRaa) s.a.raaSent s.a.owesRaa = _
        rw [full_commit _ _ (batchOf_ne_nil _ _ _ _)]
        unfold Sys.fullAB
        rw [hp, full_nil_pend, full_nil_pend]
      rw [hfwd] at hc
      rcases List.mem_append.1 hc with hc | hc
      · exfalso
        have h1 := good_no_cs _ (hg 0)
        have h2 := cs_mem_tok hc 0
        simp only [cfgA, haw, Bool.false_or, Bool.not_eq_true'] at h1
        rw [h2] at h1; cases h1
      · exact cs_mem_batch hc
  | release x =>
    cases x
    · obtain ⟨_, _, e⟩ := step_release_false h
      subst e; exact hv
    · obtain ⟨_, hlt, e⟩ := step_release_true h
      subst e
      intro c hc
      have hf : ({ s with qab := s.qab ++ s.pendA, pendA := [] } : Sys).fullAB = s.fullAB := full_release _ _ _ _ _ hlt
      rw [hf] at hc; exact hv c hc
  | sendRaa x =>
    cases x
    · obtain ⟨_, e⟩ := step_sendRaa_false h
      subst e; exact hv
    · obtain ⟨ho, e⟩ := step_sendRaa_true h
      subst e
      intro c hc
      have hgd : s.pendA = [] ∨ s.a.raaSent < s.needRaaA := by simpa [evOk] using hk
      have hf : ({ s with a := { s.a with owesRaa := s.a.owesRaa - 1, raaSent := s.a.raaSent + 1 }, qab := s.qab ++ [Msg.raa] } : Sys).fullAB
          = s.fullAB := full_sendRaa _ _ _ _ _ ho hgd hb.need
      rw [hf] at hc; exact hv c hc
  | recv y =>
    cases y
    · obtain ⟨m, rest, n, okb, hq, hm, e⟩ := step_recv_false h
      subst e
      intro c hc
      have hpop : s.fullAB = m :: ({ s with b := n, qab := rest, agreed := s.agreed && okb } : Sys).fullAB := by
        show full s.qab s.pendA s.needRaaA s.a.raaSent s.a.owesRaa = m :: full rest s.pendA s.needRaaA s.a.raaSent s.a.owesRaa
        rw [hq, full_pop]
      exact hv c (by rw [hpop]; exact List.mem_cons_of_mem _ hc)
    · obtain ⟨m, rest, n, okb, hq, hm, e⟩ := step_recv_true h
      subst e
      intro c hc
      have hsub : Msg.cs c ∈ s.fullAB := by
        have hc' : Msg.cs c ∈ full s.qab s.pendA s.needRaaA n.raaSent n.owesRaa := hc
        cases m with
        | cs c' =>
          obtain ⟨e1, e2⟩ := onMsg_sent_owes hm
          rw [e1, e2, full_owe _ _ _ _ _ hb.need] at hc'
          rcases List.mem_append.1 hc' with hc' | hc'
          · exact hc'
          · simp at hc'
        | add _ _ => obtain ⟨e1, e2⟩ := onMsg_sent_owes hm; rw [e1, e2] at hc'; exact hc'
        | fulfill _ => obtain ⟨e1, e2⟩ := onMsg_sent_owes hm; rw [e1, e2] at hc'; exact hc'
        | fail _ => obtain ⟨e1, e2⟩ := onMsg_sent_owes hm; rw [e1, e2] at hc'; exact hc'
        | raa => obtain ⟨e1, e2⟩ := onMsg_sent_owes hm; rw [e1, e2] at hc'; exact hc'
      have hnr : m ≠ .raa := by
        intro hmr
        subst hmr
        have h1 := good_cs_no_raa _ (hg 0)
        have h2 := cs_mem_tok hsub 0
        have h3 : (cfgA s 0).bwd.head? = some .raa := by
          show (List.filterMap (tokB 0) s.fullBA).head? = _
          have : s.fullBA = Msg.raa :: full rest s.pendB s.needRaaB s.b.raaSent s.b.owesRaa := by
            show full s.qba s.pendB s.needRaaB s.b.raaSent s.b.owesRaa = _
            rw [hq, full_pop]
          rw [this]; rfl
        simp only [cfgA] at h1 h3
        rw [h2, h3] at h1
        cases h1
      show c = n.buildView false true
      rw [onMsg_signing_view hb.ok hm hnr]
      exact hv c hsub

/-! ### what can enter the a→b stream -/

theorem fullAB_mem_step {s s' : Sys} {e : Ev} (hb : Base s) (h : stepG s e = some s') :
    ∀ x ∈ s'.fullAB, x ∈ s.fullAB ∨ x = .raa ∨ ∃ adds fu fa, e = .commit true adds fu fa ∧ x ∈ batchOf s.a adds fu fa := by
  obtain ⟨hk, h⟩ := stepG_some h
  intro x hx
  cases e with
  | commit y adds fu fa =>
    cases y
    · obtain ⟨_, n, ms, _, e⟩ := step_commit_false h
      subst e; exact Or.inl hx
    · obtain ⟨hp, n, ms, hc, e⟩ := step_commit_true h
      obtain ⟨haw, _, en, ems⟩ := commit_some hc
      subst e; subst en; subst ems
      have hfwd : ({ s with a := ({ s.a.built adds fu fa with awaitingRaa := true, csSent := s.a.csSent + 1 } : Node),
                            pendA := batchOf s.a adds fu fa, needRaaA := s.a.raaSent + s.a.owesRaa } : Sys).fullAB
          = s.fullAB ++ batchOf s.a adds fu fa := by
        show full s.qab (batchOf s.a adds fu fa) (s.a.raaSent + s.a.owesRaa) s.a.raaSent s.a.owesRaa = _
        rw [full_commit _ _ (batchOf_ne_nil _ _ _ _)]
        unfold Sys.fullAB
        rw [hp, full_nil_pend, full_nil_pend]
      rw [hfwd] at hx
      rcases List.mem_append.1 hx with hx | hx
      · exact Or.inl hx
      · exact Or.inr (Or.inr ⟨adds, fu, fa, rfl, hx⟩)
  | release y =>
    cases y
    · obtain ⟨_, _, e⟩ := step_release_false h
      subst e; exact Or.inl hx
    · obtain ⟨_, hlt, e⟩ := step_release_true h
      subst e
      have hf : ({ s with qab := s.qab ++ s.pendA, pendA := [] } : Sys).fullAB = s.fullAB := full_release _ _ _ _ _ hlt
      rw [hf] at hx; exact Or.inl hx
  | sendRaa y =>
    cases y
    · obtain ⟨_, e⟩ := step_sendRaa_false h
      subst e; exact Or.inl hx
    · obtain ⟨ho, e⟩ := step_sendRaa_true h
      subst e
      have hgd : s.pendA = [] ∨ s.a.raaSent < s.needRaaA := by simpa [evOk] using hk
      have hf : ({ s with a := { s.a with owesRaa := s.a.owesRaa - 1, raaSent := s.a.raaSent + 1 }, qab := s.qab ++ [Msg.raa] } : Sys).fullAB
          = s.fullAB := full_sendRaa _ _ _ _ _ ho hgd hb.need
      rw [hf] at hx; exact Or.inl hx
  | recv y =>
    cases y
    · obtain ⟨m, rest, n, okb, hq, hm, e⟩ := step_recv_false h
      subst e
      have hpop : s.fullAB = m :: ({ s with b := n, qab := rest, agreed := s.agreed && okb } : Sys).fullAB := by
        show full s.qab s.pendA s.needRaaA s.a.raaSent s.a.owesRaa = m :: full rest s.pendA s.needRaaA s.a.raaSent s.a.owesRaa
        rw [hq, full_pop]
      exact Or.inl (by rw [hpop]; exact List.mem_cons_of_mem _ hx)
    · obtain ⟨m, rest, n, okb, hq, hm, e⟩ := step_recv_true h
      subst e
      have hx' : x ∈ full s.qab s.pendA s.needRaaA n.raaSent n.owesRaa := hx
      cases m with
      | cs c' =>
        obtain ⟨e1, e2⟩ := onMsg_sent_owes hm
        rw [e1, e2, full_owe _ _ _ _ _ hb.need] at hx'
        rcases List.mem_append.1 hx' with hx' | hx'
        · exact Or.inl hx'
        · exact Or.inr (Or.inl (by simpa using hx'))
      | add _ _ => obtain ⟨e1, e2⟩ := onMsg_sent_owes hm; rw [e1, e2] at hx'; exact Or.inl hx'
      | fulfill _ => obtain ⟨e1, e2⟩ := onMsg_sent_owes hm; rw [e1, e2] at hx'; exact Or.inl hx'
      | fail _ => obtain ⟨e1, e2⟩ := onMsg_sent_owes hm; rw [e1, e2] at hx'; exact Or.inl hx'
      | raa => obtain ⟨e1, e2⟩ := onMsg_sent_owes hm; rw [e1, e2] at hx'; exact Or.inl hx'

/-! ### where the elements of the new lists come from -/

theorem onMsg_from {n n' : Node} {total : Nat} {m : Msg} {ok : Bool} (h : n.onMsg total m = some (n', ok)) :
    n'.nextOutId = n.nextOutId ∧
    (∀ h ∈ n'.outb, ∃ x ∈ n.outb, x.id = h.id ∧ x.amt = h.amt) ∧
    (∀ h ∈ n'.inb, (∃ x ∈ n.inb, x.id = h.id ∧ x.amt = h.amt) ∨ m = .add h.id h.amt) := by
  cases m with
  | add id amt =>
    obtain ⟨_, _, e⟩ := onMsg_add h
    subst e
    refine ⟨rfl, fun h hh => ⟨h, hh, rfl, rfl⟩, ?_⟩
    intro h hh
    rcases List.mem_append.1 hh with hh | hh
    · exact Or.inl ⟨h, hh, rfl, rfl⟩
    · simp at hh; subst hh; exact Or.inr rfl
  | fulfill id =>
    obtain ⟨_, _, e⟩ := onMsg_fulfill h
    subst e
    refine ⟨rfl, ?_, fun h hh => Or.inl ⟨h, hh, rfl, rfl⟩⟩
    intro h hh
    obtain ⟨x, hx, e⟩ := List.mem_map.1 hh
    refine ⟨x, hx, ?_⟩
    subst e
    by_cases c : x.id = id <;> simp [c]
  | fail id =>
    obtain ⟨_, _, e⟩ := onMsg_fail h
    subst e
    refine ⟨rfl, ?_, fun h hh => Or.inl ⟨h, hh, rfl, rfl⟩⟩
    intro h hh
    obtain ⟨x, hx, e⟩ := List.mem_map.1 hh
    refine ⟨x, hx, ?_⟩
    subst e
    by_cases c : x.id = id <;> simp [c]
  | cs c =>
    obtain ⟨e, _⟩ := onMsg_cs h
    subst e
    refine ⟨rfl, ?_, ?_⟩
    · intro h hh
      obtain ⟨x, hx, e⟩ := List.mem_map.1 hh
      subst e; exact ⟨x, hx, rfl, rfl⟩
    · intro h hh
      obtain ⟨x, hx, e⟩ := List.mem_map.1 hh
      subst e; exact Or.inl ⟨x, hx, rfl, rfl⟩
  | raa =>
    obtain ⟨hr, _⟩ := onMsg_raa h
    obtain ⟨_, e⟩ := onRaa_some hr
    subst e
    refine ⟨rfl, ?_, ?_⟩
    · intro h hh
      obtain ⟨x, hx, e⟩ := List.mem_map.1 hh
      subst e; exact ⟨x, (List.mem_filter.1 hx).1, (raaMapOut_id x).symm, (raaMapOut_amt x).symm⟩
    · intro h hh
      obtain ⟨x, hx, e⟩ := List.mem_map.1 hh
      subst e; exact Or.inl ⟨x, (List.mem_filter.1 hx).1, (raaMapIn_id x).symm, (raaMapIn_amt x).symm⟩

theorem foldl_setIn_from (st : InState) (ids : List Nat) : ∀ (l : List InHtlc),
    ∀ h ∈ ids.foldl (fun l id => setIn l id (fun _ => st)) l, ∃ x ∈ l, x.id = h.id ∧ x.amt = h.amt := by
  induction ids with
  | nil => intro l h hh; exact ⟨h, hh, rfl, rfl⟩
  | cons i is ih =>
    intro l h hh
    obtain ⟨y, hy, e1, e2⟩ := ih _ h hh
    obtain ⟨x, hx, e⟩ := List.mem_map.1 hy
    refine ⟨x, hx, ?_⟩
    subst e
    by_cases c : x.id = i <;> simp [c] at e1 e2 ⊢ <;> exact ⟨e1, e2⟩

theorem built_from (n : Node) (adds fu fa : List Nat) :
    (∀ h ∈ (n.built adds fu fa).inb, ∃ x ∈ n.inb, x.id = h.id ∧ x.amt = h.amt) ∧
    (∀ h ∈ (n.built adds fu fa).outb, ∃ x ∈ n.outb ++ mkOuts n.nextOutId adds, x.id = h.id ∧ x.amt = h.amt) := by
  refine ⟨?_, ?_⟩
  · intro h hh
    obtain ⟨y, hy, e⟩ := List.mem_map.1 hh
    obtain ⟨z, hz, e1, e2⟩ := foldl_setIn_from _ _ _ y hy
    obtain ⟨x, hx, e3, e4⟩ := foldl_setIn_from _ _ _ z hz
    subst e
    exact ⟨x, hx, by simp only; omega, by simp only; omega⟩
  · intro h hh
    obtain ⟨y, hy, e⟩ := List.mem_map.1 hh
    subst e
    exact ⟨y, hy, rfl, rfl⟩

theorem mkAdds_lower (amts : List Nat) : ∀ k id amt, Msg.add id amt ∈ mkAdds k amts → k ≤ id ∧ id < k + amts.length := by
  induction amts with
  | nil => intro k id amt h; cases h
  | cons a as ih =>
    intro k id amt h
    simp only [mkAdds, List.mem_cons, Msg.add.injEq] at h
    rcases h with ⟨e, _⟩ | h
    · subst e; simp
    · have := ih (k + 1) id amt h
      simp only [List.length_cons]; omega

theorem mkAdds_mkOuts (amts : List Nat) : ∀ k id amt, Msg.add id amt ∈ mkAdds k amts →
    ∀ h ∈ mkOuts k amts, h.id = id → h.amt = amt := by
  induction amts with
  | nil => intro k id amt h; cases h
  | cons a as ih =>
    intro k id amt h x hx hid
    simp only [mkAdds, List.mem_cons, Msg.add.injEq] at h
    simp only [mkOuts, List.mem_cons] at hx
    rcases h with ⟨e1, e2⟩ | h
    · rcases hx with e | hx
      · subst e; simp only; omega
      · have := mkOuts_lower as (k + 1) x hx; omega
    · rcases hx with e | hx
      · subst e
        have := mkAdds_lower as (k + 1) id amt h
        simp only at hid; omega
      · exact ih (k + 1) id amt h x hx hid

theorem add_mem_batch {n : Node} {adds fu fa : List Nat} {id amt : Nat} (h : Msg.add id amt ∈ batchOf n adds fu fa) :
    Msg.add id amt ∈ mkAdds n.nextOutId adds := by
  unfold batchOf at h
  simp only [List.mem_append, List.mem_map, List.mem_singleton] at h
  rcases h with ((h | h) | h) | h
  · exact h
  · obtain ⟨_, _, h⟩ := h; cases h
  · obtain ⟨_, _, h⟩ := h; cases h
  · cases h

/-! ### amounts and id ranges of the two copies of an HTLC agree -/

structure Amt (s : Sys) : Prop where
  a1 : ∀ h ∈ s.a.outb, ∀ h' ∈ s.b.inb, h.id = h'.id → h.amt = h'.amt
  a2 : ∀ id amt, Msg.add id amt ∈ s.fullAB → ∀ h ∈ s.a.outb, h.id = id → h.amt = amt
  b1 : ∀ h' ∈ s.b.inb, h'.id < s.a.nextOutId
  b2 : ∀ id amt, Msg.add id amt ∈ s.fullAB → id < s.a.nextOutId

theorem Amt.init (va vb : Nat) : Amt (Sys.init va vb) := by
  refine ⟨?_, ?_, ?_, ?_⟩
  · intro h hh; cases hh
  · intro id amt h x hx; cases hx
  · intro h hh; cases hh
  · intro id amt h; simp [Sys.fullAB, Sys.init, full, Node.init] at h

theorem Amt.step {s s' : Sys} {e : Ev} (ha : Amt s) (hb : Base s) (h : stepG s e = some s') : Amt s' := by
  have hmem := fullAB_mem_step hb h
  obtain ⟨hk, h⟩ := stepG_some h
  have hadd : ∀ id amt, Msg.add id amt ∈ s'.fullAB → Msg.add id amt ∈ s.fullAB ∨
      ∃ adds fu fa, e = .commit true adds fu fa ∧ Msg.add id amt ∈ mkAdds s.a.nextOutId adds := by
    intro id amt hx
    rcases hmem _ hx with h1 | h1 | ⟨adds, fu, fa, e1, e2⟩
    · exact Or.inl h1
    · cases h1
    · exact Or.inr ⟨adds, fu, fa, e1, add_mem_batch e2⟩
  cases e with
  | commit y adds fu fa =>
    cases y
    · obtain ⟨_, n, ms, hc, e⟩ := step_commit_false h
      obtain ⟨_, _, en, _⟩ := commit_some hc
      subst e; subst en
      have hfrom := (built_from s.b adds fu fa).1
      refine ⟨?_, ?_, ?_, ?_⟩
      · intro x hx x' hx' hid
        obtain ⟨y, hy, e1, e2⟩ := hfrom x' hx'
        rw [← e2]; exact ha.a1 x hx y hy (by omega)
      · intro id amt hm
        rcases hadd id amt hm with h1 | ⟨_, _, _, e1, _⟩
        · exact ha.a2 id amt h1
        · cases e1
      · intro x' hx'
        obtain ⟨y, hy, e1, _⟩ := hfrom x' hx'
        have := ha.b1 y hy
        show x'.id < s.a.nextOutId
        omega
      · intro id amt hm
        rcases hadd id amt hm with h1 | ⟨_, _, _, e1, _⟩
        · exact ha.b2 id amt h1
        · cases e1
    · obtain ⟨hp, n, ms, hc, e⟩ := step_commit_true h
      obtain ⟨haw, _, en, ems⟩ := commit_some hc
      subst e; subst en; subst ems
      have hfrom := (built_from s.a adds fu fa).2
      refine ⟨?_, ?_, ?_, ?_⟩
      · intro x hx x' hx' hid
        obtain ⟨y, hy, e1, e2⟩ := hfrom x hx
        rcases List.mem_append.1 hy with hy | hy
        · rw [← e2]; exact ha.a1 y hy x' hx' (by omega)
        · have := (mkOuts_lower adds _ y hy).1
          have := ha.b1 x' hx'
          omega
      · intro id amt hm x hx hid
        obtain ⟨y, hy, e1, e2⟩ := hfrom x hx
        rcases hadd id amt hm with h1 | ⟨adds', fu', fa', e3, h1⟩
        · rcases List.mem_append.1 hy with hy | hy
          · rw [← e2]; exact ha.a2 id amt h1 y hy (by omega)
          · have := (mkOuts_lower adds _ y hy).1
            have := ha.b2 id amt h1
            omega
        · injection e3 with _ e3 _ _
          subst e3
          rcases List.mem_append.1 hy with hy | hy
          · have := hb.ok.bOut y hy
            have := (mkAdds_lower _ _ _ _ h1).1
            omega
          · rw [← e2]; exact mkAdds_mkOuts _ _ _ _ h1 y hy (by omega)
      · intro x' hx'
        have := ha.b1 x' hx'
        show x'.id < s.a.nextOutId + adds.length
        omega
      · intro id amt hm
        show id < s.a.nextOutId + adds.length
        rcases hadd id amt hm with h1 | ⟨adds', fu', fa', e3, h1⟩
        · have := ha.b2 id amt h1; omega
        · injection e3 with _ e3 _ _
          subst e3
          exact (mkAdds_lower _ _ _ _ h1).2
  | release y =>
    have hadd' : ∀ id amt, Msg.add id amt ∈ s'.fullAB → Msg.add id amt ∈ s.fullAB := by
      intro id amt hm
      rcases hadd id amt hm with h1 | ⟨_, _, _, e1, _⟩
      · exact h1
      · cases e1
    cases y
    · obtain ⟨_, _, e⟩ := step_release_false h
      subst e
      exact ⟨ha.a1, fun id amt hm => ha.a2 id amt (hadd' id amt hm), ha.b1, fun id amt hm => ha.b2 id amt (hadd' id amt hm)⟩
    · obtain ⟨_, _, e⟩ := step_release_true h
      subst e
      exact ⟨ha.a1, fun id amt hm => ha.a2 id amt (hadd' id amt hm), ha.b1, fun id amt hm => ha.b2 id amt (hadd' id amt hm)⟩
  | sendRaa y =>
    have hadd' : ∀ id amt, Msg.add id amt ∈ s'.fullAB → Msg.add id amt ∈ s.fullAB := by
      intro id amt hm
      rcases hadd id amt hm with h1 | ⟨_, _, _, e1, _⟩
      · exact h1
      · cases e1
    cases y
    · obtain ⟨_, e⟩ := step_sendRaa_false h
      subst e
      exact ⟨ha.a1, fun id amt hm => ha.a2 id amt (hadd' id amt hm), ha.b1, fun id amt hm => ha.b2 id amt (hadd' id amt hm)⟩
    · obtain ⟨_, e⟩ := step_sendRaa_true h
      subst e
      exact ⟨ha.a1, fun id amt hm => ha.a2 id amt (hadd' id amt hm), ha.b1, fun id amt hm => ha.b2 id amt (hadd' id amt hm)⟩
  | recv y =>
    have hadd' : ∀ id amt, Msg.add id amt ∈ s'.fullAB → Msg.add id amt ∈ s.fullAB := by
      intro id amt hm
      rcases hadd id amt hm with h1 | ⟨_, _, _, e1, _⟩
      · exact h1
      · cases e1
    cases y
    · obtain ⟨m, rest, n, okb, hq, hm, e⟩ := step_recv_false h
      subst e
      obtain ⟨_, _, hin⟩ := onMsg_from hm
      have hhead : m ∈ s.fullAB := by
        show m ∈ full s.qab s.pendA s.needRaaA s.a.raaSent s.a.owesRaa
        rw [hq, full_pop]; simp
      refine ⟨?_, fun id amt hm => ha.a2 id amt (hadd' id amt hm), ?_, fun id amt hm => ha.b2 id amt (hadd' id amt hm)⟩
      · intro x hx x' hx' hid
        rcases hin x' hx' with ⟨y, hy, e1, e2⟩ | e1
        · rw [← e2]; exact ha.a1 x hx y hy (by omega)
        · rw [e1] at hhead
          exact ha.a2 _ _ hhead x hx hid
      · intro x' hx'
        rcases hin x' hx' with ⟨y, hy, e1, e2⟩ | e1
        · have := ha.b1 y hy
          show x'.id < s.a.nextOutId
          omega
        · rw [e1] at hhead
          exact ha.b2 _ _ hhead
    · obtain ⟨m, rest, n, okb, hq, hm, e⟩ := step_recv_true h
      subst e
      obtain ⟨hnext, hout, _⟩ := onMsg_from hm
      refine ⟨?_, ?_, ?_, ?_⟩
      · intro x hx x' hx' hid
        obtain ⟨y, hy, e1, e2⟩ := hout x hx
        rw [← e2]; exact ha.a1 y hy x' hx' (by omega)
      · intro id amt hm' x hx hid
        obtain ⟨y, hy, e1, e2⟩ := hout x hx
        rw [← e2]; exact ha.a2 id amt (hadd' id amt hm') y hy (by omega)
      · intro x' hx'
        show x'.id < n.nextOutId
        rw [hnext]; exact ha.b1 x' hx'
      · intro id amt hm'
        show id < n.nextOutId
        rw [hnext]; exact ha.b2 id amt (hadd' id amt hm')

end Ldk.Chan
