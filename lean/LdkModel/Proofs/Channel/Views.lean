/- A commitment_signed in flight always equals the signer's CURRENT signing view (the signer is awaiting
   the revoke_and_ack and nothing it may process meanwhile changes that view); amounts of the two
   copies of an HTLC agree. Core only. -/
import LdkModel.Proofs.Channel.Refine
namespace Ldk.Chan

/-! ### when two nodes have the same view -/

theorem viewFeerate_of {n n' : Node} (g : Bool) (h1 : n'.feerate = n.feerate) (h2 : n'.pendingFee = n.pendingFee) :
    n'.viewFeerate g = n.viewFeerate g := by
  unfold Node.viewFeerate; rw [h1, h2]

theorem buildView_eq_of {n n' : Node} (l g : Bool) (hv : n'.valueToSelf = n.valueToSelf)
    (hfr : n'.viewFeerate g = n.viewFeerate g)
    (h1 : (n'.inb.filter (fun h => h.st.included g)).map (fun h => (h.id, h.amt))
        = (n.inb.filter (fun h => h.st.included g)).map (fun h => (h.id, h.amt)))
    (h2 : (n'.outb.filter (fun h => h.st.included g)).map (fun h => (h.id, h.amt))
        = (n.outb.filter (fun h => h.st.included g)).map (fun h => (h.id, h.amt)))
    (h3 : (n'.inb.filter (fun h => !(h.st.included g) && h.st.hasPreimage)).map (·.amt)
        = (n.inb.filter (fun h => !(h.st.included g) && h.st.hasPreimage)).map (·.amt))
    (h4 : (n'.outb.filter (fun h => !(h.st.included g) && h.st.hasPreimage)).map (·.amt)
        = (n.outb.filter (fun h => !(h.st.included g) && h.st.hasPreimage)).map (·.amt)) :
    n'.buildView l g = n.buildView l g := by
  have e1 : ∀ (b : Bool) (L : List InHtlc), L.map (fun h => (b, h.id, h.amt))
      = (L.map (fun h => (h.id, h.amt))).map (fun p => (b, p.1, p.2)) := by
    intro b L; simp [List.map_map]
  have e2 : ∀ (b : Bool) (L : List OutHtlc), L.map (fun h => (b, h.id, h.amt))
      = (L.map (fun h => (h.id, h.amt))).map (fun p => (b, p.1, p.2)) := by
    intro b L; simp [List.map_map]
  unfold Node.buildView
  simp only
  rw [e1, e2, e1 _ (List.filter _ n.inb), e2 _ (List.filter _ n.outb), h1, h2, h3, h4, hv, hfr]

theorem proj_map_congr {α β : Type} (l : List α) (g : α → α) (p : α → Bool) (F : α → β)
    (hp : ∀ x ∈ l, p (g x) = p x) (hF : ∀ x ∈ l, F (g x) = F x) :
    ((l.map g).filter p).map F = (l.filter p).map F := by
  induction l with
  | nil => rfl
  | cons x l ih =>
    have ih' := ih (fun y hy => hp y (List.mem_cons_of_mem _ hy)) (fun y hy => hF y (List.mem_cons_of_mem _ hy))
    have hpx := hp x (by simp)
    have hFx := hF x (by simp)
    simp only [List.map_cons, List.filter_cons, hpx]
    split
    · simp only [List.map_cons, hFx, ih']
    · exact ih'

/-- an id- and amount-preserving rewrite of the per-HTLC states that changes neither inclusion nor the
    claimed-value test (for `generated_by_local = g`) leaves the view unchanged -/
theorem buildView_map {n n' : Node} (l g : Bool) (gi : InHtlc → InHtlc) (go : OutHtlc → OutHtlc)
    (hv : n'.valueToSelf = n.valueToSelf) (hfr : n'.viewFeerate g = n.viewFeerate g)
    (hi : n'.inb = n.inb.map gi) (ho : n'.outb = n.outb.map go)
    (hgi : ∀ h ∈ n.inb, (gi h).id = h.id ∧ (gi h).amt = h.amt ∧ (gi h).st.included g = h.st.included g ∧
      (!((gi h).st.included g) && (gi h).st.hasPreimage) = (!(h.st.included g) && h.st.hasPreimage))
    (hgo : ∀ h ∈ n.outb, (go h).id = h.id ∧ (go h).amt = h.amt ∧ (go h).st.included g = h.st.included g ∧
      (!((go h).st.included g) && (go h).st.hasPreimage) = (!(h.st.included g) && h.st.hasPreimage)) :
    n'.buildView l g = n.buildView l g := by
  apply buildView_eq_of l g hv hfr
  · rw [hi]; exact proj_map_congr _ gi _ _ (fun x hx => (hgi x hx).2.2.1) (fun x hx => by rw [(hgi x hx).1, (hgi x hx).2.1])
  · rw [ho]; exact proj_map_congr _ go _ _ (fun x hx => (hgo x hx).2.2.1) (fun x hx => by rw [(hgo x hx).1, (hgo x hx).2.1])
  · rw [hi]; exact proj_map_congr _ gi _ _ (fun x hx => (hgi x hx).2.2.2) (fun x hx => (hgi x hx).2.1)
  · rw [ho]; exact proj_map_congr _ go _ _ (fun x hx => (hgo x hx).2.2.2) (fun x hx => (hgo x hx).2.1)

/-! ### table lemmas (generated tables): what does not change the signing view -/

theorem in_onCS_signing (st : InState) : st.onCommitmentSigned.included true = st.included true ∧
    (!(st.onCommitmentSigned.included true) && st.onCommitmentSigned.hasPreimage) = (!(st.included true) && st.hasPreimage) := by
  cases st <;> exact ⟨rfl, rfl⟩

theorem out_onCS_signing (st : OutState) : st.onCommitmentSigned.included true = st.included true ∧
    (!(st.onCommitmentSigned.included true) && st.onCommitmentSigned.hasPreimage) = (!(st.included true) && st.hasPreimage) := by
  cases st <;> exact ⟨rfl, rfl⟩

theorem out_removed_signing (ok : Bool) : (OutState.remoteRemoved ok).included true = OutState.committed.included true ∧
    (!((OutState.remoteRemoved ok).included true) && (OutState.remoteRemoved ok).hasPreimage)
      = (!(OutState.committed.included true) && OutState.committed.hasPreimage) := ⟨rfl, rfl⟩

theorem in_announced_signing : InState.remoteAnnounced.included true = false ∧
    (!(InState.remoteAnnounced.included true) && InState.remoteAnnounced.hasPreimage) = false := ⟨rfl, rfl⟩

theorem sorted_unique {α : Type} {key : α → Nat} {l : List α} (hs : Sorted key l) {x y : α} (hx : x ∈ l) (hy : y ∈ l)
    (e : key x = key y) : x = y := sorted_unique' hs hx hy e

/-- processing any message other than a revoke_and_ack leaves the signing view unchanged -/
theorem onMsg_signing_fee {n n' : Node} {total : Nat} {m : Msg} {ok : Bool} (hw : n.feeWF = true)
    (h : n.onMsg total m = some (n', ok)) (hm : m ≠ .raa) : n'.viewFeerate true = n.viewFeerate true := by
  obtain ⟨h1, h2, h3, h4⟩ := onMsg_fee_fields h
  unfold Node.viewFeerate
  rw [h2, h3]
  cases m with
  | raa => exact absurd rfl hm
  | add _ _ => rfl
  | fulfill _ => rfl
  | fail _ => rfl
  | cs c =>
    simp only [msgFee, csFee]
    cases n.pendingFee with
    | none => rfl
    | some p => obtain ⟨f, st⟩ := p; cases st <;> rfl
  | fee f =>
    have hf := h4 f rfl
    unfold Node.feeWF at hw
    simp only [msgFee]
    cases hp : n.pendingFee with
    | none => rfl
    | some p =>
      obtain ⟨f', st⟩ := p
      rw [hp, hf] at hw
      cases st <;> first | rfl | (exfalso; simp at hw)

theorem onMsg_signing_view {n n' : Node} {total : Nat} {m : Msg} {ok : Bool} (hok : NodeOK n) (hw : n.feeWF = true)
    (h : n.onMsg total m = some (n', ok)) (hm : m ≠ .raa) : n'.buildView false true = n.buildView false true := by
  have hfr := onMsg_signing_fee hw h hm
  cases m with
  | raa => exact absurd rfl hm
  | fee f =>
    obtain ⟨_, _, e⟩ := onMsg_fee h
    subst e
    exact buildView_eq_of false true rfl hfr rfl rfl rfl rfl
  | add id amt =>
    obtain ⟨_, _, e⟩ := onMsg_add h
    subst e
    refine buildView_eq_of false true ?_ hfr ?_ ?_ ?_ ?_
    · rfl
    · simp [List.filter_append, in_announced_signing.1]
    · rfl
    · simp [List.filter_append, in_announced_signing.1, InState.hasPreimage]
    · rfl
  | cs c =>
    obtain ⟨e, _⟩ := onMsg_cs h
    subst e
    exact buildView_map false true _ _ rfl hfr rfl rfl
      (fun h _ => ⟨rfl, rfl, (in_onCS_signing h.st).1, (in_onCS_signing h.st).2⟩)
      (fun h _ => ⟨rfl, rfl, (out_onCS_signing h.st).1, (out_onCS_signing h.st).2⟩)
  | fulfill id =>
    obtain ⟨⟨x, hx, hxid, hxst⟩, _, e⟩ := onMsg_fulfill h
    subst e
    refine buildView_map false true (fun h => h) (fun h => if h.id = id then { h with st := .remoteRemoved true } else h) rfl hfr
      (by simp) rfl (fun h _ => ⟨rfl, rfl, rfl, rfl⟩) ?_
    intro h hh
    by_cases e : h.id = id
    · have : h = x := sorted_unique hok.sOut hh hx (by rw [e, hxid])
      subst this
      simp only [e, if_true, hxst]
      exact ⟨trivial, trivial, (out_removed_signing true).1, (out_removed_signing true).2⟩
    · simp [e]
  | fail id =>
    obtain ⟨⟨x, hx, hxid, hxst⟩, _, e⟩ := onMsg_fail h
    subst e
    refine buildView_map false true (fun h => h) (fun h => if h.id = id then { h with st := .remoteRemoved false } else h) rfl hfr
      (by simp) rfl (fun h _ => ⟨rfl, rfl, rfl, rfl⟩) ?_
    intro h hh
    by_cases e : h.id = id
    · have : h = x := sorted_unique hok.sOut hh hx (by rw [e, hxid])
      subst this
      simp only [e, if_true, hxst]
      exact ⟨trivial, trivial, (out_removed_signing false).1, (out_removed_signing false).2⟩
    · simp [e]

/-! ### the invariant -/

/-- every commitment_signed of `a` still in the a→b stream is `a`'s current signing view -/
def ViewA (s : Sys) : Prop := ∀ c, Msg.cs c ∈ s.fullAB → c = s.a.buildView false true

theorem ViewA.init (va vb f0 : Nat) : ViewA (Sys.init va vb f0) := by
  intro c hc
  simp [Sys.fullAB, Sys.init, full, Node.init] at hc

/-- a disconnection does not change the signing view: dropped RemoteAnnounced HTLCs were not in it,
    RemoteRemoved reverting to Committed stay in it -/
theorem pause_signing_view {n : Node} : n.pause.buildView false true = n.buildView false true := by
  cases hp : n.paused
  · rw [pause_unpaused hp]
    have hfr : Node.viewFeerate { n with inb := n.inb.filter notRA, nextInId := n.nextInId - raCount n.inb, outb := n.outb.map unRR, pendingFee := pauseFee n.pendingFee, paused := true } true = n.viewFeerate true := by
      unfold Node.viewFeerate pauseFee
      cases n.pendingFee with
      | none => rfl
      | some p => obtain ⟨f, st⟩ := p; cases st <;> rfl
    refine buildView_eq_of false true rfl hfr ?_ ?_ ?_ ?_
    · show ((n.inb.filter notRA).filter _).map _ = _
      rw [List.filter_filter]
      congr 1
      apply List.filter_congr
      intro h _
      cases hs : h.st <;> simp [notRA, hs, InState.included]
    · show ((n.outb.map unRR).filter _).map _ = _
      exact proj_map_congr _ unRR _ _ (fun x _ => by rw [unRR_st]; cases x.st <;> rfl) (fun x _ => by rw [unRR_id, unRR_amt])
    · show ((n.inb.filter notRA).filter _).map _ = _
      rw [List.filter_filter]
      congr 1
      apply List.filter_congr
      intro h _
      cases hs : h.st <;> simp [notRA, hs, InState.included, InState.hasPreimage]
    · show ((n.outb.map unRR).filter _).map _ = _
      exact proj_map_congr _ unRR _ _ (fun x _ => by rw [unRR_st]; cases x.st <;> rfl) (fun x _ => unRR_amt x)
  · rw [pause_paused hp]

theorem add_not_feeMsgs (n : Node) (id amt : Nat) : Msg.add id amt ∉ n.feeMsgs := by
  unfold Node.feeMsgs
  split <;> simp

theorem cs_not_feeMsgs (n : Node) (c : Commit) : Msg.cs c ∉ n.feeMsgs := by
  unfold Node.feeMsgs
  split <;> simp

theorem cs_mem_lastBatch {n : Node} {c : Commit} (h : Msg.cs c ∈ n.lastBatch) : c = n.buildView false true := by
  unfold Node.lastBatch at h
  simp only [List.mem_append, List.mem_map, List.mem_singleton, Msg.cs.injEq] at h
  rcases h with (((h | h) | h) | h) | h
  · exact absurd h (cs_not_feeMsgs n c)
  · obtain ⟨_, _, h⟩ := h; cases h
  · obtain ⟨_, _, h⟩ := h; cases h
  · obtain ⟨_, _, h⟩ := h; cases h
  · exact h

theorem mem_full_nil {x : Msg} {R : List Msg} {need r ow : Nat} (h : x ∈ full [] R need r ow) : x = .raa ∨ x ∈ R := by
  unfold full at h
  simp only [List.nil_append, List.mem_append, List.mem_replicate] at h
  rcases h with (h | h) | h
  · exact Or.inl h.2
  · exact Or.inr h
  · exact Or.inl h.2

theorem cs_mem_tok {l : List Msg} {c : Commit} (h : Msg.cs c ∈ l) (id : Nat) : (l.filterMap (tokF id)).contains .cs = true := by
  simp only [List.contains_iff_mem, List.mem_filterMap]
  exact ⟨Msg.cs c, h, rfl⟩

theorem cs_mem_batch {n : Node} {adds fu fa : List Nat} {c : Commit} (h : Msg.cs c ∈ batchOf n adds fu fa) :
    c = (n.built adds fu fa).buildView false true := by
  unfold batchOf at h
  simp only [List.mem_append, List.mem_map, List.mem_singleton, Msg.cs.injEq] at h
  rcases h with (((h | h) | h) | h) | h
  · exact absurd h (cs_not_feeMsgs n c)
  · exfalso
    have : ∀ (amts : List Nat) (k : Nat), Msg.cs c ∉ mkAdds k amts := by
      intro amts
      induction amts with
      | nil => intro k hm; cases hm
      | cons a as ih => intro k hm; simp only [mkAdds, List.mem_cons] at hm; rcases hm with hm | hm; cases hm; exact ih _ hm
    exact this _ _ h
  · obtain ⟨_, _, h⟩ := h; cases h
  · obtain ⟨_, _, h⟩ := h; cases h
  · exact h

theorem ViewA.step {s s' : Sys} {e : Ev} (hv : ViewA s) (hg : GoodA s) (hb : Base s) (hb' : Base s.swap)
    (h : stepG s e = some s') : ViewA s' := by
  obtain ⟨hk, h0⟩ := stepG_some h
  intro c hc
  cases e with
  | commit x adds fu fa =>
    cases x
    · rw [fullAB_commit_false h0] at hc
      obtain ⟨_, _, n, ms, _, e⟩ := step_commit_false h0
      have : s'.a = s.a := by rw [e]
      rw [this]; exact hv c hc
    · rw [fullAB_commit_true h0] at hc
      obtain ⟨_, hp, n, ms, hcm, e⟩ := step_commit_true h0
      obtain ⟨haw, _, en, _⟩ := commit_some hcm
      have hsa : s'.a = n := by rw [e]
      rcases List.mem_append.1 hc with hc | hc
      · exfalso
        have h1 := good_no_cs _ (hg 0)
        have h2 := cs_mem_tok hc 0
        simp only [cfgA, haw, Bool.false_or, Bool.not_eq_true'] at h1
        rw [h2] at h1; cases h1
      · rw [hsa, en]; exact cs_mem_batch hc
  | release x =>
    cases x
    · rw [fullAB_release_false h0] at hc
      obtain ⟨_, _, _, e⟩ := step_release_false h0
      have : s'.a = s.a := by rw [e]
      rw [this]; exact hv c hc
    · rw [fullAB_release_true h0] at hc
      obtain ⟨_, _, _, e⟩ := step_release_true h0
      have : s'.a = s.a := by rw [e]
      rw [this]; exact hv c hc
  | sendRaa x =>
    cases x
    · rw [fullAB_sendRaa_false h0] at hc
      obtain ⟨_, _, e⟩ := step_sendRaa_false h0
      have : s'.a = s.a := by rw [e]
      rw [this]; exact hv c hc
    · rw [fullAB_sendRaa_true hb hk h0] at hc
      obtain ⟨_, _, e⟩ := step_sendRaa_true h0
      have : s'.a.buildView false true = s.a.buildView false true := by rw [e]; rfl
      rw [this]; exact hv c hc
  | recv y =>
    cases y
    · obtain ⟨m, rest, _, _, hf⟩ := fullAB_recv_false hb h0
      obtain ⟨_, _, _, n, okb, _, _, e⟩ := step_recv_false h0
      have : s'.a = s.a := by rw [e]
      rw [this]; exact hv c (by rw [hf]; exact List.mem_cons_of_mem _ hc)
    · obtain ⟨hpa, m, rest, n, okb, hq, hm, e⟩ := step_recv_true h0
      have hsa : s'.a = n := by rw [e]
      have hfw : s'.fullAB = s.fullAB ++ owedFor m := by rw [e]; exact fullAB_after_recv_true hb hpa _ _ hm
      have hsub : Msg.cs c ∈ s.fullAB := by
        rw [hfw] at hc
        rcases List.mem_append.1 hc with hc | hc
        · exact hc
        · cases m <;> simp [owedFor] at hc
      have hnr : m ≠ .raa := by
        intro hmr
        subst hmr
        have h1 := good_cs_no_raa _ (hg 0)
        have h2 := cs_mem_tok hsub 0
        have h3 : (cfgA s 0).bwd.head? = some .raa := by
          show (List.filterMap (tokB 0) s.fullBA).head? = _
          rw [fullBA_pop_recv_true hb' hq n (s.agreed && okb) (s.feeAgreed && s.a.feeOk Msg.raa)]; rfl
        simp only [cfgA] at h1 h3
        rw [h2, h3] at h1
        cases h1
      rw [hsa, onMsg_signing_view hb.ok hb.wf hm hnr]
      exact hv c hsub
  | disconnect =>
    rw [fullAB_disconnect h0] at hc
    have e := step_disconnect h0
    have hsa : s'.a = s.a.pause := by rw [e]
    rw [hsa]
    rcases mem_full_nil hc with hc | hc
    · cases hc
    · unfold Node.retrans at hc
      split at hc
      · cases hc
      · exact cs_mem_lastBatch hc
  | reest y =>
    cases y
    · rw [fullAB_reest_false h0] at hc
      obtain ⟨n, p, _, e⟩ := step_reest_false h0
      have : s'.a = s.a := by rw [e]
      rw [this]; exact hv c hc
    · rw [fullAB_reest_true hb h0] at hc
      obtain ⟨n, p, hr, e⟩ := step_reest_true h0
      obtain ⟨_, _, _, _, _, en, _⟩ := reestablish_some hr
      have : s'.a.buildView false true = s.a.buildView false true := by rw [e, en]; rfl
      rw [this]; exact hv c hc
  | fee x f =>
    cases x
    · rw [fullAB_fee_false h0] at hc
      obtain ⟨_, _, _, _, _, e⟩ := step_fee_false h0
      have : s'.a = s.a := by rw [e]
      rw [this]; exact hv c hc
    · -- the funder is not awaiting a revoke_and_ack, so no commitment_signed of its is in flight
      rw [fullAB_fee_true h0] at hc
      obtain ⟨_, _, haw, _, _, e⟩ := step_fee_true h0
      exfalso
      have h1 := good_no_cs _ (hg 0)
      have h2 := cs_mem_tok hc 0
      simp only [cfgA, haw, Bool.false_or, Bool.not_eq_true'] at h1
      rw [h2] at h1; cases h1

/-! ### what can enter the a→b stream -/

theorem fullAB_mem_step {s s' : Sys} {e : Ev} (hb : Base s) (h : stepG s e = some s') :
    ∀ x ∈ s'.fullAB, x ∈ s.fullAB ∨ x = .raa ∨ (∃ adds fu fa, e = .commit true adds fu fa ∧ x ∈ batchOf s.a adds fu fa)
      ∨ (e = .disconnect ∧ x ∈ s.a.pause.lastBatch) := by
  obtain ⟨hk, h0⟩ := stepG_some h
  intro x hx
  cases e with
  | commit y adds fu fa =>
    cases y
    · rw [fullAB_commit_false h0] at hx; exact Or.inl hx
    · rw [fullAB_commit_true h0] at hx
      rcases List.mem_append.1 hx with hx | hx
      · exact Or.inl hx
      · exact Or.inr (Or.inr (Or.inl ⟨adds, fu, fa, rfl, hx⟩))
  | release y =>
    cases y
    · rw [fullAB_release_false h0] at hx; exact Or.inl hx
    · rw [fullAB_release_true h0] at hx; exact Or.inl hx
  | sendRaa y =>
    cases y
    · rw [fullAB_sendRaa_false h0] at hx; exact Or.inl hx
    · rw [fullAB_sendRaa_true hb hk h0] at hx; exact Or.inl hx
  | recv y =>
    cases y
    · obtain ⟨m, rest, _, _, hf⟩ := fullAB_recv_false hb h0
      exact Or.inl (by rw [hf]; exact List.mem_cons_of_mem _ hx)
    · obtain ⟨m, rest, _, hf⟩ := fullAB_recv_true hb h0
      rw [hf] at hx
      rcases List.mem_append.1 hx with hx | hx
      · exact Or.inl hx
      · cases m <;> simp at hx
        exact Or.inr (Or.inl hx)
  | disconnect =>
    rw [fullAB_disconnect h0] at hx
    rcases mem_full_nil hx with hx | hx
    · exact Or.inr (Or.inl hx)
    · unfold Node.retrans at hx
      split at hx
      · cases hx
      · exact Or.inr (Or.inr (Or.inr ⟨rfl, hx⟩))
  | reest y =>
    cases y
    · rw [fullAB_reest_false h0] at hx; exact Or.inl hx
    · rw [fullAB_reest_true hb h0] at hx; exact Or.inl hx
  | fee y f =>
    cases y
    · rw [fullAB_fee_false h0] at hx; exact Or.inl hx
    · rw [fullAB_fee_true h0] at hx; exact Or.inl hx

/-! ### where the elements of the new lists come from -/

theorem onMsg_from {n n' : Node} {total : Nat} {m : Msg} {ok : Bool} (h : n.onMsg total m = some (n', ok)) :
    n'.nextOutId = n.nextOutId ∧
    (∀ h ∈ n'.outb, ∃ x ∈ n.outb, x.id = h.id ∧ x.amt = h.amt) ∧
    (∀ h ∈ n'.inb, (∃ x ∈ n.inb, x.id = h.id ∧ x.amt = h.amt) ∨ m = .add h.id h.amt) := by
  cases m with
  | add id amt =>
    obtain ⟨_, _, e⟩ := onMsg_add h
    subst e
    refine ⟨rfl, fun h hh => ⟨h, hh, rfl, rfl⟩, ?_⟩
    intro h hh
    rcases List.mem_append.1 hh with hh | hh
    · exact Or.inl ⟨h, hh, rfl, rfl⟩
    · simp at hh; subst hh; exact Or.inr rfl
  | fulfill id =>
    obtain ⟨_, _, e⟩ := onMsg_fulfill h
    subst e
    refine ⟨rfl, ?_, fun h hh => Or.inl ⟨h, hh, rfl, rfl⟩⟩
    intro h hh
    obtain ⟨x, hx, e⟩ := List.mem_map.1 hh
    refine ⟨x, hx, ?_⟩
    subst e
    by_cases c : x.id = id <;> simp [c]
  | fail id =>
    obtain ⟨_, _, e⟩ := onMsg_fail h
    subst e
    refine ⟨rfl, ?_, fun h hh => Or.inl ⟨h, hh, rfl, rfl⟩⟩
    intro h hh
    obtain ⟨x, hx, e⟩ := List.mem_map.1 hh
    refine ⟨x, hx, ?_⟩
    subst e
    by_cases c : x.id = id <;> simp [c]
  | cs c =>
    obtain ⟨e, _⟩ := onMsg_cs h
    subst e
    refine ⟨rfl, ?_, ?_⟩
    · intro h hh
      obtain ⟨x, hx, e⟩ := List.mem_map.1 hh
      subst e; exact ⟨x, hx, rfl, rfl⟩
    · intro h hh
      obtain ⟨x, hx, e⟩ := List.mem_map.1 hh
      subst e; exact Or.inl ⟨x, hx, rfl, rfl⟩
  | raa =>
    obtain ⟨hr, _⟩ := onMsg_raa h
    obtain ⟨_, e⟩ := onRaa_some hr
    subst e
    refine ⟨rfl, ?_, ?_⟩
    · intro h hh
      obtain ⟨x, hx, e⟩ := List.mem_map.1 hh
      subst e; exact ⟨x, (List.mem_filter.1 hx).1, (raaMapOut_id x).symm, (raaMapOut_amt x).symm⟩
    · intro h hh
      obtain ⟨x, hx, e⟩ := List.mem_map.1 hh
      subst e; exact Or.inl ⟨x, (List.mem_filter.1 hx).1, (raaMapIn_id x).symm, (raaMapIn_amt x).symm⟩
  | fee f =>
    obtain ⟨_, _, e⟩ := onMsg_fee h
    subst e
    exact ⟨rfl, fun h hh => ⟨h, hh, rfl, rfl⟩, fun h hh => Or.inl ⟨h, hh, rfl, rfl⟩⟩

theorem foldl_setIn_from (st : InState) (ids : List Nat) : ∀ (l : List InHtlc),
    ∀ h ∈ ids.foldl (fun l id => setIn l id (fun _ => st)) l, ∃ x ∈ l, x.id = h.id ∧ x.amt = h.amt := by
  induction ids with
  | nil => intro l h hh; exact ⟨h, hh, rfl, rfl⟩
  | cons i is ih =>
    intro l h hh
    obtain ⟨y, hy, e1, e2⟩ := ih _ h hh
    obtain ⟨x, hx, e⟩ := List.mem_map.1 hy
    refine ⟨x, hx, ?_⟩
    subst e
    by_cases c : x.id = i <;> simp [c] at e1 e2 ⊢ <;> exact ⟨e1, e2⟩

theorem built_from (n : Node) (adds fu fa : List Nat) :
    (∀ h ∈ (n.built adds fu fa).inb, ∃ x ∈ n.inb, x.id = h.id ∧ x.amt = h.amt) ∧
    (∀ h ∈ (n.built adds fu fa).outb, ∃ x ∈ n.outb ++ mkOuts n.nextOutId adds, x.id = h.id ∧ x.amt = h.amt) := by
  refine ⟨?_, ?_⟩
  · intro h hh
    obtain ⟨y, hy, e⟩ := List.mem_map.1 hh
    obtain ⟨z, hz, e1, e2⟩ := foldl_setIn_from _ _ _ y hy
    obtain ⟨x, hx, e3, e4⟩ := foldl_setIn_from _ _ _ z hz
    subst e
    exact ⟨x, hx, by simp only; omega, by simp only; omega⟩
  · intro h hh
    obtain ⟨y, hy, e⟩ := List.mem_map.1 hh
    subst e
    exact ⟨y, hy, rfl, rfl⟩

theorem mkAdds_lower (amts : List Nat) : ∀ k id amt, Msg.add id amt ∈ mkAdds k amts → k ≤ id ∧ id < k + amts.length := by
  induction amts with
  | nil => intro k id amt h; cases h
  | cons a as ih =>
    intro k id amt h
    simp only [mkAdds, List.mem_cons, Msg.add.injEq] at h
    rcases h with ⟨e, _⟩ | h
    · subst e; simp
    · have := ih (k + 1) id amt h
      simp only [List.length_cons]; omega

theorem mkAdds_mkOuts (amts : List Nat) : ∀ k id amt, Msg.add id amt ∈ mkAdds k amts →
    ∀ h ∈ mkOuts k amts, h.id = id → h.amt = amt := by
  induction amts with
  | nil => intro k id amt h; cases h
  | cons a as ih =>
    intro k id amt h x hx hid
    simp only [mkAdds, List.mem_cons, Msg.add.injEq] at h
    simp only [mkOuts, List.mem_cons] at hx
    rcases h with ⟨e1, e2⟩ | h
    · rcases hx with e | hx
      · subst e; simp only; omega
      · have := mkOuts_lower as (k + 1) x hx; omega
    · rcases hx with e | hx
      · subst e
        have := mkAdds_lower as (k + 1) id amt h
        simp only at hid; omega
      · exact ih (k + 1) id amt h x hx hid

theorem add_mem_batch {n : Node} {adds fu fa : List Nat} {id amt : Nat} (h : Msg.add id amt ∈ batchOf n adds fu fa) :
    Msg.add id amt ∈ mkAdds n.nextOutId adds := by
  unfold batchOf at h
  simp only [List.mem_append, List.mem_map, List.mem_singleton] at h
  rcases h with (((h | h) | h) | h) | h
  · exact absurd h (add_not_feeMsgs n id amt)
  · exact h
  · obtain ⟨_, _, h⟩ := h; cases h
  · obtain ⟨_, _, h⟩ := h; cases h
  · cases h

/-! ### amounts and id ranges of the two copies of an HTLC agree -/

structure Amt (s : Sys) : Prop where
  a1 : ∀ h ∈ s.a.outb, ∀ h' ∈ s.b.inb, h.id = h'.id → h.amt = h'.amt
  a2 : ∀ id amt, Msg.add id amt ∈ s.fullAB → ∀ h ∈ s.a.outb, h.id = id → h.amt = amt
  b1 : ∀ h' ∈ s.b.inb, h'.id < s.a.nextOutId
  b2 : ∀ id amt, Msg.add id amt ∈ s.fullAB → id < s.a.nextOutId

theorem Amt.init (va vb f0 : Nat) : Amt (Sys.init va vb f0) := by
  refine ⟨?_, ?_, ?_, ?_⟩
  · intro h hh; cases hh
  · intro id amt h x hx; cases hx
  · intro h hh; cases hh
  · intro id amt h; simp [Sys.fullAB, Sys.init, full, Node.init] at h

theorem add_mem_lastBatch {n : Node} {id amt : Nat} (h : Msg.add id amt ∈ n.lastBatch) :
    ∃ x ∈ n.outb, x.id = id ∧ x.amt = amt := by
  unfold Node.lastBatch at h
  simp only [List.mem_append, List.mem_map, List.mem_singleton] at h
  rcases h with (((h | h) | h) | h) | h
  · exact absurd h (add_not_feeMsgs n id amt)
  · obtain ⟨x, hx, e⟩ := h
    injection e with e1 e2
    exact ⟨x, (List.mem_filter.1 hx).1, e1, e2⟩
  · obtain ⟨_, _, h⟩ := h; cases h
  · obtain ⟨_, _, h⟩ := h; cases h
  · cases h

theorem pause_from (n : Node) :
    (∀ h ∈ n.pause.outb, ∃ x ∈ n.outb, x.id = h.id ∧ x.amt = h.amt) ∧ (∀ h ∈ n.pause.inb, h ∈ n.inb) := by
  cases hp : n.paused
  · rw [pause_unpaused hp]
    refine ⟨?_, fun h hh => (List.mem_filter.1 hh).1⟩
    intro h hh
    obtain ⟨x, hx, e⟩ := List.mem_map.1 hh
    exact ⟨x, hx, by rw [← e, unRR_id], by rw [← e, unRR_amt]⟩
  · rw [pause_paused hp]
    exact ⟨fun h hh => ⟨h, hh, rfl, rfl⟩, fun h hh => hh⟩

theorem Amt.step {s s' : Sys} {e : Ev} (ha : Amt s) (hb : Base s) (h : stepG s e = some s') : Amt s' := by
  have hmem := fullAB_mem_step hb h
  obtain ⟨hk, h0⟩ := stepG_some h
  have hadd : ∀ id amt, Msg.add id amt ∈ s'.fullAB → Msg.add id amt ∈ s.fullAB ∨
      (∃ adds fu fa, e = .commit true adds fu fa ∧ Msg.add id amt ∈ mkAdds s.a.nextOutId adds) ∨
      (e = .disconnect ∧ Msg.add id amt ∈ s.a.pause.lastBatch) := by
    intro id amt hx
    rcases hmem _ hx with h1 | h1 | ⟨adds, fu, fa, e1, e2⟩ | h1
    · exact Or.inl h1
    · cases h1
    · exact Or.inr (Or.inl ⟨adds, fu, fa, e1, add_mem_batch e2⟩)
    · exact Or.inr (Or.inr h1)
  -- the generic case: `a.outb`, `b.inb` only lose elements or get id/amount-preserving rewrites, nothing new in the stream
  have generic : (∀ x ∈ s'.a.outb, ∃ y ∈ s.a.outb, y.id = x.id ∧ y.amt = x.amt) →
      (∀ x ∈ s'.b.inb, ∃ y ∈ s.b.inb, y.id = x.id ∧ y.amt = x.amt) → s'.a.nextOutId = s.a.nextOutId →
      (∀ id amt, Msg.add id amt ∈ s'.fullAB → Msg.add id amt ∈ s.fullAB) → Amt s' := by
    intro h1 h2 h3 h4
    refine ⟨?_, ?_, ?_, ?_⟩
    · intro x hx x' hx' hid
      obtain ⟨y, hy, e1, e2⟩ := h1 x hx
      obtain ⟨y', hy', e1', e2'⟩ := h2 x' hx'
      rw [← e2, ← e2']; exact ha.a1 y hy y' hy' (by omega)
    · intro id amt hm x hx hid
      obtain ⟨y, hy, e1, e2⟩ := h1 x hx
      rw [← e2]; exact ha.a2 id amt (h4 id amt hm) y hy (by omega)
    · intro x' hx'
      obtain ⟨y', hy', e1', _⟩ := h2 x' hx'
      rw [h3, ← e1']; exact ha.b1 y' hy'
    · intro id amt hm
      rw [h3]; exact ha.b2 id amt (h4 id amt hm)
  have same : ∀ {α : Type} (l : List α) (f g : α → Nat), ∀ x ∈ l, ∃ y ∈ l, f y = f x ∧ g y = g x :=
    fun _ _ _ x hx => ⟨x, hx, rfl, rfl⟩
  cases e with
  | commit y adds fu fa =>
    cases y
    · obtain ⟨_, _, n, ms, hc, e⟩ := step_commit_false h0
      obtain ⟨_, _, en, _⟩ := commit_some hc
      have hsa : s'.a = s.a := by rw [e]
      have hsb : s'.b = n := by rw [e]
      apply generic
      · rw [hsa]; exact same _ _ _
      · rw [hsb, en]; exact (built_from s.b adds fu fa).1
      · rw [hsa]
      · intro id amt hm
        rcases hadd id amt hm with h1 | ⟨_, _, _, e1, _⟩ | ⟨e1, _⟩
        · exact h1
        · cases e1
        · cases e1
    · obtain ⟨_, hp, n, ms, hc, e⟩ := step_commit_true h0
      obtain ⟨haw, _, en, ems⟩ := commit_some hc
      have hsa : s'.a = n := by rw [e]
      have hsb : s'.b = s.b := by rw [e]
      have hfrom : ∀ x ∈ s'.a.outb, ∃ y ∈ s.a.outb ++ mkOuts s.a.nextOutId adds, y.id = x.id ∧ y.amt = x.amt := by
        rw [hsa, en]; exact (built_from s.a adds fu fa).2
      have hnext : s'.a.nextOutId = s.a.nextOutId + adds.length := by rw [hsa, en]; rfl
      refine ⟨?_, ?_, ?_, ?_⟩
      · intro x hx x' hx' hid
        rw [hsb] at hx'
        obtain ⟨y, hy, e1, e2⟩ := hfrom x hx
        rcases List.mem_append.1 hy with hy | hy
        · rw [← e2]; exact ha.a1 y hy x' hx' (by omega)
        · have := (mkOuts_lower adds _ y hy).1
          have := ha.b1 x' hx'
          omega
      · intro id amt hm x hx hid
        obtain ⟨y, hy, e1, e2⟩ := hfrom x hx
        rcases hadd id amt hm with h1 | ⟨adds', fu', fa', e3, h1⟩ | ⟨e3, _⟩
        · rcases List.mem_append.1 hy with hy | hy
          · rw [← e2]; exact ha.a2 id amt h1 y hy (by omega)
          · have := (mkOuts_lower adds _ y hy).1
            have := ha.b2 id amt h1
            omega
        · injection e3 with _ e3 _ _
          subst e3
          rcases List.mem_append.1 hy with hy | hy
          · have := hb.ok.bOut y hy
            have := (mkAdds_lower _ _ _ _ h1).1
            omega
          · rw [← e2]; exact mkAdds_mkOuts _ _ _ _ h1 y hy (by omega)
        · cases e3
      · intro x' hx'
        rw [hsb] at hx'
        have := ha.b1 x' hx'
        rw [hnext]; omega
      · intro id amt hm
        rw [hnext]
        rcases hadd id amt hm with h1 | ⟨adds', fu', fa', e3, h1⟩ | ⟨e3, _⟩
        · have := ha.b2 id amt h1; omega
        · injection e3 with _ e3 _ _
          subst e3
          exact (mkAdds_lower _ _ _ _ h1).2
        · cases e3
  | release y =>
    have hadd' : ∀ id amt, Msg.add id amt ∈ s'.fullAB → Msg.add id amt ∈ s.fullAB := by
      intro id amt hm
      rcases hadd id amt hm with h1 | ⟨_, _, _, e1, _⟩ | ⟨e1, _⟩
      · exact h1
      · cases e1
      · cases e1
    cases y
    · obtain ⟨_, _, _, e⟩ := step_release_false h0
      have hsa : s'.a = s.a := by rw [e]
      have hsb : s'.b = s.b := by rw [e]
      exact generic (by rw [hsa]; exact same _ _ _) (by rw [hsb]; exact same _ _ _) (by rw [hsa]) hadd'
    · obtain ⟨_, _, _, e⟩ := step_release_true h0
      have hsa : s'.a = s.a := by rw [e]
      have hsb : s'.b = s.b := by rw [e]
      exact generic (by rw [hsa]; exact same _ _ _) (by rw [hsb]; exact same _ _ _) (by rw [hsa]) hadd'
  | sendRaa y =>
    have hadd' : ∀ id amt, Msg.add id amt ∈ s'.fullAB → Msg.add id amt ∈ s.fullAB := by
      intro id amt hm
      rcases hadd id amt hm with h1 | ⟨_, _, _, e1, _⟩ | ⟨e1, _⟩
      · exact h1
      · cases e1
      · cases e1
    cases y
    · obtain ⟨_, _, e⟩ := step_sendRaa_false h0
      have hsa : s'.a = s.a := by rw [e]
      have hsb : s'.b.inb = s.b.inb := by rw [e]
      exact generic (by rw [hsa]; exact same _ _ _) (by rw [hsb]; exact same _ _ _) (by rw [hsa]) hadd'
    · obtain ⟨_, _, e⟩ := step_sendRaa_true h0
      have hsa : s'.a.outb = s.a.outb := by rw [e]
      have hsb : s'.b = s.b := by rw [e]
      exact generic (by rw [hsa]; exact same _ _ _) (by rw [hsb]; exact same _ _ _) (by rw [e]) hadd'
  | recv y =>
    have hadd' : ∀ id amt, Msg.add id amt ∈ s'.fullAB → Msg.add id amt ∈ s.fullAB := by
      intro id amt hm
      rcases hadd id amt hm with h1 | ⟨_, _, _, e1, _⟩ | ⟨e1, _⟩
      · exact h1
      · cases e1
      · cases e1
    cases y
    · obtain ⟨m', rest', hq', hpa, hf⟩ := fullAB_recv_false hb h0
      obtain ⟨_, m, rest, n, okb, hq, hm, e⟩ := step_recv_false h0
      rw [hq'] at hq
      injection hq with e1 e2
      subst e1; subst e2
      have hsa : s'.a = s.a := by rw [e]
      have hsb : s'.b = n := by rw [e]
      obtain ⟨_, _, hin⟩ := onMsg_from hm
      have hhead : m' ∈ s.fullAB := by rw [hf]; simp
      refine ⟨?_, fun id amt hm => by rw [hsa]; exact ha.a2 id amt (hadd' id amt hm),
        ?_, fun id amt hm => by rw [hsa]; exact ha.b2 id amt (hadd' id amt hm)⟩
      · intro x hx x' hx' hid
        rw [hsa] at hx
        rw [hsb] at hx'
        rcases hin x' hx' with ⟨y, hy, e1, e2⟩ | e1
        · rw [← e2]; exact ha.a1 x hx y hy (by omega)
        · rw [e1] at hhead
          exact ha.a2 _ _ hhead x hx hid
      · intro x' hx'
        rw [hsb] at hx'
        rw [hsa]
        rcases hin x' hx' with ⟨y, hy, e1, e2⟩ | e1
        · have := ha.b1 y hy; omega
        · rw [e1] at hhead
          exact ha.b2 _ _ hhead
    · obtain ⟨_, m, rest, n, okb, hq, hm, e⟩ := step_recv_true h0
      have hsa : s'.a = n := by rw [e]
      have hsb : s'.b = s.b := by rw [e]
      obtain ⟨hnext, hout, _⟩ := onMsg_from hm
      exact generic (by rw [hsa]; exact hout) (by rw [hsb]; exact same _ _ _) (by rw [hsa]; exact hnext) hadd'
  | disconnect =>
    have e := step_disconnect h0
    have hsa : s'.a = s.a.pause := by rw [e]
    have hsb : s'.b = s.b.pause := by rw [e]
    have hnext : s'.a.nextOutId = s.a.nextOutId := by rw [hsa]; exact (pause_fields s.a).2.2.2.1
    have hfa := (pause_from s.a).1
    have hfb := (pause_from s.b).2
    have hokp : NodeOK s.a.pause := hb.ok.pause hb.ra
    refine ⟨?_, ?_, ?_, ?_⟩
    · intro x hx x' hx' hid
      rw [hsa] at hx
      rw [hsb] at hx'
      obtain ⟨y, hy, e1, e2⟩ := hfa x hx
      rw [← e2]; exact ha.a1 y hy x' (hfb x' hx') (by omega)
    · intro id amt hm x hx hid
      rw [hsa] at hx
      rcases hadd id amt hm with h1 | ⟨_, _, _, e1, _⟩ | ⟨_, h1⟩
      · obtain ⟨y, hy, e1, e2⟩ := hfa x hx
        rw [← e2]; exact ha.a2 id amt h1 y hy (by omega)
      · cases e1
      · obtain ⟨z, hz, e1, e2⟩ := add_mem_lastBatch h1
        have : x = z := sorted_unique hokp.sOut hx hz (by show x.id = z.id; omega)
        rw [this]; exact e2
    · intro x' hx'
      rw [hsb] at hx'
      rw [hnext]; exact ha.b1 x' (hfb x' hx')
    · intro id amt hm
      rw [hnext]
      rcases hadd id amt hm with h1 | ⟨_, _, _, e1, _⟩ | ⟨_, h1⟩
      · exact ha.b2 id amt h1
      · cases e1
      · obtain ⟨z, hz, e1, _⟩ := add_mem_lastBatch h1
        have := hokp.bOut z hz
        rw [(pause_fields s.a).2.2.2.1] at this
        omega
  | reest y =>
    have hadd' : ∀ id amt, Msg.add id amt ∈ s'.fullAB → Msg.add id amt ∈ s.fullAB := by
      intro id amt hm
      rcases hadd id amt hm with h1 | ⟨_, _, _, e1, _⟩ | ⟨e1, _⟩
      · exact h1
      · cases e1
      · cases e1
    cases y
    · obtain ⟨n, p, hr, e⟩ := step_reest_false h0
      obtain ⟨_, _, _, _, _, en, _⟩ := reestablish_some hr
      have hsa : s'.a = s.a := by rw [e]
      have hsb : s'.b.inb = s.b.inb := by rw [e, en]
      exact generic (by rw [hsa]; exact same _ _ _) (by rw [hsb]; exact same _ _ _) (by rw [hsa]) hadd'
    · obtain ⟨n, p, hr, e⟩ := step_reest_true h0
      obtain ⟨_, _, _, _, _, en, _⟩ := reestablish_some hr
      have hsa : s'.a.outb = s.a.outb := by rw [e, en]
      have hsb : s'.b = s.b := by rw [e]
      exact generic (by rw [hsa]; exact same _ _ _) (by rw [hsb]; exact same _ _ _) (by rw [e, en]) hadd'

  | fee y f =>
    have hadd' : ∀ id amt, Msg.add id amt ∈ s'.fullAB → Msg.add id amt ∈ s.fullAB := by
      intro id amt hm
      rcases hadd id amt hm with h1 | ⟨_, _, _, e1, _⟩ | ⟨e1, _⟩
      · exact h1
      · cases e1
      · cases e1
    cases y
    · obtain ⟨_, _, _, _, _, e⟩ := step_fee_false h0
      have hsa : s'.a = s.a := by rw [e]
      have hsb : s'.b.inb = s.b.inb := by rw [e]
      exact generic (by rw [hsa]; exact same _ _ _) (by rw [hsb]; exact same _ _ _) (by rw [hsa]) hadd'
    · obtain ⟨_, _, _, _, _, e⟩ := step_fee_true h0
      have hsa : s'.a.outb = s.a.outb := by rw [e]
      have hsb : s'.b = s.b := by rw [e]
      exact generic (by rw [hsa]; exact same _ _ _) (by rw [hsb]; exact same _ _ _) (by rw [e]) hadd'

end Ldk.Chan
