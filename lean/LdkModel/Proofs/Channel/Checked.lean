/- The real send-side check implies the balance guard (G2) of the guarded protocol (C01): lemmas. -/
import LdkModel.Proofs.Channel
import LdkModel.Proofs.TxStats
import LdkModel.Model.SendLimit
namespace Ldk.Chan
open Ldk

/-! ### sums over filtered HTLC lists -/

def amtSum (p : OutHtlc → Bool) (l : List OutHtlc) : Nat := ((l.filter p).map (·.amt)).sum

theorem amtSum_nil (p : OutHtlc → Bool) : amtSum p [] = 0 := rfl
theorem amtSum_cons (p : OutHtlc → Bool) (h : OutHtlc) (l : List OutHtlc) :
    amtSum p (h :: l) = (if p h then h.amt else 0) + amtSum p l := by
  unfold amtSum; by_cases hp : p h <;> simp [List.filter_cons, hp]

theorem amtSum_append (p : OutHtlc → Bool) (l1 l2 : List OutHtlc) : amtSum p (l1 ++ l2) = amtSum p l1 + amtSum p l2 := by
  unfold amtSum; simp [List.filter_append]

/-- every live outbound HTLC is either counted by the statistics filter of the next remote commitment or debited as claimed, never both -/
theorem live_split (st : OutState) :
    (liveOut st = (st.inNextStats sendStatsLocal sendStatsIncludeUnknown || st.claimedInNext sendStatsLocal)) ∧
    (st.inNextStats sendStatsLocal sendStatsIncludeUnknown && st.claimedInNext sendStatsLocal) = false := by
  cases st with
  | localAnnounced => decide
  | committed => decide
  | remoteRemoved ok => cases ok <;> decide
  | awaitingRemoteRevokeToRemove ok => cases ok <;> decide
  | awaitingRemovedRemoteRevoke ok => cases ok <;> decide

theorem liveSum_split (l : List OutHtlc) :
    amtSum (fun h => liveOut h.st) l =
    amtSum (fun h => h.st.inNextStats sendStatsLocal sendStatsIncludeUnknown) l + amtSum (fun h => h.st.claimedInNext sendStatsLocal) l := by
  induction l with
  | nil => rfl
  | cons h t ih =>
    rw [amtSum_cons, amtSum_cons, amtSum_cons, ih]
    obtain ⟨e1, e2⟩ := live_split h.st
    simp only [e1]
    cases ha : h.st.inNextStats sendStatsLocal sendStatsIncludeUnknown <;> cases hb : h.st.claimedInNext sendStatsLocal <;>
      simp_all <;> omega

theorem liveSum_amt (n : Node) : liveSum n = amtSum (fun h => liveOut h.st) n.outb := rfl

/-- `outSum` of the statistics list = amounts of the outbound HTLCs the filter keeps -/
theorem outSum_statsHtlcs (n : Node) :
    TxB.outSum n.statsHtlcs = amtSum (fun h => h.st.inNextStats sendStatsLocal sendStatsIncludeUnknown) n.outb := by
  unfold Node.statsHtlcs TxB.outSum amtSum
  rw [List.filterMap_append]
  have e1 : ∀ l : List InHtlc, List.filterMap (fun htlc : TxB.HTLCAmountDirection => if htlc.outbound then some htlc.amount_msat else none)
      (l.map (fun h => ({ outbound := false, amount_msat := h.amt } : TxB.HTLCAmountDirection))) = [] := by
    intro l; induction l with
    | nil => rfl
    | cons h t ih => simp [List.filterMap_cons, ih]
  have e2 : ∀ l : List OutHtlc, List.filterMap (fun htlc : TxB.HTLCAmountDirection => if htlc.outbound then some htlc.amount_msat else none)
      (l.map (fun h => ({ outbound := true, amount_msat := h.amt } : TxB.HTLCAmountDirection))) = l.map (·.amt) := by
    intro l; induction l with
    | nil => rfl
    | cons h t ih => simp [List.filterMap_cons, ih]
  rw [e1, e2]; simp

/-! ### one admitted HTLC -/

/-- no inbound HTLC is in a state whose amount `get_next_commitment_value_to_self_msat(false)` credits to the node -/
def NoInboundClaim (n : Node) : Prop := ∀ h ∈ n.inb, h.st.claimedInNext sendStatsLocal = false

theorem inboundClaim_zero {n : Node} (hn : NoInboundClaim n) :
    ((n.inb.filter (fun h => h.st.claimedInNext sendStatsLocal)).map (·.amt)).sum = 0 := by
  have : n.inb.filter (fun h => h.st.claimedInNext sendStatsLocal) = [] := by
    rw [List.filter_eq_nil_iff]; intro h hm; rw [hn h hm]; simp
  rw [this]; rfl

theorem satAdd64_zero_le (x : Nat) : satAdd64 x 0 ≤ x := by unfold satAdd64; split <;> omega

/-- THE arithmetic core: an amount the real `send_htlc` admits is covered by the sender's balance net of its live outbound HTLCs -/
theorem sendOk_bound {c : SendCfg} {n : Node} {amt : Nat} (h : n.sendOk c amt = true) (hn : NoInboundClaim n) :
    0 < amt ∧ amt + liveSum n ≤ n.valueToSelf := by
  unfold Node.sendOk at h
  cases ha : n.availableBalances c with
  | none => rw [ha] at h; cases h
  | some a =>
    rw [ha] at h
    unfold Node.availableBalances at ha
    split at ha
    · cases ha
    · injection ha with ha
      unfold sendAmountOk at h
      simp only [Bool.and_eq_true, Bool.not_eq_true', decide_eq_false_iff_not, Nat.not_lt, gt_iff_lt] at h
      obtain ⟨⟨h0, _⟩, hl⟩ := h
      have g := TxB.gab_limit_min n.isFunder c.chanValueSat n.statsValueToSelf n.statsHtlcs n.feerate c.limitingFeerate c.maxDustExposureMsat c.cons c.ty
      simp only [] at g
      rw [ha] at g
      obtain ⟨g1, _, _, _, g5⟩ := g
      rw [TxB.gabBalances_fst] at g5
      have hv : n.statsValueToSelf ≤ n.valueToSelf - amtSum (fun h => h.st.claimedInNext sendStatsLocal) n.outb := by
        unfold Node.statsValueToSelf nextCommitmentValueToSelf
        rw [inboundClaim_zero hn]
        exact satAdd64_zero_le _
      rw [outSum_statsHtlcs] at g5
      rw [liveSum_amt, liveSum_split]
      omega

theorem liveSum_announce (n : Node) (amt : Nat) : liveSum (n.announce amt) = liveSum n + amt := by
  rw [liveSum_amt, liveSum_amt]
  unfold Node.announce
  simp only [amtSum_append, amtSum_cons, amtSum_nil]
  simp [liveOut]

/-- … and a whole batch admitted add by add -/
theorem sendAllOk_bound {c : SendCfg} : ∀ (adds : List Nat) (n : Node), Node.sendAllOk c n adds = true → NoInboundClaim n →
    liveSum n ≤ n.valueToSelf → adds.sum + liveSum n ≤ n.valueToSelf := by
  intro adds
  induction adds with
  | nil => intro n _ _ h0; simpa using h0
  | cons amt rest ih =>
    intro n h hn _
    simp only [Node.sendAllOk, Bool.and_eq_true] at h
    obtain ⟨h1, h2⟩ := h
    obtain ⟨_, hb⟩ := sendOk_bound h1 hn
    have hn' : NoInboundClaim (n.announce amt) := hn
    have := ih (n.announce amt) h2 hn' (by rw [liveSum_announce]; show liveSum n + amt ≤ n.valueToSelf; omega)
    rw [liveSum_announce] at this
    simp only [List.sum_cons]
    have hv : (n.announce amt).valueToSelf = n.valueToSelf := rfl
    omega

/-! ### the invariant that makes the inbound credit vanish whenever a node may build a commitment -/

/-- table fact (all 106 joint configurations): an HTLC its receiver holds as LocalRemoved means the receiver awaits a revoke_and_ack -/
theorem good_localRemoved_awaiting : ∀ c, good c = true →
    (match c.i with | some (.localRemoved _) => c.awI | _ => true) = true :=
  good_all _ (by decide)

theorem noInboundClaim_b {s : Sys} (inv : Inv s) (hw : s.b.awaitingRaa = false) : NoInboundClaim s.b := by
  intro h hm
  have hg := good_localRemoved_awaiting _ (inv.good h.id)
  have hi : (cfgA s h.id).i = some h.st := stIn_of_mem inv.base'.ok.sIn hm
  have hawi : (cfgA s h.id).awI = false := hw
  rw [hi, hawi] at hg
  cases hst : h.st with
  | localRemoved f => rw [hst] at hg; simp at hg
  | remoteAnnounced => rfl
  | awaitingRemoteRevokeToAnnounce => rfl
  | awaitingAnnouncedRemoteRevoke => rfl
  | committed => rfl

theorem noInboundClaim_a {s : Sys} (inv : Inv s) (hw : s.a.awaitingRaa = false) : NoInboundClaim s.a := by
  have inv' : GoodA s.swap := inv.good'
  intro h hm
  have hg := good_localRemoved_awaiting _ (inv' h.id)
  have hi : (cfgA s.swap h.id).i = some h.st := stIn_of_mem inv.base.ok.sIn hm
  have hawi : (cfgA s.swap h.id).awI = false := hw
  rw [hi, hawi] at hg
  cases hst : h.st with
  | localRemoved f => rw [hst] at hg; simp at hg
  | remoteAnnounced => rfl
  | awaitingRemoteRevokeToAnnounce => rfl
  | awaitingAnnouncedRemoteRevoke => rfl
  | committed => rfl

theorem commit_not_awaiting {n n' : Node} {adds fu fa : List Nat} {ms : List Msg} (h : n.commit adds fu fa = some (n', ms)) :
    n.awaitingRaa = false := by
  unfold Node.commit at h
  cases hw : n.awaitingRaa
  · rfl
  · simp [hw] at h

/-- `stepChecked ⊆ stepG` on every state that satisfies the invariant of the guarded protocol -/
theorem stepChecked_stepG {ca cb : SendCfg} {s s' : Sys} {e : Ev} (inv : Inv s) (h : stepChecked ca cb s e = some s') :
    stepG s e = some s' := by
  unfold stepChecked at h
  split at h
  · rename_i hk
    simp only [Bool.and_eq_true] at hk
    obtain ⟨hb, hc⟩ := hk
    unfold stepG
    have : evOk s e = true := by
      cases e with
      | commit x adds fu fa =>
        cases x
        · obtain ⟨_, _, n, ms, hcm, _⟩ := step_commit_false h
          have hw := commit_not_awaiting hcm
          have := sendAllOk_bound adds s.b hc (noInboundClaim_b inv hw) inv.bal.fb
          simp only [evOkBase] at hb
          simp only [evOk, Bool.and_eq_true, decide_eq_true_eq]
          exact ⟨by simpa using hb, this⟩
        · obtain ⟨_, _, n, ms, hcm, _⟩ := step_commit_true h
          have hw := commit_not_awaiting hcm
          have := sendAllOk_bound adds s.a hc (noInboundClaim_a inv hw) inv.bal.fa
          simp only [evOkBase] at hb
          simp only [evOk, Bool.and_eq_true, decide_eq_true_eq]
          exact ⟨by simpa using hb, this⟩
      | sendRaa x => cases x <;> exact hb
      | recv y => cases y <;> exact hb
      | release x => rfl
      | fee x f => rfl
      | disconnect => rfl
      | reest y => rfl
    rw [if_pos this]; exact h
  · cases h

theorem runChecked_runG {ca cb : SendCfg} : ∀ (evs : List Ev) (s s' : Sys), Inv s → runChecked ca cb s evs = some s' → runG s evs = some s' := by
  intro evs
  induction evs with
  | nil => intro s s' _ h; exact h
  | cons e es ih =>
    intro s s' inv h
    simp only [runChecked] at h
    cases hs : stepChecked ca cb s e with
    | none => simp [hs] at h
    | some s1 =>
      rw [hs] at h
      have hg := stepChecked_stepG inv hs
      simp only [runG, hg]
      exact ih s1 s' (inv.step hg) h

end Ldk.Chan
