/- Counter invariants of the (unguarded) commitment update protocol: what every event does to the
   commitment_signed / revoke_and_ack counters and to the number of such messages in flight. Core only. -/
import LdkModel.Proofs.Channel.Guarded
namespace Ldk.Chan

def countCs (l : List Msg) : Nat := l.countP (fun m => match m with | .cs _ => true | _ => false)
def countRaa (l : List Msg) : Nat := l.countP (fun m => match m with | .raa => true | _ => false)

theorem countCs_append (l1 l2 : List Msg) : countCs (l1 ++ l2) = countCs l1 + countCs l2 := by
  simp [countCs, List.countP_append]
theorem countRaa_append (l1 l2 : List Msg) : countRaa (l1 ++ l2) = countRaa l1 + countRaa l2 := by
  simp [countRaa, List.countP_append]

theorem countCs_mkAdds (amts : List Nat) : ∀ k, countCs (mkAdds k amts) = 0 := by
  induction amts with
  | nil => intro k; rfl
  | cons a as ih => intro k; simp only [mkAdds, countCs, List.countP_cons]; have := ih (k + 1); simp only [countCs] at this; simp [this]
theorem countRaa_mkAdds (amts : List Nat) : ∀ k, countRaa (mkAdds k amts) = 0 := by
  induction amts with
  | nil => intro k; rfl
  | cons a as ih => intro k; simp only [mkAdds, countRaa, List.countP_cons]; have := ih (k + 1); simp only [countRaa] at this; simp [this]

theorem count_batch (n : Node) (adds fu fa : List Nat) :
    countCs (batchOf n adds fu fa) = 1 ∧ countRaa (batchOf n adds fu fa) = 0 := by
  unfold batchOf
  refine ⟨?_, ?_⟩
  · rw [countCs_append, countCs_append, countCs_append, countCs_mkAdds]
    simp [countCs, List.countP_eq_zero]
  · rw [countRaa_append, countRaa_append, countRaa_append, countRaa_mkAdds]
    simp [countRaa, List.countP_eq_zero]

/-- the a→b handshake: `a`'s commitment_signed, `b`'s revoke_and_ack -/
structure CntD (s : Sys) : Prop where
  k1 : s.b.csRecv + countCs (s.qab ++ s.pendA) = s.a.csSent
  k2 : s.a.raaRecv + countRaa s.qba = s.b.raaSent
  k3 : s.a.csSent = s.a.raaRecv + (if s.a.awaitingRaa then 1 else 0)
  k4 : s.a.raaSent + s.a.owesRaa = s.a.csRecv
  k5 : countRaa s.pendA = 0

theorem CntD.init (va vb : Nat) : CntD (Sys.init va vb) := ⟨rfl, rfl, rfl, rfl, rfl⟩

/-- per-message effect on the counters of the receiving node -/
theorem onMsg_counters {n n' : Node} {total : Nat} {m : Msg} {ok : Bool} (h : n.onMsg total m = some (n', ok)) :
    n'.csSent = n.csSent ∧ n'.raaSent = n.raaSent ∧
    (match m with
     | .cs _ => n'.csRecv = n.csRecv + 1 ∧ n'.owesRaa = n.owesRaa + 1 ∧ n'.raaRecv = n.raaRecv ∧ n'.awaitingRaa = n.awaitingRaa
     | .raa => n'.csRecv = n.csRecv ∧ n'.owesRaa = n.owesRaa ∧ n'.raaRecv = n.raaRecv + 1 ∧ n.awaitingRaa = true ∧ n'.awaitingRaa = false
     | _ => n'.csRecv = n.csRecv ∧ n'.owesRaa = n.owesRaa ∧ n'.raaRecv = n.raaRecv ∧ n'.awaitingRaa = n.awaitingRaa) := by
  cases m with
  | add id amt => obtain ⟨_, _, e⟩ := onMsg_add h; subst e; exact ⟨rfl, rfl, rfl, rfl, rfl, rfl⟩
  | fulfill id => obtain ⟨_, _, e⟩ := onMsg_fulfill h; subst e; exact ⟨rfl, rfl, rfl, rfl, rfl, rfl⟩
  | fail id => obtain ⟨_, _, e⟩ := onMsg_fail h; subst e; exact ⟨rfl, rfl, rfl, rfl, rfl, rfl⟩
  | cs c => obtain ⟨e, _⟩ := onMsg_cs h; subst e; exact ⟨rfl, rfl, rfl, rfl, rfl, rfl⟩
  | raa =>
    obtain ⟨e, _⟩ := onMsg_raa h
    unfold Node.onRaa at e
    split at e
    · contradiction
    · rename_i haw
      injection e with e; subst e
      exact ⟨rfl, rfl, rfl, rfl, rfl, by simpa using haw, rfl⟩

theorem CntD.step {s s' : Sys} {e : Ev} (hc : CntD s) (hc' : CntD s.swap) (h : step s e = some s') : CntD s' := by
  obtain ⟨k1, k2, k3, k4, k5⟩ := hc
  cases e with
  | commit x adds fu fa =>
    cases x
    · obtain ⟨_, n, ms, hcm, e⟩ := step_commit_false h
      obtain ⟨_, _, en, _⟩ := commit_some hcm
      subst e; subst en
      exact ⟨k1, k2, k3, k4, k5⟩
    · obtain ⟨hp, n, ms, hcm, e⟩ := step_commit_true h
      obtain ⟨haw, _, en, ems⟩ := commit_some hcm
      subst e; subst en; subst ems
      obtain ⟨c1, c2⟩ := count_batch s.a adds fu fa
      rw [hp] at k1
      simp only [List.append_nil] at k1
      refine ⟨?_, k2, ?_, k4, c2⟩
      · show s.b.csRecv + countCs (s.qab ++ batchOf s.a adds fu fa) = s.a.csSent + 1
        rw [countCs_append, c1]; omega
      · show s.a.csSent + 1 = s.a.raaRecv + 1
        rw [haw] at k3; simpa using k3
  | release x =>
    cases x
    · obtain ⟨_, _, e⟩ := step_release_false h
      subst e
      refine ⟨k1, ?_, k3, k4, k5⟩
      show s.a.raaRecv + countRaa (s.qba ++ s.pendB) = s.b.raaSent
      rw [countRaa_append, show countRaa s.pendB = 0 from hc'.k5]; exact k2
    · obtain ⟨_, _, e⟩ := step_release_true h
      subst e
      refine ⟨?_, k2, k3, k4, rfl⟩
      show s.b.csRecv + countCs ((s.qab ++ s.pendA) ++ []) = s.a.csSent
      rw [List.append_nil]; exact k1
  | sendRaa x =>
    cases x
    · obtain ⟨ho, e⟩ := step_sendRaa_false h
      subst e
      refine ⟨k1, ?_, k3, k4, k5⟩
      show s.a.raaRecv + countRaa (s.qba ++ [Msg.raa]) = s.b.raaSent + 1
      rw [countRaa_append]
      have : countRaa [Msg.raa] = 1 := rfl
      omega
    · obtain ⟨ho, e⟩ := step_sendRaa_true h
      subst e
      refine ⟨?_, k2, k3, ?_, k5⟩
      · show s.b.csRecv + countCs ((s.qab ++ [Msg.raa]) ++ s.pendA) = s.a.csSent
        rw [countCs_append, countCs_append]
        rw [countCs_append] at k1
        have : countCs [Msg.raa] = 0 := rfl
        omega
      · show s.a.raaSent + 1 + (s.a.owesRaa - 1) = s.a.csRecv
        omega
  | recv y =>
    cases y
    · obtain ⟨m, rest, n, okb, hq, hm, e⟩ := step_recv_false h
      subst e
      obtain ⟨_, e2, e3⟩ := onMsg_counters hm
      rw [hq] at k1
      cases m with
      | cs c =>
        obtain ⟨e4, _⟩ := e3
        refine ⟨?_, by show _ = n.raaSent; rw [e2]; exact k2, k3, k4, k5⟩
        show n.csRecv + countCs (rest ++ s.pendA) = s.a.csSent
        rw [e4]; simp [countCs] at k1 ⊢; omega
      | raa =>
        obtain ⟨e4, _⟩ := e3
        refine ⟨?_, by show _ = n.raaSent; rw [e2]; exact k2, k3, k4, k5⟩
        show n.csRecv + countCs (rest ++ s.pendA) = s.a.csSent
        rw [e4]; simp [countCs] at k1 ⊢; omega
      | add id amt =>
        obtain ⟨e4, _⟩ := e3
        refine ⟨?_, by show _ = n.raaSent; rw [e2]; exact k2, k3, k4, k5⟩
        show n.csRecv + countCs (rest ++ s.pendA) = s.a.csSent
        rw [e4]; simp [countCs] at k1 ⊢; omega
      | fulfill id =>
        obtain ⟨e4, _⟩ := e3
        refine ⟨?_, by show _ = n.raaSent; rw [e2]; exact k2, k3, k4, k5⟩
        show n.csRecv + countCs (rest ++ s.pendA) = s.a.csSent
        rw [e4]; simp [countCs] at k1 ⊢; omega
      | fail id =>
        obtain ⟨e4, _⟩ := e3
        refine ⟨?_, by show _ = n.raaSent; rw [e2]; exact k2, k3, k4, k5⟩
        show n.csRecv + countCs (rest ++ s.pendA) = s.a.csSent
        rw [e4]; simp [countCs] at k1 ⊢; omega
    · obtain ⟨m, rest, n, okb, hq, hm, e⟩ := step_recv_true h
      subst e
      obtain ⟨e1, e2, e3⟩ := onMsg_counters hm
      rw [hq] at k2
      cases m with
      | cs c =>
        obtain ⟨e4, e5, e6, e7⟩ := e3
        refine ⟨by show _ = n.csSent; rw [e1]; exact k1, ?_, ?_, ?_, k5⟩
        · show n.raaRecv + countRaa rest = s.b.raaSent
          rw [e6]; simp [countRaa] at k2 ⊢; omega
        · show n.csSent = n.raaRecv + (if n.awaitingRaa then 1 else 0)
          rw [e1, e6, e7]; exact k3
        · show n.raaSent + n.owesRaa = n.csRecv
          rw [e2, e4, e5]; omega
      | raa =>
        obtain ⟨e4, e5, e6, e7, e8⟩ := e3
        refine ⟨by show _ = n.csSent; rw [e1]; exact k1, ?_, ?_, ?_, k5⟩
        · show n.raaRecv + countRaa rest = s.b.raaSent
          rw [e6]; simp [countRaa] at k2 ⊢; omega
        · show n.csSent = n.raaRecv + (if n.awaitingRaa then 1 else 0)
          rw [e1, e6, e8]; rw [e7] at k3; simpa using k3
        · show n.raaSent + n.owesRaa = n.csRecv
          rw [e2, e4, e5]; omega
      | add id amt =>
        obtain ⟨e4, e5, e6, e7⟩ := e3
        refine ⟨by show _ = n.csSent; rw [e1]; exact k1, ?_, ?_, ?_, k5⟩
        · show n.raaRecv + countRaa rest = s.b.raaSent
          rw [e6]; simp [countRaa] at k2 ⊢; omega
        · show n.csSent = n.raaRecv + (if n.awaitingRaa then 1 else 0)
          rw [e1, e6, e7]; exact k3
        · show n.raaSent + n.owesRaa = n.csRecv
          rw [e2, e4, e5]; omega
      | fulfill id =>
        obtain ⟨e4, e5, e6, e7⟩ := e3
        refine ⟨by show _ = n.csSent; rw [e1]; exact k1, ?_, ?_, ?_, k5⟩
        · show n.raaRecv + countRaa rest = s.b.raaSent
          rw [e6]; simp [countRaa] at k2 ⊢; omega
        · show n.csSent = n.raaRecv + (if n.awaitingRaa then 1 else 0)
          rw [e1, e6, e7]; exact k3
        · show n.raaSent + n.owesRaa = n.csRecv
          rw [e2, e4, e5]; omega
      | fail id =>
        obtain ⟨e4, e5, e6, e7⟩ := e3
        refine ⟨by show _ = n.csSent; rw [e1]; exact k1, ?_, ?_, ?_, k5⟩
        · show n.raaRecv + countRaa rest = s.b.raaSent
          rw [e6]; simp [countRaa] at k2 ⊢; omega
        · show n.csSent = n.raaRecv + (if n.awaitingRaa then 1 else 0)
          rw [e1, e6, e7]; exact k3
        · show n.raaSent + n.owesRaa = n.csRecv
          rw [e2, e4, e5]; omega

def Cnt (s : Sys) : Prop := CntD s ∧ CntD s.swap

theorem Cnt.step {s s' : Sys} {e : Ev} (hc : Cnt s) (h : step s e = some s') : Cnt s' := by
  refine ⟨hc.1.step hc.2 h, ?_⟩
  have h' : Chan.step s.swap e.swap = some s'.swap := by rw [step_swap, h]; rfl
  exact hc.2.step (by simpa using hc.1) h'

theorem Cnt.run : ∀ (evs : List Ev) (s s' : Sys), Cnt s → Chan.run s evs = some s' → Cnt s' := by
  intro evs
  induction evs with
  | nil => intro s s' hc h; simp only [Chan.run] at h; injection h with h; subst h; exact hc
  | cons e es ih =>
    intro s s' hc h
    simp only [Chan.run] at h
    cases hs : Chan.step s e with
    | none => simp [hs] at h
    | some s1 => rw [hs] at h; exact ih s1 s' (hc.step hs) h

theorem Cnt.init (va vb : Nat) : Cnt (Sys.init va vb) := ⟨CntD.init va vb, ⟨rfl, rfl, rfl, rfl, rfl⟩⟩

/-! ### event counts -/

def isCommit (x : Bool) : Ev → Bool
  | .commit y _ _ _ => x == y
  | _ => false
def isSendRaa (x : Bool) : Ev → Bool
  | .sendRaa y => x == y
  | _ => false

theorem step_event_counts {s s' : Sys} {e : Ev} (h : step s e = some s') :
    s'.a.csSent = s.a.csSent + (if isCommit true e then 1 else 0) ∧
    s'.a.raaSent = s.a.raaSent + (if isSendRaa true e then 1 else 0) ∧
    s'.b.csSent = s.b.csSent + (if isCommit false e then 1 else 0) ∧
    s'.b.raaSent = s.b.raaSent + (if isSendRaa false e then 1 else 0) := by
  cases e with
  | commit x adds fu fa =>
    cases x
    · obtain ⟨_, n, ms, hcm, e⟩ := step_commit_false h
      obtain ⟨_, _, en, _⟩ := commit_some hcm
      subst e; subst en; exact ⟨rfl, rfl, rfl, rfl⟩
    · obtain ⟨_, n, ms, hcm, e⟩ := step_commit_true h
      obtain ⟨_, _, en, _⟩ := commit_some hcm
      subst e; subst en; exact ⟨rfl, rfl, rfl, rfl⟩
  | release x =>
    cases x
    · obtain ⟨_, _, e⟩ := step_release_false h; subst e; exact ⟨rfl, rfl, rfl, rfl⟩
    · obtain ⟨_, _, e⟩ := step_release_true h; subst e; exact ⟨rfl, rfl, rfl, rfl⟩
  | sendRaa x =>
    cases x
    · obtain ⟨_, e⟩ := step_sendRaa_false h; subst e; exact ⟨rfl, rfl, rfl, rfl⟩
    · obtain ⟨_, e⟩ := step_sendRaa_true h; subst e; exact ⟨rfl, rfl, rfl, rfl⟩
  | recv y =>
    cases y
    · obtain ⟨m, rest, n, okb, _, hm, e⟩ := step_recv_false h
      subst e
      obtain ⟨e1, e2, _⟩ := onMsg_counters hm
      exact ⟨rfl, rfl, by show n.csSent = _; rw [e1]; rfl, by show n.raaSent = _; rw [e2]; rfl⟩
    · obtain ⟨m, rest, n, okb, _, hm, e⟩ := step_recv_true h
      subst e
      obtain ⟨e1, e2, _⟩ := onMsg_counters hm
      exact ⟨by show n.csSent = _; rw [e1]; rfl, by show n.raaSent = _; rw [e2]; rfl, rfl, rfl⟩

theorem run_event_counts : ∀ (evs : List Ev) (s s' : Sys), run s evs = some s' →
    s'.a.csSent = s.a.csSent + evs.countP (isCommit true) ∧
    s'.a.raaSent = s.a.raaSent + evs.countP (isSendRaa true) ∧
    s'.b.csSent = s.b.csSent + evs.countP (isCommit false) ∧
    s'.b.raaSent = s.b.raaSent + evs.countP (isSendRaa false) := by
  intro evs
  induction evs with
  | nil => intro s s' h; simp only [run] at h; injection h with h; subst h; exact ⟨rfl, rfl, rfl, rfl⟩
  | cons e es ih =>
    intro s s' h
    simp only [run] at h
    cases hs : step s e with
    | none => simp [hs] at h
    | some s1 =>
      rw [hs] at h
      obtain ⟨a1, a2, a3, a4⟩ := step_event_counts hs
      obtain ⟨b1, b2, b3, b4⟩ := ih s1 s' h
      simp only [List.countP_cons]
      refine ⟨by rw [b1, a1]; omega, by rw [b2, a2]; omega, by rw [b3, a3]; omega, by rw [b4, a4]; omega⟩

end Ldk.Chan
