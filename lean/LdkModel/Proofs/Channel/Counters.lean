/- Counter invariants of the (unguarded) commitment update protocol, with disconnections: the counters
   are commitment NUMBERS (csSent = commitments signed, csRecv = commitments processed, raaRecv =
   revocations processed); a retransmission never bumps them.  Core only. -/
import LdkModel.Proofs.Channel.Guarded
namespace Ldk.Chan

/-- the a→b handshake: `a`'s commitment_signed, `b`'s revoke_and_ack -/
structure CntD (s : Sys) : Prop where
  /-- a commitment_signed on the wire or held back has been signed and not yet processed -/
  k1 : s.b.csRecv + countCs (s.qab ++ s.pendA) ≤ s.a.csSent
  /-- a revoke_and_ack on the wire has been sent and not yet processed -/
  k2 : s.a.raaRecv + countRaa s.qba ≤ s.b.raaSent
  k3 : s.a.csSent = s.a.raaRecv + (if s.a.awaitingRaa then 1 else 0)
  k4 : s.a.raaSent + s.a.owesRaa = s.a.csRecv
  k5 : countRaa s.pendA = 0
  k6 : s.a.paused = true → s.qab = []

theorem CntD.init (va vb f0 : Nat) : CntD (Sys.init va vb f0) :=
  ⟨Nat.le_refl _, Nat.le_refl _, rfl, rfl, rfl, fun h => by cases h⟩

theorem CntD.step {s s' : Sys} {e : Ev} (hc : CntD s) (hc' : CntD s.swap) (h : step s e = some s') : CntD s' := by
  obtain ⟨k1, k2, k3, k4, k5, k6⟩ := hc
  cases e with
  | commit x adds fu fa =>
    cases x
    · obtain ⟨_, _, n, ms, hcm, e⟩ := step_commit_false h
      obtain ⟨_, _, en, _⟩ := commit_some hcm
      subst e; subst en
      exact ⟨k1, k2, k3, k4, k5, k6⟩
    · obtain ⟨hpa, hp, n, ms, hcm, e⟩ := step_commit_true h
      obtain ⟨haw, _, en, ems⟩ := commit_some hcm
      subst e; subst en; subst ems
      obtain ⟨c1, c2⟩ := count_batch s.a adds fu fa
      rw [hp] at k1
      simp only [List.append_nil] at k1
      refine ⟨?_, k2, ?_, k4, c2, fun hp' => absurd hp' (by show ¬ (s.a.paused = true); rw [hpa]; simp)⟩
      · show s.b.csRecv + countCs (s.qab ++ batchOf s.a adds fu fa) ≤ s.a.csSent + 1
        rw [countCs_append, c1]; omega
      · show s.a.csSent + 1 = s.a.raaRecv + 1
        rw [haw] at k3; simpa using k3
  | release x =>
    cases x
    · obtain ⟨_, _, _, e⟩ := step_release_false h
      subst e
      refine ⟨k1, ?_, k3, k4, k5, k6⟩
      show s.a.raaRecv + countRaa (s.qba ++ s.pendB) ≤ s.b.raaSent
      rw [countRaa_append, show countRaa s.pendB = 0 from hc'.k5]; exact k2
    · obtain ⟨hpa, _, _, e⟩ := step_release_true h
      subst e
      refine ⟨?_, k2, k3, k4, rfl, fun hp' => absurd hp' (by show ¬ (s.a.paused = true); rw [hpa]; simp)⟩
      show s.b.csRecv + countCs ((s.qab ++ s.pendA) ++ []) ≤ s.a.csSent
      rw [List.append_nil]; exact k1
  | sendRaa x =>
    cases x
    · obtain ⟨_, ho, e⟩ := step_sendRaa_false h
      subst e
      refine ⟨k1, ?_, k3, k4, k5, k6⟩
      show s.a.raaRecv + countRaa (s.qba ++ [Msg.raa]) ≤ s.b.raaSent + 1
      rw [countRaa_append]
      have : countRaa [Msg.raa] = 1 := rfl
      omega
    · obtain ⟨hpa, ho, e⟩ := step_sendRaa_true h
      subst e
      refine ⟨?_, k2, k3, ?_, k5, fun hp' => absurd hp' (by show ¬ (s.a.paused = true); rw [hpa]; simp)⟩
      · show s.b.csRecv + countCs ((s.qab ++ [Msg.raa]) ++ s.pendA) ≤ s.a.csSent
        rw [countCs_append, countCs_append]
        rw [countCs_append] at k1
        have : countCs [Msg.raa] = 0 := rfl
        omega
      · show s.a.raaSent + 1 + (s.a.owesRaa - 1) = s.a.csRecv
        omega
  | recv y =>
    cases y
    · obtain ⟨_, m, rest, n, okb, hq, hm, e⟩ := step_recv_false h
      subst e
      obtain ⟨_, e2, e3⟩ := onMsg_counters hm
      rw [hq] at k1
      have hq6 : s.a.paused = true → rest = [] := by intro hp; have := k6 hp; rw [this] at hq; cases hq
      have key : n.csRecv + countCs (rest ++ s.pendA) ≤ s.a.csSent := by
        rw [List.cons_append] at k1
        cases m with
        | cs c => rw [e3.1]; simp [countCs, List.countP_cons] at k1 ⊢; omega
        | raa => rw [e3.1]; simp [countCs, List.countP_cons] at k1 ⊢; omega
        | add _ _ => rw [e3.1]; simp [countCs, List.countP_cons] at k1 ⊢; omega
        | fulfill _ => rw [e3.1]; simp [countCs, List.countP_cons] at k1 ⊢; omega
        | fail _ => rw [e3.1]; simp [countCs, List.countP_cons] at k1 ⊢; omega
        | fee _ => rw [e3.1]; simp [countCs, List.countP_cons] at k1 ⊢; omega
      exact ⟨key, by show _ ≤ n.raaSent; rw [e2]; exact k2, k3, k4, k5, hq6⟩
    · obtain ⟨hpa, m, rest, n, okb, hq, hm, e⟩ := step_recv_true h
      subst e
      obtain ⟨e1, e2, e3⟩ := onMsg_counters hm
      have hnp := onMsg_paused hm
      rw [hq] at k2
      have h6 : n.paused = true → s.qab = [] := by intro hp; rw [hnp, hpa] at hp; cases hp
      cases m with
      | cs c =>
        obtain ⟨e4, e5, e6, e7⟩ := e3
        refine ⟨by show _ ≤ n.csSent; rw [e1]; exact k1, ?_, ?_, ?_, k5, h6⟩
        · show n.raaRecv + countRaa rest ≤ s.b.raaSent
          rw [e6]; simp [countRaa] at k2 ⊢; omega
        · show n.csSent = n.raaRecv + (if n.awaitingRaa then 1 else 0)
          rw [e1, e6, e7]; exact k3
        · show n.raaSent + n.owesRaa = n.csRecv
          rw [e2, e4, e5]; omega
      | raa =>
        obtain ⟨e4, e5, e6, e7, e8⟩ := e3
        refine ⟨by show _ ≤ n.csSent; rw [e1]; exact k1, ?_, ?_, ?_, k5, h6⟩
        · show n.raaRecv + countRaa rest ≤ s.b.raaSent
          rw [e6]; simp [countRaa] at k2 ⊢; omega
        · show n.csSent = n.raaRecv + (if n.awaitingRaa then 1 else 0)
          rw [e1, e6, e8]; rw [e7] at k3; simpa using k3
        · show n.raaSent + n.owesRaa = n.csRecv
          rw [e2, e4, e5]; omega
      | add id amt =>
        obtain ⟨e4, e5, e6, e7⟩ := e3
        refine ⟨by show _ ≤ n.csSent; rw [e1]; exact k1, ?_, ?_, ?_, k5, h6⟩
        · show n.raaRecv + countRaa rest ≤ s.b.raaSent
          rw [e6]; simp [countRaa] at k2 ⊢; omega
        · show n.csSent = n.raaRecv + (if n.awaitingRaa then 1 else 0)
          rw [e1, e6, e7]; exact k3
        · show n.raaSent + n.owesRaa = n.csRecv
          rw [e2, e4, e5]; omega
      | fulfill id =>
        obtain ⟨e4, e5, e6, e7⟩ := e3
        refine ⟨by show _ ≤ n.csSent; rw [e1]; exact k1, ?_, ?_, ?_, k5, h6⟩
        · show n.raaRecv + countRaa rest ≤ s.b.raaSent
          rw [e6]; simp [countRaa] at k2 ⊢; omega
        · show n.csSent = n.raaRecv + (if n.awaitingRaa then 1 else 0)
          rw [e1, e6, e7]; exact k3
        · show n.raaSent + n.owesRaa = n.csRecv
          rw [e2, e4, e5]; omega
      | fail id =>
        obtain ⟨e4, e5, e6, e7⟩ := e3
        refine ⟨by show _ ≤ n.csSent; rw [e1]; exact k1, ?_, ?_, ?_, k5, h6⟩
        · show n.raaRecv + countRaa rest ≤ s.b.raaSent
          rw [e6]; simp [countRaa] at k2 ⊢; omega
        · show n.csSent = n.raaRecv + (if n.awaitingRaa then 1 else 0)
          rw [e1, e6, e7]; exact k3
        · show n.raaSent + n.owesRaa = n.csRecv
          rw [e2, e4, e5]; omega
      | fee id =>
        obtain ⟨e4, e5, e6, e7⟩ := e3
        refine ⟨by show _ ≤ n.csSent; rw [e1]; exact k1, ?_, ?_, ?_, k5, h6⟩
        · show n.raaRecv + countRaa rest ≤ s.b.raaSent
          rw [e6]; simp [countRaa] at k2 ⊢; omega
        · show n.csSent = n.raaRecv + (if n.awaitingRaa then 1 else 0)
          rw [e1, e6, e7]; exact k3
        · show n.raaSent + n.owesRaa = n.csRecv
          rw [e2, e4, e5]; omega
  | disconnect =>
    have e := step_disconnect h
    obtain ⟨pa1, pa2, pa3, pa4, pa5, pa6, pa7, pa8⟩ := pause_fields' s.a
    obtain ⟨pb1, pb2, pb3, pb4, pb5, pb6, pb7, pb8⟩ := pause_fields' s.b
    subst e
    refine ⟨?_, ?_, ?_, ?_, k5, fun _ => rfl⟩
    · show s.b.pause.csRecv + countCs ([] ++ s.pendA) ≤ s.a.pause.csSent
      rw [pb6, pa5, List.nil_append]
      rw [countCs_append] at k1; omega
    · show s.a.pause.raaRecv + countRaa [] ≤ s.b.pause.raaSent
      rw [pa8, pb7]
      have : countRaa ([] : List Msg) = 0 := rfl
      omega
    · show s.a.pause.csSent = s.a.pause.raaRecv + (if s.a.pause.awaitingRaa then 1 else 0)
      rw [pa5, pa8, pa2]; exact k3
    · show s.a.pause.raaSent + s.a.pause.owesRaa = s.a.pause.csRecv
      rw [pa7, pa3, pa6]; exact k4
  | reest y =>
    cases y
    · obtain ⟨n, p, hr, e⟩ := step_reest_false h
      obtain ⟨hpb, _, _, _, _, en, _⟩ := reestablish_some hr
      have hqba : s.qba = [] := hc'.k6 hpb
      subst e; subst en
      refine ⟨k1, ?_, k3, k4, k5, k6⟩
      show s.a.raaRecv + countRaa s.qba ≤ s.a.raaRecv
      rw [hqba]; exact Nat.le_refl _
    · obtain ⟨n, p, hr, e⟩ := step_reest_true h
      obtain ⟨hpa, g1, g2, g3, g4, en, ep⟩ := reestablish_some hr
      have hq := k6 hpa
      subst e; subst en; subst ep
      refine ⟨?_, k2, k3, ?_, ?_, fun hp' => by cases hp'⟩
      · show s.b.csRecv + countCs (s.qab ++ s.a.retrans s.b.csRecv) ≤ s.a.csSent
        rw [hq, List.nil_append]
        unfold Node.retrans
        by_cases hcs : s.a.csSent = s.b.csRecv
        · rw [if_pos hcs]; simp [countCs]; omega
        · rw [if_neg hcs, (count_lastBatch _).1]; omega
      · show s.b.raaRecv + (s.a.csRecv - s.b.raaRecv) = s.a.csRecv
        omega
      · show countRaa (s.a.retrans s.b.csRecv) = 0
        unfold Node.retrans
        split
        · rfl
        · exact (count_lastBatch _).2
  | fee x f =>
    cases x
    · obtain ⟨_, _, _, _, _, e⟩ := step_fee_false h
      subst e; exact ⟨k1, k2, k3, k4, k5, k6⟩
    · obtain ⟨_, _, _, _, _, e⟩ := step_fee_true h
      subst e; exact ⟨k1, k2, k3, k4, k5, k6⟩

def Cnt (s : Sys) : Prop := CntD s ∧ CntD s.swap

theorem Cnt.step {s s' : Sys} {e : Ev} (hc : Cnt s) (h : step s e = some s') : Cnt s' := by
  refine ⟨hc.1.step hc.2 h, ?_⟩
  have h' : Chan.step s.swap e.swap = some s'.swap := by rw [step_swap, h]; rfl
  exact hc.2.step (by simpa using hc.1) h'

theorem Cnt.run : ∀ (evs : List Ev) (s s' : Sys), Cnt s → Chan.run s evs = some s' → Cnt s' := by
  intro evs
  induction evs with
  | nil => intro s s' hc h; simp only [Chan.run] at h; injection h with h; subst h; exact hc
  | cons e es ih =>
    intro s s' hc h
    simp only [Chan.run] at h
    cases hs : Chan.step s e with
    | none => simp [hs] at h
    | some s1 => rw [hs] at h; exact ih s1 s' (hc.step hs) h

theorem Cnt.init (va vb f0 : Nat) : Cnt (Sys.init va vb f0) :=
  ⟨CntD.init va vb f0, ⟨Nat.le_refl _, Nat.le_refl _, rfl, rfl, rfl, fun h => by cases h⟩⟩

/-! ### event counts: the commitment numbers count the `commit` events (retransmissions do not) -/

def isCommit (x : Bool) : Ev → Bool
  | .commit y _ _ _ => x == y
  | _ => false

theorem step_event_counts {s s' : Sys} {e : Ev} (h : step s e = some s') :
    s'.a.csSent = s.a.csSent + (if isCommit true e then 1 else 0) ∧
    s'.b.csSent = s.b.csSent + (if isCommit false e then 1 else 0) := by
  cases e with
  | commit x adds fu fa =>
    cases x
    · obtain ⟨_, _, n, ms, hcm, e⟩ := step_commit_false h
      obtain ⟨_, _, en, _⟩ := commit_some hcm
      subst e; subst en; exact ⟨rfl, rfl⟩
    · obtain ⟨_, _, n, ms, hcm, e⟩ := step_commit_true h
      obtain ⟨_, _, en, _⟩ := commit_some hcm
      subst e; subst en; exact ⟨rfl, rfl⟩
  | release x =>
    cases x
    · obtain ⟨_, _, _, e⟩ := step_release_false h; subst e; exact ⟨rfl, rfl⟩
    · obtain ⟨_, _, _, e⟩ := step_release_true h; subst e; exact ⟨rfl, rfl⟩
  | sendRaa x =>
    cases x
    · obtain ⟨_, _, e⟩ := step_sendRaa_false h; subst e; exact ⟨rfl, rfl⟩
    · obtain ⟨_, _, e⟩ := step_sendRaa_true h; subst e; exact ⟨rfl, rfl⟩
  | recv y =>
    cases y
    · obtain ⟨_, m, rest, n, okb, _, hm, e⟩ := step_recv_false h
      subst e
      obtain ⟨e1, _, _⟩ := onMsg_counters hm
      exact ⟨rfl, by show n.csSent = _; rw [e1]; rfl⟩
    · obtain ⟨_, m, rest, n, okb, _, hm, e⟩ := step_recv_true h
      subst e
      obtain ⟨e1, _, _⟩ := onMsg_counters hm
      exact ⟨by show n.csSent = _; rw [e1]; rfl, rfl⟩
  | disconnect =>
    have e := step_disconnect h
    subst e
    exact ⟨by show s.a.pause.csSent = _; rw [(pause_fields' s.a).2.2.2.2.1]; rfl,
      by show s.b.pause.csSent = _; rw [(pause_fields' s.b).2.2.2.2.1]; rfl⟩
  | reest y =>
    cases y
    · obtain ⟨n, p, hr, e⟩ := step_reest_false h
      obtain ⟨_, _, _, _, _, en, _⟩ := reestablish_some hr
      subst e; subst en; exact ⟨rfl, rfl⟩
    · obtain ⟨n, p, hr, e⟩ := step_reest_true h
      obtain ⟨_, _, _, _, _, en, _⟩ := reestablish_some hr
      subst e; subst en; exact ⟨rfl, rfl⟩
  | fee x f =>
    cases x
    · obtain ⟨_, _, _, _, _, e⟩ := step_fee_false h; subst e; exact ⟨rfl, rfl⟩
    · obtain ⟨_, _, _, _, _, e⟩ := step_fee_true h; subst e; exact ⟨rfl, rfl⟩

theorem run_event_counts : ∀ (evs : List Ev) (s s' : Sys), run s evs = some s' →
    s'.a.csSent = s.a.csSent + evs.countP (isCommit true) ∧
    s'.b.csSent = s.b.csSent + evs.countP (isCommit false) := by
  intro evs
  induction evs with
  | nil => intro s s' h; simp only [run] at h; injection h with h; subst h; exact ⟨rfl, rfl⟩
  | cons e es ih =>
    intro s s' h
    simp only [run] at h
    cases hs : step s e with
    | none => simp [hs] at h
    | some s1 =>
      rw [hs] at h
      obtain ⟨a1, a3⟩ := step_event_counts hs
      obtain ⟨b1, b3⟩ := ih s1 s' h
      simp only [List.countP_cons]
      refine ⟨by rw [b1, a1]; omega, by rw [b3, a3]; omega⟩

end Ldk.Chan
