/- Balance conservation of the commitment update protocol (guarded system): the two settled balances add
   up to the channel value plus the "excess" of fulfilled HTLCs the receiver has already credited and the
   offerer not yet debited; every node's pending outbound HTLCs are covered by its balance. Core only. -/
import LdkModel.Proofs.Channel.Agree
namespace Ldk.Chan

/-! ### filtered sums -/

def sumBy {α : Type} (l : List α) (p : α → Bool) (f : α → Nat) : Nat := ((l.filter p).map f).sum

section SumBy
variable {α : Type}

theorem sumBy_nil (p : α → Bool) (f : α → Nat) : sumBy [] p f = 0 := rfl

theorem sumBy_cons (x : α) (l : List α) (p : α → Bool) (f : α → Nat) :
    sumBy (x :: l) p f = (if p x then f x else 0) + sumBy l p f := by
  unfold sumBy
  by_cases h : p x = true <;> simp [h]

theorem sumBy_append (l1 l2 : List α) (p : α → Bool) (f : α → Nat) :
    sumBy (l1 ++ l2) p f = sumBy l1 p f + sumBy l2 p f := by
  unfold sumBy; simp [List.filter_append]

theorem sumBy_congr {l : List α} {p q : α → Bool} {f g : α → Nat} (hp : ∀ x ∈ l, p x = q x) (hf : ∀ x ∈ l, f x = g x) :
    sumBy l p f = sumBy l q g := by
  induction l with
  | nil => rfl
  | cons x l ih =>
    rw [sumBy_cons, sumBy_cons, hp x (by simp), hf x (by simp),
      ih (fun y hy => hp y (List.mem_cons_of_mem _ hy)) (fun y hy => hf y (List.mem_cons_of_mem _ hy))]

theorem sumBy_map {β : Type} (g : β → α) (l : List β) (p : α → Bool) (f : α → Nat) :
    sumBy (l.map g) p f = sumBy l (fun x => p (g x)) (fun x => f (g x)) := by
  induction l with
  | nil => rfl
  | cons x l ih => simp only [List.map_cons, sumBy_cons, ih]

theorem sumBy_filter (q : α → Bool) (l : List α) (p : α → Bool) (f : α → Nat) :
    sumBy (l.filter q) p f = sumBy l (fun x => q x && p x) f := by
  induction l with
  | nil => rfl
  | cons x l ih =>
    by_cases h : q x = true
    · simp only [List.filter_cons, h, if_true, sumBy_cons, ih, Bool.true_and]
    · simp only [List.filter_cons, h, if_false, sumBy_cons, ih, Bool.false_and, Bool.false_eq_true]
      simp

theorem sumBy_split (q : α → Bool) (l : List α) (p : α → Bool) (f : α → Nat) :
    sumBy l p f = sumBy l (fun x => p x && q x) f + sumBy l (fun x => p x && !q x) f := by
  induction l with
  | nil => rfl
  | cons x l ih =>
    rw [sumBy_cons, sumBy_cons, sumBy_cons, ih]
    cases p x <;> cases q x <;> simp <;> omega

theorem sumBy_or (q : α → Bool) (l : List α) (p : α → Bool) (f : α → Nat) (hd : ∀ x ∈ l, ¬ (p x = true ∧ q x = true)) :
    sumBy l (fun x => p x || q x) f = sumBy l p f + sumBy l q f := by
  induction l with
  | nil => rfl
  | cons x l ih =>
    rw [sumBy_cons, sumBy_cons, sumBy_cons, ih (fun y hy => hd y (List.mem_cons_of_mem _ hy))]
    have := hd x (by simp)
    cases hp : p x <;> cases hq : q x <;> simp [hp, hq] at this ⊢ <;> omega

theorem sumBy_zero {l : List α} {p : α → Bool} (f : α → Nat) (h : ∀ x ∈ l, p x = false) : sumBy l p f = 0 := by
  induction l with
  | nil => rfl
  | cons x l ih => rw [sumBy_cons, h x (by simp), ih (fun y hy => h y (List.mem_cons_of_mem _ hy))]; simp

theorem sumBy_mono {l : List α} {p q : α → Bool} (f : α → Nat) (h : ∀ x ∈ l, p x = true → q x = true) :
    sumBy l p f ≤ sumBy l q f := by
  induction l with
  | nil => exact Nat.le_refl _
  | cons x l ih =>
    rw [sumBy_cons, sumBy_cons]
    have := ih (fun y hy => h y (List.mem_cons_of_mem _ hy))
    have hx := h x (by simp)
    cases hp : p x
    · simp only [Bool.false_eq_true, if_false]; split <;> omega
    · rw [hx hp]; simp only [if_true]; omega

theorem sumBy_true (l : List α) (f : α → Nat) : sumBy l (fun _ => true) f = (l.map f).sum := by
  induction l with
  | nil => rfl
  | cons x l ih => rw [sumBy_cons, ih]; simp

end SumBy

theorem sum_mkOuts (amts : List Nat) : ∀ k, ((mkOuts k amts).map (·.amt)).sum = amts.sum := by
  induction amts with
  | nil => intro k; rfl
  | cons a as ih => intro k; simp [mkOuts, ih]

/-! ### general block alignment and its sum form -/

theorem block_eq' (flag : Bool) {lo : List OutHtlc} {li : List InHtlc} (P : OutHtlc → Bool) (Q : InHtlc → Bool)
    (so : SortedOut lo) (si : SortedIn li)
    (hamt : ∀ h ∈ lo, ∀ h' ∈ li, h.id = h'.id → h.amt = h'.amt)
    (h1 : ∀ h ∈ lo, P h = true → ∃ h' ∈ li, h'.id = h.id ∧ Q h' = true)
    (h2 : ∀ h' ∈ li, Q h' = true → ∃ h ∈ lo, h.id = h'.id ∧ P h = true) :
    (lo.filter P).map (fun h => (flag, h.id, h.amt)) = (li.filter Q).map (fun h => (flag, h.id, h.amt)) := by
  apply sorted_ext (fun x : H => x.2.1) _ _ (sorted_block_out flag _ so) (sorted_block_in flag _ si)
  intro x
  simp only [List.mem_map, List.mem_filter]
  constructor
  · rintro ⟨h, ⟨hm, hp⟩, rfl⟩
    obtain ⟨h', hm', e1, hq⟩ := h1 h hm hp
    exact ⟨h', ⟨hm', hq⟩, by rw [e1, hamt h hm h' hm' e1.symm]⟩
  · rintro ⟨h', ⟨hm', hq⟩, rfl⟩
    obtain ⟨h, hm, e1, hp⟩ := h2 h' hm' hq
    exact ⟨h, ⟨hm, hp⟩, by rw [e1, hamt h hm h' hm' e1]⟩

theorem sum_block_eq {lo : List OutHtlc} {li : List InHtlc} (P : OutHtlc → Bool) (Q : InHtlc → Bool)
    (so : SortedOut lo) (si : SortedIn li)
    (hamt : ∀ h ∈ lo, ∀ h' ∈ li, h.id = h'.id → h.amt = h'.amt)
    (h1 : ∀ h ∈ lo, P h = true → ∃ h' ∈ li, h'.id = h.id ∧ Q h' = true)
    (h2 : ∀ h' ∈ li, Q h' = true → ∃ h ∈ lo, h.id = h'.id ∧ P h = true) :
    sumBy lo P (·.amt) = sumBy li Q (·.amt) := by
  have := congrArg (fun L : List H => (L.map (fun x => x.2.2)).sum) (block_eq' true P Q so si hamt h1 h2)
  simpa [sumBy, List.map_map, Function.comp_def] using this

/-! ### the excess sum and the invariant -/

/-- amounts of `a`'s outbound HTLCs whose fulfilment `b` has already credited and `a` not yet debited -/
def EA (s : Sys) : Nat := sumBy s.a.outb (fun h => exc (cfgA s h.id)) (·.amt)

/-- the outbound HTLCs that still count against the offerer (all but failed removals already signed away)
    are covered by its balance -/
def Funded (n : Node) : Prop := liveSum n ≤ n.valueToSelf

theorem liveSum_eq (n : Node) : liveSum n = sumBy n.outb (fun h => liveOut h.st) (·.amt) := rfl

/-- table lemmas: liveness against the rewrites and the claimed-value tests -/
theorem live_onBuild (st : OutState) : liveOut st.onBuildCommitment = liveOut st := by
  cases st with
  | awaitingRemoteRevokeToRemove ok => cases ok <;> rfl
  | awaitingRemovedRemoteRevoke ok => cases ok <;> rfl
  | _ => rfl
theorem live_onCS (st : OutState) : liveOut st.onCommitmentSigned = true → liveOut st = true := by
  cases st with
  | remoteRemoved ok => intro _; rfl
  | awaitingRemoteRevokeToRemove ok => cases ok <;> exact id
  | awaitingRemovedRemoteRevoke ok => cases ok <;> exact id
  | _ => exact id
theorem live_of_claimed (g : Bool) (st : OutState) : (!(st.included g) && st.hasPreimage) = true → liveOut st = true := by
  cases st with
  | awaitingRemoteRevokeToRemove ok => cases ok <;> cases g <;> simp [OutState.included, OutState.hasPreimage, liveOut]
  | awaitingRemovedRemoteRevoke ok => cases ok <;> cases g <;> simp [OutState.included, OutState.hasPreimage, liveOut]
  | _ => intro _; rfl
theorem live_raaMapOut (h : OutHtlc) : liveOut (raaMapOut h).st = liveOut h.st := by
  obtain ⟨id, amt, st⟩ := h
  cases st with
  | awaitingRemoteRevokeToRemove ok => cases ok <;> rfl
  | awaitingRemovedRemoteRevoke ok => cases ok <;> rfl
  | _ => rfl

structure Bal (s : Sys) : Prop where
  cons : s.a.valueToSelf + s.b.valueToSelf = s.total + EA s + EA s.swap
  fa : Funded s.a
  fb : Funded s.b

theorem Bal.init (va vb f0 : Nat) : Bal (Sys.init va vb f0) :=
  ⟨rfl, Nat.zero_le _, Nat.zero_le _⟩

theorem Bal.swap {s : Sys} (h : Bal s) : Bal s.swap := by
  refine ⟨?_, h.fb, h.fa⟩
  have := h.cons
  show s.b.valueToSelf + s.a.valueToSelf = s.total + EA s.swap + EA s.swap.swap
  rw [Sys.swap_swap]; omega

/-- no step that does not clear an awaiting flag changes `exc` of any HTLC -/
theorem exc_step {s s' : Sys} {e : Ev} (hg : GoodA s) (hb : Base s) (hb' : Base s.swap) (h : stepG s e = some s')
    (ha : s.a.awaitingRaa = true → s'.a.awaitingRaa = true) (hbw : s.b.awaitingRaa = true → s'.b.awaitingRaa = true)
    (id : Nat) : exc (cfgA s' id) = exc (cfgA s id) := by
  rcases cfgA_step hb hb' h id (hg id) with e1 | ⟨m, hm, hmc⟩
  · rw [e1]
  · have h1 := List.all_eq_true.1 (good_exc_moves _ (hg id)) m hm
    rw [hmc] at h1
    simp only [Bool.or_eq_true, Bool.and_eq_true, Bool.not_eq_true', beq_iff_eq] at h1
    rcases h1 with (⟨h2, h3⟩ | ⟨h2, h3⟩) | h2
    · have := ha h2; rw [show (cfgA s' id).awO = s'.a.awaitingRaa from rfl] at h3; rw [this] at h3; cases h3
    · have := hbw h2; rw [show (cfgA s' id).awI = s'.b.awaitingRaa from rfl] at h3; rw [this] at h3; cases h3
    · exact h2

/-- `EA` is unchanged by a step that rewrites `a.outb` pointwise (ids and amounts kept) and clears no awaiting flag -/
theorem EA_step_map {s s' : Sys} {e : Ev} (hg : GoodA s) (hb : Base s) (hb' : Base s.swap) (h : stepG s e = some s')
    (ha : s.a.awaitingRaa = true → s'.a.awaitingRaa = true) (hbw : s.b.awaitingRaa = true → s'.b.awaitingRaa = true)
    (g : OutHtlc → OutHtlc) (hout : s'.a.outb = s.a.outb.map g) (hgid : ∀ x, (g x).id = x.id ∧ (g x).amt = x.amt) :
    EA s' = EA s := by
  unfold EA
  rw [hout, sumBy_map]
  apply sumBy_congr
  · intro x _; rw [(hgid x).1]; exact exc_step hg hb hb' h ha hbw x.id
  · intro x _; exact (hgid x).2

theorem EA_swap_unchanged {s s' : Sys} {e : Ev} (hg' : GoodA s.swap) (hb : Base s) (hb' : Base s.swap)
    (h : stepG s e = some s') (g' : OutHtlc → OutHtlc) (hg'id : ∀ x, (g' x).id = x.id ∧ (g' x).amt = x.amt)
    (hbout : s'.b.outb = s.b.outb.map g')
    (ha : s.a.awaitingRaa = true → s'.a.awaitingRaa = true) (hbw : s.b.awaitingRaa = true → s'.b.awaitingRaa = true) :
    EA s'.swap = EA s.swap :=
  EA_step_map hg' hb' (by simpa using hb) (stepG_swap h) hbw ha g' hbout hg'id

/-- non-revoke messages rewrite `outb` pointwise (never reviving a dead HTLC) and touch neither the
    balance nor the awaiting flag -/
theorem onMsg_nonraa {n n' : Node} {total : Nat} {m : Msg} {ok : Bool} (hok : NodeOK n)
    (h : n.onMsg total m = some (n', ok)) (hm : m ≠ .raa) :
    n'.valueToSelf = n.valueToSelf ∧ n'.awaitingRaa = n.awaitingRaa ∧
    ∃ g : OutHtlc → OutHtlc, n'.outb = n.outb.map g ∧ (∀ x, (g x).id = x.id ∧ (g x).amt = x.amt) ∧
      ∀ x ∈ n.outb, liveOut (g x).st = true → liveOut x.st = true := by
  cases m with
  | raa => exact absurd rfl hm
  | add id amt =>
    obtain ⟨_, _, e⟩ := onMsg_add h
    subst e
    exact ⟨rfl, rfl, fun x => x, by simp, fun _ => ⟨rfl, rfl⟩, fun _ _ hh => hh⟩
  | fulfill id =>
    obtain ⟨⟨y, hy, hyid, hyst⟩, _, e⟩ := onMsg_fulfill h
    subst e
    refine ⟨rfl, rfl, _, rfl, fun x => by by_cases c : x.id = id <;> simp [c], ?_⟩
    intro x hx hl
    by_cases c : x.id = id
    · have : x = y := sorted_unique hok.sOut hx hy (by rw [c, hyid])
      rw [this, hyst]; rfl
    · simpa [c] using hl
  | fail id =>
    obtain ⟨⟨y, hy, hyid, hyst⟩, _, e⟩ := onMsg_fail h
    subst e
    refine ⟨rfl, rfl, _, rfl, fun x => by by_cases c : x.id = id <;> simp [c], ?_⟩
    intro x hx hl
    by_cases c : x.id = id
    · have : x = y := sorted_unique hok.sOut hx hy (by rw [c, hyid])
      rw [this, hyst]; rfl
    · simpa [c] using hl
  | cs c =>
    obtain ⟨e, _⟩ := onMsg_cs h
    subst e
    exact ⟨rfl, rfl, _, rfl, fun _ => ⟨rfl, rfl⟩, fun x _ hl => live_onCS x.st hl⟩
  | fee f =>
    obtain ⟨_, _, e⟩ := onMsg_fee h
    subst e
    exact ⟨rfl, rfl, fun x => x, by simp, fun _ => ⟨rfl, rfl⟩, fun _ _ hh => hh⟩

theorem Bal.commit_true {s s' : Sys} {adds fu fa : List Nat} (hbal : Bal s) (hg : GoodA s) (hg' : GoodA s.swap)
    (hb : Base s) (hb' : Base s.swap) (h : stepG s (.commit true adds fu fa) = some s') : Bal s' := by
  obtain ⟨hk, h0⟩ := stepG_some h
  obtain ⟨_, hp, n, ms, hc, e⟩ := step_commit_true h0
  obtain ⟨haw, _, en, ems⟩ := commit_some hc
  have hfund : adds.sum + liveSum s.a ≤ s.a.valueToSelf := by
    simp only [evOk, Bool.and_eq_true, decide_eq_true_eq] at hk; exact hk.2
  have ha1 : s.a.awaitingRaa = true → s'.a.awaitingRaa = true := by intro _; rw [e, en]
  have hb1 : s.b.awaitingRaa = true → s'.b.awaitingRaa = true := by intro hh; rw [e]; exact hh
  have hout : s'.a.outb = (s.a.outb ++ mkOuts s.a.nextOutId adds).map (fun (h : OutHtlc) => { h with st := h.st.onBuildCommitment }) := by
    rw [e, en]; rfl
  have hEA : EA s' = EA s := by
    unfold EA
    rw [hout, sumBy_map, sumBy_append]
    have z : sumBy (mkOuts s.a.nextOutId adds) (fun x => exc (cfgA s' x.id)) (fun x => x.amt) = 0 := by
      apply sumBy_zero
      intro x hx
      rw [exc_step hg hb hb' h ha1 hb1 x.id]
      have : (cfgA s x.id).o = none := stOut_none_of_bound hb.ok.bOut (mkOuts_lower adds _ x hx).1
      simp [exc, this, isTRAR]
    show sumBy s.a.outb (fun x => exc (cfgA s' x.id)) (fun x => x.amt) + sumBy (mkOuts s.a.nextOutId adds) (fun x => exc (cfgA s' x.id)) (fun x => x.amt) = _
    rw [z, Nat.add_zero]
    exact sumBy_congr (fun x _ => exc_step hg hb hb' h ha1 hb1 x.id) (fun _ _ => rfl)
  have hEB : EA s'.swap = EA s.swap := EA_swap_unchanged hg' hb hb' h (fun x => x) (fun _ => ⟨rfl, rfl⟩) (by rw [e]; simp) ha1 hb1
  refine ⟨?_, ?_, ?_⟩
  · rw [hEA, hEB]
    have : s'.a.valueToSelf = s.a.valueToSelf ∧ s'.b.valueToSelf = s.b.valueToSelf ∧ s'.total = s.total := by
      rw [e, en]; exact ⟨rfl, rfl, rfl⟩
    rw [this.1, this.2.1, this.2.2]; exact hbal.cons
  · show liveSum s'.a ≤ s'.a.valueToSelf
    have hv : s'.a.valueToSelf = s.a.valueToSelf := by rw [e, en]; rfl
    rw [hv, liveSum_eq, hout, sumBy_map, sumBy_append]
    have h1 : sumBy s.a.outb (fun x => liveOut (x.st.onBuildCommitment)) (fun x => x.amt) = liveSum s.a := by
      rw [liveSum_eq]; exact sumBy_congr (fun x _ => live_onBuild x.st) (fun _ _ => rfl)
    have h2 : sumBy (mkOuts s.a.nextOutId adds) (fun x => liveOut (x.st.onBuildCommitment)) (fun x => x.amt) ≤ adds.sum := by
      rw [← sum_mkOuts adds s.a.nextOutId, ← sumBy_true]
      exact sumBy_mono _ (fun _ _ _ => rfl)
    show sumBy s.a.outb (fun x => liveOut (x.st.onBuildCommitment)) (fun x => x.amt)
      + sumBy (mkOuts s.a.nextOutId adds) (fun x => liveOut (x.st.onBuildCommitment)) (fun x => x.amt) ≤ _
    omega
  · have : s'.b = s.b := by rw [e]
    show Funded s'.b
    rw [this]; exact hbal.fb

/-- steps after which both nodes' balances and awaiting flags are what they were and their outbound lists are
    rewritten pointwise (ids and amounts kept, no dead HTLC revived) -/
theorem Bal.quiet {s s' : Sys} {e : Ev} (hbal : Bal s) (hg : GoodA s) (hg' : GoodA s.swap)
    (hb : Base s) (hb' : Base s.swap) (h : stepG s e = some s')
    (g : OutHtlc → OutHtlc) (hgid : ∀ x, (g x).id = x.id ∧ (g x).amt = x.amt)
    (hlive : ∀ x ∈ s.a.outb, liveOut (g x).st = true → liveOut x.st = true)
    (g' : OutHtlc → OutHtlc) (hgid' : ∀ x, (g' x).id = x.id ∧ (g' x).amt = x.amt)
    (hlive' : ∀ x ∈ s.b.outb, liveOut (g' x).st = true → liveOut x.st = true)
    (h1 : s'.a.outb = s.a.outb.map g) (h2 : s'.b.outb = s.b.outb.map g')
    (h3 : s'.a.valueToSelf = s.a.valueToSelf) (h4 : s'.b.valueToSelf = s.b.valueToSelf)
    (h5 : s'.a.awaitingRaa = s.a.awaitingRaa) (h6 : s'.b.awaitingRaa = s.b.awaitingRaa) (h7 : s'.total = s.total) : Bal s' := by
  have ha1 : s.a.awaitingRaa = true → s'.a.awaitingRaa = true := by intro hh; rw [h5]; exact hh
  have hb1 : s.b.awaitingRaa = true → s'.b.awaitingRaa = true := by intro hh; rw [h6]; exact hh
  have hEA : EA s' = EA s := EA_step_map hg hb hb' h ha1 hb1 g h1 hgid
  have hEB : EA s'.swap = EA s.swap := EA_swap_unchanged hg' hb hb' h g' hgid' h2 ha1 hb1
  have key : ∀ (l : List OutHtlc) (f : OutHtlc → OutHtlc), (∀ x, (f x).id = x.id ∧ (f x).amt = x.amt) →
      (∀ x ∈ l, liveOut (f x).st = true → liveOut x.st = true) →
      sumBy (l.map f) (fun h => liveOut h.st) (·.amt) ≤ sumBy l (fun h => liveOut h.st) (·.amt) := by
    intro l f hf hl
    rw [sumBy_map]
    have e1 : sumBy l (fun x => liveOut (f x).st) (fun x => (f x).amt)
        = sumBy l (fun x => liveOut (f x).st) (·.amt) := sumBy_congr (fun _ _ => rfl) (fun x _ => (hf x).2)
    rw [e1]; exact sumBy_mono _ hl
  refine ⟨by rw [hEA, hEB, h3, h4, h7]; exact hbal.cons, ?_, ?_⟩
  · show liveSum s'.a ≤ s'.a.valueToSelf
    rw [liveSum_eq, h1, h3]
    have := key s.a.outb g hgid hlive
    have h4' : liveSum s.a ≤ s.a.valueToSelf := hbal.fa
    rw [liveSum_eq] at h4'
    omega
  · show liveSum s'.b ≤ s'.b.valueToSelf
    rw [liveSum_eq, h2, h4]
    have := key s.b.outb g' hgid' hlive'
    have h4' : liveSum s.b ≤ s.b.valueToSelf := hbal.fb
    rw [liveSum_eq] at h4'
    omega

theorem raaGained_eq (n : Node) : raaGained n = sumBy n.inb (fun h => h.st == .localRemoved true) (·.amt) := rfl
theorem raaLost_eq (n : Node) : raaLost n = sumBy n.outb (fun h => h.st == .awaitingRemovedRemoteRevoke true) (·.amt) := rfl

/-- `a` processes a revoke_and_ack: the only step that moves value -/
theorem Bal.recv_raa {s s' : Sys} {rest : List Msg} (hbal : Bal s) (hg : GoodA s) (hg' : GoodA s.swap)
    (hb : Base s) (hb' : Base s.swap) (hamt' : Amt s.swap)
    (h : stepG s (.recv true) = some s') (hq0 : s.qba = Msg.raa :: rest) : Bal s' := by
  obtain ⟨hk, h0⟩ := stepG_some h
  have hO := fun id => cfgA_recv_true_raa hb hb' h0 hq0 id
  have h0' : step s.swap (.recv false) = some s'.swap := by
    have := step_swap s (.recv true); rw [h0] at this; exact this
  have hI := fun id => cfgA_recv_false_raa (s := s.swap) hb' (by simpa using hb) h0' (show s.swap.qab = Msg.raa :: rest from hq0) id
  obtain ⟨_, m, rest', n, okb, hq, hm, e⟩ := step_recv_true h0
  rw [hq0] at hq
  injection hq with hq1 hq2
  subst hq1; subst hq2
  obtain ⟨hr, _⟩ := onMsg_raa hm
  obtain ⟨haw, en⟩ := onRaa_some hr
  have hsa : s'.a = n := by rw [e]
  have hsb : s'.b = s.b := by rw [e]
  have hst : s'.total = s.total := by rw [e]
  have hnout : n.outb = (s.a.outb.filter raaKeepOut).map raaMapOut := by rw [en]
  have hnval : n.valueToSelf = s.a.valueToSelf + raaGained s.a - raaLost s.a := by rw [en]
  -- the a-offered family
  have hEA1 : EA s' = sumBy s.a.outb (fun x => exc (cfgA s x.id) && raaKeepOut x) (·.amt) := by
    unfold EA
    rw [hsa, hnout, sumBy_map, sumBy_filter]
    apply sumBy_congr
    · intro x hx
      by_cases hkp : raaKeepOut x = true
      · rw [hkp, Bool.true_and, Bool.and_true, raaMapOut_id]
        have f := good_exc_raaO _ (hg x.id)
        rw [(hO x.id).1, (hO x.id).2] at f
        simp only [beq_self_eq_true, Bool.not_true, Bool.false_or, Bool.and_eq_true, Bool.or_eq_true,
          Bool.not_eq_true', beq_iff_eq] at f
        have hsome : (cfgA s' x.id).o.isSome = true := by
          show (stOut s'.a.outb x.id).isSome = true
          rw [hsa, hnout, stOut_onRaa hb.ok.sOut, stOut_of_mem hb.ok.sOut hx]
          have := raaOut_spec x
          rw [hkp] at this
          simp only [if_true] at this
          show (raaOut x.st).isSome = true
          rw [← this]; rfl
        rcases f.2 with f2 | f2
        · rw [hsome] at f2; cases f2
        · exact f2
      · have : raaKeepOut x = false := by simpa using hkp
        rw [this]; simp
    · intro x _; exact raaMapOut_amt x
  have hEA2 : sumBy s.a.outb (fun x => exc (cfgA s x.id) && !raaKeepOut x) (·.amt) = raaLost s.a := by
    rw [raaLost_eq]
    apply sumBy_congr _ (fun _ _ => rfl)
    intro x hx
    have ho : (cfgA s x.id).o = some x.st := stOut_of_mem hb.ok.sOut hx
    have f := good_exc_raaO _ (hg x.id)
    rw [(hO x.id).1, (hO x.id).2] at f
    simp only [beq_self_eq_true, Bool.not_true, Bool.false_or, Bool.and_eq_true, Bool.or_eq_true,
      Bool.not_eq_true', beq_iff_eq] at f
    have f1 := f.1
    rw [ho] at f1
    obtain ⟨id, amt, st⟩ := x
    cases st with
    | awaitingRemovedRemoteRevoke ok =>
      cases ok
      · simp [exc, ho, isTRAR, raaKeepOut]
        cases (cfgA s id).i.isNone <;> rfl
      · rcases f1 with f1 | f1
        · simp at f1
        · simp [f1, raaKeepOut]
    | localAnnounced => simp [raaKeepOut]
    | committed => simp [raaKeepOut]
    | remoteRemoved ok => simp [raaKeepOut]
    | awaitingRemoteRevokeToRemove ok => simp [raaKeepOut]
  have hEA : EA s = EA s' + raaLost s.a := by
    rw [hEA1, ← hEA2]; exact sumBy_split raaKeepOut _ _ _
  -- the b-offered family
  have hEBp : ∀ x ∈ s.b.outb, exc (cfgA s'.swap x.id) = (exc (cfgA s.swap x.id) || (stIn s.a.inb x.id == some (.localRemoved true)))
      ∧ ¬ (exc (cfgA s.swap x.id) = true ∧ (stIn s.a.inb x.id == some (.localRemoved true)) = true) := by
    intro x _
    have f := good_exc_raaI _ (hg' x.id)
    rw [(hI x.id).1, (hI x.id).2] at f
    simp only [beq_self_eq_true, Bool.not_true, Bool.false_or] at f
    have hi : (cfgA s.swap x.id).i = stIn s.a.inb x.id := rfl
    rw [hi] at f
    by_cases hl : (stIn s.a.inb x.id == some (.localRemoved true)) = true
    · rw [hl] at f ⊢
      simp only [if_true, Bool.and_eq_true, Bool.not_eq_true'] at f
      rw [f.1, f.2]; simp
    · have hl' : (stIn s.a.inb x.id == some (.localRemoved true)) = false := by simpa using hl
      rw [hl'] at f ⊢
      simp only [Bool.false_eq_true, if_false, beq_iff_eq] at f
      rw [f]; simp
  have hgain : sumBy s.b.outb (fun x => stIn s.a.inb x.id == some (.localRemoved true)) (·.amt) = raaGained s.a := by
    rw [raaGained_eq]
    apply sum_block_eq _ _ hb'.ok.sOut hb.ok.sIn hamt'.a1
    · intro x _ hp
      obtain ⟨x', hx', e1, e2⟩ := mem_of_stIn (by simpa using hp)
      exact ⟨x', hx', e1, by rw [e2]; rfl⟩
    · intro x' hx' hq
      have hst : x'.st = .localRemoved true := by simpa using hq
      have hi : stIn s.a.inb x'.id = some x'.st := stIn_of_mem hb.ok.sIn hx'
      have f := good_in_out _ (hg' x'.id)
      have hi' : (cfgA s.swap x'.id).i = some x'.st := hi
      rw [hi'] at f
      simp only [Option.isSome_some, Bool.not_true, Bool.false_or] at f
      cases ho : stOut s.b.outb x'.id with
      | none => rw [show (cfgA s.swap x'.id).o = stOut s.b.outb x'.id from rfl, ho] at f; cases f
      | some st =>
        obtain ⟨x, hx, e1, _⟩ := mem_of_stOut ho
        exact ⟨x, hx, e1, by rw [e1, hi, hst]; rfl⟩
  have hEB : EA s'.swap = EA s.swap + raaGained s.a := by
    unfold EA
    show sumBy s'.b.outb (fun x => exc (cfgA s'.swap x.id)) (·.amt) = sumBy s.b.outb (fun x => exc (cfgA s.swap x.id)) (·.amt) + _
    rw [hsb, ← hgain, ← sumBy_or _ _ _ _ (fun x hx => (hEBp x hx).2)]
    exact sumBy_congr (fun x hx => (hEBp x hx).1) (fun _ _ => rfl)
  -- arithmetic
  have hlost : raaLost s.a ≤ s.a.valueToSelf := by
    have : raaLost s.a ≤ liveSum s.a := by
      rw [raaLost_eq, liveSum_eq]
      apply sumBy_mono
      intro x _ hx
      have : x.st = .awaitingRemovedRemoteRevoke true := by simpa using hx
      rw [this]; rfl
    exact Nat.le_trans this hbal.fa
  have hcons := hbal.cons
  refine ⟨?_, ?_, ?_⟩
  · rw [hEB, hsa, hsb, hst, hnval]; omega
  · show liveSum s'.a ≤ s'.a.valueToSelf
    rw [hsa, hnval, liveSum_eq, hnout, sumBy_map, sumBy_filter]
    have h1 : sumBy s.a.outb (fun x => raaKeepOut x && liveOut (raaMapOut x).st) (fun x => (raaMapOut x).amt)
        = sumBy s.a.outb (fun x => liveOut x.st && raaKeepOut x) (·.amt) :=
      sumBy_congr (fun x _ => by rw [live_raaMapOut, Bool.and_comm]) (fun x _ => raaMapOut_amt x)
    have h2 := sumBy_split raaKeepOut s.a.outb (fun x => liveOut x.st) (·.amt)
    have h3 : raaLost s.a ≤ sumBy s.a.outb (fun x => liveOut x.st && !raaKeepOut x) (·.amt) := by
      rw [raaLost_eq]
      apply sumBy_mono
      intro x _ hx
      have : x.st = .awaitingRemovedRemoteRevoke true := by simpa using hx
      simp [raaKeepOut, this, liveOut]
    have h4 : liveSum s.a ≤ s.a.valueToSelf := hbal.fa
    rw [liveSum_eq] at h4
    rw [h1]; omega
  · show Funded s'.b
    rw [hsb]; exact hbal.fb

theorem pause_outb_map (n : Node) : ∃ g : OutHtlc → OutHtlc, n.pause.outb = n.outb.map g ∧
    (∀ x, (g x).id = x.id ∧ (g x).amt = x.amt) ∧ ∀ x, liveOut (g x).st = true → liveOut x.st = true := by
  cases hp : n.paused
  · rw [pause_unpaused hp]
    refine ⟨unRR, rfl, fun x => ⟨unRR_id x, unRR_amt x⟩, ?_⟩
    intro x hx
    rw [unRR_st] at hx
    cases hs : x.st <;> simp [hs, unRRst, liveOut] at hx ⊢ <;> exact hx
  · rw [pause_paused hp]
    exact ⟨fun x => x, by simp, fun _ => ⟨rfl, rfl⟩, fun _ h => h⟩

/-- events acted by `a` (or by both) -/
def trueSide : Ev → Prop
  | .commit x _ _ _ => x = true
  | .release x => x = true
  | .sendRaa x => x = true
  | .recv y => y = true
  | .disconnect => True
  | .reest y => y = true
  | .fee x _ => x = true

theorem Bal.step_true {s s' : Sys} {e : Ev} (hbal : Bal s) (hg : GoodA s) (hg' : GoodA s.swap)
    (hb : Base s) (hb' : Base s.swap) (hamt' : Amt s.swap) (h : stepG s e = some s') (he : trueSide e) :
    Bal s' := by
  obtain ⟨hk, h0⟩ := stepG_some h
  have idm : ∀ l : List OutHtlc, l = l.map (fun x => x) := by intro l; simp
  cases e with
  | commit x adds fu fa =>
    simp only [trueSide] at he; subst he
    exact hbal.commit_true hg hg' hb hb' h
  | release x =>
    simp only [trueSide] at he; subst he
    obtain ⟨_, _, _, e⟩ := step_release_true h0
    exact hbal.quiet hg hg' hb hb' h (fun x => x) (fun _ => ⟨rfl, rfl⟩) (fun _ _ hh => hh)
      (fun x => x) (fun _ => ⟨rfl, rfl⟩) (fun _ _ hh => hh) (by rw [e]; exact idm _) (by rw [e]; exact idm _)
      (by rw [e]) (by rw [e]) (by rw [e]) (by rw [e]) (by rw [e])
  | sendRaa x =>
    simp only [trueSide] at he; subst he
    obtain ⟨_, _, e⟩ := step_sendRaa_true h0
    exact hbal.quiet hg hg' hb hb' h (fun x => x) (fun _ => ⟨rfl, rfl⟩) (fun _ _ hh => hh)
      (fun x => x) (fun _ => ⟨rfl, rfl⟩) (fun _ _ hh => hh) (by rw [e]; exact idm _) (by rw [e]; exact idm _)
      (by rw [e]) (by rw [e]) (by rw [e]) (by rw [e]) (by rw [e])
  | recv y =>
    simp only [trueSide] at he; subst he
    obtain ⟨_, m, rest, n, okb, hq, hm, e⟩ := step_recv_true h0
    by_cases hmr : m = .raa
    · subst hmr
      exact hbal.recv_raa hg hg' hb hb' hamt' h hq
    · obtain ⟨e1, e2, g, e3, e4, e5⟩ := onMsg_nonraa hb.ok hm hmr
      exact hbal.quiet hg hg' hb hb' h g e4 e5 (fun x => x) (fun _ => ⟨rfl, rfl⟩) (fun _ _ hh => hh)
        (by rw [e]; exact e3) (by rw [e]; exact idm _) (by rw [e]; exact e1) (by rw [e])
        (by rw [e]; exact e2) (by rw [e]) (by rw [e])
  | disconnect =>
    have e := step_disconnect h0
    obtain ⟨g, hga, hgid, hgl⟩ := pause_outb_map s.a
    obtain ⟨g', hgb, hgid', hgl'⟩ := pause_outb_map s.b
    exact hbal.quiet hg hg' hb hb' h g hgid (fun x _ => hgl x) g' hgid' (fun x _ => hgl' x)
      (by rw [e]; exact hga) (by rw [e]; exact hgb) (by rw [e]; exact (pause_fields s.a).1) (by rw [e]; exact (pause_fields s.b).1)
      (by rw [e]; exact (pause_fields s.a).2.1) (by rw [e]; exact (pause_fields s.b).2.1) (by rw [e])
  | reest y =>
    simp only [trueSide] at he; subst he
    obtain ⟨n, p, hr, e⟩ := step_reest_true h0
    obtain ⟨_, _, _, _, _, en, _⟩ := reestablish_some hr
    exact hbal.quiet hg hg' hb hb' h (fun x => x) (fun _ => ⟨rfl, rfl⟩) (fun _ _ hh => hh)
      (fun x => x) (fun _ => ⟨rfl, rfl⟩) (fun _ _ hh => hh) (by rw [e, en]; exact idm _) (by rw [e]; exact idm _)
      (by rw [e, en]) (by rw [e]) (by rw [e, en]) (by rw [e]) (by rw [e])
  | fee x f =>
    simp only [trueSide] at he; subst he
    obtain ⟨_, _, _, _, _, e⟩ := step_fee_true h0
    exact hbal.quiet hg hg' hb hb' h (fun x => x) (fun _ => ⟨rfl, rfl⟩) (fun _ _ hh => hh)
      (fun x => x) (fun _ => ⟨rfl, rfl⟩) (fun _ _ hh => hh) (by rw [e]; exact idm _) (by rw [e]; exact idm _)
      (by rw [e]) (by rw [e]) (by rw [e]) (by rw [e]) (by rw [e])

theorem Bal.step {s s' : Sys} {e : Ev} (hbal : Bal s) (hg : GoodA s) (hg' : GoodA s.swap)
    (hb : Base s) (hb' : Base s.swap) (hamt : Amt s) (hamt' : Amt s.swap) (h : stepG s e = some s') : Bal s' := by
  have hsw : Bal s'.swap → Bal s' := fun hh => by simpa using hh.swap
  have h' := stepG_swap h
  have viaSwap : trueSide e.swap → Bal s' := fun he =>
    hsw (hbal.swap.step_true hg' (by simpa using hg) hb' (by simpa using hb) (by simpa using hamt) h' he)
  cases e with
  | commit x adds fu fa =>
    cases x
    · exact viaSwap rfl
    · exact hbal.step_true hg hg' hb hb' hamt' h rfl
  | release x =>
    cases x
    · exact viaSwap rfl
    · exact hbal.step_true hg hg' hb hb' hamt' h rfl
  | sendRaa x =>
    cases x
    · exact viaSwap rfl
    · exact hbal.step_true hg hg' hb hb' hamt' h rfl
  | recv y =>
    cases y
    · exact viaSwap rfl
    · exact hbal.step_true hg hg' hb hb' hamt' h rfl
  | disconnect => exact hbal.step_true hg hg' hb hb' hamt' h trivial
  | reest y =>
    cases y
    · exact viaSwap rfl
    · exact hbal.step_true hg hg' hb hb' hamt' h rfl
  | fee x f =>
    cases x
    · exact viaSwap rfl
    · exact hbal.step_true hg hg' hb hb' hamt' h rfl

/-! ### the balances of the two views of a commitment_signed about to be processed -/

theorem balance_agree {s : Sys} {c : Commit} {rest : List Msg} (hb : Base s) (hq : s.qab = Msg.cs c :: rest)
    (hbal : Bal s) (hg : GoodA s) (hg' : GoodA s.swap) (hamt' : Amt s.swap) (oka : NodeOK s.a) (okb : NodeOK s.b) :
    (s.a.buildView false true).builderBalance + (s.b.buildView true false).builderBalance = s.total := by
  -- the four claimed sums
  have hAout : sumBy s.a.outb (fun h => !(h.st.included true) && h.st.hasPreimage) (·.amt) = EA s := by
    unfold EA
    apply sumBy_congr _ (fun _ _ => rfl)
    intro x hx
    have f := good_balI _ (hg x.id)
    rw [(head_tokens hb hq x.id).1] at f
    have ho : (cfgA s x.id).o = some x.st := stOut_of_mem oka.sOut hx
    simp only [beq_self_eq_true, Bool.not_true, Bool.false_or, beq_iff_eq] at f
    rw [f, ho]; rfl
  have hBin : sumBy s.b.inb (fun h => !(h.st.included false) && h.st.hasPreimage) (·.amt) = 0 :=
    sumBy_zero _ (fun x _ => in_claimed_false x.st)
  have hX : sumBy s.b.outb (fun x => claimedIn true (stIn s.a.inb x.id)) (·.amt)
      = sumBy s.a.inb (fun h => !(h.st.included true) && h.st.hasPreimage) (·.amt) := by
    apply sum_block_eq _ _ okb.sOut oka.sIn hamt'.a1
    · intro x _ hp
      cases hi : stIn s.a.inb x.id with
      | none => rw [hi] at hp; cases hp
      | some st =>
        obtain ⟨x', hx', e1, e2⟩ := mem_of_stIn hi
        rw [hi] at hp
        exact ⟨x', hx', e1, by rw [e2]; exact hp⟩
    · intro x' hx' hq'
      have hi : stIn s.a.inb x'.id = some x'.st := stIn_of_mem oka.sIn hx'
      have f := good_in_out _ (hg' x'.id)
      have hi' : (cfgA s.swap x'.id).i = some x'.st := hi
      rw [hi'] at f
      simp only [Option.isSome_some, Bool.not_true, Bool.false_or] at f
      cases ho : stOut s.b.outb x'.id with
      | none => rw [show (cfgA s.swap x'.id).o = stOut s.b.outb x'.id from rfl, ho] at f; cases f
      | some st =>
        obtain ⟨x, hx, e1, _⟩ := mem_of_stOut ho
        exact ⟨x, hx, e1, by rw [e1, hi]; exact hq'⟩
  have hBout : sumBy s.b.outb (fun h => !(h.st.included false) && h.st.hasPreimage) (·.amt)
      = EA s.swap + sumBy s.a.inb (fun h => !(h.st.included true) && h.st.hasPreimage) (·.amt) := by
    rw [← hX]
    unfold EA
    show _ = sumBy s.b.outb (fun x => exc (cfgA s.swap x.id)) (·.amt) + _
    rw [← sumBy_or]
    · apply sumBy_congr _ (fun _ _ => rfl)
      intro x hx
      have f := good_balO _ (hg' x.id)
      rw [(head_tokens hb hq x.id).2] at f
      have ho : (cfgA s.swap x.id).o = some x.st := stOut_of_mem okb.sOut hx
      simp only [beq_self_eq_true, Bool.not_true, Bool.false_or, beq_iff_eq] at f
      have hi : (cfgA s.swap x.id).i = stIn s.a.inb x.id := rfl
      rw [hi] at f
      rw [f, ho]; rfl
    · intro x _ ⟨h1, h2⟩
      have hi : (cfgA s.swap x.id).i = stIn s.a.inb x.id := rfl
      simp only [exc, hi, Bool.and_eq_true] at h1
      cases hs : stIn s.a.inb x.id with
      | none => rw [hs] at h2; cases h2
      | some st => rw [hs] at h1; simp at h1
  -- no truncation
  have hle1 : EA s ≤ s.a.valueToSelf := by
    have : EA s ≤ liveSum s.a := by
      rw [← hAout, liveSum_eq]
      exact sumBy_mono _ (fun x _ hx => live_of_claimed true x.st hx)
    exact Nat.le_trans this hbal.fa
  have hle2 : sumBy s.b.outb (fun h => !(h.st.included false) && h.st.hasPreimage) (·.amt) ≤ s.b.valueToSelf := by
    have : sumBy s.b.outb (fun h => !(h.st.included false) && h.st.hasPreimage) (·.amt) ≤ liveSum s.b := by
      rw [liveSum_eq]
      exact sumBy_mono _ (fun x _ hx => live_of_claimed false x.st hx)
    exact Nat.le_trans this hbal.fb
  have hcons := hbal.cons
  show s.a.valueToSelf + sumBy s.a.inb (fun h => !(h.st.included true) && h.st.hasPreimage) (·.amt)
        - sumBy s.a.outb (fun h => !(h.st.included true) && h.st.hasPreimage) (·.amt)
      + (s.b.valueToSelf + sumBy s.b.inb (fun h => !(h.st.included false) && h.st.hasPreimage) (·.amt)
        - sumBy s.b.outb (fun h => !(h.st.included false) && h.st.hasPreimage) (·.amt)) = s.total
  rw [hAout, hBin, hBout]
  rw [hBout] at hle2
  omega

end Ldk.Chan
