/- Every guarded step of the concrete protocol acts on the abstract configuration of every HTLC id by
   one of the abstract moves (or leaves it unchanged); hence every HTLC of every reachable state has a
   `good` configuration. Core only. -/
import LdkModel.Proofs.Channel.Nodes
namespace Ldk.Chan

/-! ### basic directional invariant: id discipline of `a`, and `needRaaA` is coverable -/

structure Base (s : Sys) : Prop where
  ok : NodeOK s.a
  need : s.pendA ≠ [] → s.needRaaA ≤ s.a.raaSent + s.a.owesRaa

theorem NodeOK.congr {n n' : Node} (ok : NodeOK n) (h1 : n'.inb = n.inb) (h2 : n'.outb = n.outb)
    (h3 : n'.nextInId = n.nextInId) (h4 : n'.nextOutId = n.nextOutId) : NodeOK n' :=
  ⟨h1 ▸ ok.sIn, h2 ▸ ok.sOut, by rw [h1, h3]; exact ok.bIn, by rw [h2, h4]; exact ok.bOut⟩

theorem Base.init (va vb : Nat) : Base (Sys.init va vb) :=
  ⟨NodeOK.init va, by intro h; exact absurd rfl h⟩

theorem Base.step {s s' : Sys} {e : Ev} (hb : Base s) (h : stepG s e = some s') : Base s' := by
  obtain ⟨hk, h⟩ := stepG_some h
  cases e with
  | commit x adds fu fa =>
    cases x
    · obtain ⟨_, n, ms, _, e⟩ := step_commit_false h
      subst e; exact ⟨hb.ok, hb.need⟩
    · obtain ⟨_, n, ms, hc, e⟩ := step_commit_true h
      obtain ⟨_, _, en, _⟩ := commit_some hc
      subst e; subst en
      exact ⟨(hb.ok.built adds fu fa).congr rfl rfl rfl rfl, fun _ => Nat.le_refl _⟩
  | release x =>
    cases x
    · obtain ⟨_, _, e⟩ := step_release_false h
      subst e; exact ⟨hb.ok, hb.need⟩
    · obtain ⟨_, _, e⟩ := step_release_true h
      subst e; exact ⟨hb.ok, fun hp => absurd rfl hp⟩
  | sendRaa x =>
    cases x
    · obtain ⟨_, e⟩ := step_sendRaa_false h
      subst e; exact ⟨hb.ok, hb.need⟩
    · obtain ⟨ho, e⟩ := step_sendRaa_true h
      subst e
      refine ⟨hb.ok.congr rfl rfl rfl rfl, ?_⟩
      intro hp
      have := hb.need hp
      show s.needRaaA ≤ s.a.raaSent + 1 + (s.a.owesRaa - 1)
      omega
  | recv y =>
    cases y
    · obtain ⟨m, rest, n, ok, _, _, e⟩ := step_recv_false h
      subst e; exact ⟨hb.ok, hb.need⟩
    · obtain ⟨m, rest, n, ok, _, hm, e⟩ := step_recv_true h
      subst e
      refine ⟨hb.ok.onMsg hm, ?_⟩
      intro hp
      have := hb.need hp
      obtain ⟨e1, e2⟩ := onMsg_sent_owes hm
      show s.needRaaA ≤ n.raaSent + n.owesRaa
      rw [e1, e2]; omega

/-! ### the abstract configuration of HTLC `id` offered by `a` -/

def tokF (id : Nat) : Msg → Option Tok
  | .add id' _ => if id' = id then some .add else none
  | .cs _ => some .cs
  | .raa => some .raa
  | _ => none

def tokB (id : Nat) : Msg → Option Tok
  | .fulfill id' => if id' = id then some (.rem true) else none
  | .fail id' => if id' = id then some (.rem false) else none
  | .cs _ => some .cs
  | .raa => some .raa
  | .add _ _ => none

def cfgA (s : Sys) (id : Nat) : Cfg :=
  { o := stOut s.a.outb id, i := stIn s.b.inb id,
    fwd := s.fullAB.filterMap (tokF id), bwd := s.fullBA.filterMap (tokB id),
    awO := s.a.awaitingRaa, awI := s.b.awaitingRaa }

/-! ### tokens of a freshly built batch -/

theorem tokF_mkAdds (id : Nat) (amts : List Nat) : ∀ k,
    (mkAdds k amts).filterMap (tokF id) = if k ≤ id ∧ id < k + amts.length then [Tok.add] else [] := by
  induction amts with
  | nil => intro k; simp [mkAdds]
  | cons a as ih =>
    intro k
    simp only [mkAdds, List.filterMap_cons, tokF, List.length_cons]
    by_cases e : k = id
    · subst e
      simp only [if_true]
      rw [ih, if_neg (by omega), if_pos (by omega)]
    · rw [if_neg e, ih]
      by_cases h1 : k + 1 ≤ id ∧ id < k + 1 + as.length
      · rw [if_pos h1, if_pos (by omega)]
      · rw [if_neg h1, if_neg (by omega)]

theorem tokB_mkAdds (id : Nat) (amts : List Nat) : ∀ k, (mkAdds k amts).filterMap (tokB id) = [] := by
  induction amts with
  | nil => intro k; rfl
  | cons a as ih => intro k; simp only [mkAdds, List.filterMap_cons, tokB]; exact ih (k + 1)

theorem tokF_removals (id : Nat) (fu fa : List Nat) :
    (fu.map Msg.fulfill ++ fa.map Msg.fail).filterMap (tokF id) = [] := by
  simp [List.filterMap_eq_nil_iff, tokF]

theorem tokB_fulfills (id : Nat) (ok : Bool) (f : Nat → Msg) (hf : ∀ x, tokB id (f x) = if x = id then some (.rem ok) else none) :
    ∀ (l : List Nat), l.Nodup → (l.map f).filterMap (tokB id) = if id ∈ l then [Tok.rem ok] else [] := by
  intro l
  induction l with
  | nil => intro _; rfl
  | cons x xs ih =>
    intro hn
    obtain ⟨hx, hxs⟩ := List.nodup_cons.1 hn
    simp only [List.map_cons, List.filterMap_cons, hf, List.mem_cons]
    by_cases e : x = id
    · subst e
      simp [ih hxs, hx]
    · have : ¬ id = x := fun h => e h.symm
      simp [e, this, ih hxs]

theorem tokF_batch (n : Node) (adds fu fa : List Nat) (id : Nat) :
    (batchOf n adds fu fa).filterMap (tokF id) =
      (if n.nextOutId ≤ id ∧ id < n.nextOutId + adds.length then [Tok.add] else []) ++ [Tok.cs] := by
  unfold batchOf
  rw [List.append_assoc (mkAdds _ _), List.filterMap_append, List.filterMap_append, tokF_mkAdds, tokF_removals]
  simp [tokF]

theorem tokB_batch (n : Node) (adds fu fa : List Nat) (hn : (fu ++ fa).Nodup) (id : Nat) :
    (batchOf n adds fu fa).filterMap (tokB id) =
      (if id ∈ fu then [Tok.rem true] else []) ++ (if id ∈ fa then [Tok.rem false] else []) ++ [Tok.cs] := by
  unfold batchOf
  obtain ⟨h1, h2, _⟩ := List.nodup_append.1 hn
  rw [List.filterMap_append, List.filterMap_append, List.filterMap_append, tokB_mkAdds,
    tokB_fulfills id true Msg.fulfill (fun x => rfl) fu h1, tokB_fulfills id false Msg.fail (fun x => rfl) fa h2]
  simp [tokB]

theorem batchOf_ne_nil (n : Node) (adds fu fa : List Nat) : batchOf n adds fu fa ≠ [] := by
  unfold batchOf; simp

/-! ### the per-id state after `build_commitment_no_status_check` -/

theorem stOut_built (n : Node) (ok : NodeOK n) (adds fu fa : List Nat) (id : Nat) :
    stOut (n.built adds fu fa).outb id =
      if n.nextOutId ≤ id ∧ id < n.nextOutId + adds.length then some .localAnnounced
      else (stOut n.outb id).map OutState.onBuildCommitment := by
  show stOut ((n.outb ++ mkOuts n.nextOutId adds).map (fun (h : OutHtlc) => { h with st := h.st.onBuildCommitment })) id = _
  rw [stOut_map _ OutState.onBuildCommitment (fun _ => rfl), stOut_append, stOut_mkOuts]
  by_cases h : n.nextOutId ≤ id ∧ id < n.nextOutId + adds.length
  · rw [if_pos h, if_pos h, stOut_none_of_bound ok.bOut h.1]; rfl
  · rw [if_neg h, if_neg h]; simp

theorem stIn_built (n : Node) (adds fu fa : List Nat) (id : Nat) :
    stIn (n.built adds fu fa).inb id =
      (if id ∈ fa then (stIn n.inb id).map (fun _ => .localRemoved false)
       else if id ∈ fu then (stIn n.inb id).map (fun _ => .localRemoved true) else stIn n.inb id).map
        InState.onBuildCommitment := by
  show stIn ((markRemoved n.inb fu fa).map (fun (h : InHtlc) => { h with st := h.st.onBuildCommitment })) id = _
  rw [stIn_map _ InState.onBuildCommitment (fun _ => rfl), stIn_markRemoved]

/-! ### the refinement: one guarded step = one abstract move on every id -/

/-- `c'` is reached from `c` by an abstract move or is `c` itself -/
def Moved (c c' : Cfg) : Prop := c' = c ∨ ∃ m ∈ moves, m c = some c'

theorem good_of_moved {c c' : Cfg} (hc : good c = true) (hm : Moved c c') : good c' = true := by
  rcases hm with e | ⟨m, hm, e⟩
  · rw [e]; exact hc
  · exact good_closed hc hm e

theorem cfgA_commit_true {s s' : Sys} {adds fu fa : List Nat} (hb : Base s)
    (h : step s (.commit true adds fu fa) = some s') (id : Nat) : Moved (cfgA s id) (cfgA s' id) := by
  obtain ⟨hp, n, ms, hc, e⟩ := step_commit_true h
  obtain ⟨haw, _, en, ems⟩ := commit_some hc
  subst e; subst en; subst ems
  right
  have hfwd : ({ s with a := ({ s.a.built adds fu fa with awaitingRaa := true, csSent := s.a.csSent + 1 } : Node),
                        pendA := batchOf s.a adds fu fa, needRaaA := s.a.raaSent + s.a.owesRaa } : Sys).fullAB
      = s.fullAB ++ batchOf s.a adds fu fa := by
    show full s.qab (batchOf s.a adds fu fa) (s.a.raaSent + s.a.owesRaa) s.a.raaSent s.a.owesRaa = _
    rw [full_commit _ _ (batchOf_ne_nil _ _ _ _)]
    unfold Sys.fullAB
    rw [hp, full_nil_pend, full_nil_pend]
  by_cases hnew : s.a.nextOutId ≤ id ∧ id < s.a.nextOutId + adds.length
  · refine ⟨mCommitO true, by simp [moves], ?_⟩
    have ho : stOut s.a.outb id = none := stOut_none_of_bound hb.ok.bOut hnew.1
    simp only [mCommitO, cfgA, haw, ho, Option.isSome_none, Bool.false_eq_true, if_false, if_true, Option.some.injEq]
    rw [hfwd, List.filterMap_append, tokF_batch, if_pos hnew]
    congr 1
    symm
    show stOut (s.a.built adds fu fa).outb id = _
    rw [stOut_built _ hb.ok, if_pos hnew]
  · refine ⟨mCommitO false, by simp [moves], ?_⟩
    simp only [mCommitO, cfgA, haw, Bool.false_eq_true, if_false, Option.some.injEq]
    rw [hfwd, List.filterMap_append, tokF_batch, if_neg hnew]
    congr 1
    symm
    show stOut (s.a.built adds fu fa).outb id = _
    rw [stOut_built _ hb.ok, if_neg hnew]

theorem cfgA_commit_false {s s' : Sys} {adds fu fa : List Nat} (hb : Base s.swap) (hn : (fu ++ fa).Nodup)
    (h : step s (.commit false adds fu fa) = some s') (id : Nat) : Moved (cfgA s id) (cfgA s' id) := by
  obtain ⟨hp, n, ms, hc, e⟩ := step_commit_false h
  obtain ⟨haw, hcom, en, ems⟩ := commit_some hc
  subst e; subst en; subst ems
  right
  have hbwd : ({ s with b := ({ s.b.built adds fu fa with awaitingRaa := true, csSent := s.b.csSent + 1 } : Node),
                        pendB := batchOf s.b adds fu fa, needRaaB := s.b.raaSent + s.b.owesRaa } : Sys).fullBA
      = s.fullBA ++ batchOf s.b adds fu fa := by
    show full s.qba (batchOf s.b adds fu fa) (s.b.raaSent + s.b.owesRaa) s.b.raaSent s.b.owesRaa = _
    rw [full_commit _ _ (batchOf_ne_nil _ _ _ _)]
    unfold Sys.fullBA
    rw [hp, full_nil_pend, full_nil_pend]
  have hcom' : id ∈ fu ++ fa → stIn s.b.inb id = some .committed := by
    intro hid
    obtain ⟨x, hx, e1, e2⟩ := hcom id hid
    have := stIn_of_mem hb.ok.sIn hx
    rw [e1, e2] at this; exact this
  have hi : stIn (s.b.built adds fu fa).inb id = _ := stIn_built s.b adds fu fa id
  obtain ⟨_, _, hdisj⟩ := List.nodup_append.1 hn
  by_cases hfa : id ∈ fa
  · have hfu : id ∉ fu := fun hfu => hdisj id hfu id hfa rfl
    refine ⟨mCommitI (some false), by simp [moves], ?_⟩
    have hcm := hcom' (List.mem_append.2 (Or.inr hfa))
    simp only [mCommitI, cfgA, haw, hcm, Bool.false_eq_true, if_false, if_true, Option.some.injEq]
    rw [hbwd, List.filterMap_append, tokB_batch _ _ _ _ hn, if_pos hfa, if_neg hfu]
    congr 1
    symm
    show stIn (s.b.built adds fu fa).inb id = _
    rw [hi, if_pos hfa, hcm]; rfl
  · by_cases hfu : id ∈ fu
    · refine ⟨mCommitI (some true), by simp [moves], ?_⟩
      have hcm := hcom' (List.mem_append.2 (Or.inl hfu))
      simp only [mCommitI, cfgA, haw, hcm, Bool.false_eq_true, if_false, if_true, Option.some.injEq]
      rw [hbwd, List.filterMap_append, tokB_batch _ _ _ _ hn, if_pos hfu, if_neg hfa]
      congr 1
      symm
      show stIn (s.b.built adds fu fa).inb id = _
      rw [hi, if_neg hfa, if_pos hfu, hcm]; rfl
    · refine ⟨mCommitI none, by simp [moves], ?_⟩
      simp only [mCommitI, cfgA, haw, Bool.false_eq_true, if_false, Option.some.injEq]
      rw [hbwd, List.filterMap_append, tokB_batch _ _ _ _ hn, if_neg hfu, if_neg hfa]
      congr 1
      symm
      show stIn (s.b.built adds fu fa).inb id = _
      rw [hi, if_neg hfa, if_neg hfu]

theorem Cfg.ext' {c c' : Cfg} (h1 : c.o = c'.o) (h2 : c.i = c'.i) (h3 : c.fwd = c'.fwd) (h4 : c.bwd = c'.bwd)
    (h5 : c.awO = c'.awO) (h6 : c.awI = c'.awI) : c = c' := by
  cases c; cases c'; simp_all

theorem cfgA_release_true {s s' : Sys} (h : step s (.release true) = some s') (id : Nat) : cfgA s' id = cfgA s id := by
  obtain ⟨_, hlt, e⟩ := step_release_true h
  subst e
  have hf : ({ s with qab := s.qab ++ s.pendA, pendA := [] } : Sys).fullAB = s.fullAB := full_release _ _ _ _ _ hlt
  exact Cfg.ext' rfl rfl (by show List.filterMap _ _ = List.filterMap _ _; rw [hf]) rfl rfl rfl

theorem cfgA_release_false {s s' : Sys} (h : step s (.release false) = some s') (id : Nat) : cfgA s' id = cfgA s id := by
  obtain ⟨_, hlt, e⟩ := step_release_false h
  subst e
  have hf : ({ s with qba := s.qba ++ s.pendB, pendB := [] } : Sys).fullBA = s.fullBA := full_release _ _ _ _ _ hlt
  exact Cfg.ext' rfl rfl rfl (by show List.filterMap _ _ = List.filterMap _ _; rw [hf]) rfl rfl

theorem cfgA_sendRaa_true {s s' : Sys} (hb : Base s) (hk : evOk s (.sendRaa true) = true)
    (h : step s (.sendRaa true) = some s') (id : Nat) : cfgA s' id = cfgA s id := by
  obtain ⟨ho, e⟩ := step_sendRaa_true h
  subst e
  have hg : s.pendA = [] ∨ s.a.raaSent < s.needRaaA := by simpa [evOk] using hk
  have hf : ({ s with a := { s.a with owesRaa := s.a.owesRaa - 1, raaSent := s.a.raaSent + 1 }, qab := s.qab ++ [Msg.raa] } : Sys).fullAB
      = s.fullAB := full_sendRaa _ _ _ _ _ ho hg hb.need
  exact Cfg.ext' rfl rfl (by show List.filterMap _ _ = List.filterMap _ _; rw [hf]) rfl rfl rfl

theorem cfgA_sendRaa_false {s s' : Sys} (hb : Base s.swap) (hk : evOk s (.sendRaa false) = true)
    (h : step s (.sendRaa false) = some s') (id : Nat) : cfgA s' id = cfgA s id := by
  obtain ⟨ho, e⟩ := step_sendRaa_false h
  subst e
  have hg : s.pendB = [] ∨ s.b.raaSent < s.needRaaB := by simpa [evOk] using hk
  have hf : ({ s with b := { s.b with owesRaa := s.b.owesRaa - 1, raaSent := s.b.raaSent + 1 }, qba := s.qba ++ [Msg.raa] } : Sys).fullBA
      = s.fullBA := full_sendRaa _ _ _ _ _ ho hg hb.need
  exact Cfg.ext' rfl rfl rfl (by show List.filterMap _ _ = List.filterMap _ _; rw [hf]) rfl rfl

/-- `a` processes the head of the b→a stream -/
theorem cfgA_recv_true {s s' : Sys} (hb : Base s) (h : step s (.recv true) = some s') (id : Nat) :
    Moved (cfgA s id) (cfgA s' id) := by
  obtain ⟨m, rest, n, okb, hq, hm, e⟩ := step_recv_true h
  subst e
  have hpop : s.fullBA = m :: ({ s with a := n, qba := rest, agreed := s.agreed && okb } : Sys).fullBA := by
    show full s.qba s.pendB s.needRaaB s.b.raaSent s.b.owesRaa = m :: full rest s.pendB s.needRaaB s.b.raaSent s.b.owesRaa
    rw [hq, full_pop]
  obtain ⟨e1, e2⟩ := onMsg_sent_owes hm
  cases m with
  | add id' amt =>
    obtain ⟨_, _, en⟩ := onMsg_add hm
    subst en
    left
    refine Cfg.ext' rfl rfl rfl ?_ rfl rfl
    show List.filterMap _ _ = List.filterMap (tokB id) s.fullBA
    rw [hpop]; rfl
  | fulfill id' =>
    obtain ⟨⟨x, hx, hxid, hxst⟩, _, en⟩ := onMsg_fulfill hm
    subst en
    by_cases hid : id' = id
    · subst hid
      right
      refine ⟨mRecvO, by simp [moves], ?_⟩
      have ho : stOut s.a.outb id' = some .committed := by
        have := stOut_of_mem hb.ok.sOut hx; rw [hxid, hxst] at this; exact this
      have hbw : (cfgA s id').bwd = .rem true :: List.filterMap (tokB id') ({ s with a := { s.a with outb := setOut s.a.outb id' (fun _ => .remoteRemoved true) }, qba := rest, agreed := s.agreed && okb } : Sys).fullBA := by
        show List.filterMap _ s.fullBA = _
        rw [hpop]; simp [tokB]
      unfold mRecvO
      rw [hbw]
      simp only [show (cfgA s id').o = some .committed from ho, if_true, Option.some.injEq]
      refine Cfg.ext' ?_ rfl rfl rfl rfl rfl
      simp only [cfgA, stOut_setOut, if_true, ho, Option.map_some]
    · left
      refine Cfg.ext' ?_ rfl rfl ?_ rfl rfl
      · simp only [cfgA, stOut_setOut, if_neg (fun h : id = id' => hid h.symm)]
      · show List.filterMap _ _ = List.filterMap (tokB id) s.fullBA
        rw [hpop]; simp [tokB, hid]
  | fail id' =>
    obtain ⟨⟨x, hx, hxid, hxst⟩, _, en⟩ := onMsg_fail hm
    subst en
    by_cases hid : id' = id
    · subst hid
      right
      refine ⟨mRecvO, by simp [moves], ?_⟩
      have ho : stOut s.a.outb id' = some .committed := by
        have := stOut_of_mem hb.ok.sOut hx; rw [hxid, hxst] at this; exact this
      have hbw : (cfgA s id').bwd = .rem false :: List.filterMap (tokB id') ({ s with a := { s.a with outb := setOut s.a.outb id' (fun _ => .remoteRemoved false) }, qba := rest, agreed := s.agreed && okb } : Sys).fullBA := by
        show List.filterMap _ s.fullBA = _
        rw [hpop]; simp [tokB]
      unfold mRecvO
      rw [hbw]
      simp only [show (cfgA s id').o = some .committed from ho, if_true, Option.some.injEq]
      refine Cfg.ext' ?_ rfl rfl rfl rfl rfl
      simp only [cfgA, stOut_setOut, if_true, ho, Option.map_some]
    · left
      refine Cfg.ext' ?_ rfl rfl ?_ rfl rfl
      · simp only [cfgA, stOut_setOut, if_neg (fun h : id = id' => hid h.symm)]
      · show List.filterMap _ _ = List.filterMap (tokB id) s.fullBA
        rw [hpop]; simp [tokB, hid]
  | cs c =>
    obtain ⟨en, _⟩ := onMsg_cs hm
    subst en
    right
    refine ⟨mRecvO, by simp [moves], ?_⟩
    have hbw : (cfgA s id).bwd = .cs :: List.filterMap (tokB id) ({ s with a := s.a.afterCs, qba := rest, agreed := s.agreed && okb } : Sys).fullBA := by
      show List.filterMap _ s.fullBA = _
      rw [hpop]; simp [tokB]
    have hfw : ({ s with a := s.a.afterCs, qba := rest, agreed := s.agreed && okb } : Sys).fullAB = s.fullAB ++ [Msg.raa] :=
      full_owe _ _ _ _ _ hb.need
    unfold mRecvO
    rw [hbw]
    simp only [Option.some.injEq]
    refine Cfg.ext' ?_ rfl ?_ rfl rfl rfl
    · show _ = stOut (s.a.outb.map (fun (h : OutHtlc) => { h with st := h.st.onCommitmentSigned })) id
      rw [stOut_map _ OutState.onCommitmentSigned (fun _ => rfl)]; rfl
    · show _ = List.filterMap (tokF id) _
      rw [hfw]; simp [tokF, cfgA]
  | raa =>
    obtain ⟨hr, _⟩ := onMsg_raa hm
    obtain ⟨haw, en⟩ := onRaa_some hr
    right
    refine ⟨mRecvO, by simp [moves], ?_⟩
    have hbw : (cfgA s id).bwd = .raa :: List.filterMap (tokB id) ({ s with a := n, qba := rest, agreed := s.agreed && okb } : Sys).fullBA := by
      show List.filterMap _ s.fullBA = _
      rw [hpop]; rfl
    have hfw : ({ s with a := n, qba := rest, agreed := s.agreed && okb } : Sys).fullAB = s.fullAB := by
      show full s.qab s.pendA s.needRaaA n.raaSent n.owesRaa = _
      rw [e1, e2]; rfl
    unfold mRecvO
    rw [hbw]
    simp only [show (cfgA s id).awO = true from haw, if_true, Option.some.injEq]
    refine Cfg.ext' ?_ rfl ?_ rfl ?_ rfl
    · show _ = stOut n.outb id
      rw [en]
      show _ = stOut ((s.a.outb.filter raaKeepOut).map raaMapOut) id
      rw [stOut_onRaa hb.ok.sOut]; rfl
    · show _ = List.filterMap (tokF id) _
      rw [hfw]; rfl
    · show false = n.awaitingRaa
      rw [en]

/-- `b` processes the head of the a→b stream -/
theorem cfgA_recv_false {s s' : Sys} (hb : Base s.swap) (h : step s (.recv false) = some s') (id : Nat) :
    Moved (cfgA s id) (cfgA s' id) := by
  obtain ⟨m, rest, n, okb, hq, hm, e⟩ := step_recv_false h
  subst e
  have hpop : s.fullAB = m :: ({ s with b := n, qab := rest, agreed := s.agreed && okb } : Sys).fullAB := by
    show full s.qab s.pendA s.needRaaA s.a.raaSent s.a.owesRaa = m :: full rest s.pendA s.needRaaA s.a.raaSent s.a.owesRaa
    rw [hq, full_pop]
  obtain ⟨e1, e2⟩ := onMsg_sent_owes hm
  have hok : NodeOK s.b := hb.ok
  have hneed : s.pendB ≠ [] → s.needRaaB ≤ s.b.raaSent + s.b.owesRaa := hb.need
  have hbwd0 : (match m with | .cs _ => False | _ => True) →
      ({ s with b := n, qab := rest, agreed := s.agreed && okb } : Sys).fullBA = s.fullBA := by
    intro hm'
    show full s.qba s.pendB s.needRaaB n.raaSent n.owesRaa = _
    rw [e1, e2]
    cases m <;> first | rfl | exact absurd hm' (by simp)
  cases m with
  | add id' amt =>
    obtain ⟨hid', _, en⟩ := onMsg_add hm
    by_cases hid : id' = id
    · subst hid
      right
      refine ⟨mRecvI, by simp [moves], ?_⟩
      have hfw : (cfgA s id').fwd = .add :: List.filterMap (tokF id') ({ s with b := n, qab := rest, agreed := s.agreed && okb } : Sys).fullAB := by
        show List.filterMap _ s.fullAB = _
        rw [hpop]; simp [tokF]
      unfold mRecvI
      rw [hfw]
      simp only [Option.some.injEq]
      refine Cfg.ext' rfl ?_ rfl ?_ rfl (by simp only [cfgA, en])
      · show _ = stIn n.inb id'
        rw [en]
        show _ = stIn (s.b.inb ++ [_]) id'
        rw [stIn_append, stIn_none_of_bound hok.bIn (Nat.le_of_eq hid'.symm)]
        simp [stIn, lookup_cons]
      · show _ = List.filterMap (tokB id') _
        rw [hbwd0 trivial]; rfl
    · left
      refine Cfg.ext' rfl ?_ ?_ ?_ rfl (by simp only [cfgA, en])
      · show stIn n.inb id = _
        rw [en]
        show stIn (s.b.inb ++ [_]) id = _
        rw [stIn_append]
        have : stIn [({ id := id', amt := amt, st := .remoteAnnounced } : InHtlc)] id = none := by
          simp [stIn, lookup_cons, hid, lookup_nil]
        rw [this]; simp [cfgA]
      · show List.filterMap _ _ = List.filterMap (tokF id) s.fullAB
        rw [hpop]; simp [tokF, hid]
      · show List.filterMap (tokB id) _ = _
        rw [hbwd0 trivial]; rfl
  | fulfill id' =>
    obtain ⟨_, _, en⟩ := onMsg_fulfill hm
    left
    refine Cfg.ext' rfl ?_ ?_ ?_ rfl (by simp only [cfgA, en])
    · show stIn n.inb id = _
      rw [en]; rfl
    · show List.filterMap _ _ = List.filterMap (tokF id) s.fullAB
      rw [hpop]; rfl
    · show List.filterMap (tokB id) _ = _
      rw [hbwd0 trivial]; rfl
  | fail id' =>
    obtain ⟨_, _, en⟩ := onMsg_fail hm
    left
    refine Cfg.ext' rfl ?_ ?_ ?_ rfl (by simp only [cfgA, en])
    · show stIn n.inb id = _
      rw [en]; rfl
    · show List.filterMap _ _ = List.filterMap (tokF id) s.fullAB
      rw [hpop]; rfl
    · show List.filterMap (tokB id) _ = _
      rw [hbwd0 trivial]; rfl
  | cs c =>
    obtain ⟨en, _⟩ := onMsg_cs hm
    right
    refine ⟨mRecvI, by simp [moves], ?_⟩
    have hfw : (cfgA s id).fwd = .cs :: List.filterMap (tokF id) ({ s with b := n, qab := rest, agreed := s.agreed && okb } : Sys).fullAB := by
      show List.filterMap _ s.fullAB = _
      rw [hpop]; rfl
    have hbw : ({ s with b := n, qab := rest, agreed := s.agreed && okb } : Sys).fullBA = s.fullBA ++ [Msg.raa] := by
      show full s.qba s.pendB s.needRaaB n.raaSent n.owesRaa = _
      rw [e1, e2]
      exact full_owe _ _ _ _ _ hneed
    unfold mRecvI
    rw [hfw]
    simp only [Option.some.injEq]
    refine Cfg.ext' rfl ?_ rfl ?_ ?_ ?_
    · show _ = stIn n.inb id
      rw [en]
      show _ = stIn (s.b.inb.map (fun (h : InHtlc) => { h with st := h.st.onCommitmentSigned })) id
      rw [stIn_map _ InState.onCommitmentSigned (fun _ => rfl)]; rfl
    · show _ = List.filterMap (tokB id) _
      rw [hbw]; simp [tokB, cfgA]
    · rfl
    · show s.b.awaitingRaa = n.awaitingRaa
      rw [en]; rfl
  | raa =>
    obtain ⟨hr, _⟩ := onMsg_raa hm
    obtain ⟨haw, en⟩ := onRaa_some hr
    right
    refine ⟨mRecvI, by simp [moves], ?_⟩
    have hfw : (cfgA s id).fwd = .raa :: List.filterMap (tokF id) ({ s with b := n, qab := rest, agreed := s.agreed && okb } : Sys).fullAB := by
      show List.filterMap _ s.fullAB = _
      rw [hpop]; rfl
    unfold mRecvI
    rw [hfw]
    simp only [show (cfgA s id).awI = true from haw, if_true, Option.some.injEq]
    refine Cfg.ext' rfl ?_ rfl ?_ rfl ?_
    · show _ = stIn n.inb id
      rw [en]
      show _ = stIn ((s.b.inb.filter raaKeepIn).map raaMapIn) id
      rw [stIn_onRaa hok.sIn]; rfl
    · show _ = List.filterMap (tokB id) _
      rw [hbwd0 trivial]; rfl
    · show false = n.awaitingRaa
      rw [en]

/-- every guarded step moves every HTLC configuration (of the a-offered family) along the abstract system -/
theorem cfgA_step {s s' : Sys} {e : Ev} (hb : Base s) (hb' : Base s.swap) (h : stepG s e = some s') (id : Nat) :
    Moved (cfgA s id) (cfgA s' id) := by
  obtain ⟨hk, h⟩ := stepG_some h
  cases e with
  | commit x adds fu fa =>
    cases x
    · have hn : (fu ++ fa).Nodup := by
        simp only [evOk, Bool.and_eq_true, decide_eq_true_eq] at hk; exact hk.1
      exact cfgA_commit_false hb' hn h id
    · exact cfgA_commit_true hb h id
  | release x =>
    cases x
    · exact Or.inl (cfgA_release_false h id)
    · exact Or.inl (cfgA_release_true h id)
  | sendRaa x =>
    cases x
    · exact Or.inl (cfgA_sendRaa_false hb' hk h id)
    · exact Or.inl (cfgA_sendRaa_true hb hk h id)
  | recv y =>
    cases y
    · exact cfgA_recv_false hb' h id
    · exact cfgA_recv_true hb h id

/-- the per-HTLC invariant: every id has a good configuration (for the HTLCs `a` offers) -/
def GoodA (s : Sys) : Prop := ∀ id, good (cfgA s id) = true

theorem GoodA.init (va vb : Nat) : GoodA (Sys.init va vb) := by
  intro id
  have : cfgA (Sys.init va vb) id = Cfg.init := rfl
  rw [this]; exact good_init

theorem GoodA.step {s s' : Sys} {e : Ev} (hg : GoodA s) (hb : Base s) (hb' : Base s.swap)
    (h : stepG s e = some s') : GoodA s' :=
  fun id => good_of_moved (hg id) (cfgA_step hb hb' h id)

/-! ### the two revoke_and_ack receipts, precisely -/

theorem cfgA_recv_true_raa {s s' : Sys} {rest : List Msg} (hb : Base s) (h : step s (.recv true) = some s')
    (hq0 : s.qba = Msg.raa :: rest) (id : Nat) :
    mRecvO (cfgA s id) = some (cfgA s' id) ∧ (cfgA s id).bwd.head? = some .raa := by
  obtain ⟨m, rest', n, okb, hq, hm, e⟩ := step_recv_true h
  rw [hq0] at hq
  injection hq with hq1 hq2
  subst hq1; subst hq2
  subst e
  have hpop : s.fullBA = Msg.raa :: ({ s with a := n, qba := rest, agreed := s.agreed && okb } : Sys).fullBA := by
    show full s.qba s.pendB s.needRaaB s.b.raaSent s.b.owesRaa = Msg.raa :: full rest s.pendB s.needRaaB s.b.raaSent s.b.owesRaa
    rw [hq0, full_pop]
  obtain ⟨e1, e2⟩ := onMsg_sent_owes hm
  obtain ⟨hr, _⟩ := onMsg_raa hm
  obtain ⟨haw, en⟩ := onRaa_some hr
  have hbw : (cfgA s id).bwd = .raa :: List.filterMap (tokB id) ({ s with a := n, qba := rest, agreed := s.agreed && okb } : Sys).fullBA := by
    show List.filterMap _ s.fullBA = _
    rw [hpop]; rfl
  have hfw : ({ s with a := n, qba := rest, agreed := s.agreed && okb } : Sys).fullAB = s.fullAB := by
    show full s.qab s.pendA s.needRaaA n.raaSent n.owesRaa = _
    rw [e1, e2]; rfl
  refine ⟨?_, by rw [hbw]; rfl⟩
  unfold mRecvO
  rw [hbw]
  simp only [show (cfgA s id).awO = true from haw, if_true, Option.some.injEq]
  refine Cfg.ext' ?_ rfl ?_ rfl ?_ rfl
  · show _ = stOut n.outb id
    rw [en]
    show _ = stOut ((s.a.outb.filter raaKeepOut).map raaMapOut) id
    rw [stOut_onRaa hb.ok.sOut]; rfl
  · show _ = List.filterMap (tokF id) _
    rw [hfw]; rfl
  · show false = n.awaitingRaa
    rw [en]

theorem cfgA_recv_false_raa {s s' : Sys} {rest : List Msg} (hb : Base s.swap) (h : step s (.recv false) = some s')
    (hq0 : s.qab = Msg.raa :: rest) (id : Nat) :
    mRecvI (cfgA s id) = some (cfgA s' id) ∧ (cfgA s id).fwd.head? = some .raa := by
  obtain ⟨m, rest', n, okb, hq, hm, e⟩ := step_recv_false h
  rw [hq0] at hq
  injection hq with hq1 hq2
  subst hq1; subst hq2
  subst e
  have hpop : s.fullAB = Msg.raa :: ({ s with b := n, qab := rest, agreed := s.agreed && okb } : Sys).fullAB := by
    show full s.qab s.pendA s.needRaaA s.a.raaSent s.a.owesRaa = Msg.raa :: full rest s.pendA s.needRaaA s.a.raaSent s.a.owesRaa
    rw [hq0, full_pop]
  obtain ⟨e1, e2⟩ := onMsg_sent_owes hm
  have hok : NodeOK s.b := hb.ok
  obtain ⟨hr, _⟩ := onMsg_raa hm
  obtain ⟨haw, en⟩ := onRaa_some hr
  have hfw : (cfgA s id).fwd = .raa :: List.filterMap (tokF id) ({ s with b := n, qab := rest, agreed := s.agreed && okb } : Sys).fullAB := by
    show List.filterMap _ s.fullAB = _
    rw [hpop]; rfl
  have hbw : ({ s with b := n, qab := rest, agreed := s.agreed && okb } : Sys).fullBA = s.fullBA := by
    show full s.qba s.pendB s.needRaaB n.raaSent n.owesRaa = _
    rw [e1, e2]; rfl
  refine ⟨?_, by rw [hfw]; rfl⟩
  unfold mRecvI
  rw [hfw]
  simp only [show (cfgA s id).awI = true from haw, if_true, Option.some.injEq]
  refine Cfg.ext' rfl ?_ rfl ?_ rfl ?_
  · show _ = stIn n.inb id
    rw [en]
    show _ = stIn ((s.b.inb.filter raaKeepIn).map raaMapIn) id
    rw [stIn_onRaa hok.sIn]; rfl
  · show _ = List.filterMap (tokB id) _
    rw [hbw]; rfl
  · show false = n.awaitingRaa
    rw [en]

end Ldk.Chan
