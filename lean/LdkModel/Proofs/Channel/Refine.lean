/- Every guarded step of the concrete protocol acts on the abstract configuration of every HTLC id by
   one of the abstract moves (or leaves it unchanged); hence every HTLC of every reachable state has a
   `good` configuration. Core only. -/
import LdkModel.Proofs.Channel.Streams
namespace Ldk.Chan

/-! ### the abstract configuration of HTLC `id` offered by `a` -/

def tokF (id : Nat) : Msg → Option Tok
  | .add id' _ => if id' = id then some .add else none
  | .cs _ => some .cs
  | .raa => some .raa
  | _ => none

def tokB (id : Nat) : Msg → Option Tok
  | .fulfill id' => if id' = id then some (.rem true) else none
  | .fail id' => if id' = id then some (.rem false) else none
  | .cs _ => some .cs
  | .raa => some .raa
  | .add _ _ => none
  | .fee _ => none

def cfgA (s : Sys) (id : Nat) : Cfg :=
  { o := stOut s.a.outb id, i := stIn s.b.inb id,
    fwd := s.fullAB.filterMap (tokF id), bwd := s.fullBA.filterMap (tokB id),
    awO := s.a.awaitingRaa, awI := s.b.awaitingRaa }

/-! ### tokens of a freshly built batch -/

theorem tokF_mkAdds (id : Nat) (amts : List Nat) : ∀ k,
    (mkAdds k amts).filterMap (tokF id) = if k ≤ id ∧ id < k + amts.length then [Tok.add] else [] := by
  induction amts with
  | nil => intro k; simp [mkAdds]
  | cons a as ih =>
    intro k
    simp only [mkAdds, List.filterMap_cons, tokF, List.length_cons]
    by_cases e : k = id
    · subst e
      simp only [if_true]
      rw [ih, if_neg (by omega), if_pos (by omega)]
    · rw [if_neg e, ih]
      by_cases h1 : k + 1 ≤ id ∧ id < k + 1 + as.length
      · rw [if_pos h1, if_pos (by omega)]
      · rw [if_neg h1, if_neg (by omega)]

theorem tokB_mkAdds (id : Nat) (amts : List Nat) : ∀ k, (mkAdds k amts).filterMap (tokB id) = [] := by
  induction amts with
  | nil => intro k; rfl
  | cons a as ih => intro k; simp only [mkAdds, List.filterMap_cons, tokB]; exact ih (k + 1)

theorem tokF_removals (id : Nat) (fu fa : List Nat) :
    (fu.map Msg.fulfill ++ fa.map Msg.fail).filterMap (tokF id) = [] := by
  simp [List.filterMap_eq_nil_iff, tokF]

theorem tokB_fulfills (id : Nat) (ok : Bool) (f : Nat → Msg) (hf : ∀ x, tokB id (f x) = if x = id then some (.rem ok) else none) :
    ∀ (l : List Nat), l.Nodup → (l.map f).filterMap (tokB id) = if id ∈ l then [Tok.rem ok] else [] := by
  intro l
  induction l with
  | nil => intro _; rfl
  | cons x xs ih =>
    intro hn
    obtain ⟨hx, hxs⟩ := List.nodup_cons.1 hn
    simp only [List.map_cons, List.filterMap_cons, hf, List.mem_cons]
    by_cases e : x = id
    · subst e
      simp [ih hxs, hx]
    · have : ¬ id = x := fun h => e h.symm
      simp [e, this, ih hxs]

theorem tokF_feeMsgs (id : Nat) (n : Node) : n.feeMsgs.filterMap (tokF id) = [] := by
  unfold Node.feeMsgs; split <;> rfl
theorem tokB_feeMsgs (id : Nat) (n : Node) : n.feeMsgs.filterMap (tokB id) = [] := by
  unfold Node.feeMsgs; split <;> rfl

theorem tokF_batch (n : Node) (adds fu fa : List Nat) (id : Nat) :
    (batchOf n adds fu fa).filterMap (tokF id) =
      (if n.nextOutId ≤ id ∧ id < n.nextOutId + adds.length then [Tok.add] else []) ++ [Tok.cs] := by
  unfold batchOf
  rw [List.append_assoc n.feeMsgs, List.append_assoc n.feeMsgs, List.append_assoc n.feeMsgs, List.filterMap_append, tokF_feeMsgs,
    List.nil_append, List.append_assoc (mkAdds _ _), List.filterMap_append, List.filterMap_append, tokF_mkAdds, tokF_removals]
  simp [tokF]

theorem tokB_batch (n : Node) (adds fu fa : List Nat) (hn : (fu ++ fa).Nodup) (id : Nat) :
    (batchOf n adds fu fa).filterMap (tokB id) =
      (if id ∈ fu then [Tok.rem true] else []) ++ (if id ∈ fa then [Tok.rem false] else []) ++ [Tok.cs] := by
  unfold batchOf
  obtain ⟨h1, h2, _⟩ := List.nodup_append.1 hn
  rw [List.filterMap_append, List.filterMap_append, List.filterMap_append, List.filterMap_append, tokB_feeMsgs, tokB_mkAdds,
    tokB_fulfills id true Msg.fulfill (fun x => rfl) fu h1, tokB_fulfills id false Msg.fail (fun x => rfl) fa h2]
  simp [tokB]

theorem batchOf_ne_nil (n : Node) (adds fu fa : List Nat) : batchOf n adds fu fa ≠ [] := by
  unfold batchOf; simp

/-! ### the per-id state after `build_commitment_no_status_check` -/

theorem stOut_built (n : Node) (ok : NodeOK n) (adds fu fa : List Nat) (id : Nat) :
    stOut (n.built adds fu fa).outb id =
      if n.nextOutId ≤ id ∧ id < n.nextOutId + adds.length then some .localAnnounced
      else (stOut n.outb id).map OutState.onBuildCommitment := by
  show stOut ((n.outb ++ mkOuts n.nextOutId adds).map (fun (h : OutHtlc) => { h with st := h.st.onBuildCommitment })) id = _
  rw [stOut_map _ OutState.onBuildCommitment (fun _ => rfl), stOut_append, stOut_mkOuts]
  by_cases h : n.nextOutId ≤ id ∧ id < n.nextOutId + adds.length
  · rw [if_pos h, if_pos h, stOut_none_of_bound ok.bOut h.1]; rfl
  · rw [if_neg h, if_neg h]; simp

theorem stIn_built (n : Node) (adds fu fa : List Nat) (id : Nat) :
    stIn (n.built adds fu fa).inb id =
      (if id ∈ fa then (stIn n.inb id).map (fun _ => .localRemoved false)
       else if id ∈ fu then (stIn n.inb id).map (fun _ => .localRemoved true) else stIn n.inb id).map
        InState.onBuildCommitment := by
  show stIn ((markRemoved n.inb fu fa).map (fun (h : InHtlc) => { h with st := h.st.onBuildCommitment })) id = _
  rw [stIn_map _ InState.onBuildCommitment (fun _ => rfl), stIn_markRemoved]

/-! ### the refinement: one guarded step = one abstract move on every id -/

/-- `c'` is reached from `c` by an abstract move or is `c` itself -/
def Moved (c c' : Cfg) : Prop := c' = c ∨ ∃ m ∈ moves, m c = some c'

theorem good_of_moved {c c' : Cfg} (hc : good c = true) (hm : Moved c c') : good c' = true := by
  rcases hm with e | ⟨m, hm, e⟩
  · rw [e]; exact hc
  · exact good_closed hc hm e

theorem cfgA_commit_true {s s' : Sys} {adds fu fa : List Nat} (hb : Base s)
    (h : step s (.commit true adds fu fa) = some s') (id : Nat) : Moved (cfgA s id) (cfgA s' id) := by
  have hfwd := fullAB_commit_true h
  have hbwd : s'.fullBA = s.fullBA :=
    fullAB_commit_false (s := s.swap) (s' := s'.swap) (by have := step_swap s (.commit true adds fu fa); rw [h] at this; exact this)
  obtain ⟨_, hp, n, ms, hc, e⟩ := step_commit_true h
  obtain ⟨haw, _, en, ems⟩ := commit_some hc
  subst e; subst en; subst ems
  right
  by_cases hnew : s.a.nextOutId ≤ id ∧ id < s.a.nextOutId + adds.length
  · refine ⟨mCommitO true, by simp [moves], ?_⟩
    have ho : stOut s.a.outb id = none := stOut_none_of_bound hb.ok.bOut hnew.1
    simp only [mCommitO, cfgA, haw, ho, Option.isSome_none, Bool.false_eq_true, if_false, if_true, Option.some.injEq]
    rw [hfwd, hbwd, List.filterMap_append, tokF_batch, if_pos hnew]
    congr 1
    symm
    show stOut (s.a.built adds fu fa).outb id = _
    rw [stOut_built _ hb.ok, if_pos hnew]
  · refine ⟨mCommitO false, by simp [moves], ?_⟩
    simp only [mCommitO, cfgA, haw, Bool.false_eq_true, if_false, Option.some.injEq]
    rw [hfwd, hbwd, List.filterMap_append, tokF_batch, if_neg hnew]
    congr 1
    symm
    show stOut (s.a.built adds fu fa).outb id = _
    rw [stOut_built _ hb.ok, if_neg hnew]

theorem cfgA_commit_false {s s' : Sys} {adds fu fa : List Nat} (hb : Base s.swap) (hn : (fu ++ fa).Nodup)
    (h : step s (.commit false adds fu fa) = some s') (id : Nat) : Moved (cfgA s id) (cfgA s' id) := by
  have hbwd : s'.fullBA = s.fullBA ++ batchOf s.b adds fu fa :=
    fullAB_commit_true (s := s.swap) (s' := s'.swap) (by have := step_swap s (.commit false adds fu fa); rw [h] at this; exact this)
  have hfwd := fullAB_commit_false h
  obtain ⟨_, hp, n, ms, hc, e⟩ := step_commit_false h
  obtain ⟨haw, hcom, en, ems⟩ := commit_some hc
  subst e; subst en; subst ems
  right
  have hcom' : id ∈ fu ++ fa → stIn s.b.inb id = some .committed := by
    intro hid
    obtain ⟨x, hx, e1, e2⟩ := hcom id hid
    have := stIn_of_mem hb.ok.sIn hx
    rw [e1, e2] at this; exact this
  have hi : stIn (s.b.built adds fu fa).inb id = _ := stIn_built s.b adds fu fa id
  obtain ⟨_, _, hdisj⟩ := List.nodup_append.1 hn
  by_cases hfa : id ∈ fa
  · have hfu : id ∉ fu := fun hfu => hdisj id hfu id hfa rfl
    refine ⟨mCommitI (some false), by simp [moves], ?_⟩
    have hcm := hcom' (List.mem_append.2 (Or.inr hfa))
    simp only [mCommitI, cfgA, haw, hcm, Bool.false_eq_true, if_false, if_true, Option.some.injEq]
    rw [hbwd, hfwd, List.filterMap_append, tokB_batch _ _ _ _ hn, if_pos hfa, if_neg hfu]
    congr 1
    symm
    show stIn (s.b.built adds fu fa).inb id = _
    rw [hi, if_pos hfa, hcm]; rfl
  · by_cases hfu : id ∈ fu
    · refine ⟨mCommitI (some true), by simp [moves], ?_⟩
      have hcm := hcom' (List.mem_append.2 (Or.inl hfu))
      simp only [mCommitI, cfgA, haw, hcm, Bool.false_eq_true, if_false, if_true, Option.some.injEq]
      rw [hbwd, hfwd, List.filterMap_append, tokB_batch _ _ _ _ hn, if_pos hfu, if_neg hfa]
      congr 1
      symm
      show stIn (s.b.built adds fu fa).inb id = _
      rw [hi, if_neg hfa, if_pos hfu, hcm]; rfl
    · refine ⟨mCommitI none, by simp [moves], ?_⟩
      simp only [mCommitI, cfgA, haw, Bool.false_eq_true, if_false, Option.some.injEq]
      rw [hbwd, hfwd, List.filterMap_append, tokB_batch _ _ _ _ hn, if_neg hfu, if_neg hfa]
      congr 1
      symm
      show stIn (s.b.built adds fu fa).inb id = _
      rw [hi, if_neg hfa, if_neg hfu]

theorem Cfg.ext' {c c' : Cfg} (h1 : c.o = c'.o) (h2 : c.i = c'.i) (h3 : c.fwd = c'.fwd) (h4 : c.bwd = c'.bwd)
    (h5 : c.awO = c'.awO) (h6 : c.awI = c'.awI) : c = c' := by
  cases c; cases c'; simp_all

theorem cfgA_release_true {s s' : Sys} (h : step s (.release true) = some s') (id : Nat) : cfgA s' id = cfgA s id := by
  have hf := fullAB_release_true h
  obtain ⟨_, _, hlt, e⟩ := step_release_true h
  subst e
  exact Cfg.ext' rfl rfl (by show List.filterMap _ _ = List.filterMap _ _; rw [hf]) rfl rfl rfl

theorem cfgA_release_false {s s' : Sys} (h : step s (.release false) = some s') (id : Nat) : cfgA s' id = cfgA s id := by
  have hf : s'.fullBA = s.fullBA :=
    fullAB_release_true (s := s.swap) (s' := s'.swap) (by have := step_swap s (.release false); rw [h] at this; exact this)
  obtain ⟨_, _, hlt, e⟩ := step_release_false h
  subst e
  exact Cfg.ext' rfl rfl rfl (by show List.filterMap _ _ = List.filterMap _ _; rw [hf]) rfl rfl

theorem cfgA_sendRaa_true {s s' : Sys} (hb : Base s) (hk : evOk s (.sendRaa true) = true)
    (h : step s (.sendRaa true) = some s') (id : Nat) : cfgA s' id = cfgA s id := by
  have hf := fullAB_sendRaa_true hb hk h
  obtain ⟨_, ho, e⟩ := step_sendRaa_true h
  subst e
  exact Cfg.ext' rfl rfl (by show List.filterMap _ _ = List.filterMap _ _; rw [hf]) rfl rfl rfl

theorem cfgA_sendRaa_false {s s' : Sys} (hb : Base s.swap) (hk : evOk s (.sendRaa false) = true)
    (h : step s (.sendRaa false) = some s') (id : Nat) : cfgA s' id = cfgA s id := by
  have hf : s'.fullBA = s.fullBA :=
    fullAB_sendRaa_true (s := s.swap) (s' := s'.swap) hb (by rw [← evOk_swap] at hk; exact hk)
      (by have := step_swap s (.sendRaa false); rw [h] at this; exact this)
  obtain ⟨_, ho, e⟩ := step_sendRaa_false h
  subst e
  exact Cfg.ext' rfl rfl rfl (by show List.filterMap _ _ = List.filterMap _ _; rw [hf]) rfl rfl

/-- `a` processes the head `m` of the b→a stream: either `m` does not concern this HTLC and nothing changes,
    or its token is at the head of `bwd` and the offerer-side receive move applies -/
theorem cfgA_recv_true_precise {s s' : Sys} (hb : Base s) (hb' : Base s.swap) (h : step s (.recv true) = some s')
    (id : Nat) : ∃ m rest, s.qba = m :: rest ∧
      ((tokB id m = none ∧ cfgA s' id = cfgA s id) ∨
       (∃ t, tokB id m = some t ∧ (cfgA s id).bwd.head? = some t ∧ mRecvO (cfgA s id) = some (cfgA s' id))) := by
  obtain ⟨hpa, m, rest, n, okb, hq, hm, e⟩ := step_recv_true h
  refine ⟨m, rest, hq, ?_⟩
  have hpop : s.fullBA = m :: s'.fullBA := by rw [e]; exact fullBA_pop_recv_true hb' hq n _ _
  have hfw : s'.fullAB = s.fullAB ++ owedFor m := by rw [e]; exact fullAB_after_recv_true hb hpa _ _ hm
  have hsa : s'.a = n := by rw [e]
  have hsb : s'.b = s.b := by rw [e]
  have ci : (cfgA s' id).i = (cfgA s id).i := by show stIn s'.b.inb id = _; rw [hsb]; rfl
  have cawI : (cfgA s' id).awI = (cfgA s id).awI := by show s'.b.awaitingRaa = _; rw [hsb]; rfl
  have cfwd : (cfgA s' id).fwd = (cfgA s id).fwd ++ (owedFor m).filterMap (tokF id) := by
    show List.filterMap _ s'.fullAB = _
    rw [hfw, List.filterMap_append]; rfl
  have cbwd : (cfgA s id).bwd = (match tokB id m with | some t => [t] | none => []) ++ (cfgA s' id).bwd := by
    show List.filterMap _ s.fullBA = _
    rw [hpop, List.filterMap_cons]
    cases tokB id m <;> rfl
  have co : (cfgA s' id).o = stOut n.outb id := by show stOut s'.a.outb id = _; rw [hsa]
  have cawO : (cfgA s' id).awO = n.awaitingRaa := by show s'.a.awaitingRaa = _; rw [hsa]
  cases m with
  | add id' amt =>
    obtain ⟨_, _, en⟩ := onMsg_add hm
    left
    refine ⟨rfl, Cfg.ext' (by rw [co, en]; rfl) ci (by rw [cfwd]; simp [owedFor]) (by rw [cbwd]; rfl) (by rw [cawO, en]; rfl) cawI⟩
  | fee f =>
    obtain ⟨_, _, en⟩ := onMsg_fee hm
    left
    refine ⟨rfl, Cfg.ext' (by rw [co, en]; rfl) ci (by rw [cfwd]; simp [owedFor]) (by rw [cbwd]; rfl) (by rw [cawO, en]; rfl) cawI⟩
  | fulfill id' =>
    obtain ⟨⟨x, hx, hxid, hxst⟩, _, en⟩ := onMsg_fulfill hm
    have ho' : stOut n.outb id = if id = id' then (stOut s.a.outb id).map (fun _ => .remoteRemoved true) else stOut s.a.outb id := by
      rw [en]; exact stOut_setOut s.a.outb id' (fun _ => _) id
    by_cases hid : id' = id
    · subst hid
      right
      have ho : stOut s.a.outb id' = some .committed := by
        have := stOut_of_mem hb.ok.sOut hx; rw [hxid, hxst] at this; exact this
      have ht : tokB id' (Msg.fulfill id') = some (.rem true) := by simp [tokB]
      rw [ht] at cbwd
      refine ⟨_, ht, by rw [cbwd]; rfl, ?_⟩
      unfold mRecvO
      rw [cbwd]
      simp only [List.singleton_append, show (cfgA s id').o = some .committed from ho, if_true, Option.some.injEq]
      refine Cfg.ext' (by rw [co, ho', if_pos rfl, ho]; rfl) ci.symm (by rw [cfwd]; simp [owedFor]) rfl (by rw [cawO, en]; rfl) cawI.symm
    · left
      have ht : tokB id (Msg.fulfill id') = none := by simp [tokB, hid]
      rw [ht] at cbwd
      exact ⟨ht, Cfg.ext' (by rw [co, ho', if_neg (fun h => hid h.symm)]; rfl) ci (by rw [cfwd]; simp [owedFor]) (by rw [cbwd]; rfl)
        (by rw [cawO, en]; rfl) cawI⟩
  | fail id' =>
    obtain ⟨⟨x, hx, hxid, hxst⟩, _, en⟩ := onMsg_fail hm
    have ho' : stOut n.outb id = if id = id' then (stOut s.a.outb id).map (fun _ => .remoteRemoved false) else stOut s.a.outb id := by
      rw [en]; exact stOut_setOut s.a.outb id' (fun _ => _) id
    by_cases hid : id' = id
    · subst hid
      right
      have ho : stOut s.a.outb id' = some .committed := by
        have := stOut_of_mem hb.ok.sOut hx; rw [hxid, hxst] at this; exact this
      have ht : tokB id' (Msg.fail id') = some (.rem false) := by simp [tokB]
      rw [ht] at cbwd
      refine ⟨_, ht, by rw [cbwd]; rfl, ?_⟩
      unfold mRecvO
      rw [cbwd]
      simp only [List.singleton_append, show (cfgA s id').o = some .committed from ho, if_true, Option.some.injEq]
      refine Cfg.ext' (by rw [co, ho', if_pos rfl, ho]; rfl) ci.symm (by rw [cfwd]; simp [owedFor]) rfl (by rw [cawO, en]; rfl) cawI.symm
    · left
      have ht : tokB id (Msg.fail id') = none := by simp [tokB, hid]
      rw [ht] at cbwd
      exact ⟨ht, Cfg.ext' (by rw [co, ho', if_neg (fun h => hid h.symm)]; rfl) ci (by rw [cfwd]; simp [owedFor]) (by rw [cbwd]; rfl)
        (by rw [cawO, en]; rfl) cawI⟩
  | cs c =>
    obtain ⟨en, _⟩ := onMsg_cs hm
    right
    have ht : tokB id (Msg.cs c) = some .cs := rfl
    rw [ht] at cbwd
    refine ⟨_, ht, by rw [cbwd]; rfl, ?_⟩
    unfold mRecvO
    rw [cbwd]
    simp only [List.singleton_append, Option.some.injEq]
    refine Cfg.ext' ?_ ci.symm (by rw [cfwd]; rfl) rfl (by rw [cawO, en]; rfl) cawI.symm
    rw [co, en]
    show _ = stOut (s.a.outb.map (fun (h : OutHtlc) => { h with st := h.st.onCommitmentSigned })) id
    rw [stOut_map _ OutState.onCommitmentSigned (fun _ => rfl)]; rfl
  | raa =>
    obtain ⟨hr, _⟩ := onMsg_raa hm
    obtain ⟨haw, en⟩ := onRaa_some hr
    right
    have ht : tokB id Msg.raa = some .raa := rfl
    rw [ht] at cbwd
    refine ⟨_, ht, by rw [cbwd]; rfl, ?_⟩
    unfold mRecvO
    rw [cbwd]
    simp only [List.singleton_append, show (cfgA s id).awO = true from haw, if_true, Option.some.injEq]
    refine Cfg.ext' ?_ ci.symm (by rw [cfwd]; simp [owedFor]) rfl (by rw [cawO, en]) cawI.symm
    rw [co, en]
    show _ = stOut ((s.a.outb.filter raaKeepOut).map raaMapOut) id
    rw [stOut_onRaa hb.ok.sOut]; rfl

/-- `b` processes the head `m` of the a→b stream -/
theorem cfgA_recv_false_precise {s s' : Sys} (hb : Base s) (hb' : Base s.swap) (h : step s (.recv false) = some s')
    (id : Nat) : ∃ m rest, s.qab = m :: rest ∧
      ((tokF id m = none ∧ cfgA s' id = cfgA s id) ∨
       (∃ t, tokF id m = some t ∧ (cfgA s id).fwd.head? = some t ∧ mRecvI (cfgA s id) = some (cfgA s' id))) := by
  obtain ⟨hpb, m, rest, n, okb, hq, hm, e⟩ := step_recv_false h
  refine ⟨m, rest, hq, ?_⟩
  have hok : NodeOK s.b := hb'.ok
  have hpop : s.fullAB = m :: s'.fullAB := by rw [e]; exact fullAB_pop_recv_false hb hq n _ _
  have hbw : s'.fullBA = s.fullBA ++ owedFor m := by rw [e]; exact fullBA_after_recv_false hb' hpb _ _ hm
  have hsa : s'.a = s.a := by rw [e]
  have hsb : s'.b = n := by rw [e]
  have co : (cfgA s' id).o = (cfgA s id).o := by show stOut s'.a.outb id = _; rw [hsa]; rfl
  have cawO : (cfgA s' id).awO = (cfgA s id).awO := by show s'.a.awaitingRaa = _; rw [hsa]; rfl
  have cbwd : (cfgA s' id).bwd = (cfgA s id).bwd ++ (owedFor m).filterMap (tokB id) := by
    show List.filterMap _ s'.fullBA = _
    rw [hbw, List.filterMap_append]; rfl
  have cfwd : (cfgA s id).fwd = (match tokF id m with | some t => [t] | none => []) ++ (cfgA s' id).fwd := by
    show List.filterMap _ s.fullAB = _
    rw [hpop, List.filterMap_cons]
    cases tokF id m <;> rfl
  have ci : (cfgA s' id).i = stIn n.inb id := by show stIn s'.b.inb id = _; rw [hsb]
  have cawI : (cfgA s' id).awI = n.awaitingRaa := by show s'.b.awaitingRaa = _; rw [hsb]
  cases m with
  | add id' amt =>
    obtain ⟨hid', _, en⟩ := onMsg_add hm
    have hi' : stIn n.inb id = (stIn s.b.inb id).or (stIn [({ id := id', amt := amt, st := .remoteAnnounced } : InHtlc)] id) := by
      rw [en]; exact stIn_append _ _ _
    by_cases hid : id' = id
    · subst hid
      right
      have ht : tokF id' (Msg.add id' amt) = some .add := by simp [tokF]
      rw [ht] at cfwd
      refine ⟨_, ht, by rw [cfwd]; rfl, ?_⟩
      unfold mRecvI
      rw [cfwd]
      simp only [List.singleton_append, Option.some.injEq]
      refine Cfg.ext' co.symm ?_ rfl (by rw [cbwd]; simp [owedFor]) cawO.symm (by rw [cawI, en]; rfl)
      rw [ci, hi', stIn_none_of_bound hok.bIn (Nat.le_of_eq hid'.symm)]
      simp [stIn, lookup_cons]
    · left
      have ht : tokF id (Msg.add id' amt) = none := by simp [tokF, hid]
      rw [ht] at cfwd
      refine ⟨ht, Cfg.ext' co ?_ (by rw [cfwd]; rfl) (by rw [cbwd]; simp [owedFor]) cawO (by rw [cawI, en]; rfl)⟩
      rw [ci, hi']
      have : stIn [({ id := id', amt := amt, st := .remoteAnnounced } : InHtlc)] id = none := by
        simp [stIn, lookup_cons, hid, lookup_nil]
      rw [this]; simp [cfgA]
  | fulfill id' =>
    obtain ⟨_, _, en⟩ := onMsg_fulfill hm
    left
    exact ⟨rfl, Cfg.ext' co (by rw [ci, en]; rfl) (by rw [cfwd]; rfl) (by rw [cbwd]; simp [owedFor]) cawO (by rw [cawI, en]; rfl)⟩
  | fail id' =>
    obtain ⟨_, _, en⟩ := onMsg_fail hm
    left
    exact ⟨rfl, Cfg.ext' co (by rw [ci, en]; rfl) (by rw [cfwd]; rfl) (by rw [cbwd]; simp [owedFor]) cawO (by rw [cawI, en]; rfl)⟩
  | fee f =>
    obtain ⟨_, _, en⟩ := onMsg_fee hm
    left
    exact ⟨rfl, Cfg.ext' co (by rw [ci, en]; rfl) (by rw [cfwd]; rfl) (by rw [cbwd]; simp [owedFor]) cawO (by rw [cawI, en]; rfl)⟩
  | cs c =>
    obtain ⟨en, _⟩ := onMsg_cs hm
    right
    have ht : tokF id (Msg.cs c) = some .cs := rfl
    rw [ht] at cfwd
    refine ⟨_, ht, by rw [cfwd]; rfl, ?_⟩
    unfold mRecvI
    rw [cfwd]
    simp only [List.singleton_append, Option.some.injEq]
    refine Cfg.ext' co.symm ?_ rfl (by rw [cbwd]; rfl) cawO.symm (by rw [cawI, en]; rfl)
    rw [ci, en]
    show _ = stIn (s.b.inb.map (fun (h : InHtlc) => { h with st := h.st.onCommitmentSigned })) id
    rw [stIn_map _ InState.onCommitmentSigned (fun _ => rfl)]; rfl
  | raa =>
    obtain ⟨hr, _⟩ := onMsg_raa hm
    obtain ⟨haw, en⟩ := onRaa_some hr
    right
    have ht : tokF id Msg.raa = some .raa := rfl
    rw [ht] at cfwd
    refine ⟨_, ht, by rw [cfwd]; rfl, ?_⟩
    unfold mRecvI
    rw [cfwd]
    simp only [List.singleton_append, show (cfgA s id).awI = true from haw, if_true, Option.some.injEq]
    refine Cfg.ext' co.symm ?_ rfl (by rw [cbwd]; simp [owedFor]) cawO.symm (by rw [cawI, en])
    rw [ci, en]
    show _ = stIn ((s.b.inb.filter raaKeepIn).map raaMapIn) id
    rw [stIn_onRaa hok.sIn]; rfl

theorem cfgA_recv_true {s s' : Sys} (hb : Base s) (hb' : Base s.swap) (h : step s (.recv true) = some s') (id : Nat) :
    Moved (cfgA s id) (cfgA s' id) := by
  obtain ⟨m, rest, _, hc | ⟨t, _, _, hc⟩⟩ := cfgA_recv_true_precise hb hb' h id
  · exact Or.inl hc.2
  · exact Or.inr ⟨mRecvO, by simp [moves], hc⟩

theorem cfgA_recv_false {s s' : Sys} (hb : Base s) (hb' : Base s.swap) (h : step s (.recv false) = some s') (id : Nat) :
    Moved (cfgA s id) (cfgA s' id) := by
  obtain ⟨m, rest, _, hc | ⟨t, _, _, hc⟩⟩ := cfgA_recv_false_precise hb hb' h id
  · exact Or.inl hc.2
  · exact Or.inr ⟨mRecvI, by simp [moves], hc⟩

/-! ### reestablish: nothing changes for any HTLC -/

theorem step_swap_of {s s' : Sys} {e : Ev} (h : step s e = some s') : step s.swap e.swap = some s'.swap := by
  have := step_swap s e; rw [h] at this; exact this

theorem cfgA_reest_true {s s' : Sys} (hb : Base s) (h : step s (.reest true) = some s') (id : Nat) :
    cfgA s' id = cfgA s id := by
  have hf := fullAB_reest_true hb h
  have hf' : s'.fullBA = s.fullBA := fullAB_reest_false (s := s.swap) (s' := s'.swap) (step_swap_of h)
  obtain ⟨n, p, hr, e⟩ := step_reest_true h
  obtain ⟨_, _, _, _, _, en, _⟩ := reestablish_some hr
  have hsa : s'.a = n := by rw [e]
  have hsb : s'.b = s.b := by rw [e]
  exact Cfg.ext' (by show stOut s'.a.outb id = stOut s.a.outb id; rw [hsa, en]) (by show stIn s'.b.inb id = _; rw [hsb]; rfl)
    (by show List.filterMap _ _ = List.filterMap _ _; rw [hf]) (by show List.filterMap _ _ = List.filterMap _ _; rw [hf'])
    (by show s'.a.awaitingRaa = s.a.awaitingRaa; rw [hsa, en]) (by show s'.b.awaitingRaa = _; rw [hsb]; rfl)

theorem cfgA_reest_false {s s' : Sys} (hb' : Base s.swap) (h : step s (.reest false) = some s') (id : Nat) :
    cfgA s' id = cfgA s id := by
  have hf := fullAB_reest_false h
  have hf' : s'.fullBA = s.fullBA := fullAB_reest_true (s := s.swap) (s' := s'.swap) hb' (step_swap_of h)
  obtain ⟨n, p, hr, e⟩ := step_reest_false h
  obtain ⟨_, _, _, _, _, en, _⟩ := reestablish_some hr
  have hsa : s'.a = s.a := by rw [e]
  have hsb : s'.b = n := by rw [e]
  exact Cfg.ext' (by show stOut s'.a.outb id = _; rw [hsa]; rfl) (by show stIn s'.b.inb id = stIn s.b.inb id; rw [hsb, en])
    (by show List.filterMap _ _ = List.filterMap _ _; rw [hf]) (by show List.filterMap _ _ = List.filterMap _ _; rw [hf'])
    (by show s'.a.awaitingRaa = _; rw [hsa]; rfl) (by show s'.b.awaitingRaa = s.b.awaitingRaa; rw [hsb, en])

/-! ### disconnection: the abstract `mDisc` move

Both the old token stream (any good configuration has canonical shape) and the retransmission stream are
determined by four Booleans; the invariants `Base.i1/i2/i7` say the Booleans agree. -/

theorem raaBefore_nil : raaBefore [] = false := rfl
theorem raaBefore_cons_cs (l : List Tok) : raaBefore (.cs :: l) = false := by simp [raaBefore]
theorem raaBefore_cons_raa (l : List Tok) : raaBefore (.raa :: l) = l.contains .cs := by
  simp [raaBefore, List.takeWhile_cons]
theorem raaBefore_cons_other (t : Tok) (l : List Tok) (h1 : t ≠ .cs) (h2 : t ≠ .raa) : raaBefore (t :: l) = raaBefore l := by
  cases t with
  | cs => exact absurd rfl h1
  | raa => exact absurd rfl h2
  | add => simp [raaBefore, List.takeWhile_cons]
  | rem ok => simp [raaBefore, List.takeWhile_cons]

theorem tokF_profile (id : Nat) (l : List Msg) :
    (l.filterMap (tokF id)).contains .cs = hasCs l ∧
    (l.filterMap (tokF id)).contains .raa = decide (countRaa l ≠ 0) ∧
    raaBefore (l.filterMap (tokF id)) = raaFirst l := by
  induction l with
  | nil => exact ⟨rfl, rfl, rfl⟩
  | cons m l ih =>
    obtain ⟨h1, h2, h3⟩ := ih
    cases m with
    | cs c =>
      refine ⟨by simp [tokF, hasCs], ?_, by simp [tokF, raaBefore_cons_cs, raaFirst]⟩
      simp only [List.filterMap_cons, tokF, countRaa_cons]
      simpa using h2
    | raa =>
      refine ⟨?_, by simp [tokF, countRaa_cons], ?_⟩
      · simp only [List.filterMap_cons, tokF]; simpa [hasCs] using h1
      · simp only [List.filterMap_cons, tokF, raaBefore_cons_raa, raaFirst]; exact h1
    | add id' amt =>
      by_cases e : id' = id
      · refine ⟨?_, ?_, ?_⟩
        · simp only [List.filterMap_cons, tokF, if_pos e]; simpa [hasCs] using h1
        · simp only [List.filterMap_cons, tokF, if_pos e, countRaa_cons]; simpa using h2
        · simp only [List.filterMap_cons, tokF, if_pos e]
          rw [raaBefore_cons_other _ _ (by simp) (by simp)]; exact h3
      · refine ⟨?_, ?_, ?_⟩
        · simp only [List.filterMap_cons, tokF, if_neg e]; simpa [hasCs] using h1
        · simp only [List.filterMap_cons, tokF, if_neg e, countRaa_cons]; simpa using h2
        · simp only [List.filterMap_cons, tokF, if_neg e]; exact h3
    | fulfill id' =>
      refine ⟨?_, ?_, ?_⟩
      · simp only [List.filterMap_cons, tokF]; simpa [hasCs] using h1
      · simp only [List.filterMap_cons, tokF, countRaa_cons]; simpa using h2
      · simp only [List.filterMap_cons, tokF]; exact h3
    | fail id' =>
      refine ⟨?_, ?_, ?_⟩
      · simp only [List.filterMap_cons, tokF]; simpa [hasCs] using h1
      · simp only [List.filterMap_cons, tokF, countRaa_cons]; simpa using h2
      · simp only [List.filterMap_cons, tokF]; exact h3
    | fee id' =>
      refine ⟨?_, ?_, ?_⟩
      · simp only [List.filterMap_cons, tokF]; simpa [hasCs] using h1
      · simp only [List.filterMap_cons, tokF, countRaa_cons]; simpa using h2
      · simp only [List.filterMap_cons, tokF]; exact h3

theorem tokB_profile (id : Nat) (l : List Msg) :
    (l.filterMap (tokB id)).contains .cs = hasCs l ∧
    (l.filterMap (tokB id)).contains .raa = decide (countRaa l ≠ 0) ∧
    raaBefore (l.filterMap (tokB id)) = raaFirst l := by
  induction l with
  | nil => exact ⟨rfl, rfl, rfl⟩
  | cons m l ih =>
    obtain ⟨h1, h2, h3⟩ := ih
    cases m with
    | cs c =>
      refine ⟨by simp [tokB, hasCs], ?_, by simp [tokB, raaBefore_cons_cs, raaFirst]⟩
      simp only [List.filterMap_cons, tokB, countRaa_cons]
      simpa using h2
    | raa =>
      refine ⟨?_, by simp [tokB, countRaa_cons], ?_⟩
      · simp only [List.filterMap_cons, tokB]; simpa [hasCs] using h1
      · simp only [List.filterMap_cons, tokB, raaBefore_cons_raa, raaFirst]; exact h1
    | add id' amt =>
      refine ⟨?_, ?_, ?_⟩
      · simp only [List.filterMap_cons, tokB]; simpa [hasCs] using h1
      · simp only [List.filterMap_cons, tokB, countRaa_cons]; simpa using h2
      · simp only [List.filterMap_cons, tokB]; exact h3
    | fulfill id' =>
      by_cases e : id' = id
      · refine ⟨?_, ?_, ?_⟩
        · simp only [List.filterMap_cons, tokB, if_pos e]; simpa [hasCs] using h1
        · simp only [List.filterMap_cons, tokB, if_pos e, countRaa_cons]; simpa using h2
        · simp only [List.filterMap_cons, tokB, if_pos e]
          rw [raaBefore_cons_other _ _ (by simp) (by simp)]; exact h3
      · refine ⟨?_, ?_, ?_⟩
        · simp only [List.filterMap_cons, tokB, if_neg e]; simpa [hasCs] using h1
        · simp only [List.filterMap_cons, tokB, if_neg e, countRaa_cons]; simpa using h2
        · simp only [List.filterMap_cons, tokB, if_neg e]; exact h3
    | fail id' =>
      by_cases e : id' = id
      · refine ⟨?_, ?_, ?_⟩
        · simp only [List.filterMap_cons, tokB, if_pos e]; simpa [hasCs] using h1
        · simp only [List.filterMap_cons, tokB, if_pos e, countRaa_cons]; simpa using h2
        · simp only [List.filterMap_cons, tokB, if_pos e]
          rw [raaBefore_cons_other _ _ (by simp) (by simp)]; exact h3
      · refine ⟨?_, ?_, ?_⟩
        · simp only [List.filterMap_cons, tokB, if_neg e]; simpa [hasCs] using h1
        · simp only [List.filterMap_cons, tokB, if_neg e, countRaa_cons]; simpa using h2
        · simp only [List.filterMap_cons, tokB, if_neg e]; exact h3
    | fee f =>
      refine ⟨?_, ?_, ?_⟩
      · simp only [List.filterMap_cons, tokB]; simpa [hasCs] using h1
      · simp only [List.filterMap_cons, tokB, countRaa_cons]; simpa using h2
      · simp only [List.filterMap_cons, tokB]; exact h3

theorem fm_none {α : Type} {key : α → Nat} (l : List α) (p : α → Bool) (mk : α → Msg) (tk : Msg → Option Tok) (t : Tok) (id : Nat)
    (hmk : ∀ h, tk (mk h) = if key h = id then some t else none) (hno : ∀ h ∈ l, key h ≠ id) :
    ((l.filter p).map mk).filterMap tk = [] := by
  rw [List.filterMap_eq_nil_iff]
  intro m hm
  obtain ⟨h, hh, e⟩ := List.mem_map.1 hm
  rw [← e, hmk, if_neg (hno h (List.mem_filter.1 hh).1)]

/-- the tokens of "one message per selected element" over an id-sorted list -/
theorem fm_sorted {α : Type} {key : α → Nat} {l : List α} (hs : Sorted key l) (p : α → Bool) (mk : α → Msg)
    (tk : Msg → Option Tok) (t : Tok) (id : Nat) (hmk : ∀ h, tk (mk h) = if key h = id then some t else none) :
    ((l.filter p).map mk).filterMap tk = if ((lookup key l id).filter p).isSome then [t] else [] := by
  induction l with
  | nil => rfl
  | cons x l ih =>
    rw [lookup_cons]
    by_cases hx : key x = id
    · have hno : ∀ h ∈ l, key h ≠ id := by intro h hh; have := hs.head_lt h hh; omega
      have hrest := fm_none l p mk tk t id hmk hno
      rw [if_pos hx]
      by_cases hp : p x = true
      · simp [List.filter_cons, hp, hmk, hx, hrest, Option.filter]
      · simp [List.filter_cons, hp, hrest, Option.filter]
    · rw [if_neg hx, ← ih hs.tail]
      by_cases hp : p x = true
      · simp [List.filter_cons, hp, hmk, hx]
      · simp [List.filter_cons, hp]

theorem tokF_replicate (id k : Nat) : (List.replicate k Msg.raa).filterMap (tokF id) = List.replicate k Tok.raa := by
  induction k with
  | zero => rfl
  | succ k ih => rw [List.replicate_succ, List.filterMap_cons, ih]; rfl
theorem tokB_replicate (id k : Nat) : (List.replicate k Msg.raa).filterMap (tokB id) = List.replicate k Tok.raa := by
  induction k with
  | zero => rfl
  | succ k ih => rw [List.replicate_succ, List.filterMap_cons, ih]; rfl

theorem tokF_lastBatch {n : Node} (ok : NodeOK n) (id : Nat) :
    n.lastBatch.filterMap (tokF id) = (if stOut n.outb id = some .localAnnounced then [.add] else []) ++ [.cs] := by
  unfold Node.lastBatch
  rw [List.filterMap_append, List.filterMap_append, List.filterMap_append, List.filterMap_append, tokF_feeMsgs, List.nil_append,
    fm_sorted ok.sOut (fun h => h.st == .localAnnounced) (fun h => Msg.add h.id h.amt) (tokF id) .add id (fun h => rfl)]
  have h2 : ((n.inb.filter (fun h => h.st == .localRemoved true)).map (fun h => Msg.fulfill h.id)).filterMap (tokF id) = [] := by
    rw [List.filterMap_eq_nil_iff]; intro m hm; obtain ⟨h, _, e⟩ := List.mem_map.1 hm; rw [← e]; rfl
  have h3 : ((n.inb.filter (fun h => h.st == .localRemoved false)).map (fun h => Msg.fail h.id)).filterMap (tokF id) = [] := by
    rw [List.filterMap_eq_nil_iff]; intro m hm; obtain ⟨h, _, e⟩ := List.mem_map.1 hm; rw [← e]; rfl
  rw [h2, h3]
  have : ((lookup (fun h : OutHtlc => h.id) n.outb id).filter (fun h => h.st == .localAnnounced)).isSome
      = decide (stOut n.outb id = some .localAnnounced) := by
    unfold stOut lookOut
    cases lookup (fun h : OutHtlc => h.id) n.outb id with
    | none => simp [Option.filter]
    | some h => by_cases e : h.st = .localAnnounced <;> simp [Option.filter, e]
  rw [this]
  by_cases e : stOut n.outb id = some .localAnnounced <;> simp [e, tokF]

theorem tokB_lastBatch {n : Node} (ok : NodeOK n) (id : Nat) :
    n.lastBatch.filterMap (tokB id)
      = (match lrOf (stIn n.inb id) with | some ok => [.rem ok] | none => []) ++ [.cs] := by
  unfold Node.lastBatch
  rw [List.filterMap_append, List.filterMap_append, List.filterMap_append, List.filterMap_append, tokB_feeMsgs, List.nil_append,
    fm_sorted ok.sIn (fun h => h.st == .localRemoved true) (fun h => Msg.fulfill h.id) (tokB id) (.rem true) id (fun h => rfl),
    fm_sorted ok.sIn (fun h => h.st == .localRemoved false) (fun h => Msg.fail h.id) (tokB id) (.rem false) id (fun h => rfl)]
  have h1 : ((n.outb.filter (fun h => h.st == .localAnnounced)).map (fun h => Msg.add h.id h.amt)).filterMap (tokB id) = [] := by
    rw [List.filterMap_eq_nil_iff]; intro m hm; obtain ⟨h, _, e⟩ := List.mem_map.1 hm; rw [← e]; rfl
  rw [h1]
  unfold stIn lookIn
  cases lookup (fun h : InHtlc => h.id) n.inb id with
  | none => simp [Option.filter, lrOf, tokB]
  | some h =>
    obtain ⟨hid, amt, st⟩ := h
    cases st with
    | localRemoved ok => cases ok <;> simp [Option.filter, lrOf, tokB]
    | remoteAnnounced => simp [Option.filter, lrOf, tokB]
    | awaitingRemoteRevokeToAnnounce => simp [Option.filter, lrOf, tokB]
    | awaitingAnnouncedRemoteRevoke => simp [Option.filter, lrOf, tokB]
    | committed => simp [Option.filter, lrOf, tokB]

/-- the four Booleans of a (good) old stream, from the invariants -/
theorem old_profile {s : Sys} (hb : Base s) (hb' : Base s.swap) :
    hasCs s.fullAB = decide (s.a.csSent ≠ s.b.csRecv) ∧
    decide (countRaa s.fullAB ≠ 0) = decide (s.b.raaRecv < s.a.csRecv) ∧
    raaFirst s.fullAB = (decide (s.a.csSent ≠ s.b.csRecv) && decide (s.b.raaRecv < s.needRaaA)) ∧
    s.a.csRecv - s.b.raaRecv ≤ 1 := by
  have i1 := hb.i1
  have i2 := hb.i2
  have rb := hb.raaBound hb'
  refine ⟨?_, ?_, ?_, by omega⟩
  · by_cases h : countCs s.fullAB = 0
    · rw [hasCs_false_of_count h]; symm; simp; omega
    · rw [(hasCs_iff_count _).2 h]; symm; simp; omega
  · by_cases h : countRaa s.fullAB = 0
    · simp [h]; omega
    · simp [h]; omega
  · by_cases h : countCs s.fullAB = 0
    · have : hasCs s.fullAB = false := hasCs_false_of_count h
      have hr : raaFirst s.fullAB = false := by
        -- no commitment_signed in the stream
        have key : ∀ l : List Msg, hasCs l = false → raaFirst l = false := by
          intro l
          induction l with
          | nil => intro _; rfl
          | cons m l ih =>
            intro hl
            cases m with
            | cs c => simp [hasCs] at hl
            | raa =>
              have : hasCs l = false := by simpa [hasCs] using hl
              simp [raaFirst, this]
            | add _ _ => exact ih (by simpa [hasCs] using hl)
            | fulfill _ => exact ih (by simpa [hasCs] using hl)
            | fail _ => exact ih (by simpa [hasCs] using hl)
            | fee _ => exact ih (by simpa [hasCs] using hl)
        exact key _ this
      rw [hr]; symm; simp; omega
    · rw [hb.i7 h]
      have : decide (s.a.csSent ≠ s.b.csRecv) = true := by simp; omega
      rw [this]; simp

/-- tokens of the retransmission stream -/
theorem retrans_tokens (tk : Msg → Option Tok) (hrep : ∀ k, (List.replicate k Msg.raa).filterMap tk = List.replicate k Tok.raa)
    (R : List Msg) (need r ow : Nat) (how : ow ≤ 1) (hpre : R ≠ [] → need - r ≤ ow) :
    (full [] R need r ow).filterMap tk
      = (if R ≠ [] ∧ r < need then [Tok.raa] else []) ++ R.filterMap tk
          ++ (if ow ≠ 0 ∧ ¬ (R ≠ [] ∧ r < need) then [Tok.raa] else []) := by
  unfold full
  rw [List.nil_append, List.filterMap_append, List.filterMap_append, hrep, hrep]
  by_cases hR : R = []
  · subst hR
    simp only [if_true, ne_eq, not_true_eq_false, false_and, if_false, Nat.sub_zero, not_false_eq_true, and_true]
    cases ow with
    | zero => rfl
    | succ k => have : k = 0 := by omega
                subst this; rfl
  · have hp := hpre hR
    rw [if_neg hR]
    simp only [ne_eq, hR, not_false_eq_true, true_and]
    by_cases hlt : r < need
    · have h1 : need - r = 1 := by omega
      have h2 : ow - 1 = 0 := by omega
      rw [if_pos hlt, h1, h2]; simp [hlt]
    · have h1 : need - r = 0 := by omega
      rw [if_neg hlt, h1, Nat.sub_zero]
      cases ow with
      | zero => simp
      | succ k => have : k = 0 := by omega
                  subst this; simp [hlt]

theorem unRR_opt (o : Option OutState) :
    o.map unRRst = discO o := by
  cases o with
  | none => rfl
  | some st => cases st <;> rfl

theorem unRR_LA (o : Option OutState) : (o.map unRRst = some .localAnnounced) ↔ (o = some .localAnnounced) := by
  cases o with
  | none => simp
  | some st => cases st <;> simp [unRRst]

theorem notRA_opt (i : Option InState) :
    i.filter (fun st => st != .remoteAnnounced) = (if i = some .remoteAnnounced then none else i) := by
  cases i with
  | none => rfl
  | some st => cases st <;> simp [Option.filter]

theorem lrOf_notRA (i : Option InState) : lrOf (i.filter (fun st => st != .remoteAnnounced)) = lrOf i := by
  cases i with
  | none => rfl
  | some st => cases st <;> simp [Option.filter, lrOf]

/-- new a→b tokens after a disconnection, in canonical form -/
theorem disc_new_fwd {s s' : Sys} (hb : Base s) (hb' : Base s.swap) (h : step s .disconnect = some s') (id : Nat) :
    s'.fullAB.filterMap (tokF id)
      = canonF (decide (s.a.csSent ≠ s.b.csRecv) && decide (s.b.raaRecv < s.needRaaA)) (decide (s.a.csSent ≠ s.b.csRecv))
          (decide (stOut s.a.outb id = some .localAnnounced))
          (decide (s.b.raaRecv < s.a.csRecv) && !(decide (s.a.csSent ≠ s.b.csRecv) && decide (s.b.raaRecv < s.needRaaA))) := by
  obtain ⟨_, _, _, how⟩ := old_profile hb hb'
  have i2 := hb.i2
  have i5 := hb.i5
  rw [fullAB_disconnect h, retrans_tokens _ (tokF_replicate id) _ _ _ _ how (by intro _; omega)]
  have hcs : s.a.pause.csSent = s.a.csSent := (pause_fields s.a).2.2.2.2.1
  unfold Node.retrans
  rw [hcs]
  by_cases hl : s.a.csSent = s.b.csRecv
  · simp only [if_pos hl, ne_eq, not_true_eq_false, false_and, if_false, List.filterMap_nil, hl, decide_false,
      Bool.false_and, Bool.not_false, Bool.and_true, not_false_eq_true, and_true]
    unfold canonF
    by_cases hr : s.b.raaRecv < s.a.csRecv
    · have : s.a.csRecv - s.b.raaRecv ≠ 0 := by omega
      simp [hr, this]
    · have : s.a.csRecv - s.b.raaRecv = 0 := by omega
      simp [hr, this]
  · have hne : s.a.pause.lastBatch ≠ [] := lastBatch_ne_nil _
    rw [if_neg hl, tokF_lastBatch (hb.ok.pause hb.ra), stOut_pause hb.ok hb.pk]
    have hLA : (Option.map unRRst (stOut s.a.outb id) = some OutState.localAnnounced) ↔ (stOut s.a.outb id = some .localAnnounced) :=
      unRR_LA _
    have hw : (s.a.csRecv - s.b.raaRecv = 0) ↔ ¬ s.b.raaRecv < s.a.csRecv := by omega
    have hlt : s.b.raaRecv < s.needRaaA → s.b.raaRecv < s.a.csRecv := by intro h; omega
    unfold canonF
    by_cases hn : s.b.raaRecv < s.needRaaA
    · have hr := hlt hn
      by_cases ho : stOut s.a.outb id = some .localAnnounced <;> simp [hl, hn, hr, ho, hne, hLA, hw, unRRst]
    · by_cases hr : s.b.raaRecv < s.a.csRecv <;>
        by_cases ho : stOut s.a.outb id = some .localAnnounced <;> simp [hl, hn, hr, ho, hne, hLA, hw, unRRst]

/-- the old a→b tokens, in canonical form -/
theorem disc_old_fwd {s : Sys} (hb : Base s) (hb' : Base s.swap) (id : Nat) (hg : good (cfgA s id) = true) :
    (cfgA s id).fwd
      = canonF (decide (s.a.csSent ≠ s.b.csRecv) && decide (s.b.raaRecv < s.needRaaA)) (decide (s.a.csSent ≠ s.b.csRecv))
          ((cfgA s id).fwd.contains .add)
          (decide (s.b.raaRecv < s.a.csRecv) && !(decide (s.a.csSent ≠ s.b.csRecv) && decide (s.b.raaRecv < s.needRaaA))) := by
  obtain ⟨p1, p2, p3, _⟩ := old_profile hb hb'
  obtain ⟨t1, t2, t3⟩ := tokF_profile id s.fullAB
  have hs := good_fwd_shape _ hg
  have hs' : (cfgA s id).fwd = canonF (raaBefore (cfgA s id).fwd) ((cfgA s id).fwd.contains .cs) ((cfgA s id).fwd.contains .add)
      (raaAfter (cfgA s id).fwd) := by simpa using hs
  have e1 : (cfgA s id).fwd.contains .cs = decide (s.a.csSent ≠ s.b.csRecv) := by
    show (s.fullAB.filterMap (tokF id)).contains .cs = _; rw [t1, p1]
  have e2 : raaBefore (cfgA s id).fwd = (decide (s.a.csSent ≠ s.b.csRecv) && decide (s.b.raaRecv < s.needRaaA)) := by
    show raaBefore (s.fullAB.filterMap (tokF id)) = _; rw [t3, p3]
  have e3 : (cfgA s id).fwd.contains .raa = decide (s.b.raaRecv < s.a.csRecv) := by
    show (s.fullAB.filterMap (tokF id)).contains .raa = _; rw [t2, p2]
  have e4 : raaAfter (cfgA s id).fwd = (decide (s.b.raaRecv < s.a.csRecv) && !(decide (s.a.csSent ≠ s.b.csRecv) && decide (s.b.raaRecv < s.needRaaA))) := by
    unfold raaAfter; rw [e3, e2]
  rw [e1, e2, e4] at hs'
  exact hs'

theorem disc_new_bwd {s s' : Sys} (hb : Base s) (hb' : Base s.swap) (h : step s .disconnect = some s') (id : Nat) :
    s'.fullBA.filterMap (tokB id)
      = canonB (decide (s.b.csSent ≠ s.a.csRecv) && decide (s.a.raaRecv < s.needRaaB)) (decide (s.b.csSent ≠ s.a.csRecv))
          (lrOf (stIn s.b.inb id))
          (decide (s.a.raaRecv < s.b.csRecv) && !(decide (s.b.csSent ≠ s.a.csRecv) && decide (s.a.raaRecv < s.needRaaB))) := by
  obtain ⟨_, _, _, how⟩ := old_profile hb' (by simpa using hb)
  have i2 : s.a.raaRecv + countRaa s.fullBA = s.b.csRecv := hb'.i2
  have i5 : s.needRaaB ≤ s.b.csRecv := hb'.i5
  have hf : s'.fullBA = full [] (s.b.pause.retrans s.a.csRecv) s.needRaaB s.a.raaRecv (s.b.csRecv - s.a.raaRecv) :=
    fullAB_disconnect (s := s.swap) (s' := s'.swap) (step_swap_of h)
  have how' : s.b.csRecv - s.a.raaRecv ≤ 1 := how
  rw [hf, retrans_tokens _ (tokB_replicate id) _ _ _ _ how' (by intro _; omega)]
  have hcs : s.b.pause.csSent = s.b.csSent := (pause_fields s.b).2.2.2.2.1
  have hok : NodeOK s.b := hb'.ok
  unfold Node.retrans
  rw [hcs]
  by_cases hl : s.b.csSent = s.a.csRecv
  · simp only [if_pos hl, ne_eq, not_true_eq_false, false_and, if_false, List.filterMap_nil, hl, decide_false,
      Bool.false_and, Bool.not_false, Bool.and_true, not_false_eq_true, and_true]
    unfold canonB
    by_cases hr : s.a.raaRecv < s.b.csRecv
    · have : s.b.csRecv - s.a.raaRecv ≠ 0 := by omega
      simp [hr, this]
    · have : s.b.csRecv - s.a.raaRecv = 0 := by omega
      simp [hr, this]
  · have hne : s.b.pause.lastBatch ≠ [] := lastBatch_ne_nil _
    rw [if_neg hl, tokB_lastBatch (hok.pause hb'.ra), stIn_pause hok hb'.pk, lrOf_notRA]
    have hw : (s.b.csRecv - s.a.raaRecv = 0) ↔ ¬ s.a.raaRecv < s.b.csRecv := by omega
    have hlt : s.a.raaRecv < s.needRaaB → s.a.raaRecv < s.b.csRecv := by intro h; omega
    unfold canonB
    by_cases hn : s.a.raaRecv < s.needRaaB
    · have hr := hlt hn
      simp [hl, hn, hr, hne, hw] <;> rfl
    · by_cases hr : s.a.raaRecv < s.b.csRecv <;> simp [hl, hn, hr, hne, hw] <;> rfl

theorem disc_old_bwd {s : Sys} (hb : Base s) (hb' : Base s.swap) (id : Nat) (hg : good (cfgA s id) = true) :
    (cfgA s id).bwd
      = canonB (decide (s.b.csSent ≠ s.a.csRecv) && decide (s.a.raaRecv < s.needRaaB)) (decide (s.b.csSent ≠ s.a.csRecv))
          (remOf (cfgA s id).bwd)
          (decide (s.a.raaRecv < s.b.csRecv) && !(decide (s.b.csSent ≠ s.a.csRecv) && decide (s.a.raaRecv < s.needRaaB))) := by
  obtain ⟨p1, p2, p3, _⟩ := old_profile hb' (by simpa using hb)
  obtain ⟨t1, t2, t3⟩ := tokB_profile id s.fullBA
  have hs := good_bwd_shape _ hg
  have hs' : (cfgA s id).bwd = canonB (raaBefore (cfgA s id).bwd) ((cfgA s id).bwd.contains .cs) (remOf (cfgA s id).bwd)
      (raaAfter (cfgA s id).bwd) := by simpa using hs
  have e1 : (cfgA s id).bwd.contains .cs = decide (s.b.csSent ≠ s.a.csRecv) := by
    show (s.fullBA.filterMap (tokB id)).contains .cs = _; rw [t1]; exact p1
  have e2 : raaBefore (cfgA s id).bwd = (decide (s.b.csSent ≠ s.a.csRecv) && decide (s.a.raaRecv < s.needRaaB)) := by
    show raaBefore (s.fullBA.filterMap (tokB id)) = _; rw [t3]; exact p3
  have e3 : (cfgA s id).bwd.contains .raa = decide (s.a.raaRecv < s.b.csRecv) := by
    show (s.fullBA.filterMap (tokB id)).contains .raa = _; rw [t2]; exact p2
  have e4 : raaAfter (cfgA s id).bwd = (decide (s.a.raaRecv < s.b.csRecv) && !(decide (s.b.csSent ≠ s.a.csRecv) && decide (s.a.raaRecv < s.needRaaB))) := by
    unfold raaAfter; rw [e3, e2]
  rw [e1, e2, e4] at hs'
  exact hs'

theorem fwd_assemble (fwd : List Tok) (i : Option InState) (rb L A O R' : Bool)
    (hold : fwd = canonF rb L A R')
    (h1 : i = some .remoteAnnounced → L = true ∧ A = false ∧ O = true)
    (h2 : i ≠ some .remoteAnnounced → L = true → A = O) :
    (if i = some .remoteAnnounced then insBefore .add fwd else fwd) = canonF rb L O R' := by
  subst hold
  by_cases hi : i = some .remoteAnnounced
  · obtain ⟨e1, e2, e3⟩ := h1 hi
    subst e1; subst e2; subst e3
    rw [if_pos hi]; exact insBefore_canonF rb R'
  · rw [if_neg hi]
    cases L with
    | true => rw [h2 hi rfl]
    | false => cases A <;> cases O <;> rfl

theorem bwd_assemble (bwd : List Tok) (o : Option OutState) (rb L : Bool) (Rm hr : Option Bool) (R' : Bool)
    (hold : bwd = canonB rb L Rm R')
    (h1 : ∀ ok, o = some (.remoteRemoved ok) → L = true ∧ Rm = none ∧ hr = some ok)
    (h2 : (∀ ok, o ≠ some (.remoteRemoved ok)) → L = true → Rm = hr) :
    discBwd o bwd = canonB rb L hr R' := by
  subst hold
  have hno : (∀ ok, o ≠ some (.remoteRemoved ok)) → canonB rb L Rm R' = canonB rb L hr R' := by
    intro hn
    cases L with
    | true => rw [h2 hn rfl]
    | false => unfold canonB; simp
  cases o with
  | none => exact hno (fun ok h => by cases h)
  | some st =>
    cases st with
    | remoteRemoved ok =>
      obtain ⟨e1, e2, e3⟩ := h1 ok rfl
      subst e1; subst e2; subst e3
      exact insBefore_canonB ok rb R'
    | localAnnounced => exact hno (fun ok h => by cases h)
    | committed => exact hno (fun ok h => by cases h)
    | awaitingRemoteRevokeToRemove _ => exact hno (fun ok h => by cases h)
    | awaitingRemovedRemoteRevoke _ => exact hno (fun ok h => by cases h)

/-- a disconnection acts on every HTLC configuration by `mDisc` -/
theorem cfgA_disconnect {s s' : Sys} (hb : Base s) (hb' : Base s.swap) (h : step s .disconnect = some s') (id : Nat)
    (hg : good (cfgA s id) = true) : mDisc (cfgA s id) = some (cfgA s' id) := by
  have e := step_disconnect h
  have hsa : s'.a = s.a.pause := by rw [e]
  have hsb : s'.b = s.b.pause := by rw [e]
  have hok : NodeOK s.b := hb'.ok
  have f1 := good_disc_fwd _ hg
  have f2 := good_disc_bwd _ hg
  have hcs : (cfgA s id).fwd.contains .cs = decide (s.a.csSent ≠ s.b.csRecv) := by
    obtain ⟨p1, _, _, _⟩ := old_profile hb hb'
    show (s.fullAB.filterMap (tokF id)).contains .cs = _; rw [(tokF_profile id s.fullAB).1, p1]
  have hcsB : (cfgA s id).bwd.contains .cs = decide (s.b.csSent ≠ s.a.csRecv) := by
    obtain ⟨p1, _, _, _⟩ := old_profile hb' (by simpa using hb)
    show (s.fullBA.filterMap (tokB id)).contains .cs = _; rw [(tokB_profile id s.fullBA).1]; exact p1
  unfold mDisc
  simp only [Option.some.injEq]
  refine Cfg.ext' ?_ ?_ ?_ ?_ ?_ ?_
  · show _ = stOut s'.a.outb id
    rw [hsa, stOut_pause hb.ok hb.pk, unRR_opt]; rfl
  · show _ = stIn s'.b.inb id
    rw [hsb, stIn_pause hok hb'.pk, notRA_opt]; rfl
  · show _ = s'.fullAB.filterMap (tokF id)
    rw [disc_new_fwd hb hb' h id]
    simp only [Bool.and_eq_true, Bool.or_eq_true, Bool.not_eq_true', beq_iff_eq] at f1
    obtain ⟨f1a, f1b⟩ := f1
    have hO : ((cfgA s id).o == some OutState.localAnnounced) = decide (stOut s.a.outb id = some .localAnnounced) := by
      show (stOut s.a.outb id == some OutState.localAnnounced) = _
      by_cases e : stOut s.a.outb id = some .localAnnounced <;> simp [e]
    apply fwd_assemble _ _ _ _ _ _ _ (disc_old_fwd hb hb' id hg)
    · intro hi
      rcases f1a with f1a | f1a
      · rw [hi] at f1a; simp at f1a
      · refine ⟨by rw [← hcs]; exact f1a.1, f1a.2, ?_⟩
        rcases f1b with f1b | f1b
        · rw [f1a.1] at f1b; cases f1b
        · rw [← hO, ← f1b, hi]; simp
    · intro hi hL
      rcases f1b with f1b | f1b
      · rw [hcs, hL] at f1b; cases f1b
      · rw [← hO, ← f1b]
        have : ((cfgA s id).i == some InState.remoteAnnounced) = false := by simpa using hi
        rw [this, Bool.or_false]
  · show _ = s'.fullBA.filterMap (tokB id)
    rw [disc_new_bwd hb hb' h id]
    have hio : lrOf (stIn s.b.inb id) = lrOf (cfgA s id).i := rfl
    rw [hio]
    apply bwd_assemble _ _ _ _ _ _ _ (disc_old_bwd hb hb' id hg)
    · intro ok ho
      rw [ho] at f2
      simp only [Bool.and_eq_true, Bool.or_eq_true, Bool.not_eq_true', beq_iff_eq] at f2
      obtain ⟨⟨⟨g1, g2⟩, g3⟩, _⟩ := f2
      exact ⟨by rw [← hcsB]; exact g1, g2, g3⟩
    · intro hno hL
      have hm : ∀ (X : Bool) (Y Z : Option Bool), (match (cfgA s id).o with | some (.remoteRemoved ok) => X | _ => true) = true ∨ True := fun _ _ _ => Or.inr trivial
      have key : (match (cfgA s id).o with | some (OutState.remoteRemoved ok) => some ok | _ => remOf (cfgA s id).bwd) = remOf (cfgA s id).bwd := by
        cases ho : (cfgA s id).o with
        | none => rfl
        | some st => cases st <;> first | rfl | exact absurd ho (hno _)
      simp only [Bool.and_eq_true, Bool.or_eq_true, Bool.not_eq_true', beq_iff_eq] at f2
      rcases f2.2 with g | g
      · rw [hcsB, hL] at g; cases g
      · first | exact g | exact key.symm.trans g
  · show s.a.awaitingRaa = s'.a.awaitingRaa
    rw [hsa, (pause_fields s.a).2.1]
  · show s.b.awaitingRaa = s'.b.awaitingRaa
    rw [hsb, (pause_fields s.b).2.1]

theorem cfgA_fee_true {s s' : Sys} {f : Nat} (h : step s (.fee true f) = some s') (id : Nat) : cfgA s' id = cfgA s id := by
  have hf := fullAB_fee_true h
  have hf' : s'.fullBA = s.fullBA :=
    fullAB_fee_false (s := s.swap) (s' := s'.swap) (by have := step_swap s (.fee true f); rw [h] at this; exact this)
  obtain ⟨_, _, _, _, _, e⟩ := step_fee_true h
  refine Cfg.ext' ?_ ?_ (by show List.filterMap _ _ = List.filterMap _ _; rw [hf])
    (by show List.filterMap _ _ = List.filterMap _ _; rw [hf']) ?_ ?_ <;> rw [e] <;> rfl

theorem cfgA_fee_false {s s' : Sys} {f : Nat} (h : step s (.fee false f) = some s') (id : Nat) : cfgA s' id = cfgA s id := by
  have hf := fullAB_fee_false h
  have hf' : s'.fullBA = s.fullBA :=
    fullAB_fee_true (s := s.swap) (s' := s'.swap) (by have := step_swap s (.fee false f); rw [h] at this; exact this)
  obtain ⟨_, _, _, _, _, e⟩ := step_fee_false h
  refine Cfg.ext' ?_ ?_ (by show List.filterMap _ _ = List.filterMap _ _; rw [hf])
    (by show List.filterMap _ _ = List.filterMap _ _; rw [hf']) ?_ ?_ <;> rw [e] <;> rfl

/-- every guarded step moves every HTLC configuration (of the a-offered family) along the abstract system -/
theorem cfgA_step {s s' : Sys} {e : Ev} (hb : Base s) (hb' : Base s.swap) (h : stepG s e = some s') (id : Nat)
    (hg : good (cfgA s id) = true) : Moved (cfgA s id) (cfgA s' id) := by
  obtain ⟨hk, h⟩ := stepG_some h
  cases e with
  | commit x adds fu fa =>
    cases x
    · have hn : (fu ++ fa).Nodup := by
        simp only [evOk, Bool.and_eq_true, decide_eq_true_eq] at hk; exact hk.1
      exact cfgA_commit_false hb' hn h id
    · exact cfgA_commit_true hb h id
  | release x =>
    cases x
    · exact Or.inl (cfgA_release_false h id)
    · exact Or.inl (cfgA_release_true h id)
  | sendRaa x =>
    cases x
    · exact Or.inl (cfgA_sendRaa_false hb' hk h id)
    · exact Or.inl (cfgA_sendRaa_true hb hk h id)
  | recv y =>
    cases y
    · exact cfgA_recv_false hb hb' h id
    · exact cfgA_recv_true hb hb' h id
  | disconnect => exact Or.inr ⟨mDisc, by simp [moves], cfgA_disconnect hb hb' h id hg⟩
  | reest y =>
    cases y
    · exact Or.inl (cfgA_reest_false hb' h id)
    · exact Or.inl (cfgA_reest_true hb h id)
  | fee x f =>
    cases x
    · exact Or.inl (cfgA_fee_false h id)
    · exact Or.inl (cfgA_fee_true h id)

/-- the per-HTLC invariant: every id has a good configuration (for the HTLCs `a` offers) -/
def GoodA (s : Sys) : Prop := ∀ id, good (cfgA s id) = true

theorem GoodA.init (va vb f0 : Nat) : GoodA (Sys.init va vb f0) := by
  intro id
  have : cfgA (Sys.init va vb f0) id = Cfg.init := rfl
  rw [this]; exact good_init

theorem GoodA.step {s s' : Sys} {e : Ev} (hg : GoodA s) (hb : Base s) (hb' : Base s.swap)
    (h : stepG s e = some s') : GoodA s' :=
  fun id => good_of_moved (hg id) (cfgA_step hb hb' h id (hg id))

/-! ### the two revoke_and_ack receipts, precisely -/

theorem cfgA_recv_true_raa {s s' : Sys} {rest : List Msg} (hb : Base s) (hb' : Base s.swap)
    (h : step s (.recv true) = some s') (hq0 : s.qba = Msg.raa :: rest) (id : Nat) :
    mRecvO (cfgA s id) = some (cfgA s' id) ∧ (cfgA s id).bwd.head? = some .raa := by
  obtain ⟨m, rest', hq, hc⟩ := cfgA_recv_true_precise hb hb' h id
  rw [hq0] at hq
  injection hq with e1 _
  subst e1
  rcases hc with ⟨ht, _⟩ | ⟨t, ht, hh, hc⟩
  · cases ht
  · have : t = .raa := by have : tokB id Msg.raa = some .raa := rfl; rw [this] at ht; injection ht with ht; exact ht.symm
    subst this
    exact ⟨hc, hh⟩

theorem cfgA_recv_false_raa {s s' : Sys} {rest : List Msg} (hb : Base s) (hb' : Base s.swap)
    (h : step s (.recv false) = some s') (hq0 : s.qab = Msg.raa :: rest) (id : Nat) :
    mRecvI (cfgA s id) = some (cfgA s' id) ∧ (cfgA s id).fwd.head? = some .raa := by
  obtain ⟨m, rest', hq, hc⟩ := cfgA_recv_false_precise hb hb' h id
  rw [hq0] at hq
  injection hq with e1 _
  subst e1
  rcases hc with ⟨ht, _⟩ | ⟨t, ht, hh, hc⟩
  · cases ht
  · have : t = .raa := by have : tokF id Msg.raa = some .raa := rfl; rw [this] at ht; injection ht with ht; exact ht.symm
    subst this
    exact ⟨hc, hh⟩

end Ldk.Chan
