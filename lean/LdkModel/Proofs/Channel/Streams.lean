/- The full a→b stream under every event (including disconnection and reestablish), and the basic
   directional invariant `Base`: id discipline of `a`, the commitment-number bookkeeping stated on the
   stream (every commitment_signed / revoke_and_ack not yet processed by the peer is in the stream or will
   be retransmitted), and the order of revoke_and_ack vs commitment_signed in the stream (`resend_order`):
   a retransmission repeats the original order. Core only. -/
import LdkModel.Proofs.Channel.Nodes
namespace Ldk.Chan

/-! ### order of control messages in a stream -/

def hasCs (l : List Msg) : Bool := l.any (fun m => match m with | .cs _ => true | _ => false)

/-- a revoke_and_ack occurs before the first commitment_signed of the stream -/
def raaFirst : List Msg → Bool
  | [] => false
  | .cs _ :: _ => false
  | .raa :: r => hasCs r
  | _ :: r => raaFirst r

theorem hasCs_append (l m : List Msg) : hasCs (l ++ m) = (hasCs l || hasCs m) := by simp [hasCs]

theorem hasCs_iff_count (l : List Msg) : hasCs l = true ↔ countCs l ≠ 0 := by
  induction l with
  | nil => simp [hasCs, countCs]
  | cons m l ih =>
    cases m <;> simp [hasCs, countCs, List.countP_cons] at ih ⊢ <;> try exact ih

theorem hasCs_false_of_count {l : List Msg} (h : countCs l = 0) : hasCs l = false := by
  cases hc : hasCs l with
  | false => rfl
  | true => exact absurd h ((hasCs_iff_count l).1 hc)

theorem raaFirst_false_of_noRaa {l : List Msg} (h : countRaa l = 0) : raaFirst l = false := by
  induction l with
  | nil => rfl
  | cons m l ih =>
    cases m with
    | raa => simp [countRaa, List.countP_cons] at h
    | cs c => rfl
    | add _ _ => exact ih (by simpa [countRaa, List.countP_cons] using h)
    | fulfill _ => exact ih (by simpa [countRaa, List.countP_cons] using h)
    | fail _ => exact ih (by simpa [countRaa, List.countP_cons] using h)
    | fee _ => exact ih (by simpa [countRaa, List.countP_cons] using h)

theorem raaFirst_snoc_raa (l : List Msg) : raaFirst (l ++ [Msg.raa]) = raaFirst l := by
  induction l with
  | nil => rfl
  | cons m l ih =>
    cases m with
    | raa => simp [raaFirst, hasCs_append, hasCs]
    | cs c => rfl
    | add _ _ => exact ih
    | fulfill _ => exact ih
    | fail _ => exact ih
    | fee _ => exact ih

/-- appending to a stream without commitment_signed -/
theorem raaFirst_append_noCs {l : List Msg} (h : countCs l = 0) (m : List Msg) :
    raaFirst (l ++ m) = if countRaa l ≠ 0 then hasCs m else raaFirst m := by
  induction l with
  | nil => simp [countRaa]
  | cons x l ih =>
    cases x with
    | cs c => simp [countCs, List.countP_cons] at h
    | raa =>
      have h' : countCs l = 0 := by simpa [countCs, List.countP_cons] using h
      simp [raaFirst, hasCs_append, hasCs_false_of_count h', countRaa, List.countP_cons]
    | add _ _ =>
      have h' : countCs l = 0 := by simpa [countCs, List.countP_cons] using h
      have := ih h'
      simpa [raaFirst, countRaa, List.countP_cons] using this
    | fulfill _ =>
      have h' : countCs l = 0 := by simpa [countCs, List.countP_cons] using h
      have := ih h'
      simpa [raaFirst, countRaa, List.countP_cons] using this
    | fail _ =>
      have h' : countCs l = 0 := by simpa [countCs, List.countP_cons] using h
      have := ih h'
      simpa [raaFirst, countRaa, List.countP_cons] using this
    | fee _ =>
      have h' : countCs l = 0 := by simpa [countCs, List.countP_cons] using h
      have := ih h'
      simpa [raaFirst, countRaa, List.countP_cons] using this

theorem raaFirst_replicate (k : Nat) (l : List Msg) :
    raaFirst (List.replicate k Msg.raa ++ l) = if k ≠ 0 then hasCs l else raaFirst l := by
  cases k with
  | zero => simp
  | succ k =>
    rw [List.replicate_succ]
    simp [raaFirst, hasCs_append, hasCs_false_of_count (countCs_replicate_raa k)]

/-- a batch (fresh or regenerated): no revoke_and_ack, ends with its commitment_signed -/
structure IsBatch (l : List Msg) : Prop where
  noRaa : countRaa l = 0
  oneCs : countCs l = 1

theorem IsBatch.batchOf (n : Node) (adds fu fa : List Nat) : IsBatch (batchOf n adds fu fa) := by
  exact ⟨(count_batch n adds fu fa).2, (count_batch n adds fu fa).1⟩

theorem IsBatch.lastBatch (n : Node) : IsBatch n.lastBatch := ⟨(count_lastBatch n).2, (count_lastBatch n).1⟩

theorem IsBatch.hasCs {l : List Msg} (h : IsBatch l) : hasCs l = true :=
  (hasCs_iff_count l).2 (by rw [h.oneCs]; omega)
theorem IsBatch.raaFirst {l : List Msg} (h : IsBatch l) : raaFirst l = false := raaFirst_false_of_noRaa h.noRaa
theorem IsBatch.ne_nil {l : List Msg} (h : IsBatch l) : l ≠ [] := by
  intro e; have := h.oneCs; rw [e] at this; cases this

/-- control-message profile of the stream formula -/
theorem raaFirst_full_nil_batch {batch : List Msg} (hb : IsBatch batch) (need sent owes : Nat) :
    raaFirst (full [] batch need sent owes) = decide (sent < need) := by
  unfold full
  rw [if_neg hb.ne_nil, List.nil_append, List.append_assoc, raaFirst_replicate]
  by_cases h : sent < need
  · rw [if_pos (by omega)]; simp [hasCs_append, hb.hasCs, h]
  · have hz : need - sent = 0 := by omega
    rw [if_neg (by omega), hz, Nat.sub_zero]
    have : raaFirst (batch ++ List.replicate owes Msg.raa) = false := by
      rw [raaFirst_append_noCs' hb]
    simp [this, h]
where
  raaFirst_append_noCs' {batch : List Msg} (hb : IsBatch batch) {post : List Msg} (hp : countCs post = 0 := by exact countCs_replicate_raa _) :
      raaFirst (batch ++ post) = false := by
    -- a batch has no revoke_and_ack before its commitment_signed; whatever follows cannot change that
    have key : ∀ (l post : List Msg), countRaa l = 0 → raaFirst (l ++ post) = (if hasCs l then false else raaFirst post) := by
      intro l
      induction l with
      | nil => intro post _; simp [hasCs]
      | cons x l ih =>
        intro post h
        cases x with
        | raa => simp [countRaa, List.countP_cons] at h
        | cs c => simp [raaFirst, hasCs]
        | add _ _ => have := ih post (by simpa [countRaa, List.countP_cons] using h); simpa [raaFirst, hasCs] using this
        | fulfill _ => have := ih post (by simpa [countRaa, List.countP_cons] using h); simpa [raaFirst, hasCs] using this
        | fail _ => have := ih post (by simpa [countRaa, List.countP_cons] using h); simpa [raaFirst, hasCs] using this
        | fee _ => have := ih post (by simpa [countRaa, List.countP_cons] using h); simpa [raaFirst, hasCs] using this
    rw [key batch post hb.noRaa, hb.hasCs]; rfl

/-! ### the basic directional invariant -/

theorem NodeOK.congr {n n' : Node} (ok : NodeOK n) (h1 : n'.inb = n.inb) (h2 : n'.outb = n.outb)
    (h3 : n'.nextInId = n.nextInId) (h4 : n'.nextOutId = n.nextOutId) : NodeOK n' :=
  ⟨h1 ▸ ok.sIn, h2 ▸ ok.sOut, by rw [h1, h3]; exact ok.bIn, by rw [h2, h4]; exact ok.bOut⟩

structure Base (s : Sys) : Prop where
  ok : NodeOK s.a
  ra : RaOK s.a
  pk : PausedOK s.a
  /-- every commitment_signed `a` signed has been processed by `b` or is (re)transmitted in the stream -/
  i1 : s.b.csRecv + countCs s.fullAB = s.a.csSent
  /-- every commitment_signed `a` processed has been revoked towards `b`, or the revoke_and_ack is in the stream -/
  i2 : s.b.raaRecv + countRaa s.fullAB = s.a.csRecv
  i3 : s.a.csSent = s.a.raaRecv + (if s.a.awaitingRaa then 1 else 0)
  i4 : s.a.paused = false → s.a.raaSent + s.a.owesRaa = s.a.csRecv
  i5 : s.needRaaA ≤ s.a.csRecv
  i6 : s.a.paused = true → s.qab = []
  /-- `resend_order`: a revoke_and_ack precedes the commitment_signed in the stream iff `b` has not yet
      seen all the revoke_and_acks the batch was built after -/
  i7 : countCs s.fullAB ≠ 0 → raaFirst s.fullAB = decide (s.b.raaRecv < s.needRaaA)
  /-- the funder's pending fee update is Outbound, the other node's is not -/
  wf : s.a.feeWF = true

theorem Base.need {s : Sys} (hb : Base s) (hp : s.a.paused = false) :
    s.pendA ≠ [] → s.needRaaA ≤ s.a.raaSent + s.a.owesRaa := by
  intro _; rw [hb.i4 hp]; exact hb.i5

/-- bounds that need both directions -/
theorem Base.bounds {s : Sys} (hb : Base s) (hb' : Base s.swap) :
    s.a.raaRecv ≤ s.b.csRecv ∧ s.b.csRecv ≤ s.a.csSent ∧ s.a.csSent ≤ s.a.raaRecv + 1 ∧
    countCs s.fullAB ≤ 1 ∧ (s.a.awaitingRaa = false → countCs s.fullAB = 0) := by
  have h1 := hb.i1
  have h3 := hb.i3
  have h2' : s.a.raaRecv + countRaa s.fullBA = s.b.csRecv := hb'.i2
  refine ⟨by omega, by omega, by split at h3 <;> omega, by split at h3 <;> omega, ?_⟩
  intro haw
  rw [haw] at h3
  simp at h3; omega

theorem Base.raaBound {s : Sys} (hb : Base s) (hb' : Base s.swap) : countRaa s.fullAB ≤ 1 := by
  have h2 := hb.i2
  have h1' : s.a.csRecv + countCs s.fullBA = s.b.csSent := hb'.i1
  have h3' : s.b.csSent = s.b.raaRecv + (if s.b.awaitingRaa then 1 else 0) := hb'.i3
  split at h3' <;> omega

theorem Base.init (va vb f0 : Nat) : Base (Sys.init va vb f0) where
  ok := NodeOK.init va true f0
  ra := RaOK.init va true f0
  pk := PausedOK.of_unpaused rfl
  i1 := rfl
  i2 := rfl
  i3 := rfl
  i4 := fun _ => rfl
  i5 := Nat.le_refl _
  i6 := fun h => by cases h
  i7 := fun h => absurd rfl h
  wf := rfl

/-! ### the stream under each event -/

theorem fullAB_commit_true {s s' : Sys} {adds fu fa : List Nat} (h : step s (.commit true adds fu fa) = some s') :
    s'.fullAB = s.fullAB ++ batchOf s.a adds fu fa := by
  obtain ⟨hpa, hp, n, ms, hc, e⟩ := step_commit_true h
  obtain ⟨_, _, en, ems⟩ := commit_some hc
  obtain ⟨_, _, f3, _, _, _, f7, _, f9, _⟩ := built_fields s.a adds fu fa
  have hnp : n.paused = false := by rw [en]; show (s.a.built adds fu fa).paused = false; rw [f9]; exact hpa
  have hns : n.raaSent = s.a.raaSent := by rw [en]; exact f7
  have hno : n.owesRaa = s.a.owesRaa := by rw [en]; exact f3
  subst e; subst ems
  have hpa' : ({ s with a := n, pendA := batchOf s.a adds fu fa, needRaaA := s.a.raaSent + s.a.owesRaa } : Sys).a.paused = false := hnp
  rw [Sys.fullAB_unpaused hpa', Sys.fullAB_unpaused hpa]
  show full s.qab (batchOf s.a adds fu fa) (s.a.raaSent + s.a.owesRaa) n.raaSent n.owesRaa = _
  rw [hns, hno, full_commit _ _ (IsBatch.batchOf _ _ _ _).ne_nil, hp, full_nil_pend, full_nil_pend]

theorem fullAB_commit_false {s s' : Sys} {adds fu fa : List Nat} (h : step s (.commit false adds fu fa) = some s') :
    s'.fullAB = s.fullAB := by
  obtain ⟨_, _, n, ms, hc, e⟩ := step_commit_false h
  obtain ⟨_, _, en, _⟩ := commit_some hc
  obtain ⟨_, _, _, _, _, f6, _, f8, _, _⟩ := built_fields s.b adds fu fa
  have hcs : n.csRecv = s.b.csRecv := by rw [en]; exact f6
  have hra : n.raaRecv = s.b.raaRecv := by rw [en]; exact f8
  subst e
  show (if s.a.paused then full [] (s.a.retrans n.csRecv) s.needRaaA n.raaRecv (s.a.csRecv - n.raaRecv)
        else full s.qab s.pendA s.needRaaA s.a.raaSent s.a.owesRaa) = _
  rw [hcs, hra]; rfl

theorem fullAB_release_true {s s' : Sys} (h : step s (.release true) = some s') : s'.fullAB = s.fullAB := by
  obtain ⟨hpa, _, hlt, e⟩ := step_release_true h
  subst e
  have hpa' : ({ s with qab := s.qab ++ s.pendA, pendA := [] } : Sys).a.paused = false := hpa
  rw [Sys.fullAB_unpaused hpa', Sys.fullAB_unpaused hpa]
  exact full_release _ _ _ _ _ hlt

theorem fullAB_release_false {s s' : Sys} (h : step s (.release false) = some s') : s'.fullAB = s.fullAB := by
  obtain ⟨_, _, _, e⟩ := step_release_false h
  subst e; rfl

theorem fullAB_sendRaa_true {s s' : Sys} (hb : Base s) (hk : evOk s (.sendRaa true) = true)
    (h : step s (.sendRaa true) = some s') : s'.fullAB = s.fullAB := by
  obtain ⟨hpa, ho, e⟩ := step_sendRaa_true h
  subst e
  have hg : s.pendA = [] ∨ s.a.raaSent < s.needRaaA := by simpa [evOk] using hk
  have hpa' : ({ s with a := { s.a with owesRaa := s.a.owesRaa - 1, raaSent := s.a.raaSent + 1 }, qab := s.qab ++ [Msg.raa] } : Sys).a.paused = false := hpa
  rw [Sys.fullAB_unpaused hpa', Sys.fullAB_unpaused hpa]
  exact full_sendRaa _ _ _ _ _ ho hg (hb.need hpa)

theorem fullAB_sendRaa_false {s s' : Sys} (h : step s (.sendRaa false) = some s') : s'.fullAB = s.fullAB := by
  obtain ⟨_, _, e⟩ := step_sendRaa_false h
  subst e; rfl

/-- `a` processes a message: a commitment_signed makes it owe one more revoke_and_ack -/
theorem fullAB_recv_true {s s' : Sys} (hb : Base s) (h : step s (.recv true) = some s') :
    ∃ m rest, s.qba = m :: rest ∧ s'.fullAB = s.fullAB ++ (match m with | .cs _ => [Msg.raa] | _ => []) := by
  obtain ⟨hpa, m, rest, n, okb, hq, hm, e⟩ := step_recv_true h
  subst e
  refine ⟨m, rest, hq, ?_⟩
  have hnp : n.paused = false := by rw [onMsg_paused hm]; exact hpa
  have hpa' : ({ s with a := n, qba := rest, agreed := s.agreed && okb, feeAgreed := s.feeAgreed && s.a.feeOk m } : Sys).a.paused = false := hnp
  rw [Sys.fullAB_unpaused hpa', Sys.fullAB_unpaused hpa]
  show full s.qab s.pendA s.needRaaA n.raaSent n.owesRaa = _
  cases m with
  | cs c =>
    obtain ⟨e1, e2⟩ := onMsg_sent_owes hm
    rw [e1, e2]; exact full_owe _ _ _ _ _ (hb.need hpa)
  | add _ _ => obtain ⟨e1, e2⟩ := onMsg_sent_owes hm; rw [e1, e2]; simp
  | fulfill _ => obtain ⟨e1, e2⟩ := onMsg_sent_owes hm; rw [e1, e2]; simp
  | fail _ => obtain ⟨e1, e2⟩ := onMsg_sent_owes hm; rw [e1, e2]; simp
  | fee _ => obtain ⟨e1, e2⟩ := onMsg_sent_owes hm; rw [e1, e2]; simp
  | raa => obtain ⟨e1, e2⟩ := onMsg_sent_owes hm; rw [e1, e2]; simp

/-- `b` processes the head of the stream -/
theorem fullAB_recv_false {s s' : Sys} (hb : Base s) (h : step s (.recv false) = some s') :
    ∃ m rest, s.qab = m :: rest ∧ s.a.paused = false ∧ s.fullAB = m :: s'.fullAB := by
  obtain ⟨_, m, rest, n, okb, hq, hm, e⟩ := step_recv_false h
  subst e
  have hpa : s.a.paused = false := by
    cases hp : s.a.paused with
    | false => rfl
    | true => have := hb.i6 hp; rw [this] at hq; cases hq
  refine ⟨m, rest, hq, hpa, ?_⟩
  have hpa' : ({ s with b := n, qab := rest, agreed := s.agreed && okb, feeAgreed := s.feeAgreed && s.b.feeOk m } : Sys).a.paused = false := hpa
  rw [Sys.fullAB_unpaused hpa', Sys.fullAB_unpaused hpa]
  show full s.qab s.pendA s.needRaaA s.a.raaSent s.a.owesRaa = m :: full rest s.pendA s.needRaaA s.a.raaSent s.a.owesRaa
  rw [hq, full_pop]

theorem fullAB_reest_true {s s' : Sys} (hb : Base s) (h : step s (.reest true) = some s') : s'.fullAB = s.fullAB := by
  obtain ⟨n, p, hr, e⟩ := step_reest_true h
  obtain ⟨hpa, _, _, _, _, en, ep⟩ := reestablish_some hr
  subst e; subst en; subst ep
  have hpa' : ({ s with a := ({ s.a with paused := false, raaSent := s.b.raaRecv, owesRaa := s.a.csRecv - s.b.raaRecv } : Node), pendA := s.a.retrans s.b.csRecv } : Sys).a.paused = false := rfl
  rw [Sys.fullAB_unpaused hpa', Sys.fullAB_paused hpa]
  show full s.qab (s.a.retrans s.b.csRecv) s.needRaaA s.b.raaRecv (s.a.csRecv - s.b.raaRecv) = _
  rw [hb.i6 hpa]

theorem fullAB_reest_false {s s' : Sys} (h : step s (.reest false) = some s') : s'.fullAB = s.fullAB := by
  obtain ⟨n, p, hr, e⟩ := step_reest_false h
  obtain ⟨_, _, _, _, _, en, _⟩ := reestablish_some hr
  subst e; subst en; rfl

theorem fullAB_disconnect {s s' : Sys} (h : step s .disconnect = some s') :
    s'.fullAB = full [] (s.a.pause.retrans s.b.csRecv) s.needRaaA s.b.raaRecv (s.a.csRecv - s.b.raaRecv) := by
  have e := step_disconnect h
  subst e
  have hpa' : ({ s with a := s.a.pause, b := s.b.pause, qab := [], qba := [] } : Sys).a.paused = true := pause_paused_flag s.a
  rw [Sys.fullAB_paused hpa']
  show full [] (s.a.pause.retrans s.b.pause.csRecv) s.needRaaA s.b.pause.raaRecv (s.a.pause.csRecv - s.b.pause.raaRecv) = _
  rw [(pause_fields s.b).2.2.2.2.2.1, (pause_fields s.b).2.2.2.2.2.2.2, (pause_fields s.a).2.2.2.2.2.1]

/-! ### explicit forms for a message receipt -/

/-- processing a commitment_signed makes the receiver owe a revoke_and_ack -/
def owedFor : Msg → List Msg
  | .cs _ => [Msg.raa]
  | _ => []

theorem fullAB_after_recv_true {s : Sys} (hb : Base s) (hpa : s.a.paused = false) {m : Msg} {rest : List Msg} {n : Node}
    {okb : Bool} (ag fg : Bool) (hm : s.a.onMsg s.total m = some (n, okb)) :
    ({ s with a := n, qba := rest, agreed := ag, feeAgreed := fg } : Sys).fullAB
      = s.fullAB ++ owedFor m := by
  have hnp : n.paused = false := by rw [onMsg_paused hm]; exact hpa
  have hpa' : ({ s with a := n, qba := rest, agreed := ag, feeAgreed := fg } : Sys).a.paused = false := hnp
  rw [Sys.fullAB_unpaused hpa', Sys.fullAB_unpaused hpa]
  show full s.qab s.pendA s.needRaaA n.raaSent n.owesRaa = _
  cases m with
  | cs c =>
    obtain ⟨e1, e2⟩ := onMsg_sent_owes hm
    rw [e1, e2]; exact full_owe _ _ _ _ _ (hb.need hpa)
  | add _ _ => obtain ⟨e1, e2⟩ := onMsg_sent_owes hm; rw [e1, e2]; simp [owedFor]
  | fulfill _ => obtain ⟨e1, e2⟩ := onMsg_sent_owes hm; rw [e1, e2]; simp [owedFor]
  | fail _ => obtain ⟨e1, e2⟩ := onMsg_sent_owes hm; rw [e1, e2]; simp [owedFor]
  | fee _ => obtain ⟨e1, e2⟩ := onMsg_sent_owes hm; rw [e1, e2]; simp [owedFor]
  | raa => obtain ⟨e1, e2⟩ := onMsg_sent_owes hm; rw [e1, e2]; simp [owedFor]

theorem fullBA_pop_recv_true {s : Sys} (hb' : Base s.swap) {m : Msg} {rest : List Msg} (hq : s.qba = m :: rest)
    (n : Node) (ag fg : Bool) : s.fullBA = m :: ({ s with a := n, qba := rest, agreed := ag, feeAgreed := fg } : Sys).fullBA := by
  have hpb : s.b.paused = false := by
    cases hp : s.b.paused with
    | false => rfl
    | true => have : s.qba = [] := hb'.i6 hp; rw [this] at hq; cases hq
  have hpb' : ({ s with a := n, qba := rest, agreed := ag, feeAgreed := fg } : Sys).b.paused = false := hpb
  rw [Sys.fullBA_unpaused hpb', Sys.fullBA_unpaused hpb]
  show full s.qba s.pendB s.needRaaB s.b.raaSent s.b.owesRaa = m :: full rest s.pendB s.needRaaB s.b.raaSent s.b.owesRaa
  rw [hq, full_pop]

theorem fullBA_after_recv_false {s : Sys} (hb' : Base s.swap) (hpb : s.b.paused = false) {m : Msg} {rest : List Msg} {n : Node}
    {okb : Bool} (ag fg : Bool) (hm : s.b.onMsg s.total m = some (n, okb)) :
    ({ s with b := n, qab := rest, agreed := ag, feeAgreed := fg } : Sys).fullBA
      = s.fullBA ++ owedFor m :=
  fullAB_after_recv_true (s := s.swap) (rest := rest) hb' hpb ag fg hm

theorem fullAB_pop_recv_false {s : Sys} (hb : Base s) {m : Msg} {rest : List Msg} (hq : s.qab = m :: rest)
    (n : Node) (ag fg : Bool) : s.fullAB = m :: ({ s with b := n, qab := rest, agreed := ag, feeAgreed := fg } : Sys).fullAB :=
  fullBA_pop_recv_true (s := s.swap) (by simpa using hb) hq n ag fg

theorem fullAB_fee_true {s s' : Sys} {f : Nat} (h : step s (.fee true f) = some s') : s'.fullAB = s.fullAB := by
  obtain ⟨hpa, _, _, _, _, e⟩ := step_fee_true h
  subst e
  have hpa' : ({ s with a := { s.a with pendingFee := some (f, .outbound) } } : Sys).a.paused = false := hpa
  rw [Sys.fullAB_unpaused hpa', Sys.fullAB_unpaused hpa]

theorem fullAB_fee_false {s s' : Sys} {f : Nat} (h : step s (.fee false f) = some s') : s'.fullAB = s.fullAB := by
  obtain ⟨_, _, _, _, _, e⟩ := step_fee_false h
  subst e; rfl

/-! ### `Base` is preserved -/

theorem countCs_cons (m : Msg) (l : List Msg) :
    countCs (m :: l) = countCs l + (match m with | .cs _ => 1 | _ => 0) := by
  cases m <;> simp [countCs, List.countP_cons]
theorem countRaa_cons (m : Msg) (l : List Msg) :
    countRaa (m :: l) = countRaa l + (match m with | .raa => 1 | _ => 0) := by
  cases m <;> simp [countRaa, List.countP_cons]

theorem Base.step {s s' : Sys} {e : Ev} (hb : Base s) (hb' : Base s.swap) (h : stepG s e = some s') : Base s' := by
  obtain ⟨hk, h0⟩ := stepG_some h
  obtain ⟨b1, b2, b3, b4, b5⟩ := hb.bounds hb'
  have rb := hb.raaBound hb'
  cases e with
  | commit x adds fu fa =>
    cases x
    · have hf := fullAB_commit_false h0
      obtain ⟨_, _, n, ms, hc, e⟩ := step_commit_false h0
      obtain ⟨_, _, en, _⟩ := commit_some hc
      have hcs : s'.b.csRecv = s.b.csRecv := by simp only [e, en]; exact (built_fields s.b adds fu fa).2.2.2.2.2.1
      have hra : s'.b.raaRecv = s.b.raaRecv := by simp only [e, en]; exact (built_fields s.b adds fu fa).2.2.2.2.2.2.2.1
      have ha : s'.a = s.a := by rw [e]
      have hq : s'.qab = s.qab := by rw [e]
      have hn : s'.needRaaA = s.needRaaA := by rw [e]
      exact ⟨ha ▸ hb.ok, ha ▸ hb.ra, ha ▸ hb.pk, by rw [hcs, hf, ha]; exact hb.i1, by rw [hra, hf, ha]; exact hb.i2,
        by rw [ha]; exact hb.i3, by rw [ha]; exact hb.i4, by rw [hn, ha]; exact hb.i5, by rw [ha, hq]; exact hb.i6,
        by rw [hf, hra, hn]; exact hb.i7, ha ▸ hb.wf⟩
    · have hf := fullAB_commit_true h0
      obtain ⟨hpa, hp, n, ms, hc, e⟩ := step_commit_true h0
      obtain ⟨haw, hcom, en, ems⟩ := commit_some hc
      obtain ⟨_, _, f3, _, _, f6, f7, f8, f9, _⟩ := built_fields s.a adds fu fa
      have hz := b5 haw
      have hbt := IsBatch.batchOf s.a adds fu fa
      have h4 := hb.i4 hpa
      have hncs : n.csSent = s.a.csSent + 1 := by rw [en]
      have hnaw : n.awaitingRaa = true := by rw [en]
      have hncr : n.csRecv = s.a.csRecv := by rw [en]; exact f6
      have hnrs : n.raaSent = s.a.raaSent := by rw [en]; exact f7
      have hnrr : n.raaRecv = s.a.raaRecv := by rw [en]; exact f8
      have hno : n.owesRaa = s.a.owesRaa := by rw [en]; exact f3
      have hnp : n.paused = false := by rw [en]; show (s.a.built adds fu fa).paused = false; rw [f9]; exact hpa
      have hok : NodeOK n := by rw [en]; exact (hb.ok.built adds fu fa).congr rfl rfl rfl rfl
      have hra : RaOK n := by rw [en]; exact (hb.ra.built hb.ok adds fu fa hcom).congr rfl rfl
      subst e; subst ems
      have hwf : n.feeWF = true := by rw [en]; exact feeWF_of rfl rfl (feeWF_built adds fu fa hb.wf)
      refine ⟨hok, hra, PausedOK.of_unpaused hnp, ?_, ?_, ?_, fun _ => ?_, ?_, fun hp' => ?_, ?_, hwf⟩
      · rw [hf, countCs_append, hz, hbt.oneCs]
        show s.b.csRecv + (0 + 1) = n.csSent
        have := hb.i1; omega
      · rw [hf, countRaa_append, hbt.noRaa]
        show s.b.raaRecv + (countRaa s.fullAB + 0) = n.csRecv
        have := hb.i2; omega
      · show n.csSent = n.raaRecv + (if n.awaitingRaa then 1 else 0)
        have := hb.i3; rw [haw] at this; rw [hnaw, hncs, hnrr]; simpa using this
      · show n.raaSent + n.owesRaa = n.csRecv
        omega
      · show s.a.raaSent + s.a.owesRaa ≤ n.csRecv
        omega
      · exact absurd hp' (by show ¬ (n.paused = true); rw [hnp]; simp)
      · intro _
        rw [hf, raaFirst_append_noCs hz, hbt.hasCs, hbt.raaFirst]
        show _ = decide (s.b.raaRecv < s.a.raaSent + s.a.owesRaa)
        have := hb.i2
        by_cases hr : countRaa s.fullAB ≠ 0
        · rw [if_pos hr]; symm; simp; omega
        · rw [if_neg hr]; symm; simp; omega
  | release x =>
    cases x
    · obtain ⟨_, _, _, e⟩ := step_release_false h0
      have hf := fullAB_release_false h0
      subst e
      exact ⟨hb.ok, hb.ra, hb.pk, by rw [hf]; exact hb.i1, by rw [hf]; exact hb.i2, hb.i3, hb.i4, hb.i5, hb.i6,
        by rw [hf]; exact hb.i7, hb.wf⟩
    · obtain ⟨hpa, _, _, e⟩ := step_release_true h0
      have hf := fullAB_release_true h0
      subst e
      exact ⟨hb.ok, hb.ra, hb.pk, by rw [hf]; exact hb.i1, by rw [hf]; exact hb.i2, hb.i3, hb.i4, hb.i5,
        fun hp' => absurd hp' (by show ¬ (s.a.paused = true); rw [hpa]; simp), by rw [hf]; exact hb.i7, hb.wf⟩
  | sendRaa x =>
    cases x
    · obtain ⟨_, _, e⟩ := step_sendRaa_false h0
      have hf := fullAB_sendRaa_false h0
      subst e
      exact ⟨hb.ok, hb.ra, hb.pk, by rw [hf]; exact hb.i1, by rw [hf]; exact hb.i2, hb.i3, hb.i4, hb.i5, hb.i6,
        by rw [hf]; exact hb.i7, hb.wf⟩
    · obtain ⟨hpa, ho, e⟩ := step_sendRaa_true h0
      have hf := fullAB_sendRaa_true hb hk h0
      subst e
      have h4 := hb.i4 hpa
      refine ⟨hb.ok.congr rfl rfl rfl rfl, hb.ra.congr rfl rfl, PausedOK.of_unpaused hpa, by rw [hf]; exact hb.i1,
        by rw [hf]; exact hb.i2, hb.i3, fun _ => ?_, hb.i5,
        fun hp' => absurd hp' (by show ¬ (s.a.paused = true); rw [hpa]; simp), by rw [hf]; exact hb.i7, feeWF_of rfl rfl hb.wf⟩
      show s.a.raaSent + 1 + (s.a.owesRaa - 1) = s.a.csRecv
      omega
  | recv y =>
    cases y
    · obtain ⟨m, rest, hq, hpa, hf⟩ := fullAB_recv_false hb h0
      obtain ⟨_, m', rest', n, okb, hq', hm, e⟩ := step_recv_false h0
      rw [hq] at hq'
      injection hq' with e1 e2
      subst e1; subst e2
      obtain ⟨_, _, hcnt⟩ := onMsg_counters hm
      have ha : s'.a = s.a := by rw [e]
      have hbn : s'.b = n := by rw [e]
      have hn : s'.needRaaA = s.needRaaA := by rw [e]
      have hqab : s'.qab = rest := by rw [e]
      have i1 := hb.i1
      have i2 := hb.i2
      have i7 := hb.i7
      rw [hf, countCs_cons] at i1 b4
      rw [hf, countRaa_cons] at i2 rb
      rw [hf, countCs_cons] at i7
      have i5 := hb.i5
      refine ⟨ha ▸ hb.ok, ha ▸ hb.ra, ha ▸ hb.pk, ?_, ?_, by rw [ha]; exact hb.i3, by rw [ha]; exact hb.i4,
        by rw [hn, ha]; exact hb.i5, fun hp' => absurd (ha ▸ hp') (by rw [hpa]; simp), ?_, ha ▸ hb.wf⟩
      · rw [hbn, ha]
        cases m with
        | cs c => rw [hcnt.1]; simp only at i1; omega
        | raa => rw [hcnt.1]; simp only at i1; omega
        | add _ _ => rw [hcnt.1]; simp only at i1; omega
        | fulfill _ => rw [hcnt.1]; simp only at i1; omega
        | fail _ => rw [hcnt.1]; simp only at i1; omega
        | fee _ => rw [hcnt.1]; simp only at i1; omega
      · rw [hbn, ha]
        cases m with
        | cs c => rw [hcnt.2.2.1]; simp only at i2; omega
        | raa => rw [hcnt.2.2.1]; simp only at i2; omega
        | add _ _ => rw [hcnt.2.2.1]; simp only at i2; omega
        | fulfill _ => rw [hcnt.2.2.1]; simp only at i2; omega
        | fail _ => rw [hcnt.2.2.1]; simp only at i2; omega
        | fee _ => rw [hcnt.2.2.1]; simp only at i2; omega
      · intro hcs
        rw [hbn, hn]
        cases m with
        | cs c => simp only at b4; omega
        | raa =>
          simp only at rb i2
          have hz : countRaa s'.fullAB = 0 := by omega
          rw [raaFirst_false_of_noRaa hz, hcnt.2.2.1]
          symm; simp; omega
        | add _ _ =>
          rw [hcnt.2.2.1]
          exact i7 (by simpa using hcs)
        | fulfill _ =>
          rw [hcnt.2.2.1]
          exact i7 (by simpa using hcs)
        | fail _ =>
          rw [hcnt.2.2.1]
          exact i7 (by simpa using hcs)
        | fee _ =>
          rw [hcnt.2.2.1]
          exact i7 (by simpa using hcs)
    · obtain ⟨m, rest, hq, hf⟩ := fullAB_recv_true hb h0
      obtain ⟨hpa, m', rest', n, okb, hq', hm, e⟩ := step_recv_true h0
      rw [hq] at hq'
      injection hq' with e1 e2
      subst e1; subst e2
      obtain ⟨c1, c2, hcnt⟩ := onMsg_counters hm
      have hnp := onMsg_paused hm
      have han : s'.a = n := by rw [e]
      have hbb : s'.b = s.b := by rw [e]
      have hn : s'.needRaaA = s.needRaaA := by rw [e]
      have i1 := hb.i1
      have i2 := hb.i2
      have i3 := hb.i3
      have i4 := hb.i4 hpa
      have i5 := hb.i5
      have i7 := hb.i7
      refine ⟨han ▸ hb.ok.onMsg hm, han ▸ hb.ra.onMsg hb.ok hm, han ▸ PausedOK.of_unpaused (by rw [hnp]; exact hpa),
        ?_, ?_, ?_, fun _ => ?_, ?_, fun hp' => absurd (han ▸ hp') (by rw [hnp, hpa]; simp), ?_, han ▸ feeWF_onMsg hm hb.wf⟩
      · rw [hf, hbb, han, c1, countCs_append]
        have hz : ∀ m' : Msg, countCs (match m' with | .cs _ => [Msg.raa] | _ => []) = 0 := by intro m'; cases m' <;> rfl
        rw [hz m]; omega
      · rw [hf, hbb, han, countRaa_append]
        cases m with
        | cs c => rw [hcnt.1]; show _ + (_ + 1) = _; omega
        | raa => rw [hcnt.1]; show _ + (_ + 0) = _; omega
        | add _ _ => rw [hcnt.1]; show _ + (_ + 0) = _; omega
        | fulfill _ => rw [hcnt.1]; show _ + (_ + 0) = _; omega
        | fail _ => rw [hcnt.1]; show _ + (_ + 0) = _; omega
        | fee _ => rw [hcnt.1]; show _ + (_ + 0) = _; omega
      · rw [han, c1]
        cases m with
        | cs c => rw [hcnt.2.2.1, hcnt.2.2.2]; exact i3
        | raa => rw [hcnt.2.2.1, hcnt.2.2.2.2]; rw [hcnt.2.2.2.1] at i3; simp at i3 ⊢; omega
        | add _ _ => rw [hcnt.2.2.1, hcnt.2.2.2]; exact i3
        | fulfill _ => rw [hcnt.2.2.1, hcnt.2.2.2]; exact i3
        | fail _ => rw [hcnt.2.2.1, hcnt.2.2.2]; exact i3
        | fee _ => rw [hcnt.2.2.1, hcnt.2.2.2]; exact i3
      · rw [han, c2]
        cases m with
        | cs c => rw [hcnt.1, hcnt.2.1]; omega
        | raa => rw [hcnt.1, hcnt.2.1]; omega
        | add _ _ => rw [hcnt.1, hcnt.2.1]; omega
        | fulfill _ => rw [hcnt.1, hcnt.2.1]; omega
        | fail _ => rw [hcnt.1, hcnt.2.1]; omega
        | fee _ => rw [hcnt.1, hcnt.2.1]; omega
      · rw [hn, han]
        cases m with
        | cs c => rw [hcnt.1]; omega
        | raa => rw [hcnt.1]; omega
        | add _ _ => rw [hcnt.1]; omega
        | fulfill _ => rw [hcnt.1]; omega
        | fail _ => rw [hcnt.1]; omega
        | fee _ => rw [hcnt.1]; omega
      · rw [hf, hbb, hn]
        cases m with
        | cs c =>
          simp only
          rw [countCs_append, raaFirst_snoc_raa]
          intro hc; exact i7 (by simpa [countCs] using hc)
        | raa => simpa using i7
        | add _ _ => simpa using i7
        | fulfill _ => simpa using i7
        | fail _ => simpa using i7
        | fee _ => simpa using i7
  | disconnect =>
    have hf := fullAB_disconnect h0
    have e := step_disconnect h0
    obtain ⟨pa1, pa2, pa3, pa4, pa5, pa6, pa7, pa8⟩ := pause_fields s.a
    obtain ⟨pb1, pb2, pb3, pb4, pb5, pb6, pb7, pb8⟩ := pause_fields s.b
    have han : s'.a = s.a.pause := by rw [e]
    have hbn : s'.b = s.b.pause := by rw [e]
    have hn : s'.needRaaA = s.needRaaA := by rw [e]
    have hq : s'.qab = [] := by rw [e]
    have i1 := hb.i1
    have i2 := hb.i2
    have i5 := hb.i5
    have hR : IsBatch (s.a.pause.retrans s.b.csRecv) ∨ s.a.pause.retrans s.b.csRecv = [] := by
      unfold Node.retrans
      by_cases hc : s.a.pause.csSent = s.b.csRecv
      · right; rw [if_pos hc]
      · left; rw [if_neg hc]; exact IsBatch.lastBatch _
    have hn' : s.a.pause.retrans s.b.csRecv ≠ [] → s.needRaaA ≤ s.b.raaRecv + (s.a.csRecv - s.b.raaRecv) := by
      intro _; omega
    refine ⟨han ▸ hb.ok.pause hb.ra, han ▸ hb.ra.pause, han ▸ PausedOK.pause _ hb.pk, ?_, ?_, ?_,
      fun hp' => absurd (han ▸ hp') (by rw [pause_paused_flag]; simp), by rw [hn, han, pa6]; exact i5, fun _ => hq, ?_, han ▸ feeWF_pause hb.wf⟩
    · rw [hf, hbn, han, pb6, pa5, countCs_full]
      unfold Node.retrans
      by_cases hc : s.a.pause.csSent = s.b.csRecv
      · rw [if_pos hc]; rw [pa5] at hc; simp [countCs]; omega
      · rw [if_neg hc, (count_lastBatch _).1]; rw [pa5] at hc; simp [countCs]; omega
    · rw [hf, hbn, han, pb8, pa6, countRaa_full _ _ _ _ _ hn']
      have : countRaa (s.a.pause.retrans s.b.csRecv) = 0 := by
        rcases hR with hR | hR
        · exact hR.noRaa
        · rw [hR]; rfl
      rw [this]; simp [countRaa]; omega
    · rw [han, pa5, pa8, pa2]; exact hb.i3
    · intro hcs
      rw [hf] at hcs ⊢
      rw [hbn, hn, pb8]
      rcases hR with hR | hR
      · exact raaFirst_full_nil_batch hR _ _ _
      · rw [hR, countCs_full] at hcs; simp [countCs] at hcs
  | reest y =>
    cases y
    · have hf := fullAB_reest_false h0
      obtain ⟨n, p, hr, e⟩ := step_reest_false h0
      obtain ⟨_, _, _, _, _, en, _⟩ := reestablish_some hr
      have hcs : s'.b.csRecv = s.b.csRecv := by simp only [e, en]
      have hra : s'.b.raaRecv = s.b.raaRecv := by simp only [e, en]
      have ha : s'.a = s.a := by rw [e]
      have hq : s'.qab = s.qab := by rw [e]
      have hn : s'.needRaaA = s.needRaaA := by rw [e]
      exact ⟨ha ▸ hb.ok, ha ▸ hb.ra, ha ▸ hb.pk, by rw [hcs, hf, ha]; exact hb.i1, by rw [hra, hf, ha]; exact hb.i2,
        by rw [ha]; exact hb.i3, by rw [ha]; exact hb.i4, by rw [hn, ha]; exact hb.i5, by rw [ha, hq]; exact hb.i6,
        by rw [hf, hra, hn]; exact hb.i7, ha ▸ hb.wf⟩
    · have hf := fullAB_reest_true hb h0
      obtain ⟨n, p, hr, e⟩ := step_reest_true h0
      obtain ⟨hpa, g1, _, _, _, en, ep⟩ := reestablish_some hr
      subst e; subst en
      refine ⟨hb.ok.congr rfl rfl rfl rfl, hb.ra.congr rfl rfl, PausedOK.of_unpaused rfl, by rw [hf]; exact hb.i1,
        by rw [hf]; exact hb.i2, hb.i3, fun _ => ?_, hb.i5, fun hp' => (by cases hp'), by rw [hf]; exact hb.i7, feeWF_of rfl rfl hb.wf⟩
      show s.b.raaRecv + (s.a.csRecv - s.b.raaRecv) = s.a.csRecv
      omega

  | fee x f =>
    cases x
    · have hf := fullAB_fee_false h0
      obtain ⟨_, _, _, _, _, e⟩ := step_fee_false h0
      subst e
      exact ⟨hb.ok, hb.ra, hb.pk, by rw [hf]; exact hb.i1, by rw [hf]; exact hb.i2, hb.i3, hb.i4, hb.i5, hb.i6,
        by rw [hf]; exact hb.i7, hb.wf⟩
    · have hf := fullAB_fee_true h0
      obtain ⟨hpa, hfd, _, _, _, e⟩ := step_fee_true h0
      subst e
      exact ⟨hb.ok.congr rfl rfl rfl rfl, hb.ra.congr rfl rfl, PausedOK.of_unpaused hpa, by rw [hf]; exact hb.i1,
        by rw [hf]; exact hb.i2, hb.i3, hb.i4, hb.i5, hb.i6, by rw [hf]; exact hb.i7,
        by show ((FeeState.outbound == FeeState.outbound) == s.a.isFunder) = true; rw [hfd]; rfl⟩

end Ldk.Chan
