/- update_fee: the feerate of every commitment_signed that is processed equals the feerate the receiver
   computes for its own transaction.  The invariant relates, per direction, the signer's signing feerate,
   the verifier's feerate, the update_fee / commitment_signed / revoke_and_ack still in the stream and the
   two `pending_update_fee` slots; one form for the direction in which the funder signs (`FF`), one for the
   direction in which the other node signs (`GG`).  Core only. -/
import LdkModel.Proofs.Channel.Views
namespace Ldk.Chan

abbrev PFee := Option (Nat × FeeState)

/-! ### value-level forms of the fee-field transitions -/

def viewOf (p : PFee) (fr : Nat) (g : Bool) : Nat :=
  match p with
  | some (f, st) => if st.included g then f else fr
  | none => fr

theorem viewFeerate_eq (n : Node) (g : Bool) : n.viewFeerate g = viewOf n.pendingFee n.feerate g := rfl

def promotedV (p : PFee) (fr : Nat) : Nat × PFee :=
  match p with
  | some (f, .awaitingRemoteRevokeToAnnounce) => (f, none)
  | _ => (fr, p)

theorem promoted_eq (n : Node) : n.promoted = promotedV n.pendingFee n.feerate := rfl

def raaFeeV (p : PFee) (fr : Nat) : Nat × PFee :=
  match p with
  | some (f, .outbound) => (f, none)
  | some (f, .awaitingRemoteRevokeToAnnounce) => (f, none)
  | pf => (fr, pf)

theorem raaFee_eq (n : Node) : raaFee n = raaFeeV n.pendingFee n.feerate := rfl

/-- the funder's slot: empty or Outbound -/
def wfF (p : PFee) : Prop := ∀ f st, p = some (f, st) → st = .outbound
/-- the other node's slot: never Outbound -/
def wfN (p : PFee) : Prop := ∀ f st, p = some (f, st) → st ≠ .outbound

theorem wfF_of {n : Node} (w : n.feeWF = true) (h : n.isFunder = true) : wfF n.pendingFee := by
  intro f st hp
  unfold Node.feeWF at w
  rw [hp, h] at w
  cases st <;> first | rfl | simp at w

theorem wfN_of {n : Node} (w : n.feeWF = true) (h : n.isFunder = false) : wfN n.pendingFee := by
  intro f st hp
  unfold Node.feeWF at w
  rw [hp, h] at w
  cases st <;> simp at w ⊢

/-! ### the fee-relevant projection of a stream -/

inductive FTok where
  | fee (f : Nat) | cs
  deriving DecidableEq, Repr

def ftok : Msg → Option FTok
  | .fee f => some (.fee f)
  | .cs _ => some .cs
  | _ => none

def fproj (l : List Msg) : List FTok := l.filterMap ftok

theorem fproj_append (l m : List Msg) : fproj (l ++ m) = fproj l ++ fproj m := List.filterMap_append ..

theorem fproj_replicate_raa (k : Nat) : fproj (List.replicate k Msg.raa) = [] := by
  induction k with
  | zero => rfl
  | succ k ih => rw [List.replicate_succ]; exact ih

theorem fproj_full (q p : List Msg) (need sent owes : Nat) : fproj (full q p need sent owes) = fproj q ++ fproj p := by
  unfold full
  rw [fproj_append, fproj_append, fproj_append, fproj_replicate_raa, fproj_replicate_raa]; simp

def feeToks (p : PFee) : List FTok :=
  match p with
  | some (f, .outbound) => [.fee f]
  | _ => []

theorem fproj_feeMsgs (n : Node) : fproj n.feeMsgs = feeToks n.pendingFee := by
  unfold Node.feeMsgs feeToks
  cases n.pendingFee with
  | none => rfl
  | some p => obtain ⟨f, st⟩ := p; cases st <;> rfl

theorem fproj_mkAdds (amts : List Nat) : ∀ k, fproj (mkAdds k amts) = [] := by
  induction amts with
  | nil => intro k; rfl
  | cons a as ih => intro k; simp only [mkAdds, fproj, List.filterMap_cons, ftok]; exact ih (k + 1)

theorem fproj_map_none {α : Type} (l : List α) (mk : α → Msg) (h : ∀ x, ftok (mk x) = none) : fproj (l.map mk) = [] := by
  unfold fproj
  rw [List.filterMap_eq_nil_iff]
  intro m hm
  obtain ⟨x, _, e⟩ := List.mem_map.1 hm
  rw [← e]; exact h x

theorem fproj_batch (n : Node) (adds fu fa : List Nat) : fproj (batchOf n adds fu fa) = feeToks n.pendingFee ++ [.cs] := by
  unfold batchOf
  rw [fproj_append, fproj_append, fproj_append, fproj_append, fproj_feeMsgs, fproj_mkAdds,
    fproj_map_none _ _ (fun _ => rfl), fproj_map_none _ _ (fun _ => rfl)]
  simp [fproj, ftok]

theorem fproj_lastBatch (n : Node) : fproj n.lastBatch = feeToks n.pendingFee ++ [.cs] := by
  unfold Node.lastBatch
  rw [fproj_append, fproj_append, fproj_append, fproj_append, fproj_feeMsgs,
    fproj_map_none _ _ (fun _ => rfl), fproj_map_none _ _ (fun _ => rfl), fproj_map_none _ _ (fun _ => rfl)]
  simp [fproj, ftok]

theorem cs_mem_fproj (l : List Msg) : FTok.cs ∈ fproj l ↔ hasCs l = true := by
  induction l with
  | nil => simp [fproj, hasCs]
  | cons m l ih =>
    cases m <;> simp [fproj, hasCs, ftok] at ih ⊢ <;> exact ih

theorem fproj_owedFor (m : Msg) : fproj (owedFor m) = [] := by cases m <;> rfl

/-! ### the direction in which the FUNDER signs -/

/-- `pa fa awa`: signer (funder) slot, feerate, AwaitingRemoteRevoke; `pb fb`: verifier slot and feerate;
    the list: update_fee / commitment_signed still in the signer→verifier stream -/
def FFv (pa : PFee) (fa : Nat) (awa : Bool) (pb : PFee) (fb : Nat) : List FTok → Prop
  | [] => (∀ g, pb ≠ some (g, .remoteAnnounced)) ∧ ((awa = true ∨ pa = none) → viewOf pb fb false = viewOf pa fa true)
  | [.cs] => viewOf pb fb false = viewOf pa fa true ∧ ∀ f, pa = some (f, .outbound) ↔ pb = some (f, .remoteAnnounced)
  | [.fee f, .cs] => pa = some (f, .outbound)
  | _ => False

theorem FFv_nil_of {pa fa awa pb fb} {sh : List FTok} (h : FFv pa fa awa pb fb sh) (hn : FTok.cs ∉ sh) : sh = [] := by
  match sh, h with
  | [], _ => rfl
  | [.cs], _ => simp at hn
  | [.fee f, .cs], _ => simp at hn

theorem FFv_cs_head {pa fa awa pb fb} {sh : List FTok} (h : FFv pa fa awa pb fb (.cs :: sh)) : sh = [] := by
  match sh, h with
  | [], _ => rfl

theorem FFv_fee_head {pa fa awa pb fb} {f : Nat} {sh : List FTok} (h : FFv pa fa awa pb fb (.fee f :: sh)) : sh = [.cs] := by
  match sh, h with
  | [.cs], _ => rfl

/-- the funder decides on a new feerate (not awaiting a revoke_and_ack, nothing pending) -/
theorem FFv_feeEv {fa pb fb f} (h : FFv none fa false pb fb []) : FFv (some (f, .outbound)) fa false pb fb [] := by
  refine ⟨h.1, ?_⟩
  rintro (h | h) <;> cases h

/-- the funder builds a commitment -/
theorem FFv_commitA {pa fa pb fb} (w : wfF pa) (h : FFv pa fa false pb fb []) :
    FFv pa fa true pb fb (feeToks pa ++ [.cs]) := by
  cases pa with
  | none =>
    show FFv none fa true pb fb [.cs]
    exact ⟨h.2 (Or.inr rfl), fun f => Iff.intro (fun e => by cases e) (fun e => absurd e (h.1 f))⟩
  | some p =>
    obtain ⟨f, st⟩ := p
    have := w f st rfl
    subst this
    show FFv _ fa true pb fb [.fee f, .cs]
    rfl

/-- the other node builds a commitment: an AwaitingRemoteRevokeToAnnounce update becomes its feerate -/
theorem FFv_commitB {pa fa awa pb fb sh} (h : FFv pa fa awa pb fb sh) :
    FFv pa fa awa (promotedV pb fb).2 (promotedV pb fb).1 sh := by
  have hv : viewOf (promotedV pb fb).2 (promotedV pb fb).1 false = viewOf pb fb false := by
    cases pb with
    | none => rfl
    | some p => obtain ⟨f, st⟩ := p; cases st <;> rfl
  have hra : ∀ g, (promotedV pb fb).2 = some (g, .remoteAnnounced) ↔ pb = some (g, .remoteAnnounced) := by
    intro g
    cases pb with
    | none => exact Iff.rfl
    | some p => obtain ⟨f, st⟩ := p; cases st <;> simp [promotedV]
  match sh, h with
  | [], h => exact ⟨fun g e => h.1 g ((hra g).1 e), fun c => by rw [hv]; exact h.2 c⟩
  | [.cs], h => exact ⟨by rw [hv]; exact h.1, fun f => (h.2 f).trans (hra f).symm⟩
  | [.fee f, .cs], h => exact h

/-- the other node processes the update_fee -/
theorem FFv_recvB_fee {pa fa awa pb fb f sh} (h : FFv pa fa awa pb fb (.fee f :: sh)) :
    FFv pa fa awa (some (f, .remoteAnnounced)) fb sh := by
  have := FFv_fee_head h
  subst this
  have hp : pa = some (f, .outbound) := h
  subst hp
  refine ⟨rfl, fun g => ?_⟩
  constructor
  · intro e; injection e with e; injection e with e _; rw [e]
  · intro e; injection e with e; injection e with e _; rw [e]

/-- the other node processes the commitment_signed -/
theorem FFv_recvB_cs {pa fa pb fb sh} (h : FFv pa fa true pb fb (.cs :: sh)) : FFv pa fa true (csFee pb) fb sh := by
  have := FFv_cs_head h
  subst this
  have h : viewOf pb fb false = viewOf pa fa true ∧ _ := h
  have hv : viewOf (csFee pb) fb false = viewOf pb fb false := by
    cases pb with
    | none => rfl
    | some p => obtain ⟨f, st⟩ := p; cases st <;> rfl
  refine ⟨?_, fun _ => by rw [hv]; exact h.1⟩
  intro g e
  cases pb with
  | none => cases e
  | some p => obtain ⟨f, st⟩ := p; cases st <;> simp [csFee] at e

/-- the other node processes a revoke_and_ack -/
theorem FFv_recvB_raa {pa fa awa pb fb sh} (w : wfN pb) (h : FFv pa fa awa pb fb sh) :
    FFv pa fa awa (raaFeeV pb fb).2 (raaFeeV pb fb).1 sh := by
  have hv : viewOf (raaFeeV pb fb).2 (raaFeeV pb fb).1 false = viewOf pb fb false := by
    cases pb with
    | none => rfl
    | some p => obtain ⟨f, st⟩ := p; cases st <;> first | rfl | exact absurd rfl (w f _ rfl)
  have hra : ∀ g, (raaFeeV pb fb).2 = some (g, .remoteAnnounced) ↔ pb = some (g, .remoteAnnounced) := by
    intro g
    cases pb with
    | none => exact Iff.rfl
    | some p => obtain ⟨f, st⟩ := p; cases st <;> simp [raaFeeV]
  match sh, h with
  | [], h => exact ⟨fun g e => h.1 g ((hra g).1 e), fun c => by rw [hv]; exact h.2 c⟩
  | [.cs], h => exact ⟨by rw [hv]; exact h.1, fun f => (h.2 f).trans (hra f).symm⟩
  | [.fee f, .cs], h => exact h

/-- the funder processes the revoke_and_ack: its Outbound update becomes its feerate -/
theorem FFv_recvA_raa {pa fa pb fb} (w : wfF pa) (h : FFv pa fa true pb fb []) :
    FFv (raaFeeV pa fa).2 (raaFeeV pa fa).1 false pb fb [] := by
  have hv : viewOf (raaFeeV pa fa).2 (raaFeeV pa fa).1 true = viewOf pa fa true := by
    cases pa with
    | none => rfl
    | some p => obtain ⟨f, st⟩ := p; have := w f st rfl; subst this; simp [raaFeeV, viewOf, FeeState.included]
  refine ⟨h.1, fun _ => by rw [hv]; exact h.2 (Or.inl rfl)⟩

/-- a disconnection: the other node forgets a RemoteAnnounced update; the stream becomes the retransmission -/
theorem FFv_disc {pa fa awa pb fb sh} (w : wfF pa) (pb' : PFee) (hpb : pb' = pb ∨ pb' = pauseFee pb)
    (h : FFv pa fa awa pb fb sh) :
    FFv pa fa awa pb' fb (if FTok.cs ∈ sh then feeToks pa ++ [.cs] else []) := by
  have hra : ∀ g, pb' = some (g, .remoteAnnounced) → pb = some (g, .remoteAnnounced) := by
    intro g e
    rcases hpb with e' | e'
    · rw [← e']; exact e
    · rw [e'] at e
      cases pb with
      | none => cases e
      | some p => obtain ⟨f, st⟩ := p; cases st <;> simp [pauseFee] at e ⊢
  have hsame : (∀ g, pb ≠ some (g, .remoteAnnounced)) → pb' = pb := by
    intro hn
    rcases hpb with e' | e'
    · exact e'
    · rw [e']
      cases pb with
      | none => rfl
      | some p => obtain ⟨f, st⟩ := p; cases st <;> first | rfl | exact absurd rfl (hn f)
  match sh, h with
  | [], h =>
    have e := hsame h.1
    rw [if_neg (by simp), e]; exact h
  | [.cs], h =>
    rw [if_pos (by simp)]
    cases pa with
    | none =>
      have hn : ∀ g, pb ≠ some (g, .remoteAnnounced) := fun g e => by have := (h.2 g).2 e; cases this
      rw [hsame hn]; exact h
    | some p =>
      obtain ⟨f, st⟩ := p
      have := w f st rfl
      subst this
      show FFv _ fa awa pb' fb [.fee f, .cs]
      rfl
  | [.fee f, .cs], h =>
    rw [if_pos (by simp)]
    have hp : pa = some (f, .outbound) := h
    subst hp
    show FFv _ fa awa pb' fb [.fee f, .cs]
    rfl

/-! ### the direction in which the OTHER node signs -/

/-- the verifier (funder) side of the comparison: its feerate, or its Outbound update once the
    revoke_and_ack that commits it is processed -/
def gT (pb : PFee) (fb : Nat) (c : Bool) : Nat :=
  match pb with
  | some (f, .outbound) => if c then f else fb
  | _ => fb

/-- `pa fa`: signer slot and feerate; `pb fb`: verifier (funder) slot and feerate; `nz`: a revoke_and_ack is
    in the signer→verifier stream; `hc`: a commitment_signed is; `rf`: the revoke_and_ack precedes it -/
def GGv (pa : PFee) (fa : Nat) (pb : PFee) (fb : Nat) (nz hc rf : Bool) : Prop :=
  (promotedV pa fa).1 = gT pb fb nz ∧ (hc = true → fa = gT pb fb rf)

theorem GGv_feeEv {pa fa fb hc f} (h : GGv pa fa none fb false hc false) : GGv pa fa (some (f, .outbound)) fb false hc false := h

theorem GGv_commitA {pa fa pb fb nz rf} (h : GGv pa fa pb fb nz false rf) :
    GGv (promotedV pa fa).2 (promotedV pa fa).1 pb fb nz true nz := by
  have : (promotedV (promotedV pa fa).2 (promotedV pa fa).1).1 = (promotedV pa fa).1 := by
    cases pa with
    | none => rfl
    | some p => obtain ⟨f, st⟩ := p; cases st <;> rfl
  exact ⟨by rw [this]; exact h.1, fun _ => h.1⟩

theorem promotedV_wfF {p : PFee} (w : wfF p) (fr : Nat) : promotedV p fr = (fr, p) := by
  cases p with
  | none => rfl
  | some q => obtain ⟨f, st⟩ := q; have := w f st rfl; subst this; rfl

theorem csFee_wfF {p : PFee} (w : wfF p) : csFee p = p := by
  cases p with
  | none => rfl
  | some q => obtain ⟨f, st⟩ := q; have := w f st rfl; subst this; rfl

theorem pauseFee_wfF {p : PFee} (w : wfF p) : pauseFee p = p := by
  cases p with
  | none => rfl
  | some q => obtain ⟨f, st⟩ := q; have := w f st rfl; subst this; rfl

/-- the funder processes the revoke_and_ack at the head of the stream -/
theorem GGv_recvB_raa {pa fa pb fb hc} (w : wfF pb) (nz' rf' : Bool) (h : GGv pa fa pb fb true hc hc) :
    GGv pa fa (raaFeeV pb fb).2 (raaFeeV pb fb).1 nz' hc rf' := by
  have key : ∀ c, gT (raaFeeV pb fb).2 (raaFeeV pb fb).1 c = gT pb fb true := by
    intro c
    cases pb with
    | none => rfl
    | some p => obtain ⟨f, st⟩ := p; have := w f st rfl; subst this; rfl
  refine ⟨by rw [key]; exact h.1, fun hh => ?_⟩
  rw [key]
  have := h.2 hh
  rw [hh] at this; exact this

/-- the signer processes an update_fee (its previous one is no longer AwaitingRemoteRevokeToAnnounce) -/
theorem GGv_recvA_fee {pa fa pb fb nz hc rf f} (hn : ∀ g, pa ≠ some (g, .awaitingRemoteRevokeToAnnounce))
    (h : GGv pa fa pb fb nz hc rf) : GGv (some (f, .remoteAnnounced)) fa pb fb nz hc rf := by
  have : (promotedV pa fa).1 = fa := by
    cases pa with
    | none => rfl
    | some p => obtain ⟨g, st⟩ := p; cases st <;> first | rfl | exact absurd rfl (hn g)
  exact ⟨by rw [← this]; exact h.1, h.2⟩

/-- the signer processes a commitment_signed of the funder -/
theorem GGv_recvA_cs {pa fa pb fb nz hc rf} (hiff : ∀ g, pb = some (g, .outbound) ↔ pa = some (g, .remoteAnnounced))
    (wb : wfF pb) (h : GGv pa fa pb fb nz hc rf) : GGv (csFee pa) fa pb fb true hc rf := by
  refine ⟨?_, h.2⟩
  cases pa with
  | none =>
    have hb : ∀ g, pb ≠ some (g, .outbound) := fun g e => by have := (hiff g).1 e; cases this
    have : ∀ c, gT pb fb c = fb := by
      intro c
      cases pb with
      | none => rfl
      | some p => obtain ⟨f, st⟩ := p; cases st <;> first | rfl | exact absurd rfl (hb f)
    rw [this]; have h1 := h.1; rw [this] at h1; exact h1
  | some p =>
    obtain ⟨g, st⟩ := p
    cases st with
    | remoteAnnounced =>
      have := (hiff g).2 rfl
      subst this
      rfl
    | outbound =>
      have hb : ∀ g', pb ≠ some (g', .outbound) := fun g' e => by have := (hiff g').1 e; cases this
      have : ∀ c, gT pb fb c = fb := by
        intro c
        cases pb with
        | none => rfl
        | some p => obtain ⟨f, st⟩ := p; cases st <;> first | rfl | exact absurd rfl (hb f)
      rw [this]; have h1 := h.1; rw [this] at h1; exact h1
    | awaitingRemoteRevokeToAnnounce =>
      have hb : ∀ g', pb ≠ some (g', .outbound) := fun g' e => by have := (hiff g').1 e; cases this
      have : ∀ c, gT pb fb c = fb := by
        intro c
        cases pb with
        | none => rfl
        | some p => obtain ⟨f, st⟩ := p; cases st <;> first | rfl | exact absurd rfl (hb f)
      rw [this]; have h1 := h.1; rw [this] at h1; exact h1

/-- the signer processes a revoke_and_ack (no commitment_signed of its own is in flight then) -/
theorem GGv_recvA_raa {pa fa pb fb nz rf} (w : wfN pa) (h : GGv pa fa pb fb nz false rf) :
    GGv (raaFeeV pa fa).2 (raaFeeV pa fa).1 pb fb nz false rf := by
  have : (promotedV (raaFeeV pa fa).2 (raaFeeV pa fa).1).1 = (promotedV pa fa).1 := by
    cases pa with
    | none => rfl
    | some p => obtain ⟨f, st⟩ := p; cases st <;> first | rfl | exact absurd rfl (w f _ rfl)
  exact ⟨by rw [this]; exact h.1, fun hh => by cases hh⟩

/-- a disconnection: the signer forgets a RemoteAnnounced update -/
theorem GGv_disc {pa fa pb fb nz hc rf} (pa' : PFee) (hpa : pa' = pa ∨ pa' = pauseFee pa) (h : GGv pa fa pb fb nz hc rf) :
    GGv pa' fa pb fb nz hc rf := by
  have : (promotedV pa' fa).1 = (promotedV pa fa).1 := by
    rcases hpa with e | e
    · rw [e]
    · rw [e]
      cases pa with
      | none => rfl
      | some p => obtain ⟨f, st⟩ := p; cases st <;> rfl
  exact ⟨by rw [this]; exact h.1, h.2⟩

/-! ### the two directional invariants on the system -/

def FF (s : Sys) : Prop :=
  FFv s.a.pendingFee s.a.feerate s.a.awaitingRaa s.b.pendingFee s.b.feerate (fproj s.fullAB)

def GG (s : Sys) : Prop :=
  GGv s.a.pendingFee s.a.feerate s.b.pendingFee s.b.feerate (decide (countRaa s.fullAB ≠ 0)) (hasCs s.fullAB) (raaFirst s.fullAB)

theorem FF_of {s' : Sys} {pa fa awa pb fb sh} (h : FFv pa fa awa pb fb sh) (e1 : s'.a.pendingFee = pa) (e2 : s'.a.feerate = fa)
    (e3 : s'.a.awaitingRaa = awa) (e4 : s'.b.pendingFee = pb) (e5 : s'.b.feerate = fb) (e6 : fproj s'.fullAB = sh) : FF s' := by
  unfold FF; rw [e1, e2, e3, e4, e5, e6]; exact h

theorem GG_of {s' : Sys} {pa fa pb fb nz hc rf} (h : GGv pa fa pb fb nz hc rf) (e1 : s'.a.pendingFee = pa) (e2 : s'.a.feerate = fa)
    (e4 : s'.b.pendingFee = pb) (e5 : s'.b.feerate = fb) (e6 : decide (countRaa s'.fullAB ≠ 0) = nz)
    (e7 : hasCs s'.fullAB = hc) (e8 : raaFirst s'.fullAB = rf) : GG s' := by
  unfold GG; rw [e1, e2, e4, e5, e6, e7, e8]; exact h

/-- a node that is processing a revoke_and_ack has no commitment_signed of its own in flight -/
theorem no_cs_when_raa {s s' : Sys} {rest : List Msg} (hb' : Base s.swap) (hg : GoodA s)
    (h0 : step s (.recv true) = some s') (hq : s.qba = Msg.raa :: rest) : hasCs s.fullAB = false := by
  cases hc : hasCs s.fullAB with
  | false => rfl
  | true =>
    exfalso
    obtain ⟨_, m, rest', n, okb, hq', hm, e⟩ := step_recv_true h0
    have h1 := good_cs_no_raa _ (hg 0)
    have h2 : (cfgA s 0).fwd.contains .cs = true := by
      show (List.filterMap (tokF 0) s.fullAB).contains .cs = true
      rw [(tokF_profile 0 s.fullAB).1]; exact hc
    have h3 : (cfgA s 0).bwd.head? = some .raa := by
      show (List.filterMap (tokB 0) s.fullBA).head? = _
      rw [fullBA_pop_recv_true hb' hq n s.agreed s.feeAgreed]; rfl
    rw [h2, h3] at h1
    cases h1

theorem raaFirst_false_of_noCs {l : List Msg} (h : hasCs l = false) : raaFirst l = false := by
  induction l with
  | nil => rfl
  | cons m l ih =>
    cases m with
    | cs c => simp [hasCs] at h
    | raa => have : hasCs l = false := by simpa [hasCs] using h
             simp [raaFirst, this]
    | add _ _ => exact ih (by simpa [hasCs] using h)
    | fulfill _ => exact ih (by simpa [hasCs] using h)
    | fail _ => exact ih (by simpa [hasCs] using h)
    | fee _ => exact ih (by simpa [hasCs] using h)

theorem hasCs_of_not_awaiting {s : Sys} (hb : Base s) (hb' : Base s.swap) (haw : s.a.awaitingRaa = false) :
    hasCs s.fullAB = false :=
  hasCs_false_of_count ((hb.bounds hb').2.2.2.2 haw)

theorem countRaa_of_not_awaiting {s : Sys} (hb : Base s) (hb' : Base s.swap) (haw : s.b.awaitingRaa = false) :
    countRaa s.fullAB = 0 := by
  have h2 := hb.i2
  have h1 : s.a.csRecv + countCs s.fullBA = s.b.csSent := hb'.i1
  have h3 : s.b.csSent = s.b.raaRecv + (if s.b.awaitingRaa then 1 else 0) := hb'.i3
  rw [haw] at h3
  simp at h3
  omega

/-- a disconnection keeps the control-message profile of the stream -/
theorem disconnect_profile {s s' : Sys} (hb : Base s) (hb1 : Base s') (h : step s .disconnect = some s') :
    countRaa s'.fullAB = countRaa s.fullAB ∧ hasCs s'.fullAB = hasCs s.fullAB ∧ raaFirst s'.fullAB = raaFirst s.fullAB := by
  have e := step_disconnect h
  obtain ⟨_, _, _, _, pa5, pa6, _, _⟩ := pause_fields s.a
  obtain ⟨_, _, _, _, _, pb6, _, pb8⟩ := pause_fields s.b
  have hcs : s'.a.csSent = s.a.csSent := by rw [e]; exact pa5
  have hcr : s'.a.csRecv = s.a.csRecv := by rw [e]; exact pa6
  have hbc : s'.b.csRecv = s.b.csRecv := by rw [e]; exact pb6
  have hbr : s'.b.raaRecv = s.b.raaRecv := by rw [e]; exact pb8
  have hn : s'.needRaaA = s.needRaaA := by rw [e]
  have c1 : countCs s'.fullAB = countCs s.fullAB := by
    have := hb.i1; have := hb1.i1; omega
  have c2 : countRaa s'.fullAB = countRaa s.fullAB := by
    have := hb.i2; have := hb1.i2; omega
  have c3 : hasCs s'.fullAB = hasCs s.fullAB := by
    cases h1 : hasCs s.fullAB with
    | false =>
      have : countCs s.fullAB = 0 := by
        cases hz : countCs s.fullAB with
        | zero => rfl
        | succ k => have := (hasCs_iff_count s.fullAB).2 (by rw [hz]; omega); rw [h1] at this; cases this
      exact hasCs_false_of_count (by rw [c1]; exact this)
    | true =>
      have := (hasCs_iff_count s.fullAB).1 h1
      exact (hasCs_iff_count s'.fullAB).2 (by rw [c1]; exact this)
  refine ⟨c2, c3, ?_⟩
  cases h1 : hasCs s.fullAB with
  | false => rw [raaFirst_false_of_noCs h1, raaFirst_false_of_noCs (by rw [c3]; exact h1)]
  | true =>
    have hz := (hasCs_iff_count s.fullAB).1 h1
    rw [hb.i7 hz, hb1.i7 (by rw [c1]; exact hz), hbr, hn]

/-- the fee projection of the stream after a disconnection -/
theorem disconnect_fproj {s s' : Sys} (hb : Base s) (h : step s .disconnect = some s') :
    fproj s'.fullAB = if FTok.cs ∈ fproj s.fullAB then feeToks s.a.pause.pendingFee ++ [.cs] else [] := by
  rw [fullAB_disconnect h, fproj_full]
  have i1 := hb.i1
  have pa5 := (pause_fields s.a).2.2.2.2.1
  unfold Node.retrans
  by_cases hc : s.a.pause.csSent = s.b.csRecv
  · rw [if_pos hc]
    have : countCs s.fullAB = 0 := by rw [pa5] at hc; omega
    have : FTok.cs ∉ fproj s.fullAB := by rw [cs_mem_fproj, hasCs_false_of_count this]; simp
    rw [if_neg this]; rfl
  · rw [if_neg hc]
    have : countCs s.fullAB ≠ 0 := by rw [pa5] at hc; omega
    have : FTok.cs ∈ fproj s.fullAB := (cs_mem_fproj _).2 ((hasCs_iff_count _).2 this)
    rw [if_pos this, fproj_lastBatch]; rfl

/-! ### preservation, funder signing -/

theorem FF.step {s s' : Sys} {e : Ev} (hff : FF s) (ha : s.a.isFunder = true) (hbn : s.b.isFunder = false) (wa : wfF s.a.pendingFee)
    (wb : wfN s.b.pendingFee) (hb : Base s) (hb' : Base s.swap) (hg : GoodA s) (h : stepG s e = some s') : FF s' := by
  obtain ⟨hk, h0⟩ := stepG_some h
  unfold FF at hff
  cases e with
  | commit x adds fu fa =>
    cases x
    · have hfull := fullAB_commit_false h0
      obtain ⟨_, _, n, ms, hc, e⟩ := step_commit_false h0
      obtain ⟨_, _, en, _⟩ := commit_some hc
      exact FF_of (FFv_commitB hff) (by rw [e]) (by rw [e]) (by rw [e]) (by rw [e, en]; rfl) (by rw [e, en]; rfl) (by rw [hfull])
    · have hfull := fullAB_commit_true h0
      obtain ⟨_, _, n, ms, hc, e⟩ := step_commit_true h0
      obtain ⟨haw, _, en, _⟩ := commit_some hc
      have hnil : fproj s.fullAB = [] := FFv_nil_of hff (by rw [cs_mem_fproj, hasCs_of_not_awaiting hb hb' haw]; simp)
      rw [hnil, haw] at hff
      have hp := promotedV_wfF wa s.a.feerate
      refine FF_of (FFv_commitA wa hff) ?_ ?_ (by rw [e, en]) (by rw [e]) (by rw [e]) ?_
      · rw [e, en]; show (promotedV s.a.pendingFee s.a.feerate).2 = _; rw [hp]
      · rw [e, en]; show (promotedV s.a.pendingFee s.a.feerate).1 = _; rw [hp]
      · rw [hfull, fproj_append, hnil, fproj_batch]; rfl
  | release x =>
    cases x
    · have hfull := fullAB_release_false h0
      obtain ⟨_, _, _, e⟩ := step_release_false h0
      exact FF_of hff (by rw [e]) (by rw [e]) (by rw [e]) (by rw [e]) (by rw [e]) (by rw [hfull])
    · have hfull := fullAB_release_true h0
      obtain ⟨_, _, _, e⟩ := step_release_true h0
      exact FF_of hff (by rw [e]) (by rw [e]) (by rw [e]) (by rw [e]) (by rw [e]) (by rw [hfull])
  | sendRaa x =>
    cases x
    · have hfull := fullAB_sendRaa_false h0
      obtain ⟨_, _, e⟩ := step_sendRaa_false h0
      exact FF_of hff (by rw [e]) (by rw [e]) (by rw [e]) (by rw [e]) (by rw [e]) (by rw [hfull])
    · have hfull := fullAB_sendRaa_true hb hk h0
      obtain ⟨_, _, e⟩ := step_sendRaa_true h0
      exact FF_of hff (by rw [e]) (by rw [e]) (by rw [e]) (by rw [e]) (by rw [e]) (by rw [hfull])
  | recv y =>
    cases y
    · obtain ⟨m, rest, hq, hpa, hf⟩ := fullAB_recv_false hb h0
      obtain ⟨_, m', rest', n, okb, hq', hm, e⟩ := step_recv_false h0
      rw [hq] at hq'
      injection hq' with e1 e2
      subst e1; subst e2
      obtain ⟨_, f2, f3, _⟩ := onMsg_fee_fields hm
      have hsb1 : s'.b.pendingFee = (msgFee s.b m).2 := by rw [e]; exact f3
      have hsb2 : s'.b.feerate = (msgFee s.b m).1 := by rw [e]; exact f2
      rw [hf] at hff
      cases m with
      | fee f =>
        exact FF_of (FFv_recvB_fee hff) (by rw [e]) (by rw [e]) (by rw [e]) hsb1 hsb2 rfl
      | cs c =>
        have haw : s.a.awaitingRaa = true := by
          cases hw : s.a.awaitingRaa with
          | true => rfl
          | false =>
            have := hasCs_of_not_awaiting hb hb' hw
            rw [hf] at this; simp [hasCs] at this
        rw [haw] at hff
        exact FF_of (FFv_recvB_cs hff) (by rw [e]) (by rw [e]) (by rw [e]; exact haw) hsb1 hsb2 rfl
      | raa =>
        exact FF_of (FFv_recvB_raa wb hff) (by rw [e]) (by rw [e]) (by rw [e]) hsb1 hsb2 rfl
      | add _ _ => exact FF_of hff (by rw [e]) (by rw [e]) (by rw [e]) hsb1 hsb2 rfl
      | fulfill _ => exact FF_of hff (by rw [e]) (by rw [e]) (by rw [e]) hsb1 hsb2 rfl
      | fail _ => exact FF_of hff (by rw [e]) (by rw [e]) (by rw [e]) hsb1 hsb2 rfl
    · obtain ⟨hpa, m, rest, n, okb, hq, hm, e⟩ := step_recv_true h0
      have hfw : s'.fullAB = s.fullAB ++ owedFor m := by rw [e]; exact fullAB_after_recv_true hb hpa _ _ hm
      have hfp : fproj s'.fullAB = fproj s.fullAB := by rw [hfw, fproj_append, fproj_owedFor, List.append_nil]
      obtain ⟨_, f2, f3, f4⟩ := onMsg_fee_fields hm
      obtain ⟨_, _, hcnt⟩ := onMsg_counters hm
      have hsa1 : s'.a.pendingFee = (msgFee s.a m).2 := by rw [e]; exact f3
      have hsa2 : s'.a.feerate = (msgFee s.a m).1 := by rw [e]; exact f2
      cases m with
      | fee f => have := f4 f rfl; rw [ha] at this; cases this
      | cs c =>
        refine FF_of hff ?_ hsa2 (by rw [e]; exact hcnt.2.2.2) (by rw [e]) (by rw [e]) hfp
        rw [hsa1]; exact csFee_wfF wa
      | raa =>
        have hno := no_cs_when_raa hb' hg h0 hq
        have hnil : fproj s.fullAB = [] := FFv_nil_of hff (by rw [cs_mem_fproj, hno]; simp)
        rw [hnil, hcnt.2.2.2.1] at hff
        exact FF_of (FFv_recvA_raa wa hff) hsa1 hsa2 (by rw [e]; exact hcnt.2.2.2.2) (by rw [e]) (by rw [e]) (by rw [hfp, hnil])
      | add _ _ => exact FF_of hff hsa1 hsa2 (by rw [e]; exact hcnt.2.2.2) (by rw [e]) (by rw [e]) hfp
      | fulfill _ => exact FF_of hff hsa1 hsa2 (by rw [e]; exact hcnt.2.2.2) (by rw [e]) (by rw [e]) hfp
      | fail _ => exact FF_of hff hsa1 hsa2 (by rw [e]; exact hcnt.2.2.2) (by rw [e]) (by rw [e]) hfp
  | disconnect =>
    have e := step_disconnect h0
    obtain ⟨_, pa2, pa3⟩ := pause_fee s.a
    obtain ⟨_, pb2, pb3⟩ := pause_fee s.b
    have hpa : s.a.pause.pendingFee = s.a.pendingFee := by
      rw [pa3]; split
      · rfl
      · exact pauseFee_wfF wa
    have hpb : s.b.pause.pendingFee = s.b.pendingFee ∨ s.b.pause.pendingFee = pauseFee s.b.pendingFee := by
      rw [pb3]; split
      · exact Or.inl rfl
      · exact Or.inr rfl
    refine FF_of (FFv_disc wa _ hpb hff) (by rw [e]; exact hpa) (by rw [e]; exact pa2)
      (by rw [e]; exact (pause_fields s.a).2.1) (by rw [e]) (by rw [e]; exact pb2) ?_
    rw [disconnect_fproj hb h0, hpa]
  | reest y =>
    cases y
    · have hfull := fullAB_reest_false h0
      obtain ⟨n, p, hr, e⟩ := step_reest_false h0
      obtain ⟨_, _, _, _, _, en, _⟩ := reestablish_some hr
      exact FF_of hff (by rw [e]) (by rw [e]) (by rw [e]) (by rw [e, en]) (by rw [e, en]) (by rw [hfull])
    · have hfull := fullAB_reest_true hb h0
      obtain ⟨n, p, hr, e⟩ := step_reest_true h0
      obtain ⟨_, _, _, _, _, en, _⟩ := reestablish_some hr
      exact FF_of hff (by rw [e, en]) (by rw [e, en]) (by rw [e, en]) (by rw [e]) (by rw [e]) (by rw [hfull])
  | fee x f =>
    cases x
    · -- the other node is not the funder: it never decides on a feerate
      obtain ⟨_, hfd, _, _, _, _⟩ := step_fee_false h0
      rw [hbn] at hfd; cases hfd
    · have hfull := fullAB_fee_true h0
      obtain ⟨_, _, haw, _, hpn, e⟩ := step_fee_true h0
      have hnil : fproj s.fullAB = [] := FFv_nil_of hff (by rw [cs_mem_fproj, hasCs_of_not_awaiting hb hb' haw]; simp)
      rw [hnil, haw, hpn] at hff
      exact FF_of (FFv_feeEv (f := f) hff) (by rw [e]) (by rw [e]) (by rw [e]; exact haw) (by rw [e]) (by rw [e]) (by rw [hfull, hnil])

/-! ### preservation, the other node signing -/

theorem feeToAnnounce_false {n : Node} (h : n.feeToAnnounce = false) : ∀ g, n.pendingFee ≠ some (g, .awaitingRemoteRevokeToAnnounce) := by
  intro g e
  unfold Node.feeToAnnounce at h
  rw [e] at h; cases h

theorem GG.step {s s' : Sys} {e : Ev} (hgg : GG s) (ha : s.a.isFunder = false) (hbf : s.b.isFunder = true)
    (wa : wfN s.a.pendingFee) (wb : wfF s.b.pendingFee) (hsw : FF s.swap)
    (hb : Base s) (hb' : Base s.swap) (hg : GoodA s) (h : stepG s e = some s') : GG s' := by
  obtain ⟨hk, h0⟩ := stepG_some h
  have hb1 : Base s' := hb.step hb' h
  unfold GG at hgg
  cases e with
  | commit x adds fu fa =>
    cases x
    · have hfull := fullAB_commit_false h0
      obtain ⟨_, _, n, ms, hc, e⟩ := step_commit_false h0
      obtain ⟨_, _, en, _⟩ := commit_some hc
      have hp := promotedV_wfF wb s.b.feerate
      refine GG_of hgg (by rw [e]) (by rw [e]) ?_ ?_ (by rw [hfull]) (by rw [hfull]) (by rw [hfull])
      · rw [e, en]; show (promotedV s.b.pendingFee s.b.feerate).2 = _; rw [hp]
      · rw [e, en]; show (promotedV s.b.pendingFee s.b.feerate).1 = _; rw [hp]
    · have hfull := fullAB_commit_true h0
      obtain ⟨_, _, n, ms, hc, e⟩ := step_commit_true h0
      obtain ⟨haw, _, en, _⟩ := commit_some hc
      have hno := hasCs_of_not_awaiting hb hb' haw
      have hz : countCs s.fullAB = 0 := (hb.bounds hb').2.2.2.2 haw
      have hbt := IsBatch.batchOf s.a adds fu fa
      rw [hno] at hgg
      refine GG_of (GGv_commitA hgg) (by rw [e, en]; rfl) (by rw [e, en]; rfl) (by rw [e]) (by rw [e]) ?_ ?_ ?_
      · rw [hfull, countRaa_append, hbt.noRaa, Nat.add_zero]
      · rw [hfull, hasCs_append, hbt.hasCs, Bool.or_true]
      · rw [hfull, raaFirst_append_noCs hz, hbt.hasCs, hbt.raaFirst]
        by_cases hr : countRaa s.fullAB ≠ 0
        · rw [if_pos hr]; simp [hr]
        · rw [if_neg hr]; simp [hr]
  | release x =>
    cases x
    · have hfull := fullAB_release_false h0
      obtain ⟨_, _, _, e⟩ := step_release_false h0
      exact GG_of hgg (by rw [e]) (by rw [e]) (by rw [e]) (by rw [e]) (by rw [hfull]) (by rw [hfull]) (by rw [hfull])
    · have hfull := fullAB_release_true h0
      obtain ⟨_, _, _, e⟩ := step_release_true h0
      exact GG_of hgg (by rw [e]) (by rw [e]) (by rw [e]) (by rw [e]) (by rw [hfull]) (by rw [hfull]) (by rw [hfull])
  | sendRaa x =>
    cases x
    · have hfull := fullAB_sendRaa_false h0
      obtain ⟨_, _, e⟩ := step_sendRaa_false h0
      exact GG_of hgg (by rw [e]) (by rw [e]) (by rw [e]) (by rw [e]) (by rw [hfull]) (by rw [hfull]) (by rw [hfull])
    · have hfull := fullAB_sendRaa_true hb hk h0
      obtain ⟨_, _, e⟩ := step_sendRaa_true h0
      exact GG_of hgg (by rw [e]) (by rw [e]) (by rw [e]) (by rw [e]) (by rw [hfull]) (by rw [hfull]) (by rw [hfull])
  | recv y =>
    cases y
    · obtain ⟨m, rest, hq, hpa, hf⟩ := fullAB_recv_false hb h0
      obtain ⟨_, m', rest', n, okb, hq', hm, e⟩ := step_recv_false h0
      rw [hq] at hq'
      injection hq' with e1 e2
      subst e1; subst e2
      obtain ⟨_, f2, f3, f4⟩ := onMsg_fee_fields hm
      have hsb1 : s'.b.pendingFee = (msgFee s.b m).2 := by rw [e]; exact f3
      have hsb2 : s'.b.feerate = (msgFee s.b m).1 := by rw [e]; exact f2
      have hc1 : countCs s.fullAB ≤ 1 := (hb.bounds hb').2.2.2.1
      rw [hf] at hgg hc1
      cases m with
      | fee f => have := f4 f rfl; rw [hbf] at this; cases this
      | cs c =>
        have hno : hasCs s'.fullAB = false := by
          apply hasCs_false_of_count
          rw [countCs_cons] at hc1; simp only at hc1; omega
        have hnz : decide (countRaa (Msg.cs c :: s'.fullAB) ≠ 0) = decide (countRaa s'.fullAB ≠ 0) := by
          rw [countRaa_cons]; simp
        rw [hnz] at hgg
        refine GG_of (rf := raaFirst s'.fullAB) (hc := false) ⟨hgg.1, fun hh => by cases hh⟩ (by rw [e]) (by rw [e]) ?_ hsb2 rfl hno rfl
        rw [hsb1]; exact csFee_wfF wb
      | raa =>
        have hnz : decide (countRaa (Msg.raa :: s'.fullAB) ≠ 0) = true := by
          rw [countRaa_cons]; simp
        have hh : hasCs (Msg.raa :: s'.fullAB) = hasCs s'.fullAB := by simp [hasCs]
        have hr : raaFirst (Msg.raa :: s'.fullAB) = hasCs s'.fullAB := rfl
        rw [hnz, hh, hr] at hgg
        exact GG_of (GGv_recvB_raa wb _ _ hgg) (by rw [e]) (by rw [e]) hsb1 hsb2 rfl rfl rfl
      | add i a =>
        have hnz : decide (countRaa (Msg.add i a :: s'.fullAB) ≠ 0) = decide (countRaa s'.fullAB ≠ 0) := by
          rw [countRaa_cons]; simp
        have hh : hasCs (Msg.add i a :: s'.fullAB) = hasCs s'.fullAB := by simp [hasCs]
        have hr : raaFirst (Msg.add i a :: s'.fullAB) = raaFirst s'.fullAB := rfl
        rw [hnz, hh, hr] at hgg
        exact GG_of hgg (by rw [e]) (by rw [e]) hsb1 hsb2 rfl rfl rfl
      | fulfill i =>
        have hnz : decide (countRaa (Msg.fulfill i :: s'.fullAB) ≠ 0) = decide (countRaa s'.fullAB ≠ 0) := by
          rw [countRaa_cons]; simp
        have hh : hasCs (Msg.fulfill i :: s'.fullAB) = hasCs s'.fullAB := by simp [hasCs]
        have hr : raaFirst (Msg.fulfill i :: s'.fullAB) = raaFirst s'.fullAB := rfl
        rw [hnz, hh, hr] at hgg
        exact GG_of hgg (by rw [e]) (by rw [e]) hsb1 hsb2 rfl rfl rfl
      | fail i =>
        have hnz : decide (countRaa (Msg.fail i :: s'.fullAB) ≠ 0) = decide (countRaa s'.fullAB ≠ 0) := by
          rw [countRaa_cons]; simp
        have hh : hasCs (Msg.fail i :: s'.fullAB) = hasCs s'.fullAB := by simp [hasCs]
        have hr : raaFirst (Msg.fail i :: s'.fullAB) = raaFirst s'.fullAB := rfl
        rw [hnz, hh, hr] at hgg
        exact GG_of hgg (by rw [e]) (by rw [e]) hsb1 hsb2 rfl rfl rfl
    · obtain ⟨hpa, m, rest, n, okb, hq, hm, e⟩ := step_recv_true h0
      have hfw : s'.fullAB = s.fullAB ++ owedFor m := by rw [e]; exact fullAB_after_recv_true hb hpa _ _ hm
      have hpop : s.fullBA = m :: s'.fullBA := by rw [e]; exact fullBA_pop_recv_true hb' hq n _ _
      obtain ⟨_, f2, f3, f4⟩ := onMsg_fee_fields hm
      have hsa1 : s'.a.pendingFee = (msgFee s.a m).2 := by rw [e]; exact f3
      have hsa2 : s'.a.feerate = (msgFee s.a m).1 := by rw [e]; exact f2
      cases m with
      | fee f =>
        have hta : s.a.feeToAnnounce = false := by
          simp only [evOk, hq, headIsFee, Bool.true_and, Bool.not_eq_true'] at hk; exact hk
        have hfe : s'.fullAB = s.fullAB := by rw [hfw]; simp [owedFor]
        exact GG_of (GGv_recvA_fee (f := f) (feeToAnnounce_false hta) hgg) hsa1 hsa2 (by rw [e]) (by rw [e])
          (by rw [hfe]) (by rw [hfe]) (by rw [hfe])
      | cs c =>
        have hfe : s'.fullAB = s.fullAB ++ [Msg.raa] := by rw [hfw]; rfl
        have hshape : FFv s.b.pendingFee s.b.feerate s.b.awaitingRaa s.a.pendingFee s.a.feerate (fproj s.fullBA) := hsw
        rw [hpop] at hshape
        have hshape : FFv s.b.pendingFee s.b.feerate s.b.awaitingRaa s.a.pendingFee s.a.feerate (.cs :: fproj s'.fullBA) := hshape
        have hnil := FFv_cs_head hshape
        rw [hnil] at hshape
        have hiff : ∀ g, s.b.pendingFee = some (g, .outbound) ↔ s.a.pendingFee = some (g, .remoteAnnounced) := hshape.2
        refine GG_of (GGv_recvA_cs hiff wb hgg) hsa1 hsa2 (by rw [e]) (by rw [e]) ?_ ?_ ?_
        · rw [hfe, countRaa_append]; simp [countRaa]
        · rw [hfe, hasCs_append]; simp [hasCs]
        · rw [hfe, raaFirst_snoc_raa]
      | raa =>
        have hno := no_cs_when_raa hb' hg h0 hq
        have hfe : s'.fullAB = s.fullAB := by rw [hfw]; simp [owedFor]
        rw [hno] at hgg
        exact GG_of (GGv_recvA_raa wa hgg) hsa1 hsa2 (by rw [e]) (by rw [e]) (by rw [hfe]) (by rw [hfe, hno]) (by rw [hfe])
      | add _ _ =>
        have hfe : s'.fullAB = s.fullAB := by rw [hfw]; simp [owedFor]
        exact GG_of hgg hsa1 hsa2 (by rw [e]) (by rw [e]) (by rw [hfe]) (by rw [hfe]) (by rw [hfe])
      | fulfill _ =>
        have hfe : s'.fullAB = s.fullAB := by rw [hfw]; simp [owedFor]
        exact GG_of hgg hsa1 hsa2 (by rw [e]) (by rw [e]) (by rw [hfe]) (by rw [hfe]) (by rw [hfe])
      | fail _ =>
        have hfe : s'.fullAB = s.fullAB := by rw [hfw]; simp [owedFor]
        exact GG_of hgg hsa1 hsa2 (by rw [e]) (by rw [e]) (by rw [hfe]) (by rw [hfe]) (by rw [hfe])
  | disconnect =>
    have e := step_disconnect h0
    obtain ⟨_, pa2, pa3⟩ := pause_fee s.a
    obtain ⟨_, pb2, pb3⟩ := pause_fee s.b
    obtain ⟨d1, d2, d3⟩ := disconnect_profile hb hb1 h0
    have hpb : s.b.pause.pendingFee = s.b.pendingFee := by
      rw [pb3]; split
      · rfl
      · exact pauseFee_wfF wb
    have hpa : s.a.pause.pendingFee = s.a.pendingFee ∨ s.a.pause.pendingFee = pauseFee s.a.pendingFee := by
      rw [pa3]; split
      · exact Or.inl rfl
      · exact Or.inr rfl
    exact GG_of (GGv_disc _ hpa hgg) (by rw [e]) (by rw [e]; exact pa2) (by rw [e]; exact hpb) (by rw [e]; exact pb2)
      (by rw [d1]) d2 d3
  | reest y =>
    cases y
    · have hfull := fullAB_reest_false h0
      obtain ⟨n, p, hr, e⟩ := step_reest_false h0
      obtain ⟨_, _, _, _, _, en, _⟩ := reestablish_some hr
      exact GG_of hgg (by rw [e]) (by rw [e]) (by rw [e, en]) (by rw [e, en]) (by rw [hfull]) (by rw [hfull]) (by rw [hfull])
    · have hfull := fullAB_reest_true hb h0
      obtain ⟨n, p, hr, e⟩ := step_reest_true h0
      obtain ⟨_, _, _, _, _, en, _⟩ := reestablish_some hr
      exact GG_of hgg (by rw [e, en]) (by rw [e, en]) (by rw [e]) (by rw [e]) (by rw [hfull]) (by rw [hfull]) (by rw [hfull])
  | fee x f =>
    cases x
    · have hfull := fullAB_fee_false h0
      obtain ⟨_, _, haw, _, hpn, e⟩ := step_fee_false h0
      have hz := countRaa_of_not_awaiting hb hb' haw
      have hr := raaFirst_false_of_noRaa hz
      rw [hz, hr, hpn] at hgg
      have hgg : GGv s.a.pendingFee s.a.feerate none s.b.feerate false (hasCs s.fullAB) false := by simpa using hgg
      refine GG_of (GGv_feeEv (f := f) hgg) (by rw [e]) (by rw [e]) (by rw [e]) (by rw [e]) ?_ (by rw [hfull]) (by rw [hfull, hr])
      rw [hfull, hz]; simp
    · obtain ⟨_, hfd, _, _, _, _⟩ := step_fee_true h0
      rw [ha] at hfd; cases hfd

/-! ### both directions -/

theorem isFunder_step {s s' : Sys} {e : Ev} (h : step s e = some s') :
    s'.a.isFunder = s.a.isFunder ∧ s'.b.isFunder = s.b.isFunder := by
  cases e with
  | commit x adds fu fa =>
    cases x
    · obtain ⟨_, _, n, ms, hc, e⟩ := step_commit_false h
      obtain ⟨_, _, en, _⟩ := commit_some hc
      subst e; subst en; exact ⟨rfl, rfl⟩
    · obtain ⟨_, _, n, ms, hc, e⟩ := step_commit_true h
      obtain ⟨_, _, en, _⟩ := commit_some hc
      subst e; subst en; exact ⟨rfl, rfl⟩
  | release x =>
    cases x
    · obtain ⟨_, _, _, e⟩ := step_release_false h; subst e; exact ⟨rfl, rfl⟩
    · obtain ⟨_, _, _, e⟩ := step_release_true h; subst e; exact ⟨rfl, rfl⟩
  | sendRaa x =>
    cases x
    · obtain ⟨_, _, e⟩ := step_sendRaa_false h; subst e; exact ⟨rfl, rfl⟩
    · obtain ⟨_, _, e⟩ := step_sendRaa_true h; subst e; exact ⟨rfl, rfl⟩
  | recv y =>
    cases y
    · obtain ⟨_, m, rest, n, okb, _, hm, e⟩ := step_recv_false h
      subst e; exact ⟨rfl, (onMsg_fee_fields hm).1⟩
    · obtain ⟨_, m, rest, n, okb, _, hm, e⟩ := step_recv_true h
      subst e; exact ⟨(onMsg_fee_fields hm).1, rfl⟩
  | disconnect =>
    have e := step_disconnect h
    subst e; exact ⟨(pause_fee s.a).1, (pause_fee s.b).1⟩
  | reest y =>
    cases y
    · obtain ⟨n, p, hr, e⟩ := step_reest_false h
      obtain ⟨_, _, _, _, _, en, _⟩ := reestablish_some hr
      subst e; subst en; exact ⟨rfl, rfl⟩
    · obtain ⟨n, p, hr, e⟩ := step_reest_true h
      obtain ⟨_, _, _, _, _, en, _⟩ := reestablish_some hr
      subst e; subst en; exact ⟨rfl, rfl⟩
  | fee x f =>
    cases x
    · obtain ⟨_, _, _, _, _, e⟩ := step_fee_false h; subst e; exact ⟨rfl, rfl⟩
    · obtain ⟨_, _, _, _, _, e⟩ := step_fee_true h; subst e; exact ⟨rfl, rfl⟩

/-- the fee invariant of the a→b direction: whichever of the two nodes is the funder -/
structure FeeD (s : Sys) : Prop where
  fd : s.a.isFunder = !s.b.isFunder
  ff : s.a.isFunder = true → FF s
  gg : s.a.isFunder = false → GG s

theorem FeeD.init (va vb f0 : Nat) : FeeD (Sys.init va vb f0) :=
  ⟨rfl, fun _ => ⟨fun g e => (by cases e), fun _ => rfl⟩, fun h => (by cases h)⟩

theorem FeeD.init' (va vb f0 : Nat) : FeeD (Sys.init va vb f0).swap :=
  ⟨rfl, fun h => (by cases h), fun _ => ⟨rfl, fun h => (by cases h)⟩⟩

theorem FeeD.step {s s' : Sys} {e : Ev} (hf : FeeD s) (hf' : FeeD s.swap) (hb : Base s) (hb' : Base s.swap)
    (hg : GoodA s) (h : stepG s e = some s') : FeeD s' := by
  obtain ⟨_, h0⟩ := stepG_some h
  obtain ⟨i1, i2⟩ := isFunder_step h0
  have hfd := hf.fd
  cases ha : s.a.isFunder with
  | true =>
    have hbn : s.b.isFunder = false := by rw [ha] at hfd; cases hbf : s.b.isFunder <;> simp [hbf] at hfd ⊢
    refine ⟨by rw [i1, i2]; exact hfd, fun _ => ?_, fun hh => (by rw [i1, ha] at hh; cases hh)⟩
    exact (hf.ff ha).step ha hbn (wfF_of hb.wf ha) (wfN_of hb'.wf hbn) hb hb' hg h
  | false =>
    have hbf : s.b.isFunder = true := by rw [ha] at hfd; cases hbf : s.b.isFunder <;> simp [hbf] at hfd ⊢
    refine ⟨by rw [i1, i2]; exact hfd, fun hh => (by rw [i1, ha] at hh; cases hh), fun _ => ?_⟩
    exact (hf.gg ha).step ha hbf (wfN_of hb.wf ha) (wfF_of hb'.wf hbf) (hf'.ff hbf) hb hb' hg h

/-- AGREEMENT on the feerate: the commitment_signed at the head of the a→b stream carries the feerate `b`
    computes for its own transaction -/
theorem fee_agree_head {s : Sys} {c : Commit} {rest : List Msg} (hf : FeeD s) (hv : ViewA s) (hb : Base s) (hb' : Base s.swap)
    (hq : s.fullAB = Msg.cs c :: rest) : c.feerate = s.b.viewFeerate false := by
  have hc : c = s.a.buildView false true := hv c (by rw [hq]; simp)
  have hcf : c.feerate = viewOf s.a.pendingFee s.a.feerate true := by rw [hc]; rfl
  rw [hcf, viewFeerate_eq]
  have hfd := hf.fd
  cases ha : s.a.isFunder with
  | true =>
    have hff := hf.ff ha
    unfold FF at hff
    rw [hq] at hff
    have hff : FFv s.a.pendingFee s.a.feerate s.a.awaitingRaa s.b.pendingFee s.b.feerate (.cs :: fproj rest) := hff
    have hnil := FFv_cs_head hff
    rw [hnil] at hff
    exact hff.1.symm
  | false =>
    have hbf : s.b.isFunder = true := by rw [ha] at hfd; cases hbf : s.b.isFunder <;> simp [hbf] at hfd ⊢
    have hgg := hf.gg ha
    unfold GG at hgg
    rw [hq] at hgg
    have h2 := hgg.2 (by simp [hasCs])
    have wa := wfN_of hb.wf ha
    have wb := wfF_of hb'.wf hbf
    have e1 : viewOf s.a.pendingFee s.a.feerate true = s.a.feerate := by
      cases hp : s.a.pendingFee with
      | none => rfl
      | some p => obtain ⟨f, st⟩ := p; cases st <;> first | rfl | exact absurd rfl (wa f _ hp)
    have e2 : viewOf s.b.pendingFee s.b.feerate false = s.b.feerate := by
      cases hp : s.b.pendingFee with
      | none => rfl
      | some p => obtain ⟨f, st⟩ := p; have := wb f st hp; subst this; rfl
    have e3 : gT s.b.pendingFee s.b.feerate (raaFirst (Msg.cs c :: rest)) = s.b.feerate := by
      have : raaFirst (Msg.cs c :: rest) = false := rfl
      rw [this]
      cases s.b.pendingFee with
      | none => rfl
      | some p => obtain ⟨f, st⟩ := p; cases st <;> rfl
    rw [e1, e2, h2, e3]

end Ldk.Chan
