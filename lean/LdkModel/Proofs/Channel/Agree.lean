/- HTLC-set agreement: when `b` is about to process a commitment_signed of `a`, `a`'s signing view and
   `b`'s own view list the same HTLCs (same ids, same amounts, same direction). Core only. -/
import LdkModel.Proofs.Channel.Views
namespace Ldk.Chan

def optP {α : Type} (p : α → Bool) : Option α → Bool
  | some x => p x
  | none => false

theorem sorted_block_out (flag : Bool) (p : OutHtlc → Bool) {l : List OutHtlc} (hs : SortedOut l) :
    Sorted (fun x : H => x.2.1) ((l.filter p).map (fun h => (flag, h.id, h.amt))) := by
  unfold Sorted
  rw [List.pairwise_map]
  exact List.Pairwise.filter p hs

theorem sorted_block_in (flag : Bool) (p : InHtlc → Bool) {l : List InHtlc} (hs : SortedIn l) :
    Sorted (fun x : H => x.2.1) ((l.filter p).map (fun h => (flag, h.id, h.amt))) := by
  unfold Sorted
  rw [List.pairwise_map]
  exact List.Pairwise.filter p hs

/-- two id-sorted lists (one of outbound, one of inbound HTLCs) that agree id by id on a per-state
    selection and on amounts give the same selected block -/
theorem block_eq (flag : Bool) {lo : List OutHtlc} {li : List InHtlc} (po : OutState → Bool) (pi : InState → Bool)
    (so : SortedOut lo) (si : SortedIn li)
    (hamt : ∀ h ∈ lo, ∀ h' ∈ li, h.id = h'.id → h.amt = h'.amt)
    (hrel : ∀ id, optP po (stOut lo id) = true → optP pi (stIn li id) = true)
    (hrel' : ∀ id, optP pi (stIn li id) = true → optP po (stOut lo id) = true) :
    (lo.filter (fun h => po h.st)).map (fun h => (flag, h.id, h.amt))
      = (li.filter (fun h => pi h.st)).map (fun h => (flag, h.id, h.amt)) := by
  apply sorted_ext (fun x : H => x.2.1) _ _ (sorted_block_out flag _ so) (sorted_block_in flag _ si)
  intro x
  simp only [List.mem_map, List.mem_filter]
  constructor
  · rintro ⟨h, ⟨hm, hp⟩, rfl⟩
    have h1 : optP po (stOut lo h.id) = true := by rw [stOut_of_mem so hm]; exact hp
    have h2 := hrel h.id h1
    cases hi : stIn li h.id with
    | none => rw [hi] at h2; cases h2
    | some st =>
      rw [hi] at h2
      obtain ⟨h', hm', e1, e2⟩ := mem_of_stIn hi
      refine ⟨h', ⟨hm', by rw [e2]; exact h2⟩, ?_⟩
      rw [e1, hamt h hm h' hm' e1.symm]
  · rintro ⟨h', ⟨hm', hp⟩, rfl⟩
    have h1 : optP pi (stIn li h'.id) = true := by rw [stIn_of_mem si hm']; exact hp
    have h2 := hrel' h'.id h1
    cases ho : stOut lo h'.id with
    | none => rw [ho] at h2; cases h2
    | some st =>
      rw [ho] at h2
      obtain ⟨h, hm, e1, e2⟩ := mem_of_stOut ho
      refine ⟨h, ⟨hm, by rw [e2]; exact h2⟩, ?_⟩
      rw [e1, hamt h hm h' hm' e1]

/-- the head of the a→b stream, as seen by the two HTLC families -/
theorem head_tokens {s : Sys} {c : Commit} {rest : List Msg} (hb : Base s) (hq : s.qab = Msg.cs c :: rest) (id : Nat) :
    (cfgA s id).fwd.head? = some .cs ∧ (cfgA s.swap id).bwd.head? = some .cs := by
  have hpa : s.a.paused = false := by
    cases hp : s.a.paused with
    | false => rfl
    | true => have := hb.i6 hp; rw [this] at hq; cases hq
  have : s.fullAB = Msg.cs c :: full rest s.pendA s.needRaaA s.a.raaSent s.a.owesRaa := by
    rw [Sys.fullAB_unpaused hpa, hq, full_pop]
  refine ⟨?_, ?_⟩
  · show (List.filterMap (tokF id) s.fullAB).head? = _
    rw [this]; rfl
  · show (List.filterMap (tokB id) s.fullAB).head? = _
    rw [this]; rfl

theorem htlcs_agree {s : Sys} {c : Commit} {rest : List Msg} (hb : Base s) (hq : s.qab = Msg.cs c :: rest)
    (hg : GoodA s) (hg' : GoodA s.swap) (ha : Amt s) (ha' : Amt s.swap) (oka : NodeOK s.a) (okb : NodeOK s.b) :
    sortH (s.a.buildView false true).htlcs = sortH (s.b.buildView true false).htlcs := by
  -- HTLCs offered by a
  have hF : (s.a.outb.filter (fun h => h.st.included true)).map (fun h => (false, h.id, h.amt))
      = (s.b.inb.filter (fun h => h.st.included false)).map (fun h => (false, h.id, h.amt)) := by
    apply block_eq false (fun st => st.included true) (fun st => st.included false) oka.sOut okb.sIn ha.a1
    · intro id h1
      have := good_okI _ (hg id)
      rw [(head_tokens hb hq id).1] at this
      simp only [cfgA] at this
      cases ho : stOut s.a.outb id with
      | none => rw [ho] at h1; cases h1
      | some st =>
        rw [ho] at h1 this
        cases hi : stIn s.b.inb id with
        | none => rw [hi] at this; simp [inclT] at this; simp [optP] at h1; rw [h1] at this; cases this
        | some st' => exact in_included_false st'
    · intro id h1
      have := good_okI _ (hg id)
      rw [(head_tokens hb hq id).1] at this
      simp only [cfgA] at this
      cases hi : stIn s.b.inb id with
      | none => rw [hi] at h1; cases h1
      | some st' =>
        rw [hi] at this
        cases ho : stOut s.a.outb id with
        | none => rw [ho] at this; simp [inclT] at this
        | some st => rw [ho] at this; simpa [inclT, optP] using this
  -- HTLCs offered by b
  have hT : (s.b.outb.filter (fun h => h.st.included false)).map (fun h => (true, h.id, h.amt))
      = (s.a.inb.filter (fun h => h.st.included true)).map (fun h => (true, h.id, h.amt)) := by
    apply block_eq true (fun st => st.included false) (fun st => st.included true) okb.sOut oka.sIn ha'.a1
    · intro id h1
      have := good_okO _ (hg' id)
      rw [(head_tokens hb hq id).2] at this
      simp only [cfgA, Sys.swap] at this
      cases ho : stOut s.b.outb id with
      | none => rw [ho] at h1; cases h1
      | some st =>
        rw [ho] at h1 this
        cases hi : stIn s.a.inb id with
        | none => rw [hi] at this; simp [inclTi, inclF] at this; simp [optP] at h1; rw [h1] at this; cases this
        | some st' => rw [hi] at this; simp [inclTi, inclF] at this; simp [optP] at h1 ⊢; rw [this]; exact h1
    · intro id h1
      have := good_okO _ (hg' id)
      rw [(head_tokens hb hq id).2] at this
      simp only [cfgA, Sys.swap] at this
      cases hi : stIn s.a.inb id with
      | none => rw [hi] at h1; cases h1
      | some st' =>
        rw [hi] at h1 this
        cases ho : stOut s.b.outb id with
        | none => rw [ho] at this; simp [inclTi, inclF] at this; simp [optP] at h1; rw [h1] at this; cases this
        | some st => rw [ho] at this; simp [inclTi, inclF] at this; simp [optP] at h1 ⊢; rw [← this]; exact h1
  show sortH ((s.a.inb.filter (fun h => h.st.included true)).map (fun h => (!false, h.id, h.amt))
        ++ (s.a.outb.filter (fun h => h.st.included true)).map (fun h => (false, h.id, h.amt)))
     = sortH ((s.b.inb.filter (fun h => h.st.included false)).map (fun h => (!true, h.id, h.amt))
        ++ (s.b.outb.filter (fun h => h.st.included false)).map (fun h => (true, h.id, h.amt)))
  simp only [Bool.not_false, Bool.not_true]
  rw [hF, hT]
  apply sortH_blocks
  · intro y hy; obtain ⟨_, _, e⟩ := List.mem_map.1 hy; rw [← e]
  · intro y hy; obtain ⟨_, _, e⟩ := List.mem_map.1 hy; rw [← e]

end Ldk.Chan
