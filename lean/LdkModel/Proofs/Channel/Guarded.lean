/- The guarded protocol (`stepG`): `Chan.step` plus the enabling conditions a real node obeys and the
   model's `step` does not enforce; the a↔b symmetry; closed forms of `Node.commit` / `Node.onMsg`;
   and the full a→b message stream (on the wire ++ pending release ++ owed revoke_and_acks), which under
   the guards is an append-only FIFO. Core only. -/
import LdkModel.Model.Channel
namespace Ldk.Chan

/-! ### the extra enabling conditions -/

/-- Conditions of the real node that `step` lacks:
  * `sendRaa x` while a built batch is still held back is allowed only if that batch was built while
    this revoke_and_ack was already owed (`raaSent < needRaa`); otherwise the batch goes first
    (`resend_order = CommitmentFirst`, set in `commitment_signed`);
  * a batch removes each HTLC at most once;
  * an `update_fee` is processed only once the previous inbound fee update has left
    AwaitingRemoteRevokeToAnnounce: `update_fee` OVERWRITES `pending_update_fee`, and the real node never
    rests in that state unless it awaits a revoke_and_ack (`commitment_signed` sets `need_commitment` and
    builds the next commitment at once), in which case the revoke_and_ack arrives before the next update_fee;
  * new HTLCs are covered by the sender's balance net of its pending outbound HTLCs that still count
    against it (`liveSum`: all but the FAILED removals already signed away — those are in no commitment
    and never subtract from `value_to_self`); mirrors send_htlc → get_available_balances. -/
def liveOut (st : OutState) : Bool :=
  !(st == .awaitingRemoteRevokeToRemove false || st == .awaitingRemovedRemoteRevoke false)

def liveSum (n : Node) : Nat := ((n.outb.filter (fun h => liveOut h.st)).map (·.amt)).sum

/-- the head of a queue is an update_fee -/
def headIsFee : List Msg → Bool
  | .fee _ :: _ => true
  | _ => false

/-- the node's previous inbound fee update is still AwaitingRemoteRevokeToAnnounce -/
def Node.feeToAnnounce (n : Node) : Bool :=
  match n.pendingFee with
  | some (_, .awaitingRemoteRevokeToAnnounce) => true
  | _ => false

def evOk (s : Sys) : Ev → Bool
  | .sendRaa true => decide (s.pendA = []) || decide (s.a.raaSent < s.needRaaA)
  | .sendRaa false => decide (s.pendB = []) || decide (s.b.raaSent < s.needRaaB)
  | .commit true adds fu fa => decide ((fu ++ fa).Nodup) && decide (adds.sum + liveSum s.a ≤ s.a.valueToSelf)
  | .commit false adds fu fa => decide ((fu ++ fa).Nodup) && decide (adds.sum + liveSum s.b ≤ s.b.valueToSelf)
  | .recv true => !(headIsFee s.qba && s.a.feeToAnnounce)
  | .recv false => !(headIsFee s.qab && s.b.feeToAnnounce)
  | _ => true

def stepG (s : Sys) (e : Ev) : Option Sys := if evOk s e then step s e else none

def runG (s : Sys) : List Ev → Option Sys
  | [] => some s
  | e :: es => match stepG s e with
    | none => none
    | some s' => runG s' es

theorem stepG_some {s s' : Sys} {e : Ev} (h : stepG s e = some s') : evOk s e = true ∧ step s e = some s' := by
  unfold stepG at h
  split at h
  · rename_i hk; exact ⟨hk, h⟩
  · contradiction

/-- a guarded run is a run -/
theorem run_of_runG : ∀ (evs : List Ev) (s s' : Sys), runG s evs = some s' → run s evs = some s' := by
  intro evs
  induction evs with
  | nil => intro s s' h; exact h
  | cons e es ih =>
    intro s s' h
    simp only [runG] at h
    cases hs : stepG s e with
    | none => simp [hs] at h
    | some s1 =>
      rw [hs] at h
      simp only [run, (stepG_some hs).2]
      exact ih s1 s' h

/-- invariants of the guarded system hold after every guarded run -/
theorem runG_induction (P : Sys → Prop) (hstep : ∀ s s' e, P s → stepG s e = some s' → P s') :
    ∀ (evs : List Ev) (s s' : Sys), P s → runG s evs = some s' → P s' := by
  intro evs
  induction evs with
  | nil => intro s s' hp h; simp only [runG] at h; injection h with h; subst h; exact hp
  | cons e es ih =>
    intro s s' hp h
    simp only [runG] at h
    cases hs : stepG s e with
    | none => simp [hs] at h
    | some s1 =>
      rw [hs] at h
      exact ih s1 s' (hstep s s1 e hp hs) h

/-! ### symmetry -/

def Sys.swap (s : Sys) : Sys :=
  { a := s.b, b := s.a, qab := s.qba, qba := s.qab, pendA := s.pendB, pendB := s.pendA,
    needRaaA := s.needRaaB, needRaaB := s.needRaaA, total := s.total, agreed := s.agreed, feeAgreed := s.feeAgreed }

def Ev.swap : Ev → Ev
  | .commit x adds fu fa => .commit (!x) adds fu fa
  | .release x => .release (!x)
  | .sendRaa x => .sendRaa (!x)
  | .recv y => .recv (!y)
  | .disconnect => .disconnect
  | .reest y => .reest (!y)
  | .fee x f => .fee (!x) f

@[simp] theorem Sys.swap_swap (s : Sys) : s.swap.swap = s := by cases s; rfl
@[simp] theorem Ev.swap_swap (e : Ev) : e.swap.swap = e := by cases e <;> simp [Ev.swap]

theorem step_swap (s : Sys) (e : Ev) : step s.swap e.swap = (step s e).map Sys.swap := by
  cases e with
  | commit x adds fu fa =>
    cases x
    · simp only [Ev.swap, step, Sys.swap, Bool.not_false]
      by_cases hp : s.b.paused = true
      · simp [hp]
      simp only [hp, if_false]
      by_cases h : s.pendB = []
      · cases s.b.commit adds fu fa <;> simp [h, Sys.swap]
      · simp [h]
    · simp only [Ev.swap, step, Sys.swap, Bool.not_true]
      by_cases hp : s.a.paused = true
      · simp [hp]
      simp only [hp, if_false]
      by_cases h : s.pendA = []
      · cases s.a.commit adds fu fa <;> simp [h, Sys.swap]
      · simp [h]
  | release x =>
    cases x
    · simp only [Ev.swap, step, Sys.swap, Bool.not_false]
      by_cases hp : s.b.paused = true
      · simp [hp]
      simp only [hp, if_false]
      by_cases h1 : s.pendB = [] <;> by_cases h2 : s.b.raaSent < s.needRaaB <;> simp [h1, h2, Sys.swap]
    · simp only [Ev.swap, step, Sys.swap, Bool.not_true]
      by_cases hp : s.a.paused = true
      · simp [hp]
      simp only [hp, if_false]
      by_cases h1 : s.pendA = [] <;> by_cases h2 : s.a.raaSent < s.needRaaA <;> simp [h1, h2, Sys.swap]
  | sendRaa x =>
    cases x
    · simp only [Ev.swap, step, Sys.swap, Bool.not_false]
      by_cases hp : s.b.paused = true
      · simp [hp]
      simp only [hp, if_false]
      by_cases h : s.b.owesRaa = 0 <;> simp [h, Sys.swap]
    · simp only [Ev.swap, step, Sys.swap, Bool.not_true]
      by_cases hp : s.a.paused = true
      · simp [hp]
      simp only [hp, if_false]
      by_cases h : s.a.owesRaa = 0 <;> simp [h, Sys.swap]
  | recv y =>
    cases y
    · simp only [Ev.swap, step, Sys.swap, Bool.not_false]
      by_cases hp : s.b.paused = true
      · simp [hp]
      simp only [hp, if_false]
      cases s.qab with
      | nil => simp
      | cons m rest => simp only []; cases s.b.onMsg s.total m <;> simp [Sys.swap]
    · simp only [Ev.swap, step, Sys.swap, Bool.not_true]
      by_cases hp : s.a.paused = true
      · simp [hp]
      simp only [hp, if_false]
      cases s.qba with
      | nil => simp
      | cons m rest => simp only []; cases s.a.onMsg s.total m <;> simp [Sys.swap]
  | disconnect => simp [Ev.swap, step, Sys.swap]
  | fee x f =>
    cases x
    · simp only [Ev.swap, step, Sys.swap, Bool.not_false]
      by_cases h1 : s.b.paused = true <;> by_cases h2 : s.b.isFunder = true <;> by_cases h3 : s.b.awaitingRaa = true <;>
        by_cases h4 : s.pendB = [] <;> by_cases h5 : s.b.pendingFee.isSome = true <;> simp [h1, h2, h3, h4, h5, Sys.swap]
    · simp only [Ev.swap, step, Sys.swap, Bool.not_true]
      by_cases h1 : s.a.paused = true <;> by_cases h2 : s.a.isFunder = true <;> by_cases h3 : s.a.awaitingRaa = true <;>
        by_cases h4 : s.pendA = [] <;> by_cases h5 : s.a.pendingFee.isSome = true <;> simp [h1, h2, h3, h4, h5, Sys.swap]
  | reest y =>
    cases y
    · simp only [Ev.swap, step, Sys.swap, Bool.not_false]
      cases s.b.reestablish s.a.csRecv s.a.raaRecv <;> simp [Sys.swap]
    · simp only [Ev.swap, step, Sys.swap, Bool.not_true]
      cases s.a.reestablish s.b.csRecv s.b.raaRecv <;> simp [Sys.swap]

theorem evOk_swap (s : Sys) (e : Ev) : evOk s.swap e.swap = evOk s e := by
  cases e with
  | commit x adds fu fa => cases x <;> rfl
  | release x => cases x <;> rfl
  | sendRaa x => cases x <;> rfl
  | recv y => cases y <;> rfl
  | disconnect => rfl
  | reest y => cases y <;> rfl
  | fee x f => cases x <;> rfl

theorem stepG_swap {s s' : Sys} {e : Ev} (h : stepG s e = some s') : stepG s.swap e.swap = some s'.swap := by
  obtain ⟨h1, h2⟩ := stepG_some h
  simp [stepG, evOk_swap, h1, step_swap, h2]

/-- a property of the a-side direction that every guarded step preserves (given it and its mirror
    image before the step) holds in both directions after every step -/
theorem both_directions (P : Sys → Prop)
    (hstep : ∀ s s' e, P s → P s.swap → stepG s e = some s' → P s') :
    ∀ s s' e, (P s ∧ P s.swap) → stepG s e = some s' → (P s' ∧ P s'.swap) := by
  intro s s' e ⟨h1, h2⟩ h
  exact ⟨hstep s s' e h1 h2 h, hstep s.swap s'.swap e.swap h2 (by simpa using h1) (stepG_swap h)⟩

/-! ### closed form of `addOut` -/

def mkOuts : Nat → List Nat → List OutHtlc
  | _, [] => []
  | k, a :: as => { id := k, amt := a, st := .localAnnounced } :: mkOuts (k + 1) as

def mkAdds : Nat → List Nat → List Msg
  | _, [] => []
  | k, a :: as => Msg.add k a :: mkAdds (k + 1) as

theorem addOut_fold (amts : List Nat) : ∀ (n : Node) (ms : List Msg),
    amts.foldl (fun (acc : Node × List Msg) amt =>
      let m : Node := acc.1
      (({ m with outb := m.outb ++ [{ id := m.nextOutId, amt := amt, st := .localAnnounced }], nextOutId := m.nextOutId + 1 } : Node),
       acc.2 ++ [Msg.add m.nextOutId amt])) (n, ms)
    = ({ n with outb := n.outb ++ mkOuts n.nextOutId amts, nextOutId := n.nextOutId + amts.length }, ms ++ mkAdds n.nextOutId amts) := by
  induction amts with
  | nil => intro n ms; simp [mkOuts, mkAdds]
  | cons a as ih =>
    intro n ms
    simp only [List.foldl_cons]
    rw [ih]
    simp [mkOuts, mkAdds, Nat.add_assoc, Nat.add_comm 1]

theorem addOut_eq (n : Node) (amts : List Nat) :
    n.addOut amts = ({ n with outb := n.outb ++ mkOuts n.nextOutId amts, nextOutId := n.nextOutId + amts.length }, mkAdds n.nextOutId amts) := by
  unfold Node.addOut
  rw [addOut_fold]; simp

/-! ### closed form of `Node.commit` -/

/-- the inbound list after marking the removals of a batch -/
def markRemoved (inb : List InHtlc) (fu fa : List Nat) : List InHtlc :=
  fa.foldl (fun l id => setIn l id (fun _ => .localRemoved false))
    (fu.foldl (fun l id => setIn l id (fun _ => .localRemoved true)) inb)

/-- the node right after `build_commitment_no_status_check`'s rewrites (before the flag/counter bump) -/
def Node.built (n : Node) (adds fu fa : List Nat) : Node :=
  { n.promoteFee with
    inb := (markRemoved n.inb fu fa).map (fun (h : InHtlc) => { h with st := h.st.onBuildCommitment }),
    outb := (n.outb ++ mkOuts n.nextOutId adds).map (fun (h : OutHtlc) => { h with st := h.st.onBuildCommitment }),
    nextOutId := n.nextOutId + adds.length }

def batchOf (n : Node) (adds fu fa : List Nat) : List Msg :=
  n.feeMsgs ++ mkAdds n.nextOutId adds ++ fu.map Msg.fulfill ++ fa.map Msg.fail ++ [Msg.cs ((n.built adds fu fa).buildView false true)]

/-- promoting a fee update touches nothing but `feerate` / `pendingFee` -/
theorem promoteFee_fields (n : Node) : n.promoteFee.valueToSelf = n.valueToSelf ∧ n.promoteFee.inb = n.inb ∧
    n.promoteFee.outb = n.outb ∧ n.promoteFee.awaitingRaa = n.awaitingRaa ∧ n.promoteFee.owesRaa = n.owesRaa ∧
    n.promoteFee.nextOutId = n.nextOutId ∧ n.promoteFee.nextInId = n.nextInId ∧ n.promoteFee.csSent = n.csSent ∧
    n.promoteFee.csRecv = n.csRecv ∧ n.promoteFee.raaSent = n.raaSent ∧ n.promoteFee.raaRecv = n.raaRecv ∧
    n.promoteFee.paused = n.paused ∧ n.promoteFee.isFunder = n.isFunder := by
  exact ⟨rfl, rfl, rfl, rfl, rfl, rfl, rfl, rfl, rfl, rfl, rfl, rfl, rfl⟩

theorem promoteFee_feeMsgs (n : Node) : n.promoteFee.feeMsgs = n.feeMsgs := by
  unfold Node.feeMsgs
  show (match n.promoted.2 with | some (f, .outbound) => [Msg.fee f] | _ => []) = _
  unfold Node.promoted
  cases hp : n.pendingFee with
  | none => simp
  | some p => obtain ⟨f, st⟩ := p; cases st <;> simp

/-- the fields of `built` that come from the node unchanged -/
theorem built_fields (n : Node) (adds fu fa : List Nat) : (n.built adds fu fa).valueToSelf = n.valueToSelf ∧
    (n.built adds fu fa).awaitingRaa = n.awaitingRaa ∧ (n.built adds fu fa).owesRaa = n.owesRaa ∧
    (n.built adds fu fa).nextInId = n.nextInId ∧ (n.built adds fu fa).csSent = n.csSent ∧
    (n.built adds fu fa).csRecv = n.csRecv ∧ (n.built adds fu fa).raaSent = n.raaSent ∧
    (n.built adds fu fa).raaRecv = n.raaRecv ∧ (n.built adds fu fa).paused = n.paused ∧
    (n.built adds fu fa).isFunder = n.isFunder := by
  obtain ⟨h1, _, _, h4, h5, _, h7, h8, h9, h10, h11, h12, h13⟩ := promoteFee_fields n
  exact ⟨h1, h4, h5, h7, h8, h9, h10, h11, h12, h13⟩

theorem commit_some {n n' : Node} {adds fu fa : List Nat} {ms : List Msg} (h : n.commit adds fu fa = some (n', ms)) :
    n.awaitingRaa = false ∧
    (∀ id ∈ fu ++ fa, ∃ h ∈ n.inb, h.id = id ∧ h.st = .committed) ∧
    n' = { n.built adds fu fa with awaitingRaa := true, csSent := n.csSent + 1 } ∧
    ms = batchOf n adds fu fa := by
  unfold Node.commit at h
  split at h
  · contradiction
  · rename_i haw
    split at h
    · contradiction
    · rename_i hall
      simp only [] at h
      rw [addOut_eq] at h
      simp only [Option.some.injEq, Prod.mk.injEq] at h
      obtain ⟨_, p2, p3, _, _, p6, _, _, _, _, _, _, _⟩ := promoteFee_fields n
      rw [p2, p3, p6] at h
      refine ⟨by simpa using haw, ?_, ?_, ?_⟩
      · intro id hid
        have hall' : (fu ++ fa).all (fun id => n.inb.any (fun h => decide (h.id = id) && h.st == .committed)) = true := by
          simpa using hall
        have := List.all_eq_true.1 hall' id hid
        simpa using this
      · rw [← h.1, (promoteFee_fields n).2.2.2.2.2.2.2.1]; rfl
      · rw [← h.2, promoteFee_feeMsgs]; rfl

/-! ### closed form of `Node.onMsg` -/

def Node.afterCs (n : Node) : Node :=
  { n with inb := n.inb.map (fun (h : InHtlc) => { h with st := h.st.onCommitmentSigned }),
           outb := n.outb.map (fun (h : OutHtlc) => { h with st := h.st.onCommitmentSigned }),
           owesRaa := n.owesRaa + 1, csRecv := n.csRecv + 1,
           pendingFee := match n.pendingFee with
             | some (f, .remoteAnnounced) => some (f, .awaitingRemoteRevokeToAnnounce)
             | pf => pf }

theorem onMsg_fee {n n' : Node} {total f : Nat} {ok : Bool} (h : n.onMsg total (.fee f) = some (n', ok)) :
    n.isFunder = false ∧ ok = true ∧ n' = { n with pendingFee := some (f, .remoteAnnounced) } := by
  simp only [Node.onMsg] at h
  split at h
  · contradiction
  · rename_i hf
    simp only [Option.some.injEq, Prod.mk.injEq] at h
    exact ⟨by simpa using hf, h.2.symm, h.1.symm⟩

theorem onMsg_add {n n' : Node} {total id amt : Nat} {ok : Bool} (h : n.onMsg total (.add id amt) = some (n', ok)) :
    id = n.nextInId ∧ ok = true ∧
    n' = { n with inb := n.inb ++ [{ id := id, amt := amt, st := .remoteAnnounced }], nextInId := id + 1 } := by
  simp only [Node.onMsg] at h
  split at h
  · rename_i hid
    simp only [Option.some.injEq, Prod.mk.injEq] at h
    exact ⟨hid, h.2.symm, h.1.symm⟩
  · contradiction

theorem onMsg_fulfill {n n' : Node} {total id : Nat} {ok : Bool} (h : n.onMsg total (.fulfill id) = some (n', ok)) :
    (∃ x ∈ n.outb, x.id = id ∧ x.st = .committed) ∧ ok = true ∧
    n' = { n with outb := setOut n.outb id (fun _ => .remoteRemoved true) } := by
  simp only [Node.onMsg] at h
  split at h
  · rename_i hany
    simp only [Option.some.injEq, Prod.mk.injEq] at h
    exact ⟨by simpa using hany, h.2.symm, h.1.symm⟩
  · contradiction

theorem onMsg_fail {n n' : Node} {total id : Nat} {ok : Bool} (h : n.onMsg total (.fail id) = some (n', ok)) :
    (∃ x ∈ n.outb, x.id = id ∧ x.st = .committed) ∧ ok = true ∧
    n' = { n with outb := setOut n.outb id (fun _ => .remoteRemoved false) } := by
  simp only [Node.onMsg] at h
  split at h
  · rename_i hany
    simp only [Option.some.injEq, Prod.mk.injEq] at h
    exact ⟨by simpa using hany, h.2.symm, h.1.symm⟩
  · contradiction

theorem onMsg_cs {n n' : Node} {total : Nat} {c : Commit} {ok : Bool} (h : n.onMsg total (.cs c) = some (n', ok)) :
    n' = n.afterCs ∧ ok = viewsAgree total c (n.buildView true false) := by
  simp only [Node.onMsg, Option.some.injEq, Prod.mk.injEq] at h
  exact ⟨h.1.symm, h.2.symm⟩

theorem onMsg_raa {n n' : Node} {total : Nat} {ok : Bool} (h : n.onMsg total .raa = some (n', ok)) :
    n.onRaa = some n' ∧ ok = true := by
  simp only [Node.onMsg] at h
  cases hr : n.onRaa with
  | none => simp [hr] at h
  | some n1 =>
    simp only [hr, Option.map_some, Option.some.injEq, Prod.mk.injEq] at h
    exact ⟨by rw [h.1], h.2.symm⟩

/-! ### the full a→b stream -/

/-- on the wire, then the revoke_and_acks that must precede the held batch, the held batch, and the
    revoke_and_acks owed after it -/
def full (q pend : List Msg) (need sent owes : Nat) : List Msg :=
  q ++ List.replicate (if pend = [] then 0 else need - sent) Msg.raa ++ pend
    ++ List.replicate (owes - (if pend = [] then 0 else need - sent)) Msg.raa

/-- The full a→b stream.  While `a` is paused (disconnected, `channel_reestablish` not yet processed) it is what
    `a` WILL retransmit: the revoke_and_acks `b` has not seen and, if `b` has not processed `a`'s latest
    commitment_signed, the regenerated batch — in `resend_order`.  `reest` does not change it. -/
def Sys.fullAB (s : Sys) : List Msg :=
  if s.a.paused then full [] (s.a.retrans s.b.csRecv) s.needRaaA s.b.raaRecv (s.a.csRecv - s.b.raaRecv)
  else full s.qab s.pendA s.needRaaA s.a.raaSent s.a.owesRaa
def Sys.fullBA (s : Sys) : List Msg :=
  if s.b.paused then full [] (s.b.retrans s.a.csRecv) s.needRaaB s.a.raaRecv (s.b.csRecv - s.a.raaRecv)
  else full s.qba s.pendB s.needRaaB s.b.raaSent s.b.owesRaa

theorem Sys.fullAB_unpaused {s : Sys} (h : s.a.paused = false) :
    s.fullAB = full s.qab s.pendA s.needRaaA s.a.raaSent s.a.owesRaa := by simp [Sys.fullAB, h]
theorem Sys.fullBA_unpaused {s : Sys} (h : s.b.paused = false) :
    s.fullBA = full s.qba s.pendB s.needRaaB s.b.raaSent s.b.owesRaa := by simp [Sys.fullBA, h]
theorem Sys.fullAB_paused {s : Sys} (h : s.a.paused = true) :
    s.fullAB = full [] (s.a.retrans s.b.csRecv) s.needRaaA s.b.raaRecv (s.a.csRecv - s.b.raaRecv) := by simp [Sys.fullAB, h]
theorem Sys.fullBA_paused {s : Sys} (h : s.b.paused = true) :
    s.fullBA = full [] (s.b.retrans s.a.csRecv) s.needRaaB s.a.raaRecv (s.b.csRecv - s.a.raaRecv) := by simp [Sys.fullBA, h]

@[simp] theorem Sys.fullAB_swap (s : Sys) : s.swap.fullAB = s.fullBA := rfl
@[simp] theorem Sys.fullBA_swap (s : Sys) : s.swap.fullBA = s.fullAB := rfl

theorem full_nil_pend (q : List Msg) (need sent owes : Nat) :
    full q [] need sent owes = q ++ List.replicate owes Msg.raa := by
  simp [full]

/-- building a batch appends it (with the owed revoke_and_acks in front of it) -/
theorem full_commit (q batch : List Msg) (hb : batch ≠ []) (sent owes : Nat) :
    full q batch (sent + owes) sent owes = full q [] 0 sent owes ++ batch := by
  simp [full, hb]

/-- releasing the held batch (allowed once `need ≤ sent`) does not change the stream -/
theorem full_release (q pend : List Msg) (need sent owes : Nat) (h : ¬ sent < need) :
    full (q ++ pend) [] need sent owes = full q pend need sent owes := by
  have : need - sent = 0 := by omega
  simp [full, this]

/-- sending an owed revoke_and_ack does not change the stream — under the `sendRaa` guard -/
theorem full_sendRaa (q pend : List Msg) (need sent owes : Nat) (ho : owes ≠ 0)
    (hg : pend = [] ∨ sent < need) (hn : pend ≠ [] → need ≤ sent + owes) :
    full (q ++ [Msg.raa]) pend need (sent + 1) (owes - 1) = full q pend need sent owes := by
  by_cases hp : pend = []
  · subst hp
    simp only [full, if_true, List.replicate_zero, List.append_nil, Nat.sub_zero, List.append_assoc]
    congr 1
    have : owes = (owes - 1) + 1 := by omega
    conv => rhs; rw [this, List.replicate_succ]
    rfl
  · have h1 : sent < need := by rcases hg with h | h; exact absurd h hp; exact h
    have h2 := hn hp
    simp only [full, if_neg hp, List.append_assoc]
    obtain ⟨k, hk⟩ : ∃ k, need - sent = k + 1 := ⟨need - sent - 1, by omega⟩
    have e1 : need - (sent + 1) = k := by omega
    have e2 : owes - 1 - k = owes - (k + 1) := by omega
    rw [hk, e1, e2, List.replicate_succ]
    simp

/-- receiving a commitment_signed adds one owed revoke_and_ack at the end -/
theorem full_owe (q pend : List Msg) (need sent owes : Nat) (hn : pend ≠ [] → need ≤ sent + owes) :
    full q pend need sent (owes + 1) = full q pend need sent owes ++ [Msg.raa] := by
  by_cases hp : pend = []
  · subst hp
    simp [full, List.replicate_succ']
  · have h2 := hn hp
    simp only [full, if_neg hp, List.append_assoc]
    have : owes + 1 - (need - sent) = (owes - (need - sent)) + 1 := by omega
    rw [this, List.replicate_succ']

theorem full_pop (m : Msg) (q pend : List Msg) (need sent owes : Nat) :
    full (m :: q) pend need sent owes = m :: full q pend need sent owes := by
  simp [full]

/-! ### what an enabled `step` does, event by event -/

theorem step_commit_true {s s' : Sys} {adds fu fa : List Nat} (h : step s (.commit true adds fu fa) = some s') :
    s.a.paused = false ∧ s.pendA = [] ∧ ∃ n ms, s.a.commit adds fu fa = some (n, ms) ∧
      s' = { s with a := n, pendA := ms, needRaaA := s.a.raaSent + s.a.owesRaa } := by
  simp only [step] at h
  split at h
  · contradiction
  · rename_i hpa
    split at h
    · contradiction
    · rename_i hp
      cases hc : s.a.commit adds fu fa with
      | none => simp [hc] at h
      | some r =>
        obtain ⟨n, ms⟩ := r
        simp only [hc, Option.map_some, Option.some.injEq] at h
        exact ⟨by simpa using hpa, by simpa using hp, n, ms, rfl, h.symm⟩

theorem step_commit_false {s s' : Sys} {adds fu fa : List Nat} (h : step s (.commit false adds fu fa) = some s') :
    s.b.paused = false ∧ s.pendB = [] ∧ ∃ n ms, s.b.commit adds fu fa = some (n, ms) ∧
      s' = { s with b := n, pendB := ms, needRaaB := s.b.raaSent + s.b.owesRaa } := by
  simp only [step] at h
  split at h
  · contradiction
  · rename_i hpa
    split at h
    · contradiction
    · rename_i hp
      cases hc : s.b.commit adds fu fa with
      | none => simp [hc] at h
      | some r =>
        obtain ⟨n, ms⟩ := r
        simp only [hc, Option.map_some, Option.some.injEq] at h
        exact ⟨by simpa using hpa, by simpa using hp, n, ms, rfl, h.symm⟩

theorem step_release_true {s s' : Sys} (h : step s (.release true) = some s') :
    s.a.paused = false ∧ s.pendA ≠ [] ∧ ¬ s.a.raaSent < s.needRaaA ∧ s' = { s with qab := s.qab ++ s.pendA, pendA := [] } := by
  simp only [step] at h
  split at h
  · contradiction
  · rename_i hpa
    split at h
    · contradiction
    · rename_i hc
      simp only [Bool.or_eq_true, decide_eq_true_eq, not_or] at hc
      injection h with h
      exact ⟨by simpa using hpa, hc.1, hc.2, h.symm⟩

theorem step_release_false {s s' : Sys} (h : step s (.release false) = some s') :
    s.b.paused = false ∧ s.pendB ≠ [] ∧ ¬ s.b.raaSent < s.needRaaB ∧ s' = { s with qba := s.qba ++ s.pendB, pendB := [] } := by
  simp only [step] at h
  split at h
  · contradiction
  · rename_i hpa
    split at h
    · contradiction
    · rename_i hc
      simp only [Bool.or_eq_true, decide_eq_true_eq, not_or] at hc
      injection h with h
      exact ⟨by simpa using hpa, hc.1, hc.2, h.symm⟩

theorem step_sendRaa_true {s s' : Sys} (h : step s (.sendRaa true) = some s') :
    s.a.paused = false ∧ s.a.owesRaa ≠ 0 ∧
    s' = { s with a := { s.a with owesRaa := s.a.owesRaa - 1, raaSent := s.a.raaSent + 1 }, qab := s.qab ++ [Msg.raa] } := by
  simp only [step] at h
  split at h
  · contradiction
  · rename_i hpa
    split at h
    · contradiction
    · rename_i hc
      injection h with h
      exact ⟨by simpa using hpa, hc, h.symm⟩

theorem step_sendRaa_false {s s' : Sys} (h : step s (.sendRaa false) = some s') :
    s.b.paused = false ∧ s.b.owesRaa ≠ 0 ∧
    s' = { s with b := { s.b with owesRaa := s.b.owesRaa - 1, raaSent := s.b.raaSent + 1 }, qba := s.qba ++ [Msg.raa] } := by
  simp only [step] at h
  split at h
  · contradiction
  · rename_i hpa
    split at h
    · contradiction
    · rename_i hc
      injection h with h
      exact ⟨by simpa using hpa, hc, h.symm⟩

theorem step_recv_true {s s' : Sys} (h : step s (.recv true) = some s') :
    s.a.paused = false ∧ ∃ m rest n ok, s.qba = m :: rest ∧ s.a.onMsg s.total m = some (n, ok) ∧
      s' = { s with a := n, qba := rest, agreed := s.agreed && ok, feeAgreed := s.feeAgreed && s.a.feeOk m } := by
  simp only [step] at h
  split at h
  · contradiction
  · rename_i hpa
    split at h
    · contradiction
    · rename_i m rest hq
      cases hc : s.a.onMsg s.total m with
      | none => simp [hc] at h
      | some r =>
        obtain ⟨n, ok⟩ := r
        simp only [hc, Option.map_some, Option.some.injEq] at h
        exact ⟨by simpa using hpa, m, rest, n, ok, hq, hc, h.symm⟩

theorem step_recv_false {s s' : Sys} (h : step s (.recv false) = some s') :
    s.b.paused = false ∧ ∃ m rest n ok, s.qab = m :: rest ∧ s.b.onMsg s.total m = some (n, ok) ∧
      s' = { s with b := n, qab := rest, agreed := s.agreed && ok, feeAgreed := s.feeAgreed && s.b.feeOk m } := by
  simp only [step] at h
  split at h
  · contradiction
  · rename_i hpa
    split at h
    · contradiction
    · rename_i m rest hq
      cases hc : s.b.onMsg s.total m with
      | none => simp [hc] at h
      | some r =>
        obtain ⟨n, ok⟩ := r
        simp only [hc, Option.map_some, Option.some.injEq] at h
        exact ⟨by simpa using hpa, m, rest, n, ok, hq, hc, h.symm⟩

theorem step_disconnect {s s' : Sys} (h : step s .disconnect = some s') :
    s' = { s with a := s.a.pause, b := s.b.pause, qab := [], qba := [] } := by
  simp only [step] at h
  injection h with h; exact h.symm

theorem reestablish_some {n n' : Node} {pc pr : Nat} {p : List Msg} (h : n.reestablish pc pr = some (n', p)) :
    n.paused = true ∧ pr ≤ n.csRecv ∧ n.csRecv ≤ pr + 1 ∧ pc ≤ n.csSent ∧ n.csSent ≤ pc + 1 ∧
    n' = { n with paused := false, raaSent := pr, owesRaa := n.csRecv - pr } ∧
    p = n.retrans pc := by
  unfold Node.reestablish at h
  split at h
  · contradiction
  · rename_i hpa
    split at h
    · contradiction
    · rename_i hc
      have hc : pr ≤ n.csRecv ∧ n.csRecv ≤ pr + 1 ∧ pc ≤ n.csSent ∧ n.csSent ≤ pc + 1 := by
        simpa [and_assoc] using hc
      simp only [Option.some.injEq, Prod.mk.injEq] at h
      exact ⟨by simpa using hpa, hc.1, hc.2.1, hc.2.2.1, hc.2.2.2, h.1.symm, h.2.symm⟩

theorem step_reest_true {s s' : Sys} (h : step s (.reest true) = some s') :
    ∃ n p, s.a.reestablish s.b.csRecv s.b.raaRecv = some (n, p) ∧ s' = { s with a := n, pendA := p } := by
  simp only [step] at h
  cases hc : s.a.reestablish s.b.csRecv s.b.raaRecv with
  | none => simp [hc] at h
  | some r =>
    obtain ⟨n, p⟩ := r
    simp only [hc, Option.map_some, Option.some.injEq] at h
    exact ⟨n, p, rfl, h.symm⟩

theorem step_reest_false {s s' : Sys} (h : step s (.reest false) = some s') :
    ∃ n p, s.b.reestablish s.a.csRecv s.a.raaRecv = some (n, p) ∧ s' = { s with b := n, pendB := p } := by
  simp only [step] at h
  cases hc : s.b.reestablish s.a.csRecv s.a.raaRecv with
  | none => simp [hc] at h
  | some r =>
    obtain ⟨n, p⟩ := r
    simp only [hc, Option.map_some, Option.some.injEq] at h
    exact ⟨n, p, rfl, h.symm⟩

theorem step_fee_true {s s' : Sys} {f : Nat} (h : step s (.fee true f) = some s') :
    s.a.paused = false ∧ s.a.isFunder = true ∧ s.a.awaitingRaa = false ∧ s.pendA = [] ∧ s.a.pendingFee = none ∧
    s' = { s with a := { s.a with pendingFee := some (f, .outbound) } } := by
  simp only [step] at h
  split at h
  · contradiction
  · rename_i hc
    injection h with h
    simp only [Bool.or_eq_true, Bool.not_eq_true', decide_eq_true_eq, not_or, Bool.not_eq_true, Option.isSome_eq_false_iff,
      Option.isNone_iff_eq_none, ne_eq, Decidable.not_not, Bool.not_eq_false] at hc
    exact ⟨hc.1.1.1.1, hc.1.1.1.2, hc.1.1.2, hc.1.2, hc.2, h.symm⟩

theorem step_fee_false {s s' : Sys} {f : Nat} (h : step s (.fee false f) = some s') :
    s.b.paused = false ∧ s.b.isFunder = true ∧ s.b.awaitingRaa = false ∧ s.pendB = [] ∧ s.b.pendingFee = none ∧
    s' = { s with b := { s.b with pendingFee := some (f, .outbound) } } := by
  simp only [step] at h
  split at h
  · contradiction
  · rename_i hc
    injection h with h
    simp only [Bool.or_eq_true, Bool.not_eq_true', decide_eq_true_eq, not_or, Bool.not_eq_true, Option.isSome_eq_false_iff,
      Option.isNone_iff_eq_none, ne_eq, Decidable.not_not, Bool.not_eq_false] at hc
    exact ⟨hc.1.1.1.1, hc.1.1.1.2, hc.1.1.2, hc.1.2, hc.2, h.symm⟩

/-- counters a message can touch -/
theorem onMsg_sent_owes {n n' : Node} {total : Nat} {m : Msg} {ok : Bool} (h : n.onMsg total m = some (n', ok)) :
    n'.raaSent = n.raaSent ∧ n'.owesRaa = n.owesRaa + (match m with | .cs _ => 1 | _ => 0) := by
  cases m with
  | add id amt => obtain ⟨_, _, e⟩ := onMsg_add h; subst e; exact ⟨rfl, rfl⟩
  | fulfill id => obtain ⟨_, _, e⟩ := onMsg_fulfill h; subst e; exact ⟨rfl, rfl⟩
  | fail id => obtain ⟨_, _, e⟩ := onMsg_fail h; subst e; exact ⟨rfl, rfl⟩
  | cs c => obtain ⟨e, _⟩ := onMsg_cs h; subst e; exact ⟨rfl, rfl⟩
  | fee f => obtain ⟨_, _, e⟩ := onMsg_fee h; subst e; exact ⟨rfl, rfl⟩
  | raa =>
    obtain ⟨e, _⟩ := onMsg_raa h
    unfold Node.onRaa at e
    split at e
    · contradiction
    · injection e with e; subst e; exact ⟨rfl, rfl⟩

/-! ### counting control messages -/

def countCs (l : List Msg) : Nat := l.countP (fun m => match m with | .cs _ => true | _ => false)
def countRaa (l : List Msg) : Nat := l.countP (fun m => match m with | .raa => true | _ => false)

theorem countCs_append (l1 l2 : List Msg) : countCs (l1 ++ l2) = countCs l1 + countCs l2 := by
  simp [countCs, List.countP_append]
theorem countRaa_append (l1 l2 : List Msg) : countRaa (l1 ++ l2) = countRaa l1 + countRaa l2 := by
  simp [countRaa, List.countP_append]

theorem countCs_mkAdds (amts : List Nat) : ∀ k, countCs (mkAdds k amts) = 0 := by
  induction amts with
  | nil => intro k; rfl
  | cons a as ih => intro k; simp only [mkAdds, countCs, List.countP_cons]; have := ih (k + 1); simp only [countCs] at this; simp [this]
theorem countRaa_mkAdds (amts : List Nat) : ∀ k, countRaa (mkAdds k amts) = 0 := by
  induction amts with
  | nil => intro k; rfl
  | cons a as ih => intro k; simp only [mkAdds, countRaa, List.countP_cons]; have := ih (k + 1); simp only [countRaa] at this; simp [this]

theorem count_feeMsgs (n : Node) : countCs n.feeMsgs = 0 ∧ countRaa n.feeMsgs = 0 := by
  unfold Node.feeMsgs
  cases n.pendingFee with
  | none => exact ⟨rfl, rfl⟩
  | some p => obtain ⟨f, st⟩ := p; cases st <;> exact ⟨rfl, rfl⟩

theorem count_batch (n : Node) (adds fu fa : List Nat) :
    countCs (batchOf n adds fu fa) = 1 ∧ countRaa (batchOf n adds fu fa) = 0 := by
  unfold batchOf
  refine ⟨?_, ?_⟩
  · rw [countCs_append, countCs_append, countCs_append, countCs_append, countCs_mkAdds, (count_feeMsgs n).1]
    simp [countCs, List.countP_eq_zero]
  · rw [countRaa_append, countRaa_append, countRaa_append, countRaa_append, countRaa_mkAdds, (count_feeMsgs n).2]
    simp [countRaa, List.countP_eq_zero]


theorem countCs_replicate_raa (k : Nat) : countCs (List.replicate k Msg.raa) = 0 := by
  simp [countCs, List.countP_eq_zero]
theorem countRaa_replicate_raa (k : Nat) : countRaa (List.replicate k Msg.raa) = k := by
  induction k with
  | zero => rfl
  | succ k ih =>
    rw [List.replicate_succ]
    have : countRaa (Msg.raa :: List.replicate k Msg.raa) = countRaa (List.replicate k Msg.raa) + 1 := by
      simp [countRaa, List.countP_cons]
    rw [this, ih]

theorem countCs_full (q pend : List Msg) (need sent owes : Nat) :
    countCs (full q pend need sent owes) = countCs q + countCs pend := by
  unfold full
  rw [countCs_append, countCs_append, countCs_append, countCs_replicate_raa, countCs_replicate_raa]; omega

theorem countRaa_full (q pend : List Msg) (need sent owes : Nat) (hn : pend ≠ [] → need ≤ sent + owes) :
    countRaa (full q pend need sent owes) = countRaa q + countRaa pend + owes := by
  unfold full
  rw [countRaa_append, countRaa_append, countRaa_append, countRaa_replicate_raa, countRaa_replicate_raa]
  by_cases hp : pend = []
  · simp [hp]
  · have := hn hp
    simp only [if_neg hp]; omega

/-- the regenerated batch: one commitment_signed, no revoke_and_ack -/
theorem count_lastBatch (n : Node) : countCs n.lastBatch = 1 ∧ countRaa n.lastBatch = 0 := by
  unfold Node.lastBatch
  refine ⟨?_, ?_⟩
  · rw [countCs_append, countCs_append, countCs_append, countCs_append, (count_feeMsgs n).1]
    simp [countCs, List.countP_eq_zero]
  · rw [countRaa_append, countRaa_append, countRaa_append, countRaa_append, (count_feeMsgs n).2]
    simp [countRaa, List.countP_eq_zero]

theorem lastBatch_ne_nil (n : Node) : n.lastBatch ≠ [] := by unfold Node.lastBatch; simp

/-- per-message effect on the counters of the receiving node -/
theorem onMsg_counters {n n' : Node} {total : Nat} {m : Msg} {ok : Bool} (h : n.onMsg total m = some (n', ok)) :
    n'.csSent = n.csSent ∧ n'.raaSent = n.raaSent ∧
    (match m with
     | .cs _ => n'.csRecv = n.csRecv + 1 ∧ n'.owesRaa = n.owesRaa + 1 ∧ n'.raaRecv = n.raaRecv ∧ n'.awaitingRaa = n.awaitingRaa
     | .raa => n'.csRecv = n.csRecv ∧ n'.owesRaa = n.owesRaa ∧ n'.raaRecv = n.raaRecv + 1 ∧ n.awaitingRaa = true ∧ n'.awaitingRaa = false
     | _ => n'.csRecv = n.csRecv ∧ n'.owesRaa = n.owesRaa ∧ n'.raaRecv = n.raaRecv ∧ n'.awaitingRaa = n.awaitingRaa) := by
  cases m with
  | add id amt => obtain ⟨_, _, e⟩ := onMsg_add h; subst e; exact ⟨rfl, rfl, rfl, rfl, rfl, rfl⟩
  | fulfill id => obtain ⟨_, _, e⟩ := onMsg_fulfill h; subst e; exact ⟨rfl, rfl, rfl, rfl, rfl, rfl⟩
  | fail id => obtain ⟨_, _, e⟩ := onMsg_fail h; subst e; exact ⟨rfl, rfl, rfl, rfl, rfl, rfl⟩
  | cs c => obtain ⟨e, _⟩ := onMsg_cs h; subst e; exact ⟨rfl, rfl, rfl, rfl, rfl, rfl⟩
  | fee f => obtain ⟨_, _, e⟩ := onMsg_fee h; subst e; exact ⟨rfl, rfl, rfl, rfl, rfl, rfl⟩
  | raa =>
    obtain ⟨e, _⟩ := onMsg_raa h
    unfold Node.onRaa at e
    split at e
    · contradiction
    · rename_i haw
      injection e with e; subst e
      exact ⟨rfl, rfl, rfl, rfl, rfl, by simpa using haw, rfl⟩


theorem onMsg_paused {n n' : Node} {total : Nat} {m : Msg} {ok : Bool} (h : n.onMsg total m = some (n', ok)) :
    n'.paused = n.paused := by
  cases m with
  | add _ _ => obtain ⟨_, _, e⟩ := onMsg_add h; rw [e]
  | fulfill _ => obtain ⟨_, _, e⟩ := onMsg_fulfill h; rw [e]
  | fail _ => obtain ⟨_, _, e⟩ := onMsg_fail h; rw [e]
  | cs _ => obtain ⟨e, _⟩ := onMsg_cs h; rw [e]; rfl
  | fee _ => obtain ⟨_, _, e⟩ := onMsg_fee h; rw [e]
  | raa =>
    obtain ⟨e, _⟩ := onMsg_raa h
    unfold Node.onRaa at e
    split at e
    · contradiction
    · injection e with e; rw [← e]

/-- counters, balance and flags are untouched by a disconnection -/
theorem pause_fields' (n : Node) : n.pause.valueToSelf = n.valueToSelf ∧ n.pause.awaitingRaa = n.awaitingRaa ∧
    n.pause.owesRaa = n.owesRaa ∧ n.pause.nextOutId = n.nextOutId ∧ n.pause.csSent = n.csSent ∧
    n.pause.csRecv = n.csRecv ∧ n.pause.raaSent = n.raaSent ∧ n.pause.raaRecv = n.raaRecv := by
  unfold Node.pause
  split <;> exact ⟨rfl, rfl, rfl, rfl, rfl, rfl, rfl, rfl⟩

end Ldk.Chan
