/- List lemmas for the channel-protocol proofs: lookup by id in id-sorted lists, extensionality of
   sorted lists, and the flag-block decomposition of `sortH`. Core only. -/
import LdkModel.Model.Channel
namespace Ldk.Chan

section Lookup
variable {α : Type} (key : α → Nat)

/-- first element with the given key -/
def lookup (l : List α) (id : Nat) : Option α := l.find? (fun h => key h == id)

/-- strictly increasing keys -/
def Sorted (l : List α) : Prop := l.Pairwise (fun x y => key x < key y)

variable {key}

theorem lookup_nil (id : Nat) : lookup key ([] : List α) id = none := rfl

theorem lookup_cons (x : α) (l : List α) (id : Nat) :
    lookup key (x :: l) id = if key x = id then some x else lookup key l id := by
  simp only [lookup, List.find?_cons]
  by_cases h : key x = id
  · simp [h]
  · have : (key x == id) = false := by simpa using h
    simp [h, this]

theorem lookup_some {l : List α} {id : Nat} {h : α} (e : lookup key l id = some h) : h ∈ l ∧ key h = id := by
  have h1 := List.mem_of_find?_eq_some e
  have h2 := List.find?_some e
  exact ⟨h1, by simpa using h2⟩

theorem lookup_none {l : List α} {id : Nat} : lookup key l id = none ↔ ∀ h ∈ l, key h ≠ id := by
  simp [lookup]

theorem Sorted.tail {x : α} {l : List α} (hs : Sorted key (x :: l)) : Sorted key l :=
  (List.pairwise_cons.1 hs).2

theorem Sorted.head_lt {x : α} {l : List α} (hs : Sorted key (x :: l)) : ∀ y ∈ l, key x < key y :=
  (List.pairwise_cons.1 hs).1

theorem mem_lookup {l : List α} (hs : Sorted key l) {h : α} (hm : h ∈ l) : lookup key l (key h) = some h := by
  induction l with
  | nil => cases hm
  | cons x l ih =>
    rw [lookup_cons]
    rcases List.mem_cons.1 hm with e | hm'
    · subst e; simp
    · have := hs.head_lt h hm'
      rw [if_neg (by omega)]
      exact ih hs.tail hm'

theorem lookup_map (g : α → α) (hk : ∀ h, key (g h) = key h) (l : List α) (id : Nat) :
    lookup key (l.map g) id = (lookup key l id).map g := by
  induction l with
  | nil => rfl
  | cons x l ih =>
    simp only [List.map_cons, lookup_cons, hk]
    split <;> simp [ih]

theorem lookup_filter (p : α → Bool) {l : List α} (hs : Sorted key l) (id : Nat) :
    lookup key (l.filter p) id = (lookup key l id).filter p := by
  induction l with
  | nil => rfl
  | cons x l ih =>
    rw [lookup_cons]
    by_cases hx : key x = id
    · rw [if_pos hx]
      have hno : lookup key (l.filter p) id = none := by
        rw [lookup_none]
        intro h hm
        have := hs.head_lt h (List.mem_filter.1 hm).1
        omega
      by_cases hp : p x = true
      · simp [hp, lookup_cons, hx, Option.filter]
      · simp [hp, hno, Option.filter]
    · rw [if_neg hx, ← ih hs.tail]
      by_cases hp : p x = true
      · simp [hp, lookup_cons, hx]
      · simp [hp]

theorem lookup_append (l1 l2 : List α) (id : Nat) :
    lookup key (l1 ++ l2) id = (lookup key l1 id).or (lookup key l2 id) := by
  induction l1 with
  | nil => simp [lookup_nil]
  | cons x l ih =>
    simp only [List.cons_append, lookup_cons]
    split <;> simp [ih]

theorem Sorted.map (g : α → α) (hk : ∀ h, key (g h) = key h) {l : List α} (hs : Sorted key l) : Sorted key (l.map g) := by
  unfold Sorted at *
  rw [List.pairwise_map]
  simpa [hk] using hs

theorem Sorted.filter (p : α → Bool) {l : List α} (hs : Sorted key l) : Sorted key (l.filter p) :=
  List.Pairwise.filter p hs

theorem Sorted.snoc {l : List α} (hs : Sorted key l) (x : α) (hx : ∀ h ∈ l, key h < key x) : Sorted key (l ++ [x]) := by
  unfold Sorted at *
  rw [List.pairwise_append]
  exact ⟨hs, by simp, by intro a ha b hb; simp at hb; subst hb; exact hx a ha⟩

end Lookup

/-- two lists with strictly increasing keys and the same elements are equal -/
theorem sorted_ext {γ : Type} (κ : γ → Nat) : ∀ (L1 L2 : List γ), Sorted κ L1 → Sorted κ L2 →
    (∀ x, x ∈ L1 ↔ x ∈ L2) → L1 = L2 := by
  intro L1
  induction L1 with
  | nil =>
    intro L2 _ _ hm
    cases L2 with
    | nil => rfl
    | cons y _ => exact absurd ((hm y).2 (by simp)) (by simp)
  | cons x l1 ih =>
    intro L2 h1 h2 hm
    cases L2 with
    | nil => exact absurd ((hm x).1 (by simp)) (by simp)
    | cons y l2 =>
      have hxy : x = y := by
        have hx := (hm x).1 (by simp)
        have hy := (hm y).2 (by simp)
        rcases List.mem_cons.1 hx with e | hx'
        · exact e
        · rcases List.mem_cons.1 hy with e | hy'
          · exact e.symm
          · have a := h2.head_lt x hx'
            have b := h1.head_lt y hy'
            omega
      subst hxy
      congr 1
      apply ih l2 h1.tail h2.tail
      intro z
      constructor
      · intro hz
        have := (hm z).1 (List.mem_cons_of_mem _ hz)
        rcases List.mem_cons.1 this with e | h'
        · subst e; have := h1.head_lt z hz; omega
        · exact h'
      · intro hz
        have := (hm z).2 (List.mem_cons_of_mem _ hz)
        rcases List.mem_cons.1 this with e | h'
        · subst e; have := h2.head_lt z hz; omega
        · exact h'

/-! ### `sortH` splits into its false-flag block followed by its true-flag block -/

abbrev H := Bool × Nat × Nat

theorem mem_insertH (x y : H) (l : List H) : y ∈ insertH x l ↔ y = x ∨ y ∈ l := by
  induction l with
  | nil => simp [insertH]
  | cons z l ih =>
    simp only [insertH]
    split
    · simp
    · simp only [List.mem_cons, ih]
      constructor
      · rintro (h | h | h) <;> simp [h]
      · rintro (h | h | h) <;> simp [h]

theorem mem_sortH (y : H) (l : List H) : y ∈ sortH l ↔ y ∈ l := by
  induction l with
  | nil => simp [sortH]
  | cons x l ih =>
    have : sortH (x :: l) = insertH x (sortH l) := rfl
    rw [this, mem_insertH, ih]; simp

theorem insertH_false (x : H) (hx : x.1 = false) : ∀ (A B : List H), (∀ y ∈ A, y.1 = false) → (∀ y ∈ B, y.1 = true) →
    insertH x (A ++ B) = insertH x A ++ B := by
  intro A
  induction A with
  | nil =>
    intro B _ hB
    cases B with
    | nil => rfl
    | cons y ys =>
      have := hB y (by simp)
      simp [insertH, hx, this]
  | cons y A ih =>
    intro B hA hB
    simp only [List.cons_append, insertH]
    split
    · rfl
    · rw [ih B (fun z hz => hA z (List.mem_cons_of_mem _ hz)) hB]; rfl

theorem insertH_true (x : H) (hx : x.1 = true) : ∀ (A B : List H), (∀ y ∈ A, y.1 = false) →
    insertH x (A ++ B) = A ++ insertH x B := by
  intro A
  induction A with
  | nil => intro B _; rfl
  | cons y A ih =>
    intro B hA
    have hy := hA y (by simp)
    have ih' := ih B (fun z hz => hA z (List.mem_cons_of_mem _ hz))
    simp [insertH, hx, hy, ih']

theorem sortH_split (l : List H) :
    sortH l = sortH (l.filter (fun x => !x.1)) ++ sortH (l.filter (fun x => x.1)) := by
  induction l with
  | nil => rfl
  | cons x l ih =>
    have e : sortH (x :: l) = insertH x (sortH l) := rfl
    have hA : ∀ y ∈ sortH (l.filter (fun x => !x.1)), y.1 = false := by
      intro y hy
      have := (mem_sortH y _).1 hy
      simpa using (List.mem_filter.1 this).2
    have hB : ∀ y ∈ sortH (l.filter (fun x => x.1)), y.1 = true := by
      intro y hy
      have := (mem_sortH y _).1 hy
      simpa using (List.mem_filter.1 this).2
    rw [e, ih]
    cases hx : x.1 with
    | false =>
      rw [insertH_false x hx _ _ hA hB]
      simp only [List.filter_cons, hx, Bool.not_false, if_true, Bool.false_eq_true, if_false]
      rfl
    | true =>
      rw [insertH_true x hx _ _ hA]
      simp only [List.filter_cons, hx, Bool.not_true, Bool.false_eq_true, if_false, if_true]
      rfl

/-- the shape of `viewsAgree`'s HTLC comparison: true-block ++ false-block against false-block ++ true-block -/
theorem sortH_blocks (T F : List H) (hT : ∀ y ∈ T, y.1 = true) (hF : ∀ y ∈ F, y.1 = false) :
    sortH (T ++ F) = sortH (F ++ T) := by
  have f1 : ∀ l : List H, (∀ y ∈ l, y.1 = true) → l.filter (fun x => x.1) = l ∧ l.filter (fun x => !x.1) = [] := by
    intro l hl
    exact ⟨List.filter_eq_self.2 (by simpa using hl), List.filter_eq_nil_iff.2 (by intro a ha; simp [hl a ha])⟩
  have f2 : ∀ l : List H, (∀ y ∈ l, y.1 = false) → l.filter (fun x => !x.1) = l ∧ l.filter (fun x => x.1) = [] := by
    intro l hl
    exact ⟨List.filter_eq_self.2 (by intro a ha; simp [hl a ha]), List.filter_eq_nil_iff.2 (by intro a ha; simp [hl a ha])⟩
  rw [sortH_split (T ++ F), sortH_split (F ++ T)]
  simp only [List.filter_append, (f1 T hT).1, (f1 T hT).2, (f2 F hF).1, (f2 F hF).2, List.append_nil, List.nil_append]

end Ldk.Chan
