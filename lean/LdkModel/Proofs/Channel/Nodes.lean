/- Per-id effect of every node operation of Model/Channel.lean on the per-HTLC state lookups
   `stIn` / `stOut`, and preservation of the id discipline (`NodeOK`: lists strictly sorted by id,
   ids below the next-id counters). Core only. -/
import LdkModel.Proofs.Channel.Lists
import LdkModel.Proofs.Channel.Abs
import LdkModel.Proofs.Channel.Guarded
namespace Ldk.Chan

abbrev lookIn (l : List InHtlc) (id : Nat) : Option InHtlc := lookup (fun h : InHtlc => h.id) l id
abbrev lookOut (l : List OutHtlc) (id : Nat) : Option OutHtlc := lookup (fun h : OutHtlc => h.id) l id
def stIn (l : List InHtlc) (id : Nat) : Option InState := (lookIn l id).map (·.st)
def stOut (l : List OutHtlc) (id : Nat) : Option OutState := (lookOut l id).map (·.st)
abbrev SortedIn (l : List InHtlc) : Prop := Sorted (fun h : InHtlc => h.id) l
abbrev SortedOut (l : List OutHtlc) : Prop := Sorted (fun h : OutHtlc => h.id) l

structure NodeOK (n : Node) : Prop where
  sIn : SortedIn n.inb
  sOut : SortedOut n.outb
  bIn : ∀ h ∈ n.inb, h.id < n.nextInId
  bOut : ∀ h ∈ n.outb, h.id < n.nextOutId

theorem NodeOK.init (v : Nat) (fd : Bool) (f0 : Nat) : NodeOK (Node.init v fd f0) :=
  ⟨List.Pairwise.nil, List.Pairwise.nil, (by intro h hm; cases hm), (by intro h hm; cases hm)⟩

/-! ### generic shapes -/

theorem stIn_map (g : InHtlc → InHtlc) (f : InState → InState) (hg : ∀ h, g h = { h with st := f h.st })
    (l : List InHtlc) (id : Nat) : stIn (l.map g) id = (stIn l id).map f := by
  unfold stIn lookIn
  rw [lookup_map g (by intro h; rw [hg])]
  cases lookup (fun h : InHtlc => h.id) l id <;> simp [hg]

theorem stOut_map (g : OutHtlc → OutHtlc) (f : OutState → OutState) (hg : ∀ h, g h = { h with st := f h.st })
    (l : List OutHtlc) (id : Nat) : stOut (l.map g) id = (stOut l id).map f := by
  unfold stOut lookOut
  rw [lookup_map g (by intro h; rw [hg])]
  cases lookup (fun h : OutHtlc => h.id) l id <;> simp [hg]

theorem stIn_filter_map {l : List InHtlc} (hs : SortedIn l) (p : InHtlc → Bool) (g : InHtlc → InHtlc)
    (r : InState → Option InState) (hid : ∀ h, (g h).id = h.id)
    (hr : ∀ h, (if p h then some (g h).st else none) = r h.st) (id : Nat) :
    stIn ((l.filter p).map g) id = (stIn l id).bind r := by
  unfold stIn lookIn
  rw [lookup_map g hid, lookup_filter p hs]
  cases lookup (fun h : InHtlc => h.id) l id with
  | none => rfl
  | some h =>
    have := hr h
    by_cases hp : p h = true <;> simp [Option.filter, hp] at this ⊢ <;> exact this

theorem stOut_filter_map {l : List OutHtlc} (hs : SortedOut l) (p : OutHtlc → Bool) (g : OutHtlc → OutHtlc)
    (r : OutState → Option OutState) (hid : ∀ h, (g h).id = h.id)
    (hr : ∀ h, (if p h then some (g h).st else none) = r h.st) (id : Nat) :
    stOut ((l.filter p).map g) id = (stOut l id).bind r := by
  unfold stOut lookOut
  rw [lookup_map g hid, lookup_filter p hs]
  cases lookup (fun h : OutHtlc => h.id) l id with
  | none => rfl
  | some h =>
    have := hr h
    by_cases hp : p h = true <;> simp [Option.filter, hp] at this ⊢ <;> exact this

theorem stIn_none_of_bound {l : List InHtlc} {b id : Nat} (hb : ∀ h ∈ l, h.id < b) (hid : b ≤ id) : stIn l id = none := by
  unfold stIn lookIn
  rw [lookup_none.2 (by intro h hm; have := hb h hm; omega)]; rfl

theorem stOut_none_of_bound {l : List OutHtlc} {b id : Nat} (hb : ∀ h ∈ l, h.id < b) (hid : b ≤ id) : stOut l id = none := by
  unfold stOut lookOut
  rw [lookup_none.2 (by intro h hm; have := hb h hm; omega)]; rfl

theorem stIn_of_mem {l : List InHtlc} (hs : SortedIn l) {h : InHtlc} (hm : h ∈ l) : stIn l h.id = some h.st := by
  unfold stIn lookIn
  rw [mem_lookup hs hm]; rfl

theorem stOut_of_mem {l : List OutHtlc} (hs : SortedOut l) {h : OutHtlc} (hm : h ∈ l) : stOut l h.id = some h.st := by
  unfold stOut lookOut
  rw [mem_lookup hs hm]; rfl

theorem mem_of_stIn {l : List InHtlc} {id : Nat} {st : InState} (e : stIn l id = some st) : ∃ h ∈ l, h.id = id ∧ h.st = st := by
  unfold stIn lookIn at e
  cases hl : lookup (fun h : InHtlc => h.id) l id with
  | none => rw [hl] at e; cases e
  | some h =>
    rw [hl] at e
    injection e with e
    exact ⟨h, (lookup_some hl).1, (lookup_some hl).2, e⟩

theorem mem_of_stOut {l : List OutHtlc} {id : Nat} {st : OutState} (e : stOut l id = some st) : ∃ h ∈ l, h.id = id ∧ h.st = st := by
  unfold stOut lookOut at e
  cases hl : lookup (fun h : OutHtlc => h.id) l id with
  | none => rw [hl] at e; cases e
  | some h =>
    rw [hl] at e
    injection e with e
    exact ⟨h, (lookup_some hl).1, (lookup_some hl).2, e⟩

/-! ### setIn / setOut / markRemoved -/

theorem setIn_eq_map (l : List InHtlc) (id' : Nat) (f : InState → InState) :
    setIn l id' f = l.map (fun h => if h.id = id' then { h with st := f h.st } else h) := rfl

theorem stIn_setIn (l : List InHtlc) (id' : Nat) (f : InState → InState) (id : Nat) :
    stIn (setIn l id' f) id = if id = id' then (stIn l id).map f else stIn l id := by
  unfold stIn lookIn
  rw [setIn_eq_map, lookup_map _ (by intro h; by_cases e : h.id = id' <;> simp [e])]
  cases hl : lookup (fun h : InHtlc => h.id) l id with
  | none => simp
  | some h =>
    have : h.id = id := (lookup_some hl).2
    by_cases e : id = id'
    · subst e; simp [this]
    · have : ¬ h.id = id' := by omega
      simp [this, e]

theorem stOut_setOut (l : List OutHtlc) (id' : Nat) (f : OutState → OutState) (id : Nat) :
    stOut (setOut l id' f) id = if id = id' then (stOut l id).map f else stOut l id := by
  unfold stOut lookOut
  have hmap : setOut l id' f = l.map (fun h => if h.id = id' then { h with st := f h.st } else h) := rfl
  rw [hmap, lookup_map _ (by intro h; by_cases e : h.id = id' <;> simp [e])]
  cases hl : lookup (fun h : OutHtlc => h.id) l id with
  | none => simp
  | some h =>
    have : h.id = id := (lookup_some hl).2
    by_cases e : id = id'
    · subst e; simp [this]
    · have : ¬ h.id = id' := by omega
      simp [this, e]

theorem stIn_foldl_setIn (st : InState) (ids : List Nat) : ∀ (l : List InHtlc) (id : Nat),
    stIn (ids.foldl (fun l id => setIn l id (fun _ => st)) l) id
      = if id ∈ ids then (stIn l id).map (fun _ => st) else stIn l id := by
  induction ids with
  | nil => intro l id; simp
  | cons x xs ih =>
    intro l id
    simp only [List.foldl_cons, ih, stIn_setIn, List.mem_cons]
    by_cases h1 : id = x
    · subst h1
      by_cases h2 : id ∈ xs <;> simp [h2]
      cases stIn l id <;> rfl
    · by_cases h2 : id ∈ xs <;> simp [h1, h2]

theorem stIn_markRemoved (inb : List InHtlc) (fu fa : List Nat) (id : Nat) :
    stIn (markRemoved inb fu fa) id =
      if id ∈ fa then (stIn inb id).map (fun _ => .localRemoved false)
      else if id ∈ fu then (stIn inb id).map (fun _ => .localRemoved true) else stIn inb id := by
  unfold markRemoved
  rw [stIn_foldl_setIn, stIn_foldl_setIn]
  by_cases h1 : id ∈ fa <;> by_cases h2 : id ∈ fu <;> simp [h1, h2]
  cases stIn inb id <;> rfl

/-! ### sortedness / bounds are preserved by id-preserving maps -/

theorem sortedIn_map (g : InHtlc → InHtlc) (hid : ∀ h, (g h).id = h.id) {l : List InHtlc} (hs : SortedIn l) : SortedIn (l.map g) :=
  Sorted.map g hid hs
theorem sortedOut_map (g : OutHtlc → OutHtlc) (hid : ∀ h, (g h).id = h.id) {l : List OutHtlc} (hs : SortedOut l) : SortedOut (l.map g) :=
  Sorted.map g hid hs

theorem boundIn_map (g : InHtlc → InHtlc) (hid : ∀ h, (g h).id = h.id) {l : List InHtlc} {b : Nat}
    (hb : ∀ h ∈ l, h.id < b) : ∀ h ∈ l.map g, h.id < b := by
  intro h hm
  obtain ⟨x, hx, e⟩ := List.mem_map.1 hm
  rw [← e, hid]; exact hb x hx
theorem boundOut_map (g : OutHtlc → OutHtlc) (hid : ∀ h, (g h).id = h.id) {l : List OutHtlc} {b : Nat}
    (hb : ∀ h ∈ l, h.id < b) : ∀ h ∈ l.map g, h.id < b := by
  intro h hm
  obtain ⟨x, hx, e⟩ := List.mem_map.1 hm
  rw [← e, hid]; exact hb x hx

theorem setIn_id (id' : Nat) (f : InState → InState) (h : InHtlc) :
    (if h.id = id' then ({ h with st := f h.st } : InHtlc) else h).id = h.id := by
  by_cases e : h.id = id' <;> simp [e]
theorem setOut_id (id' : Nat) (f : OutState → OutState) (h : OutHtlc) :
    (if h.id = id' then ({ h with st := f h.st } : OutHtlc) else h).id = h.id := by
  by_cases e : h.id = id' <;> simp [e]

theorem sortedIn_mapSt (f : InState → InState) {l : List InHtlc} (hs : SortedIn l) :
    SortedIn (l.map (fun (h : InHtlc) => { h with st := f h.st })) := sortedIn_map (fun (h : InHtlc) => { h with st := f h.st }) (fun _ => rfl) hs
theorem sortedOut_mapSt (f : OutState → OutState) {l : List OutHtlc} (hs : SortedOut l) :
    SortedOut (l.map (fun (h : OutHtlc) => { h with st := f h.st })) := sortedOut_map (fun (h : OutHtlc) => { h with st := f h.st }) (fun _ => rfl) hs
theorem boundIn_mapSt (f : InState → InState) {l : List InHtlc} {b : Nat} (hb : ∀ h ∈ l, h.id < b) :
    ∀ h ∈ l.map (fun (h : InHtlc) => { h with st := f h.st }), h.id < b := boundIn_map (fun (h : InHtlc) => { h with st := f h.st }) (fun _ => rfl) hb
theorem boundOut_mapSt (f : OutState → OutState) {l : List OutHtlc} {b : Nat} (hb : ∀ h ∈ l, h.id < b) :
    ∀ h ∈ l.map (fun (h : OutHtlc) => { h with st := f h.st }), h.id < b := boundOut_map (fun (h : OutHtlc) => { h with st := f h.st }) (fun _ => rfl) hb
theorem sortedIn_setIn (id' : Nat) (f : InState → InState) {l : List InHtlc} (hs : SortedIn l) : SortedIn (setIn l id' f) :=
  sortedIn_map (fun h => if h.id = id' then { h with st := f h.st } else h) (setIn_id id' f) hs
theorem sortedOut_setOut (id' : Nat) (f : OutState → OutState) {l : List OutHtlc} (hs : SortedOut l) : SortedOut (setOut l id' f) :=
  sortedOut_map (fun h => if h.id = id' then { h with st := f h.st } else h) (setOut_id id' f) hs
theorem boundIn_setIn (id' : Nat) (f : InState → InState) {l : List InHtlc} {b : Nat} (hb : ∀ h ∈ l, h.id < b) :
    ∀ h ∈ setIn l id' f, h.id < b :=
  boundIn_map (fun h => if h.id = id' then { h with st := f h.st } else h) (setIn_id id' f) hb
theorem boundOut_setOut (id' : Nat) (f : OutState → OutState) {l : List OutHtlc} {b : Nat} (hb : ∀ h ∈ l, h.id < b) :
    ∀ h ∈ setOut l id' f, h.id < b :=
  boundOut_map (fun h => if h.id = id' then { h with st := f h.st } else h) (setOut_id id' f) hb

theorem sortedIn_foldl_setIn (st : InState) (ids : List Nat) : ∀ (l : List InHtlc), SortedIn l →
    SortedIn (ids.foldl (fun l id => setIn l id (fun _ => st)) l) := by
  induction ids with
  | nil => intro l h; exact h
  | cons x xs ih => intro l h; exact ih _ (sortedIn_setIn x _ h)

theorem boundIn_foldl_setIn (st : InState) (b : Nat) (ids : List Nat) : ∀ (l : List InHtlc), (∀ h ∈ l, h.id < b) →
    ∀ h ∈ ids.foldl (fun l id => setIn l id (fun _ => st)) l, h.id < b := by
  induction ids with
  | nil => intro l h; exact h
  | cons x xs ih => intro l h; exact ih _ (boundIn_setIn x _ h)

/-! ### new outbound HTLCs -/

theorem mkOuts_lower (amts : List Nat) : ∀ k, ∀ h ∈ mkOuts k amts, k ≤ h.id ∧ h.id < k + amts.length := by
  induction amts with
  | nil => intro k h hm; cases hm
  | cons a as ih =>
    intro k h hm
    simp only [mkOuts, List.mem_cons] at hm
    rcases hm with e | hm
    · subst e; simp
    · have := ih (k + 1) h hm
      simp only [List.length_cons]; omega

theorem mkOuts_sorted (amts : List Nat) : ∀ k, SortedOut (mkOuts k amts) := by
  induction amts with
  | nil => intro k; exact List.Pairwise.nil
  | cons a as ih =>
    intro k
    refine List.pairwise_cons.2 ⟨?_, ih (k + 1)⟩
    intro h hm
    have := mkOuts_lower as (k + 1) h hm
    simp only; omega

theorem stOut_mkOuts (amts : List Nat) : ∀ k id,
    stOut (mkOuts k amts) id = if k ≤ id ∧ id < k + amts.length then some .localAnnounced else none := by
  induction amts with
  | nil => intro k id; simp [mkOuts, stOut, lookup_nil]
  | cons a as ih =>
    intro k id
    have := ih (k + 1) id
    unfold stOut lookOut at this ⊢
    simp only [mkOuts, lookup_cons, List.length_cons]
    by_cases e : k = id
    · subst e; simp
    · rw [if_neg e, this]
      by_cases h1 : k + 1 ≤ id ∧ id < k + 1 + as.length
      · rw [if_pos h1, if_pos (by omega)]
      · rw [if_neg h1, if_neg (by omega)]

theorem sortedOut_append {l1 l2 : List OutHtlc} (h1 : SortedOut l1) (h2 : SortedOut l2)
    (h : ∀ x ∈ l1, ∀ y ∈ l2, x.id < y.id) : SortedOut (l1 ++ l2) :=
  List.pairwise_append.2 ⟨h1, h2, h⟩

theorem stOut_append (l1 l2 : List OutHtlc) (id : Nat) : stOut (l1 ++ l2) id = (stOut l1 id).or (stOut l2 id) := by
  unfold stOut lookOut
  rw [lookup_append]
  cases lookup (fun h : OutHtlc => h.id) l1 id <;> simp

theorem stIn_append (l1 l2 : List InHtlc) (id : Nat) : stIn (l1 ++ l2) id = (stIn l1 id).or (stIn l2 id) := by
  unfold stIn lookIn
  rw [lookup_append]
  cases lookup (fun h : InHtlc => h.id) l1 id <;> simp

/-! ### revoke_and_ack -/

def raaKeepIn (h : InHtlc) : Bool := match h.st with | .localRemoved _ => false | _ => true
def raaMapIn (h : InHtlc) : InHtlc :=
  match h.st with
  | .awaitingRemoteRevokeToAnnounce => { h with st := .awaitingAnnouncedRemoteRevoke }
  | .awaitingAnnouncedRemoteRevoke => { h with st := .committed }
  | _ => h
def raaKeepOut (h : OutHtlc) : Bool := match h.st with | .awaitingRemovedRemoteRevoke _ => false | _ => true
def raaMapOut (h : OutHtlc) : OutHtlc :=
  match h.st with
  | .localAnnounced => { h with st := .committed }
  | .awaitingRemoteRevokeToRemove ok => { h with st := .awaitingRemovedRemoteRevoke ok }
  | _ => h

theorem raaMapIn_id (h : InHtlc) : (raaMapIn h).id = h.id := by
  unfold raaMapIn; split <;> rfl
theorem raaMapOut_id (h : OutHtlc) : (raaMapOut h).id = h.id := by
  unfold raaMapOut; split <;> rfl
theorem raaMapIn_amt (h : InHtlc) : (raaMapIn h).amt = h.amt := by
  unfold raaMapIn; split <;> rfl
theorem raaMapOut_amt (h : OutHtlc) : (raaMapOut h).amt = h.amt := by
  unfold raaMapOut; split <;> rfl

theorem raaIn_spec (h : InHtlc) : (if raaKeepIn h then some (raaMapIn h).st else none) = raaIn h.st := by
  obtain ⟨id, amt, st⟩ := h
  cases st <;> rfl
theorem raaOut_spec (h : OutHtlc) : (if raaKeepOut h then some (raaMapOut h).st else none) = raaOut h.st := by
  obtain ⟨id, amt, st⟩ := h
  cases st <;> rfl

def raaGained (n : Node) : Nat := ((n.inb.filter (fun h => h.st == .localRemoved true)).map (·.amt)).sum
def raaLost (n : Node) : Nat := ((n.outb.filter (fun h => h.st == .awaitingRemovedRemoteRevoke true)).map (·.amt)).sum

/-- what a revoke_and_ack does to the fee state: Outbound / AwaitingRemoteRevokeToAnnounce become the committed feerate -/
def raaFee (n : Node) : Nat × Option (Nat × FeeState) :=
  match n.pendingFee with
  | some (f, .outbound) => (f, none)
  | some (f, .awaitingRemoteRevokeToAnnounce) => (f, none)
  | pf => (n.feerate, pf)

theorem onRaa_some {n n' : Node} (h : n.onRaa = some n') :
    n.awaitingRaa = true ∧
    n' = { n with inb := (n.inb.filter raaKeepIn).map raaMapIn, outb := (n.outb.filter raaKeepOut).map raaMapOut,
                  awaitingRaa := false, raaRecv := n.raaRecv + 1,
                  valueToSelf := n.valueToSelf + raaGained n - raaLost n,
                  feerate := (raaFee n).1, pendingFee := (raaFee n).2 } := by
  unfold Node.onRaa at h
  split at h
  · contradiction
  · rename_i haw
    injection h with h
    refine ⟨by simpa using haw, ?_⟩
    rw [← h]
    unfold raaFee
    cases n.pendingFee with
    | none => rfl
    | some p => obtain ⟨f, st⟩ := p; cases st <;> rfl

theorem stIn_onRaa {l : List InHtlc} (hs : SortedIn l) (id : Nat) :
    stIn ((l.filter raaKeepIn).map raaMapIn) id = (stIn l id).bind raaIn :=
  stIn_filter_map hs raaKeepIn raaMapIn raaIn raaMapIn_id raaIn_spec id

theorem stOut_onRaa {l : List OutHtlc} (hs : SortedOut l) (id : Nat) :
    stOut ((l.filter raaKeepOut).map raaMapOut) id = (stOut l id).bind raaOut :=
  stOut_filter_map hs raaKeepOut raaMapOut raaOut raaMapOut_id raaOut_spec id

/-! ### `NodeOK` is preserved by every node operation -/

theorem NodeOK.onRaa {n n' : Node} (ok : NodeOK n) (h : n.onRaa = some n') : NodeOK n' := by
  obtain ⟨_, e⟩ := onRaa_some h
  subst e
  refine ⟨sortedIn_map _ raaMapIn_id (Sorted.filter _ ok.sIn), sortedOut_map _ raaMapOut_id (Sorted.filter _ ok.sOut), ?_, ?_⟩
  · exact boundIn_map _ raaMapIn_id (fun h hm => ok.bIn h (List.mem_filter.1 hm).1)
  · exact boundOut_map _ raaMapOut_id (fun h hm => ok.bOut h (List.mem_filter.1 hm).1)

theorem NodeOK.afterCs {n : Node} (ok : NodeOK n) : NodeOK n.afterCs :=
  ⟨sortedIn_mapSt _ ok.sIn, sortedOut_mapSt _ ok.sOut, boundIn_mapSt _ ok.bIn, boundOut_mapSt _ ok.bOut⟩

theorem NodeOK.onMsg {n n' : Node} {total : Nat} {m : Msg} {okb : Bool} (ok : NodeOK n)
    (h : n.onMsg total m = some (n', okb)) : NodeOK n' := by
  cases m with
  | add id amt =>
    obtain ⟨hid, _, e⟩ := onMsg_add h
    subst e
    refine ⟨Sorted.snoc ok.sIn _ (by intro x hx; have := ok.bIn x hx; simp only; omega), ok.sOut, ?_, ok.bOut⟩
    intro x hx
    rcases List.mem_append.1 hx with hx | hx
    · have := ok.bIn x hx; simp only; omega
    · simp at hx; subst hx; simp
  | fulfill id =>
    obtain ⟨_, _, e⟩ := onMsg_fulfill h
    subst e
    exact ⟨ok.sIn, sortedOut_setOut id (fun _ => _) ok.sOut, ok.bIn, fun h hm => boundOut_setOut id (fun _ => _) ok.bOut h hm⟩
  | fail id =>
    obtain ⟨_, _, e⟩ := onMsg_fail h
    subst e
    exact ⟨ok.sIn, sortedOut_setOut id (fun _ => _) ok.sOut, ok.bIn, fun h hm => boundOut_setOut id (fun _ => _) ok.bOut h hm⟩
  | cs c =>
    obtain ⟨e, _⟩ := onMsg_cs h
    subst e
    exact ok.afterCs
  | fee f => obtain ⟨_, _, e⟩ := onMsg_fee h; subst e; exact ⟨ok.sIn, ok.sOut, ok.bIn, ok.bOut⟩
  | raa =>
    obtain ⟨e, _⟩ := onMsg_raa h
    exact ok.onRaa e

theorem NodeOK.built {n : Node} (ok : NodeOK n) (adds fu fa : List Nat) : NodeOK (n.built adds fu fa) := by
  refine ⟨?_, ?_, ?_, ?_⟩
  · exact sortedIn_mapSt _ (sortedIn_foldl_setIn _ _ _ (sortedIn_foldl_setIn _ _ _ ok.sIn))
  · refine sortedOut_mapSt _ (sortedOut_append ok.sOut (mkOuts_sorted _ _) ?_)
    intro x hx y hy
    have := ok.bOut x hx
    have := mkOuts_lower adds _ y hy
    omega
  · rw [(built_fields n adds fu fa).2.2.2.1]
    exact boundIn_mapSt _ (boundIn_foldl_setIn _ _ _ _ (boundIn_foldl_setIn _ _ _ _ ok.bIn))
  · refine boundOut_mapSt _ ?_
    intro h hm
    show h.id < n.nextOutId + adds.length
    rcases List.mem_append.1 hm with hm | hm
    · have := ok.bOut h hm; omega
    · exact (mkOuts_lower adds _ h hm).2

theorem sorted_unique' {α : Type} {key : α → Nat} {l : List α} (hs : Sorted key l) {x y : α} (hx : x ∈ l) (hy : y ∈ l)
    (e : key x = key y) : x = y := by
  have h1 := mem_lookup hs hx
  have h2 := mem_lookup hs hy
  rw [e, h2] at h1
  injection h1 with h1; exact h1.symm

/-! ### disconnection: `Node.pause` -/

def unRR (h : OutHtlc) : OutHtlc := match h.st with | .remoteRemoved _ => { h with st := .committed } | _ => h
def unRRst : OutState → OutState
  | .remoteRemoved _ => .committed
  | st => st
def notRA (h : InHtlc) : Bool := h.st != .remoteAnnounced

theorem unRR_id (h : OutHtlc) : (unRR h).id = h.id := by unfold unRR; split <;> rfl
theorem unRR_amt (h : OutHtlc) : (unRR h).amt = h.amt := by unfold unRR; split <;> rfl
theorem unRR_st (h : OutHtlc) : (unRR h).st = unRRst h.st := by
  obtain ⟨id, amt, st⟩ := h; cases st <;> rfl

/-- number of inbound HTLCs still RemoteAnnounced -/
def raCount (l : List InHtlc) : Nat := l.countP (fun h => h.st == .remoteAnnounced)

/-- a fee update announced by the peer whose commitment_signed has not arrived is forgotten on disconnection -/
def pauseFee : Option (Nat × FeeState) → Option (Nat × FeeState)
  | some (_, .remoteAnnounced) => none
  | pf => pf

theorem pause_unpaused {n : Node} (h : n.paused = false) :
    n.pause = { n with inb := n.inb.filter notRA, nextInId := n.nextInId - raCount n.inb,
                       outb := n.outb.map unRR, pendingFee := pauseFee n.pendingFee, paused := true } := by
  unfold Node.pause
  rw [h]
  simp only [Bool.false_eq_true, if_false, raCount, List.countP_eq_length_filter]
  rfl

theorem pause_paused {n : Node} (h : n.paused = true) : n.pause = n := by
  unfold Node.pause; rw [h]; rfl

theorem pause_paused_flag (n : Node) : n.pause.paused = true := by
  cases h : n.paused
  · rw [pause_unpaused h]
  · rw [pause_paused h]; exact h

/-- counters, balance and flags are untouched by a disconnection -/
theorem pause_fields (n : Node) : n.pause.valueToSelf = n.valueToSelf ∧ n.pause.awaitingRaa = n.awaitingRaa ∧
    n.pause.owesRaa = n.owesRaa ∧ n.pause.nextOutId = n.nextOutId ∧ n.pause.csSent = n.csSent ∧
    n.pause.csRecv = n.csRecv ∧ n.pause.raaSent = n.raaSent ∧ n.pause.raaRecv = n.raaRecv := by
  cases h : n.paused
  · rw [pause_unpaused h]; exact ⟨rfl, rfl, rfl, rfl, rfl, rfl, rfl, rfl⟩
  · rw [pause_paused h]; exact ⟨rfl, rfl, rfl, rfl, rfl, rfl, rfl, rfl⟩

/-- a paused node holds no RemoteAnnounced / RemoteRemoved HTLC -/
structure PausedOK (n : Node) : Prop where
  noRA : n.paused = true → ∀ h ∈ n.inb, h.st ≠ .remoteAnnounced
  noRR : n.paused = true → ∀ h ∈ n.outb, ∀ ok, h.st ≠ .remoteRemoved ok

/-- the RemoteAnnounced HTLCs are the most recent ones: every other id is below `nextInId - raCount` -/
def RaOK (n : Node) : Prop := ∀ h ∈ n.inb, h.st ≠ .remoteAnnounced → h.id + raCount n.inb < n.nextInId

theorem RaOK.init (v : Nat) (fd : Bool) (f0 : Nat) : RaOK (Node.init v fd f0) := by intro h hm; cases hm

theorem stOut_pause {n : Node} (ok : NodeOK n) (pk : PausedOK n) (id : Nat) :
    stOut n.pause.outb id = (stOut n.outb id).map unRRst := by
  cases h : n.paused
  · rw [pause_unpaused h]
    show stOut (n.outb.map unRR) id = _
    unfold stOut lookOut
    rw [lookup_map unRR unRR_id]
    cases lookup (fun h : OutHtlc => h.id) n.outb id <;> simp [unRR_st]
  · rw [pause_paused h]
    cases ho : stOut n.outb id with
    | none => rfl
    | some st =>
      obtain ⟨x, hx, _, e⟩ := mem_of_stOut ho
      have := pk.noRR h x hx
      rw [e] at this
      cases st <;> first | rfl | exact absurd rfl (this _)

theorem stIn_pause {n : Node} (ok : NodeOK n) (pk : PausedOK n) (id : Nat) :
    stIn n.pause.inb id = (stIn n.inb id).filter (fun st => st != .remoteAnnounced) := by
  cases h : n.paused
  · rw [pause_unpaused h]
    show stIn (n.inb.filter notRA) id = _
    unfold stIn lookIn
    rw [lookup_filter notRA ok.sIn]
    cases lookup (fun h : InHtlc => h.id) n.inb id with
    | none => rfl
    | some x => by_cases hx : notRA x = true <;> simp [Option.filter, hx, notRA] at * <;> simp [hx]
  · rw [pause_paused h]
    cases hi : stIn n.inb id with
    | none => rfl
    | some st =>
      obtain ⟨x, hx, _, e⟩ := mem_of_stIn hi
      have := pk.noRA h x hx
      rw [e] at this
      simp [Option.filter, this]

theorem raCount_filter_notRA (l : List InHtlc) : raCount (l.filter notRA) = 0 := by
  unfold raCount
  rw [List.countP_eq_zero]
  intro h hm
  have := (List.mem_filter.1 hm).2
  simpa [notRA] using this

theorem NodeOK.pause {n : Node} (ok : NodeOK n) (ra : RaOK n) : NodeOK n.pause := by
  cases h : n.paused
  · rw [pause_unpaused h]
    refine ⟨Sorted.filter _ ok.sIn, sortedOut_map _ unRR_id ok.sOut, ?_, boundOut_map _ unRR_id ok.bOut⟩
    intro x hx
    obtain ⟨hm, hp⟩ := List.mem_filter.1 hx
    have := ra x hm (by simpa [notRA] using hp)
    show x.id < n.nextInId - raCount n.inb
    omega
  · rw [pause_paused h]; exact ok

theorem RaOK.pause {n : Node} (ra : RaOK n) : RaOK n.pause := by
  cases h : n.paused
  · rw [pause_unpaused h]
    intro x hx hst
    obtain ⟨hm, _⟩ := List.mem_filter.1 hx
    have := ra x hm hst
    show x.id + raCount (n.inb.filter notRA) < n.nextInId - raCount n.inb
    rw [raCount_filter_notRA]; omega
  · rw [pause_paused h]; exact ra

theorem PausedOK.pause (n : Node) (pk : PausedOK n) : PausedOK n.pause := by
  cases h : n.paused
  · rw [pause_unpaused h]
    refine ⟨fun _ x hx => ?_, fun _ x hx ok => ?_⟩
    · have := (List.mem_filter.1 hx).2; simpa [notRA] using this
    · obtain ⟨y, _, e⟩ := List.mem_map.1 hx
      rw [← e, unRR_st]
      cases y.st <;> simp [unRRst]
  · rw [pause_paused h]; exact pk

/-! ### `RaOK` under the other node operations -/

theorem raCount_map (g : InHtlc → InHtlc) (l : List InHtlc)
    (hg : ∀ h ∈ l, ((g h).st == InState.remoteAnnounced) = (h.st == InState.remoteAnnounced)) :
    raCount (l.map g) = raCount l := by
  unfold raCount
  induction l with
  | nil => rfl
  | cons x l ih =>
    simp only [List.map_cons, List.countP_cons, hg x (by simp), ih (fun h hh => hg h (List.mem_cons_of_mem _ hh))]

theorem onCS_not_RA (st : InState) : (st.onCommitmentSigned == InState.remoteAnnounced) = false := by cases st <;> rfl
theorem onBuild_RA (st : InState) : (st.onBuildCommitment == InState.remoteAnnounced) = (st == InState.remoteAnnounced) := by
  cases st <;> rfl
theorem raaMapIn_RA (h : InHtlc) : ((raaMapIn h).st == InState.remoteAnnounced) = (h.st == InState.remoteAnnounced) := by
  obtain ⟨id, amt, st⟩ := h; cases st <;> rfl
theorem raaKeepIn_RA (h : InHtlc) (e : h.st = .remoteAnnounced) : raaKeepIn h = true := by
  unfold raaKeepIn; rw [e]

theorem foldl_setIn_eq_map (st : InState) (ids : List Nat) : ∀ (l : List InHtlc),
    ids.foldl (fun l id => setIn l id (fun _ => st)) l
      = l.map (fun h => if h.id ∈ ids then { h with st := st } else h) := by
  induction ids with
  | nil => intro l; simp
  | cons x xs ih =>
    intro l
    simp only [List.foldl_cons]
    rw [ih, setIn_eq_map, List.map_map]
    apply List.map_congr_left
    intro h _
    simp only [Function.comp, List.mem_cons]
    by_cases e : h.id = x <;> by_cases e2 : h.id ∈ xs <;> simp [e, e2]

theorem RaOK.afterCs {n : Node} (ok : NodeOK n) : RaOK n.afterCs := by
  intro h hh _
  have hz : raCount n.afterCs.inb = 0 := by
    unfold raCount
    rw [List.countP_eq_zero]
    intro x hx
    obtain ⟨y, _, e⟩ := List.mem_map.1 hx
    rw [← e]; simpa using onCS_not_RA y.st
  rw [hz]
  obtain ⟨y, hy, e⟩ := List.mem_map.1 hh
  have := ok.bIn y hy
  rw [← e]
  show y.id + 0 < n.nextInId
  omega

theorem RaOK.onMsg {n n' : Node} {total : Nat} {m : Msg} {okb : Bool} (ok : NodeOK n) (ra : RaOK n)
    (h : n.onMsg total m = some (n', okb)) : RaOK n' := by
  cases m with
  | add id amt =>
    obtain ⟨hid, _, e⟩ := onMsg_add h
    subst e
    intro x hx hst
    have hc : raCount (n.inb ++ [({ id := id, amt := amt, st := .remoteAnnounced } : InHtlc)]) = raCount n.inb + 1 := by
      simp [raCount, List.countP_append]
    rw [hc]
    rcases List.mem_append.1 hx with hx | hx
    · have := ra x hx hst; simp only; omega
    · simp at hx; subst hx; exact absurd rfl hst
  | fulfill id => obtain ⟨_, _, e⟩ := onMsg_fulfill h; subst e; exact ra
  | fail id => obtain ⟨_, _, e⟩ := onMsg_fail h; subst e; exact ra
  | cs c => obtain ⟨e, _⟩ := onMsg_cs h; subst e; exact RaOK.afterCs ok
  | fee f => obtain ⟨_, _, e⟩ := onMsg_fee h; subst e; exact ra
  | raa =>
    obtain ⟨hr, _⟩ := onMsg_raa h
    obtain ⟨_, e⟩ := onRaa_some hr
    subst e
    intro x hx hst
    obtain ⟨y, hy, e⟩ := List.mem_map.1 hx
    obtain ⟨hym, _⟩ := List.mem_filter.1 hy
    have hc : raCount ((n.inb.filter raaKeepIn).map raaMapIn) = raCount n.inb := by
      rw [raCount_map _ _ (fun h _ => raaMapIn_RA h)]
      unfold raCount
      rw [List.countP_filter]
      apply List.countP_congr
      intro z _
      constructor
      · intro hz; exact (by simpa using hz : _ ∧ _).1 |> fun h' => by simpa using h'
      · intro hz
        have : z.st = .remoteAnnounced := by simpa using hz
        simp [this, raaKeepIn]
    have hy' : y.st ≠ .remoteAnnounced := by
      intro e'
      apply hst
      have := raaMapIn_RA y
      rw [e] at this
      simpa [e'] using this
    show x.id + raCount _ < n.nextInId
    rw [hc, ← e, raaMapIn_id]
    exact ra y hym hy'

def markOne (fu fa : List Nat) (h : InHtlc) : InHtlc :=
  if h.id ∈ fa then { h with st := .localRemoved false } else if h.id ∈ fu then { h with st := .localRemoved true } else h

theorem markOne_id (fu fa : List Nat) (h : InHtlc) : (markOne fu fa h).id = h.id := by
  unfold markOne; split
  · rfl
  · split <;> rfl

theorem markRemoved_eq_map (inb : List InHtlc) (fu fa : List Nat) : markRemoved inb fu fa = inb.map (markOne fu fa) := by
  unfold markRemoved
  rw [foldl_setIn_eq_map, foldl_setIn_eq_map, List.map_map]
  apply List.map_congr_left
  intro h _
  simp only [Function.comp, markOne]
  by_cases e1 : h.id ∈ fu <;> by_cases e2 : h.id ∈ fa <;> simp [e1, e2]

theorem RaOK.built {n : Node} (ok : NodeOK n) (ra : RaOK n) (adds fu fa : List Nat)
    (hcom : ∀ id ∈ fu ++ fa, ∃ h ∈ n.inb, h.id = id ∧ h.st = .committed) : RaOK (n.built adds fu fa) := by
  have hinb : (n.built adds fu fa).inb = (n.inb.map (markOne fu fa)).map (fun (h : InHtlc) => { h with st := h.st.onBuildCommitment }) := by
    show (markRemoved n.inb fu fa).map _ = _
    rw [markRemoved_eq_map]
  have hG : ∀ h ∈ n.inb, ((markOne fu fa h).st == InState.remoteAnnounced) = (h.st == InState.remoteAnnounced) := by
    intro h hh
    unfold markOne
    by_cases e2 : h.id ∈ fa
    · obtain ⟨y, hy, e, est⟩ := hcom h.id (List.mem_append.2 (Or.inr e2))
      have : h = y := sorted_unique' ok.sIn hh hy e.symm
      rw [if_pos e2, this, est]; rfl
    · by_cases e1 : h.id ∈ fu
      · obtain ⟨y, hy, e, est⟩ := hcom h.id (List.mem_append.2 (Or.inl e1))
        have : h = y := sorted_unique' ok.sIn hh hy e.symm
        rw [if_neg e2, if_pos e1, this, est]; rfl
      · rw [if_neg e2, if_neg e1]
  have hc : raCount (n.built adds fu fa).inb = raCount n.inb := by
    rw [hinb, raCount_map _ _ (fun h _ => onBuild_RA h.st), raCount_map _ _ hG]
  intro x hx hst
  rw [hinb] at hx
  obtain ⟨z, hz, e⟩ := List.mem_map.1 hx
  obtain ⟨y, hy, e'⟩ := List.mem_map.1 hz
  have hy' : y.st ≠ .remoteAnnounced := by
    intro ey
    apply hst
    have h1 := hG y hy
    have h2 := onBuild_RA z.st
    rw [← e, ← e'] 
    rw [← e'] at h2
    simp only [ey, beq_self_eq_true] at h1
    simp only [h1] at h2
    simpa using h2
  have hid : x.id = y.id := by rw [← e, ← e']; exact markOne_id fu fa y
  rw [(built_fields n adds fu fa).2.2.2.1]
  rw [hc, hid]; exact ra y hy hy'

theorem RaOK.congr {n n' : Node} (ra : RaOK n) (h1 : n'.inb = n.inb) (h3 : n'.nextInId = n.nextInId) : RaOK n' := by
  intro x hx hst
  rw [h1] at hx ⊢
  rw [h3]; exact ra x hx hst

theorem PausedOK.of_unpaused {n : Node} (h : n.paused = false) : PausedOK n :=
  ⟨fun h' => (by rw [h] at h'; cases h'), fun h' => (by rw [h] at h'; cases h')⟩

/-! ### the fee fields of a node under each transition -/

/-- `pending_update_fee` after commitment_signed: RemoteAnnounced -> AwaitingRemoteRevokeToAnnounce -/
def csFee : Option (Nat × FeeState) → Option (Nat × FeeState)
  | some (f, .remoteAnnounced) => some (f, .awaitingRemoteRevokeToAnnounce)
  | pf => pf

theorem afterCs_fee (n : Node) : n.afterCs.isFunder = n.isFunder ∧ n.afterCs.feerate = n.feerate ∧
    n.afterCs.pendingFee = csFee n.pendingFee := by
  refine ⟨rfl, rfl, ?_⟩
  show (match n.pendingFee with | some (f, FeeState.remoteAnnounced) => some (f, FeeState.awaitingRemoteRevokeToAnnounce) | pf => pf) = _
  unfold csFee
  cases n.pendingFee with
  | none => rfl
  | some p => obtain ⟨f, st⟩ := p; cases st <;> rfl

theorem built_fee (n : Node) (adds fu fa : List Nat) : (n.built adds fu fa).isFunder = n.isFunder ∧
    (n.built adds fu fa).feerate = n.promoted.1 ∧ (n.built adds fu fa).pendingFee = n.promoted.2 := ⟨rfl, rfl, rfl⟩

theorem pause_fee (n : Node) : n.pause.isFunder = n.isFunder ∧ n.pause.feerate = n.feerate ∧
    n.pause.pendingFee = (if n.paused then n.pendingFee else pauseFee n.pendingFee) := by
  cases h : n.paused
  · rw [pause_unpaused h]; exact ⟨rfl, rfl, rfl⟩
  · rw [pause_paused h]; exact ⟨rfl, rfl, rfl⟩

/-- the fee fields after processing a message -/
def msgFee (n : Node) : Msg → Nat × Option (Nat × FeeState)
  | .cs _ => (n.feerate, csFee n.pendingFee)
  | .raa => raaFee n
  | .fee f => (n.feerate, some (f, .remoteAnnounced))
  | _ => (n.feerate, n.pendingFee)

theorem onMsg_fee_fields {n n' : Node} {total : Nat} {m : Msg} {ok : Bool} (h : n.onMsg total m = some (n', ok)) :
    n'.isFunder = n.isFunder ∧ n'.feerate = (msgFee n m).1 ∧ n'.pendingFee = (msgFee n m).2 ∧
    (∀ f, m = .fee f → n.isFunder = false) := by
  cases m with
  | add id amt => obtain ⟨_, _, e⟩ := onMsg_add h; subst e; exact ⟨rfl, rfl, rfl, fun _ h => by cases h⟩
  | fulfill id => obtain ⟨_, _, e⟩ := onMsg_fulfill h; subst e; exact ⟨rfl, rfl, rfl, fun _ h => by cases h⟩
  | fail id => obtain ⟨_, _, e⟩ := onMsg_fail h; subst e; exact ⟨rfl, rfl, rfl, fun _ h => by cases h⟩
  | cs c =>
    obtain ⟨e, _⟩ := onMsg_cs h; subst e
    obtain ⟨h1, h2, h3⟩ := afterCs_fee n
    exact ⟨h1, h2, h3, fun _ h => by cases h⟩
  | raa =>
    obtain ⟨hr, _⟩ := onMsg_raa h
    obtain ⟨_, e⟩ := onRaa_some hr
    subst e; exact ⟨rfl, rfl, rfl, fun _ h => by cases h⟩
  | fee f =>
    obtain ⟨hf, _, e⟩ := onMsg_fee h
    subst e; exact ⟨rfl, rfl, rfl, fun _ _ => hf⟩

/-- the pending fee update of the funder is Outbound, that of the other node is not -/
def Node.feeWF (n : Node) : Bool :=
  match n.pendingFee with
  | some (_, st) => (st == .outbound) == n.isFunder
  | none => true

theorem feeWF_of {n n' : Node} (hf : n'.isFunder = n.isFunder) (hp : n'.pendingFee = n.pendingFee) (w : n.feeWF = true) :
    n'.feeWF = true := by
  unfold Node.feeWF at w ⊢; rw [hf, hp]; exact w

theorem feeWF_onMsg {n n' : Node} {total : Nat} {m : Msg} {ok : Bool} (h : n.onMsg total m = some (n', ok))
    (w : n.feeWF = true) : n'.feeWF = true := by
  obtain ⟨h1, _, h3, h4⟩ := onMsg_fee_fields h
  unfold Node.feeWF at w ⊢
  rw [h1, h3]
  cases m with
  | fee f => have := h4 f rfl; simp [msgFee, this]
  | raa =>
    simp only [msgFee, raaFee]
    cases hp : n.pendingFee with
    | none => rfl
    | some p => obtain ⟨f, st⟩ := p; rw [hp] at w; cases st <;> first | rfl | exact w
  | cs c =>
    simp only [msgFee, csFee]
    cases hp : n.pendingFee with
    | none => rfl
    | some p => obtain ⟨f, st⟩ := p; rw [hp] at w; cases st <;> exact w
  | add _ _ => exact w
  | fulfill _ => exact w
  | fail _ => exact w

theorem feeWF_built {n : Node} (adds fu fa : List Nat) (w : n.feeWF = true) : (n.built adds fu fa).feeWF = true := by
  unfold Node.feeWF at w ⊢
  show (match n.promoted.2 with | some (_, st) => (st == .outbound) == n.isFunder | none => true) = true
  unfold Node.promoted
  cases hp : n.pendingFee with
  | none => rfl
  | some p => obtain ⟨f, st⟩ := p; rw [hp] at w; cases st <;> first | rfl | exact w

theorem feeWF_pause {n : Node} (w : n.feeWF = true) : n.pause.feeWF = true := by
  obtain ⟨h1, _, h3⟩ := pause_fee n
  unfold Node.feeWF at w ⊢
  rw [h1, h3]
  cases n.paused
  · simp only [Bool.false_eq_true, if_false]
    unfold pauseFee
    cases hp : n.pendingFee with
    | none => rfl
    | some p => obtain ⟨f, st⟩ := p; rw [hp] at w; cases st <;> first | rfl | exact w
  · exact w

end Ldk.Chan
