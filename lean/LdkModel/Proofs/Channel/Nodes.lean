/- Per-id effect of every node operation of Model/Channel.lean on the per-HTLC state lookups
   `stIn` / `stOut`, and preservation of the id discipline (`NodeOK`: lists strictly sorted by id,
   ids below the next-id counters). Core only. -/
import LdkModel.Proofs.Channel.Lists
import LdkModel.Proofs.Channel.Abs
import LdkModel.Proofs.Channel.Guarded
namespace Ldk.Chan

abbrev lookIn (l : List InHtlc) (id : Nat) : Option InHtlc := lookup (fun h : InHtlc => h.id) l id
abbrev lookOut (l : List OutHtlc) (id : Nat) : Option OutHtlc := lookup (fun h : OutHtlc => h.id) l id
def stIn (l : List InHtlc) (id : Nat) : Option InState := (lookIn l id).map (·.st)
def stOut (l : List OutHtlc) (id : Nat) : Option OutState := (lookOut l id).map (·.st)
abbrev SortedIn (l : List InHtlc) : Prop := Sorted (fun h : InHtlc => h.id) l
abbrev SortedOut (l : List OutHtlc) : Prop := Sorted (fun h : OutHtlc => h.id) l

structure NodeOK (n : Node) : Prop where
  sIn : SortedIn n.inb
  sOut : SortedOut n.outb
  bIn : ∀ h ∈ n.inb, h.id < n.nextInId
  bOut : ∀ h ∈ n.outb, h.id < n.nextOutId

theorem NodeOK.init (v : Nat) : NodeOK (Node.init v) :=
  ⟨List.Pairwise.nil, List.Pairwise.nil, (by intro h hm; cases hm), (by intro h hm; cases hm)⟩

/-! ### generic shapes -/

theorem stIn_map (g : InHtlc → InHtlc) (f : InState → InState) (hg : ∀ h, g h = { h with st := f h.st })
    (l : List InHtlc) (id : Nat) : stIn (l.map g) id = (stIn l id).map f := by
  unfold stIn lookIn
  rw [lookup_map g (by intro h; rw [hg])]
  cases lookup (fun h : InHtlc => h.id) l id <;> simp [hg]

theorem stOut_map (g : OutHtlc → OutHtlc) (f : OutState → OutState) (hg : ∀ h, g h = { h with st := f h.st })
    (l : List OutHtlc) (id : Nat) : stOut (l.map g) id = (stOut l id).map f := by
  unfold stOut lookOut
  rw [lookup_map g (by intro h; rw [hg])]
  cases lookup (fun h : OutHtlc => h.id) l id <;> simp [hg]

theorem stIn_filter_map {l : List InHtlc} (hs : SortedIn l) (p : InHtlc → Bool) (g : InHtlc → InHtlc)
    (r : InState → Option InState) (hid : ∀ h, (g h).id = h.id)
    (hr : ∀ h, (if p h then some (g h).st else none) = r h.st) (id : Nat) :
    stIn ((l.filter p).map g) id = (stIn l id).bind r := by
  unfold stIn lookIn
  rw [lookup_map g hid, lookup_filter p hs]
  cases lookup (fun h : InHtlc => h.id) l id with
  | none => rfl
  | some h =>
    have := hr h
    by_cases hp : p h = true <;> simp [Option.filter, hp] at this ⊢ <;> exact this

theorem stOut_filter_map {l : List OutHtlc} (hs : SortedOut l) (p : OutHtlc → Bool) (g : OutHtlc → OutHtlc)
    (r : OutState → Option OutState) (hid : ∀ h, (g h).id = h.id)
    (hr : ∀ h, (if p h then some (g h).st else none) = r h.st) (id : Nat) :
    stOut ((l.filter p).map g) id = (stOut l id).bind r := by
  unfold stOut lookOut
  rw [lookup_map g hid, lookup_filter p hs]
  cases lookup (fun h : OutHtlc => h.id) l id with
  | none => rfl
  | some h =>
    have := hr h
    by_cases hp : p h = true <;> simp [Option.filter, hp] at this ⊢ <;> exact this

theorem stIn_none_of_bound {l : List InHtlc} {b id : Nat} (hb : ∀ h ∈ l, h.id < b) (hid : b ≤ id) : stIn l id = none := by
  unfold stIn lookIn
  rw [lookup_none.2 (by intro h hm; have := hb h hm; omega)]; rfl

theorem stOut_none_of_bound {l : List OutHtlc} {b id : Nat} (hb : ∀ h ∈ l, h.id < b) (hid : b ≤ id) : stOut l id = none := by
  unfold stOut lookOut
  rw [lookup_none.2 (by intro h hm; have := hb h hm; omega)]; rfl

theorem stIn_of_mem {l : List InHtlc} (hs : SortedIn l) {h : InHtlc} (hm : h ∈ l) : stIn l h.id = some h.st := by
  unfold stIn lookIn
  rw [mem_lookup hs hm]; rfl

theorem stOut_of_mem {l : List OutHtlc} (hs : SortedOut l) {h : OutHtlc} (hm : h ∈ l) : stOut l h.id = some h.st := by
  unfold stOut lookOut
  rw [mem_lookup hs hm]; rfl

theorem mem_of_stIn {l : List InHtlc} {id : Nat} {st : InState} (e : stIn l id = some st) : ∃ h ∈ l, h.id = id ∧ h.st = st := by
  unfold stIn lookIn at e
  cases hl : lookup (fun h : InHtlc => h.id) l id with
  | none => rw [hl] at e; cases e
  | some h =>
    rw [hl] at e
    injection e with e
    exact ⟨h, (lookup_some hl).1, (lookup_some hl).2, e⟩

theorem mem_of_stOut {l : List OutHtlc} {id : Nat} {st : OutState} (e : stOut l id = some st) : ∃ h ∈ l, h.id = id ∧ h.st = st := by
  unfold stOut lookOut at e
  cases hl : lookup (fun h : OutHtlc => h.id) l id with
  | none => rw [hl] at e; cases e
  | some h =>
    rw [hl] at e
    injection e with e
    exact ⟨h, (lookup_some hl).1, (lookup_some hl).2, e⟩

/-! ### setIn / setOut / markRemoved -/

theorem setIn_eq_map (l : List InHtlc) (id' : Nat) (f : InState → InState) :
    setIn l id' f = l.map (fun h => if h.id = id' then { h with st := f h.st } else h) := rfl

theorem stIn_setIn (l : List InHtlc) (id' : Nat) (f : InState → InState) (id : Nat) :
    stIn (setIn l id' f) id = if id = id' then (stIn l id).map f else stIn l id := by
  unfold stIn lookIn
  rw [setIn_eq_map, lookup_map _ (by intro h; by_cases e : h.id = id' <;> simp [e])]
  cases hl : lookup (fun h : InHtlc => h.id) l id with
  | none => simp
  | some h =>
    have : h.id = id := (lookup_some hl).2
    by_cases e : id = id'
    · subst e; simp [this]
    · have : ¬ h.id = id' := by omega
      simp [this, e]

theorem stOut_setOut (l : List OutHtlc) (id' : Nat) (f : OutState → OutState) (id : Nat) :
    stOut (setOut l id' f) id = if id = id' then (stOut l id).map f else stOut l id := by
  unfold stOut lookOut
  have hmap : setOut l id' f = l.map (fun h => if h.id = id' then { h with st := f h.st } else h) := rfl
  rw [hmap, lookup_map _ (by intro h; by_cases e : h.id = id' <;> simp [e])]
  cases hl : lookup (fun h : OutHtlc => h.id) l id with
  | none => simp
  | some h =>
    have : h.id = id := (lookup_some hl).2
    by_cases e : id = id'
    · subst e; simp [this]
    · have : ¬ h.id = id' := by omega
      simp [this, e]

theorem stIn_foldl_setIn (st : InState) (ids : List Nat) : ∀ (l : List InHtlc) (id : Nat),
    stIn (ids.foldl (fun l id => setIn l id (fun _ => st)) l) id
      = if id ∈ ids then (stIn l id).map (fun _ => st) else stIn l id := by
  induction ids with
  | nil => intro l id; simp
  | cons x xs ih =>
    intro l id
    simp only [List.foldl_cons, ih, stIn_setIn, List.mem_cons]
    by_cases h1 : id = x
    · subst h1
      by_cases h2 : id ∈ xs <;> simp [h2]
      cases stIn l id <;> rfl
    · by_cases h2 : id ∈ xs <;> simp [h1, h2]

theorem stIn_markRemoved (inb : List InHtlc) (fu fa : List Nat) (id : Nat) :
    stIn (markRemoved inb fu fa) id =
      if id ∈ fa then (stIn inb id).map (fun _ => .localRemoved false)
      else if id ∈ fu then (stIn inb id).map (fun _ => .localRemoved true) else stIn inb id := by
  unfold markRemoved
  rw [stIn_foldl_setIn, stIn_foldl_setIn]
  by_cases h1 : id ∈ fa <;> by_cases h2 : id ∈ fu <;> simp [h1, h2]
  cases stIn inb id <;> rfl

/-! ### sortedness / bounds are preserved by id-preserving maps -/

theorem sortedIn_map (g : InHtlc → InHtlc) (hid : ∀ h, (g h).id = h.id) {l : List InHtlc} (hs : SortedIn l) : SortedIn (l.map g) :=
  Sorted.map g hid hs
theorem sortedOut_map (g : OutHtlc → OutHtlc) (hid : ∀ h, (g h).id = h.id) {l : List OutHtlc} (hs : SortedOut l) : SortedOut (l.map g) :=
  Sorted.map g hid hs

theorem boundIn_map (g : InHtlc → InHtlc) (hid : ∀ h, (g h).id = h.id) {l : List InHtlc} {b : Nat}
    (hb : ∀ h ∈ l, h.id < b) : ∀ h ∈ l.map g, h.id < b := by
  intro h hm
  obtain ⟨x, hx, e⟩ := List.mem_map.1 hm
  rw [← e, hid]; exact hb x hx
theorem boundOut_map (g : OutHtlc → OutHtlc) (hid : ∀ h, (g h).id = h.id) {l : List OutHtlc} {b : Nat}
    (hb : ∀ h ∈ l, h.id < b) : ∀ h ∈ l.map g, h.id < b := by
  intro h hm
  obtain ⟨x, hx, e⟩ := List.mem_map.1 hm
  rw [← e, hid]; exact hb x hx

theorem setIn_id (id' : Nat) (f : InState → InState) (h : InHtlc) :
    (if h.id = id' then ({ h with st := f h.st } : InHtlc) else h).id = h.id := by
  by_cases e : h.id = id' <;> simp [e]
theorem setOut_id (id' : Nat) (f : OutState → OutState) (h : OutHtlc) :
    (if h.id = id' then ({ h with st := f h.st } : OutHtlc) else h).id = h.id := by
  by_cases e : h.id = id' <;> simp [e]

theorem sortedIn_mapSt (f : InState → InState) {l : List InHtlc} (hs : SortedIn l) :
    SortedIn (l.map (fun (h : InHtlc) => { h with st := f h.st })) := sortedIn_map (fun (h : InHtlc) => { h with st := f h.st }) (fun _ => rfl) hs
theorem sortedOut_mapSt (f : OutState → OutState) {l : List OutHtlc} (hs : SortedOut l) :
    SortedOut (l.map (fun (h : OutHtlc) => { h with st := f h.st })) := sortedOut_map (fun (h : OutHtlc) => { h with st := f h.st }) (fun _ => rfl) hs
theorem boundIn_mapSt (f : InState → InState) {l : List InHtlc} {b : Nat} (hb : ∀ h ∈ l, h.id < b) :
    ∀ h ∈ l.map (fun (h : InHtlc) => { h with st := f h.st }), h.id < b := boundIn_map (fun (h : InHtlc) => { h with st := f h.st }) (fun _ => rfl) hb
theorem boundOut_mapSt (f : OutState → OutState) {l : List OutHtlc} {b : Nat} (hb : ∀ h ∈ l, h.id < b) :
    ∀ h ∈ l.map (fun (h : OutHtlc) => { h with st := f h.st }), h.id < b := boundOut_map (fun (h : OutHtlc) => { h with st := f h.st }) (fun _ => rfl) hb
theorem sortedIn_setIn (id' : Nat) (f : InState → InState) {l : List InHtlc} (hs : SortedIn l) : SortedIn (setIn l id' f) :=
  sortedIn_map (fun h => if h.id = id' then { h with st := f h.st } else h) (setIn_id id' f) hs
theorem sortedOut_setOut (id' : Nat) (f : OutState → OutState) {l : List OutHtlc} (hs : SortedOut l) : SortedOut (setOut l id' f) :=
  sortedOut_map (fun h => if h.id = id' then { h with st := f h.st } else h) (setOut_id id' f) hs
theorem boundIn_setIn (id' : Nat) (f : InState → InState) {l : List InHtlc} {b : Nat} (hb : ∀ h ∈ l, h.id < b) :
    ∀ h ∈ setIn l id' f, h.id < b :=
  boundIn_map (fun h => if h.id = id' then { h with st := f h.st } else h) (setIn_id id' f) hb
theorem boundOut_setOut (id' : Nat) (f : OutState → OutState) {l : List OutHtlc} {b : Nat} (hb : ∀ h ∈ l, h.id < b) :
    ∀ h ∈ setOut l id' f, h.id < b :=
  boundOut_map (fun h => if h.id = id' then { h with st := f h.st } else h) (setOut_id id' f) hb

theorem sortedIn_foldl_setIn (st : InState) (ids : List Nat) : ∀ (l : List InHtlc), SortedIn l →
    SortedIn (ids.foldl (fun l id => setIn l id (fun _ => st)) l) := by
  induction ids with
  | nil => intro l h; exact h
  | cons x xs ih => intro l h; exact ih _ (sortedIn_setIn x _ h)

theorem boundIn_foldl_setIn (st : InState) (b : Nat) (ids : List Nat) : ∀ (l : List InHtlc), (∀ h ∈ l, h.id < b) →
    ∀ h ∈ ids.foldl (fun l id => setIn l id (fun _ => st)) l, h.id < b := by
  induction ids with
  | nil => intro l h; exact h
  | cons x xs ih => intro l h; exact ih _ (boundIn_setIn x _ h)

/-! ### new outbound HTLCs -/

theorem mkOuts_lower (amts : List Nat) : ∀ k, ∀ h ∈ mkOuts k amts, k ≤ h.id ∧ h.id < k + amts.length := by
  induction amts with
  | nil => intro k h hm; cases hm
  | cons a as ih =>
    intro k h hm
    simp only [mkOuts, List.mem_cons] at hm
    rcases hm with e | hm
    · subst e; simp
    · have := ih (k + 1) h hm
      simp only [List.length_cons]; omega

theorem mkOuts_sorted (amts : List Nat) : ∀ k, SortedOut (mkOuts k amts) := by
  induction amts with
  | nil => intro k; exact List.Pairwise.nil
  | cons a as ih =>
    intro k
    refine List.pairwise_cons.2 ⟨?_, ih (k + 1)⟩
    intro h hm
    have := mkOuts_lower as (k + 1) h hm
    simp only; omega

theorem stOut_mkOuts (amts : List Nat) : ∀ k id,
    stOut (mkOuts k amts) id = if k ≤ id ∧ id < k + amts.length then some .localAnnounced else none := by
  induction amts with
  | nil => intro k id; simp [mkOuts, stOut, lookup_nil]
  | cons a as ih =>
    intro k id
    have := ih (k + 1) id
    unfold stOut lookOut at this ⊢
    simp only [mkOuts, lookup_cons, List.length_cons]
    by_cases e : k = id
    · subst e; simp
    · rw [if_neg e, this]
      by_cases h1 : k + 1 ≤ id ∧ id < k + 1 + as.length
      · rw [if_pos h1, if_pos (by omega)]
      · rw [if_neg h1, if_neg (by omega)]

theorem sortedOut_append {l1 l2 : List OutHtlc} (h1 : SortedOut l1) (h2 : SortedOut l2)
    (h : ∀ x ∈ l1, ∀ y ∈ l2, x.id < y.id) : SortedOut (l1 ++ l2) :=
  List.pairwise_append.2 ⟨h1, h2, h⟩

theorem stOut_append (l1 l2 : List OutHtlc) (id : Nat) : stOut (l1 ++ l2) id = (stOut l1 id).or (stOut l2 id) := by
  unfold stOut lookOut
  rw [lookup_append]
  cases lookup (fun h : OutHtlc => h.id) l1 id <;> simp

theorem stIn_append (l1 l2 : List InHtlc) (id : Nat) : stIn (l1 ++ l2) id = (stIn l1 id).or (stIn l2 id) := by
  unfold stIn lookIn
  rw [lookup_append]
  cases lookup (fun h : InHtlc => h.id) l1 id <;> simp

/-! ### revoke_and_ack -/

def raaKeepIn (h : InHtlc) : Bool := match h.st with | .localRemoved _ => false | _ => true
def raaMapIn (h : InHtlc) : InHtlc :=
  match h.st with
  | .awaitingRemoteRevokeToAnnounce => { h with st := .awaitingAnnouncedRemoteRevoke }
  | .awaitingAnnouncedRemoteRevoke => { h with st := .committed }
  | _ => h
def raaKeepOut (h : OutHtlc) : Bool := match h.st with | .awaitingRemovedRemoteRevoke _ => false | _ => true
def raaMapOut (h : OutHtlc) : OutHtlc :=
  match h.st with
  | .localAnnounced => { h with st := .committed }
  | .awaitingRemoteRevokeToRemove ok => { h with st := .awaitingRemovedRemoteRevoke ok }
  | _ => h

theorem raaMapIn_id (h : InHtlc) : (raaMapIn h).id = h.id := by
  unfold raaMapIn; split <;> rfl
theorem raaMapOut_id (h : OutHtlc) : (raaMapOut h).id = h.id := by
  unfold raaMapOut; split <;> rfl
theorem raaMapIn_amt (h : InHtlc) : (raaMapIn h).amt = h.amt := by
  unfold raaMapIn; split <;> rfl
theorem raaMapOut_amt (h : OutHtlc) : (raaMapOut h).amt = h.amt := by
  unfold raaMapOut; split <;> rfl

theorem raaIn_spec (h : InHtlc) : (if raaKeepIn h then some (raaMapIn h).st else none) = raaIn h.st := by
  obtain ⟨id, amt, st⟩ := h
  cases st <;> rfl
theorem raaOut_spec (h : OutHtlc) : (if raaKeepOut h then some (raaMapOut h).st else none) = raaOut h.st := by
  obtain ⟨id, amt, st⟩ := h
  cases st <;> rfl

def raaGained (n : Node) : Nat := ((n.inb.filter (fun h => h.st == .localRemoved true)).map (·.amt)).sum
def raaLost (n : Node) : Nat := ((n.outb.filter (fun h => h.st == .awaitingRemovedRemoteRevoke true)).map (·.amt)).sum

theorem onRaa_some {n n' : Node} (h : n.onRaa = some n') :
    n.awaitingRaa = true ∧
    n' = { n with inb := (n.inb.filter raaKeepIn).map raaMapIn, outb := (n.outb.filter raaKeepOut).map raaMapOut,
                  awaitingRaa := false, raaRecv := n.raaRecv + 1,
                  valueToSelf := n.valueToSelf + raaGained n - raaLost n } := by
  unfold Node.onRaa at h
  split at h
  · contradiction
  · rename_i haw
    injection h with h
    exact ⟨by simpa using haw, h.symm⟩

theorem stIn_onRaa {l : List InHtlc} (hs : SortedIn l) (id : Nat) :
    stIn ((l.filter raaKeepIn).map raaMapIn) id = (stIn l id).bind raaIn :=
  stIn_filter_map hs raaKeepIn raaMapIn raaIn raaMapIn_id raaIn_spec id

theorem stOut_onRaa {l : List OutHtlc} (hs : SortedOut l) (id : Nat) :
    stOut ((l.filter raaKeepOut).map raaMapOut) id = (stOut l id).bind raaOut :=
  stOut_filter_map hs raaKeepOut raaMapOut raaOut raaMapOut_id raaOut_spec id

/-! ### `NodeOK` is preserved by every node operation -/

theorem NodeOK.onRaa {n n' : Node} (ok : NodeOK n) (h : n.onRaa = some n') : NodeOK n' := by
  obtain ⟨_, e⟩ := onRaa_some h
  subst e
  refine ⟨sortedIn_map _ raaMapIn_id (Sorted.filter _ ok.sIn), sortedOut_map _ raaMapOut_id (Sorted.filter _ ok.sOut), ?_, ?_⟩
  · exact boundIn_map _ raaMapIn_id (fun h hm => ok.bIn h (List.mem_filter.1 hm).1)
  · exact boundOut_map _ raaMapOut_id (fun h hm => ok.bOut h (List.mem_filter.1 hm).1)

theorem NodeOK.afterCs {n : Node} (ok : NodeOK n) : NodeOK n.afterCs :=
  ⟨sortedIn_mapSt _ ok.sIn, sortedOut_mapSt _ ok.sOut, boundIn_mapSt _ ok.bIn, boundOut_mapSt _ ok.bOut⟩

theorem NodeOK.onMsg {n n' : Node} {total : Nat} {m : Msg} {okb : Bool} (ok : NodeOK n)
    (h : n.onMsg total m = some (n', okb)) : NodeOK n' := by
  cases m with
  | add id amt =>
    obtain ⟨hid, _, e⟩ := onMsg_add h
    subst e
    refine ⟨Sorted.snoc ok.sIn _ (by intro x hx; have := ok.bIn x hx; simp only; omega), ok.sOut, ?_, ok.bOut⟩
    intro x hx
    rcases List.mem_append.1 hx with hx | hx
    · have := ok.bIn x hx; simp only; omega
    · simp at hx; subst hx; simp
  | fulfill id =>
    obtain ⟨_, _, e⟩ := onMsg_fulfill h
    subst e
    exact ⟨ok.sIn, sortedOut_setOut id (fun _ => _) ok.sOut, ok.bIn, fun h hm => boundOut_setOut id (fun _ => _) ok.bOut h hm⟩
  | fail id =>
    obtain ⟨_, _, e⟩ := onMsg_fail h
    subst e
    exact ⟨ok.sIn, sortedOut_setOut id (fun _ => _) ok.sOut, ok.bIn, fun h hm => boundOut_setOut id (fun _ => _) ok.bOut h hm⟩
  | cs c =>
    obtain ⟨e, _⟩ := onMsg_cs h
    subst e
    exact ok.afterCs
  | raa =>
    obtain ⟨e, _⟩ := onMsg_raa h
    exact ok.onRaa e

theorem NodeOK.built {n : Node} (ok : NodeOK n) (adds fu fa : List Nat) : NodeOK (n.built adds fu fa) := by
  refine ⟨?_, ?_, ?_, ?_⟩
  · exact sortedIn_mapSt _ (sortedIn_foldl_setIn _ _ _ (sortedIn_foldl_setIn _ _ _ ok.sIn))
  · refine sortedOut_mapSt _ (sortedOut_append ok.sOut (mkOuts_sorted _ _) ?_)
    intro x hx y hy
    have := ok.bOut x hx
    have := mkOuts_lower adds _ y hy
    omega
  · exact boundIn_mapSt _ (boundIn_foldl_setIn _ _ _ _ (boundIn_foldl_setIn _ _ _ _ ok.bIn))
  · refine boundOut_mapSt _ ?_
    intro h hm
    show h.id < n.nextOutId + adds.length
    rcases List.mem_append.1 hm with hm | hm
    · have := ok.bOut h hm; omega
    · exact (mkOuts_lower adds _ h hm).2

end Ldk.Chan
