/- Abstract per-HTLC view of the commitment update protocol (helper for Props/ChanProto.lean).

   One HTLC, seen jointly: the state `o` its offerer holds, the state `i` its receiver holds, the two
   FIFO streams between them restricted to the tokens that concern this HTLC (its `update_add`, its
   removal, every `commitment_signed`, every `revoke_and_ack` — in flight, pending release, or owed),
   and the two AwaitingRemoteRevoke flags.  Every protocol event acts on this configuration by one of
   the eight moves below, which are written with the GENERATED per-state tables.  `goodList` is the set
   of configurations reachable under the moves (computed by closure; 106 entries); `good_closed` (by
   `decide`) re-proves that it is closed, so a flipped table entry breaks it.  All the per-HTLC facts
   the agreement proof needs are then `decide`d over `goodList`. -/
import LdkModel.Generated.HtlcTables
namespace Ldk.Chan

inductive Tok where
  | add | rem (ok : Bool) | cs | raa
  deriving DecidableEq, Repr

structure Cfg where
  o : Option OutState
  i : Option InState
  fwd : List Tok
  bwd : List Tok
  awO : Bool
  awI : Bool
  deriving DecidableEq, Repr

/-- inbound rewrites of `revoke_and_ack` (mirrors `Node.onRaa`) -/
def raaIn : InState → Option InState
  | .localRemoved _ => none
  | .awaitingRemoteRevokeToAnnounce => some .awaitingAnnouncedRemoteRevoke
  | .awaitingAnnouncedRemoteRevoke => some .committed
  | s => some s
/-- outbound rewrites of `revoke_and_ack` (mirrors `Node.onRaa`) -/
def raaOut : OutState → Option OutState
  | .awaitingRemovedRemoteRevoke _ => none
  | .localAnnounced => some .committed
  | .awaitingRemoteRevokeToRemove ok => some (.awaitingRemovedRemoteRevoke ok)
  | s => some s

/-- the offerer builds a commitment (`new`: this HTLC is announced in it) -/
def mCommitO (new : Bool) (c : Cfg) : Option Cfg :=
  if c.awO then none else
  if new then (if c.o.isSome then none else some { c with o := some .localAnnounced, fwd := c.fwd ++ [.add, .cs], awO := true })
  else some { c with o := c.o.map OutState.onBuildCommitment, fwd := c.fwd ++ [.cs], awO := true }

/-- the receiver builds a commitment (`rem`: it removes this HTLC in it) -/
def mCommitI (rem : Option Bool) (c : Cfg) : Option Cfg :=
  if c.awI then none else
  match rem with
  | none => some { c with i := c.i.map InState.onBuildCommitment, bwd := c.bwd ++ [.cs], awI := true }
  | some ok => if c.i = some .committed then some { c with i := some (InState.onBuildCommitment (.localRemoved ok)), bwd := c.bwd ++ [.rem ok, .cs], awI := true } else none

/-- the offerer processes the next token of the receiver→offerer stream -/
def mRecvO (c : Cfg) : Option Cfg :=
  match c.bwd with
  | [] => none
  | .rem ok :: rest => if c.o = some .committed then some { c with o := some (.remoteRemoved ok), bwd := rest } else none
  | .cs :: rest => some { c with o := c.o.map OutState.onCommitmentSigned, bwd := rest, fwd := c.fwd ++ [.raa] }
  | .raa :: rest => if c.awO then some { c with o := c.o.bind raaOut, bwd := rest, awO := false } else none
  | .add :: _ => none

/-- the receiver processes the next token of the offerer→receiver stream -/
def mRecvI (c : Cfg) : Option Cfg :=
  match c.fwd with
  | [] => none
  | .add :: rest => some { c with i := some .remoteAnnounced, fwd := rest }
  | .cs :: rest => some { c with i := c.i.map InState.onCommitmentSigned, fwd := rest, bwd := c.bwd ++ [.raa] }
  | .raa :: rest => if c.awI then some { c with i := c.i.bind raaIn, fwd := rest, awI := false } else none
  | .rem _ :: _ => none

/-- insert a token immediately before the (first) commitment_signed of a stream -/
def insBefore (t : Tok) : List Tok → List Tok
  | [] => []
  | .cs :: r => t :: .cs :: r
  | x :: r => x :: insBefore t r

/-- the connection drops (mirrors `remove_uncommitted_htlcs_and_mark_paused` on both sides and what
    `channel_reestablish` will retransmit): a RemoteAnnounced copy is forgotten and its `update_add_htlc`
    goes back in front of the commitment_signed that will be retransmitted; a RemoteRemoved reverts to
    Committed and the removal goes back in front of its commitment_signed; commitment_signed and
    revoke_and_ack not yet processed by the peer keep their order -/
def discO : Option OutState → Option OutState
  | some (.remoteRemoved _) => some .committed
  | o => o
def discBwd (o : Option OutState) (bwd : List Tok) : List Tok :=
  match o with | some (.remoteRemoved ok) => insBefore (.rem ok) bwd | _ => bwd

def mDisc (c : Cfg) : Option Cfg := some
  { c with i := if c.i = some .remoteAnnounced then none else c.i,
           o := discO c.o,
           fwd := if c.i = some .remoteAnnounced then insBefore .add c.fwd else c.fwd,
           bwd := discBwd c.o c.bwd }

def moves : List (Cfg → Option Cfg) :=
  [mCommitO false, mCommitO true, mCommitI none, mCommitI (some true), mCommitI (some false), mRecvO, mRecvI, mDisc]

def Cfg.init : Cfg := { o := none, i := none, fwd := [], bwd := [], awO := false, awI := false }

/-- every configuration reachable from `Cfg.init` under `moves` -/
def goodList : List Cfg := [
  ⟨none, none, [.cs, .raa], [], true, true⟩,
  ⟨none, none, [.cs], [.cs], true, true⟩,
  ⟨none, none, [.cs], [], true, false⟩,
  ⟨none, none, [.raa, .cs], [], true, true⟩,
  ⟨none, none, [.raa], [.raa], true, true⟩,
  ⟨none, none, [.raa], [], false, true⟩,
  ⟨none, none, [], [.cs, .raa], true, true⟩,
  ⟨none, none, [], [.cs], false, true⟩,
  ⟨none, none, [], [.raa, .cs], true, true⟩,
  ⟨none, none, [], [.raa], true, false⟩,
  ⟨none, none, [], [], false, false⟩,
  ⟨some (.awaitingRemoteRevokeToRemove false), none, [.raa], [], false, true⟩,
  ⟨some (.awaitingRemoteRevokeToRemove false), none, [], [.cs], false, true⟩,
  ⟨some (.awaitingRemoteRevokeToRemove false), none, [], [.raa, .cs], true, true⟩,
  ⟨some (.awaitingRemoteRevokeToRemove false), none, [], [.raa], true, false⟩,
  ⟨some (.awaitingRemoteRevokeToRemove false), none, [], [], false, false⟩,
  ⟨some (.awaitingRemoteRevokeToRemove false), some (.localRemoved false), [.cs, .raa], [], true, true⟩,
  ⟨some (.awaitingRemoteRevokeToRemove false), some (.localRemoved false), [.raa], [.raa], true, true⟩,
  ⟨some (.awaitingRemoteRevokeToRemove false), some (.localRemoved false), [.raa], [], false, true⟩,
  ⟨some (.awaitingRemoteRevokeToRemove true), none, [.raa], [], false, true⟩,
  ⟨some (.awaitingRemoteRevokeToRemove true), none, [], [.cs], false, true⟩,
  ⟨some (.awaitingRemoteRevokeToRemove true), none, [], [.raa, .cs], true, true⟩,
  ⟨some (.awaitingRemoteRevokeToRemove true), none, [], [.raa], true, false⟩,
  ⟨some (.awaitingRemoteRevokeToRemove true), none, [], [], false, false⟩,
  ⟨some (.awaitingRemoteRevokeToRemove true), some (.localRemoved true), [.cs, .raa], [], true, true⟩,
  ⟨some (.awaitingRemoteRevokeToRemove true), some (.localRemoved true), [.raa], [.raa], true, true⟩,
  ⟨some (.awaitingRemoteRevokeToRemove true), some (.localRemoved true), [.raa], [], false, true⟩,
  ⟨some (.awaitingRemovedRemoteRevoke false), none, [.cs, .raa], [], true, true⟩,
  ⟨some (.awaitingRemovedRemoteRevoke false), none, [.cs], [.cs], true, true⟩,
  ⟨some (.awaitingRemovedRemoteRevoke false), none, [.cs], [], true, false⟩,
  ⟨some (.awaitingRemovedRemoteRevoke false), none, [.raa, .cs], [], true, true⟩,
  ⟨some (.awaitingRemovedRemoteRevoke false), none, [.raa], [.raa], true, true⟩,
  ⟨some (.awaitingRemovedRemoteRevoke false), none, [.raa], [], false, true⟩,
  ⟨some (.awaitingRemovedRemoteRevoke false), none, [], [.cs, .raa], true, true⟩,
  ⟨some (.awaitingRemovedRemoteRevoke false), none, [], [.cs], false, true⟩,
  ⟨some (.awaitingRemovedRemoteRevoke false), none, [], [.raa, .cs], true, true⟩,
  ⟨some (.awaitingRemovedRemoteRevoke false), none, [], [.raa], true, false⟩,
  ⟨some (.awaitingRemovedRemoteRevoke false), none, [], [], false, false⟩,
  ⟨some (.awaitingRemovedRemoteRevoke false), some (.localRemoved false), [.raa, .cs], [], true, true⟩,
  ⟨some (.awaitingRemovedRemoteRevoke false), some (.localRemoved false), [.raa], [], false, true⟩,
  ⟨some (.awaitingRemovedRemoteRevoke true), none, [.cs, .raa], [], true, true⟩,
  ⟨some (.awaitingRemovedRemoteRevoke true), none, [.cs], [.cs], true, true⟩,
  ⟨some (.awaitingRemovedRemoteRevoke true), none, [.cs], [], true, false⟩,
  ⟨some (.awaitingRemovedRemoteRevoke true), none, [.raa, .cs], [], true, true⟩,
  ⟨some (.awaitingRemovedRemoteRevoke true), none, [.raa], [.raa], true, true⟩,
  ⟨some (.awaitingRemovedRemoteRevoke true), none, [.raa], [], false, true⟩,
  ⟨some (.awaitingRemovedRemoteRevoke true), none, [], [.cs, .raa], true, true⟩,
  ⟨some (.awaitingRemovedRemoteRevoke true), none, [], [.cs], false, true⟩,
  ⟨some (.awaitingRemovedRemoteRevoke true), none, [], [.raa, .cs], true, true⟩,
  ⟨some (.awaitingRemovedRemoteRevoke true), none, [], [.raa], true, false⟩,
  ⟨some (.awaitingRemovedRemoteRevoke true), none, [], [], false, false⟩,
  ⟨some (.awaitingRemovedRemoteRevoke true), some (.localRemoved true), [.raa, .cs], [], true, true⟩,
  ⟨some (.awaitingRemovedRemoteRevoke true), some (.localRemoved true), [.raa], [], false, true⟩,
  ⟨some (.remoteRemoved false), some (.localRemoved false), [.cs], [.cs], true, true⟩,
  ⟨some (.remoteRemoved false), some (.localRemoved false), [], [.cs, .raa], true, true⟩,
  ⟨some (.remoteRemoved false), some (.localRemoved false), [], [.cs], false, true⟩,
  ⟨some (.remoteRemoved true), some (.localRemoved true), [.cs], [.cs], true, true⟩,
  ⟨some (.remoteRemoved true), some (.localRemoved true), [], [.cs, .raa], true, true⟩,
  ⟨some (.remoteRemoved true), some (.localRemoved true), [], [.cs], false, true⟩,
  ⟨some .committed, some (.localRemoved false), [.cs], [.rem false, .cs], true, true⟩,
  ⟨some .committed, some (.localRemoved false), [], [.raa, .rem false, .cs], true, true⟩,
  ⟨some .committed, some (.localRemoved false), [], [.rem false, .cs, .raa], true, true⟩,
  ⟨some .committed, some (.localRemoved false), [], [.rem false, .cs], false, true⟩,
  ⟨some .committed, some (.localRemoved true), [.cs], [.rem true, .cs], true, true⟩,
  ⟨some .committed, some (.localRemoved true), [], [.raa, .rem true, .cs], true, true⟩,
  ⟨some .committed, some (.localRemoved true), [], [.rem true, .cs, .raa], true, true⟩,
  ⟨some .committed, some (.localRemoved true), [], [.rem true, .cs], false, true⟩,
  ⟨some .committed, some .awaitingAnnouncedRemoteRevoke, [.cs, .raa], [], true, true⟩,
  ⟨some .committed, some .awaitingAnnouncedRemoteRevoke, [.cs], [.cs], true, true⟩,
  ⟨some .committed, some .awaitingAnnouncedRemoteRevoke, [.cs], [], true, false⟩,
  ⟨some .committed, some .awaitingAnnouncedRemoteRevoke, [.raa, .cs], [], true, true⟩,
  ⟨some .committed, some .awaitingAnnouncedRemoteRevoke, [.raa], [.raa], true, true⟩,
  ⟨some .committed, some .awaitingAnnouncedRemoteRevoke, [.raa], [], false, true⟩,
  ⟨some .committed, some .awaitingAnnouncedRemoteRevoke, [], [.cs, .raa], true, true⟩,
  ⟨some .committed, some .awaitingAnnouncedRemoteRevoke, [], [.cs], false, true⟩,
  ⟨some .committed, some .awaitingAnnouncedRemoteRevoke, [], [.raa, .cs], true, true⟩,
  ⟨some .committed, some .awaitingAnnouncedRemoteRevoke, [], [.raa], true, false⟩,
  ⟨some .committed, some .awaitingAnnouncedRemoteRevoke, [], [], false, false⟩,
  ⟨some .committed, some .awaitingRemoteRevokeToAnnounce, [.cs], [], true, false⟩,
  ⟨some .committed, some .awaitingRemoteRevokeToAnnounce, [.raa, .cs], [], true, true⟩,
  ⟨some .committed, some .awaitingRemoteRevokeToAnnounce, [.raa], [], false, true⟩,
  ⟨some .committed, some .awaitingRemoteRevokeToAnnounce, [], [.raa], true, false⟩,
  ⟨some .committed, some .awaitingRemoteRevokeToAnnounce, [], [], false, false⟩,
  ⟨some .committed, some .committed, [.cs, .raa], [], true, true⟩,
  ⟨some .committed, some .committed, [.cs], [.cs], true, true⟩,
  ⟨some .committed, some .committed, [.cs], [], true, false⟩,
  ⟨some .committed, some .committed, [.raa, .cs], [], true, true⟩,
  ⟨some .committed, some .committed, [.raa], [.raa], true, true⟩,
  ⟨some .committed, some .committed, [.raa], [], false, true⟩,
  ⟨some .committed, some .committed, [], [.cs, .raa], true, true⟩,
  ⟨some .committed, some .committed, [], [.cs], false, true⟩,
  ⟨some .committed, some .committed, [], [.raa, .cs], true, true⟩,
  ⟨some .committed, some .committed, [], [.raa], true, false⟩,
  ⟨some .committed, some .committed, [], [], false, false⟩,
  ⟨some .localAnnounced, none, [.add, .cs, .raa], [], true, true⟩,
  ⟨some .localAnnounced, none, [.add, .cs], [.cs], true, true⟩,
  ⟨some .localAnnounced, none, [.add, .cs], [], true, false⟩,
  ⟨some .localAnnounced, none, [.raa, .add, .cs], [], true, true⟩,
  ⟨some .localAnnounced, some .awaitingAnnouncedRemoteRevoke, [], [.raa, .cs], true, true⟩,
  ⟨some .localAnnounced, some .awaitingAnnouncedRemoteRevoke, [], [.raa], true, false⟩,
  ⟨some .localAnnounced, some .awaitingRemoteRevokeToAnnounce, [.raa], [.raa], true, true⟩,
  ⟨some .localAnnounced, some .awaitingRemoteRevokeToAnnounce, [], [.cs, .raa], true, true⟩,
  ⟨some .localAnnounced, some .awaitingRemoteRevokeToAnnounce, [], [.raa], true, false⟩,
  ⟨some .localAnnounced, some .remoteAnnounced, [.cs, .raa], [], true, true⟩,
  ⟨some .localAnnounced, some .remoteAnnounced, [.cs], [.cs], true, true⟩,
  ⟨some .localAnnounced, some .remoteAnnounced, [.cs], [], true, false⟩
]

def good (c : Cfg) : Bool := goodList.contains c

theorem good_init : good Cfg.init = true := by decide

set_option maxRecDepth 100000 in
theorem good_closed_b : goodList.all (fun c => moves.all (fun m => match m c with | none => true | some c' => good c')) = true := by
  decide

/-- `goodList` is closed under every move -/
theorem good_closed {c c' : Cfg} {m : Cfg → Option Cfg} (hc : good c = true) (hm : m ∈ moves) (h : m c = some c') :
    good c' = true := by
  have h1 := List.all_eq_true.1 good_closed_b c (by simpa [good] using hc)
  have h2 := List.all_eq_true.1 h1 m hm
  simpa [h] using h2

/-- a Boolean fact checked on every entry of `goodList` holds for every good configuration -/
theorem good_all (P : Cfg → Bool) (h : goodList.all P = true) : ∀ c, good c = true → P c = true := by
  intro c hc
  exact List.all_eq_true.1 h c (by simpa [good] using hc)

/-! ### per-HTLC facts, checked on every good configuration -/

def inclT (o : Option OutState) : Bool := match o with | some st => st.included true | none => false
def inclF (o : Option OutState) : Bool := match o with | some st => st.included false | none => false
def inclTi (i : Option InState) : Bool := match i with | some st => st.included true | none => false

/-- while its offerer is not awaiting a revoke_and_ack, none of its commitment_signed is in flight -/
theorem good_no_cs : ∀ c, good c = true → (c.awO || !c.fwd.contains .cs) = true :=
  good_all _ (by decide)

/-- while a commitment_signed of the offerer is in flight, the next thing it receives is not a revoke_and_ack -/
theorem good_cs_no_raa : ∀ c, good c = true → (!c.fwd.contains .cs || !(c.bwd.head? == some .raa)) = true :=
  good_all _ (by decide)

/-- AGREEMENT, offered side: when the receiver is about to process a commitment_signed of the offerer, the
    offerer's signing view (generated_by_local = true) contains the HTLC iff the receiver holds it -/
theorem good_okI : ∀ c, good c = true → (!(c.fwd.head? == some .cs) || (inclT c.o == c.i.isSome)) = true :=
  good_all _ (by decide)

/-- AGREEMENT, received side: when the offerer is about to process a commitment_signed of the receiver, the
    receiver's signing view contains the HTLC iff the offerer's own view (generated_by_local = false) does -/
theorem good_okO : ∀ c, good c = true → (!(c.bwd.head? == some .cs) || (inclTi c.i == inclF c.o)) = true :=
  good_all _ (by decide)

/-- an HTLC the receiver holds is still held by its offerer -/
theorem good_in_out : ∀ c, good c = true → (!c.i.isSome || c.o.isSome) = true :=
  good_all _ (by decide)

/-- every inbound state is part of the holder's own commitment when verifying (generated_by_local = false) -/
theorem in_included_false (st : InState) : st.included false = true := by cases st <;> rfl

/-! ### balance bookkeeping per HTLC -/

/-- the offerer has seen the fulfilment irrevocably committed on its own side but not yet deducted the amount -/
def isTRAR (o : Option OutState) : Bool :=
  o == some (.awaitingRemoteRevokeToRemove true) || o == some (.awaitingRemovedRemoteRevoke true)

/-- "excess": the receiver has already credited itself (its copy is gone), the offerer has not yet debited -/
def exc (c : Cfg) : Bool := c.i.isNone && isTRAR c.o

/-- claimed-value tests of `build_commitment_transaction` -/
def claimedOut (g : Bool) (o : Option OutState) : Bool :=
  match o with | some st => !(st.included g) && st.hasPreimage | none => false
def claimedIn (g : Bool) (i : Option InState) : Bool :=
  match i with | some st => !(st.included g) && st.hasPreimage | none => false

set_option maxRecDepth 100000 in
/-- no move except the processing of a revoke_and_ack (the only moves that clear an awaiting flag) changes `exc` -/
theorem good_exc_moves : ∀ c, good c = true → moves.all (fun m => match m c with
    | some c' => (c.awO && !c'.awO) || (c.awI && !c'.awI) || (exc c' == exc c)
    | none => true) = true :=
  good_all _ (by decide)

/-- the offerer processes a revoke_and_ack: a fulfilled HTLC it drops was in excess; the others keep `exc` -/
theorem good_exc_raaO : ∀ c, good c = true → (match mRecvO c with
    | some c' => !(c.bwd.head? == some .raa) ||
        ((!(c.o == some (.awaitingRemovedRemoteRevoke true)) || exc c) && (!c'.o.isSome || (exc c' == exc c)))
    | none => true) = true :=
  good_all _ (by decide)

/-- the receiver processes a revoke_and_ack: exactly the HTLCs it had fulfilled (LocalRemoved(Fulfill)) become excess -/
theorem good_exc_raaI : ∀ c, good c = true → (match mRecvI c with
    | some c' => !(c.fwd.head? == some .raa) ||
        (if c.i == some (.localRemoved true) then (!exc c && exc c') else (exc c' == exc c))
    | none => true) = true :=
  good_all _ (by decide)

/-- BALANCE, offered side, when the receiver is about to process the offerer's commitment_signed: the
    HTLCs in excess are exactly those the signer's view claims for the counterparty -/
theorem good_balI : ∀ c, good c = true → (!(c.fwd.head? == some .cs) || (exc c == claimedOut true c.o)) = true :=
  good_all _ (by decide)

/-- BALANCE, received side (the signer received these HTLCs): what the holder's view claims for the signer
    is exactly excess or claimed by the signer's view for itself -/
theorem good_balO : ∀ c, good c = true →
    (!(c.bwd.head? == some .cs) || ((exc c || claimedIn true c.i) == claimedOut false c.o)) = true :=
  good_all _ (by decide)

theorem in_claimed_false (st : InState) : (!(st.included false) && st.hasPreimage) = false := by
  cases st <;> rfl

/-! ### the statistics filter (`get_next_commitment_htlcs`) of the sender covers the peer's -/

/-- the third argument of the inbound filter is unused -/
theorem in_stats_flag (st : InState) (l u v : Bool) : st.inNextStats l u = st.inNextStats l v := by
  cases st <;> cases l <;> rfl

/-- HTLC offered by the sizing node: unless its revoke_and_ack is still undelivered, whatever the receiver
    counts on its OWN next commitment (local = true) the offerer counts on that same commitment
    (local = false, include_counterparty_unknown_htlcs = true) -/
theorem good_stats_offered : ∀ c, good c = true → (c.fwd.contains .raa ||
    (match c.i with
     | some i => !(i.inNextStats true false) || (match c.o with | some o => o.inNextStats false true | none => false)
     | none => true)) = true :=
  good_all _ (by decide)

/-- HTLC received by the sizing node: unless its removal message is still undelivered, whatever the offerer
    counts on its OWN next commitment (local = true, unknown HTLCs excluded as in `validate_update_add_htlc`)
    the sizing node counts on that same commitment (local = false) -/
theorem good_stats_received : ∀ c, good c = true → (c.bwd.contains (.rem true) || c.bwd.contains (.rem false) ||
    (match c.o with
     | some o => !(o.inNextStats true false) || (match c.i with | some i => i.inNextStats false false | none => false)
     | none => true)) = true :=
  good_all _ (by decide)

/-- when the receiver is about to verify a commitment_signed, every offered HTLC the signer put into it is
    counted by the receiver's own-commitment filter (local = true) -/
theorem good_stats_holder : ∀ c, good c = true → (!(c.fwd.head? == some .cs) || !inclT c.o ||
    (match c.i with | some i => i.inNextStats true false | none => false)) = true :=
  good_all _ (by decide)

/-! ### canonical shape of the token streams (used to identify the retransmission stream after a disconnect) -/

/-- `[raa]? ++ ([add]? ++ [cs])? ++ [raa]?` -/
def canonF (rb hc ha ra : Bool) : List Tok :=
  (if rb then [.raa] else []) ++ (if hc then (if ha then [.add] else []) ++ [.cs] else []) ++ (if ra then [.raa] else [])
/-- `[raa]? ++ ([rem ok]? ++ [cs])? ++ [raa]?` -/
def canonB (rb hc : Bool) (hr : Option Bool) (ra : Bool) : List Tok :=
  (if rb then [.raa] else []) ++ (if hc then (match hr with | some ok => [.rem ok] | none => []) ++ [.cs] else [])
    ++ (if ra then [.raa] else [])

/-- a revoke_and_ack precedes the commitment_signed of the stream -/
def raaBefore (l : List Tok) : Bool := l.contains .cs && (l.takeWhile (fun t => t != .cs)).contains .raa
def raaAfter (l : List Tok) : Bool := l.contains .raa && !raaBefore l
def remOf (l : List Tok) : Option Bool := if l.contains (.rem true) then some true else if l.contains (.rem false) then some false else none
def lrOf (i : Option InState) : Option Bool := match i with | some (.localRemoved ok) => some ok | _ => none

theorem good_fwd_shape : ∀ c, good c = true →
    (c.fwd == canonF (raaBefore c.fwd) (c.fwd.contains .cs) (c.fwd.contains .add) (raaAfter c.fwd)) = true :=
  good_all _ (by decide)

theorem good_bwd_shape : ∀ c, good c = true →
    (c.bwd == canonB (raaBefore c.bwd) (c.bwd.contains .cs) (remOf c.bwd) (raaAfter c.bwd)) = true :=
  good_all _ (by decide)

/-- what the disconnect rewrites presuppose, and which `update_add_htlc` / removal a retransmitted batch carries -/
theorem good_disc_fwd : ∀ c, good c = true →
    ((!(c.i == some .remoteAnnounced) || (c.fwd.contains .cs && !c.fwd.contains .add)) &&
     (!c.fwd.contains .cs || ((c.fwd.contains .add || c.i == some .remoteAnnounced) == (c.o == some .localAnnounced)))) = true :=
  good_all _ (by decide)

theorem good_disc_bwd : ∀ c, good c = true →
    ((match c.o with | some (.remoteRemoved ok) => c.bwd.contains .cs && remOf c.bwd == none && lrOf c.i == some ok | _ => true) &&
     (!c.bwd.contains .cs ||
       ((match c.o with | some (.remoteRemoved ok) => some ok | _ => remOf c.bwd) == lrOf c.i))) = true :=
  good_all _ (by decide)

theorem insBefore_canonF (rb ra : Bool) : insBefore .add (canonF rb true false ra) = canonF rb true true ra := by
  cases rb <;> cases ra <;> rfl
theorem insBefore_canonB (ok rb ra : Bool) : insBefore (.rem ok) (canonB rb true none ra) = canonB rb true (some ok) ra := by
  cases rb <;> cases ra <;> rfl

end Ldk.Chan
