/- C10 — lemmas about the regeneration of Event::HTLCIntercepted at start-up (Model/InterceptRegen.lean over the GENERATED
   `eventIsFor`, `regenWhen`, `mkInterceptedEvent`, `interceptsFromDisk`).  The first four lemmas are the facts about the generated
   definitions everything else rests on: a translation of a changed Rust text that no longer has them breaks THESE proofs. -/
import LdkModel.Model.InterceptRegen
namespace Ldk.Restart

/-- the test of the regeneration loop compares the event's intercept id with the LOOP KEY (seeded C10-r5: the pattern binding shadows
    the key, the generated test becomes `e.interceptId = e.interceptId`, and this lemma is false) -/
theorem eventIsFor_iff (id : Nat) (e : IcEv) : eventIsFor id e = true ↔ e.interceptId = id := by
  simp [eventIsFor]

/-- an event is created exactly when the search found none -/
theorem regenWhen_spec (found : Bool) : regenWhen found = !found := by
  cases found <;> rfl

/-- the created event names the id it was created for -/
theorem mkInterceptedEvent_id {id : Nat} {h : IcHtlc} {e : IcEv} (he : mkInterceptedEvent id h = some e) : e.interceptId = id := by
  unfold mkInterceptedEvent at he
  cases ha : h.incomingAmt <;> cases hs : h.fwdScid <;> simp [ha, hs] at he
  subst he; rfl

/-- the sweep's test: the HTLC is failed back from HTLC_FAIL_BACK_BUFFER blocks before its OUTGOING expiry on -/
theorem interceptTimedOut_iff (height : Nat) (h : IcHtlc) : interceptTimedOut height h = true ↔ h.outgoingCltv ≤ height + HTLC_FAIL_BACK_BUFFER := by
  simp only [interceptTimedOut, decide_eq_true_eq]
  omega

/-- the production reload path starts from the persisted map -/
theorem interceptsFromDisk_legacy : interceptsFromDisk false = true := by rfl

/-- the reconstruct reload path starts from an empty map -/
theorem interceptsFromDisk_reconstruct : interceptsFromDisk true = false := by rfl

theorem reloadI_reconstruct (d : IcMgr) : reloadI true d = { held := [], queue := d.queue } := by
  simp [reloadI, interceptsFromDisk_reconstruct, regen]

theorem any_id_iff (q : List IcEv) (id : Nat) : q.any (eventIsFor id) = q.any (fun e => e.interceptId == id) := by
  induction q with
  | nil => rfl
  | cons e t ih =>
    simp only [List.any_cons, ih]
    have hh : eventIsFor id e = (e.interceptId == id) := by
      cases h : eventIsFor id e
      · have : ¬ e.interceptId = id := fun hh => by rw [(eventIsFor_iff id e).2 hh] at h; cases h
        simp [this]
      · have := (eventIsFor_iff id e).1 h
        simp [this]
    rw [hh]

theorem regenStep_eq (q : List IcEv) (kv : Nat × IcHtlc) :
    regenStep q kv = q ∨ ∃ e, mkInterceptedEvent kv.1 kv.2 = some e ∧ regenStep q kv = q ++ [e] := by
  unfold regenStep
  split
  · cases h : mkInterceptedEvent kv.1 kv.2 with
    | none => left; rfl
    | some e => right; exact ⟨e, rfl, rfl⟩
  · left; rfl

/-- an iteration never removes an event -/
theorem regenStep_mono (q : List IcEv) (kv : Nat × IcHtlc) (p : IcEv → Bool) (h : q.any p = true) : (regenStep q kv).any p = true := by
  rcases regenStep_eq q kv with h1 | ⟨e, _, h1⟩ <;> rw [h1]
  · exact h
  · simp [List.any_append, h]

/-- after its iteration the key has an event, provided one can be built for the held HTLC -/
theorem regenStep_covers (q : List IcEv) (kv : Nat × IcHtlc) (hw : (mkInterceptedEvent kv.1 kv.2).isSome = true) :
    (regenStep q kv).any (fun e => e.interceptId == kv.1) = true := by
  cases hf : q.any (fun e => e.interceptId == kv.1) with
  | true => exact regenStep_mono q kv _ hf
  | false =>
    unfold regenStep
    rw [any_id_iff, hf, regenWhen_spec]
    cases he : mkInterceptedEvent kv.1 kv.2 with
    | none => rw [he] at hw; cases hw
    | some e => simp [List.any_append, mkInterceptedEvent_id he]

/-- an HTLC whose event is in the written queue gets no second one -/
theorem regenStep_noop_of_pending (q : List IcEv) (kv : Nat × IcHtlc) (h : q.any (fun e => e.interceptId == kv.1) = true) :
    regenStep q kv = q := by
  unfold regenStep
  rw [any_id_iff, h, regenWhen_spec]
  rfl

theorem regen_mono (held : List (Nat × IcHtlc)) (q : List IcEv) (p : IcEv → Bool) (h : q.any p = true) : (regen held q).any p = true := by
  induction held generalizing q with
  | nil => exact h
  | cons kv t ih => exact ih (regenStep q kv) (regenStep_mono q kv p h)

/-- the loop leaves an event for EVERY held HTLC -/
theorem regen_covers (held : List (Nat × IcHtlc)) (q : List IcEv) (hw : ∀ kv ∈ held, (mkInterceptedEvent kv.1 kv.2).isSome = true) :
    ∀ kv ∈ held, (regen held q).any (fun e => e.interceptId == kv.1) = true := by
  induction held generalizing q with
  | nil => intro kv hkv; cases hkv
  | cons a t ih =>
    intro kv hkv
    rcases List.mem_cons.1 hkv with rfl | hin
    · exact regen_mono t _ _ (regenStep_covers q kv (hw kv (List.mem_cons_self ..)))
    · exact ih (regenStep q a) (fun x hx => hw x (List.mem_cons_of_mem _ hx)) kv hin

/-- events of the written queue all survive, in order, in front of the created ones -/
theorem regen_prefix (held : List (Nat × IcHtlc)) (q : List IcEv) : ∃ r, regen held q = q ++ r := by
  induction held generalizing q with
  | nil => exact ⟨[], by simp [regen]⟩
  | cons a t ih =>
    obtain ⟨r, hr⟩ := ih (regenStep q a)
    rcases regenStep_eq q a with h1 | ⟨e, _, h1⟩
    · exact ⟨r, by simp only [regen, List.foldl_cons] at hr ⊢; rw [h1] at hr ⊢; exact hr⟩
    · exact ⟨e :: r, by simp only [regen, List.foldl_cons] at hr ⊢; rw [h1] at hr ⊢; simp [hr]⟩

/-- run invariant -/
structure IInv (s : ISt) : Prop where
  /-- an event can be built for every held HTLC (it was inserted together with one) -/
  wl : ∀ kv ∈ s.live.held, (mkInterceptedEvent kv.1 kv.2).isSome = true
  wd : ∀ kv ∈ s.disk.held, (mkInterceptedEvent kv.1 kv.2).isSome = true
  /-- every held HTLC has its event pending, or the handler accepted it since the last (re)start -/
  k : ∀ kv ∈ s.live.held, s.live.eventPending kv.1 = true ∨ kv.1 ∈ s.told

theorem iinv_init : IInv ISt.init :=
  ⟨by intro kv h; simp [ISt.init] at h, by intro kv h; simp [ISt.init] at h, by intro kv h; simp [ISt.init] at h⟩

theorem iinv_step (s : ISt) (op : IOp) (h : IInv s) : IInv (istep s op) := by
  cases op with
  | intercept id ht =>
    simp only [istep]
    split
    · exact h
    · cases he : mkInterceptedEvent id ht with
      | none => exact h
      | some e =>
        refine ⟨?_, h.wd, ?_⟩
        · intro kv hkv
          rcases List.mem_append.1 hkv with hin | hin
          · exact h.wl kv hin
          · simp at hin; subst hin; simp [he]
        · intro kv hkv
          rcases List.mem_append.1 hkv with hin | hin
          · rcases h.k kv hin with hp | ht'
            · left
              simp only [IcMgr.eventPending, List.any_eq_true] at hp ⊢
              obtain ⟨x, hx, hxid⟩ := hp
              by_cases hxe : x = e
              · exact ⟨e, by simp, by rw [← hxe]; exact hxid⟩
              · exact ⟨x, by simp [hx, hxe], hxid⟩
            · right; exact ht'
          · simp at hin; subst hin
            left
            simp only [IcMgr.eventPending, List.any_eq_true]
            exact ⟨e, by simp, by simp [mkInterceptedEvent_id he]⟩
  | handle k =>
    refine ⟨h.wl, h.wd, ?_⟩
    intro kv hkv
    rcases h.k kv hkv with hp | ht
    · simp only [IcMgr.eventPending, List.any_eq_true] at hp
      obtain ⟨x, hx, hxid⟩ := hp
      rw [← List.take_append_drop k s.live.queue] at hx
      rcases List.mem_append.1 hx with h1 | h1
      · right
        simp only [istep, List.mem_append, List.mem_map]
        right; exact ⟨x, h1, by simpa using hxid⟩
      · left
        simp only [istep, IcMgr.eventPending, List.any_eq_true]
        exact ⟨x, h1, hxid⟩
    · right; simp only [istep, List.mem_append]; left; exact ht
  | resolve id =>
    refine ⟨?_, h.wd, ?_⟩
    · intro kv hkv
      exact h.wl kv (List.mem_filter.1 hkv).1
    · intro kv hkv
      exact h.k kv (List.mem_filter.1 hkv).1
  | blocks ht =>
    refine ⟨?_, h.wd, ?_⟩
    · intro kv hkv
      exact h.wl kv (List.mem_filter.1 hkv).1
    · intro kv hkv
      exact h.k kv (List.mem_filter.1 hkv).1
  | persist => exact ⟨h.wl, h.wl, h.k⟩
  | crash =>
    have hheld : (reloadI false s.disk).held = s.disk.held := by simp [reloadI, interceptsFromDisk_legacy]
    have hq : (reloadI false s.disk).queue = regen s.disk.held s.disk.queue := by simp [reloadI, interceptsFromDisk_legacy]
    refine ⟨?_, h.wd, ?_⟩
    · intro kv hkv
      simp only [istep] at hkv; rw [hheld] at hkv
      exact h.wd kv hkv
    · intro kv hkv
      simp only [istep] at hkv; rw [hheld] at hkv
      left
      simp only [istep, IcMgr.eventPending, hq]
      exact regen_covers s.disk.held s.disk.queue h.wd kv hkv
  | crashRebuild =>
    refine ⟨?_, h.wd, ?_⟩ <;> intro kv hkv <;> simp [istep, reloadI_reconstruct] at hkv

theorem irun_inv (ops : List IOp) : IInv (irun ops) := by
  unfold irun
  suffices H : ∀ s, IInv s → IInv (ops.foldl istep s) from H _ iinv_init
  induction ops with
  | nil => intro s h; exact h
  | cons op t ih => intro s h; exact ih _ (iinv_step s op h)

end Ldk.Restart
