/- Helper lemmas for C10 (Model/Restart.lean): characterisations of the generated predicates,
   monotonicity of the commitment numbers, the run invariant and its preservation. -/
import LdkModel.Model.Restart
namespace Ldk.Restart

/-! ### the generated predicates, as propositions -/

theorem nmax_eq (a b : Nat) : Nat.max a b = max a b := rfl

theorem isStale_iff (a b c d e f g h : Nat) :
    isStale a b c d e f g h = true ↔ (a > b ∨ c > d ∨ e > f ∨ g < h) := by
  simp [isStale, or_assoc]

theorem isDangerous_iff (u m x : Nat) : isDangerous u m x = true ↔ u > Nat.max m x := by
  simp [isDangerous]

theorem shouldReplay_iff (i m : Nat) : shouldReplay i m = true ↔ i > m := by simp [shouldReplay]
theorem inFlightCompleted_iff (i m : Nat) : inFlightCompleted i m = true ↔ i ≤ m := by simp [inFlightCompleted]
theorem allCompleted_iff (a b : Nat) : allCompleted a b = true ↔ a = b := by simp [allCompleted]
theorem blockedDropped_iff (i m : Nat) : blockedDropped i m = true ↔ i ≤ m := by simp [blockedDropped]

theorem foldl_max_ge_acc (l : List Nat) (acc : Nat) : acc ≤ l.foldl maxInFlightStep acc := by
  induction l generalizing acc with
  | nil => simp
  | cons x xs ih =>
    simp only [List.foldl_cons]
    exact Nat.le_trans (by simp [maxInFlightStep]; exact Nat.le_max_left acc x) (ih _)

theorem foldl_max_ge_mem (l : List Nat) (acc i : Nat) (h : i ∈ l) : i ≤ l.foldl maxInFlightStep acc := by
  induction l generalizing acc with
  | nil => cases h
  | cons x xs ih =>
    simp only [List.foldl_cons]
    rcases List.mem_cons.mp h with rfl | h'
    · exact Nat.le_trans (by simp [maxInFlightStep]; exact Nat.le_max_right acc i) (foldl_max_ge_acc xs _)
    · exact ih _ h'

theorem maxInFlight_ge_mem (l : List Nat) (i : Nat) (h : i ∈ l) : i ≤ maxInFlight l :=
  foldl_max_ge_mem l 0 i h

/-- the macro's two filters and the all-completed shortcut amount to one filter -/
theorem replayList_eq (l : List Nat) (m : Nat) : replayList l m = l.filter (fun i => decide (i > m)) := by
  unfold replayList
  have hf : (fun id => shouldReplay id m) = (fun i => decide (i > m)) := by
    funext i; simp [shouldReplay]
  simp only [hf]
  split
  · rename_i hc
    rw [allCompleted_iff, List.length_filter_eq_length_iff] at hc
    symm
    rw [List.filter_eq_nil_iff]
    intro a ha
    have := hc a ha
    rw [inFlightCompleted_iff] at this
    simp; omega
  · rfl

theorem mem_replayList (l : List Nat) (m i : Nat) : i ∈ replayList l m ↔ i ∈ l ∧ i > m := by
  rw [replayList_eq]; simp

/-- filtering a run of consecutive ids keeps the consecutive tail above `d` -/
theorem filter_gt_range' (a n d : Nat) :
    (List.range' a n).filter (fun i => decide (i > d)) =
      List.range' (Nat.max a (d + 1)) (a + n - Nat.max a (d + 1)) := by
  induction n generalizing a with
  | zero =>
    have : a - Nat.max a (d + 1) = 0 := by rw [nmax_eq]; omega
    simp [this]
  | succ n ih =>
    rw [List.range'_succ, List.filter_cons]
    by_cases h : a > d
    · have h1 : Nat.max a (d + 1) = a := Nat.max_eq_left (by omega)
      have h2 : Nat.max (a + 1) (d + 1) = a + 1 := Nat.max_eq_left (by omega)
      simp only [h, decide_true, if_true, ih (a + 1), h1, h2]
      have : a + (n + 1) - a = (a + 1 + n - (a + 1)) + 1 := by omega
      rw [this, List.range'_succ]
    · have h1 : Nat.max a (d + 1) = d + 1 := Nat.max_eq_right (by omega)
      have h2 : Nat.max (a + 1) (d + 1) = d + 1 := Nat.max_eq_right (by omega)
      simp only [h, decide_false, ih (a + 1), h1, h2]
      have : a + 1 + n = a + (n + 1) := by omega
      simp [this]

theorem monIdAfter_range' (d n : Nat) : monIdAfter d (List.range' (d + 1) n) = d + n := by
  unfold monIdAfter
  induction n generalizing d with
  | zero => simp
  | succ n ih =>
    rw [List.range'_succ, List.foldl_cons]
    have := ih (d + 1)
    rw [this]; omega

/-! ### commitment numbers only go down -/

theorem foldl_apply_le (l : List Upd) (n : Nums) :
    (l.foldl Nums.apply n).holder ≤ n.holder ∧ (l.foldl Nums.apply n).cp ≤ n.cp ∧
    (l.foldl Nums.apply n).secret ≤ n.secret := by
  induction l generalizing n with
  | nil => simp
  | cons u us ih =>
    simp only [List.foldl_cons]
    have := ih (n.apply u)
    simp only [Nums.apply] at this ⊢
    omega

theorem numsAt_mono (b : Nums) (us : List Upd) (j k : Nat) (h : j ≤ k) :
    (numsAt b us k).holder ≤ (numsAt b us j).holder ∧ (numsAt b us k).cp ≤ (numsAt b us j).cp ∧
    (numsAt b us k).secret ≤ (numsAt b us j).secret := by
  induction us generalizing b j k with
  | nil => simp [numsAt]
  | cons u us ih =>
    cases j with
    | zero =>
      simp only [numsAt, List.take_zero, List.foldl_nil]
      exact foldl_apply_le _ _
    | succ j =>
      cases k with
      | zero => omega
      | succ k =>
        simp only [numsAt, List.take_succ_cons, List.foldl_cons]
        exact ih (b.apply u) j k (by omega)

theorem numsAt_append (b : Nums) (us : List Upd) (u : Upd) (k : Nat) (h : k ≤ us.length) :
    numsAt b (us ++ [u]) k = numsAt b us k := by
  simp [numsAt, List.take_append_of_le_length h]

theorem numsAt_take (b : Nums) (us : List Upd) (n k : Nat) (h : k ≤ n) :
    numsAt b (us.take n) k = numsAt b us k := by
  simp [numsAt, List.take_take, Nat.min_eq_left h]

/-! ### worlds that may be reloaded safely -/

/-- Every update the manager snapshot believes handed to chain::Watch is either contained in the
    monitor on disk or still listed as in flight in that snapshot.  (This is what "the manager is
    never newer than what was handed to Watch and every completed update is on disk" gives.) -/
def Admissible (w : World) : Prop :=
  ∀ i, w.mon.id < i → i ≤ w.mgr.unblockedId → i ∈ w.mgr.inFlight

theorem not_dangerous_of_admissible (w : World) (h : Admissible w) : w.dangerous = false := by
  cases hd : w.dangerous with
  | false => rfl
  | true =>
    exfalso
    unfold World.dangerous at hd
    rw [isDangerous_iff] at hd
    have h1 : w.mon.id < w.mgr.unblockedId := Nat.lt_of_le_of_lt (Nat.le_max_left _ _) hd
    have h2 := maxInFlight_ge_mem _ _ (h w.mgr.unblockedId h1 (Nat.le_refl _))
    have h3 : maxInFlight w.mgr.inFlight ≤ Nat.max w.mon.id (maxInFlight w.mgr.inFlight) := Nat.le_max_right _ _
    omega

theorem stale_iff (w : World) :
    w.stale = true ↔ (w.mgr.nums.holder > w.mon.nums.holder ∨ w.mgr.nums.secret > w.mon.nums.secret ∨
      w.mgr.nums.cp > w.mon.nums.cp ∨ w.mgr.latestId < w.mon.id) := by
  unfold World.stale; rw [isStale_iff]

theorem reload_closed_iff (w : World) : (∃ r c, reload w = .closed r c) ↔ w.stale = true := by
  unfold reload
  constructor
  · rintro ⟨r, c, h⟩
    cases hs : w.stale with
    | true => rfl
    | false =>
      cases hd : w.dangerous <;> simp [hs, hd] at h
  · intro hs; simp [hs]

theorem reload_resumed (w : World) (r : List Nat) (h : reload w = .resumed r) :
    w.stale = false ∧ w.dangerous = false ∧ r = replayList w.mgr.inFlight w.mon.id := by
  unfold reload at h
  cases hs : w.stale with
  | true => simp [hs] at h
  | false =>
    cases hd : w.dangerous with
    | true => simp [hs, hd] at h
    | false => simp [hs, hd] at h; exact ⟨rfl, rfl, h.symm⟩

/-! ### the run invariant -/

structure Inv (st : St) : Prop where
  h1 : st.baseId ≤ st.durable
  h2 : st.durable ≤ st.watch
  h3 : st.closed = false → st.watch ≤ st.latest
  h4 : st.lo ≤ st.durable + 1
  d2 : st.disk.unblockedId ≤ st.disk.latestId
  d3 : st.disk.latestId ≤ st.latest
  d4 : st.closed = false → st.disk.unblockedId ≤ st.watch
  d5 : ∃ a, a ≤ st.durable + 1 ∧ st.disk.inFlight = List.range' a (st.disk.unblockedId + 1 - a)
  d6 : st.disk.nums = numsAt st.base st.upds (st.disk.latestId - st.baseId)
  d7 : st.baseId ≤ st.disk.latestId
  c1 : st.closed = true → st.disk.latestId < st.durable

theorem inv_init (baseId : Nat) (base : Nums) : Inv (St.init baseId base) := by
  refine ⟨?_, ?_, ?_, ?_, ?_, ?_, ?_, ?_, ?_, ?_, ?_⟩ <;> simp [St.init, St.latest, numsAt]
  exact ⟨baseId + 1, by omega, by simp⟩

/-- in a run world the four-way test reduces to the update-id comparison: the numbers of a monitor
    containing no more updates than the manager knows are never below the manager's -/
theorem run_stale_iff (st : St) (hI : Inv st) (d : Nat) (hd : st.baseId ≤ d) :
    (st.world d).stale = true ↔ st.disk.latestId < d := by
  rw [stale_iff]
  constructor
  · intro h
    by_cases hlt : st.disk.latestId < d
    · exact hlt
    · exfalso
      have hm := numsAt_mono st.base st.upds (d - st.baseId) (st.disk.latestId - st.baseId) (by omega)
      have h6 := hI.d6
      simp only [St.world] at h
      rw [h6] at h
      omega
  · intro h; simp only [St.world]; right; right; right; exact h

theorem run_admissible (st : St) (hI : Inv st) (d : Nat) (hd : st.durable ≤ d) : Admissible (st.world d) := by
  intro i hi hu
  obtain ⟨a, ha, hl⟩ := hI.d5
  simp only [St.world] at hi hu ⊢
  rw [hl, List.mem_range'_1]
  omega

theorem inv_crashStep (st : St) (hI : Inv st) (d : Nat) (h1 : st.durable ≤ d) (_h2 : d ≤ st.watch) :
    Inv (crashStep st d) := by
  have hb : st.baseId ≤ d := Nat.le_trans hI.h1 h1
  unfold crashStep
  split
  · exact hI
  · rename_i r c hr
    have hs : (st.world d).stale = true := (reload_closed_iff _).mp ⟨r, c, hr⟩
    have hlt : st.disk.latestId < d := (run_stale_iff st hI d hb).mp hs
    obtain ⟨a, ha, hl⟩ := hI.d5
    refine ⟨?_, ?_, ?_, ?_, ?_, ?_, ?_, ?_, ?_, ?_, ?_⟩ <;> simp only [St.latest] <;> try simp
    · exact hb
    · exact Nat.le_max_left d c
    · exact hI.d2
    · exact hI.d3
    · exact ⟨a, by omega, hl⟩
    · exact hI.d6
    · exact hI.d7
    · exact hlt
  · rename_i r hr
    obtain ⟨hs, _, _⟩ := reload_resumed _ _ hr
    have hle : d ≤ st.disk.latestId := by
      by_cases hlt : st.disk.latestId < d
      · have := (run_stale_iff st hI d hb).mpr hlt; rw [hs] at this; cases this
      · omega
    have hnc : st.closed = false := by
      cases hc : st.closed with
      | false => rfl
      | true => have := hI.c1 hc; omega
    obtain ⟨a, ha, hl⟩ := hI.d5
    have hd3 := hI.d3
    have hlen : st.baseId + (List.take (st.disk.latestId - st.baseId) st.upds).length = st.disk.latestId := by
      simp only [St.latest] at hd3
      rw [List.length_take]; have := hI.d7; omega
    refine ⟨?_, ?_, ?_, ?_, ?_, ?_, ?_, ?_, ?_, ?_, ?_⟩ <;> simp only [St.latest] <;> try simp only [hlen]
    · exact hb
    · exact Nat.le_max_left d _
    · intro _; exact Nat.max_le.mpr ⟨hle, hI.d2⟩
    · exact Nat.le_refl _
    · exact hI.d2
    · exact Nat.le_refl _
    · intro _; exact Nat.le_max_right d _
    · exact ⟨a, by omega, hl⟩
    · rw [numsAt_take _ _ _ _ (Nat.le_refl _)]; exact hI.d6
    · exact hI.d7
    · intro hc; rw [hnc] at hc; cases hc

theorem inv_step (st : St) (hI : Inv st) (op : Op) (hj : op.isJump = false) : Inv (step st op) := by
  cases op with
  | jump u => simp [Op.isJump] at hj
  | update u blocked =>
    simp only [step]
    split
    · exact hI
    · rename_i hc
      have hc : st.closed = false := by simpa using hc
      have h3 := hI.h3 hc
      have hd3 := hI.d3
      have hd7 := hI.d7
      simp only [St.latest] at h3 hd3
      split
      · refine ⟨hI.h1, hI.h2, ?_, hI.h4, hI.d2, ?_, hI.d4, hI.d5, ?_, hI.d7, hI.c1⟩ <;> simp only [St.latest, List.length_append, List.length_singleton]
        · intro _; omega
        · omega
        · rw [numsAt_append _ _ _ _ (by omega)]; exact hI.d6
      · rename_i hb
        simp only [Bool.or_eq_true, decide_eq_true_eq, not_or, Nat.not_lt] at hb
        refine ⟨hI.h1, ?_, ?_, hI.h4, hI.d2, ?_, ?_, hI.d5, ?_, hI.d7, hI.c1⟩ <;> simp only [St.latest, List.length_append, List.length_singleton]
        · have := hI.h2; omega
        · intro _; omega
        · omega
        · intro h; have := hI.d4 h; omega
        · rw [numsAt_append _ _ _ _ (by omega)]; exact hI.d6
  | release =>
    simp only [step]
    split
    · rename_i h
      simp only [Bool.and_eq_true, Bool.not_eq_true', decide_eq_true_eq] at h
      refine ⟨hI.h1, ?_, ?_, hI.h4, hI.d2, hI.d3, ?_, hI.d5, hI.d6, hI.d7, hI.c1⟩
      · have := hI.h2; simp only; omega
      · intro _; simp only [St.latest] at h ⊢; omega
      · intro hc; have := hI.d4 hc; simp only; omega
    · exact hI
  | complete k =>
    simp only [step]
    split
    · rename_i h
      simp only [Bool.and_eq_true, decide_eq_true_eq] at h
      obtain ⟨a, ha, hl⟩ := hI.d5
      refine ⟨?_, ?_, hI.h3, ?_, hI.d2, hI.d3, hI.d4, ⟨a, ?_, hl⟩, hI.d6, hI.d7, ?_⟩ <;> simp only
      · have := hI.h1; omega
      · omega
      · have := hI.h4; omega
      · omega
      · intro hc; have := hI.c1 hc; omega
    · exact hI
  | notify =>
    simp only [step]
    split
    · rename_i h
      simp only [decide_eq_true_eq] at h
      refine ⟨hI.h1, hI.h2, hI.h3, ?_, hI.d2, hI.d3, hI.d4, hI.d5, hI.d6, hI.d7, hI.c1⟩
      simp only; omega
    · exact hI
  | persistManager =>
    simp only [step]
    split
    · exact hI
    · rename_i hc
      have hc : st.closed = false := by simpa using hc
      have h3 := hI.h3 hc
      refine ⟨hI.h1, hI.h2, hI.h3, hI.h4, ?_, ?_, ?_, ?_, ?_, ?_, ?_⟩ <;> simp only [St.curMgr, St.latest] at h3 ⊢
      · exact h3
      · exact Nat.le_refl _
      · intro _; exact Nat.le_refl _
      · exact ⟨st.lo, hI.h4, rfl⟩
      · simp
      · omega
      · intro h; rw [hc] at h; cases h
  | crash d =>
    simp only [step]
    split
    · rename_i h
      simp only [Bool.and_eq_true, decide_eq_true_eq] at h
      exact inv_crashStep st hI d h.1 h.2
    · exact hI

/-- op lists without a preimage update jumping ahead of blocked updates -/
def NoJump (ops : List Op) : Prop := ∀ op ∈ ops, op.isJump = false

theorem inv_run (st : St) (hI : Inv st) (ops : List Op) (hj : NoJump ops) : Inv (run st ops) := by
  induction ops generalizing st with
  | nil => exact hI
  | cons op ops ih =>
    exact ih _ (inv_step st hI op (hj op (List.mem_cons_self ..))) (fun o ho => hj o (List.mem_cons_of_mem _ ho))

/-! ### the part of the invariant that survives every op, including `jump` -/

structure Inv0 (st : St) : Prop where
  h1 : st.baseId ≤ st.durable
  h2 : st.durable ≤ st.watch
  h3 : st.closed = false → st.watch ≤ st.latest
  h4 : st.lo ≤ st.durable + 1
  d2 : st.disk.unblockedId ≤ st.disk.latestId
  d3 : st.disk.latestId ≤ st.latest
  d4 : st.closed = false → st.disk.unblockedId ≤ st.watch
  d5 : ∃ a, a ≤ st.durable + 1 ∧ st.disk.inFlight = List.range' a (st.disk.unblockedId + 1 - a)
  d7 : st.baseId ≤ st.disk.latestId

theorem inv0_of_inv (st : St) (h : Inv st) : Inv0 st :=
  ⟨h.h1, h.h2, h.h3, h.h4, h.d2, h.d3, h.d4, h.d5, h.d7⟩

theorem run_admissible0 (st : St) (hI : Inv0 st) (d : Nat) (hd : st.durable ≤ d) : Admissible (st.world d) := by
  intro i hi hu
  obtain ⟨a, ha, hl⟩ := hI.d5
  simp only [St.world] at hi hu ⊢
  rw [hl, List.mem_range'_1]
  omega

theorem inv0_crashStep (st : St) (hI : Inv0 st) (d : Nat) (h1 : st.durable ≤ d) (_h2 : d ≤ st.watch) :
    Inv0 (crashStep st d) := by
  have hb : st.baseId ≤ d := Nat.le_trans hI.h1 h1
  obtain ⟨a, ha, hl⟩ := hI.d5
  unfold crashStep
  split
  · exact hI
  · rename_i r c hr
    refine ⟨?_, ?_, ?_, ?_, ?_, ?_, ?_, ?_, ?_⟩ <;> simp only [St.latest] <;> try simp
    · exact hb
    · exact Nat.le_max_left d c
    · exact hI.d2
    · exact hI.d3
    · exact ⟨a, by omega, hl⟩
    · exact hI.d7
  · rename_i r hr
    obtain ⟨hs, _, _⟩ := reload_resumed _ _ hr
    have hle : d ≤ st.disk.latestId := by
      by_cases hlt : st.disk.latestId < d
      · have : (st.world d).stale = true := by
          rw [stale_iff]; right; right; right; simpa [St.world] using hlt
        rw [hs] at this; cases this
      · omega
    have hd3 := hI.d3
    have hlen : st.baseId + (List.take (st.disk.latestId - st.baseId) st.upds).length = st.disk.latestId := by
      simp only [St.latest] at hd3
      rw [List.length_take]; have := hI.d7; omega
    refine ⟨?_, ?_, ?_, ?_, ?_, ?_, ?_, ?_, ?_⟩ <;> simp only [St.latest] <;> try simp only [hlen]
    · exact hb
    · exact Nat.le_max_left d _
    · intro _; exact Nat.max_le.mpr ⟨hle, hI.d2⟩
    · exact Nat.le_refl _
    · exact hI.d2
    · exact Nat.le_refl _
    · intro _; exact Nat.le_max_right d _
    · exact ⟨a, by omega, hl⟩
    · exact hI.d7

theorem inv0_step (st : St) (hI : Inv0 st) (op : Op) : Inv0 (step st op) := by
  cases op with
  | update u blocked =>
    simp only [step]
    split
    · exact hI
    · rename_i hc
      have hc : st.closed = false := by simpa using hc
      have h3 := hI.h3 hc
      have hd3 := hI.d3
      simp only [St.latest] at h3 hd3
      split
      · refine ⟨hI.h1, hI.h2, ?_, hI.h4, hI.d2, ?_, hI.d4, hI.d5, hI.d7⟩ <;> simp only [St.latest, List.length_append, List.length_singleton]
        · intro _; omega
        · omega
      · rename_i hb
        simp only [Bool.or_eq_true, decide_eq_true_eq, not_or, Nat.not_lt] at hb
        refine ⟨hI.h1, ?_, ?_, hI.h4, hI.d2, ?_, ?_, hI.d5, hI.d7⟩ <;> simp only [St.latest, List.length_append, List.length_singleton]
        · have := hI.h2; omega
        · intro _; omega
        · omega
        · intro h; have := hI.d4 h; omega
  | jump u =>
    simp only [step]
    split
    · exact hI
    · rename_i hc
      have hc : st.closed = false := by simpa using hc
      have h3 := hI.h3 hc
      have hd3 := hI.d3
      have h1 := hI.h1
      have h2 := hI.h2
      simp only [St.latest] at h3 hd3
      have hlen : (List.take (st.watch - st.baseId) st.upds ++ u :: List.drop (st.watch - st.baseId) st.upds).length = st.upds.length + 1 := by
        simp only [List.length_append, List.length_take, List.length_cons, List.length_drop]; omega
      refine ⟨hI.h1, ?_, ?_, hI.h4, hI.d2, ?_, ?_, hI.d5, hI.d7⟩ <;> simp only [St.latest, hlen]
      · omega
      · intro _; omega
      · omega
      · intro h; have := hI.d4 h; omega
  | release =>
    simp only [step]
    split
    · rename_i h
      simp only [Bool.and_eq_true, Bool.not_eq_true', decide_eq_true_eq] at h
      refine ⟨hI.h1, ?_, ?_, hI.h4, hI.d2, hI.d3, ?_, hI.d5, hI.d7⟩
      · have := hI.h2; simp only; omega
      · intro _; simp only [St.latest] at h ⊢; omega
      · intro hc; have := hI.d4 hc; simp only; omega
    · exact hI
  | complete k =>
    simp only [step]
    split
    · rename_i h
      simp only [Bool.and_eq_true, decide_eq_true_eq] at h
      obtain ⟨a, ha, hl⟩ := hI.d5
      refine ⟨?_, ?_, hI.h3, ?_, hI.d2, hI.d3, hI.d4, ⟨a, ?_, hl⟩, hI.d7⟩ <;> simp only
      · have := hI.h1; omega
      · omega
      · have := hI.h4; omega
      · omega
    · exact hI
  | notify =>
    simp only [step]
    split
    · rename_i h
      simp only [decide_eq_true_eq] at h
      refine ⟨hI.h1, hI.h2, hI.h3, ?_, hI.d2, hI.d3, hI.d4, hI.d5, hI.d7⟩
      simp only; omega
    · exact hI
  | persistManager =>
    simp only [step]
    split
    · exact hI
    · rename_i hc
      have hc : st.closed = false := by simpa using hc
      have h3 := hI.h3 hc
      refine ⟨hI.h1, hI.h2, hI.h3, hI.h4, ?_, ?_, ?_, ?_, ?_⟩ <;> simp only [St.curMgr, St.latest] at h3 ⊢
      · exact h3
      · exact Nat.le_refl _
      · intro _; exact Nat.le_refl _
      · exact ⟨st.lo, hI.h4, rfl⟩
      · omega
  | crash d =>
    simp only [step]
    split
    · rename_i h
      simp only [Bool.and_eq_true, decide_eq_true_eq] at h
      exact inv0_crashStep st hI d h.1 h.2
    · exact hI

theorem inv0_run (st : St) (hI : Inv0 st) (ops : List Op) : Inv0 (run st ops) := by
  induction ops generalizing st with
  | nil => exact hI
  | cons op ops ih => exact ih _ (inv0_step st hI op)

/-! ### reconciliation of queued forwards -/

theorem pendingForwardMatches_iff (a b c d : Nat) : pendingForwardMatches a b c d = true ↔ a = c ∧ b = d := by
  simp [pendingForwardMatches]

theorem dedupMatches_iff (a b : Nat) : dedupMatches a b = true ↔ a = b := by simp [dedupMatches]

theorem mem_reconcile (q mons : List HtlcRef) (f : HtlcRef) :
    f ∈ reconcile q mons ↔ f ∈ q ∧ ∀ h ∈ mons, pendingForwardMatches f.chan f.id h.chan h.id = false := by
  unfold reconcile
  induction mons generalizing q with
  | nil => simp
  | cons h hs ih =>
    rw [List.foldl_cons, ih]
    simp only [reconcileOne, List.mem_filter, List.mem_cons, forall_eq_or_imp, Bool.not_eq_true', and_assoc]

theorem mem_decodeRefs (m : List (Nat × List Nat)) (r : HtlcRef) :
    r ∈ decodeRefs m ↔ ∃ e ∈ m, e.1 = r.chan ∧ r.id ∈ e.2 := by
  unfold decodeRefs
  rw [List.mem_flatMap]
  constructor
  · rintro ⟨e, he, hr⟩
    obtain ⟨i, hi, rfl⟩ := List.mem_map.mp hr
    exact ⟨e, he, rfl, hi⟩
  · rintro ⟨e, he, h1, h2⟩
    refine ⟨e, he, List.mem_map.mpr ⟨r.id, h2, ?_⟩⟩
    cases r; simp_all

theorem mem_decodeRefs_one (m : List (Nat × List Nat)) (h r : HtlcRef) :
    r ∈ decodeRefs (dedupDecodeOne m h) ↔ r ∈ decodeRefs m ∧ ¬ (r.chan = h.chan ∧ dedupMatches r.id h.id = true) := by
  rw [mem_decodeRefs, mem_decodeRefs]
  unfold dedupDecodeOne
  constructor
  · rintro ⟨e', he', h1, h2⟩
    rw [List.mem_filter, List.mem_map] at he'
    obtain ⟨⟨e, he, rfl⟩, _⟩ := he'
    by_cases hc : e.1 = h.chan
    · simp only [hc, if_true] at h1 h2
      rw [List.mem_filter] at h2
      refine ⟨⟨e, he, by rw [hc]; exact h1, h2.1⟩, ?_⟩
      rintro ⟨_, hm⟩
      have := h2.2; simp [hm] at this
    · simp only [hc, if_false] at h1 h2
      refine ⟨⟨e, he, h1, h2⟩, ?_⟩
      rintro ⟨hrc, _⟩
      exact hc (h1.trans hrc)
  · rintro ⟨⟨e, he, h1, h2⟩, hn⟩
    by_cases hc : e.1 = h.chan
    · have hm : dedupMatches r.id h.id = false := by
        cases hx : dedupMatches r.id h.id with
        | false => rfl
        | true => exact absurd ⟨h1.symm.trans hc, hx⟩ hn
      refine ⟨(e.1, e.2.filter (fun i => !dedupMatches i h.id)), ?_, h1, ?_⟩
      · rw [List.mem_filter]
        refine ⟨List.mem_map.mpr ⟨e, he, by simp [hc]⟩, ?_⟩
        have : r.id ∈ e.2.filter (fun i => !dedupMatches i h.id) := by
          rw [List.mem_filter]; exact ⟨h2, by simp [hm]⟩
        cases hl : e.2.filter (fun i => !dedupMatches i h.id) with
        | nil => rw [hl] at this; cases this
        | cons a l => simp
      · rw [List.mem_filter]; exact ⟨h2, by simp [hm]⟩
    · refine ⟨e, ?_, h1, h2⟩
      rw [List.mem_filter]
      refine ⟨List.mem_map.mpr ⟨e, he, by simp [hc]⟩, ?_⟩
      cases hl : e.2 with
      | nil => rw [hl] at h2; cases h2
      | cons a l => simp

theorem mem_decodeRefs_dedupDecode (m : List (Nat × List Nat)) (mons : List HtlcRef) (r : HtlcRef) :
    r ∈ decodeRefs (dedupDecode m mons) ↔
      r ∈ decodeRefs m ∧ ∀ h ∈ mons, ¬ (r.chan = h.chan ∧ dedupMatches r.id h.id = true) := by
  unfold dedupDecode
  induction mons generalizing m with
  | nil => simp
  | cons h hs ih =>
    rw [List.foldl_cons, ih, mem_decodeRefs_one]
    simp only [List.mem_cons, forall_eq_or_imp, and_assoc]

end Ldk.Restart
