/- C14 — failures in and around blinded payment paths: helper lemmas about the GENERATED sender loop `decodeGoB` and
   `getHtlcForwardFailure` (Generated/OnionBlinded.lean).  Core only (no Mathlib). -/
import LdkModel.Generated.OnionBlinded
import LdkModel.Proofs.OnionAttr
namespace Ldk.Onion
open Ldk

theorem parseFailure_hop (h : Nat) (p : Bytes) : (parseFailure h p).hop? = some h := by
  unfold parseFailure
  simp only []
  repeat' split
  all_goals rfl

theorem isFromFinal_false_of_rest (nb : Nat) : isFromFinalNonBlindedNode false nb = false := by
  simp [isFromFinalNonBlindedNode]

/-- one step of the loop at an unblinded hop that is followed by another unblinded hop -/
theorem decodeGoB_step_unblinded (C : OnionCrypto) (nb i : Nat) (k k2 : FailKeys) (rest : List (Bool × FailKeys)) (pkt : Bytes) :
    decodeGoB C nb i ((true, k) :: (true, k2) :: rest) pkt =
      if failMacOk C k (wrapFailure C k pkt) then .plain (parseFailure i (wrapFailure C k pkt))
      else decodeGoB C nb (i + 1) ((true, k2) :: rest) (wrapFailure C k pkt) := by
  simp [decodeGoB]

/-- the loop at the introduction node of a multi-hop blinded path: no decryption, no HMAC test -/
theorem decodeGoB_at_intro (C : OnionCrypto) (nb i : Nat) (k kb : FailKeys) (rest : List (Bool × FailKeys)) (pkt : Bytes) :
    decodeGoB C nb i ((true, k) :: (false, kb) :: rest) pkt = .withinBlindedPath i := by
  simp [decodeGoB, isFromFinalNonBlindedNode]

/-- **whatever the packet**: with at least one blinded hop after the introduction node, the loop either names (by its
    HMAC) a hop strictly BEFORE the introduction node, or reports "within the blinded path" exactly when it reaches the
    introduction node -/
theorem decodeGoB_cases (C : OnionCrypto) (nb : Nat) (kI kb : FailKeys) (bl : List FailKeys) :
    ∀ (pre : List FailKeys) (i : Nat) (pkt : Bytes),
      decodeGoB C nb i (pathHops (pre ++ [kI]) (kb :: bl)) pkt = .withinBlindedPath (i + pre.length) ∨
      ∃ j, j < pre.length ∧ ∃ p, decodeGoB C nb i (pathHops (pre ++ [kI]) (kb :: bl)) pkt = .plain (parseFailure (i + j) p)
  | [], i, pkt => by
    left
    simp only [pathHops, List.nil_append, List.map_cons, List.map_nil, List.cons_append, List.length_nil, Nat.add_zero]
    exact decodeGoB_at_intro C nb i kI kb _ pkt
  | k :: pre, i, pkt => by
    have hshape : pathHops (k :: pre ++ [kI]) (kb :: bl) =
        (true, k) :: pathHops (pre ++ [kI]) (kb :: bl) := by simp [pathHops]
    have hnext : ∃ k2 rest, pathHops (pre ++ [kI]) (kb :: bl) = (true, k2) :: rest := by
      cases pre with
      | nil => exact ⟨kI, _, rfl⟩
      | cons k2 t => exact ⟨k2, _, rfl⟩
    obtain ⟨k2, rest, hr⟩ := hnext
    rw [hshape, hr, decodeGoB_step_unblinded, ← hr]
    by_cases hm : failMacOk C k (wrapFailure C k pkt)
    · rw [if_pos hm]
      exact Or.inr ⟨0, by simp, _, rfl⟩
    · rw [if_neg hm]
      rcases decodeGoB_cases C nb kI kb bl pre (i + 1) (wrapFailure C k pkt) with h | ⟨j, hj, p, h⟩
      · left; rw [h]; simp only [List.length_cons]; congr 1; omega
      · right
        refine ⟨j + 1, by simp only [List.length_cons]; omega, p, ?_⟩
        rw [h]; congr 2; omega

/-- a failure relayed by the hops before the introduction node, none of whose HMACs verifies on what it relayed
    (`NoEarlyMatch`, as in `failure_roundtrip`): the sender reports "within the blinded path" at the introduction node -/
theorem decodeGoB_relay (C : OnionCrypto) (nb : Nat) (kI kb : FailKeys) (bl : List FailKeys) (inner : Bytes) :
    ∀ (pre : List FailKeys) (i : Nat), NoEarlyMatch C pre inner →
      decodeGoB C nb i (pathHops (pre ++ [kI]) (kb :: bl)) (relayFailure C pre inner) = .withinBlindedPath (i + pre.length)
  | [], i, _ => by
    simp only [pathHops, List.nil_append, List.map_cons, List.map_nil, List.cons_append, List.length_nil, Nat.add_zero]
    exact decodeGoB_at_intro C nb i kI kb _ _
  | k :: pre, i, hno => by
    obtain ⟨h1, h2⟩ := hno
    have hshape : pathHops (k :: pre ++ [kI]) (kb :: bl) =
        (true, k) :: pathHops (pre ++ [kI]) (kb :: bl) := by simp [pathHops]
    have hnext : ∃ k2 rest, pathHops (pre ++ [kI]) (kb :: bl) = (true, k2) :: rest := by
      cases pre with
      | nil => exact ⟨kI, _, rfl⟩
      | cons k2 t => exact ⟨k2, _, rfl⟩
    obtain ⟨k2, rest, hr⟩ := hnext
    have hrel : relayFailure C (k :: pre) inner = wrapFailure C k (relayFailure C pre inner) := rfl
    rw [hshape, hr, decodeGoB_step_unblinded, ← hr, hrel, wrapFailure_involutive, h1]
    simp only [Bool.false_eq_true, if_false]
    rw [decodeGoB_relay C nb kI kb bl inner pre (i + 1) h2]
    simp only [List.length_cons]; congr 1; omega

/-- a ONE-hop blinded path (the recipient is the introduction node; every hop of the loop has a RouteHop): the loop is
    the legacy one — the introduction node IS named by its HMAC -/
theorem decodeGoB_one_hop (C : OnionCrypto) (nb : Nat) (hnb : nb ≤ 1) :
    ∀ (ks : List FailKeys) (i : Nat) (pkt : Bytes),
      decodeGoB C nb i (pathHops ks []) pkt = .plain (decodeGo C i ks pkt)
  | [], _, _ => by simp [pathHops, decodeGoB, decodeGo]
  | [k], i, pkt => by
    have : isFromFinalNonBlindedNode true nb = true := by simp [isFromFinalNonBlindedNode, hnb]
    have hp : pathHops [k] [] = [(true, k)] := rfl
    rw [hp]
    simp only [decodeGoB, decodeGo, List.isEmpty_nil, this, Bool.not_true, Bool.false_eq_true, if_false, Bool.false_and]
    by_cases hm : failMacOk C k (wrapFailure C k pkt) <;> simp [hm]
  | k :: k2 :: rest, i, pkt => by
    have hs : pathHops (k :: k2 :: rest) [] = (true, k) :: (true, k2) :: pathHops rest [] := by simp [pathHops]
    have hs2 : pathHops (k2 :: rest) [] = (true, k2) :: pathHops rest [] := by simp [pathHops]
    rw [hs, decodeGoB_step_unblinded, ← hs2, decodeGo]
    by_cases hm : failMacOk C k (wrapFailure C k pkt)
    · simp only [hm, if_true]
    · simp only [hm, Bool.false_eq_true, if_false]
      exact decodeGoB_one_hop C nb hnb (k2 :: rest) (i + 1) _

theorem INVALID_ONION_BLINDING_eq : INVALID_ONION_BLINDING = 0xC018 := by decide

end Ldk.Onion
