/- C20 (round 6) — helper lemmas about the BlockSourceErrorKind of a failed init::synchronize_listeners:
   every error constructor of the model is followed back to the request that produced it. -/
import LdkModel.Model.ChainSync
namespace Ldk.ChainSync
open Ldk

/-- the block source itself answered a TRANSIENT error to some request (`fails` and `transient` of the schedule) -/
def TransientAnswered (s : Source) : Prop := ∃ r, s.fails r = true ∧ s.transient r = true

theorem Source.err_isTransient (s : Source) (r : Req) (h : (s.err r).isTransient = true) : s.transient r = true := by
  unfold Source.err at h
  cases ht : s.transient r with
  | true => rfl
  | false =>
    rw [ht] at h
    exact absurd h (by decide)

theorem getHeader_error_cases (s : Source) (req h : Nat) (e : Err) (he : s.getHeader req h = .error e) :
    (s.fails (.header req h) = true ∧ e = s.err (.header req h)) ∨ e = .source := by
  unfold Source.getHeader at he
  cases hf : s.fails (.header req h) with
  | true =>
    rw [hf] at he
    simp only [if_true] at he
    cases he
    exact .inl ⟨rfl, rfl⟩
  | false =>
    rw [hf] at he
    simp only [Bool.false_eq_true, if_false] at he
    right
    cases hh : s.hidden h with
    | true => rw [hh] at he; simp only [if_true] at he; cases he; rfl
    | false =>
      rw [hh] at he
      simp only [Bool.false_eq_true, if_false] at he
      cases ho : hdrOf s.tree h with
      | none => rw [ho] at he; cases he; rfl
      | some b => rw [ho] at he; cases he

theorem getBlock_error_cases (s : Source) (req : Nat) (b : Hdr) (e : Err) (he : s.getBlock req b = .error e) :
    (s.fails (.block req b.hash) = true ∧ e = s.err (.block req b.hash)) ∨ e = .source := by
  unfold Source.getBlock at he
  cases hf : s.fails (.block req b.hash) with
  | true =>
    rw [hf] at he
    simp only [if_true] at he
    cases he
    exact .inl ⟨rfl, rfl⟩
  | false =>
    rw [hf] at he
    simp only [Bool.false_eq_true, if_false] at he
    right
    cases hh : s.hidden b.hash with
    | true => rw [hh] at he; simp only [if_true] at he; cases he; rfl
    | false =>
      rw [hh] at he
      simp only [Bool.false_eq_true, if_false] at he
      cases ho : hdrOf s.tree b.hash with
      | none => rw [ho] at he; cases he; rfl
      | some x => rw [ho] at he; cases he

theorem getBestBlock_error_cases (s : Source) (req : Nat) (e : Err) (he : s.getBestBlock req = .error e) :
    s.fails (.best req) = true ∧ e = s.err (.best req) := by
  unfold Source.getBestBlock at he
  cases hf : s.fails (.best req) with
  | true => rw [hf] at he; simp only [if_true] at he; cases he; exact ⟨rfl, rfl⟩
  | false => rw [hf] at he; simp only [Bool.false_eq_true, if_false] at he; cases he

theorem getHeader_transient (s : Source) (req h : Nat) (e : Err) (he : s.getHeader req h = .error e)
    (ht : e.isTransient = true) : TransientAnswered s := by
  rcases getHeader_error_cases s req h e he with ⟨hf, rfl⟩ | rfl
  · exact ⟨_, hf, s.err_isTransient _ ht⟩
  · exact absurd ht (by decide)

theorem getBlock_transient (s : Source) (req : Nat) (b : Hdr) (e : Err) (he : s.getBlock req b = .error e)
    (ht : e.isTransient = true) : TransientAnswered s := by
  rcases getBlock_error_cases s req b e he with ⟨hf, rfl⟩ | rfl
  · exact ⟨_, hf, s.err_isTransient _ ht⟩
  · exact absurd ht (by decide)

/-- ChainPoller::look_up_previous_header: its own errors ("genesis block reached" — kind TRANSLATED: `genesisErrTransient` —
    and what check_builds_on refuses) are persistent; a transient one is the source's -/
theorem pollerPrev_transient (s : Source) (req : Nat) (h : Hdr) (e : Err) (r : Nat)
    (he : pollerPrev s req h = .error (e, r)) (ht : e.isTransient = true) : TransientAnswered s := by
  unfold pollerPrev at he
  cases hg : isGenesisHeader h with
  | true =>
    rw [hg] at he; simp only [if_true] at he
    cases he
    exact absurd ht (by decide)
  | false =>
    rw [hg] at he; simp only [Bool.false_eq_true, if_false] at he
    cases hh : s.getHeader req h.parent with
    | error e' =>
      rw [hh] at he
      cases he
      exact getHeader_transient s _ _ _ hh ht
    | ok p =>
      rw [hh] at he
      simp only at he
      cases hb : checkBuildsOn s.bitcoin h p with
      | true => rw [hb] at he; simp only [if_true] at he; cases he
      | false =>
        rw [hb] at he; simp only [Bool.false_eq_true, if_false] at he
        cases he
        exact absurd ht (by decide)

theorem lookUpPrev_transient (s : Source) (c : Cache) (req : Nat) (h : Hdr) (e : Err) (r : Nat)
    (he : lookUpPrev s c req h = .error (e, r)) (ht : e.isTransient = true) : TransientAnswered s := by
  unfold lookUpPrev at he
  cases hc : cacheLookUp c h.parent with
  | some p => rw [hc] at he; cases he
  | none => rw [hc] at he; exact pollerPrev_transient s req h e r he ht

theorem findDiffF_transient (s : Source) (c : Cache) : ∀ (n : Nat) (cur prev : Hdr) (req : Nat) (e : Err) (r : Nat),
    findDiffF s c n cur prev req = .error (e, r) → e.isTransient = true → TransientAnswered s := by
  intro n
  induction n with
  | zero =>
    intro cur prev req e r he ht
    unfold findDiffF at he
    cases he
    exact absurd ht (by decide)
  | succ n ih =>
    intro cur prev req e r he ht
    unfold findDiffF at he
    cases hf : fdFound cur prev with
    | true => rw [hf] at he; simp only [if_true] at he; cases he
    | false =>
      rw [hf] at he; simp only [Bool.false_eq_true, if_false] at he
      cases hp : (if fdWalkPrevious cur.height prev.height = true then lookUpPrev s c req prev else .ok (prev, req)) with
      | error e1 =>
        rw [hp] at he
        cases he
        cases hw : fdWalkPrevious cur.height prev.height with
        | true => rw [hw] at hp; simp only [if_true] at hp; exact lookUpPrev_transient s c req prev e r hp ht
        | false => rw [hw] at hp; simp only [Bool.false_eq_true, if_false] at hp; cases hp
      | ok v =>
        obtain ⟨prev', req1⟩ := v
        rw [hp] at he
        simp only at he
        cases hc : fdWalkCurrent cur.height prev.height with
        | false => rw [hc] at he; simp only [Bool.false_eq_true, if_false] at he; exact ih _ _ _ _ _ he ht
        | true =>
          rw [hc] at he; simp only [if_true] at he
          cases hl : lookUpPrev s c req1 cur with
          | error e2 =>
            rw [hl] at he
            cases he
            exact lookUpPrev_transient s c req1 cur e r hl ht
          | ok w =>
            obtain ⟨cur', req2⟩ := w
            rw [hl] at he
            simp only at he
            cases hr : findDiffF s c n cur' prev' req2 with
            | error e3 =>
              rw [hr] at he
              cases he
              exact ih _ _ _ _ _ hr ht
            | ok d =>
              obtain ⟨d, r'⟩ := d
              rw [hr] at he
              cases he

/-- the locator resolution swallows source errors (`if let Ok(..)`); the two errors it constructs itself have the
    TRANSLATED kinds `locatorHeightErrTransient` / `noLocatorErrTransient` -/
theorem resolveLocator_not_transient (s : Source) (height : Nat) : ∀ (cands : List (Nat × Nat)) (c : Cache) (req : Nat) (e : Err) (r : Nat),
    resolveLocator s height cands c req = .error (e, r) → e.isTransient = false := by
  intro cands
  induction cands with
  | nil =>
    intro c req e r he
    unfold resolveLocator at he
    cases he
    decide
  | cons x rest ih =>
    intro c req e r he
    obtain ⟨d, h⟩ := x
    unfold resolveLocator at he
    cases hc : cacheLookUp c h with
    | some b => rw [hc] at he; cases he
    | none =>
      rw [hc] at he
      simp only at he
      cases hl : (locatorHeight height d).isNone with
      | true => rw [hl] at he; simp only [if_true] at he; cases he; decide
      | false =>
        rw [hl] at he; simp only [Bool.false_eq_true, if_false] at he
        cases hg : s.getHeader req h with
        | ok b => rw [hg] at he; cases he
        | error e' => rw [hg] at he; exact ih _ _ _ _ he

theorem findDiffFromBestBlock_transient (s : Source) (c : Cache) (req : Nat) (best : Hdr) (l : Locator) (e : Err) (r : Nat)
    (he : findDiffFromBestBlock s c req best l = .error (e, r)) (ht : e.isTransient = true) : TransientAnswered s := by
  unfold findDiffFromBestBlock at he
  cases hr : resolveLocator s l.height l.candidates c req with
  | error e1 =>
    rw [hr] at he
    cases he
    have := resolveLocator_not_transient s l.height _ _ _ _ _ hr
    rw [this] at ht
    cases ht
  | ok v =>
    obtain ⟨⟨found, c1⟩, req1⟩ := v
    rw [hr] at he
    simp only at he
    cases hd : findDiff s c1 best found req1 with
    | error e2 =>
      rw [hd] at he
      cases he
      exact findDiffF_transient s c1 _ _ _ _ _ _ hd ht
    | ok w =>
      obtain ⟨d, req2⟩ := w
      rw [hd] at he
      cases he

/-- first loop of synchronize_listeners: `err` is `some` exactly when the loop failed -/
theorem phase1_err_isSome (s : Source) (best : Hdr) : ∀ (ls : List Locator) (c : Cache) (req : Nat) (most : List Hdr),
    (phase1 s best ls c req most).err.isSome = !(phase1 s best ls c req most).ok := by
  intro ls
  induction ls with
  | nil => intro c req most; simp [phase1]
  | cons l ls ih =>
    intro c req most
    unfold phase1
    cases hf : findDiffFromBestBlock s c req best l with
    | error er => obtain ⟨e, r⟩ := er; simp
    | ok v => obtain ⟨⟨d, c1⟩, req1⟩ := v; simp only; exact ih _ _ _

theorem phase1_transient (s : Source) (best : Hdr) : ∀ (ls : List Locator) (c : Cache) (req : Nat) (most : List Hdr) (e : Err),
    (phase1 s best ls c req most).err = some e → e.isTransient = true → TransientAnswered s := by
  intro ls
  induction ls with
  | nil => intro c req most e he; simp [phase1] at he
  | cons l ls ih =>
    intro c req most e he ht
    unfold phase1 at he
    cases hf : findDiffFromBestBlock s c req best l with
    | error er =>
      obtain ⟨e', r⟩ := er
      rw [hf] at he
      simp only at he
      cases he
      exact findDiffFromBestBlock_transient s c req best l e r hf ht
    | ok v =>
      obtain ⟨⟨d, c1⟩, req1⟩ := v
      rw [hf] at he
      simp only at he
      exact ih _ _ _ _ he ht

/-! ### the batch loop -/

theorem fetchAll_snd (s : Source) : ∀ (bs : List Hdr) (req : Nat), (fetchAll s bs req).2 = req + bs.length := by
  intro bs
  induction bs with
  | nil => intro req; simp [fetchAll]
  | cons b rest ih => intro req; simp only [fetchAll, ih, List.length_cons]; omega

/-- a batch fails (`fetchAll`, all fetches issued) exactly when some fetch of it fails, and `block_res?` then returns the
    error of the first one in fetch order -/
theorem fetchAll_fails_iff (s : Source) : ∀ (bs : List Hdr) (req : Nat),
    (fetchAll s bs req).1 = !(firstFetchErr s bs req).isSome := by
  intro bs
  induction bs with
  | nil => intro req; simp [fetchAll, firstFetchErr]
  | cons b rest ih =>
    intro req
    unfold fetchAll firstFetchErr
    cases hg : s.getBlock req b with
    | error e => simp
    | ok u => simp [ih]

theorem firstFetchErr_transient (s : Source) : ∀ (bs : List Hdr) (req : Nat) (e : Err),
    firstFetchErr s bs req = some e → e.isTransient = true → TransientAnswered s := by
  intro bs
  induction bs with
  | nil => intro req e he; simp [firstFetchErr] at he
  | cons b rest ih =>
    intro req e he ht
    unfold firstFetchErr at he
    cases hg : s.getBlock req b with
    | error e' => rw [hg] at he; cases he; exact getBlock_transient s req b e hg ht
    | ok u => rw [hg] at he; exact ih _ _ he ht

/-- the second loop fails exactly when `phase2Err` names an error (same batches, same request numbering) -/
theorem phase2_fails_iff (s : Source) (k : Nat) : ∀ (n : Nat) (asc : List Hdr) (c : Cache) (req : Nat),
    (phase2 s k n asc c req).1 = !(phase2Err s k n asc req).isSome := by
  intro n
  induction n with
  | zero => intro asc c req; simp [phase2, phase2Err]
  | succ n ih =>
    intro asc c req
    unfold phase2 phase2Err
    cases he : asc.isEmpty with
    | true => simp
    | false =>
      simp only [Bool.false_eq_true, if_false]
      have h1 := fetchAll_fails_iff s (asc.take k) req
      have h2 := fetchAll_snd s (asc.take k) req
      cases hf : firstFetchErr s (asc.take k) req with
      | some e =>
        rw [hf] at h1
        simp only [Option.isSome_some, Bool.not_true] at h1
        simp [h1]
      | none =>
        rw [hf] at h1
        simp only [Option.isSome_none, Bool.not_false] at h1
        simp only [h1, h2, Bool.not_true, Bool.false_eq_true, if_false]
        exact ih _ _ _

theorem phase2Err_transient (s : Source) (k : Nat) : ∀ (n : Nat) (asc : List Hdr) (req : Nat) (e : Err),
    phase2Err s k n asc req = some e → e.isTransient = true → TransientAnswered s := by
  intro n
  induction n with
  | zero => intro asc req e he; simp [phase2Err] at he
  | succ n ih =>
    intro asc req e he ht
    unfold phase2Err at he
    cases hemp : asc.isEmpty with
    | true => rw [hemp] at he; simp at he
    | false =>
      rw [hemp] at he
      simp only [Bool.false_eq_true, if_false] at he
      cases hf : firstFetchErr s (asc.take k) req with
      | some e' => rw [hf] at he; cases he; exact firstFetchErr_transient s _ _ _ hf ht
      | none => rw [hf] at he; exact ih _ _ _ he ht

theorem getD_transient {o : Option Err} (h : (o.getD .source).isTransient = true) : ∃ e, o = some e ∧ e.isTransient = true := by
  cases o with
  | none => exact absurd h (by decide)
  | some e => exact ⟨e, rfl, h⟩

/-- the error of a failed batch is the one of the fetch at position `fetchPrefix` (number of leading successful fetches) -/
theorem firstFetchErr_is_first (s : Source) : ∀ (bs : List Hdr) (req : Nat) (e : Err), firstFetchErr s bs req = some e →
    ∃ b, bs[fetchPrefix s req bs]? = some b ∧ s.getBlock (req + fetchPrefix s req bs) b = .error e := by
  intro bs
  induction bs with
  | nil => intro req e he; simp [firstFetchErr] at he
  | cons b rest ih =>
    intro req e he
    unfold firstFetchErr at he
    unfold fetchPrefix
    cases hg : s.getBlock req b with
    | error e' =>
      rw [hg] at he; cases he
      exact ⟨b, by simp, by simpa using hg⟩
    | ok u =>
      rw [hg] at he
      obtain ⟨x, hx1, hx2⟩ := ih (req + 1) e he
      refine ⟨x, by simpa using hx1, ?_⟩
      have : req + (fetchPrefix s (req + 1) rest + 1) = req + 1 + fetchPrefix s (req + 1) rest := by omega
      simp only [this]; exact hx2

end Ldk.ChainSync
