import LdkModel.Model.EphKey
import LdkModel.Proofs.Framing
/- helper lemmas for the ephemeral-key theorems of Props/C15.lean -/
namespace Ldk.EphKey
open Ldk.Noise Ldk.PeerEph

theorem ofNat_inj {a b : Nat} (ha : a < 256) (hb : b < 256) (h : UInt8.ofNat a = UInt8.ofNat b) :
    a = b := by
  have h1 := congrArg UInt8.toNat h
  simp only [UInt8.toNat_ofNat'] at h1
  omega

theorem le64_inj {i j : Nat} (hi : i < 2 ^ 64) (hj : j < 2 ^ 64) (h : le64 i = le64 j) : i = j := by
  unfold le64 at h
  simp only [List.cons.injEq, and_true] at h
  obtain ⟨h0, h1, h2, h3, h4, h5, h6, h7⟩ := h
  have e0 := ofNat_inj (by omega) (by omega) h0
  have e1 := ofNat_inj (by omega) (by omega) h1
  have e2 := ofNat_inj (by omega) (by omega) h2
  have e3 := ofNat_inj (by omega) (by omega) h3
  have e4 := ofNat_inj (by omega) (by omega) h4
  have e5 := ofNat_inj (by omega) (by omega) h5
  have e6 := ofNat_inj (by omega) (by omega) h6
  have e7 := ofNat_inj (by omega) (by omega) h7
  omega

/-- the k-th key of a history (k from 0) is the hash of the preimage for counter value
    `start + k · step` -/
theorem runConns_getElem? (H : Bytes → Bytes) (seed : Bytes) :
    ∀ (ops : List ConnOp) (st : EphSt) (i : Nat), i < ops.length →
      (runConns H seed st ops)[i]?
        = some (H (ephPreimage seed (st.next + i * (COUNTER_STEP * counterNextCalls)))) := by
  intro ops
  induction ops with
  | nil => intro st i h; simp at h
  | cons o ops ih =>
    intro st i h
    cases i with
    | zero => simp [runConns, getEphemeralKey]
    | succ i =>
      simp only [runConns, List.getElem?_cons_succ]
      rw [ih _ i (by simpa using h)]
      simp only [getEphemeralKey]
      congr 3
      rw [Nat.add_mul, Nat.one_mul]; omega

theorem runConns_length (H : Bytes → Bytes) (seed : Bytes) :
    ∀ (ops : List ConnOp) (st : EphSt), (runConns H seed st ops).length = ops.length := by
  intro ops
  induction ops with
  | nil => intro st; rfl
  | cons o ops ih => intro st; simp [runConns, ih]

end Ldk.EphKey
