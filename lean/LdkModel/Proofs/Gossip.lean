/- Helper lemmas for C17 (Model/Gossip.lean): the canonical-map library (lookup characterisations,
   extensionality), pointwise characterisations of the gossip operations, the commutation lemmas
   behind `order_independent`. -/
import LdkModel.Model.Gossip
namespace Ldk.Gossip

/-! ### lists -/
section lists
variable {α β : Type}

theorem getL_none_of_lt {l : List (Nat × α)} {k : Nat} (h : ∀ p ∈ l, k < p.1) : getL l k = none := by
  induction l with
  | nil => rfl
  | cons hd t ih =>
    obtain ⟨k', v⟩ := hd
    have h1 : k < k' := h (k', v) (by simp)
    simp only [getL]
    rw [if_neg (by omega)]
    exact ih (fun p hp => h p (by simp [hp]))

theorem getL_head_tail_none {k : Nat} {v : α} {t : List (Nat × α)} (hs : KeysLt ((k, v) :: t)) :
    getL t k = none :=
  getL_none_of_lt (fun p hp => (List.pairwise_cons.mp hs).1 p hp)

theorem getL_insertL (k : Nat) (v : α) (l : List (Nat × α)) (k' : Nat) :
    getL (insertL k v l) k' = if k' = k then some v else getL l k' := by
  induction l with
  | nil => simp [insertL, getL]
  | cons hd t ih =>
    obtain ⟨k0, v0⟩ := hd
    simp only [insertL]
    split
    · simp [getL]
    · split
      · rename_i _ heq
        subst heq
        simp only [getL]
        split <;> simp_all
      · rename_i hnlt hne
        simp only [getL, ih]
        by_cases h1 : k' = k0
        · have : ¬ k' = k := by omega
          simp [h1, this]
          intro h; omega
        · simp [h1]

theorem getL_eraseL (k : Nat) (l : List (Nat × α)) (k' : Nat) :
    getL (eraseL k l) k' = if k' = k then none else getL l k' := by
  induction l with
  | nil => simp [eraseL, getL]
  | cons hd t ih =>
    obtain ⟨k0, v0⟩ := hd
    simp only [eraseL] at ih ⊢
    by_cases h0 : k0 = k
    · subst h0
      simp only [List.filter, ne_eq, not_true_eq_false, decide_false, getL]
      rw [ih]
      by_cases h1 : k' = k0 <;> simp [h1]
    · simp only [List.filter, ne_eq, h0, not_false_eq_true, decide_true, getL]
      rw [ih]
      by_cases h1 : k' = k0
      · have : ¬ k' = k := by omega
        simp [h1, this]
        intro h; omega
      · simp [h1]

theorem getL_filterMapL (f : Nat → α → Option β) {l : List (Nat × α)} (hs : KeysLt l) (k : Nat) :
    getL (filterMapL f l) k = (getL l k).bind (f k) := by
  induction l with
  | nil => simp [filterMapL, getL]
  | cons hd t ih =>
    obtain ⟨k0, v0⟩ := hd
    have hs' := List.pairwise_cons.mp hs
    have hnone : getL t k0 = none := getL_head_tail_none hs
    simp only [filterMapL]
    split
    · rename_i w hw
      simp only [getL]
      by_cases h1 : k = k0
      · subst h1; simp [hw]
      · simp [h1, ih hs'.2]
    · rename_i hw
      simp only [getL]
      by_cases h1 : k = k0
      · subst h1; simp [hw, ih hs'.2, hnone]
      · simp [h1, ih hs'.2]

theorem listExt {l1 l2 : List (Nat × α)} (h1 : KeysLt l1) (h2 : KeysLt l2)
    (h : ∀ k, getL l1 k = getL l2 k) : l1 = l2 := by
  induction l1 generalizing l2 with
  | nil =>
    cases l2 with
    | nil => rfl
    | cons hd t => obtain ⟨k, v⟩ := hd; have := h k; simp [getL] at this
  | cons hd1 t1 ih =>
    obtain ⟨k1, v1⟩ := hd1
    cases l2 with
    | nil => have := h k1; simp [getL] at this
    | cons hd2 t2 =>
      obtain ⟨k2, v2⟩ := hd2
      have hs1 := List.pairwise_cons.mp h1
      have hs2 := List.pairwise_cons.mp h2
      have hk : k1 = k2 := by
        rcases Nat.lt_trichotomy k1 k2 with hlt | heq | hgt
        · have e := h k1
          have : getL ((k2, v2) :: t2) k1 = none :=
            getL_none_of_lt (fun p hp => by
              simp only [List.mem_cons] at hp
              rcases hp with hp | hp
              · subst hp; exact hlt
              · exact Nat.lt_trans hlt (hs2.1 p hp))
          rw [this] at e; simp [getL] at e
        · exact heq
        · have e := h k2
          have : getL ((k1, v1) :: t1) k2 = none :=
            getL_none_of_lt (fun p hp => by
              simp only [List.mem_cons] at hp
              rcases hp with hp | hp
              · subst hp; exact hgt
              · exact Nat.lt_trans hgt (hs1.1 p hp))
          rw [this] at e; simp [getL] at e
      subst hk
      have hv : v1 = v2 := by have e := h k1; simpa [getL] using e
      subst hv
      have ht : t1 = t2 := by
        apply ih hs1.2 hs2.2
        intro k
        by_cases hk : k = k1
        · subst hk; rw [getL_head_tail_none h1, getL_head_tail_none h2]
        · have e := h k; simpa [getL, hk] using e
      rw [ht]

theorem getL_isSome_iff_mem_keys {l : List (Nat × α)} {k : Nat} :
    (getL l k).isSome = true ↔ k ∈ l.map (·.1) := by
  induction l with
  | nil => simp [getL]
  | cons hd t ih =>
    obtain ⟨k0, v0⟩ := hd
    simp only [getL, List.map_cons, List.mem_cons]
    by_cases h : k = k0
    · simp [h]
    · simp [h, ih]

end lists

/-! ### SMap -/
namespace SMap
variable {α β : Type}

@[ext] theorem ext {m1 m2 : SMap α} (h : ∀ k, m1.get k = m2.get k) : m1 = m2 := by
  obtain ⟨l1, s1⟩ := m1
  obtain ⟨l2, s2⟩ := m2
  have : l1 = l2 := listExt s1 s2 h
  subst this; rfl

@[simp] theorem get_empty (k : Nat) : (empty : SMap α).get k = none := rfl
@[simp] theorem get_insert (m : SMap α) (k : Nat) (v : α) (k' : Nat) :
    (m.insert k v).get k' = if k' = k then some v else m.get k' := getL_insertL k v m.l k'
@[simp] theorem get_erase (m : SMap α) (k k' : Nat) :
    (m.erase k).get k' = if k' = k then none else m.get k' := getL_eraseL k m.l k'
@[simp] theorem get_filterMap (f : Nat → α → Option β) (m : SMap α) (k : Nat) :
    (m.filterMap f).get k = (m.get k).bind (f k) := getL_filterMapL f m.sorted k
theorem get_set (m : SMap α) (k : Nat) (v : Option α) (k' : Nat) :
    (m.set k v).get k' = if k' = k then v else m.get k' := by
  cases v <;> simp [set]

theorem isEmpty_iff (m : SMap α) : m.isEmpty = true ↔ ∀ k, m.get k = none := by
  obtain ⟨l, s⟩ := m
  cases l with
  | nil => simp [isEmpty, get, getL]
  | cons hd t =>
    obtain ⟨k, v⟩ := hd
    simp only [isEmpty, List.isEmpty_cons, Bool.false_eq_true, get, false_iff]
    intro h; have := h k; simp [getL] at this

theorem isEmpty_eq_false_iff (m : SMap α) : m.isEmpty = false ↔ ∃ k, m.get k ≠ none := by
  rw [← Bool.not_eq_true, isEmpty_iff]
  constructor
  · intro h
    apply Classical.byContradiction
    intro hn
    apply h; intro k
    apply Classical.byContradiction
    intro hk; exact hn ⟨k, hk⟩
  · rintro ⟨k, hk⟩ h; exact hk (h k)

theorem mem_keys_iff (m : SMap α) (k : Nat) : k ∈ m.keys ↔ (m.get k).isSome = true :=
  getL_isSome_iff_mem_keys.symm

theorem insert_get_self {m : SMap α} {k : Nat} {v : α} (h : m.get k = some v) : m.insert k v = m := by
  ext k'; rw [get_insert]; split
  · rename_i h'; rw [h', h]
  · rfl

theorem insert_comm (m : SMap α) {k1 k2 : Nat} (v1 v2 : α) (h : k1 ≠ k2) :
    (m.insert k1 v1).insert k2 v2 = (m.insert k2 v2).insert k1 v1 := by
  ext k; simp only [get_insert]
  by_cases h1 : k = k1 <;> by_cases h2 : k = k2 <;> simp_all

end SMap


/-! ### structures -/

theorem NodeInfo.ext' {a b : NodeInfo} (h1 : a.channels = b.channels) (h2 : a.ann = b.ann) : a = b := by
  cases a; cases b; simp_all

theorem Graph.ext' {a b : Graph} (h1 : a.channels = b.channels) (h2 : a.nodes = b.nodes)
    (h3 : a.removedChannels = b.removedChannels) (h4 : a.removedNodes = b.removedNodes) : a = b := by
  cases a; cases b; simp_all

theorem SMap.set_get_self {α : Type} (m : SMap α) (k : Nat) : m.set k (m.get k) = m := by
  ext k'; rw [SMap.get_set]; split
  · rename_i h; rw [h]
  · rfl

/-! ### channel_update, pointwise -/

/-- the checks of `update_channel_internal` that do not depend on the stored directions -/
def staticOk (c : ChanInfo) (u : ChanUpd) : Bool :=
  (match c.capacity with
    | some cap => !(decide (cap > MAX_VALUE_MSAT / 1000) || decide (u.htlcMax > cap * 1000))
    | none => true)
  && !(u.verify && u.signer != c.dirNode u.dir)

def newer (o : Option UpdInfo) (ts : Nat) : Bool :=
  match o with
  | none => true
  | some e => decide (e.lastUpdate < ts)

/-- the checks that do not depend on the graph at all -/
def globalOk (u : ChanUpd) : Bool :=
  !((u.verify && u.dontForward) || !u.chainOk || decide (u.htlcMax > MAX_VALUE_MSAT))

def updC (c : ChanInfo) (u : ChanUpd) : ChanInfo :=
  match updChan c u with
  | .ok c' => c'
  | .error _ => c

theorem updC_eq (c : ChanInfo) (u : ChanUpd) :
    updC c u = if staticOk c u && newer (c.dir u.dir) u.ts then c.setDir u.dir (some u.info) else c := by
  unfold updC updChan checkMsgSanity checkUpdLatest staticOk newer
  cases hc : c.capacity <;> cases hd : c.dir u.dir <;> simp only []
  all_goals (generalize (u.verify && u.signer != c.dirNode u.dir) = b)
  · cases b <;> simp
  · rename_i e
    by_cases h1 : e.lastUpdate > u.ts
    · have : ¬ e.lastUpdate < u.ts := by omega
      cases b <;> simp [h1, this]
    · by_cases h2 : e.lastUpdate = u.ts
      · cases b <;> simp [h2]
      · have : e.lastUpdate < u.ts := by omega
        cases b <;> simp [h1, h2, this]
  · rename_i cap
    by_cases hP : cap > MAX_VALUE_MSAT / 1000 ∨ u.htlcMax > cap * 1000
    · have : (decide (cap > MAX_VALUE_MSAT / 1000) || decide (u.htlcMax > cap * 1000)) = true := by simpa using hP
      cases b <;> simp [hP, this]
    · have : (decide (cap > MAX_VALUE_MSAT / 1000) || decide (u.htlcMax > cap * 1000)) = false := by simpa using hP
      cases b <;> simp [hP, this]
  · rename_i cap e
    by_cases hP : cap > MAX_VALUE_MSAT / 1000 ∨ u.htlcMax > cap * 1000
    · have : (decide (cap > MAX_VALUE_MSAT / 1000) || decide (u.htlcMax > cap * 1000)) = true := by simpa using hP
      cases b <;> simp [hP, this]
    · have : (decide (cap > MAX_VALUE_MSAT / 1000) || decide (u.htlcMax > cap * 1000)) = false := by simpa using hP
      by_cases h1 : e.lastUpdate > u.ts
      · have h3 : ¬ e.lastUpdate < u.ts := by omega
        cases b <;> simp [hP, this, h1, h3]
      · by_cases h2 : e.lastUpdate = u.ts
        · cases b <;> simp [hP, this, h2]
        · have h3 : e.lastUpdate < u.ts := by omega
          cases b <;> simp [hP, this, h1, h2, h3]

def updChanO (u : ChanUpd) (o : Option ChanInfo) : Option ChanInfo :=
  o.map (fun c => if globalOk u then updC c u else c)

theorem applyChanUpd_fst (g : Graph) (u : ChanUpd) :
    (applyChanUpd g u).1 =
      { g with channels := g.channels.set u.scid (updChanO u (g.channels.get u.scid)) } := by
  cases hg : g.channels.get u.scid with
  | none =>
    have : (applyChanUpd g u).1 = g := by
      unfold applyChanUpd; simp only [hg]; repeat' split
      all_goals rfl
    rw [this]; simp only [updChanO, Option.map_none]; rw [← hg, SMap.set_get_self]
  | some c =>
    by_cases hgo : globalOk u = true
    · have hgo' := hgo
      simp only [globalOk, Bool.not_eq_true', Bool.or_eq_false_iff, Bool.not_eq_false',
        decide_eq_false_iff_not] at hgo'
      obtain ⟨⟨h1, h2⟩, h3⟩ := hgo'
      unfold applyChanUpd
      simp only [hg, h1, h2, h3, updChanO, hgo, Option.map_some, updC]
      cases hr : updChan c u with
      | error r => simp; rw [← hg, SMap.set_get_self]
      | ok c' => simp [SMap.set]
    · have hgo2 : globalOk u = false := by simpa using hgo
      have : (applyChanUpd g u).1 = g := by
        unfold applyChanUpd
        simp only [globalOk, Bool.not_eq_false', Bool.or_eq_true, Bool.not_eq_true', decide_eq_true_eq] at hgo2
        rcases hgo2 with (h | h) | h
        · simp [h]
        · by_cases h0 : (u.verify && u.dontForward) = true <;> simp [h, h0]
        · by_cases h0 : (u.verify && u.dontForward) = true <;> by_cases h1 : u.chainOk = true <;> simp [h, h0, h1]
      rw [this]; simp only [updChanO, hgo2, Option.map_some]
      rw [show (some (if false = true then updC c u else c)) = g.channels.get u.scid by simp [hg], SMap.set_get_self]

/-! ### node_announcement, pointwise -/

def nodeStaticOk (n : NodeAnn) : Bool := !(n.verify && !n.sigOk)

def newerN (o : Option NodeAnnInfo) (ts : Nat) : Bool :=
  match o with
  | none => true
  | some e => decide (e.lastUpdate < ts)

def updN (ni : NodeInfo) (n : NodeAnn) : NodeInfo :=
  if nodeStaticOk n && newerN ni.ann n.ts then { ni with ann := some ⟨n.ts, n.payload, n.verify⟩ } else ni

theorem applyNodeAnn_fst (g : Graph) (n : NodeAnn) :
    (applyNodeAnn g n).1 =
      { g with nodes := g.nodes.set n.node ((g.nodes.get n.node).map (fun ni => updN ni n)) } := by
  cases hg : g.nodes.get n.node with
  | none =>
    have : (applyNodeAnn g n).1 = g := by
      unfold applyNodeAnn; simp only [hg]; split <;> rfl
    rw [this]; simp only [Option.map_none]; rw [← hg, SMap.set_get_self]
  | some ni =>
    unfold applyNodeAnn updN updNode nodeStaticOk newerN
    simp only [hg, Option.map_some]
    have hself : g = { g with nodes := g.nodes.set n.node (some ni) } := by
      rw [← hg, SMap.set_get_self]
    cases ha : ni.ann with
    | none =>
      cases hv : n.verify <;> cases hs : n.sigOk <;> simp [SMap.set] <;> exact hself
    | some a =>
      by_cases h1 : a.lastUpdate > n.ts
      · have h3 : ¬ a.lastUpdate < n.ts := by omega
        have h4 : ¬ a.lastUpdate = n.ts := by omega
        cases hv : n.verify <;> cases hs : n.sigOk <;> simp [h1, h3, h4] <;> exact hself
      · by_cases h2 : a.lastUpdate = n.ts
        · cases hv : n.verify <;> cases hs : n.sigOk <;> simp [h2] <;> exact hself
        · have h3 : a.lastUpdate < n.ts := by omega
          cases hv : n.verify <;> cases hs : n.sigOk <;> simp [h1, h2, h3, SMap.set] <;> exact hself

/-! ### channel_announcement, pointwise (no replacement of an existing entry) -/

def addTo (o : Option NodeInfo) (scid : Nat) : NodeInfo :=
  match o with
  | some ni => { ni with channels := ni.channels.insert scid () }
  | none => { channels := SMap.empty.insert scid (), ann := none }

theorem addChanToNode_eq (nodes : SMap NodeInfo) (id scid : Nat) :
    addChanToNode nodes id scid = nodes.insert id (addTo (nodes.get id) scid) := by
  unfold addChanToNode addTo; cases nodes.get id <;> rfl

theorem get_addChanToNode (nodes : SMap NodeInfo) (id scid k : Nat) :
    (addChanToNode nodes id scid).get k = if k = id then some (addTo (nodes.get id) scid) else nodes.get k := by
  rw [addChanToNode_eq, SMap.get_insert]

theorem addChanToNode_comm (m : SMap NodeInfo) (x s y t : Nat) :
    addChanToNode (addChanToNode m x s) y t = addChanToNode (addChanToNode m y t) x s := by
  apply SMap.ext; intro k
  simp only [get_addChanToNode]
  by_cases hxy : x = y
  · subst hxy
    by_cases hk : k = x
    · subst hk
      simp only [if_true]
      congr 1
      cases hm : m.get k with
      | none =>
        simp only [addTo]
        refine NodeInfo.ext' ?_ rfl
        by_cases hst : s = t
        · subst hst; rfl
        · exact SMap.insert_comm _ _ _ hst
      | some ni =>
        simp only [addTo]
        refine NodeInfo.ext' ?_ rfl
        by_cases hst : s = t
        · subst hst; rfl
        · exact SMap.insert_comm _ _ _ hst
    · simp [hk]
  · by_cases hk1 : k = x
    · subst hk1; simp [hxy]
    · by_cases hk2 : k = y
      · subst hk2
        have : ¬ k = x := hk1
        simp [this, Ne.symm hxy]
      · simp [hk1, hk2]

/-- the checks of the announcement that do not depend on the graph -/
def annStatic (a : ChanAnn) : Bool :=
  decide (a.n1 < a.n2) && !a.sameBtc && a.chainOk && !(a.verify && !a.sigsOk) && (a.utxo != .unknownTx)

def tombstoned (g : Graph) (a : ChanAnn) : Bool :=
  g.removedChannels.contains a.scid || g.removedNodes.contains a.n1 || g.removedNodes.contains a.n2

def annOk (g : Graph) (a : ChanAnn) : Bool :=
  annStatic a && (g.channels.get a.scid).isNone && !tombstoned g a

def annChan (a : ChanAnn) : ChanInfo :=
  { node1 := a.n1, node2 := a.n2,
    capacity := match a.utxo with | .value v => some v | _ => none,
    d12 := none, d21 := none, recvTime := a.now, hasMsg := a.verify }

def annInsert (g : Graph) (a : ChanAnn) : Graph :=
  { g with channels := g.channels.insert a.scid (annChan a),
           nodes := addChanToNode (addChanToNode g.nodes a.n1 a.scid) a.n2 a.scid }

/-- the announcement does not hit the "replace the previous entry" branch of
    `add_channel_between_nodes` (a chain-validated announcement for an scid that the graph holds
    without validation, or for other nodes) -/
def noReplace (g : Graph) (a : ChanAnn) : Prop :=
  ∀ c, g.channels.get a.scid = some c → ∀ v, a.utxo = .value v →
    c.capacity.isSome = true ∧ a.n1 = c.node1 ∧ a.n2 = c.node2

theorem applyChanAnn_fst {g : Graph} {a : ChanAnn} (h : noReplace g a) :
    (applyChanAnn g a).1 = if annOk g a then annInsert g a else g := by
  unfold applyChanAnn chanAnnPre annOk annStatic
  by_cases h1 : a.n1 ≥ a.n2
  · have : ¬ a.n1 < a.n2 := by omega
    simp [h1, this]
  · have h1' : a.n1 < a.n2 := by omega
    simp only [h1, if_false, h1', decide_true, Bool.true_and]
    cases hsb : a.sameBtc
    · cases hch : a.chainOk
      · simp
      · simp only [Bool.not_true, Bool.false_eq_true, if_false, Bool.not_false, Bool.true_and]
        cases hg : g.channels.get a.scid with
        | some c =>
          simp only [Option.isNone_some, Bool.false_and, Bool.and_false, Bool.false_eq_true, if_false]
          cases hcap : c.capacity with
          | some cap =>
            simp only []
            split
            · rfl
            · rename_i hne
              split
              · rfl
              · split
                · rfl
                · cases hu : a.utxo with
                  | unknownTx => rfl
                  | noLookup => simp [addChannelBetweenNodes, hg]
                  | value v =>
                    exfalso
                    have := h c hg v hu
                    rw [if_pos ⟨this.2.1, this.2.2⟩] at hne; cases hne
          | none =>
            simp only []
            cases hu : a.utxo with
            | noLookup => rfl
            | unknownTx =>
              simp only [reduceCtorEq, if_false]
              split
              · rfl
              · split <;> rfl
            | value v =>
              exfalso
              have := h c hg v hu
              rw [hcap] at this; simp at this
        | none =>
          simp only [Option.isNone_none, Bool.and_true, tombstoned]
          cases hv : (a.verify && !a.sigsOk)
          · simp only [Bool.false_eq_true, if_false, Bool.not_false, Bool.true_and]
            cases ht : (g.removedChannels.contains a.scid || g.removedNodes.contains a.n1 || g.removedNodes.contains a.n2)
            · simp only [Bool.false_eq_true, if_false, Bool.not_false, Bool.and_true]
              cases hu : a.utxo with
              | unknownTx => simp
              | noLookup => simp [addChannelBetweenNodes, hg, annInsert, annChan, hu]
              | value v => simp [addChannelBetweenNodes, hg, annInsert, annChan, hu]
            · simp
          · simp
    · simp

/-! ### two channel_updates on one channel entry commute -/

@[simp] theorem setDir_capacity (c : ChanInfo) (d : Bool) (x : Option UpdInfo) : (c.setDir d x).capacity = c.capacity := by
  cases d <;> rfl
@[simp] theorem setDir_node1 (c : ChanInfo) (d : Bool) (x : Option UpdInfo) : (c.setDir d x).node1 = c.node1 := by
  cases d <;> rfl
@[simp] theorem setDir_node2 (c : ChanInfo) (d : Bool) (x : Option UpdInfo) : (c.setDir d x).node2 = c.node2 := by
  cases d <;> rfl
@[simp] theorem setDir_recvTime (c : ChanInfo) (d : Bool) (x : Option UpdInfo) : (c.setDir d x).recvTime = c.recvTime := by
  cases d <;> rfl
@[simp] theorem setDir_dirNode (c : ChanInfo) (d d' : Bool) (x : Option UpdInfo) : (c.setDir d x).dirNode d' = c.dirNode d' := by
  cases d <;> cases d' <;> rfl
theorem dir_setDir (c : ChanInfo) (d d' : Bool) (x : Option UpdInfo) :
    (c.setDir d x).dir d' = if d' = d then x else c.dir d' := by
  cases d <;> cases d' <;> rfl
@[simp] theorem setDir_setDir_same (c : ChanInfo) (d : Bool) (x y : Option UpdInfo) :
    (c.setDir d x).setDir d y = c.setDir d y := by
  cases d <;> rfl
theorem setDir_comm (c : ChanInfo) {d d' : Bool} (h : d ≠ d') (x y : Option UpdInfo) :
    (c.setDir d x).setDir d' y = (c.setDir d' y).setDir d x := by
  cases d <;> cases d' <;> first | rfl | exact absurd rfl h

@[simp] theorem staticOk_setDir (c : ChanInfo) (d : Bool) (x : Option UpdInfo) (u : ChanUpd) :
    staticOk (c.setDir d x) u = staticOk c u := by
  simp [staticOk]

@[simp] theorem info_lastUpdate (u : ChanUpd) : u.info.lastUpdate = u.ts := rfl

theorem updC_preserves (c : ChanInfo) (u : ChanUpd) :
    (updC c u).capacity = c.capacity ∧ (updC c u).node1 = c.node1 ∧ (updC c u).node2 = c.node2 ∧
    (updC c u).recvTime = c.recvTime := by
  rw [updC_eq]; split <;> simp

@[simp] theorem staticOk_updC (c : ChanInfo) (u' u : ChanUpd) : staticOk (updC c u') u = staticOk c u := by
  rw [updC_eq]; split <;> simp

theorem updC_comm (c : ChanInfo) (u1 u2 : ChanUpd)
    (h : u1.dir ≠ u2.dir ∨ u1.ts ≠ u2.ts ∨ u1 = u2) :
    updC (updC c u1) u2 = updC (updC c u2) u1 := by
  by_cases heq : u1 = u2
  · subst heq; rfl
  have h' : u1.dir ≠ u2.dir ∨ u1.ts ≠ u2.ts := by
    rcases h with h | h | h
    · exact Or.inl h
    · exact Or.inr h
    · exact absurd h heq
  cases hs1 : staticOk c u1
  · have e1 : updC c u1 = c := by rw [updC_eq, hs1]; rfl
    have e2 : updC (updC c u2) u1 = updC c u2 := by rw [updC_eq (updC c u2), staticOk_updC, hs1]; rfl
    rw [e1, e2]
  cases hs2 : staticOk c u2
  · have e1 : updC c u2 = c := by rw [updC_eq, hs2]; rfl
    have e2 : updC (updC c u1) u2 = updC c u1 := by rw [updC_eq (updC c u1), staticOk_updC, hs2]; rfl
    rw [e1, e2]
  rw [updC_eq (updC c u1), updC_eq (updC c u2), staticOk_updC, staticOk_updC, hs1, hs2,
    updC_eq c u1, updC_eq c u2, hs1, hs2]
  simp only [Bool.true_and]
  by_cases hd : u1.dir = u2.dir
  · have ht : u1.ts ≠ u2.ts := by
      rcases h' with h | h
      · exact absurd hd h
      · exact h
    rw [← hd]
    cases he : c.dir u1.dir with
    | none =>
      simp only [newer]
      by_cases hlt : u1.ts < u2.ts
      · have : ¬ u2.ts < u1.ts := by omega
        simp [dir_setDir, newer, he, hlt, this]
      · have : u2.ts < u1.ts := by omega
        simp [dir_setDir, newer, he, hlt, this]
    | some e =>
      by_cases h1 : e.lastUpdate < u1.ts <;> by_cases h2 : e.lastUpdate < u2.ts <;>
        by_cases hlt : u1.ts < u2.ts <;>
        simp [dir_setDir, newer, he, h1, h2, hlt]
      all_goals (try omega)
      all_goals (intro h3)
      all_goals (first | (have h4 := of_decide_eq_true h3; omega) | (have h4 := of_decide_eq_false h3; omega))
  · have hd' : u2.dir ≠ u1.dir := fun h => hd h.symm
    by_cases n1 : newer (c.dir u1.dir) u1.ts = true <;> by_cases n2 : newer (c.dir u2.dir) u2.ts = true <;>
      simp [dir_setDir, n1, n2, hd, hd', setDir_comm c hd]

/-! ### two node_announcements on one node entry commute -/

theorem updN_channels (ni : NodeInfo) (n : NodeAnn) : (updN ni n).channels = ni.channels := by
  unfold updN; split <;> rfl

theorem updN_comm (ni : NodeInfo) (n1 n2 : NodeAnn) (h : n1.ts ≠ n2.ts ∨ n1 = n2) :
    updN (updN ni n1) n2 = updN (updN ni n2) n1 := by
  by_cases heq : n1 = n2
  · subst heq; rfl
  have ht : n1.ts ≠ n2.ts := by
    rcases h with h | h
    · exact h
    · exact absurd h heq
  cases hs1 : nodeStaticOk n1
  · simp [updN, hs1]
  cases hs2 : nodeStaticOk n2
  · simp [updN, hs2]
  unfold updN; simp only [hs1, hs2, Bool.true_and]
  · cases ha : ni.ann with
    | none =>
      by_cases hlt : n1.ts < n2.ts
      · have : ¬ n2.ts < n1.ts := by omega
        simp [newerN, hlt, this]
      · have : n2.ts < n1.ts := by omega
        simp [newerN, hlt, this]
    | some e =>
      by_cases h1 : e.lastUpdate < n1.ts <;> by_cases h2 : e.lastUpdate < n2.ts <;>
        by_cases hlt : n1.ts < n2.ts <;> simp [newerN, ha, h1, h2, hlt]
      all_goals (try omega)
      all_goals (intro h3)
      all_goals omega

/-! ### commutation of deliveries on the graph -/

theorem updChanO_comm (u1 u2 : ChanUpd) (o : Option ChanInfo)
    (h : u1.dir ≠ u2.dir ∨ u1.ts ≠ u2.ts ∨ u1 = u2) :
    updChanO u2 (updChanO u1 o) = updChanO u1 (updChanO u2 o) := by
  cases o with
  | none => rfl
  | some c =>
    simp only [updChanO, Option.map_some]
    cases globalOk u1 <;> cases globalOk u2 <;> simp [updC_comm c u1 u2 h]

theorem updChanO_preserves (u : ChanUpd) (o : Option ChanInfo) (c' : ChanInfo)
    (h : updChanO u o = some c') :
    ∃ c, o = some c ∧ c'.capacity = c.capacity ∧ c'.node1 = c.node1 ∧ c'.node2 = c.node2 ∧ c'.recvTime = c.recvTime := by
  cases o with
  | none => simp [updChanO] at h
  | some c =>
    refine ⟨c, rfl, ?_⟩
    simp only [updChanO, Option.map_some, Option.some.injEq] at h
    subst h
    split
    · exact updC_preserves c u
    · exact ⟨rfl, rfl, rfl, rfl⟩

theorem updChanO_isNone (u : ChanUpd) (o : Option ChanInfo) : (updChanO u o).isNone = o.isNone := by
  cases o <;> rfl

theorem comm_UU (g : Graph) (u1 u2 : ChanUpd)
    (h : u1.scid ≠ u2.scid ∨ u1.dir ≠ u2.dir ∨ u1.ts ≠ u2.ts ∨ u1 = u2) :
    (applyChanUpd (applyChanUpd g u1).1 u2).1 = (applyChanUpd (applyChanUpd g u2).1 u1).1 := by
  rw [applyChanUpd_fst, applyChanUpd_fst, applyChanUpd_fst (applyChanUpd g u2).1, applyChanUpd_fst g u2]
  refine Graph.ext' ?_ rfl rfl rfl
  apply SMap.ext; intro k
  simp only [SMap.get_set]
  by_cases hs : u1.scid = u2.scid
  · have h' : u1.dir ≠ u2.dir ∨ u1.ts ≠ u2.ts ∨ u1 = u2 := by
      rcases h with h | h
      · exact absurd hs h
      · exact h
    rw [hs]
    by_cases hk : k = u2.scid
    · simp only [hk, if_true]; exact updChanO_comm u1 u2 _ h'
    · simp [hk]
  · have hs' : ¬ u2.scid = u1.scid := fun e => hs e.symm
    by_cases hk1 : k = u1.scid
    · subst hk1; simp [hs, hs']
    · by_cases hk2 : k = u2.scid
      · subst hk2; simp [hs, hs']
      · simp [hk1, hk2, hs, hs']

theorem comm_NN (g : Graph) (n1 n2 : NodeAnn) (h : n1.node ≠ n2.node ∨ n1.ts ≠ n2.ts ∨ n1 = n2) :
    (applyNodeAnn (applyNodeAnn g n1).1 n2).1 = (applyNodeAnn (applyNodeAnn g n2).1 n1).1 := by
  rw [applyNodeAnn_fst, applyNodeAnn_fst, applyNodeAnn_fst (applyNodeAnn g n2).1, applyNodeAnn_fst g n2]
  refine Graph.ext' rfl ?_ rfl rfl
  apply SMap.ext; intro k
  simp only [SMap.get_set]
  by_cases hs : n1.node = n2.node
  · have h' : n1.ts ≠ n2.ts ∨ n1 = n2 := by
      rcases h with h | h
      · exact absurd hs h
      · exact h
    rw [hs]
    by_cases hk : k = n2.node
    · simp only [hk, if_true]
      cases g.nodes.get n2.node with
      | none => rfl
      | some ni => simp only [Option.map_some]; rw [updN_comm ni n1 n2 h']
    · simp [hk]
  · have hs' : ¬ n2.node = n1.node := fun e => hs e.symm
    by_cases hk1 : k = n1.node
    · subst hk1; simp [hs, hs']
    · by_cases hk2 : k = n2.node
      · subst hk2; simp [hs, hs']
      · simp [hk1, hk2, hs, hs']

theorem comm_UN (g : Graph) (u : ChanUpd) (n : NodeAnn) :
    (applyNodeAnn (applyChanUpd g u).1 n).1 = (applyChanUpd (applyNodeAnn g n).1 u).1 := by
  rw [applyNodeAnn_fst, applyChanUpd_fst, applyChanUpd_fst, applyNodeAnn_fst]

/-! preservation of `noReplace` -/

theorem noReplace_chanUpd {g : Graph} {a : ChanAnn} (u : ChanUpd) (h : noReplace g a) :
    noReplace (applyChanUpd g u).1 a := by
  rw [applyChanUpd_fst]
  intro c hc v hv
  simp only [SMap.get_set] at hc
  by_cases hs : a.scid = u.scid
  · rw [if_pos hs] at hc
    obtain ⟨c0, h0, hcap, hn1, hn2, _⟩ := updChanO_preserves u _ c hc
    rw [← hs] at h0
    have := h c0 h0 v hv
    rw [hcap, hn1, hn2]; exact this
  · rw [if_neg hs] at hc
    exact h c hc v hv

theorem noReplace_nodeAnn {g : Graph} {a : ChanAnn} (n : NodeAnn) (h : noReplace g a) :
    noReplace (applyNodeAnn g n).1 a := by
  rw [applyNodeAnn_fst]; exact h

theorem noReplace_chanAnn {g : Graph} {a b : ChanAnn} (hb : noReplace g b) (ha : noReplace g a)
    (hab : a.scid ≠ b.scid ∨ a = b) : noReplace (applyChanAnn g b).1 a := by
  rw [applyChanAnn_fst hb]
  split
  · intro c hc v hv
    simp only [annInsert, SMap.get_insert] at hc
    by_cases hs : a.scid = b.scid
    · have hab' : a = b := by
        rcases hab with h | h
        · exact absurd hs h
        · exact h
      subst hab'
      simp only [if_true, Option.some.injEq] at hc
      subst hc
      simp [annChan, hv]
    · rw [if_neg hs] at hc
      exact ha c hc v hv
  · exact ha

theorem annOk_congr {g g' : Graph} (a : ChanAnn) (h1 : g'.channels.get a.scid = g.channels.get a.scid)
    (h2 : g'.removedChannels = g.removedChannels) (h3 : g'.removedNodes = g.removedNodes) :
    annOk g' a = annOk g a := by
  simp [annOk, tombstoned, h1, h2, h3]

theorem comm_AU (g : Graph) (a : ChanAnn) (u : ChanUpd) (hs : a.scid ≠ u.scid) (hn : noReplace g a) :
    (applyChanUpd (applyChanAnn g a).1 u).1 = (applyChanAnn (applyChanUpd g u).1 a).1 := by
  have hn' := noReplace_chanUpd u hn
  have hs' : u.scid ≠ a.scid := fun e => hs e.symm
  have hok : annOk (applyChanUpd g u).1 a = annOk g a := by
    apply annOk_congr
    · rw [applyChanUpd_fst]; simp [SMap.get_set, hs]
    · rw [applyChanUpd_fst]
    · rw [applyChanUpd_fst]
  rw [applyChanAnn_fst hn, applyChanAnn_fst hn', hok]
  cases annOk g a
  · simp
  · simp only [if_true]
    rw [applyChanUpd_fst, applyChanUpd_fst]
    refine Graph.ext' ?_ rfl rfl rfl
    apply SMap.ext; intro k
    simp only [annInsert, SMap.get_set, SMap.get_insert]
    by_cases hk1 : k = u.scid
    · subst hk1; simp [hs']
    · simp [hk1]

theorem comm_AN (g : Graph) (a : ChanAnn) (n : NodeAnn) (h1 : n.node ≠ a.n1) (h2 : n.node ≠ a.n2)
    (hn : noReplace g a) :
    (applyNodeAnn (applyChanAnn g a).1 n).1 = (applyChanAnn (applyNodeAnn g n).1 a).1 := by
  have hn' := noReplace_nodeAnn n hn
  have hok : annOk (applyNodeAnn g n).1 a = annOk g a := by
    apply annOk_congr <;> rw [applyNodeAnn_fst]
  rw [applyChanAnn_fst hn, applyChanAnn_fst hn', hok]
  cases annOk g a
  · simp
  · simp only [if_true]
    rw [applyNodeAnn_fst, applyNodeAnn_fst]
    refine Graph.ext' rfl ?_ rfl rfl
    apply SMap.ext; intro k
    have h1' : a.n1 ≠ n.node := fun e => h1 e.symm
    have h2' : a.n2 ≠ n.node := fun e => h2 e.symm
    simp only [annInsert, SMap.get_set, get_addChanToNode, h1, h2, h1', h2', if_false]
    by_cases hk : k = n.node
    · subst hk; simp [h1, h2]
    · simp [hk]

theorem annInsert_comm (g : Graph) (a b : ChanAnn) (hs : a.scid ≠ b.scid) :
    annInsert (annInsert g a) b = annInsert (annInsert g b) a := by
  refine Graph.ext' ?_ ?_ rfl rfl
  · simp only [annInsert]; exact SMap.insert_comm _ _ _ hs
  · simp only [annInsert]
    -- A1 A2 B1 B2  →  B1 B2 A1 A2 by adjacent exchanges
    rw [addChanToNode_comm (addChanToNode g.nodes a.n1 a.scid) a.n2 a.scid b.n1 b.scid,
      addChanToNode_comm g.nodes a.n1 a.scid b.n1 b.scid,
      addChanToNode_comm (addChanToNode (addChanToNode g.nodes b.n1 b.scid) a.n1 a.scid) a.n2 a.scid b.n2 b.scid,
      addChanToNode_comm (addChanToNode g.nodes b.n1 b.scid) a.n1 a.scid b.n2 b.scid]

theorem comm_AA (g : Graph) (a b : ChanAnn) (hs : a.scid ≠ b.scid) (ha : noReplace g a) (hb : noReplace g b) :
    (applyChanAnn (applyChanAnn g a).1 b).1 = (applyChanAnn (applyChanAnn g b).1 a).1 := by
  have hs' : b.scid ≠ a.scid := fun e => hs e.symm
  have hb' : noReplace (applyChanAnn g a).1 b := noReplace_chanAnn ha hb (Or.inl hs')
  have ha' : noReplace (applyChanAnn g b).1 a := noReplace_chanAnn hb ha (Or.inl hs)
  rw [applyChanAnn_fst hb', applyChanAnn_fst ha', applyChanAnn_fst ha, applyChanAnn_fst hb]
  cases hoa : annOk g a <;> cases hob : annOk g b <;> simp only [if_true, if_false, Bool.false_eq_true, hoa, hob]
  · rw [annOk_congr (g := g) (g' := annInsert g b) a (by simp [annInsert, hs]) rfl rfl, hoa]; simp
  · rw [annOk_congr (g := g) (g' := annInsert g a) b (by simp [annInsert, hs']) rfl rfl, hob]; simp
  · rw [annOk_congr (g := g) (g' := annInsert g a) b (by simp [annInsert, hs']) rfl rfl, hob,
      annOk_congr (g := g) (g' := annInsert g b) a (by simp [annInsert, hs]) rfl rfl, hoa]
    simp only [if_true]
    exact annInsert_comm g a b hs

/-! ### admissible orders -/

/-- `x` has to be delivered before `y`: a channel announcement precedes the updates of that scid
    and the node announcements of its two endpoints -/
def mustPrecede : Msg → Msg → Bool
  | .chanAnn a, .chanUpd u => a.scid == u.scid
  | .chanAnn a, .nodeAnn n => n.node == a.n1 || n.node == a.n2
  | _, _ => false

/-- two *different* messages competing for the same slot with the same timestamp (or two different
    announcements of one scid): the first one delivered wins, so their order matters -/
def conflict : Msg → Msg → Bool
  | .chanAnn a, .chanAnn b => a.scid == b.scid && a != b
  | .chanUpd u, .chanUpd v => u.scid == v.scid && u.dir == v.dir && u.ts == v.ts && u != v
  | .nodeAnn n, .nodeAnn m => n.node == m.node && n.ts == m.ts && n != m
  | _, _ => false

def noReplaceMsg (g : Graph) : Msg → Prop
  | .chanAnn a => noReplace g a
  | _ => True

/-- two messages that may be delivered in either order commute -/
theorem applyMsg_comm (g : Graph) (x y : Msg) (hxy : mustPrecede x y = false)
    (hyx : mustPrecede y x = false) (hc : conflict x y = false)
    (hx : noReplaceMsg g x) (hy : noReplaceMsg g y) :
    (applyMsg (applyMsg g x).1 y).1 = (applyMsg (applyMsg g y).1 x).1 := by
  cases x with
  | chanAnn a =>
    cases y with
    | chanAnn b =>
      simp only [applyMsg]
      by_cases hab : a = b
      · subst hab; rfl
      · have hs : a.scid ≠ b.scid := by
          intro e; simp [conflict, e, hab] at hc
        exact comm_AA g a b hs hx hy
    | chanUpd u =>
      simp only [applyMsg]
      have hs : a.scid ≠ u.scid := by simpa [mustPrecede] using hxy
      exact comm_AU g a u hs hx
    | nodeAnn n =>
      simp only [applyMsg]
      have hs : n.node ≠ a.n1 ∧ n.node ≠ a.n2 := by simpa [mustPrecede] using hxy
      exact comm_AN g a n hs.1 hs.2 hx
  | chanUpd u =>
    cases y with
    | chanAnn b =>
      simp only [applyMsg]
      have hs : b.scid ≠ u.scid := by simpa [mustPrecede] using hyx
      exact (comm_AU g b u hs hy).symm
    | chanUpd v =>
      simp only [applyMsg]
      apply comm_UU
      by_cases h1 : u.scid = v.scid
      · by_cases h2 : u.dir = v.dir
        · by_cases h3 : u.ts = v.ts
          · right; right; right
            simpa [conflict, h1, h2, h3] using hc
          · exact Or.inr (Or.inr (Or.inl h3))
        · exact Or.inr (Or.inl h2)
      · exact Or.inl h1
    | nodeAnn n => simp only [applyMsg]; exact comm_UN g u n
  | nodeAnn n =>
    cases y with
    | chanAnn b =>
      simp only [applyMsg]
      have hs : n.node ≠ b.n1 ∧ n.node ≠ b.n2 := by simpa [mustPrecede] using hyx
      exact (comm_AN g b n hs.1 hs.2 hy).symm
    | chanUpd v => simp only [applyMsg]; exact (comm_UN g v n).symm
    | nodeAnn m =>
      simp only [applyMsg]
      apply comm_NN
      by_cases h1 : n.node = m.node
      · by_cases h3 : n.ts = m.ts
        · right; right
          simpa [conflict, h1, h3] using hc
        · exact Or.inr (Or.inl h3)
      · exact Or.inl h1

/-- `noReplace` for a pending announcement survives the delivery of a non-conflicting message -/
theorem noReplaceMsg_step (g : Graph) (x y : Msg) (hc : conflict x y = false)
    (hx : noReplaceMsg g x) (hy : noReplaceMsg g y) : noReplaceMsg (applyMsg g x).1 y := by
  cases y with
  | chanAnn b =>
    cases x with
    | chanAnn a =>
      simp only [noReplaceMsg, applyMsg] at *
      apply noReplace_chanAnn hx hy
      by_cases hs : b.scid = a.scid
      · right
        have : a.scid = b.scid := hs.symm
        have h2 : a = b := by simpa [conflict, this] using hc
        exact h2.symm
      · exact Or.inl hs
    | chanUpd u => exact noReplace_chanUpd u hy
    | nodeAnn n => exact noReplace_nodeAnn n hy
  | chanUpd v => trivial
  | nodeAnn m => trivial

/-- every announcement comes before the messages that depend on it -/
def Ordered (l : List Msg) : Prop := l.Pairwise (fun x y => mustPrecede y x = false)
/-- no two different messages compete for one slot with one timestamp -/
def NoConflict (l : List Msg) : Prop := ∀ x ∈ l, ∀ y ∈ l, conflict x y = false
/-- no announcement of the list hits the replace-existing-entry branch in `g` -/
def NoReplaceAll (g : Graph) (l : List Msg) : Prop := ∀ x ∈ l, noReplaceMsg g x

theorem runMsgs_cons (g : Graph) (m : Msg) (l : List Msg) :
    runMsgs g (m :: l) = runMsgs (applyMsg g m).1 l := rfl

theorem runMsgs_append (g : Graph) (l1 l2 : List Msg) :
    runMsgs g (l1 ++ l2) = runMsgs (runMsgs g l1) l2 := by
  simp [runMsgs, List.foldl_append]

theorem runMsgs_bubble (a : Msg) (p s : List Msg) (g : Graph)
    (hind : ∀ x ∈ p, x = a ∨ (mustPrecede a x = false ∧ mustPrecede x a = false))
    (hconf : NoConflict (a :: p)) (hnr : NoReplaceAll g (a :: p)) :
    runMsgs g (p ++ a :: s) = runMsgs g (a :: (p ++ s)) := by
  induction p generalizing g with
  | nil => rfl
  | cons x p' ih =>
    have hxa : conflict x a = false := hconf x (by simp) a (by simp)
    have hnx : noReplaceMsg g x := hnr x (by simp)
    have hna : noReplaceMsg g a := hnr a (by simp)
    have hstep : runMsgs (applyMsg g x).1 (p' ++ a :: s) = runMsgs (applyMsg g x).1 (a :: (p' ++ s)) := by
      apply ih
      · intro y hy; exact hind y (by simp [hy])
      · intro y hy z hz
        apply hconf
        · simp only [List.mem_cons] at hy ⊢; rcases hy with hy | hy
          · exact Or.inl hy
          · exact Or.inr (Or.inr hy)
        · simp only [List.mem_cons] at hz ⊢; rcases hz with hz | hz
          · exact Or.inl hz
          · exact Or.inr (Or.inr hz)
      · intro y hy
        have hy' : y ∈ a :: x :: p' := by
          simp only [List.mem_cons] at hy ⊢; rcases hy with hy | hy
          · exact Or.inl hy
          · exact Or.inr (Or.inr hy)
        exact noReplaceMsg_step g x y (hconf x (by simp) y hy') hnx (hnr y hy')
    show runMsgs (applyMsg g x).1 (p' ++ a :: s) = runMsgs (applyMsg (applyMsg g a).1 x).1 (p' ++ s)
    rw [hstep, runMsgs_cons]
    congr 1
    rcases hind x (by simp) with hx | hx
    · subst hx; rfl
    · exact applyMsg_comm g x a hx.2 hx.1 hxa hnx hna

/-- the order of delivery does not matter among admissible orders -/
theorem runMsgs_perm (l1 : List Msg) : ∀ (l2 : List Msg) (g : Graph), l1.Perm l2 → NoConflict l1 → Ordered l1 →
    Ordered l2 → NoReplaceAll g l1 → runMsgs g l1 = runMsgs g l2 := by
  induction l1 with
  | nil =>
    intro l2 g hp _ _ _ _
    have : l2 = [] := List.Perm.eq_nil hp.symm
    subst this; rfl
  | cons a t ih =>
    intro l2 g hp hc h1 h2 hnr
    have ha : a ∈ l2 := hp.subset (by simp)
    obtain ⟨p, s, rfl⟩ := List.append_of_mem ha
    have hpt : t.Perm (p ++ s) := (hp.trans List.perm_middle).cons_inv
    have h1' := List.pairwise_cons.mp h1
    have h2' := List.pairwise_append.mp h2
    have hmem : ∀ x ∈ p, x ∈ a :: t := fun x hx => hp.symm.subset (by simp [hx])
    have hind : ∀ x ∈ p, x = a ∨ (mustPrecede a x = false ∧ mustPrecede x a = false) := by
      intro x hx
      have hax : mustPrecede a x = false := h2'.2.2 x hx a (by simp)
      have := hmem x hx
      simp only [List.mem_cons] at this
      rcases this with h | h
      · exact Or.inl h
      · exact Or.inr ⟨hax, h1'.1 x h⟩
    have hsub : ∀ x ∈ a :: p, x ∈ a :: t := by
      intro x hx
      simp only [List.mem_cons] at hx
      rcases hx with h | h
      · simp [h]
      · exact hmem x h
    rw [runMsgs_bubble a p s g hind (fun x hx y hy => hc x (hsub x hx) y (hsub y hy))
      (fun x hx => hnr x (hsub x hx)), runMsgs_cons, runMsgs_cons]
    apply ih
    · exact hpt
    · intro x hx y hy; exact hc x (by simp [hx]) y (by simp [hy])
    · exact h1'.2
    · exact h2.sublist ((List.Sublist.refl p).append (List.sublist_cons_self a s))
    · intro y hy
      exact noReplaceMsg_step g a y (hc a (by simp) y (by simp [hy])) (hnr a (by simp)) (hnr y (by simp [hy]))

/-! ### rejected messages, verification -/

def Outcome.isReject : Outcome → Bool
  | .reject _ => true
  | _ => false

theorem addChannelBetweenNodes_reject {g : Graph} {scid : Nat} {c : ChanInfo} {b : Bool} {r : Reject}
    (h : (addChannelBetweenNodes g scid c b).2 = .reject r) : (addChannelBetweenNodes g scid c b).1 = g := by
  unfold addChannelBetweenNodes at h ⊢
  split at h
  · split at h
    · cases h
    · rename_i hb; simp [hb]
  · cases h

theorem applyChanAnn_reject {g : Graph} {a : ChanAnn} {r : Reject}
    (h : (applyChanAnn g a).2 = .reject r) : (applyChanAnn g a).1 = g := by
  unfold applyChanAnn at h ⊢
  cases hp : chanAnnPre g a with
  | some r' => rfl
  | none =>
    simp only [hp] at h ⊢
    by_cases h1 : (a.verify && !a.sigsOk) = true
    · simp [h1]
    · simp only [h1, if_false] at h ⊢
      by_cases h2 : (g.removedChannels.contains a.scid || g.removedNodes.contains a.n1
          || g.removedNodes.contains a.n2) = true
      · simp [h2]
      · simp only [h2, if_false] at h ⊢
        cases hu : a.utxo with
        | unknownTx => rfl
        | noLookup => simp only [hu] at h ⊢; exact addChannelBetweenNodes_reject h
        | value v => simp only [hu] at h ⊢; exact addChannelBetweenNodes_reject h

theorem applyChanUpd_reject {g : Graph} {u : ChanUpd} {r : Reject}
    (h : (applyChanUpd g u).2 = .reject r) : (applyChanUpd g u).1 = g := by
  unfold applyChanUpd at h ⊢
  repeat' split
  all_goals first | rfl | (simp_all)

theorem applyNodeAnn_reject {g : Graph} {n : NodeAnn} {r : Reject}
    (h : (applyNodeAnn g n).2 = .reject r) : (applyNodeAnn g n).1 = g := by
  unfold applyNodeAnn at h ⊢
  repeat' split
  all_goals first | rfl | (simp_all)

theorem applyMsg_reject {g : Graph} {m : Msg} {r : Reject}
    (h : (applyMsg g m).2 = .reject r) : (applyMsg g m).1 = g := by
  cases m with
  | chanAnn a => exact applyChanAnn_reject h
  | chanUpd u => exact applyChanUpd_reject h
  | nodeAnn n => exact applyNodeAnn_reject h

/-- was signature verification requested for this delivery? -/
def verifyRequested : Msg → Bool
  | .chanAnn a => a.verify
  | .chanUpd u => u.verify
  | .nodeAnn n => n.verify

/-- every signature the library has to check is valid: the four signatures of an announcement; the
    signature of an update made by the node the graph stores for that direction; the signature of
    a node announcement made by the announced node -/
def msgVerified (g : Graph) : Msg → Prop
  | .chanAnn a => a.sigN1 = true ∧ a.sigN2 = true ∧ a.sigB1 = true ∧ a.sigB2 = true
  | .chanUpd u => ∃ c, g.channels.get u.scid = some c ∧ u.signer = c.dirNode u.dir
  | .nodeAnn n => n.sigOk = true

theorem applyMsg_changed_verified (g : Graph) (m : Msg) (hv : verifyRequested m = true)
    (hch : (applyMsg g m).1 ≠ g) : msgVerified g m := by
  cases m with
  | chanAnn a =>
    simp only [verifyRequested] at hv
    simp only [msgVerified]
    apply Classical.byContradiction
    intro hn
    apply hch
    have hs : a.sigsOk = false := by
      simp only [ChanAnn.sigsOk]
      cases h1 : a.sigN1 <;> cases h2 : a.sigN2 <;> cases h3 : a.sigB1 <;> cases h4 : a.sigB2 <;> simp_all
    simp only [applyMsg]
    unfold applyChanAnn
    split
    · rfl
    · simp [hv, hs]
  | chanUpd u =>
    simp only [verifyRequested] at hv
    simp only [msgVerified]
    apply Classical.byContradiction
    intro hn
    apply hch
    simp only [applyMsg]
    rw [applyChanUpd_fst]
    cases hg : g.channels.get u.scid with
    | none => simp only [updChanO, Option.map_none]; rw [← hg, SMap.set_get_self]
    | some c =>
      have hne : u.signer ≠ c.dirNode u.dir := fun e => hn ⟨c, hg, e⟩
      have hst : staticOk c u = false := by simp [staticOk, hv, hne]
      have : updC c u = c := by rw [updC_eq, hst]; rfl
      simp only [updChanO, Option.map_some, this, ite_self]
      rw [← hg, SMap.set_get_self]
  | nodeAnn n =>
    simp only [verifyRequested] at hv
    simp only [msgVerified]
    apply Classical.byContradiction
    intro hn
    apply hch
    have hs : n.sigOk = false := by simpa using hn
    simp only [applyMsg]
    rw [applyNodeAnn_fst]
    have : ∀ ni, updN ni n = ni := by intro ni; simp [updN, nodeStaticOk, hv, hs]
    simp only [this, Option.map_id']
    rw [SMap.set_get_self]

/-! ### stored timestamps never go back -/

/-- a stored direction is only ever replaced by a strictly newer one -/
def dirMono (o o' : Option UpdInfo) : Prop :=
  ∀ u u', o = some u → o' = some u' → u.lastUpdate < u'.lastUpdate ∨ u' = u
def chanMono (c c' : ChanInfo) : Prop := dirMono c.d12 c'.d12 ∧ dirMono c.d21 c'.d21
def annMono (o o' : Option NodeAnnInfo) : Prop :=
  ∀ a a', o = some a → o' = some a' → a.lastUpdate < a'.lastUpdate ∨ a' = a

theorem dirMono_refl (o : Option UpdInfo) : dirMono o o := by
  intro u u' h h'; rw [h] at h'; cases h'; exact Or.inr rfl
theorem dirMono_none (o : Option UpdInfo) : dirMono o none := by
  intro u u' _ h'; cases h'
theorem chanMono_refl (c : ChanInfo) : chanMono c c := ⟨dirMono_refl _, dirMono_refl _⟩
theorem annMono_refl (o : Option NodeAnnInfo) : annMono o o := by
  intro u u' h h'; rw [h] at h'; cases h'; exact Or.inr rfl

theorem chanMono_updC (c : ChanInfo) (u : ChanUpd) : chanMono c (updC c u) := by
  rw [updC_eq]
  split
  · rename_i h
    simp only [Bool.and_eq_true] at h
    have hn := h.2
    cases hd : u.dir
    · simp only [hd, ChanInfo.dir, Bool.false_eq_true, if_false] at hn
      refine ⟨?_, dirMono_refl _⟩
      intro x x' hx hx'
      simp only [ChanInfo.setDir, Bool.false_eq_true, if_false, Option.some.injEq] at hx'
      subst hx'
      rw [hx] at hn
      left; simpa [newer] using hn
    · simp only [hd, ChanInfo.dir, if_true] at hn
      refine ⟨dirMono_refl _, ?_⟩
      intro x x' hx hx'
      simp only [ChanInfo.setDir, if_true, Option.some.injEq] at hx'
      subst hx'
      rw [hx] at hn
      left; simpa [newer] using hn
  · exact chanMono_refl c

theorem addChannelBetweenNodes_channels (g : Graph) (scid : Nat) (c : ChanInfo) (b : Bool) (s : Nat)
    (c' : ChanInfo) (h : (addChannelBetweenNodes g scid c b).1.channels.get s = some c') :
    g.channels.get s = some c' ∨ c' = c := by
  unfold addChannelBetweenNodes at h
  split at h
  · split at h
    · simp only [SMap.get_insert] at h
      split at h
      · right; cases h; rfl
      · exact Or.inl h
    · exact Or.inl h
  · simp only [SMap.get_insert] at h
    split at h
    · right; cases h; rfl
    · exact Or.inl h

theorem applyChanAnn_channels (g : Graph) (a : ChanAnn) (s : Nat) (c' : ChanInfo)
    (h : (applyChanAnn g a).1.channels.get s = some c') :
    g.channels.get s = some c' ∨ (c'.d12 = none ∧ c'.d21 = none) := by
  unfold applyChanAnn at h
  split at h
  · exact Or.inl h
  · split at h
    · exact Or.inl h
    · split at h
      · exact Or.inl h
      · split at h
        · exact Or.inl h
        · rcases addChannelBetweenNodes_channels _ _ _ _ _ _ h with h | h
          · exact Or.inl h
          · right; subst h; exact ⟨rfl, rfl⟩
        · rcases addChannelBetweenNodes_channels _ _ _ _ _ _ h with h | h
          · exact Or.inl h
          · right; subst h; exact ⟨rfl, rfl⟩

theorem nodeFail_fold_channels (id now : Nat) (l : List Nat)
    (st : SMap ChanInfo × SMap NodeInfo × SMap Nat) (s : Nat) (c' : ChanInfo)
    (h : (l.foldl (nodeFailStep id now) st).1.get s = some c') : st.1.get s = some c' := by
  induction l generalizing st with
  | nil => exact h
  | cons x t ih =>
    have := ih _ h
    unfold nodeFailStep at this
    split at this
    · simp only [SMap.get_erase] at this
      split at this
      · cases this
      · exact this
    · exact this

theorem pruneDir_mono (minT : Nat) (o : Option UpdInfo) : dirMono o (pruneDir minT o) := by
  intro u u' h h'
  rw [h] at h'
  simp only [pruneDir] at h'
  split at h'
  · cases h'
  · cases h'; exact Or.inr rfl

theorem pruneChan_mono (minT : Nat) (c c' : ChanInfo) (h : pruneChan minT c = some c') : chanMono c c' := by
  simp only [pruneChan] at h
  split at h
  · cases h
  · cases h; exact ⟨pruneDir_mono _ _, pruneDir_mono _ _⟩

theorem step_chanMono (g : Graph) (op : Op) (s : Nat) (c c' : ChanInfo)
    (h : g.channels.get s = some c) (h' : (step g op).1.channels.get s = some c') : chanMono c c' := by
  cases op with
  | msg m =>
    cases m with
    | chanAnn a =>
      rcases applyChanAnn_channels g a s c' h' with e | e
      · rw [h] at e; cases e; exact chanMono_refl c
      · exact ⟨by rw [e.1]; exact dirMono_none _, by rw [e.2]; exact dirMono_none _⟩
    | chanUpd u =>
      simp only [step, applyMsg] at h'
      rw [applyChanUpd_fst] at h'
      simp only [SMap.get_set] at h'
      split at h'
      · rename_i hs
        rw [← hs, h] at h'
        simp only [updChanO, Option.map_some, Option.some.injEq] at h'
        subst h'
        split
        · exact chanMono_updC c u
        · exact chanMono_refl c
      · rw [h] at h'; cases h'; exact chanMono_refl c
    | nodeAnn n =>
      simp only [step, applyMsg] at h'
      rw [applyNodeAnn_fst] at h'
      rw [h] at h'; cases h'; exact chanMono_refl c
  | chanPartial scid cap recv n1 n2 =>
    simp only [step, applyChanPartial] at h'
    split at h'
    · rw [h] at h'; cases h'; exact chanMono_refl c
    · rcases addChannelBetweenNodes_channels _ _ _ _ _ _ h' with e | e
      · rw [h] at e; cases e; exact chanMono_refl c
      · subst e; exact ⟨dirMono_none _, dirMono_none _⟩
  | failPermanent scid now =>
    simp only [step, failPermanent] at h'
    split at h'
    · simp only [SMap.get_erase] at h'
      split at h'
      · cases h'
      · rw [h] at h'; cases h'; exact chanMono_refl c
    · rw [h] at h'; cases h'; exact chanMono_refl c
  | nodeFailPermanent id now =>
    simp only [step, nodeFailPermanent] at h'
    split at h'
    · have := nodeFail_fold_channels _ _ _ _ _ _ h'
      rw [h] at this; cases this; exact chanMono_refl c
    · rw [h] at h'; cases h'; exact chanMono_refl c
  | pruneAt t =>
    simp only [step, pruneAt] at h'
    split at h'
    · rw [h] at h'; cases h'; exact chanMono_refl c
    · split at h'
      · rw [h] at h'; cases h'; exact chanMono_refl c
      · simp only [SMap.get_filterMap, h, Option.bind_some] at h'
        exact pruneChan_mono _ _ _ h'

/-- node announcements: what a delivery does to the stored announcement of a node entry -/
theorem annMono_updN (ni : NodeInfo) (n : NodeAnn) : annMono ni.ann (updN ni n).ann := by
  unfold updN
  split
  · rename_i h
    simp only [Bool.and_eq_true] at h
    intro a a' ha ha'
    simp only [Option.some.injEq] at ha'
    subst ha'
    have := h.2
    rw [ha] at this
    left; simpa [newerN] using this
  · exact annMono_refl _

/-- what `remove_from_node!` leaves of a node entry -/
def removeFrom (ni : NodeInfo) (scid : Nat) : Option NodeInfo :=
  if (ni.channels.erase scid).isEmpty then none else some { ni with channels := ni.channels.erase scid }

theorem get_removeChanFromNode (m : SMap NodeInfo) (id scid k : Nat) :
    (removeChanFromNode m id scid).get k =
      if k = id then (m.get id).bind (fun ni => removeFrom ni scid) else m.get k := by
  unfold removeChanFromNode removeFrom
  cases hm : m.get id with
  | none =>
    simp only [Option.bind_none]
    split
    · rename_i h; rw [h, hm]
    · rfl
  | some ni =>
    simp only [Option.bind_some]
    split <;> simp

/-- node entries of `m'` carry the announcement they had in `m`, or none -/
def AnnPres (m m' : SMap NodeInfo) : Prop :=
  ∀ id ni', m'.get id = some ni' → ni'.ann = none ∨ ∃ ni, m.get id = some ni ∧ ni'.ann = ni.ann

theorem AnnPres.refl (m : SMap NodeInfo) : AnnPres m m := fun _ ni' h => Or.inr ⟨ni', h, rfl⟩

theorem AnnPres.trans {m1 m2 m3 : SMap NodeInfo} (h12 : AnnPres m1 m2) (h23 : AnnPres m2 m3) : AnnPres m1 m3 := by
  intro id ni3 h3
  rcases h23 id ni3 h3 with h | ⟨ni2, h2, e2⟩
  · exact Or.inl h
  · rcases h12 id ni2 h2 with h | ⟨ni1, h1, e1⟩
    · left; rw [e2, h]
    · right; exact ⟨ni1, h1, by rw [e2, e1]⟩

theorem AnnPres_add (m : SMap NodeInfo) (id scid : Nat) : AnnPres m (addChanToNode m id scid) := by
  intro k ni' h
  rw [get_addChanToNode] at h
  split at h
  · rename_i hk
    simp only [Option.some.injEq] at h
    subst h
    cases hm : m.get id with
    | none => left; rfl
    | some ni => right; exact ⟨ni, by rw [hk, hm], rfl⟩
  · exact Or.inr ⟨ni', h, rfl⟩

theorem AnnPres_remove (m : SMap NodeInfo) (id scid : Nat) : AnnPres m (removeChanFromNode m id scid) := by
  intro k ni' h
  rw [get_removeChanFromNode] at h
  split at h
  · rename_i hk
    cases hm : m.get id with
    | none => rw [hm] at h; cases h
    | some ni =>
      rw [hm] at h
      simp only [Option.bind_some, removeFrom] at h
      split at h
      · cases h
      · cases h; right; exact ⟨ni, by rw [hk, hm], rfl⟩
  · exact Or.inr ⟨ni', h, rfl⟩

theorem AnnPres_erase (m : SMap NodeInfo) (id : Nat) : AnnPres m (m.erase id) := by
  intro k ni' h
  rw [SMap.get_erase] at h
  split at h
  · cases h
  · exact Or.inr ⟨ni', h, rfl⟩

theorem addChannelBetweenNodes_AnnPres (g : Graph) (scid : Nat) (c : ChanInfo) (b : Bool) :
    AnnPres g.nodes (addChannelBetweenNodes g scid c b).1.nodes := by
  unfold addChannelBetweenNodes
  split
  · split
    · exact (((AnnPres_remove _ _ _).trans (AnnPres_remove _ _ _)).trans (AnnPres_add _ _ _)).trans (AnnPres_add _ _ _)
    · exact AnnPres.refl _
  · exact (AnnPres_add _ _ _).trans (AnnPres_add _ _ _)

theorem applyChanAnn_AnnPres (g : Graph) (a : ChanAnn) : AnnPres g.nodes (applyChanAnn g a).1.nodes := by
  unfold applyChanAnn
  split
  · exact AnnPres.refl _
  · split
    · exact AnnPres.refl _
    · split
      · exact AnnPres.refl _
      · split
        · exact AnnPres.refl _
        · exact addChannelBetweenNodes_AnnPres _ _ _ _
        · exact addChannelBetweenNodes_AnnPres _ _ _ _

theorem nodeFail_fold_AnnPres (id now : Nat) (l : List Nat) (st : SMap ChanInfo × SMap NodeInfo × SMap Nat) :
    AnnPres st.2.1 (l.foldl (nodeFailStep id now) st).2.1 := by
  induction l generalizing st with
  | nil => exact AnnPres.refl _
  | cons x t ih =>
    refine AnnPres.trans ?_ (ih _)
    unfold nodeFailStep
    split
    · exact AnnPres_remove _ _ _
    · exact AnnPres.refl _

theorem step_annMono (g : Graph) (op : Op) (id : Nat) (ni ni' : NodeInfo)
    (h : g.nodes.get id = some ni) (h' : (step g op).1.nodes.get id = some ni') : annMono ni.ann ni'.ann := by
  have fromPres : AnnPres g.nodes (step g op).1.nodes → annMono ni.ann ni'.ann := by
    intro hp
    rcases hp id ni' h' with e | ⟨n0, h0, e⟩
    · rw [e]; intro a a' _ ha'; cases ha'
    · rw [h] at h0; cases h0; rw [e]; exact annMono_refl _
  cases op with
  | msg m =>
    cases m with
    | chanAnn a => exact fromPres (applyChanAnn_AnnPres g a)
    | chanUpd u =>
      apply fromPres
      simp only [step, applyMsg]; rw [applyChanUpd_fst]; exact AnnPres.refl _
    | nodeAnn n =>
      simp only [step, applyMsg] at h'
      rw [applyNodeAnn_fst] at h'
      simp only [SMap.get_set] at h'
      split at h'
      · rename_i hs
        rw [← hs, h] at h'
        simp only [Option.map_some, Option.some.injEq] at h'
        subst h'
        exact annMono_updN ni n
      · rw [h] at h'; cases h'; exact annMono_refl _
  | chanPartial scid cap recv n1 n2 =>
    apply fromPres
    simp only [step, applyChanPartial]
    split
    · exact AnnPres.refl _
    · exact addChannelBetweenNodes_AnnPres _ _ _ _
  | failPermanent scid now =>
    apply fromPres
    simp only [step, failPermanent]
    split
    · exact (AnnPres_remove _ _ _).trans (AnnPres_remove _ _ _)
    · exact AnnPres.refl _
  | nodeFailPermanent nid now =>
    apply fromPres
    simp only [step, nodeFailPermanent]
    split
    · exact (AnnPres_erase _ _).trans (nodeFail_fold_AnnPres _ _ _ _)
    · exact AnnPres.refl _
  | pruneAt t =>
    apply fromPres
    simp only [step, pruneAt]
    split
    · exact AnnPres.refl _
    · split
      · exact AnnPres.refl _
      · intro k nk hk
        simp only [SMap.get_filterMap] at hk
        cases hg : g.nodes.get k with
        | none => rw [hg] at hk; cases hk
        | some n0 =>
          rw [hg] at hk
          simp only [Option.bind_some, pruneNode] at hk
          split at hk
          · cases hk
          · cases hk; exact Or.inr ⟨n0, rfl, rfl⟩

/-! ### duplicates -/

theorem SMap.set_set {α : Type} (m : SMap α) (k : Nat) (v w : Option α) : (m.set k v).set k w = m.set k w := by
  apply SMap.ext; intro k'; simp only [SMap.get_set]; split <;> rfl

theorem updC_idem (c : ChanInfo) (u : ChanUpd) : updC (updC c u) u = updC c u := by
  rw [updC_eq (updC c u), staticOk_updC, updC_eq c u]
  split
  · have : newer ((c.setDir u.dir (some u.info)).dir u.dir) u.ts = false := by
      simp [dir_setDir, newer]
    rw [this]; simp
  · rfl

theorem updN_idem (ni : NodeInfo) (n : NodeAnn) : updN (updN ni n) n = updN ni n := by
  unfold updN
  split
  · simp [newerN]
  · rfl

theorem applyChanUpd_idem (g : Graph) (u : ChanUpd) :
    (applyChanUpd (applyChanUpd g u).1 u).1 = (applyChanUpd g u).1 := by
  rw [applyChanUpd_fst (applyChanUpd g u).1, applyChanUpd_fst g u]
  refine Graph.ext' ?_ rfl rfl rfl
  simp only [SMap.get_set, if_true, SMap.set_set]
  congr 1
  cases g.channels.get u.scid with
  | none => rfl
  | some c =>
    simp only [updChanO, Option.map_some]
    cases globalOk u <;> simp [updC_idem]

theorem applyNodeAnn_idem (g : Graph) (n : NodeAnn) :
    (applyNodeAnn (applyNodeAnn g n).1 n).1 = (applyNodeAnn g n).1 := by
  rw [applyNodeAnn_fst (applyNodeAnn g n).1, applyNodeAnn_fst g n]
  refine Graph.ext' rfl ?_ rfl rfl
  simp only [SMap.get_set, if_true, SMap.set_set]
  congr 1
  cases g.nodes.get n.node with
  | none => rfl
  | some ni => simp [updN_idem]

theorem addChannelBetweenNodes_accept {g : Graph} {scid : Nat} {c : ChanInfo} {b : Bool}
    (h : (addChannelBetweenNodes g scid c b).2 = .accept) :
    (addChannelBetweenNodes g scid c b).1.channels.get scid = some c := by
  unfold addChannelBetweenNodes at h ⊢
  cases hg : g.channels.get scid with
  | none => simp
  | some old =>
    cases b
    · simp [hg] at h
    · simp

theorem applyChanAnn_outcome (g : Graph) (a : ChanAnn) :
    (∃ r, (applyChanAnn g a).2 = .reject r) ∨
    ((applyChanAnn g a).2 = .accept ∧ a.n1 < a.n2 ∧ a.sameBtc = false ∧ a.chainOk = true ∧
      (applyChanAnn g a).1.channels.get a.scid = some (annChan a)) := by
  unfold applyChanAnn
  cases hp : chanAnnPre g a with
  | some r => left; exact ⟨r, rfl⟩
  | none =>
    have hst : a.n1 < a.n2 ∧ a.sameBtc = false ∧ a.chainOk = true := by
      unfold chanAnnPre at hp
      split at hp
      · cases hp
      · split at hp
        · cases hp
        · split at hp
          · cases hp
          · rename_i h1 h2 h3
            exact ⟨by omega, by simpa using h2, by simpa using h3⟩
    simp only []
    split
    · left; exact ⟨_, rfl⟩
    · split
      · left; exact ⟨_, rfl⟩
      · cases hu : a.utxo with
        | unknownTx => left; exact ⟨_, rfl⟩
        | noLookup =>
          simp only []
          cases ho : (addChannelBetweenNodes g a.scid
            { node1 := a.n1, node2 := a.n2, capacity := none, d12 := none, d21 := none,
              recvTime := a.now, hasMsg := a.verify } false).2 with
          | reject r => left; exact ⟨r, rfl⟩
          | accept =>
            right
            refine ⟨rfl, hst.1, hst.2.1, hst.2.2, ?_⟩
            have := addChannelBetweenNodes_accept ho
            simpa [annChan, hu] using this
          | done =>
            exfalso
            unfold addChannelBetweenNodes at ho
            split at ho
            · split at ho <;> cases ho
            · cases ho
        | value v =>
          simp only []
          cases ho : (addChannelBetweenNodes g a.scid
            { node1 := a.n1, node2 := a.n2, capacity := some v, d12 := none, d21 := none,
              recvTime := a.now, hasMsg := a.verify } true).2 with
          | reject r => left; exact ⟨r, rfl⟩
          | accept =>
            right
            refine ⟨rfl, hst.1, hst.2.1, hst.2.2, ?_⟩
            have := addChannelBetweenNodes_accept ho
            simpa [annChan, hu] using this
          | done =>
            exfalso
            unfold addChannelBetweenNodes at ho
            split at ho
            · split at ho <;> cases ho
            · cases ho

theorem applyChanAnn_idem (g : Graph) (a : ChanAnn) :
    (applyChanAnn (applyChanAnn g a).1 a).1 = (applyChanAnn g a).1 := by
  rcases applyChanAnn_outcome g a with ⟨r, hr⟩ | ⟨_, h1, h2, h3, hget⟩
  · have e := applyChanAnn_reject hr
    rw [e, e]
  · generalize (applyChanAnn g a).1 = g1 at hget ⊢
    cases hu : a.utxo with
    | unknownTx =>
      unfold applyChanAnn
      simp only [hu]
      repeat' split
      all_goals rfl
    | noLookup =>
      have hpre : chanAnnPre g1 a = some .dupNonChainValidated := by
        unfold chanAnnPre
        have : ¬ a.n1 ≥ a.n2 := by omega
        simp [this, h2, h3, hget, annChan, hu]
      unfold applyChanAnn
      simp [hpre]
    | value v =>
      have hpre : chanAnnPre g1 a = some .dupChainValidated := by
        unfold chanAnnPre
        have : ¬ a.n1 ≥ a.n2 := by omega
        simp [this, h2, h3, hget, annChan, hu]
      unfold applyChanAnn
      simp [hpre]

theorem applyMsg_idem (g : Graph) (m : Msg) : (applyMsg (applyMsg g m).1 m).1 = (applyMsg g m).1 := by
  cases m with
  | chanAnn a => exact applyChanAnn_idem g a
  | chanUpd u => exact applyChanUpd_idem g u
  | nodeAnn n => exact applyNodeAnn_idem g n

/-! ### permanent failures -/

theorem removeFrom_spec (ni ni' : NodeInfo) (scid : Nat) (h : removeFrom ni scid = some ni') :
    ni'.channels.get scid = none ∧ ni'.channels.isEmpty = false ∧ ni'.ann = ni.ann ∧
    ∀ s, s ≠ scid → ni'.channels.get s = ni.channels.get s := by
  unfold removeFrom at h
  split at h
  · cases h
  · rename_i he
    cases h
    refine ⟨by simp, by simpa using he, rfl, ?_⟩
    intro s hs; simp [hs]

/-- an endpoint entry after `remove_channel_in_nodes`: gone, or still there without the scid and
    with at least one other channel -/
theorem removeChanInNodes_endpoint (m : SMap NodeInfo) (c : ChanInfo) (scid id : Nat)
    (hid : id = c.node1 ∨ id = c.node2) (ni' : NodeInfo)
    (h : (removeChanInNodes m c scid).get id = some ni') :
    ni'.channels.get scid = none ∧ ni'.channels.isEmpty = false := by
  unfold removeChanInNodes at h
  rw [get_removeChanFromNode] at h
  split at h
  · -- id = node2: the entry went through removeFrom
    cases hm : (removeChanFromNode m c.node1 scid).get c.node2 with
    | none => rw [hm] at h; cases h
    | some n0 =>
      rw [hm] at h
      simp only [Option.bind_some] at h
      have := removeFrom_spec n0 ni' scid h
      exact ⟨this.1, this.2.1⟩
  · rename_i hne
    have hid1 : id = c.node1 := by
      rcases hid with h1 | h2
      · exact h1
      · exact absurd h2 hne
    rw [get_removeChanFromNode, if_pos hid1] at h
    cases hm : m.get c.node1 with
    | none => rw [hm] at h; cases h
    | some n0 =>
      rw [hm] at h
      simp only [Option.bind_some] at h
      have := removeFrom_spec n0 ni' scid h
      exact ⟨this.1, this.2.1⟩

theorem nodeFail_fold_spec (id now : Nat) (l : List Nat) (st : SMap ChanInfo × SMap NodeInfo × SMap Nat) :
    (st.2.1.get id = none → (l.foldl (nodeFailStep id now) st).2.1.get id = none) ∧
    (∀ s, st.1.get s = none → (l.foldl (nodeFailStep id now) st).1.get s = none) ∧
    (∀ s, s ∈ l → (l.foldl (nodeFailStep id now) st).1.get s = none) ∧
    (∀ s, st.2.2.get s = some now → (l.foldl (nodeFailStep id now) st).2.2.get s = some now) ∧
    (∀ s, s ∈ l → st.1.get s ≠ none → (l.foldl (nodeFailStep id now) st).2.2.get s = some now) := by
  induction l generalizing st with
  | nil =>
    exact ⟨fun h => h, fun _ h => h, fun _ h => absurd h (by simp), fun _ h => h, fun _ h => absurd h (by simp)⟩
  | cons x t ih =>
    have hstep := ih (nodeFailStep id now st x)
    simp only [List.foldl_cons]
    obtain ⟨i1, i2, i3, i4, i5⟩ := hstep
    -- facts about one step
    have s1 : st.2.1.get id = none → (nodeFailStep id now st x).2.1.get id = none := by
      intro h
      unfold nodeFailStep
      split
      · rename_i c hc
        simp only
        generalize (if id = c.node1 then c.node2 else c.node1) = other
        rw [get_removeChanFromNode]
        split
        · rename_i hk; rw [← hk, h]; rfl
        · exact h
      · exact h
    have s2 : ∀ s, st.1.get s = none → (nodeFailStep id now st x).1.get s = none := by
      intro s h
      unfold nodeFailStep
      split
      · simp only [SMap.get_erase]; split
        · rfl
        · exact h
      · exact h
    have s3 : (nodeFailStep id now st x).1.get x = none := by
      unfold nodeFailStep
      split
      · simp
      · rename_i h; exact h
    have s4 : ∀ s, st.2.2.get s = some now → (nodeFailStep id now st x).2.2.get s = some now := by
      intro s h
      unfold nodeFailStep
      split
      · simp only [SMap.get_insert]; split
        · rfl
        · exact h
      · exact h
    have s5 : st.1.get x ≠ none → (nodeFailStep id now st x).2.2.get x = some now := by
      intro h
      unfold nodeFailStep
      split
      · simp
      · rename_i hn; exact absurd hn h
    have s6 : ∀ s, s ≠ x → (nodeFailStep id now st x).1.get s = st.1.get s := by
      intro s hs
      unfold nodeFailStep
      split
      · simp [hs]
      · rfl
    refine ⟨fun h => i1 (s1 h), fun s h => i2 s (s2 s h), ?_, fun s h => i4 s (s4 s h), ?_⟩
    · intro s hs
      simp only [List.mem_cons] at hs
      rcases hs with h | h
      · subst h; exact i2 _ s3
      · exact i3 s h
    · intro s hs hne
      simp only [List.mem_cons] at hs
      by_cases hx : s = x
      · subst hx; exact i4 _ (s5 hne)
      · rcases hs with h | h
        · exact absurd h hx
        · exact i5 s h (by rw [s6 s hx]; exact hne)

/-! ### pruning -/

theorem get_foldl_insert (l : List Nat) (t : Nat) (m : SMap Nat) (k : Nat) :
    (l.foldl (fun m s => m.insert s t) m).get k = if k ∈ l then some t else m.get k := by
  induction l generalizing m with
  | nil => simp
  | cons x r ih =>
    simp only [List.foldl_cons, ih, SMap.get_insert, List.mem_cons]
    by_cases h1 : k ∈ r
    · simp [h1]
    · by_cases h2 : k = x <;> simp [h1, h2]

theorem prunedScid_mem_keys (g : Graph) (minT s : Nat) :
    s ∈ g.channels.keys.filter (prunedScid g minT) ↔ prunedScid g minT s = true := by
  simp only [List.mem_filter]
  constructor
  · exact fun h => h.2
  · intro h
    refine ⟨?_, h⟩
    rw [SMap.mem_keys_iff]
    unfold prunedScid at h
    cases hg : g.channels.get s with
    | none => rw [hg] at h; cases h
    | some c => rfl

theorem keepTracking_self (t : Nat) : keepTracking t t = some t := by
  have : REMOVED_ENTRIES_TRACKING_AGE_LIMIT_SECS = 604800 := rfl
  simp [keepTracking, this]

theorem pruneAt_spec (g : Graph) (t : Nat) (h1 : t ≤ U32_MAX) (h2 : STALE_CHANNEL_UPDATE_AGE_LIMIT_SECS ≤ t) :
    (∀ s, (pruneAt g t).channels.get s =
        (g.channels.get s).bind (pruneChan (t - STALE_CHANNEL_UPDATE_AGE_LIMIT_SECS))) ∧
    (∀ id, (pruneAt g t).nodes.get id =
        (g.nodes.get id).bind (pruneNode g (t - STALE_CHANNEL_UPDATE_AGE_LIMIT_SECS))) ∧
    (∀ s, (pruneAt g t).removedChannels.get s =
        if prunedScid g (t - STALE_CHANNEL_UPDATE_AGE_LIMIT_SECS) s then some t
        else (g.removedChannels.get s).bind (keepTracking t)) ∧
    (∀ id, (pruneAt g t).removedNodes.get id = (g.removedNodes.get id).bind (keepTracking t)) := by
  have e1 : ¬ t > U32_MAX := by omega
  have e2 : ¬ t < STALE_CHANNEL_UPDATE_AGE_LIMIT_SECS := by omega
  unfold pruneAt
  simp only [e1, e2, if_false]
  refine ⟨fun s => by simp, fun id => by simp, ?_, fun id => by simp⟩
  intro s
  simp only [SMap.get_filterMap, get_foldl_insert, prunedScid_mem_keys]
  split
  · simp [keepTracking_self]
  · rfl

theorem pruneAt_out_of_range (g : Graph) (t : Nat)
    (h : t > U32_MAX ∨ t < STALE_CHANNEL_UPDATE_AGE_LIMIT_SECS) : pruneAt g t = g := by
  unfold pruneAt
  rcases h with h | h
  · simp [h]
  · by_cases h' : t > U32_MAX <;> simp [h, h']

theorem pruneDir_eq_some (minT : Nat) (d : Option UpdInfo) (u : UpdInfo) :
    pruneDir minT d = some u ↔ d = some u ∧ minT ≤ u.lastUpdate := by
  cases d with
  | none => simp [pruneDir]
  | some x =>
    simp only [pruneDir]
    split
    · rename_i h
      constructor
      · intro e; cases e
      · rintro ⟨e, h'⟩; cases e; omega
    · rename_i h
      constructor
      · intro e; cases e; exact ⟨rfl, by omega⟩
      · rintro ⟨e, _⟩; cases e; rfl

theorem pruneChan_eq_none (minT : Nat) (c : ChanInfo) :
    pruneChan minT c = none ↔
      ((pruneDir minT c.d12 = none ∨ pruneDir minT c.d21 = none) ∧ c.recvTime < minT) := by
  simp only [pruneChan]
  split
  · rename_i h
    simp only [Bool.and_eq_true, Bool.or_eq_true, Option.isNone_iff_eq_none, decide_eq_true_eq] at h
    simp [h]
  · rename_i h
    simp only [Bool.and_eq_true, Bool.or_eq_true, Option.isNone_iff_eq_none, decide_eq_true_eq] at h
    constructor
    · intro e; cases e
    · intro e; exact absurd e h

theorem pruneChan_eq_some (minT : Nat) (c c' : ChanInfo) (h : pruneChan minT c = some c') :
    c' = { c with d12 := pruneDir minT c.d12, d21 := pruneDir minT c.d21 } := by
  simp only [pruneChan] at h
  split at h
  · cases h
  · cases h; rfl

end Ldk.Gossip
