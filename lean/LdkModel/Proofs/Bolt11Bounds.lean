/- Helper lemmas for the numeric-bounds theorems of C18 (Props/C18.lean, section `bounds`):
   checked base-32 integers, the 35-bit timestamp field, lengths under the 5 ↔ 8 bit regrouping. -/
import LdkModel.Proofs.Bolt11
import LdkModel.Proofs.Bits
namespace Ldk.Bolt11
open Ldk Ldk.Prim.Bech32

/-! ### `parse_u64_be`: the checked fold equals the closed form -/

/-- the unchecked fold only grows -/
theorem foldl_be_ge (d : List U5) (a : Nat) : a ≤ d.foldl (fun a b => a * 32 + b.toNat) a := by
  induction d generalizing a with
  | nil => simp
  | cons x xs ih =>
    simp only [List.foldl_cons]
    exact Nat.le_trans (by omega) (ih (a * 32 + x.toNat))

theorem foldl_checked_none (d : List U5) :
    d.foldl (fun acc b => acc.bind fun x => (chkMul64 x 32).bind fun y => chkAdd64 y b.toNat) (none : Option Nat) = none := by
  induction d with
  | nil => rfl
  | cons x xs ih => simpa using ih

theorem foldl_checked (d : List U5) (a : Nat) (ha : a < 2 ^ 64) :
    d.foldl (fun acc b => acc.bind fun x => (chkMul64 x 32).bind fun y => chkAdd64 y b.toNat) (some a)
      = if d.foldl (fun a b => a * 32 + b.toNat) a < 2 ^ 64 then some (d.foldl (fun a b => a * 32 + b.toNat) a) else none := by
  induction d generalizing a with
  | nil => simp [ha]
  | cons x xs ih =>
    simp only [List.foldl_cons]
    by_cases h : a * 32 + x.toNat < 2 ^ 64
    · have h1 : a * 32 < 2 ^ 64 := by omega
      have : (some a).bind (fun x_1 => (chkMul64 x_1 32).bind fun y => chkAdd64 y x.toNat) = some (a * 32 + x.toNat) := by
        simp [chkMul64, chkAdd64, h1, h]
      rw [this]
      exact ih _ h
    · have hge := foldl_be_ge xs (a * 32 + x.toNat)
      have : (some a).bind (fun x_1 => (chkMul64 x_1 32).bind fun y => chkAdd64 y x.toNat) = none := by
        simp only [Option.bind_some, chkMul64, chkAdd64]
        by_cases h1 : a * 32 < 2 ^ 64
        · simp [h1, h]
        · simp [h1]
      rw [this, foldl_checked_none]
      have : ¬ List.foldl (fun a b => a * 32 + b.toNat) (a * 32 + x.toNat) xs < 2 ^ 64 := by omega
      simp [this]

/-- de.rs::parse_u64_be in closed form: the big-endian value when it fits a u64, otherwise `None` -/
theorem parseU64Be_closed (d : List U5) :
    parseU64Be d = if parseIntBe d < 2 ^ 64 then some (parseIntBe d) else none := by
  unfold parseU64Be parseIntBe
  exact foldl_checked d 0 (by decide)

/-- valid symbols: the value is below `32 ^ length` -/
theorem foldl_be_lt (d : List U5) (hv : ∀ x ∈ d, x < 32) (a : Nat) :
    d.foldl (fun a b => a * 32 + b.toNat) a < (a + 1) * 32 ^ d.length := by
  induction d generalizing a with
  | nil => simp
  | cons x xs ih =>
    simp only [List.foldl_cons, List.length_cons]
    have hx : x.toNat < 32 := by
      have := hv x List.mem_cons_self
      exact UInt8.lt_iff_toNat_lt.mp this
    have := ih (fun y hy => hv y (List.mem_cons_of_mem _ hy)) (a * 32 + x.toNat)
    refine Nat.lt_of_lt_of_le this ?_
    rw [Nat.pow_succ, Nat.mul_comm (32 ^ xs.length) 32, ← Nat.mul_assoc]
    exact Nat.mul_le_mul_right _ (by omega)

theorem parseIntBe_lt (d : List U5) (hv : ∀ x ∈ d, x < 32) : parseIntBe d < 32 ^ d.length := by
  have := foldl_be_lt d hv 0
  simpa [parseIntBe] using this

theorem encodeIntBeAux_valid : ∀ (fuel n : Nat) (acc : List U5), (∀ x ∈ acc, x < 32) →
    ∀ x ∈ encodeIntBeAux fuel n acc, x < 32
  | 0, _, acc, h => by simpa [encodeIntBeAux] using h
  | fuel + 1, n, acc, h => by
    unfold encodeIntBeAux
    by_cases h0 : n = 0
    · simpa [h0] using h
    · simp only [h0, ↓reduceIte]
      apply encodeIntBeAux_valid
      intro x hx
      rcases List.mem_cons.mp hx with rfl | hx
      · rw [UInt8.lt_iff_toNat_lt, ofNat_mod32_toNat]
        exact Nat.mod_lt _ (by decide)
      · exact h x hx

theorem encodeIntBe_valid (n : Nat) : ∀ x ∈ encodeIntBe n, x < 32 :=
  encodeIntBeAux_valid _ _ [] (by simp)

/-- the number of base-32 digits `encode_int_be_base32` emits: the least `k` with `n < 32 ^ k` -/
theorem encodeIntBe_length_le_iff (n k : Nat) : (encodeIntBe n).length ≤ k ↔ n < 32 ^ k := by
  constructor
  · intro h
    have h1 := parseIntBe_lt (encodeIntBe n) (encodeIntBe_valid n)
    rw [parseIntBe_encodeIntBe] at h1
    exact Nat.lt_of_lt_of_le h1 (Nat.pow_le_pow_right (by decide) h)
  · intro h
    have := encodeIntBeAux_length (n + 1) n k [] h
    simpa [encodeIntBe] using this

theorem bitLen_le_iff (n k : Nat) : bitLen n ≤ k ↔ n < 2 ^ k := by
  unfold bitLen
  by_cases h0 : n = 0
  · simp [h0, Nat.pow_pos]
  · simp only [h0, ↓reduceIte]
    exact Nat.log2_lt h0

/-- ser.rs::encoded_int_be_base32_size is the number of symbols encode_int_be_base32 emits -/
theorem encodedIntBeBase32Size_eq (n : Nat) : encodedIntBeBase32Size n = (encodeIntBe n).length := by
  have key : ∀ k, encodedIntBeBase32Size n ≤ k ↔ (encodeIntBe n).length ≤ k := by
    intro k
    rw [encodeIntBe_length_le_iff]
    have : encodedIntBeBase32Size n ≤ k ↔ bitLen n ≤ 5 * k := by
      unfold encodedIntBeBase32Size C18Bounds.encodedIntSizeOfBitLen
      omega
    rw [this, bitLen_le_iff, Nat.pow_mul]
  have a := (key (encodeIntBe n).length).mpr (Nat.le_refl _)
  have b := (key (encodedIntBeBase32Size n)).mp (Nat.le_refl _)
  omega

/-! ### lengths under the 5 ↔ 8 bit regrouping -/

/-- `FesToBytes` yields `n * 5 / 8` bytes -/
theorem fesToBytes_length (f : List U5) : (fesToBytes f).length = f.length * 5 / 8 := by
  have h := congrArg List.length (bits_of_fesToBytes f)
  rw [flatMap_bits_length, List.length_take, flatMap_bits_length] at h
  omega

/-- `BytesToFes` yields `ceil(8 n / 5)` symbols -/
theorem bytesToFes_length (b : List UInt8) : (bytesToFes b).length = (b.length * 8 + 4) / 5 := by
  unfold bytesToFes
  have hL := flatMap_bits_length 8 b
  generalize b.flatMap (fun x => bitsOf 8 x.toNat) = bits at hL ⊢
  have hpl := padTo5_length bits
  have hreg : ((chunks 4 bits.length (padTo 5 bits)).map (fun g => UInt8.ofNat (ofBits g))).flatMap
      (fun x => bitsOf 5 x.toNat) = padTo 5 bits :=
    regroup 4 (by decide) bits.length (padTo 5 bits) (by rw [hpl]; omega) (by rw [hpl]; omega)
  have h := congrArg List.length hreg
  rw [flatMap_bits_length, hpl] at h
  show (List.map (fun g => UInt8.ofNat (ofBits g)) (chunks 4 bits.length (padTo 5 bits))).length = _
  omega

/-- ser.rs::bytes_size_to_base32_size (translated) is the number of symbols `BytesToFes` yields:
    the value `write_tagged_field` puts into the 10-bit length is the real payload length -/
theorem bytesSizeToBase32Size_eq (b : List UInt8) :
    C18Bounds.bytesSizeToBase32Size b.length = (bytesToFes b).length := by
  rw [bytesToFes_length]
  unfold C18Bounds.bytesSizeToBase32Size
  simp only
  split <;> rename_i h <;> simp only [decide_eq_true_eq] at h <;> omega

/-- symbols → bytes → symbols never gets longer -/
theorem viaBytes_length_le (p : List U5) : (viaBytes p).length ≤ p.length := by
  unfold viaBytes
  rw [bytesToFes_length, fesToBytes_length]
  omega

/-- split every `if` / `match` of a hypothesis, looking through `let` binders -/
macro "splits_at " h:ident : tactic =>
  `(tactic| repeat' (first | split at $h:ident | (dsimp only at $h:ident; split at $h:ident)))

theorem descriptionLenOk_of_syms (p : List U5) (h : p.length < 1024) : descriptionLenOk (fesToBytes p).length = true := by
  rw [fesToBytes_length]
  simp [descriptionLenOk, C18Bounds.descriptionTooLong, C18Bounds.MAX_TAGGED_FIELD_DATA_BYTES]
  omega

theorem interpField_not_panicked (tag : U5) (p : List U5) (h : p.length < 1024) :
    interpField tag p ≠ .error .panicked := by
  have hd := descriptionLenOk_of_syms p h
  have e1 : ∀ w, interpHash32 w p ≠ .error .panicked := by
    intro w he; unfold interpHash32 at he; split at he <;> simp at he
  have e2 : interpDescription p ≠ .error .panicked := by
    intro he; unfold interpDescription at he; simp only [hd] at he; splits_at he
    all_goals simp_all
  have e3 : interpPayeePubKey p ≠ .error .panicked := by
    intro he; unfold interpPayeePubKey at he; splits_at he
    all_goals simp at he
  have e4 : interpU64 p ≠ .error .panicked := by
    intro he; unfold interpU64 at he; split at he <;> simp at he
  have e5 : interpFallback p ≠ .error .panicked := by
    intro he; unfold interpFallback at he; splits_at he
    all_goals simp at he
  have e6 : interpPrivateRoute p ≠ .error .panicked := by
    intro he; unfold interpPrivateRoute at he; splits_at he
    all_goals simp at he
  unfold interpField
  repeat' split
  all_goals (first | exact e1 _ | exact e2 | exact e3 | exact e4 | exact e5 | exact e6 | simp)

/-! ### the parser never reaches a panic site -/

theorem valid_take {d : List U5} (hv : ∀ x ∈ d, x < 32) (n : Nat) : ∀ x ∈ d.take n, x < 32 :=
  fun x hx => hv x (List.mem_of_mem_take hx)

theorem valid_drop {d : List U5} (hv : ∀ x ∈ d, x < 32) (n : Nat) : ∀ x ∈ d.drop n, x < 32 :=
  fun x hx => hv x (List.mem_of_mem_drop hx)

/-- the 10-bit length field: two valid symbols give at most 1023 -/
theorem len10_lt {l1 l2 : U5} (h1 : l1 < 32) (h2 : l2 < 32) : l1.toNat * 32 + l2.toNat < 1024 := by
  have a := UInt8.lt_iff_toNat_lt.mp h1
  have b := UInt8.lt_iff_toNat_lt.mp h2
  simp at a b
  omega

theorem parseTagged_not_panicked : ∀ (fuel : Nat) (d : List U5), (∀ x ∈ d, x < 32) →
    parseTagged fuel d ≠ .error .panicked
  | 0, d, _ => by unfold parseTagged; split <;> simp
  | fuel + 1, d, hv => by
    unfold parseTagged
    match d, hv with
    | [], _ => simp
    | [_], _ => simp
    | [_, _], _ => simp
    | tag :: l1 :: l2 :: rest, hv =>
      have h1 : l1 < 32 := hv l1 (by simp)
      have h2 : l2 < 32 := hv l2 (by simp)
      have hlen : (rest.take (l1.toNat * 32 + l2.toNat)).length < 1024 := by
        have := len10_lt h1 h2
        simp only [List.length_take]; omega
      have hi := interpField_not_panicked tag _ hlen
      have hrec := parseTagged_not_panicked fuel (rest.drop (l1.toNat * 32 + l2.toNat))
        (valid_drop (fun x hx => hv x (by simp [hx])) _)
      simp only
      split
      · simp
      · split
        · rename_i e he; intro hc; simp only [Except.error.injEq] at hc; subst hc; exact hi he
        · split
          · rename_i e he; intro hc; simp only [Except.error.injEq] at hc; subst hc; exact hrec he
          · simp

/-- everything `CheckedHrpstring` hands to the BOLT-11 parser is a list of 5-bit symbols -/
theorem bech32Decode_valid (s : Bytes) (h : Bytes) (data : List U5) (hd : bech32Decode s = some (h, data)) :
    ∀ x ∈ data, x < 32 := by
  unfold bech32Decode at hd
  splits_at hd
  all_goals (first | (simp at hd; done) | skip)
  rename_i hchk
  simp only [Option.some.injEq, Prod.mk.injEq] at hd
  obtain ⟨_, rfl⟩ := hd
  unfold verifyChecksum validSyms at hchk
  simp only [Bool.and_eq_true, List.all_eq_true, decide_eq_true_eq] at hchk
  exact valid_take hchk.1 _

/-- de.rs::FromBase32 for PositiveTimestamp on seven valid symbols: the value, never a panic —
    provided the constructor accepts every value below `2 ^ 35` (hypothesis `hacc`) -/
theorem timestampFromBase32_ok (b : List U5) (hv : ∀ x ∈ b, x < 32) (hl : b.length = 7)
    (hacc : ∀ t, t < 2 ^ 35 → C18Bounds.fromUnixTimestampOk t = true) :
    timestampFromBase32 b = .ok (parseIntBe b) := by
  have hlt : parseIntBe b < 2 ^ 35 := by
    have := parseIntBe_lt b hv
    rw [hl] at this
    exact this
  unfold timestampFromBase32
  have h64 : parseIntBe b < 2 ^ 64 := Nat.lt_trans hlt (by decide)
  simp [C18Bounds.timestampWrongLen, hl, parseU64Be_closed, h64, positiveTimestamp, hacc _ hlt]

theorem parseHrp_not_panicked (cs : List Char) : parseHrp cs ≠ .error .panicked := by
  intro he
  unfold parseHrp at he
  splits_at he
  all_goals (first | (simp at he; done) | (simp_all; done) | skip)
  rename_i heq
  simp only [Except.error.injEq] at he; subst he
  splits_at heq
  all_goals simp at heq

theorem parseSigned_not_panicked (hacc : ∀ t, t < 2 ^ 35 → C18Bounds.fromUnixTimestampOk t = true) (s : Bytes) :
    parseSigned s ≠ .error .panicked := by
  intro he
  unfold parseSigned at he
  split at he
  · simp at he
  · rename_i hrp data hdec
    have hv := bech32Decode_valid s hrp data hdec
    split at he
    · simp at he
    · split at he
      · rename_i e hh
        simp only [Except.error.injEq] at he; subst he
        exact absurd hh (parseHrp_not_panicked _)
      · dsimp only at he
        split at he
        · simp at he
        · rename_i hlen
          have hv' := valid_take hv (data.length - sigLen5)
          have hts := timestampFromBase32_ok ((data.take (data.length - sigLen5)).take 7) (valid_take hv' 7)
            (by simp only [List.length_take] at hlen ⊢; omega) hacc
          rw [hts] at he
          dsimp only at he
          split at he
          · rename_i e hh
            simp only [Except.error.injEq] at he; subst he
            exact parseTagged_not_panicked _ _ (valid_drop hv' 7) hh
          · split at he <;> simp at he
/-- a field the parser knows is re-serialised with at most as many symbols as it was read from -/
theorem interpField_known_length (tag : U5) (p q : List U5) (hv : ∀ x ∈ p, x < 32)
    (h : interpField tag p = .ok (.known q)) : q.length ≤ p.length := by
  have e1 : ∀ w, interpHash32 w p = .ok (.known q) → q.length ≤ p.length := by
    intro w he; unfold interpHash32 at he; split at he
    · simp at he
    · simp only [Except.ok.injEq, Interp.known.injEq] at he; subst he; exact viaBytes_length_le p
  have e2 : interpDescription p = .ok (.known q) → q.length ≤ p.length := by
    intro he; unfold interpDescription at he; splits_at he
    all_goals (first | (simp at he; done) | skip)
    simp only [Except.ok.injEq, Interp.known.injEq] at he; subst he; exact viaBytes_length_le p
  have e3 : interpPayeePubKey p = .ok (.known q) → q.length ≤ p.length := by
    intro he; unfold interpPayeePubKey at he; splits_at he
    all_goals (first | (simp at he; done) | skip)
    simp only [Except.ok.injEq, Interp.known.injEq] at he; subst he; exact viaBytes_length_le p
  have e4 : interpU64 p = .ok (.known q) → q.length ≤ p.length := by
    intro he; unfold interpU64 at he; split at he
    · simp at he
    · rename_i v hp
      simp only [Except.ok.injEq, Interp.known.injEq] at he; subst he
      rw [parseU64Be_closed] at hp
      split at hp
      · simp only [Option.some.injEq] at hp; subst hp
        exact (encodeIntBe_length_le_iff _ _).mpr (parseIntBe_lt p hv)
      · simp at hp
  have e5 : interpFallback p = .ok (.known q) → q.length ≤ p.length := by
    intro he; unfold interpFallback at he; splits_at he
    all_goals (first | (simp at he; done) | skip)
    all_goals
      simp only [Except.ok.injEq, Interp.known.injEq] at he; subst he
      simp only [List.length_cons]
      exact Nat.succ_le_succ (viaBytes_length_le _)
  have e6 : interpPrivateRoute p = .ok (.known q) → q.length ≤ p.length := by
    intro he; unfold interpPrivateRoute at he; splits_at he
    all_goals (first | (simp at he; done) | skip)
    simp only [Except.ok.injEq, Interp.known.injEq] at he; subst he; exact viaBytes_length_le p
  unfold interpField at h
  splits_at h
  all_goals (first | exact e1 _ h | exact e2 h | exact e3 h | exact e4 h | exact e5 h | exact e6 h | skip)
  · simp only [Except.ok.injEq, Interp.known.injEq] at h; subst h; exact viaBytes_length_le p
  · simp only [Except.ok.injEq, Interp.known.injEq] at h; subst h; exact (List.dropWhile_sublist _).length_le
  · simp at h

theorem mkField_payload_length (tag : U5) (p : List U5) (i : Interp) (hv : ∀ x ∈ p, x < 32)
    (h : interpField tag p = .ok i) : (mkField tag p i).payload.length ≤ p.length := by
  cases i with
  | known q => exact interpField_known_length tag p q hv h
  | unknown => exact Nat.le_refl _

/-- every field of a parsed data part (known fields in their re-serialised form) fits the 10-bit
    length: `write_tagged_field`'s `assert!(len < 1024)` cannot fire when a parsed invoice is
    serialised again -/
theorem parseTagged_payload_lt : ∀ (fuel : Nat) (d : List U5) (fs : List Field), (∀ x ∈ d, x < 32) →
    parseTagged fuel d = .ok fs → ∀ f ∈ fs, f.payload.length < 1024
  | 0, d, fs, _, h => by
    unfold parseTagged at h
    split at h
    · simp only [Except.ok.injEq] at h; subst h; simp
    · simp at h
  | fuel + 1, d, fs, hv, h => by
    unfold parseTagged at h
    match d, hv, h with
    | [], _, h => simp only [Except.ok.injEq] at h; subst h; simp
    | [_], _, h => simp at h
    | [_, _], _, h => simp at h
    | tag :: l1 :: l2 :: rest, hv, h =>
      have h1 : l1 < 32 := hv l1 (by simp)
      have h2 : l2 < 32 := hv l2 (by simp)
      have hrest : ∀ x ∈ rest, x < 32 := fun x hx => hv x (by simp [hx])
      simp only at h
      split at h
      · simp at h
      · split at h
        · simp at h
        · rename_i i hi
          split at h
          · simp at h
          · rename_i fs' hfs
            simp only [Except.ok.injEq] at h; subst h
            intro f hf
            rcases List.mem_cons.mp hf with rfl | hf
            · have := mkField_payload_length tag _ i (valid_take hrest _) hi
              have hl := len10_lt h1 h2
              simp only [List.length_take] at this
              omega
            · exact parseTagged_payload_lt fuel _ fs' (valid_drop hrest _) hfs f hf

/-- what a successful parse guarantees about the numbers it read -/
theorem parseSigned_ok_bounds (hacc : ∀ t, t < 2 ^ 35 → C18Bounds.fromUnixTimestampOk t = true) (s : Bytes)
    (i : SignedRaw) (h : parseSigned s = .ok i) :
    i.timestamp < 2 ^ 35 ∧ ∀ f ∈ i.fields, f.payload.length < 1024 := by
  unfold parseSigned at h
  split at h
  · simp at h
  · rename_i hrp data hdec
    have hv := bech32Decode_valid s hrp data hdec
    split at h
    · simp at h
    · split at h
      · simp at h
      · dsimp only at h
        split at h
        · simp at h
        · rename_i hlen
          have hv' := valid_take hv (data.length - sigLen5)
          have hl7 : ((data.take (data.length - sigLen5)).take 7).length = 7 := by
            simp only [List.length_take] at hlen ⊢; omega
          have hts := timestampFromBase32_ok _ (valid_take hv' 7) hl7 hacc
          rw [hts] at h
          dsimp only at h
          split at h
          · simp at h
          · rename_i fields hf
            split at h
            · simp only [Except.ok.injEq] at h; subst h
              refine ⟨?_, parseTagged_payload_lt _ _ _ (valid_drop hv' 7) hf⟩
              have := parseIntBe_lt _ (valid_take hv' 7)
              rw [hl7] at this
              exact this
            · simp at h

end Ldk.Bolt11
