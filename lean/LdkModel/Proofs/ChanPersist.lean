/- Helper lemmas for Props/C01Persist.lean: the per-node invariant `Good` (fee-update states match the funding side; a paused
   node holds none of the peer's uncommitted updates) is preserved by every node operation of Model/Channel.lean and by
   write + read (Model/ChanPersist.lean). -/
import LdkModel.Model.ChanPersist
import LdkModel.Proofs.Channel.Guarded
namespace Ldk.Chan

/-- only the funder holds an Outbound fee update, only the fundee a RemoteAnnounced / AwaitingRemoteRevokeToAnnounce one -/
def Node.feeSideOk (n : Node) : Bool :=
  match n.pendingFee with
  | none => true
  | some (_, .outbound) => n.isFunder
  | some (_, _) => !n.isFunder

structure Good (n : Node) : Prop where
  side : n.feeSideOk = true
  clean : n.paused = true → n.noUncommitted = true

theorem filter_eq_self_of_all {α} (p : α → Bool) : ∀ (l : List α), l.all p = true → l.filter p = l
  | [], _ => rfl
  | x :: xs, h => by
    simp only [List.all_cons, Bool.and_eq_true] at h
    simp [List.filter_cons, h.1, filter_eq_self_of_all p xs h.2]

theorem filter_none_of_all {α} (p q : α → Bool) (hpq : ∀ x, p x = true → q x = false) : ∀ (l : List α), l.all p = true → l.filter q = []
  | [], _ => rfl
  | x :: xs, h => by
    simp only [List.all_cons, Bool.and_eq_true] at h
    simp [List.filter_cons, hpq x h.1, filter_none_of_all p q hpq xs h.2]

theorem map_eq_self_of_all {α} (p : α → Bool) (f : α → α) (hf : ∀ x, p x = true → f x = x) : ∀ (l : List α), l.all p = true → l.map f = l
  | [], _ => rfl
  | x :: xs, h => by
    simp only [List.all_cons, Bool.and_eq_true] at h
    simp [hf x h.1, map_eq_self_of_all p f hf xs h.2]

/-- the in-memory forgetting leaves nothing uncommitted -/
theorem pause_noUncommitted (n : Node) (hp : n.paused = false) : n.pause.noUncommitted = true := by
  unfold Node.pause Node.noUncommitted
  simp only [hp, Bool.false_eq_true, if_false, Bool.and_eq_true]
  refine ⟨⟨?_, ?_⟩, ?_⟩
  · simp [List.all_filter]
  · simp only [List.all_map, List.all_eq_true]
    intro h _
    obtain ⟨id, amt, st⟩ := h
    cases st <;> simp [Function.comp]
  · cases hf : n.pendingFee with
    | none => simp
    | some p => obtain ⟨f, st⟩ := p; cases st <;> simp

theorem pause_feeSideOk (n : Node) (h : n.feeSideOk = true) : n.pause.feeSideOk = true := by
  unfold Node.pause
  split
  · exact h
  · unfold Node.feeSideOk at *
    cases hf : n.pendingFee with
    | none => simp
    | some p => obtain ⟨f, st⟩ := p; rw [hf] at h; cases st <;> simp_all

theorem good_pause (n : Node) (g : Good n) : Good n.pause := by
  refine ⟨pause_feeSideOk n g.side, fun _ => ?_⟩
  cases hp : n.paused with
  | false => exact pause_noUncommitted n hp
  | true => have : n.pause = n := by unfold Node.pause; simp [hp]
            rw [this]; exact g.clean hp

theorem good_of_unpaused (n : Node) (hs : n.feeSideOk = true) (hp : n.paused = false) : Good n :=
  ⟨hs, fun h => by rw [hp] at h; contradiction⟩

/-! ### write + read = the in-memory forgetting -/

theorem inWritten_eq : (fun h : InHtlc => Writer.inWritten h.st) = (fun h => h.st != .remoteAnnounced) := by
  funext h; obtain ⟨id, amt, st⟩ := h; cases st <;> rfl
theorem inDropped_eq : (fun h : InHtlc => Writer.inCountedAsDropped h.st) = (fun h => h.st == .remoteAnnounced) := by
  funext h; obtain ⟨id, amt, st⟩ := h; cases st <;> rfl
theorem outReadBack_eq : (fun h : OutHtlc => ({ h with st := Writer.outReadBack h.st } : OutHtlc)) =
    (fun h => match h.st with | .remoteRemoved _ => { h with st := .committed } | _ => h) := by
  funext h; obtain ⟨id, amt, st⟩ := h; cases st <;> rfl
theorem feeReadBack_eq (n : Node) (hs : n.feeSideOk = true) :
    feeReadBack n.isFunder n.pendingFee = (match n.pendingFee with | some (_, .remoteAnnounced) => none | pf => pf) := by
  unfold Node.feeSideOk at hs
  cases hf : n.pendingFee with
  | none => rfl
  | some p =>
    obtain ⟨f, st⟩ := p
    rw [hf] at hs
    cases st <;> cases hi : n.isFunder <;> simp_all [feeReadBack, FeeState.code, FeeState.ofCode, Writer.feeWritten, Writer.feeReadState]

/-- the state written (and read back) = the state after forgetting the peer's uncommitted updates -/
theorem written_eq_pause (n : Node) (hp : n.paused = false) (hs : n.feeSideOk = true) : n.written = n.pause := by
  unfold Node.written Node.pause
  simp only [hp, Bool.false_eq_true, if_false]
  rw [inWritten_eq, inDropped_eq, outReadBack_eq, feeReadBack_eq n hs]
  rfl

/-- a node that already is disconnected is written as it is -/
theorem written_of_clean (n : Node) (hp : n.paused = true) (hc : n.noUncommitted = true) (hs : n.feeSideOk = true) : n.written = n := by
  unfold Node.noUncommitted at hc
  simp only [Bool.and_eq_true] at hc
  obtain ⟨⟨h1, h2⟩, h3⟩ := hc
  have e1 : n.inb.filter (fun h => Writer.inWritten h.st) = n.inb := by
    rw [inWritten_eq]; exact filter_eq_self_of_all _ _ h1
  have e2 : n.inb.filter (fun h => Writer.inCountedAsDropped h.st) = [] := by
    rw [inDropped_eq]
    exact filter_none_of_all (fun h : InHtlc => h.st != .remoteAnnounced) _ (fun x hx => by simpa using hx) _ h1
  have e3 : n.outb.map (fun (h : OutHtlc) => ({ h with st := Writer.outReadBack h.st } : OutHtlc)) = n.outb := by
    rw [outReadBack_eq]
    refine map_eq_self_of_all (fun h : OutHtlc => match h.st with | .remoteRemoved _ => false | _ => true) _ ?_ _ h2
    intro x hx; obtain ⟨id, amt, st⟩ := x; cases st <;> simp_all
  have e4 : feeReadBack n.isFunder n.pendingFee = n.pendingFee := by
    rw [feeReadBack_eq n hs]
    cases hf : n.pendingFee with
    | none => rfl
    | some p => obtain ⟨f, st⟩ := p; rw [hf] at h3; cases st <;> simp_all
  unfold Node.written
  rw [e1, e2, e3, e4]
  cases n
  simp_all [Writer.nextCounterpartyHtlcIdWritten]

theorem good_written (n : Node) (g : Good n) : Good n.written := by
  cases hp : n.paused with
  | false => rw [written_eq_pause n hp g.side]; exact good_pause n g
  | true => rw [written_of_clean n hp (g.clean hp) g.side]; exact g

/-- on a node satisfying the invariant, write + read is exactly `pause` (whether or not it was connected) -/
theorem written_eq_pause_of_good (n : Node) (g : Good n) : n.written = n.pause := by
  cases hp : n.paused with
  | false => exact written_eq_pause n hp g.side
  | true => rw [written_of_clean n hp (g.clean hp) g.side]; unfold Node.pause; simp [hp]

/-! ### the invariant is preserved by every node operation -/

theorem good_commit {n n' : Node} {adds fu fa : List Nat} {ms : List Msg} (hp : n.paused = false) (g : Good n)
    (h : n.commit adds fu fa = some (n', ms)) : Good n' ∧ n'.paused = false := by
  obtain ⟨_, _, hn, _⟩ := commit_some h
  have hpa : n'.paused = false := by rw [hn]; exact hp
  refine ⟨good_of_unpaused n' ?_ hpa, hpa⟩
  have hs := g.side
  rw [hn]
  unfold Node.feeSideOk at *
  show (match n.promoted.2 with | none => true | some (_, .outbound) => n.isFunder | some (_, _) => !n.isFunder) = true
  unfold Node.promoted
  cases hf : n.pendingFee with
  | none => simp
  | some p => obtain ⟨f, st⟩ := p; rw [hf] at hs; cases st <;> simp_all

theorem good_onRaa {n n' : Node} (hp : n.paused = false) (g : Good n) (h : n.onRaa = some n') : Good n' ∧ n'.paused = false := by
  unfold Node.onRaa at h
  split at h
  · contradiction
  · simp only [Option.some.injEq] at h
    have hpa : n'.paused = false := by rw [← h]; exact hp
    refine ⟨good_of_unpaused n' ?_ hpa, hpa⟩
    have hs := g.side
    rw [← h]
    unfold Node.feeSideOk at *
    cases hf : n.pendingFee with
    | none => simp
    | some p => obtain ⟨f, st⟩ := p; rw [hf] at hs; cases st <;> simp_all

theorem good_onMsg {n n' : Node} {total : Nat} {m : Msg} {ok : Bool} (hp : n.paused = false) (g : Good n)
    (h : n.onMsg total m = some (n', ok)) : Good n' ∧ n'.paused = false := by
  have hs := g.side
  cases m with
  | add id amt => obtain ⟨_, _, hn⟩ := onMsg_add h; rw [hn]; exact ⟨good_of_unpaused _ hs hp, hp⟩
  | fulfill id => obtain ⟨_, _, hn⟩ := onMsg_fulfill h; rw [hn]; exact ⟨good_of_unpaused _ hs hp, hp⟩
  | fail id => obtain ⟨_, _, hn⟩ := onMsg_fail h; rw [hn]; exact ⟨good_of_unpaused _ hs hp, hp⟩
  | raa => exact good_onRaa hp g (onMsg_raa h).1
  | fee f =>
    obtain ⟨hf, _, hn⟩ := onMsg_fee h
    rw [hn]
    exact ⟨good_of_unpaused _ (by simp [Node.feeSideOk, hf]) hp, hp⟩
  | cs c =>
    obtain ⟨hn, _⟩ := onMsg_cs h
    rw [hn]
    refine ⟨good_of_unpaused _ ?_ hp, hp⟩
    unfold Node.feeSideOk Node.afterCs at *
    cases hf : n.pendingFee with
    | none => simp
    | some p => obtain ⟨f, st⟩ := p; rw [hf] at hs; cases st <;> simp_all

theorem good_reestablish {n n' : Node} {x y : Nat} {ms : List Msg} (g : Good n) (h : n.reestablish x y = some (n', ms)) : Good n' := by
  unfold Node.reestablish at h
  split at h
  · contradiction
  · split at h
    · contradiction
    · simp only [Option.some.injEq, Prod.mk.injEq] at h
      rw [← h.1]
      exact good_of_unpaused _ g.side rfl

end Ldk.Chan
