/- C17 — rapid gossip sync, the node-announcement half: a snapshot never replaces a stored node announcement by
   older or equally old data, and (before the final pruning) never drops a node entry. Same scheme as
   Proofs/GossipRgs.lean: a `NodeGrows` relation that every phase of the snapshot preserves, then the pruning. -/
import LdkModel.Proofs.GossipRgs
namespace Ldk.Gossip

/-- a stored node announcement stays stored and only moves to a strictly newer one -/
def annGrow (o o' : Option NodeAnnInfo) : Prop :=
  ∀ a, o = some a → ∃ a', o' = some a' ∧ (a.lastUpdate < a'.lastUpdate ∨ a' = a)

/-- every node entry stays; its announcement `annGrow`s -/
def NodeGrows (g g' : Graph) : Prop :=
  ∀ id ni, g.nodes.get id = some ni → ∃ ni', g'.nodes.get id = some ni' ∧ annGrow ni.ann ni'.ann

theorem annGrow_refl (o : Option NodeAnnInfo) : annGrow o o := fun a h => ⟨a, h, Or.inr rfl⟩

theorem annGrow_trans {a b c : Option NodeAnnInfo} (h1 : annGrow a b) (h2 : annGrow b c) : annGrow a c := by
  intro u hu
  obtain ⟨u', hu', r1⟩ := h1 u hu
  obtain ⟨u'', hu'', r2⟩ := h2 u' hu'
  refine ⟨u'', hu'', ?_⟩
  rcases r1 with r1 | r1
  · rcases r2 with r2 | r2
    · left; omega
    · left; rw [r2]; exact r1
  · rw [r1] at r2; exact r2

theorem NodeGrows.refl (g : Graph) : NodeGrows g g := fun _ ni h => ⟨ni, h, annGrow_refl _⟩

theorem NodeGrows.trans {a b c : Graph} (h1 : NodeGrows a b) (h2 : NodeGrows b c) : NodeGrows a c := by
  intro id x hx
  obtain ⟨y, hy, p⟩ := h1 id x hx
  obtain ⟨z, hz, q⟩ := h2 id y hy
  exact ⟨z, hz, annGrow_trans p q⟩

theorem annGrow_updN (ni : NodeInfo) (n : NodeAnn) : annGrow ni.ann (updN ni n).ann := by
  unfold updN
  split
  · rename_i h
    simp only [Bool.and_eq_true] at h
    intro a ha
    refine ⟨_, rfl, ?_⟩
    have := h.2
    rw [ha] at this
    left; simpa [newerN] using this
  · exact annGrow_refl _

theorem nodeGrows_nodeAnn (g : Graph) (n : NodeAnn) : NodeGrows g (applyNodeAnn g n).1 := by
  intro id ni hni
  rw [applyNodeAnn_fst]
  simp only [SMap.get_set]
  by_cases hs : id = n.node
  · subst hs
    simp only [if_true, hni, Option.map_some]
    exact ⟨_, rfl, annGrow_updN ni n⟩
  · simp only [hs, if_false]
    exact ⟨ni, hni, annGrow_refl _⟩

theorem nodeGrows_chanUpd (g : Graph) (u : ChanUpd) : NodeGrows g (applyChanUpd g u).1 := by
  rw [applyChanUpd_fst]
  exact fun id ni h => ⟨ni, h, annGrow_refl _⟩

theorem nodeGrows_add (nodes : SMap NodeInfo) (x scid id : Nat) (ni : NodeInfo) (h : nodes.get id = some ni) :
    ∃ ni', (addChanToNode nodes x scid).get id = some ni' ∧ ni'.ann = ni.ann := by
  rw [get_addChanToNode]
  by_cases hx : id = x
  · subst hx
    simp only [if_true, h, addTo]
    exact ⟨_, rfl, rfl⟩
  · simp only [hx, if_false]
    exact ⟨ni, h, rfl⟩

theorem nodeGrows_partial (g : Graph) (scid : Nat) (cap : Option Nat) (recv n1 n2 : Nat) :
    NodeGrows g (applyChanPartial g scid cap recv n1 n2).1 := by
  unfold applyChanPartial
  split
  · exact NodeGrows.refl g
  · unfold addChannelBetweenNodes
    cases hg : g.channels.get scid with
    | some old => simp only [Bool.false_eq_true, if_false]; exact NodeGrows.refl g
    | none =>
      intro id ni hni
      obtain ⟨m1, hm1, e1⟩ := nodeGrows_add g.nodes n1 scid id ni hni
      obtain ⟨m2, hm2, e2⟩ := nodeGrows_add (addChanToNode g.nodes n1 scid) n2 scid id m1 hm1
      refine ⟨m2, hm2, ?_⟩
      rw [e2, e1]; exact annGrow_refl _

namespace Impl

theorem nodeGrows_rgsAnns (ts : Nat) (l : List RgsAnn) : ∀ g, NodeGrows g (rgsAnns g ts l).1 := by
  induction l with
  | nil => intro g; exact NodeGrows.refl g
  | cons a t ih =>
    intro g
    have h1 : NodeGrows g (applyChanPartial g a.scid a.cap ts a.n1 a.n2).1 := by
      rw [applyChanPartial_eq]; exact nodeGrows_partial g _ _ _ _ _
    unfold rgsAnns
    simp only []
    split
    · split
      · exact h1.trans (ih _)
      · exact h1
    · exact h1.trans (ih _)

theorem nodeGrows_foldNodes (l : List NodeAnn) : ∀ g, NodeGrows g (l.foldl (fun g n => (applyNodeAnn g n).1) g) := by
  induction l with
  | nil => intro g; exact NodeGrows.refl g
  | cons n t ih =>
    intro g
    simp only [List.foldl_cons]
    have : NodeGrows g (applyNodeAnn g n).1 := by rw [applyNodeAnn_eq]; exact nodeGrows_nodeAnn g n
    exact this.trans (ih _)

theorem nodeGrows_rgsUpdStep (ts : Nat) (s : Snapshot) (g : Graph) (u : RgsUpd) : NodeGrows g (rgsUpdStep ts s g u) := by
  unfold rgsUpdStep
  split
  · rw [applyChanUpd_eq]; exact nodeGrows_chanUpd g _
  · exact NodeGrows.refl g

theorem nodeGrows_foldUpds (ts : Nat) (s : Snapshot) (l : List RgsUpd) : ∀ g, NodeGrows g (l.foldl (rgsUpdStep ts s) g) := by
  induction l with
  | nil => intro g; exact NodeGrows.refl g
  | cons u t ih =>
    intro g
    simp only [List.foldl_cons]
    exact (nodeGrows_rgsUpdStep ts s g u).trans (ih _)

theorem nodeGrows_snapshotBody (g : Graph) (s : Snapshot) : NodeGrows g (snapshotBody g s) := by
  unfold snapshotBody
  simp only []
  have h1 := nodeGrows_rgsAnns (Gen.rgsBackdated s.latestSeen) s.anns g
  split
  · rename_i g1 e heq; rw [heq] at h1; exact h1
  · rename_i g1 heq
    rw [heq] at h1
    have h2 := nodeGrows_foldNodes (s.nodes.filterMap (rgsNodeMod g (Gen.rgsBackdated s.latestSeen))) g1
    split
    · exact h1.trans h2
    · exact h1.trans (h2.trans (nodeGrows_foldUpds _ s s.upds _))

theorem annMono_of_grow {a b : Option NodeAnnInfo} (h : annGrow a b) : annMono a b := by
  intro u u' hu hu'
  obtain ⟨w, hw, r⟩ := h u hu
  rw [hu'] at hw; cases hw; exact r

theorem pruneNode_ann (g : Graph) (minT : Nat) (ni ni' : NodeInfo) (h : Gossip.pruneNode g minT ni = some ni') :
    ni'.ann = ni.ann := by
  unfold Gossip.pruneNode at h
  simp only at h
  split at h
  · cases h
  · simp only [Option.some.injEq] at h; rw [← h]

/-- the node-announcement half of `rgs_never_replaces_newer` -/
theorem snapshot_annMono (g : Graph) (s : Snapshot) (id : Nat) (ni ni' : NodeInfo)
    (h : g.nodes.get id = some ni) (h' : (applySnapshot g s).1.nodes.get id = some ni') :
    annMono ni.ann ni'.ann := by
  obtain ⟨nm, hnm, g1⟩ := nodeGrows_snapshotBody g s id ni h
  rcases applySnapshot_shape g s with e | e | ⟨t, e⟩
  · rw [e, h] at h'; cases h'; exact annMono_refl _
  · rw [e, hnm] at h'; cases h'; exact annMono_of_grow g1
  · rw [e, pruneAt_eq] at h'
    by_cases hr : t > U32_MAX ∨ t < STALE_CHANNEL_UPDATE_AGE_LIMIT_SECS
    · rw [pruneAt_out_of_range _ t hr, hnm] at h'; cases h'
      exact annMono_of_grow g1
    · have hr1 : t ≤ U32_MAX := by omega
      have hr2 : STALE_CHANNEL_UPDATE_AGE_LIMIT_SECS ≤ t := by omega
      rw [(pruneAt_spec _ t hr1 hr2).2.1 id, hnm] at h'
      simp only [Option.bind_some] at h'
      rw [pruneNode_ann _ _ nm ni' h']
      exact annMono_of_grow g1

end Impl
end Ldk.Gossip
