/- Helper lemmas for C02 (Props/C02.lean): the inductive invariant of the one-HTLC forwarding machine
   `Forward.step` and its preservation by every op (one lemma per op; small case splits + simp). -/
import LdkModel.Model.Forward
namespace Ldk.Forward
open Ldk

structure Inv (s : St) : Prop where
  dur_handed : s.upPreimageDurable = true → s.upPreimageHandedToWatch = true
  knows_handed : knowsPreimage s = true → s.upPreimageHandedToWatch = true
  /-- the blocker is only ever removed once the upstream preimage update is durable -/
  blocker_gate : (s.down = .fulfilSeen ∨ s.down = .removedByFulfil) → s.blocker = false → s.upPreimageDurable = true
  raa_gate : s.down = .removedByFulfil → (s.downRaaUpdate = .handedToWatch ∨ s.downRaaUpdate = .durable) → s.upPreimageDurable = true
  raa_removed : s.downRaaUpdate ≠ .notYet → (s.down = .removedByFulfil ∨ s.down = .removedByFail)
  blocked_fulfil : s.downRaaUpdate = .blocked → (s.down = .removedByFulfil ∨ s.down = .removedByFail)
  fulfil_sent : s.up = .fulfilSent → s.upPreimageDurable = true
  fail_sent : s.up = .failSent → failAllowed s = true

/-- `Inv` without `knows_handed`: what holds between learning the preimage and `claimUpstream` -/
structure InvCore (s : St) : Prop where
  dur_handed : s.upPreimageDurable = true → s.upPreimageHandedToWatch = true
  blocker_gate : (s.down = .fulfilSeen ∨ s.down = .removedByFulfil) → s.blocker = false → s.upPreimageDurable = true
  raa_gate : s.down = .removedByFulfil → (s.downRaaUpdate = .handedToWatch ∨ s.downRaaUpdate = .durable) → s.upPreimageDurable = true
  raa_removed : s.downRaaUpdate ≠ .notYet → (s.down = .removedByFulfil ∨ s.down = .removedByFail)
  blocked_fulfil : s.downRaaUpdate = .blocked → (s.down = .removedByFulfil ∨ s.down = .removedByFail)
  fulfil_sent : s.up = .fulfilSent → s.upPreimageDurable = true
  fail_sent : s.up = .failSent → failAllowed s = true

theorem inv_init : Inv init := by
  constructor <;> simp [init, knowsPreimage, failAllowed]

macro "fwd_simp" : tactic => `(tactic| simp_all [knowsPreimage, failAllowed, fulfilAllowed, handRaa, releaseBlocked,
  runUpActions, upBusy, claimUpstream, completeAll, durDownKnowsPreimage, durUpKnowsPreimage])
macro "fwd_cases" : tactic => `(tactic| (constructor <;> fwd_simp))

theorem inv_of_fields (s : St) (a b : Bool) (h : Inv s) : Inv { s with alive := a, sync := b } := by
  obtain ⟨h1, h2, h3, h4, h5, h6, h7, h8⟩ := h
  constructor <;> simp_all [knowsPreimage, failAllowed]

theorem inv_releaseBlocked (s : St) (h : Inv s) : Inv (releaseBlocked s) := by
  unfold releaseBlocked; split
  · rename_i hc
    obtain ⟨alive, sync, down, uh, ud, cs, raa, bl, uo, up, depth, dother⟩ := s; obtain ⟨h1, h2, h3, h4, h5, h6, h7, h8⟩ := h
    cases sync <;> cases bl <;> cases raa <;> fwd_cases
  · exact h

theorem inv_runUpActions (s : St) (h : Inv s) : Inv (runUpActions s) := by
  unfold runUpActions; split
  · exact h
  · apply inv_releaseBlocked
    rename_i hc
    obtain ⟨alive, sync, down, uh, ud, cs, raa, bl, uo, up, depth, dother⟩ := s; obtain ⟨h1, h2, h3, h4, h5, h6, h7, h8⟩ := h
    cases uh <;> cases ud <;> cases uo <;> fwd_cases

theorem inv_claimUpstream (s : St) (h : Inv s) : Inv (claimUpstream s) := by
  unfold claimUpstream; split
  · exact inv_runUpActions _ h
  · apply inv_runUpActions
    rename_i hc
    obtain ⟨alive, sync, down, uh, ud, cs, raa, bl, uo, up, depth, dother⟩ := s; obtain ⟨h1, h2, h3, h4, h5, h6, h7, h8⟩ := h
    cases sync <;> cases uh <;> cases ud <;> fwd_cases

theorem inv_claimUpstream_core (s : St) (h : InvCore s) : Inv (claimUpstream s) := by
  unfold claimUpstream; split
  · apply inv_runUpActions
    rename_i hc
    obtain ⟨alive, sync, down, uh, ud, cs, raa, bl, uo, up, depth, dother⟩ := s
    obtain ⟨h1, h3, h4, h5, h6, h7, h8⟩ := h
    cases uh <;> fwd_cases
  · apply inv_runUpActions
    rename_i hc
    obtain ⟨alive, sync, down, uh, ud, cs, raa, bl, uo, up, depth, dother⟩ := s
    obtain ⟨h1, h3, h4, h5, h6, h7, h8⟩ := h
    cases sync <;> cases uh <;> cases ud <;> fwd_cases

theorem inv_completeAll_pre (s : St) (h : Inv s) :
    Inv { s with upPreimageDurable := s.upPreimageHandedToWatch, upOther := 0,
                 downCsUpdate := if s.downCsUpdate == .handedToWatch then .durable else s.downCsUpdate } := by
  obtain ⟨alive, sync, down, uh, ud, cs, raa, bl, uo, up, depth, dother⟩ := s; obtain ⟨h1, h2, h3, h4, h5, h6, h7, h8⟩ := h
  cases uh <;> cases ud <;> fwd_cases

theorem inv_raaDurable (s : St) (h : Inv s) :
    Inv { s with downRaaUpdate := if s.downRaaUpdate == .handedToWatch then .durable else s.downRaaUpdate } := by
  obtain ⟨alive, sync, down, uh, ud, cs, raa, bl, uo, up, depth, dother⟩ := s; obtain ⟨h1, h2, h3, h4, h5, h6, h7, h8⟩ := h
  cases raa <;> fwd_cases

theorem inv_completeAll (s : St) (h : Inv s) : Inv (completeAll s) :=
  inv_raaDurable _ (inv_runUpActions _ (inv_completeAll_pre s h))

theorem inv_setSync (s : St) (b : Bool) (h : Inv s) : Inv (step s (.setSync b)) := by
  simp only [step]; split <;> first | exact h | exact inv_of_fields s s.alive b h

theorem inv_recvFulfilDown (s : St) (h : Inv s) : Inv (step s .recvFulfilDown) := by
  simp only [step]; split
  · apply inv_claimUpstream_core
    rename_i hc
    obtain ⟨alive, sync, down, uh, ud, cs, raa, bl, uo, up, depth, dother⟩ := s
    obtain ⟨h1, h2, h3, h4, h5, h6, h7, h8⟩ := h
    cases down <;> cases raa <;> (constructor <;> fwd_simp)
  · exact h

theorem inv_recvFailDown (s : St) (h : Inv s) : Inv (step s .recvFailDown) := by
  obtain ⟨alive, sync, down, uh, ud, cs, raa, bl, uo, up, depth, dother⟩ := s
  simp only [step]; split <;> first | exact h | (obtain ⟨h1, h2, h3, h4, h5, h6, h7, h8⟩ := h; fwd_cases)

theorem inv_recvCsDown (s : St) (h : Inv s) : Inv (step s .recvCsDown) := by
  obtain ⟨alive, sync, down, uh, ud, cs, raa, bl, uo, up, depth, dother⟩ := s
  simp only [step]; split <;> first | exact h | (obtain ⟨h1, h2, h3, h4, h5, h6, h7, h8⟩ := h; cases sync <;> fwd_cases)

theorem inv_recvRaaDown (s : St) (h : Inv s) : Inv (step s .recvRaaDown) := by
  obtain ⟨alive, sync, down, uh, ud, cs, raa, bl, uo, up, depth, dother⟩ := s
  simp only [step]; split
  · split
    · split <;> (obtain ⟨h1, h2, h3, h4, h5, h6, h7, h8⟩ := h; cases sync <;> fwd_cases)
    · (obtain ⟨h1, h2, h3, h4, h5, h6, h7, h8⟩ := h; cases dother <;> cases sync <;> fwd_cases)
    · exact h
  · exact h

theorem inv_complete (s : St) (w : Which) (h : Inv s) : Inv (step s (.complete w)) := by
  cases w
  · simp only [step]; split
    · apply inv_runUpActions
      rename_i hc
      obtain ⟨alive, sync, down, uh, ud, cs, raa, bl, uo, up, depth, dother⟩ := s; obtain ⟨h1, h2, h3, h4, h5, h6, h7, h8⟩ := h
      fwd_cases
    · exact h
  · obtain ⟨alive, sync, down, uh, ud, cs, raa, bl, uo, up, depth, dother⟩ := s
    simp only [step]; split <;> first | exact h | (obtain ⟨h1, h2, h3, h4, h5, h6, h7, h8⟩ := h; fwd_cases)
  · obtain ⟨alive, sync, down, uh, ud, cs, raa, bl, uo, up, depth, dother⟩ := s
    simp only [step]; split <;> first | exact h | (obtain ⟨h1, h2, h3, h4, h5, h6, h7, h8⟩ := h; cases raa <;> fwd_cases)

theorem inv_handUpOther (s : St) (h : Inv s) : Inv (step s .handUpOther) := by
  obtain ⟨alive, sync, down, uh, ud, cs, raa, bl, uo, up, depth, dother⟩ := s
  simp only [step]; split <;> first | exact h | (obtain ⟨h1, h2, h3, h4, h5, h6, h7, h8⟩ := h; fwd_cases)

theorem inv_completeUpOther (s : St) (h : Inv s) : Inv (step s .completeUpOther) := by
  simp only [step]; split
  · apply inv_runUpActions
    obtain ⟨alive, sync, down, uh, ud, cs, raa, bl, uo, up, depth, dother⟩ := s; obtain ⟨h1, h2, h3, h4, h5, h6, h7, h8⟩ := h
    fwd_cases
  · exact h

theorem inv_crash (s : St) (lost : Bool) (h : Inv s) : Inv (step s (.crash lost)) := by
  obtain ⟨alive, sync, down, uh, ud, cs, raa, bl, uo, up, depth, dother⟩ := s
  simp only [step]; split
  · split <;> (obtain ⟨h1, h2, h3, h4, h5, h6, h7, h8⟩ := h; cases raa <;> cases cs <;> fwd_cases)
  · exact h

theorem inv_replayClaims (s : St) (h : Inv s) : Inv (replayClaims s) := by
  unfold replayClaims; split
  · exact inv_claimUpstream _ h
  · exact h

theorem inv_restart (s : St) (sy : Bool) (h : Inv s) : Inv (step s (.restart sy)) := by
  simp only [step]; split
  · exact h
  · apply inv_runUpActions
    have hs2 := inv_replayClaims _ (inv_of_fields _ true sy h)
    split
    · exact inv_completeAll _ hs2
    · exact hs2

theorem inv_chainPreimage (s : St) (h : Inv s) : Inv (step s .chainPreimage) := by
  simp only [step]; split
  · apply inv_claimUpstream_core
    rename_i hc
    obtain ⟨alive, sync, down, uh, ud, cs, raa, bl, uo, up, depth, dother⟩ := s
    obtain ⟨h1, h2, h3, h4, h5, h6, h7, h8⟩ := h
    cases down <;> cases raa <;> (constructor <;> fwd_simp)
  · exact h

theorem inv_chainTimeout (s : St) (d : Nat) (h : Inv s) : Inv (step s (.chainTimeout d)) := by
  obtain ⟨alive, sync, down, uh, ud, cs, raa, bl, uo, up, depth, dother⟩ := s
  simp only [step]; split <;> first | exact h | (obtain ⟨h1, h2, h3, h4, h5, h6, h7, h8⟩ := h; cases down <;> cases raa <;> fwd_cases)

theorem inv_sendFulfilUp (s : St) (h : Inv s) : Inv (step s .sendFulfilUp) := by
  obtain ⟨alive, sync, down, uh, ud, cs, raa, bl, uo, up, depth, dother⟩ := s
  simp only [step]; split <;> first | exact h | (obtain ⟨h1, h2, h3, h4, h5, h6, h7, h8⟩ := h; cases up <;> cases ud <;> fwd_cases)

theorem inv_sendFailUp (s : St) (h : Inv s) : Inv (step s .sendFailUp) := by
  obtain ⟨alive, sync, down, uh, ud, cs, raa, bl, uo, up, depth, dother⟩ := s
  simp only [step]; split <;> first | exact h | (obtain ⟨h1, h2, h3, h4, h5, h6, h7, h8⟩ := h; cases up <;> fwd_cases)

theorem inv_addDownOther (s : St) (h : Inv s) : Inv (step s .addDownOther) := by
  obtain ⟨alive, sync, down, uh, ud, cs, raa, bl, uo, up, depth, dother⟩ := s
  simp only [step]; obtain ⟨h1, h2, h3, h4, h5, h6, h7, h8⟩ := h; fwd_cases

theorem inv_removeDownOther (s : St) (h : Inv s) : Inv (step s .removeDownOther) := by
  simp only [step]; split
  · apply inv_releaseBlocked
    obtain ⟨alive, sync, down, uh, ud, cs, raa, bl, uo, up, depth, dother⟩ := s; obtain ⟨h1, h2, h3, h4, h5, h6, h7, h8⟩ := h
    fwd_cases
  · exact h

theorem inv_step (s : St) (op : Op) (h : Inv s) : Inv (step s op) := by
  cases op with
  | setSync b => exact inv_setSync s b h
  | recvFulfilDown => exact inv_recvFulfilDown s h
  | recvFailDown => exact inv_recvFailDown s h
  | recvCsDown => exact inv_recvCsDown s h
  | recvRaaDown => exact inv_recvRaaDown s h
  | complete w => exact inv_complete s w h
  | handUpOther => exact inv_handUpOther s h
  | completeUpOther => exact inv_completeUpOther s h
  | crash lost => exact inv_crash s lost h
  | restart sy => exact inv_restart s sy h
  | chainPreimage => exact inv_chainPreimage s h
  | chainTimeout d => exact inv_chainTimeout s d h
  | addDownOther => exact inv_addDownOther s h
  | removeDownOther => exact inv_removeDownOther s h
  | sendFulfilUp => exact inv_sendFulfilUp s h
  | sendFailUp => exact inv_sendFailUp s h

theorem inv_run (s : St) (ops : List Op) (h : Inv s) : Inv (run s ops) := by
  induction ops generalizing s with
  | nil => exact h
  | cons op t ih => exact ih _ (inv_step s op h)

theorem inv_reachable (ops : List Op) : Inv (run init ops) := inv_run _ _ inv_init

/-- once the preimage update is with `chain::Watch`, completing it enables (and `sendFulfilUp` performs) the upstream claim -/
theorem claim_after_complete (t : St) (ha : t.alive = true) (hh : t.upPreimageHandedToWatch = true)
    (hp : t.up = .pending) : (run t [.complete .up, .sendFulfilUp]).up = .fulfilSent := by
  obtain ⟨alive, sync, down, uh, ud, cs, raa, bl, uo, up, depth, dother⟩ := t
  simp only at ha hh hp
  subst ha hh hp
  cases dother <;> cases sync <;> cases ud <;> cases raa <;> cases bl <;> cases uo <;>
    simp [run, step, releaseBlocked, runUpActions, upBusy, handRaa, fulfilAllowed]

/-! ### which fields the helper steps touch -/

theorem runUpActions_uh (s : St) : (runUpActions s).upPreimageHandedToWatch = s.upPreimageHandedToWatch := by
  unfold runUpActions releaseBlocked handRaa; repeat' split
  all_goals rfl
theorem runUpActions_ud (s : St) : (runUpActions s).upPreimageDurable = s.upPreimageDurable := by
  unfold runUpActions releaseBlocked handRaa; repeat' split
  all_goals rfl
theorem runUpActions_alive (s : St) : (runUpActions s).alive = s.alive := by
  unfold runUpActions releaseBlocked handRaa; repeat' split
  all_goals rfl
theorem runUpActions_up (s : St) : (runUpActions s).up = s.up := by
  unfold runUpActions releaseBlocked handRaa; repeat' split
  all_goals rfl

theorem claimUpstream_uh (s : St) : (claimUpstream s).upPreimageHandedToWatch = true := by
  unfold claimUpstream; split
  · rename_i h; rw [runUpActions_uh]; exact h
  · rw [runUpActions_uh]
theorem claimUpstream_alive (s : St) : (claimUpstream s).alive = s.alive := by
  unfold claimUpstream; split <;> rw [runUpActions_alive]
theorem claimUpstream_up (s : St) : (claimUpstream s).up = s.up := by
  unfold claimUpstream; split <;> rw [runUpActions_up]

theorem completeAll_uh (s : St) : (completeAll s).upPreimageHandedToWatch = s.upPreimageHandedToWatch := by
  simp only [completeAll, runUpActions_uh]
theorem completeAll_ud (s : St) : (completeAll s).upPreimageDurable = s.upPreimageHandedToWatch := by
  simp only [completeAll, runUpActions_ud]
theorem completeAll_alive (s : St) : (completeAll s).alive = s.alive := by
  simp only [completeAll, runUpActions_alive]
theorem completeAll_up (s : St) : (completeAll s).up = s.up := by
  simp only [completeAll, runUpActions_up]

/-- what `restart` does when a durable monitor knows the preimage and the upstream HTLC is pending -/
theorem restart_replays (s : St) (sy : Bool) (hdead : s.alive = false)
    (hk : (durDownKnowsPreimage s || durUpKnowsPreimage s) = true) (hp : s.up = .pending) :
    (step s (.restart sy)).alive = true ∧ (step s (.restart sy)).up = .pending ∧
    (step s (.restart sy)).upPreimageHandedToWatch = true ∧
    (sy = true → (step s (.restart sy)).upPreimageDurable = true) := by
  have hr : replayClaims { s with alive := true, sync := sy } = claimUpstream { s with alive := true, sync := sy } := by
    have hc : ((durDownKnowsPreimage { s with alive := true, sync := sy } || durUpKnowsPreimage { s with alive := true, sync := sy })
        && ({ s with alive := true, sync := sy } : St).up == .pending) = true := by
      show ((durDownKnowsPreimage s || durUpKnowsPreimage s) && s.up == .pending) = true
      rw [hk, hp]; rfl
    unfold replayClaims; rw [if_pos hc]
  have hstep : step s (.restart sy) = runUpActions (if sy = true then completeAll (claimUpstream { s with alive := true, sync := sy })
      else claimUpstream { s with alive := true, sync := sy }) := by
    simp only [step, hdead, Bool.false_eq_true, if_false, hr]
  rw [hstep]
  cases sy <;>
    simp [hp, runUpActions_uh, runUpActions_ud, runUpActions_alive, runUpActions_up,
      claimUpstream_uh, claimUpstream_alive, claimUpstream_up, completeAll_uh, completeAll_ud, completeAll_alive,
      completeAll_up]

end Ldk.Forward
