/- Helper lemmas for C02 (Props/C02.lean): the inductive invariant of the one-HTLC forwarding machine
   `Forward.step` and its preservation by every op (one lemma per op; small case splits + simp). -/
import LdkModel.Model.Forward
namespace Ldk.Forward
open Ldk

structure Inv (s : St) : Prop where
  dur_handed : s.upPreimageDurable = true → s.upPreimageHandedToWatch = true
  knows_handed : knowsPreimage s = true → s.upPreimageHandedToWatch = true
  raa_gate : s.down = .removedByFulfil → (s.downRaaUpdate = .handedToWatch ∨ s.downRaaUpdate = .durable) → s.upPreimageDurable = true
  raa_removed : s.downRaaUpdate ≠ .notYet → (s.down = .removedByFulfil ∨ s.down = .removedByFail)
  blocked_fulfil : s.downRaaUpdate = .blocked → s.down = .removedByFulfil
  fulfil_sent : s.up = .fulfilSent → s.upPreimageDurable = true
  fail_sent : s.up = .failSent → failAllowed s = true

theorem inv_init : Inv init := by
  constructor <;> simp [init, knowsPreimage, failAllowed]

macro "fwd_simp" : tactic => `(tactic| simp_all [knowsPreimage, failAllowed, fulfilAllowed, handRaa, releaseBlocked, claimUpstream, completeAll, durDownKnowsPreimage, durUpKnowsPreimage])
macro "fwd_cases" : tactic => `(tactic| (constructor <;> fwd_simp))

theorem inv_of_fields (s : St) (a b : Bool) (h : Inv s) : Inv { s with alive := a, sync := b } := by
  obtain ⟨h1, h2, h3, h4, h5, h6, h7⟩ := h
  constructor <;> simp_all [knowsPreimage, failAllowed]

theorem inv_releaseBlocked (s : St) (h : Inv s) : Inv (releaseBlocked s) := by
  obtain ⟨alive, sync, down, uh, ud, cs, raa, up, depth⟩ := s
  obtain ⟨h1, h2, h3, h4, h5, h6, h7⟩ := h
  cases sync <;> cases ud <;> cases raa <;> fwd_cases

theorem inv_claimUpstream (s : St) (h : Inv s) : Inv (claimUpstream s) := by
  obtain ⟨alive, sync, down, uh, ud, cs, raa, up, depth⟩ := s
  obtain ⟨h1, h2, h3, h4, h5, h6, h7⟩ := h
  cases sync <;> cases uh <;> cases raa <;> fwd_cases

theorem inv_completeAll (s : St) (h : Inv s) : Inv (completeAll s) := by
  obtain ⟨alive, sync, down, uh, ud, cs, raa, up, depth⟩ := s
  obtain ⟨h1, h2, h3, h4, h5, h6, h7⟩ := h
  cases sync <;> cases uh <;> cases raa <;> cases cs <;> fwd_cases

theorem inv_setSync (s : St) (b : Bool) (h : Inv s) : Inv (step s (.setSync b)) := by
  simp only [step]; split <;> first | exact h | exact inv_of_fields s s.alive b h

theorem inv_recvFulfilDown (s : St) (h : Inv s) : Inv (step s .recvFulfilDown) := by
  obtain ⟨alive, sync, down, uh, ud, cs, raa, up, depth⟩ := s
  simp only [step]; split <;> first | exact h | (obtain ⟨h1, h2, h3, h4, h5, h6, h7⟩ := h; cases uh <;> cases sync <;> fwd_cases)

theorem inv_recvFailDown (s : St) (h : Inv s) : Inv (step s .recvFailDown) := by
  obtain ⟨alive, sync, down, uh, ud, cs, raa, up, depth⟩ := s
  simp only [step]; split <;> first | exact h | (obtain ⟨h1, h2, h3, h4, h5, h6, h7⟩ := h; fwd_cases)

theorem inv_recvCsDown (s : St) (h : Inv s) : Inv (step s .recvCsDown) := by
  obtain ⟨alive, sync, down, uh, ud, cs, raa, up, depth⟩ := s
  simp only [step]; split <;> first | exact h | (obtain ⟨h1, h2, h3, h4, h5, h6, h7⟩ := h; cases sync <;> fwd_cases)

theorem inv_recvRaaDown (s : St) (h : Inv s) : Inv (step s .recvRaaDown) := by
  obtain ⟨alive, sync, down, uh, ud, cs, raa, up, depth⟩ := s
  simp only [step]; split
  · split
    · split <;> (obtain ⟨h1, h2, h3, h4, h5, h6, h7⟩ := h; cases sync <;> fwd_cases)
    · (obtain ⟨h1, h2, h3, h4, h5, h6, h7⟩ := h; cases sync <;> fwd_cases)
    · exact h
  · exact h

theorem inv_complete (s : St) (w : Which) (h : Inv s) : Inv (step s (.complete w)) := by
  obtain ⟨alive, sync, down, uh, ud, cs, raa, up, depth⟩ := s
  cases w <;> simp only [step] <;> split <;> first | exact h | (obtain ⟨h1, h2, h3, h4, h5, h6, h7⟩ := h; cases sync <;> cases raa <;> fwd_cases)

theorem inv_crash (s : St) (lost : Bool) (h : Inv s) : Inv (step s (.crash lost)) := by
  obtain ⟨alive, sync, down, uh, ud, cs, raa, up, depth⟩ := s
  simp only [step]; split
  · split <;> (obtain ⟨h1, h2, h3, h4, h5, h6, h7⟩ := h; cases raa <;> cases cs <;> fwd_cases)
  · exact h

theorem inv_restart (s : St) (sy : Bool) (h : Inv s) : Inv (step s (.restart sy)) := by
  simp only [step]; split
  · exact h
  · apply inv_releaseBlocked
    have hs1 := inv_of_fields _ true sy h
    split
    · apply inv_completeAll
      split
      · exact inv_claimUpstream _ hs1
      · exact hs1
    · split
      · exact inv_claimUpstream _ hs1
      · exact hs1

theorem inv_chainPreimage (s : St) (h : Inv s) : Inv (step s .chainPreimage) := by
  obtain ⟨alive, sync, down, uh, ud, cs, raa, up, depth⟩ := s
  simp only [step]; split <;> first | exact h | (obtain ⟨h1, h2, h3, h4, h5, h6, h7⟩ := h; cases down <;> cases uh <;> cases sync <;> cases raa <;> fwd_cases)

theorem inv_chainTimeout (s : St) (d : Nat) (h : Inv s) : Inv (step s (.chainTimeout d)) := by
  obtain ⟨alive, sync, down, uh, ud, cs, raa, up, depth⟩ := s
  simp only [step]; split <;> first | exact h | (obtain ⟨h1, h2, h3, h4, h5, h6, h7⟩ := h; cases down <;> cases raa <;> fwd_cases)

theorem inv_sendFulfilUp (s : St) (h : Inv s) : Inv (step s .sendFulfilUp) := by
  obtain ⟨alive, sync, down, uh, ud, cs, raa, up, depth⟩ := s
  simp only [step]; split <;> first | exact h | (obtain ⟨h1, h2, h3, h4, h5, h6, h7⟩ := h; cases up <;> cases ud <;> fwd_cases)

theorem inv_sendFailUp (s : St) (h : Inv s) : Inv (step s .sendFailUp) := by
  obtain ⟨alive, sync, down, uh, ud, cs, raa, up, depth⟩ := s
  simp only [step]; split <;> first | exact h | (obtain ⟨h1, h2, h3, h4, h5, h6, h7⟩ := h; cases up <;> fwd_cases)

theorem inv_step (s : St) (op : Op) (h : Inv s) : Inv (step s op) := by
  cases op with
  | setSync b => exact inv_setSync s b h
  | recvFulfilDown => exact inv_recvFulfilDown s h
  | recvFailDown => exact inv_recvFailDown s h
  | recvCsDown => exact inv_recvCsDown s h
  | recvRaaDown => exact inv_recvRaaDown s h
  | complete w => exact inv_complete s w h
  | crash lost => exact inv_crash s lost h
  | restart sy => exact inv_restart s sy h
  | chainPreimage => exact inv_chainPreimage s h
  | chainTimeout d => exact inv_chainTimeout s d h
  | sendFulfilUp => exact inv_sendFulfilUp s h
  | sendFailUp => exact inv_sendFailUp s h

theorem inv_run (s : St) (ops : List Op) (h : Inv s) : Inv (run s ops) := by
  induction ops generalizing s with
  | nil => exact h
  | cons op t ih => exact ih _ (inv_step s op h)

theorem inv_reachable (ops : List Op) : Inv (run init ops) := inv_run _ _ inv_init
/-- once the preimage update is with `chain::Watch`, completing it enables (and `sendFulfilUp` performs) the upstream claim -/
theorem claim_after_complete (t : St) (ha : t.alive = true) (hh : t.upPreimageHandedToWatch = true)
    (hp : t.up = .pending) : (run t [.complete .up, .sendFulfilUp]).up = .fulfilSent := by
  obtain ⟨alive, sync, down, uh, ud, cs, raa, up, depth⟩ := t
  simp only at ha hh hp
  subst ha hh hp
  cases sync <;> cases ud <;> cases raa <;>
    simp [run, step, releaseBlocked, handRaa, fulfilAllowed]

end Ldk.Forward
