/- helper lemmas for the `claim_in_time` theorems of Props/C07.lean (Model/ClaimTime.lean) -/
import LdkModel.Model.ClaimTime
import LdkModel.Proofs.Package
import LdkModel.Proofs.OnchainClaims
namespace Ldk.ClaimTime
open Ldk Ldk.Pkg Ldk.ClaimTiming Ldk.Onchain

/-! ### firstHeight -/

/-- for a THRESHOLD predicate (`p h ↔ T ≤ h`) the first height from `s` on is `max s T` (if within the horizon) -/
theorem firstHeight_threshold (p : Nat → Bool) (T : Nat) (hp : ∀ h, p h = decide (T ≤ h)) :
    ∀ (fuel s : Nat), firstHeight p s fuel = if Nat.max s T < s + fuel then some (Nat.max s T) else none := by
  intro fuel
  induction fuel with
  | zero =>
    intro s
    have : ¬ (Nat.max s T < s + 0) := by
      rw [pf_nat_max_eq]
      omega
    simp only [firstHeight, this, if_false]
  | succ n ih =>
    intro s
    unfold firstHeight
    rw [hp s]
    by_cases hT : T ≤ s
    · have hm : Nat.max s T = s := Nat.max_eq_left hT
      simp [hT, hm]
    · have hm : Nat.max s T = T := Nat.max_eq_right (by omega)
      have hm' : Nat.max (s + 1) T = T := Nat.max_eq_right (by omega)
      simp only [hT, decide_false, Bool.false_eq_true, if_false]
      rw [ih (s + 1), hm, hm']
      have e : s + 1 + n = s + (n + 1) := by omega
      rw [e]

/-- soundness + minimality for ANY predicate -/
theorem firstHeight_some (p : Nat → Bool) : ∀ (fuel s h : Nat), firstHeight p s fuel = some h →
    s ≤ h ∧ h < s + fuel ∧ p h = true ∧ ∀ k, s ≤ k → k < h → p k = false := by
  intro fuel
  induction fuel with
  | zero => intro s h hh; simp [firstHeight] at hh
  | succ n ih =>
    intro s h hh
    unfold firstHeight at hh
    by_cases hps : p s = true
    · simp only [hps, if_true, Option.some.injEq] at hh
      subst hh
      exact ⟨Nat.le_refl _, by omega, hps, fun k h1 h2 => by omega⟩
    · simp only [hps, Bool.false_eq_true, if_false] at hh
      obtain ⟨a, b, c, d⟩ := ih (s + 1) h hh
      refine ⟨by omega, by omega, c, fun k h1 h2 => ?_⟩
      by_cases hk : k = s
      · subst hk; simpa using hps
      · exact d k (by omega) h2

/-- completeness: the first height with `p` IS found -/
theorem firstHeight_complete (p : Nat → Bool) : ∀ (fuel s h : Nat), s ≤ h → h < s + fuel → p h = true →
    (∀ k, s ≤ k → k < h → p k = false) → firstHeight p s fuel = some h := by
  intro fuel
  induction fuel with
  | zero => intro s h h1 h2; omega
  | succ n ih =>
    intro s h h1 h2 hp hmin
    unfold firstHeight
    by_cases hs : s = h
    · subst hs; simp [hp]
    · have : p s = false := hmin s (Nat.le_refl _) (by omega)
      simp only [this, Bool.false_eq_true, if_false]
      exact ih (s + 1) h (by omega) (by omega) hp (fun k a b => hmin k (by omega) b)

/-- with several HTLCs pending the monitor goes on chain at the EARLIEST of the single-HTLC heights -/
theorem firstOnchain_spec (htlcs : List ScanHtlc) (start fuel h : Nat) (hh : firstOnchain htlcs start fuel = some h) :
    (∃ x ∈ htlcs, goesOnchainAt x.1 x.2.1 x.2.2 start fuel = some h) ∧
    (∀ x ∈ htlcs, ∀ hx, goesOnchainAt x.1 x.2.1 x.2.2 start fuel = some hx → h ≤ hx) := by
  obtain ⟨h1, h2, h3, h4⟩ := firstHeight_some _ fuel start h hh
  constructor
  · obtain ⟨x, hx, hpx⟩ := List.any_eq_true.1 h3
    refine ⟨x, hx, firstHeight_complete _ fuel start h h1 h2 hpx ?_⟩
    intro k a b
    have := h4 k a b
    rw [List.any_eq_false] at this
    simpa using this x hx
  · intro x hx hx' hg
    obtain ⟨g1, g2, g3, _⟩ := firstHeight_some _ fuel start hx' hg
    by_cases hlt : hx' < h
    · have := h4 hx' g1 hlt
      rw [List.any_eq_false] at this
      have := this x hx
      simp only [g3] at this
      exact absurd trivial this
    · omega

theorem shouldBroadcast_inbound (h c : Nat) :
    shouldBroadcastFor h c false true = decide (c - CLTV_CLAIM_BUFFER ≤ h) := by
  have hc : CLTV_CLAIM_BUFFER = 36 := rfl
  unfold shouldBroadcastFor
  simp only [Bool.false_and, Bool.false_or, Bool.not_false, Bool.true_and, Bool.and_true]
  by_cases h1 : c ≤ h + CLTV_CLAIM_BUFFER
  · have : c - CLTV_CLAIM_BUFFER ≤ h := by omega
    simp [h1, this]
  · have : ¬ (c - CLTV_CLAIM_BUFFER ≤ h) := by omega
    simp [h1, this]

theorem shouldBroadcast_outbound (h c : Nat) (pre : Bool) :
    shouldBroadcastFor h c true pre = decide (c + LATENCY_GRACE_PERIOD_BLOCKS ≤ h) := by
  unfold shouldBroadcastFor
  simp

theorem shouldBroadcast_no_preimage (h c : Nat) : shouldBroadcastFor h c false false = false := by
  unfold shouldBroadcastFor
  simp

theorem releasedFromPark_eq (lt h : Nat) : releasedFromPark lt h = decide (lt ≤ h) := by
  unfold releasedFromPark splitOffKey
  by_cases h1 : lt ≤ h
  · have : lt < h + 1 := by omega
    simp [h1, this]
  · have : ¬ (lt < h + 1) := by omega
    simp [h1, this]

/-! ### the re-issue schedule -/

theorem issueTimer_bounds (h csh : Nat) (inputs : List PkgInput) :
    h < issueTimer h csh inputs ∧ issueTimer h csh inputs ≤ h + LOW_FREQUENCY_BUMP_INTERVAL := by
  obtain ⟨a, b, _⟩ := bump_progress_core h csh inputs
  exact ⟨a, b⟩

theorem timerFires_iff (cur timer : Nat) : timerFires cur timer = true ↔ timer ≤ cur := by
  unfold timerFires
  simp

/-- every issue height is at or after the stored timer and inside the horizon -/
theorem issueHeights_mem (csh : Nat) (inputs : List PkgInput) : ∀ (fuel cur timer : Nat), cur ≤ timer →
    ∀ h ∈ issueHeights csh inputs fuel cur timer, timer ≤ h ∧ h < cur + fuel := by
  intro fuel
  induction fuel with
  | zero => intro cur timer _ h hh; simp [issueHeights] at hh
  | succ n ih =>
    intro cur timer hct h hh
    unfold issueHeights at hh
    by_cases hf : timerFires cur timer = true
    · have hle := (timerFires_iff cur timer).1 hf
      simp only [hf, if_true, List.mem_cons] at hh
      have hb := issueTimer_bounds cur csh inputs
      rcases hh with rfl | hh
      · omega
      · have := ih (cur + 1) _ (by omega) h hh
        omega
    · simp only [hf, Bool.false_eq_true, if_false] at hh
      have hlt : cur < timer := by
        have : ¬ timer ≤ cur := fun h => hf ((timerFires_iff cur timer).2 h)
        omega
      have := ih (cur + 1) timer (by omega) h hh
      omega

/-- the first issue happens exactly at the stored timer -/
theorem issueHeights_head (csh : Nat) (inputs : List PkgInput) : ∀ (fuel cur timer : Nat), cur ≤ timer → timer < cur + fuel →
    ∃ rest, issueHeights csh inputs fuel cur timer = timer :: rest := by
  intro fuel
  induction fuel with
  | zero => intro cur timer h1 h2; omega
  | succ n ih =>
    intro cur timer h1 h2
    unfold issueHeights
    by_cases hf : timerFires cur timer = true
    · have hle := (timerFires_iff cur timer).1 hf
      have : cur = timer := by omega
      subst this
      simp only [hf, if_true]
      exact ⟨_, rfl⟩
    · simp only [hf, Bool.false_eq_true, if_false]
      have hlt : cur < timer := by
        have : ¬ timer ≤ cur := fun h => hf ((timerFires_iff cur timer).2 h)
        omega
      exact ih (cur + 1) timer (by omega) (by omega)

/-- `r` holds between every two neighbours of the list -/
def Stepwise (r : Nat → Nat → Prop) : List Nat → Prop
  | [] => True
  | [_] => True
  | a :: b :: rest => r a b ∧ Stepwise r (b :: rest)

/-- successive issues are strictly later and at most LOW_FREQUENCY_BUMP_INTERVAL apart -/
theorem issueHeights_chain (csh : Nat) (inputs : List PkgInput) : ∀ (fuel cur timer : Nat), cur ≤ timer →
    Stepwise (fun a b => a < b ∧ b ≤ a + LOW_FREQUENCY_BUMP_INTERVAL) (issueHeights csh inputs fuel cur timer) := by
  intro fuel
  induction fuel with
  | zero => intro cur timer _; simp [issueHeights, Stepwise]
  | succ n ih =>
    intro cur timer hct
    unfold issueHeights
    by_cases hf : timerFires cur timer = true
    · simp only [hf, if_true]
      have hb := issueTimer_bounds cur csh inputs
      have hrest := ih (cur + 1) (issueTimer cur csh inputs) (by omega)
      by_cases hin : issueTimer cur csh inputs < cur + 1 + n
      · obtain ⟨rest, hr⟩ := issueHeights_head csh inputs n (cur + 1) _ (by omega) hin
        rw [hr] at hrest ⊢
        exact ⟨⟨hb.1, hb.2⟩, hrest⟩
      · -- the next timer lies beyond the horizon: no further issue
        have hnil : issueHeights csh inputs n (cur + 1) (issueTimer cur csh inputs) = [] := by
          cases hl : issueHeights csh inputs n (cur + 1) (issueTimer cur csh inputs) with
          | nil => rfl
          | cons x xs =>
            have := issueHeights_mem csh inputs n (cur + 1) (issueTimer cur csh inputs) (by omega) x (by rw [hl]; exact List.mem_cons_self)
            omega
        rw [hnil]
        trivial
    · simp only [hf, Bool.false_eq_true, if_false]
      have hlt : cur < timer := by
        have : ¬ timer ≤ cur := fun h => hf ((timerFires_iff cur timer).2 h)
        omega
      exact ih (cur + 1) timer (by omega)

/-- at EVERY height `t` of the horizon from the first issue on, the claim in flight was issued at most
    LOW_FREQUENCY_BUMP_INTERVAL - 1 blocks ago -/
theorem issueHeights_cover (csh : Nat) (inputs : List PkgInput) : ∀ (fuel cur timer : Nat), cur ≤ timer →
    ∀ t, timer ≤ t → t < cur + fuel →
      ∃ h ∈ issueHeights csh inputs fuel cur timer, h ≤ t ∧ t < h + LOW_FREQUENCY_BUMP_INTERVAL := by
  intro fuel
  induction fuel with
  | zero => intro cur timer h1 t h2 h3; omega
  | succ n ih =>
    intro cur timer hct t htt htf
    unfold issueHeights
    by_cases hf : timerFires cur timer = true
    · have hle := (timerFires_iff cur timer).1 hf
      simp only [hf, if_true]
      have hb := issueTimer_bounds cur csh inputs
      by_cases hlt : t < issueTimer cur csh inputs
      · exact ⟨cur, List.mem_cons_self, by omega, by omega⟩
      · obtain ⟨h, hm, h1, h2⟩ := ih (cur + 1) (issueTimer cur csh inputs) (by omega) t (by omega) (by omega)
        exact ⟨h, List.mem_cons_of_mem _ hm, h1, h2⟩
    · simp only [hf, Bool.false_eq_true, if_false]
      have hlt : cur < timer := by
        have : ¬ timer ≤ cur := fun h => hf ((timerFires_iff cur timer).2 h)
        omega
      exact ih (cur + 1) timer (by omega) t htt (by omega)

/-! ### feerates of the issues -/

/-- a ForceBump (first issue or timer-driven) never answers below the then-current bounded estimate -/
theorem computePackageFeerate_force_ge_est (prev est : Nat) :
    boundedSatPer1000Weight est ≤ computePackageFeerate prev .forceBump est := by
  have hu : U32_MAX = 4294967295 := rfl
  have hf : FEERATE_FLOOR_SATS_PER_KW = 253 := rfl
  unfold computePackageFeerate boundedSatPer1000Weight
  try unfold satAdd32
  simp only [pf_nat_max_eq, pf_nat_min_eq, decide_eq_true_eq, ne_eq, decide_not, Bool.not_eq_true', decide_eq_false_iff_not, gt_iff_lt]
  (repeat' split) <;> omega

theorem extTargets_length (steps : List (FeerateStrategy × Nat)) : ∀ prev, (extTargets prev steps).length = steps.length := by
  induction steps with
  | nil => intro prev; rfl
  | cons p rest ih => intro prev; obtain ⟨s, e⟩ := p; simp [extTargets, ih]

/-- position by position: a ForceBump call answers at least the bounded estimate it was given -/
theorem extTargets_force_ge_est (steps : List (FeerateStrategy × Nat)) : ∀ (prev i t : Nat) (e : Nat),
    (extTargets prev steps)[i]? = some t → steps[i]? = some (.forceBump, e) → boundedSatPer1000Weight e ≤ t := by
  induction steps with
  | nil => intro prev i t e h1 h2; simp at h2
  | cons p rest ih =>
    intro prev i t e h1 h2
    obtain ⟨s, est⟩ := p
    cases i with
    | zero =>
      simp only [extTargets, List.getElem?_cons_zero, Option.some.injEq] at h1 h2
      obtain ⟨rfl, rfl⟩ := Prod.mk.inj h2
      rw [← h1]
      exact computePackageFeerate_force_ge_est prev est
    | succ j =>
      simp only [extTargets, List.getElem?_cons_succ] at h1 h2
      exact ih _ j t e h1 h2

theorem issueCalls_length (est : Nat → Nat) (hs : List Nat) : (issueCalls est hs).length = hs.length := by
  cases hs <;> simp [issueCalls]

theorem issueCalls_get (est : Nat → Nat) (hs : List Nat) (i h : Nat) (hh : hs[i]? = some h) :
    (issueCalls est hs)[i]? = some (.forceBump, est h) := by
  cases hs with
  | nil => simp at hh
  | cons h0 rest =>
    cases i with
    | zero =>
      simp only [List.getElem?_cons_zero, Option.some.injEq] at hh
      subst hh
      rfl
    | succ j =>
      simp only [List.getElem?_cons_succ] at hh
      simp only [issueCalls, List.getElem?_cons_succ, List.getElem?_map, hh, Option.map_some]
      rfl

/-- every issue of the schedule carries a target at least the bounded estimate at ITS height -/
theorem issues_ge_est (csh : Nat) (inputs : List PkgInput) (est : Nat → Nat) (start fuel : Nat) :
    ∀ hr ∈ issues csh inputs est start fuel, boundedSatPer1000Weight (est hr.1) ≤ hr.2 := by
  intro hr hmem
  unfold issues at hmem
  simp only at hmem
  obtain ⟨i, hi⟩ := List.getElem?_of_mem hmem
  obtain ⟨h, r⟩ := hr
  rw [List.getElem?_zip_eq_some] at hi
  obtain ⟨h1, h2⟩ := hi
  exact extTargets_force_ge_est _ 0 i r (est h) h2 (issueCalls_get est _ i h h1)

/-- the heights of `issues` are exactly `issueHeights` -/
theorem issues_heights (csh : Nat) (inputs : List PkgInput) (est : Nat → Nat) (start fuel : Nat) :
    (issues csh inputs est start fuel).map (·.1) = issueHeights csh inputs fuel start start := by
  unfold issues issueTargets
  simp only
  apply List.map_fst_zip
  rw [extTargets_length, issueCalls_length]
  exact Nat.le_refl _

theorem firstHeight_never (p : Nat → Bool) (hp : ∀ h, p h = false) : ∀ (fuel s : Nat), firstHeight p s fuel = none := by
  intro fuel
  induction fuel with
  | zero => intro s; rfl
  | succ n ih => intro s; simp [firstHeight, hp s, ih]

theorem issueCalls_mem (est : Nat → Nat) (hs : List Nat) : ∀ p ∈ issueCalls est hs, ∃ h, p.2 = est h := by
  intro p hp
  cases hs with
  | nil => simp [issueCalls] at hp
  | cons h0 rest =>
    simp only [issueCalls, List.mem_cons, List.mem_map] at hp
    rcases hp with rfl | ⟨h, _, rfl⟩
    · exact ⟨h0, rfl⟩
    · exact ⟨h, rfl⟩

/-- the issue at a height of the schedule, with its target -/
theorem issues_of_height (csh : Nat) (inputs : List PkgInput) (est : Nat → Nat) (start fuel h : Nat)
    (hh : h ∈ issueHeights csh inputs fuel start start) : ∃ r, (h, r) ∈ issues csh inputs est start fuel := by
  rw [← issues_heights csh inputs est start fuel] at hh
  obtain ⟨⟨h', r⟩, hm, rfl⟩ := List.mem_map.1 hh
  exact ⟨r, hm⟩

/-- a request parked for its locktime is issued exactly when the locktime is reached -/
theorem requestIssueHeight_eq (cur fuel b : Nat) (inputs : List PkgInput)
    (hb : requestIssueHeight cur inputs fuel = some b) : b = Nat.max cur (issueLocktime cur inputs) := by
  unfold requestIssueHeight at hb
  simp only at hb
  by_cases hp : parksPackage (issueLocktime cur inputs) cur = true
  · have hgt : cur < issueLocktime cur inputs := by simpa [parksPackage] using hp
    rw [if_pos hp, firstHeight_threshold _ (issueLocktime cur inputs) (fun h => releasedFromPark_eq _ h)] at hb
    split at hb
    · simp only [Option.some.injEq] at hb
      rw [← hb, pf_nat_max_eq, pf_nat_max_eq]
      omega
    · cases hb
  · have hle : issueLocktime cur inputs ≤ cur := by
      have : ¬ cur < issueLocktime cur inputs := by simpa [parksPackage] using hp
      omega
    rw [if_neg hp] at hb
    simp only [Option.some.injEq] at hb
    rw [← hb, pf_nat_max_eq]
    omega

/-- the nLockTime of the transaction built when the request is finally issued is final in the next block -/
theorem issueLocktime_le (cur : Nat) (inputs : List PkgInput) :
    issueLocktime (Nat.max cur (issueLocktime cur inputs)) inputs ≤ Nat.max cur (issueLocktime cur inputs) := by
  unfold issueLocktime packageLocktime
  simp only
  cases pkgSignedLocktime inputs with
  | some s => simp only [pf_nat_max_eq]; omega
  | none => simp only [pf_nat_max_eq]; omega

/-! ### once our claim of an output has confirmed, the output is ours — exactly once -/

/-- the entry's claim confirmed at `h` paying `n`, and it is (not yet / already) handed out -/
def Entry.fixed (h n : Nat) (e : Entry) : Prop := e.stage = .claimed h n ∨ e.stage = .matured n

theorem getElem?_modifyAt (xs : List Entry) (idx : Nat) (f : Entry → Entry) (i : Nat) :
    (modifyAt xs idx f)[i]? = (xs[i]?).map fun e => if i = idx then f e else e := by
  simp only [modifyAt, List.getElem?_mapIdx]

theorem bury_fixed (best h n : Nat) (e : Entry) (hp : Entry.fixed h n e) : Entry.fixed h n (e.bury best) ∧ (e.bury best).item = e.item := by
  refine ⟨?_, bury_item best e⟩
  rcases hp with hp | hp
  · unfold Entry.bury
    rw [hp]
    simp only
    split
    · right; rfl
    · left; exact hp
  · unfold Entry.bury
    rw [hp]
    right; exact hp

theorem step_fixed (l : Ledger) (o : Op) (i h n : Nat) (e : Entry) (he : l.entries[i]? = some e) (hp : Entry.fixed h n e) :
    ∃ e', (step l o).entries[i]? = some e' ∧ Entry.fixed h n e' ∧ e'.item = e.item := by
  have hnp : e.stage ≠ .pending := by rcases hp with hp | hp <;> rw [hp] <;> simp
  cases o with
  | block H =>
    refine ⟨e.bury (Nat.max l.best H), ?_, bury_fixed _ h n e hp⟩
    simp only [step, List.getElem?_map, he, Option.map_some]
  | claim idx h' net =>
    refine ⟨e, ?_, hp, rfl⟩
    simp only [step, getElem?_modifyAt, he, Option.map_some, Option.some.injEq]
    split
    · first | rfl | (rcases hp with hp | hp <;> simp [hp])
    · rfl
  | peerClaim idx h' =>
    refine ⟨e, ?_, hp, rfl⟩
    simp only [step, getElem?_modifyAt, he, Option.map_some, Option.some.injEq]
    split
    · first | rfl | (rcases hp with hp | hp <;> simp [hp])
    · rfl

theorem learn_not_pending (c : CloseCfg) (e : Entry) (h : e.stage ≠ .pending) : e.learn c = e := by
  unfold Entry.learn
  split
  · rename_i hs; exact absurd hs h
  · rfl

theorem hstep_fixed (hl : HLedger) (o : HOp) (i h n : Nat) (e : Entry) (he : hl.ledger.entries[i]? = some e) (hp : Entry.fixed h n e) :
    ∃ e', (hl.step o).ledger.entries[i]? = some e' ∧ Entry.fixed h n e' ∧ e'.item = e.item := by
  cases o with
  | op o => exact step_fixed hl.ledger o i h n e he hp
  | provide m =>
    have hnp : e.stage ≠ .pending := by rcases hp with hp | hp <;> rw [hp] <;> simp
    refine ⟨e, ?_, hp, rfl⟩
    simp only [HLedger.step, provide_getElem?, he, Option.map_some, Option.some.injEq]
    split
    · exact learn_not_pending _ e hnp
    · rfl

theorem hrun_fixed (ops : List HOp) : ∀ (hl : HLedger) (i h n : Nat) (e : Entry), hl.ledger.entries[i]? = some e → Entry.fixed h n e →
    ∃ e', (hl.run ops).ledger.entries[i]? = some e' ∧ Entry.fixed h n e' ∧ e'.item = e.item := by
  induction ops with
  | nil => intro hl i h n e he hp; exact ⟨e, he, hp, rfl⟩
  | cons o rest ih =>
    intro hl i h n e he hp
    obtain ⟨e1, h1, p1, i1⟩ := hstep_fixed hl o i h n e he hp
    obtain ⟨e2, h2, p2, i2⟩ := ih (hl.step o) i h n e1 h1 p1
    exact ⟨e2, by simpa [HLedger.run] using h2, p2, i2.trans i1⟩

/-- burial is irreversible -/
theorem hstep_matured (hl : HLedger) (o : HOp) (i n : Nat) (e : Entry) (he : hl.ledger.entries[i]? = some e) (hm : e.stage = .matured n) :
    ∃ e', (hl.step o).ledger.entries[i]? = some e' ∧ e'.stage = .matured n := by
  obtain ⟨e', h1, p1, _⟩ := hstep_fixed hl o i 0 n e he (Or.inr hm)
  refine ⟨e', h1, ?_⟩
  cases o with
  | op o =>
    cases o with
    | block H =>
      simp only [HLedger.step, step, List.getElem?_map, he, Option.map_some, Option.some.injEq] at h1
      rw [← h1]
      unfold Entry.bury
      rw [hm]
      exact hm
    | claim idx h' net =>
      simp only [HLedger.step, step, getElem?_modifyAt, he, Option.map_some, Option.some.injEq] at h1
      rw [← h1]
      split
      · simp only [hm]
      · exact hm
    | peerClaim idx h' =>
      simp only [HLedger.step, step, getElem?_modifyAt, he, Option.map_some, Option.some.injEq] at h1
      rw [← h1]
      split
      · simp only [hm]
      · exact hm
  | provide m =>
    simp only [HLedger.step, provide_getElem?, he, Option.map_some, Option.some.injEq] at h1
    rw [← h1]
    have hnp : e.stage ≠ .pending := by rw [hm]; simp
    split
    · rw [learn_not_pending _ e hnp]; exact hm
    · exact hm

theorem matured_stays (ops : List HOp) : ∀ (hl : HLedger) (i n : Nat) (e : Entry), hl.ledger.entries[i]? = some e → e.stage = .matured n →
    ∃ e', (hl.run ops).ledger.entries[i]? = some e' ∧ e'.stage = .matured n := by
  induction ops with
  | nil => intro hl i n e he hm; exact ⟨e, he, hm⟩
  | cons o rest ih =>
    intro hl i n e he hm
    obtain ⟨e1, h1, m1⟩ := hstep_matured hl o i n e he hm
    obtain ⟨e2, h2, m2⟩ := ih (hl.step o) i n e1 h1 m1
    exact ⟨e2, by simpa [HLedger.run] using h2, m2⟩

/-- the claim op on a still-pending entry the node may claim -/
theorem claim_pending (hl : HLedger) (i h net : Nat) (e : Entry) (he : hl.ledger.entries[i]? = some e)
    (hs : e.stage = .pending) (hk : e.item.kind ≠ .inboundHtlcUnknown) :
    (hl.step (.op (.claim i h net))).ledger.entries[i]? = some { e with stage := .claimed h (Nat.min net e.item.sat) } := by
  simp only [HLedger.step, step, getElem?_modifyAt, he, Option.map_some, if_true, hs, hk, if_false]

/-- a block at or above the confirmation threshold hands a fixed entry out -/
theorem bury_fixed_matured (best h n : Nat) (e : Entry) (hp : Entry.fixed h n e)
    (hb : confirmationThreshold h e.item.csv ≤ best) : (e.bury best).stage = .matured n := by
  rcases hp with hp | hp
  · unfold Entry.bury
    rw [hp]
    simp only [hasReachedConfirmationThreshold, ge_iff_le, hb, decide_true, if_true]
  · unfold Entry.bury
    rw [hp]
    exact hp

/-! ### the pre-confirmation view -/

theorem preHtlc_owned (h : PreHtlc) (hk : h.kind ≠ .toSelf) :
    h.claimingSat + (match h.balance with | some b => b.owned | none => 0) = h.item.entitled := by
  obtain ⟨k, a, c⟩ := h
  cases k <;> simp_all [PreHtlc.claimingSat, PreHtlc.balance, PreHtlc.item, Item.entitled, Bal.owned,
    preClaimingAmount, preOfferedAmount, preUnknownAmount]

theorem sum_filterMap_owned (hs : List PreHtlc) :
    Onchain.sum ((hs.filterMap PreHtlc.balance).map Bal.owned) =
      Onchain.sum (hs.map fun h => match h.balance with | some b => b.owned | none => 0) := by
  induction hs with
  | nil => rfl
  | cons h rest ih =>
    cases hb : h.balance with
    | none =>
      rw [List.filterMap_cons, hb]
      simp only [List.map_cons, Onchain.sum, List.foldr_cons, hb] at ih ⊢
      omega
    | some b =>
      rw [List.filterMap_cons, hb]
      simp only [List.map_cons, Onchain.sum, List.foldr_cons, hb] at ih ⊢
      omega

theorem preView_owned_eq (t : Nat) (hs : List PreHtlc) (hk : ∀ h ∈ hs, h.kind ≠ .toSelf) :
    (preView t hs).owned = t + Onchain.sum (hs.map fun h => h.item.entitled) := by
  unfold PreView.owned preView preOnCloseAmount
  simp only
  rw [sum_filterMap_owned]
  induction hs with
  | nil => simp [Onchain.sum]
  | cons h rest ih =>
    have h1 := preHtlc_owned h (hk h List.mem_cons_self)
    have h2 := ih (fun x hx => hk x (List.mem_cons_of_mem _ hx))
    simp only [List.map_cons, Onchain.sum, List.foldr_cons] at h2 ⊢
    omega

end Ldk.ClaimTime
