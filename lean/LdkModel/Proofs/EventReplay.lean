/- C10 — invariant of the event re-delivery model (Model/EventReplay.lean), for every table of pushes whose completion action
   sits on the terminal event only; instantiated with the GENERATED table in Props/C10. -/
import LdkModel.Model.EventReplay
namespace Ldk.Restart

/-- the completion action is carried only by the terminal event, and a full failure pushes a terminal event -/
structure GoodPushes (T : Pushes) : Prop where
  actionOnTerminal : ∀ p ∈ T true, p.2 = true → p.1 = true
  hasTerminal : (T true).any (·.1) = true

theorem failHtlcPushes_good : GoodPushes failHtlcPushes := by
  constructor
  · intro p hp; simp [failHtlcPushes] at hp; rcases hp with rfl | rfl <;> simp
  · decide

def relTerm (q : List QEv) : Prop := ∀ e ∈ q, e.release = true → e.terminal = true

structure EInv (s : ESt) : Prop where
  a : s.resolved = true → s.handledTerminal = true
  b1 : relTerm s.live.queue
  b2 : relTerm s.disk.queue
  c1 : s.live.part = false → s.handledTerminal = true ∨ s.live.terminalPending = true
  c2 : s.disk.part = false → s.handledTerminal = true ∨ s.disk.terminalPending = true
  d : s.failedOnchain = true → s.handledTerminal = true ∨ s.live.terminalPending = true
  e : s.failedOnchain = true → s.closed = true
  f : s.live.knows = true → s.closed = true
  f2 : s.disk.knows = true → s.closed = true

theorem einv_init : EInv ESt.init := by
  constructor <;> simp [ESt.init, relTerm, EMgr.terminalPending]

theorem fail_relTerm {T : Pushes} (hT : GoodPushes T) (m : EMgr) (w : Bool) (h : relTerm m.queue) : relTerm (m.fail T w).queue := by
  unfold EMgr.fail
  split
  · intro e he hr
    simp only [List.mem_append, List.mem_map] at he
    rcases he with he | ⟨p, hp, rfl⟩
    · exact h e he hr
    · simp only [Bool.and_eq_true] at hr
      exact hT.actionOnTerminal p hp hr.1
  · exact h

theorem fail_pending_of_part {T : Pushes} (hT : GoodPushes T) (m : EMgr) (w : Bool) (hp : m.part = true) :
    (m.fail T w).terminalPending = true := by
  have h := hT.hasTerminal
  simp only [List.any_eq_true] at h
  obtain ⟨p, hp1, hp2⟩ := h
  simp only [EMgr.fail, hp, if_true, EMgr.terminalPending, List.any_eq_true]
  exact ⟨⟨p.1, p.2 && w⟩, by simp only [List.mem_append, List.mem_map]; exact Or.inr ⟨p, hp1, rfl⟩, hp2⟩

theorem fail_pending_mono {T : Pushes} (m : EMgr) (w : Bool) (h : m.terminalPending = true) : (m.fail T w).terminalPending = true := by
  unfold EMgr.fail
  split
  · simp only [EMgr.terminalPending, List.any_append, Bool.or_eq_true] at *; exact Or.inl h
  · exact h

theorem fail_part {T : Pushes} (m : EMgr) (w : Bool) : (m.fail T w).part = false ∨ ((m.fail T w) = m) := by
  unfold EMgr.fail; split <;> simp

theorem fail_knows {T : Pushes} (m : EMgr) (w : Bool) : (m.fail T w).knows = m.knows := by
  unfold EMgr.fail; split <;> rfl

/-- after a fail, "part gone → terminal handled or pending" holds if it held before -/
theorem fail_c {T : Pushes} (hT : GoodPushes T) (m : EMgr) (w : Bool) (ht : Bool)
    (h : m.part = false → ht = true ∨ m.terminalPending = true) :
    (m.fail T w).part = false → ht = true ∨ (m.fail T w).terminalPending = true := by
  intro _
  cases hp : m.part
  · have : m.fail T w = m := by simp [EMgr.fail, hp]
    rw [this]; exact h hp
  · exact Or.inr (fail_pending_of_part hT m w hp)

theorem any_take_drop (q : List QEv) (k : Nat) (f : QEv → Bool) : q.any f = ((q.take k).any f || (q.drop k).any f) := by
  rw [← List.any_append, List.take_append_drop]

/-- what a reload yields, from what holds of the written copy and the monitor -/
theorem reload_props {T : Pushes} (hT : GoodPushes T) (d : EMgr) (closed fo res ht : Bool)
    (b2 : relTerm d.queue) (c2 : d.part = false → ht = true ∨ d.terminalPending = true)
    (a : res = true → ht = true) (e : fo = true → closed = true) (f2 : d.knows = true → closed = true) :
    let m := reloadE T d closed fo res
    relTerm m.queue ∧ (m.part = false → ht = true ∨ m.terminalPending = true) ∧
    (fo = true → ht = true ∨ m.terminalPending = true) ∧ (m.knows = true → closed = true) := by
  intro m
  cases closed
  · have hm : m = d := by simp [m, reloadE]
    rw [hm]
    refine ⟨b2, c2, ?_, f2⟩
    intro h; exact absurd (e h) (by simp)
  · obtain ⟨part, queue, knows⟩ := d
    cases res
    · -- the monitor still reports the HTLC
      cases fo
      · have hm : m = ⟨true, queue, true⟩ := by
          simp [m, reloadE, listedAsCurrent, listedAsOnchainFailed, staleHtlcFailed, insertOnStartup, closedBlock]
        rw [hm]
        exact ⟨b2, by simp, by simp, by simp⟩
      · have hm : m = (EMgr.mk true queue true).fail T true := by
          simp [m, reloadE, listedAsCurrent, listedAsOnchainFailed, staleHtlcFailed, insertOnStartup, closedBlock]
        rw [hm]
        have hp := fail_pending_of_part hT (EMgr.mk true queue true) true rfl
        exact ⟨fail_relTerm hT _ _ b2, fun _ => Or.inr hp, fun _ => Or.inr hp, by simp⟩
    · -- the HTLC is in htlcs_resolved_to_user: PaymentFailed was handled
      have hht : ht = true := a rfl
      refine ⟨?_, fun _ => Or.inl hht, fun _ => Or.inl hht, by simp⟩
      cases knows <;> cases part <;>
        simp [m, reloadE, listedAsCurrent, listedAsOnchainFailed, staleHtlcFailed, insertOnStartup, closedBlock] <;>
        first | exact b2 | exact fail_relTerm hT _ _ b2

theorem step_inv {T : Pushes} (hT : GoodPushes T) (s : ESt) (op : EOp) (h : EInv s) : EInv (estep T s op) := by
  cases op with
  | close =>
    exact ⟨h.a, h.b1, h.b2, h.c1, h.c2, h.d, fun _ => rfl, fun _ => rfl, fun _ => rfl⟩
  | persist =>
    exact ⟨h.a, h.b1, h.b1, h.c1, h.c1, h.d, h.e, h.f, h.f⟩
  | crash =>
    obtain ⟨p1, p2, p3, p4⟩ := reload_props hT s.disk s.closed s.failedOnchain s.resolved s.handledTerminal h.b2 h.c2 h.a h.e h.f2
    exact ⟨h.a, p1, h.b2, p2, h.c2, p3, h.e, p4, h.f2⟩
  | timeout =>
    simp only [estep]
    split
    · rename_i hc
      simp only [Bool.and_eq_true, Bool.not_eq_true'] at hc
      refine ⟨h.a, fail_relTerm hT _ _ h.b1, h.b2, fail_c hT _ _ _ h.c1, h.c2, ?_, fun _ => h.f hc.1, ?_, h.f2⟩
      · intro _
        cases hp : s.live.part
        · have hm : s.live.fail T true = s.live := by simp [EMgr.fail, hp]
          show _ ∨ (s.live.fail T true).terminalPending = true
          rw [hm]; exact h.c1 hp
        · exact Or.inr (fail_pending_of_part hT _ _ hp)
      · intro hk
        have : (s.live.fail T true).knows = true := hk
        rw [fail_knows] at this; exact h.f this
    · exact h
  | handle k =>
    have hsplit := any_take_drop s.live.queue k (·.terminal)
    have hrel : (s.live.queue.take k).any (·.release) = true → (s.live.queue.take k).any (·.terminal) = true := by
      intro hr
      simp only [List.any_eq_true] at hr ⊢
      obtain ⟨e, he, hre⟩ := hr
      exact ⟨e, he, h.b1 e (List.mem_of_mem_take he) hre⟩
    have hpend : s.handledTerminal = true ∨ s.live.terminalPending = true →
        (s.handledTerminal || (s.live.queue.take k).any (·.terminal)) = true ∨ (s.live.queue.drop k).any (·.terminal) = true := by
      intro hh
      rcases hh with hh | hh
      · exact Or.inl (by simp [hh])
      · simp only [EMgr.terminalPending] at hh
        rw [hsplit, Bool.or_eq_true] at hh
        rcases hh with hh | hh
        · exact Or.inl (by simp [hh])
        · exact Or.inr hh
    refine ⟨?_, ?_, h.b2, ?_, ?_, ?_, h.e, h.f, h.f2⟩
    · intro hr
      show (s.handledTerminal || (s.live.queue.take k).any (·.terminal)) = true
      have hr' : (s.resolved || (actionsOfHandledPrefixOnly && (s.live.queue.take k).any (·.release))) = true := hr
      simp only [Bool.or_eq_true, Bool.and_eq_true] at hr'
      rcases hr' with hr' | hr'
      · simp [h.a hr']
      · simp [hrel hr'.2]
    · intro e he hr
      exact h.b1 e (List.mem_of_mem_drop he) hr
    · intro hp; exact hpend (h.c1 hp)
    · intro hp
      rcases h.c2 hp with hh | hh
      · exact Or.inl (by show (s.handledTerminal || _) = true; simp [hh])
      · exact Or.inr hh
    · intro hf; exact hpend (h.d hf)

theorem run_inv {T : Pushes} (hT : GoodPushes T) (ops : List EOp) : EInv (erun T ops) := by
  unfold erun
  suffices ∀ s, EInv s → EInv (ops.foldl (estep T) s) from this _ einv_init
  induction ops with
  | nil => intro s h; exact h
  | cons op rest ih => intro s h; exact ih _ (step_inv hT s op h)

end Ldk.Restart
